(* C05 — validation clauses, proved on the specification automaton and transferred to the operational model through
   the refinement; the incoming-Interest gate. *)
From NDN Require Import Base.Prelude Spec.ExpressSpec Model.ExpressPipeline Proofs.ExpressBasics Proofs.ExpressSafety
  Proofs.ExpressInv Proofs.ExpressRec Proofs.ExpressTurn Proofs.ExpressRefine Proofs.ExpressMain.
Local Open Scope N_scope.

(* the validator supplied with Interest i answered v: at once (its mode) or through a VDone event *)
Definition verdict_given (h : list (tie * ev)) (i v : N) : Prop :=
  (exists m n cbp dig life t, In (m, Express i n cbp dig life (VImm v) t) h) \/ (exists m t, In (m, VDone i v t) h).
Definition data_received (h : list (tie * ev)) (d : N) : Prop := exists m n hs t, In (m, Data d n hs t) h.
Definition expressed_with (h : list (tie * ev)) (i : N) (vm : vmode) : Prop :=
  exists m n cbp dig life t, In (m, Express i n cbp dig life vm t) h.

(* what every state of the automaton owes to the history *)
Definition justified (fe : frontend) (h : list (tie * ev)) (i : N) (st : istate) : Prop :=
  match st with
  | INone => True
  | IPending r => expressed_with h i (s_vm r)
  | IValidating r d => expressed_with h i (s_vm r) /\ s_vm r = VDef /\ data_received h d
  | IDone (OGot d) => data_received h d /\ exists v, pass fe v = true /\ verdict_given h i v
  | IDone (OInvalid d v') => data_received h d /\ exists v, pass fe v = false /\ v' = norm_verdict fe v /\ verdict_given h i v
  | IDone _ => True
  end.

Lemma justified_mono fe h x i st : justified fe h i st -> justified fe (h ++ [x]) i st.
Proof.
  assert (M : forall y, In y h -> In y (h ++ [x])) by (intros; apply in_app_iff; auto).
  unfold justified, expressed_with, data_received, verdict_given. destruct st as [|r|r d|[d|d v'| | | |]]; auto.
  - intros [m [n [c [dg [l [t I]]]]]]. do 6 eexists. apply M, I.
  - intros [[m [n [c [dg [l [t I]]]]]] [V [m2 [n2 [hs [t2 I2]]]]]]. split; [do 6 eexists; apply M, I|]. split; auto. do 4 eexists. apply M, I2.
  - intros [[m2 [n2 [hs [t2 I2]]]] [v [P [G|G]]]]; (split; [do 4 eexists; apply M, I2|]); exists v; split; auto.
    + left. destruct G as [m [n [c [dg [l [t I]]]]]]. do 6 eexists. apply M, I.
    + right. destruct G as [m [t I]]. do 2 eexists. apply M, I.
  - intros [[m2 [n2 [hs [t2 I2]]]] [v [P [E [G|G]]]]]; (split; [do 4 eexists; apply M, I2|]); exists v; repeat split; auto.
    + left. destruct G as [m [n [c [dg [l [t I]]]]]]. do 6 eexists. apply M, I.
    + right. destruct G as [m [t I]]. do 2 eexists. apply M, I.
Qed.

Lemma justified_expire fe sb t h i st : justified fe h i st -> justified fe h i (expire fe sb t st).
Proof.
  destruct st as [|r|r d|o]; cbn; auto.
  - destruct (due sb (s_D r) t); cbn; auto.
  - destruct fe; auto. destruct (due sb (s_D r) t); cbn; auto.
Qed.

Lemma justified_step fe h i x :
  justified fe h i (spec_state fe h i) -> justified fe (h ++ [x]) i (spec_state fe (h ++ [x]) i).
Proof.
  intros J. unfold spec_state. rewrite fold_left_app. cbn [fold_left]. fold (spec_state fe h i).
  unfold spec_step. apply justified_expire.
  assert (J1 : justified fe (h ++ [x]) i (expire fe (match fst x with NoTie => false | _ => true end) (ev_time (snd x)) (spec_state fe h i)))
    by (apply justified_expire, justified_mono, J).
  assert (HERE : In x (h ++ [x])) by (apply in_app_iff; right; left; reflexivity).
  destruct x as [m e]. cbn [fst snd] in *.
  set (st := expire fe (match m with NoTie => false | _ => true end) (ev_time e) (spec_state fe h i)) in *.
  destruct e; destruct st as [|r|r d0|o]; cbn [react]; auto.
  - (* Express *) destruct (N.eqb_spec i0 i); [subst|exact J1]. cbn. do 6 eexists. exact HERE.
  - (* Data on Pending *)
    destruct (matches r n hash && (t <? s_D r)); [|exact J1]. cbn in J1.
    assert (DR : data_received (h ++ [(m, Data d n hash t)]) d) by (do 4 eexists; exact HERE).
    destruct (s_vm r) eqn:VM.
    + unfold verdict_outcome. destruct (pass fe v) eqn:P; cbn; split; auto; exists v; repeat split; auto;
        left; exact J1.
    + cbn. rewrite VM. split; [exact J1 | split; [reflexivity | exact DR]].
  - (* Nack *) destruct (name_eqb n (s_name r) && odig_eqb dig (s_dig r) && (t <? s_D r)); [exact I | exact J1].
  - (* VDone *)
    destruct ((i0 =? i) && match fe with V2 => t <? s_D r | V1 => true end) eqn:C; [|exact J1].
    apply andb_true_iff in C. destruct C as [C _]. apply N.eqb_eq in C. subst i0.
    cbn in J1. destruct J1 as [_ [_ DR]].
    unfold verdict_outcome. destruct (pass fe v) eqn:P; cbn; split; auto; exists v; repeat split; auto;
      right; do 2 eexists; exact HERE.
  - destruct (i0 =? i); [exact I | exact J1].
  - destruct (i0 =? i); [exact I | exact J1].
  - destruct (t <? s_D r); [exact I | exact J1].
Qed.

Lemma justified_all fe h i : justified fe h i (spec_state fe h i).
Proof.
  induction h as [|x h IH] using rev_ind; [exact I|]. apply justified_step, IH.
Qed.

(* ---- C05, Data side ---- *)
Theorem data_only_if_pass fe h i d :
  wf_history h -> completion (run_hist fe h) i = Some (OGot d) ->
  data_received h d /\ exists v, pass fe v = true /\ verdict_given h i v.
Proof.
  intros WF C. rewrite (outcome_correct fe h i WF) in C. unfold outcome_of in C.
  pose proof (justified_all fe h i) as J. destruct (spec_state fe h i); try discriminate. inversion C; subst. exact J.
Qed.

Theorem failure_carries_packet_and_verdict fe h i d v' :
  wf_history h -> completion (run_hist fe h) i = Some (OInvalid d v') ->
  data_received h d /\ exists v, pass fe v = false /\ v' = norm_verdict fe v /\ verdict_given h i v.
Proof.
  intros WF C. rewrite (outcome_correct fe h i WF) in C. unfold outcome_of in C.
  pose proof (justified_all fe h i) as J. destruct (spec_state fe h i); try discriminate. inversion C; subst. exact J.
Qed.

(* a validator (V2) that has not answered strictly before the deadline: the result is never the payload nor a
   validation failure - it is a timeout (or the caller's own cancellation) *)
Definition slow_event (i D : N) (x : tie * ev) : Prop :=
  match snd x with
  | VDone j v t => j = i -> D <= t
  | Cancel j t => j <> i
  | _ => True
  end.

Lemma slow_validator_spec i r d h2 :
  Forall (slow_event i (s_D r)) h2 ->
  forall st, (st = IValidating r d \/ st = IDone OTimeout) ->
  let st' := fold_left (spec_step V2 i) h2 st in
  (st' = IValidating r d \/ st' = IDone OTimeout) /\
  ((exists x, In x h2 /\ s_D r <= ev_time (snd x)) -> st' = IDone OTimeout).
Proof.
  induction 1 as [|x h2 SX _ IH]; intros st Hst; cbn [fold_left].
  - split; auto. intros [x [[] _]].
  - assert (STEP : (spec_step V2 i st x = IValidating r d \/ spec_step V2 i st x = IDone OTimeout) /\
                   (s_D r <= ev_time (snd x) -> spec_step V2 i st x = IDone OTimeout)).
    { destruct Hst as [-> | ->].
      - unfold spec_step. destruct x as [m e]. cbn [fst snd] in *. unfold slow_event in SX; cbn [snd] in SX.
        cbn [expire]. destruct (due (match m with NoTie => false | _ => true end) (s_D r) (ev_time e)) eqn:D1.
        + (* already expired by the pre-phase *)
          assert (R : react V2 i (IDone OTimeout) e = IDone OTimeout) by (destruct e; reflexivity).
          rewrite R. cbn [expire]. auto.
        + assert (R : react V2 i (IValidating r d) e = IValidating r d).
          { destruct e; cbn [react]; auto.
            - destruct (N.eqb_spec i0 i); cbn [andb]; auto. specialize (SX e). cbn [ev_time] in *.
              destruct (N.ltb_spec t (s_D r)); [lia | reflexivity].
            - destruct (N.eqb_spec i0 i); auto. congruence. }
          rewrite R. unfold expire, due. destruct (N.leb_spec (s_D r) (ev_time e)); split; auto; intros; lia.
      - assert (R : spec_step V2 i (IDone OTimeout) x = IDone OTimeout).
        { unfold spec_step. cbn [expire]. destruct (snd x); reflexivity. }
        rewrite R. auto. }
    destruct STEP as [S1 S2]. destruct (IH _ S1) as [A B]. split; [exact A|].
    intros [y [[<-|Iy] Ly]].
    + specialize (S2 Ly). cbv zeta in A, B |- *. rewrite S2.
      clear. induction h2 as [|z h2 IHh]; [reflexivity|]. cbn [fold_left].
      assert (R : spec_step V2 i (IDone OTimeout) z = IDone OTimeout).
      { unfold spec_step. cbn [expire]. destruct (snd z); reflexivity. }
      rewrite R. apply IHh.
    + apply B. eauto.
Qed.

Theorem slow_validator_is_timeout h1 h2 i r d :
  wf_history (h1 ++ h2) -> spec_state V2 h1 i = IValidating r d ->
  Forall (slow_event i (s_D r)) h2 ->
  (completion (run_hist V2 (h1 ++ h2)) i = None \/ completion (run_hist V2 (h1 ++ h2)) i = Some OTimeout) /\
  ((exists x, In x h2 /\ s_D r <= ev_time (snd x)) -> completion (run_hist V2 (h1 ++ h2)) i = Some OTimeout).
Proof.
  intros WF V SL. rewrite (outcome_correct V2 _ i WF). unfold outcome_of, spec_state. rewrite fold_left_app.
  fold (spec_state V2 h1 i). rewrite V.
  destruct (slow_validator_spec i r d h2 SL (IValidating r d) (or_introl eq_refl)) as [A B]. cbv zeta in A, B.
  split.
  - destruct A as [-> | ->]; auto.
  - intros E. rewrite (B E). reflexivity.
Qed.

(* ---- C05, Interest side: the gate ---- *)
Theorem gate_iff fe dv f k hd hasv :
  gate fe dv f k = Some (hd, hasv) <->
  (exists p, lpm f (k_name k) = Some (p, (hd, hasv))) /\ may_deliver fe (in_force fe hasv dv) k = true.
Proof.
  unfold gate, may_deliver, in_force, plain, signed, validator_accepts, sha256_digest_checker.
  destruct (lpm f (k_name k)) as [[p [h0 hv0]]|]; [|split; [discriminate | intros [[p E] _]; discriminate]].
  destruct k as [kid kn kp ks kd kv]; cbn [k_name k_params k_sig k_digest_ok k_verdict].
  destruct fe, dv, kp, (ks =? 0), kd, hv0; cbn [negb andb orb];
    try destruct (pass V2 kv); try destruct (pass V1 kv); try destruct (ks =? 2); cbn [negb andb orb];
    (split; [intros E; first [discriminate E | (inversion E; subst; split; [eexists; reflexivity | reflexivity])]
            | intros [[p' E] M]; inversion E; subst; first [reflexivity | discriminate M]]).
Qed.

Definition gate_log_ok (fe : frontend) (s : st) : Prop :=
  forall hd k, In (hd, k) (hcalls s) -> exists own, may_deliver fe own k = true.

Lemma hcalls_settle fe s : hcalls (settle fe s) = hcalls s. Proof. reflexivity. Qed.
Lemma hcalls_fire b t s : hcalls (fire b t s) = hcalls s. Proof. reflexivity. Qed.
Lemma fib_settle fe s : fib (settle fe s) = fib s. Proof. reflexivity. Qed.
Lemma fib_fire b t s : fib (fire b t s) = fib s. Proof. reflexivity. Qed.
Lemma dflt_settle fe s : dflt (settle fe s) = dflt s. Proof. reflexivity. Qed.
Lemma dflt_fire b t s : dflt (fire b t s) = dflt s. Proof. reflexivity. Qed.

Lemma hcalls_apply fe s e :
  hcalls (apply fe s e) = hcalls s \/
  exists hd hv k, gate fe (dflt s) (fib s) k = Some (hd, hv) /\ hcalls (apply fe s e) = hcalls s ++ [(hd, k)].
Proof.
  destruct e; cbn [apply]; try (left; reflexivity).
  - left. unfold do_express. destruct (shut s); [reflexivity|]. destruct (al_mem N.eqb (ints s) i); [reflexivity|].
    destruct (pit_get (pit s) n) as [[? ?]|]; reflexivity.
  - left. unfold do_shutdown. destruct (shut s); reflexivity.
  - left. unfold do_attach. destruct (al_mem name_eqb (fib s) p); reflexivity.
  - unfold do_incoming. cbn [hcalls]. destruct (gate fe (dflt s) (fib s) _) as [[hd hv]|] eqn:G; [right; eauto | left; reflexivity].
Qed.

Lemma gate_log_step fe s x : gate_log_ok fe s -> gate_log_ok fe (step fe s x).
Proof.
  intros H. unfold gate_log_ok, step. rewrite hcalls_settle, hcalls_fire.
  set (s1 := pre fe (fst x) (N.max (now s) (ev_time (snd x))) (set_now s (N.max (now s) (ev_time (snd x))))).
  assert (P : hcalls s1 = hcalls s) by (unfold s1, pre; destruct (fst x); reflexivity).
  destruct (hcalls_apply fe s1 (snd x)) as [E | [hd [hv [k [G E]]]]]; rewrite E, P; [exact H|].
  intros hd' k' I. apply in_app_iff in I. destruct I as [I|[X|[]]]; [eauto|]. inversion X; subst.
  apply gate_iff in G. destruct G as [_ M]. eauto.
Qed.

Theorem interest_gate fe h hd k :
  In (hd, k) (hcalls (run_hist fe h)) -> exists own, may_deliver fe own k = true.
Proof.
  assert (G : forall s, gate_log_ok fe s -> gate_log_ok fe (fold_left (step fe) h s)).
  { induction h as [|x h IH]; cbn; auto. intros s H. apply IH, gate_log_step, H. }
  apply (G init). intros ? ? [].
Qed.

(* ---- the validator in force: the application-wide validator is read when the Interest is dispatched ---- *)
Lemma dflt_apply fe s e :
  dflt (apply fe s e) = match e with SetDefault own _ => own | _ => dflt s end.
Proof.
  destruct e; cbn [apply]; try reflexivity.
  - unfold do_express. destruct (shut s); [reflexivity|]. destruct (al_mem N.eqb (ints s) i); [reflexivity|].
    destruct (pit_get (pit s) n) as [[? ?]|]; reflexivity.
  - unfold do_shutdown. destruct (shut s); reflexivity.
  - unfold do_attach. destruct (al_mem name_eqb (fib s) p); reflexivity.
Qed.

Lemma dflt_step fe s x :
  dflt (step fe s x) = match snd x with SetDefault own _ => own | _ => dflt s end.
Proof.
  unfold step. rewrite dflt_settle, dflt_fire, dflt_apply.
  assert (P : forall t, dflt (pre fe (fst x) t (set_now s t)) = dflt s) by (intros t; unfold pre; destruct (fst x); reflexivity).
  rewrite P. reflexivity.
Qed.

(* the model's app.int_validator after a history is the last SetDefault of that history *)
Theorem dflt_run fe h : dflt (run_hist fe h) = default_of h.
Proof.
  unfold run_hist, default_of.
  assert (G : forall s d, dflt s = d ->
              dflt (fold_left (step fe) h s)
              = fold_left (fun d x => match snd x with SetDefault own _ => own | _ => d end) h d).
  { induction h as [|x h IH]; cbn [fold_left]; intros s d E; [exact E|]. apply IH. rewrite dflt_step, E. reflexivity. }
  apply G. reflexivity.
Qed.

(* An Interest arriving after the history [h]: the handler of its longest-prefix route is called iff the
   specification allows delivery under the validator in force at that moment (route validator, else the application-wide
   validator as last set in [h]); nothing else is called. *)
Theorem incoming_after fe h m k n hp sg dok v t :
  let e := Incoming k n hp sg dok v t in
  let s := run_hist fe h in
  hcalls (run_hist fe (h ++ [(m, e)]))
  = hcalls s ++ match gate fe (default_of h) (fib s) (mkInc k n hp sg dok v) with
                | Some (hd, _) => [(hd, mkInc k n hp sg dok v)]
                | None => []
                end.
Proof.
  cbv zeta. unfold run_hist. rewrite fold_left_app. cbn [fold_left]. fold (run_hist fe h).
  rewrite <- (dflt_run fe h). set (s := run_hist fe h).
  unfold step. cbn [fst snd]. rewrite hcalls_settle, hcalls_fire. cbn [apply]. unfold do_incoming. cbn [hcalls].
  set (s1 := pre fe m _ _).
  assert (P1 : hcalls s1 = hcalls s) by (unfold s1, pre; destruct m; reflexivity).
  assert (P2 : fib s1 = fib s) by (unfold s1, pre; destruct m; reflexivity).
  assert (P3 : dflt s1 = dflt s) by (unfold s1, pre; destruct m; reflexivity).
  rewrite P1, P2, P3. destruct (gate fe (dflt s) (fib s) _) as [[hd hv]|]; [reflexivity | rewrite app_nil_r; reflexivity].
Qed.

Corollary incoming_after_iff fe h m k n hp sg dok v t hd :
  let kk := mkInc k n hp sg dok v in
  In (hd, kk) (hcalls (run_hist fe (h ++ [(m, Incoming k n hp sg dok v t)]))) ->
  In (hd, kk) (hcalls (run_hist fe h)) \/
  exists p hasv, lpm (fib (run_hist fe h)) n = Some (p, (hd, hasv)) /\
                 may_deliver fe (in_force fe hasv (default_of h)) kk = true.
Proof.
  cbv zeta. rewrite incoming_after. intros I. apply in_app_iff in I. destruct I as [I|I]; [left; exact I|]. right.
  destruct (gate fe (default_of h) (fib (run_hist fe h)) _) as [[hd' hv]|] eqn:G; [|destruct I].
  destruct I as [X|[]]. inversion X; subst hd'.
  apply gate_iff in G. destruct G as [[p L] M]. cbn [k_name] in L. eauto.
Qed.
