(* C02 (Interest): signed portion, digest portion and digest component of what make_interest sends. *)
From NDN Require Import Base.Prelude Model.TlvVar Model.Name Model.Tlv Model.Packet Model.PacketEnc
  Spec.TlvWf Spec.SignedPortion Generated.Schemas
  Proofs.BytesLemmas Proofs.TlvVarProofs Proofs.NameWire Proofs.TlvSplit Proofs.TlvAssign Proofs.TlvRoundtrip
  Proofs.TlvRoundtrip2 Proofs.TlvMore Proofs.PacketRoundtrip Proofs.SignedPortionProofs.
Local Open Scope N_scope.
Set Default Timeout 900.

Arguments N.of_nat : simpl never.
Arguments N.to_nat : simpl never.

(* ---- Interest ---------------------------------------------------------------------------------------- *)
Lemma comp_as_elem c : wf_comp64 c -> exists e, c = ser_elem e /\ el_ok e /\ comp_type c = e_type e.
Proof.
  intros (t & v & -> & Ht & Hv). exists (Elem t (N.of_nat (length v)) v). split; [reflexivity|]. split.
  - repeat split; assumption.
  - unfold comp_type, comp_enc. rewrite tl_dec_enc by exact Ht. reflexivity.
Qed.

Lemma components_concat n : forall fuel,
  Forall wf_comp64 n -> (length n < fuel)%nat -> components fuel (concat n) = Some n.
Proof.
  induction n as [|c n IH]; intros fuel H Hf.
  - destruct fuel; reflexivity.
  - inversion H as [|? ? Hc Hn]; subst. destruct (comp_as_elem c Hc) as (e & -> & Hok & _).
    destruct fuel as [|fuel]; [cbn in Hf; lia|]. cbn [concat].
    assert (Hne : ser_elem e ++ concat n <> []).
    { unfold ser_elem. pose proof (tlv_nonempty (e_type e) (e_payload e)). destruct (tlv _ _); [congruence|discriminate]. }
    cbn [components]. destruct (ser_elem e ++ concat n) as [|b0 w0] eqn:Ew; [congruence|]. rewrite <- Ew.
    rewrite next_element_ser by exact Hok. rewrite IH; [reflexivity|exact Hn|cbn in Hf; lia].
Qed.

Lemma value_of_type_first fuel e rest :
  el_ok e -> value_of_type (S fuel) (e_type e) (ser_elem e ++ rest) = Some (e_payload e).
Proof.
  intros Hok. cbn [value_of_type]. rewrite next_element_ser by exact Hok. rewrite N.eqb_refl.
  destruct Hok as (Ht & Hl & Hl2). unfold ser_elem, tlv.
  rewrite tl_dec_enc by exact Ht.
  rewrite skipn_app_exact' by (symmetry; apply tl_enc_length).
  rewrite <- Hl. rewrite tl_dec_enc by exact Hl2.
  rewrite app_assoc. rewrite skipn_app_exact' by (rewrite app_length, !tl_enc_length; reflexivity). reflexivity.
Qed.

(* what a successful scan of the name guarantees *)
Lemma scan_name_spec nd : forall n idx dp0 dp,
  scan_name nd idx dp0 n = Ok dp ->
  (match dp0 with
   | Some p0 => dp = Some p0 /\ Forall (fun c => comp_type c <> 2) n
   | None =>
       match dp with
       | None => Forall (fun c => comp_type c <> 2) n
       | Some p => nd = true /\ (idx <= p)%nat /\
                   exists a c b, n = a ++ c :: b /\ length a = (p - idx)%nat /\ comp_type c = 2 /\
                                 Forall (fun c => comp_type c <> 2) a /\ Forall (fun c => comp_type c <> 2) b
       end
   end).
Proof.
  induction n as [|c n IH]; intros idx dp0 dp H.
  - cbn in H. inversion H; subst. destruct dp; [split; [reflexivity|constructor]|constructor].
  - cbn [scan_name] in H. unfold comp_get_type in H.
    destruct (tl_dec c) as [[t sz]|] eqn:Et; [|discriminate]. cbn [bind fst] in H.
    assert (Ect : comp_type c = t) by (unfold comp_type; rewrite Et; reflexivity).
    destruct (t =? 0); [discriminate|].
    destruct (t =? TYPE_PARAMETERS_SHA256) eqn:E2.
    + apply N.eqb_eq in E2. unfold TYPE_PARAMETERS_SHA256 in E2.
      destruct nd; [|discriminate]. destruct dp0 as [p0|]; [discriminate|].
      destruct (negb _ || negb _); [discriminate|].
      specialize (IH _ _ _ H). cbn in IH. destruct IH as [-> Hall].
      split; [reflexivity|]. split; [lia|]. exists [], c, n. rewrite Nat.sub_diag.
      repeat split; try reflexivity; try assumption; [congruence|constructor].
    + apply N.eqb_neq in E2. unfold TYPE_PARAMETERS_SHA256 in E2.
      specialize (IH _ _ _ H). destruct dp0 as [p0|].
      * destruct IH as [-> Hall]. split; [reflexivity|]. constructor; [congruence|exact Hall].
      * destruct dp as [p|].
        -- destruct IH as (Hnd & Hle & a & c' & b & -> & Hla & Hc' & Ha & Hb).
           split; [exact Hnd|]. split; [lia|]. exists (c :: a), c', b. cbn [app length].
           repeat split; try assumption; [lia|constructor; [congruence|exact Ha]].
        -- constructor; [congruence|exact IH].
Qed.

Lemma filter_all {A} (f : A -> bool) l : Forall (fun x => f x = true) l -> filter f l = l.
Proof. induction 1 as [|x l Hx _ IH]; cbn; [reflexivity|]. rewrite Hx, IH. reflexivity. Qed.

Lemma ne2_filter l : Forall (fun c => comp_type c <> 2) l -> filter (fun c => negb (comp_type c =? 2)) l = l.
Proof.
  intros H. apply filter_all. eapply Forall_impl; [|exact H]. intros c Hc. cbn beta.
  apply negb_true_iff, N.eqb_neq. exact Hc.
Qed.

Lemma filter_none l : Forall (fun c => comp_type c <> 2) l -> filter (fun c => comp_type c =? 2) l = [].
Proof.
  induction 1 as [|x l Hx _ IH]; cbn [filter]; [reflexivity|].
  replace (comp_type x =? 2) with false by (symmetry; apply N.eqb_neq; exact Hx). exact IH.
Qed.

Lemma remove_nth_app {A} (a : list A) c b : remove_nth (a ++ c :: b) (length a) = a ++ b.
Proof. induction a as [|x a IH]; cbn [app length remove_nth]; [reflexivity|]. rewrite IH. reflexivity. Qed.
Lemma set_nth_app {A} (a : list A) c b x : set_nth (a ++ c :: b) (length a) x = a ++ x :: b.
Proof. induction a as [|y a IH]; cbn [app length set_nth]; [reflexivity|]. rewrite IH. reflexivity. Qed.

Lemma digest_comp_wf d : length d = 32%nat -> wf_comp64 (digest_comp d) /\ comp_type (digest_comp d) = 2.
Proof.
  intros Hd. assert (E : digest_comp d = comp_enc 2 d).
  { unfold digest_comp, comp_enc, TYPE_PARAMETERS_SHA256. rewrite Hd. reflexivity. }
  split.
  - exists 2, d. split; [exact E|]. rewrite Hd. unfold two64. split; [lia|]. cbn. lia.
  - rewrite E. unfold comp_type, comp_enc. rewrite tl_dec_enc by (unfold two64; lia). reflexivity.
Qed.

Lemma enc_uint_fits d t fx n w : enc_val (S d) t (KUint fx) (VUint n) = Ok w -> fits (KUint fx) (VUint n).
Proof.
  cbn [enc_val]. destruct (fixed_width fx n) as [wd|] eqn:E; [|discriminate]. cbn [bind].
  destruct (256 ^ N.of_nat wd <=? n) eqn:E2; [discriminate|]. intros _. econstructor; [exact E|lia].
Qed.

Lemma vuint_fits fs t k o w :
  kind_of fs t = Some k -> (exists fx, k = KUint fx) -> enc_by fs t (vuint o) = Ok w -> fits k (vuint o).
Proof.
  intros Hk (fx & ->) He. destruct o as [n|]; [|constructor]. unfold enc_by in He. rewrite Hk in He.
  unfold depth_of in He. eapply enc_uint_fits. exact He.
Qed.

Lemma ser_els_cons e l : ser_els (e :: l) = ser_elem e ++ ser_els l.
Proof. reflexivity. Qed.
Lemma ser_els_nil : ser_els [] = [].
Proof. reflexivity. Qed.
Ltac ser_norm :=
  cbn [app];
  repeat (rewrite ser_els_app || rewrite ser_els_cons || rewrite ser_els_nil);
  rewrite ?app_nil_r; repeat rewrite <- app_assoc; rewrite ?app_nil_r; reflexivity.

Section InterestPortion.
Variable sha : bytes -> bytes.
Variable sign : bytes -> bytes.
Hypothesis sha_len : forall x, length (sha x) = 32%nat.

Definition hint_value (h : list (list bytes)) : value :=
  match h with [] => VNone | l => VModel [VList (map VName l)] end.

(* C02 (Interest): signed portion, digest portion and digest component of the packet that is sent *)
Theorem interest_sign_covers_spec i m s :
  make_interest sha sign i = Ok m -> i_sig i = Some s ->
  N.of_nat (length (m_wire m)) < two64 ->
  Forall wf_comp64 (i_name i) ->
  fits (KModel [(7, KRepeated KName)] false) (hint_value (i_hint i)) ->
  fits (KModel ndn_format_0_3_SignatureInfo false) (si_info s) ->
  exists body,
    m_wire m = tlv TYPE_INTEREST body /\
    signed_portion_interest body = Some (m_sig_covered m) /\
    digest_portion body = Some (m_digest_covered m) /\
    digest_component body = Some (sha (m_digest_covered m)).
Proof.
  intros H Es Hl Hn Hfh Hfs. unfold make_interest in H. rewrite Es in H.
  set (app := match i_app i with Some a => Some a | None => Some [] end) in *.
  assert (Happ : exists a, app = Some a) by (unfold app; destruct (i_app i); eauto). destruct Happ as (a & Ea).
  replace (match Some s with Some _ => match i_app i with Some a0 => Some a0 | None => Some [] end | None => i_app i end)
    with app in H by reflexivity.
  rewrite Ea in H. cbn [vbytes] in H.
  destruct (scan_name true 0 None (i_name i)) as [dp|] eqn:Escan; [|discriminate]. cbn [bind] in H.
  remember (hint_value (i_hint i)) as hv eqn:Ehv.
  replace (match i_hint i with [] => VNone | _ :: _ => VModel [VList (map VName (i_hint i))] end) with hv in H
    by (subst hv; unfold hint_value; destruct (i_hint i); reflexivity).
  destruct (enc_by _ T_CAN_BE_PREFIX _) as [s1|] eqn:E1; [|discriminate]. cbn [bind] in H.
  destruct (enc_by _ T_MUST_BE_FRESH _) as [s2|] eqn:E2; [|discriminate]. cbn [bind] in H.
  destruct (enc_by _ T_FORWARDING_HINT _) as [s3|] eqn:E3; [|discriminate]. cbn [bind] in H.
  destruct (enc_by _ T_NONCE _) as [s4|] eqn:E4; [|discriminate]. cbn [bind] in H.
  destruct (enc_by _ T_LIFETIME _) as [s5|] eqn:E5; [|discriminate]. cbn [bind] in H.
  destruct (enc_by _ T_HOP_LIMIT _) as [s6|] eqn:E6; [|discriminate]. cbn [bind] in H.
  destruct (enc_by _ T_APP_PARAM _) as [s7|] eqn:E7; [|discriminate]. cbn [bind] in H.
  destruct (enc_by _ T_ISIG_INFO _) as [s8|] eqn:E8; [|discriminate]. cbn [bind] in H.
  destruct (check_sig_len (si_reserved s) _) as [[]|]; [|discriminate]. cbn [bind] in H.
  destruct (enc_by _ T_ISIG_VALUE _) as [s9|] eqn:E9; [|discriminate]. cbn [bind] in H.
  set (nnd := match dp with Some p => remove_nth (i_name i) p | None => i_name i end) in *.
  set (dcov := s7 ++ s8 ++ s9) in *.
  set (fname := match dp with Some p => set_nth (i_name i) p (digest_comp (sha dcov))
                            | None => i_name i ++ [digest_comp (sha dcov)] end) in *.
  remember (name_encode fname) as s_name eqn:En.
  inversion H; subst m. clear H. cbn [m_wire m_sig_covered m_digest_covered m_final_name] in *.
  eexists. split; [reflexivity|].
  unfold dcov in Hl. rewrite tlv_length, !app_length in Hl.
  pose proof (wf_fieldsb_spec _ wf_ndn_format_0_3_InterestPacketValue) as Hwf.
  (* element lists of the segments *)
  destruct (enc_by_els ndn_format_0_3_InterestPacketValue T_CAN_BE_PREFIX (vbool (i_cbp i)) s1 Hwf
              ltac:(intros k Hk; vm_compute in Hk; inversion Hk; subst; split; [destruct (i_cbp i); constructor|discriminate]) E1 ltac:(lia))
    as (l1 & -> & F1).
  destruct (enc_by_els ndn_format_0_3_InterestPacketValue T_MUST_BE_FRESH (vbool (i_mbf i)) s2 Hwf
              ltac:(intros k Hk; vm_compute in Hk; inversion Hk; subst; split; [destruct (i_mbf i); constructor|discriminate]) E2 ltac:(lia))
    as (l2 & -> & F2).
  replace (match i_hint i with [] => VNone | l0 :: l1 => VModel [VList (map VName (l0 :: l1))] end)
    with (hint_value (i_hint i)) in E3 by (destruct (i_hint i); reflexivity).
  destruct (enc_by_els ndn_format_0_3_InterestPacketValue T_FORWARDING_HINT (hint_value (i_hint i)) s3 Hwf
              ltac:(intros k Hk; vm_compute in Hk; inversion Hk; subst; split; [exact Hfh|discriminate]) E3 ltac:(lia))
    as (l3 & -> & F3).
  destruct (enc_by_els ndn_format_0_3_InterestPacketValue T_NONCE (vuint (i_nonce i)) s4 Hwf
              ltac:(intros k Hk; split; [eapply vuint_fits; [exact Hk| |exact E4]; vm_compute in Hk; inversion Hk; eauto
                                        |vm_compute in Hk; inversion Hk; discriminate]) E4 ltac:(lia))
    as (l4 & -> & F4).
  destruct (enc_by_els ndn_format_0_3_InterestPacketValue T_LIFETIME (vuint (i_life i)) s5 Hwf
              ltac:(intros k Hk; split; [eapply vuint_fits; [exact Hk| |exact E5]; vm_compute in Hk; inversion Hk; eauto
                                        |vm_compute in Hk; inversion Hk; discriminate]) E5 ltac:(lia))
    as (l5 & -> & F5).
  destruct (enc_by_els ndn_format_0_3_InterestPacketValue T_HOP_LIMIT (vuint (i_hop i)) s6 Hwf
              ltac:(intros k Hk; split; [eapply vuint_fits; [exact Hk| |exact E6]; vm_compute in Hk; inversion Hk; eauto
                                        |vm_compute in Hk; inversion Hk; discriminate]) E6 ltac:(lia))
    as (l6 & -> & F6).
  destruct (enc_by_els ndn_format_0_3_InterestPacketValue T_ISIG_INFO (si_info s) s8 Hwf
              ltac:(intros k Hk; vm_compute in Hk; inversion Hk; subst; split; [exact Hfs|discriminate]) E8 ltac:(lia))
    as (l8 & -> & F8).
  apply enc_bytes_ser in E7; [|reflexivity|unfold T_APP_PARAM, two64; lia]. subst s7.
  apply enc_bytes_ser in E9; [|reflexivity|unfold T_ISIG_VALUE, two64; lia]. subst s9.
  set (e7 := Elem T_APP_PARAM _ a) in *. set (e9 := Elem T_ISIG_VALUE _ _) in *.
  rewrite name_encode_ser in En. subst s_name.
  set (en := Elem TYPE_NAME _ (concat fname)) in *.
  assert (Hen : el_ok en).
  { unfold en, el_ok. cbn [e_type e_dlen e_payload]. unfold ser_elem, en in Hl. cbn [e_type e_payload] in Hl.
    rewrite tlv_length in Hl. unfold TYPE_NAME, two64 in *. repeat split; lia. }
  assert (He7 : el_ok e7).
  { unfold e7, el_ok. cbn [e_type e_dlen e_payload]. unfold ser_elem, e7 in Hl. cbn [e_type e_payload] in Hl.
    rewrite (tlv_length T_APP_PARAM) in Hl. unfold T_APP_PARAM, two64 in *. repeat split; lia. }
  assert (He9 : el_ok e9).
  { unfold e9, el_ok. cbn [e_type e_dlen e_payload]. unfold ser_elem, e9 in Hl. cbn [e_type e_payload] in Hl.
    rewrite (tlv_length T_ISIG_VALUE) in Hl. unfold T_ISIG_VALUE, two64 in *. repeat split; lia. }
  (* facts about the name *)
  pose proof (scan_name_spec true _ _ _ _ Escan) as Hscan. cbn beta iota in Hscan.
  destruct (digest_comp_wf (sha dcov) (sha_len dcov)) as [Hdw Hdt].
  assert (Hfn : Forall wf_comp64 fname /\ filter (fun c => negb (comp_type c =? 2)) fname = nnd /\
                filter (fun c => comp_type c =? 2) fname = [digest_comp (sha dcov)]).
  { unfold fname, nnd. destruct dp as [p|].
    - destruct Hscan as (_ & _ & pa & c & pb & En' & Hla & Hc & Ha & Hb). rewrite Nat.sub_0_r in Hla. subst p.
      rewrite En' in *. rewrite set_nth_app, remove_nth_app.
      apply Forall_app in Hn. destruct Hn as [Hna Hnb]. inversion Hnb; subst.
      split; [apply Forall_app; split; [exact Hna|constructor; assumption]|].
      rewrite !filter_app. cbn [filter]. rewrite Hdt. cbn [N.eqb Pos.eqb negb].
      rewrite !ne2_filter by assumption. split; [reflexivity|].
      rewrite !(filter_none) by assumption. reflexivity.
    - split; [apply Forall_app; split; [exact Hn|constructor; [exact Hdw|constructor]]|].
      rewrite !filter_app. cbn [filter]. rewrite Hdt. cbn [N.eqb Pos.eqb negb].
      rewrite ne2_filter by exact Hscan. rewrite app_nil_r. split; [reflexivity|].
      rewrite filter_none by exact Hscan. reflexivity. }
  destruct Hfn as (Hfw & Hfilt & Hfd).
  set (pre_els := [en] ++ l1 ++ l2 ++ l3 ++ l4 ++ l5 ++ l6) in *.
  assert (Hpre : Forall (fun e => e_type e <> T_APP_PARAM /\ e_type e <> T_ISIG_VALUE /\ el_ok e) pre_els).
  { unfold pre_els. apply Forall_app; split;
      [constructor; [split; [discriminate|split; [discriminate|exact Hen]]|constructor]|].
    apply Forall_app; split; [|apply Forall_app; split; [|apply Forall_app; split; [|apply Forall_app; split; [|apply Forall_app; split]]]];
      (eapply Forall_impl; [|eassumption]; intros e (Et & Hok); rewrite Et; split; [discriminate|split; [discriminate|exact Hok]]). }
  match goal with |- signed_portion_interest ?b = _ /\ _ =>
    assert (Hbody : b = ser_els (pre_els ++ [e7] ++ l8) ++ ser_elem e9 ++ []) by (unfold dcov, pre_els; ser_norm);
    rewrite Hbody; clear Hbody
  end.
  assert (Hall46 : Forall (fun e => e_type e <> T_ISIG_VALUE /\ el_ok e) (pre_els ++ [e7] ++ l8)).
  { apply Forall_app; split; [|apply Forall_app; split].
    - eapply Forall_impl; [|exact Hpre]. intros e (_ & A & B). split; assumption.
    - constructor; [split; [discriminate|exact He7]|constructor].
    - eapply Forall_types_ne; [|exact F8]. discriminate. }
  assert (Hlen : (length (pre_els ++ [e7] ++ l8) < S (length (ser_els (pre_els ++ [e7] ++ l8) ++ ser_elem e9 ++ [])))%nat).
  { pose proof (ser_els_length_ge (pre_els ++ [e7] ++ l8)) as G.
    assert (Forall el_ok (pre_els ++ [e7] ++ l8)) by (eapply Forall_impl; [|exact Hall46]; intros e (_ & Hok); exact Hok).
    specialize (G H). rewrite (app_length (ser_els (pre_els ++ [e7] ++ l8))). lia. }
  assert (Hv : forall fuel, value_of_type (S fuel) T_NAME (ser_els (pre_els ++ [e7] ++ l8) ++ ser_elem e9 ++ [])
                            = Some (concat fname)).
  { intros fuel.
    replace (ser_els (pre_els ++ [e7] ++ l8) ++ ser_elem e9 ++ [])
      with (ser_elem en ++ (ser_els (l1 ++ l2 ++ l3 ++ l4 ++ l5 ++ l6 ++ [e7] ++ l8) ++ ser_elem e9 ++ []))
      by (unfold pre_els; ser_norm).
    change T_NAME with (e_type en). rewrite value_of_type_first by exact Hen. reflexivity. }
  pose proof (concat_length_ge fname Hfw) as Hcl.
  repeat split.
  - (* signed portion *)
    unfold signed_portion_interest. rewrite Hv.
    rewrite components_concat; [|exact Hfw|lia]. rewrite Hfilt.
    rewrite before_type_ser; [|exact Hall46|exact He9|reflexivity|exact Hlen].
    replace (ser_els (pre_els ++ [e7] ++ l8)) with (ser_els pre_els ++ ser_elem e7 ++ ser_els l8)
      by ser_norm.
    rewrite from_type_ser; [| |exact He7|reflexivity|].
    + cbn [option_map]. unfold dcov. reflexivity.
    + eapply Forall_impl; [|exact Hpre]. intros e (A & _ & B). split; assumption.
    + pose proof (ser_els_length_ge pre_els) as G.
      assert (Forall el_ok pre_els) by (eapply Forall_impl; [|exact Hpre]; intros e (_ & _ & Hok); exact Hok).
      specialize (G H). rewrite !app_length. lia.
  - (* digest portion *)
    unfold digest_portion.
    replace (ser_els (pre_els ++ [e7] ++ l8) ++ ser_elem e9 ++ [])
      with (ser_els pre_els ++ ser_elem e7 ++ (ser_els l8 ++ ser_elem e9))
      by ser_norm.
    rewrite from_type_ser; [| |exact He7|reflexivity|].
    + unfold dcov. rewrite ?app_nil_r. reflexivity.
    + eapply Forall_impl; [|exact Hpre]. intros e (A & _ & B). split; assumption.
    + pose proof (ser_els_length_ge pre_els) as G.
      assert (Forall el_ok pre_els) by (eapply Forall_impl; [|exact Hpre]; intros e (_ & _ & Hok); exact Hok).
      specialize (G H). rewrite !app_length. lia.
  - (* digest component *)
    unfold digest_component. rewrite Hv.
    rewrite components_concat; [|exact Hfw|lia]. rewrite Hfd.
    unfold digest_comp, TYPE_PARAMETERS_SHA256. cbn [app tl_dec N.leb N.compare Pos.compare Pos.compare_cont bind skipn Nat.add].
    reflexivity.
Qed.
End InterestPortion.
