(* C17, protocol part — basic lemmas: lists, what a call returns ([finish]), and which observations each
   function of the machine appends to the log. *)
From NDN Require Import Base.Prelude Model.TlvVar Model.Name Model.Tlv Spec.TlvWf Model.NfdMgmt Model.Registerer
  Spec.Registration Proofs.NfdMgmtProofs.
Local Open Scope N_scope.

(* ---- lists ---------------------------------------------------------------------------------------------- *)
Lemma upd_length {A} (l : list A) i f : length (upd l i f) = length l.
Proof. revert i. induction l as [|x r IH]; intros [|i]; cbn [upd length]; try reflexivity. now rewrite IH. Qed.

Lemma nth_error_upd_eq {A} (l : list A) i f x :
  nth_error l i = Some x -> nth_error (upd l i f) i = Some (f x).
Proof.
  revert i. induction l as [|y r IH]; intros [|i]; cbn [upd nth_error]; try discriminate.
  - intros H. injection H as ->. reflexivity.
  - apply IH.
Qed.

Lemma nth_error_upd_neq {A} (l : list A) i j f : i <> j -> nth_error (upd l i f) j = nth_error l j.
Proof.
  revert i j. induction l as [|y r IH]; intros [|i] [|j] H; cbn [upd nth_error]; try reflexivity.
  - congruence.
  - apply IH. congruence.
Qed.

Lemma map_upd_same {A B} (F : A -> B) (l : list A) i g :
  (forall c, F (g c) = F c) -> map F (upd l i g) = map F l.
Proof.
  intros H. revert i. induction l as [|y r IH]; intros [|i]; cbn [upd map]; try reflexivity.
  - now rewrite H.
  - now rewrite IH.
Qed.

Lemma map_upd_at {A B} (F : A -> B) (l : list A) i g x y :
  nth_error l i = Some x -> F (g x) = y -> map F (upd l i g) = upd (map F l) i (fun _ => y).
Proof.
  revert i. induction l as [|z r IH]; intros [|i]; cbn [upd map nth_error]; try discriminate.
  - intros H1 H2. injection H1 as ->. now rewrite H2.
  - intros H1 H2. now rewrite (IH i H1 H2).
Qed.

Lemma bytes_eqb_refl (b : bytes) : bytes_eqb b b = true.
Proof. induction b as [|x r IH]; cbn; [reflexivity|]. now rewrite N.eqb_refl, IH. Qed.
Lemma name_eqb_refl (n : name) : name_eqb n n = true.
Proof. induction n as [|x r IH]; cbn; [reflexivity|]. rewrite bytes_eqb_refl. exact IH. Qed.
Lemma names_eqb_refl (l : list name) : list_eqb name_eqb l l = true.
Proof. induction l as [|x r IH]; cbn; [reflexivity|]. rewrite name_eqb_refl. exact IH. Qed.

Lemma firstn_snoc_nth {A} (l : list A) i x : nth_error l i = Some x -> firstn (S i) l = firstn i l ++ [x].
Proof.
  revert i. induction l as [|y r IH]; intros [|i]; cbn [nth_error firstn]; try discriminate.
  - intros H. injection H as ->. reflexivity.
  - intros H. cbn [app]. f_equal. exact (IH i H).
Qed.

Lemma firstn_ge_all {A} (l : list A) i : nth_error l i = None -> firstn i l = l.
Proof. intros H. apply firstn_all2. now apply nth_error_None. Qed.

Lemma firstn_app_le {A} (l r : list A) i : (i <= length l)%nat -> firstn i (l ++ r) = firstn i l.
Proof. intros H. rewrite firstn_app. replace (i - length l)%nat with O by lia. cbn [firstn]. now rewrite app_nil_r. Qed.

(* ---- the specification automata over an extended log ------------------------------------------------------- *)
Lemma check_snoc {S} (stp : option S -> obs -> option S) i l o : check stp i (l ++ [o]) = stp (check stp i l) o.
Proof. unfold check. now rewrite fold_left_app. Qed.
Lemma check_app {S} (stp : option S -> obs -> option S) i l ex :
  check stp i (l ++ ex) = fold_left stp ex (check stp i l).
Proof. unfold check. now rewrite fold_left_app. Qed.

(* ---- what the protocol records give ----------------------------------------------------------------------------- *)
Lemma proto_ok_inv p : proto_ok p = true ->
  p_sem p = true /\ ts_mode_ok (p_ts p) = true /\ p_recorded p = true /\ p_checks p = true /\ p_cmp p = CNe /\
  p_code p = 200 /\ p_catch_decode p = true /\ p_catch_express p = true /\ p_body_optional p = true.
Proof.
  unfold proto_ok. intros H. repeat (apply andb_true_iff in H; destruct H as [H ?]).
  destruct (p_cmp p); try discriminate. apply N.eqb_eq in H3. repeat split; assumption.
Qed.

(* ---- parse_response and the specification's notion of "status 200" agree -------------------------------------- *)
Lemma upd_preserves_length {A} (acc : list A) i f : length (upd acc i f) = length acc.
Proof. apply upd_length. Qed.

Lemma assign_with_length pv fs ic : forall els st pos acc vs,
  assign_with pv fs ic st pos els acc = Ok vs -> length vs = length acc.
Proof.
  induction els as [|e r IH]; intros st pos acc vs; cbn [assign_with].
  - destruct st; [intros H; now injection H as <-|discriminate].
  - destruct st as [|i key vt vk].
    + destruct (find_from fs 0 pos (e_type e)) as [[i k]|].
      * destruct k as [fx| |bs| |mfs mic|ek|kk vt' vk'];
          try (destruct (pv _ e); cbn [bind]; [|discriminate]; intros H; apply IH in H;
               rewrite upd_length in H; exact H).
        destruct (pv kk e); cbn [bind]; [|discriminate]. intros H. now apply IH in H.
      * destruct (N.odd (e_type e) && negb ic); [discriminate|]. apply IH.
    + destruct (e_type e =? vt).
      * destruct (pv vk e); cbn [bind]; [|discriminate]. intros H. apply IH in H. rewrite upd_length in H. exact H.
      * destruct (N.odd (e_type e) && negb ic); [discriminate|]. apply IH.
Qed.

Lemma parse_model_length d fs ic w vs : parse_model d fs ic w = Ok vs -> length vs = length fs.
Proof.
  unfold parse_model. destruct (split_wire w); cbn [bind]; [|discriminate].
  intros H. apply assign_with_length in H. unfold blank in H. now rewrite map_length in H.
Qed.

Lemma status_200_parse c :
  status_200 c = match parse_response c with Ok (VUint n, _, _) => n =? 200 | _ => false end.
Proof.
  unfold status_200, parse_response, parse_response_gen. destruct c as [b|]; [|reflexivity].
  destruct (parse_and_check_tl b RESPONSE_TYPE) as [v|]; cbn [bind]; [|reflexivity].
  destruct (parse_model (depth_of CR) CR false v) as [vs|] eqn:E; cbn [bind]; [|reflexivity].
  apply parse_model_length in E. change (length CR) with 3%nat in E.
  destruct vs as [|sc [|st [|body [|x r]]]]; try discriminate.
  destruct body; reflexivity.
Qed.

(* C17: what a call returns for each kind of reply: True exactly for a decodable response with status 200,
   False otherwise, never an exception *)
Theorem finish_ok p r : proto_ok p = true -> finish p r = Ret (answers_200 (p_validates p) r).
Proof.
  intros H. destruct (proto_ok_inv p H) as (_ & _ & _ & Hc & Hcmp & Hcode & Hcd & Hce & Hbo).
  unfold finish. rewrite Hc, Hcmp, Hcode, Hcd, Hce, Hbo. destruct r as [c ok|rs|]; try reflexivity.
  unfold answers_200.
  assert (G : match parse_response c with
              | Ok (sc, _, _) =>
                  match sc with
                  | VUint n => Ret (negb (cmp_fail CNe n 200))
                  | _ => Ret false
                  end
              | Err e => if true && decode_class e then Ret false else Raise e
              end = Ret (status_200 c)).
  { rewrite status_200_parse. destruct (parse_response c) as [[[sc st] ps]|e] eqn:E.
    - destruct sc; try reflexivity. unfold cmp_fail. now rewrite Bool.negb_involutive.
    - pose proof (parse_response_errors c e E) as Hk. unfold caught in Hk. unfold decode_class.
      destruct e; try discriminate; reflexivity. }
  change (parse_response_gen true c) with (parse_response c).
  destruct (p_validates p); destruct ok; cbn [andb negb orb]; try reflexivity; exact G.
Qed.
