(* T1 tie for C19: the constants reflected from the source on this run are the ones the hand-written
   model (Model/SegFetch.v) uses, and `except InterestTimeout` swallows none of the other exceptions
   express_interest raises (InterestNack, ValidationFailure, InterestCanceled, NetworkError). *)
From NDN Require Import Base.Prelude Model.SegFetch.
From NDN Require Generated.ConstsSegFetch.
Module G := Generated.ConstsSegFetch.

Definition consts_agree : Prop :=
  G.TYPE_SEGMENT = TYPE_SEGMENT /\ G.default_timeout = DEFAULT_TIMEOUT /\
  G.default_retry_times = DEFAULT_RETRY_TIMES /\ G.default_must_be_fresh = DEFAULT_MUST_BE_FRESH /\
  G.timeout_handler_also_catches = [] /\ G.timeout_is_exception = true.

Theorem consts_agree_holds : consts_agree.
Proof. repeat split; reflexivity. Qed.
