(* Rules that sign one another in a circle: the compiled model has a signing cycle between tree nodes, so building a
   Checker from it raises the schema error. *)
From NDN Require Import Base.Prelude Base.Text Model.TlvVar Model.Name Model.LvsAst Model.LvsChecker Model.LvsCompiler
  Spec.LvsSem Spec.LvsChains Proofs.LvsSanity Proofs.LvsFlatten Proofs.LvsGenTree Proofs.LvsCompileTree Proofs.LvsCompileThms
  Proofs.LvsNumbering Proofs.LvsReplicate Proofs.LvsCompileOk Proofs.LvsCompileAccepts Proofs.LvsSimD Proofs.LvsCompileIff Proofs.LvsSignGraph.
Local Open Scope N_scope.

(* every subtree of a realised tree is realised at a node reachable from the root of the tree *)
Lemma realizes_subtree_reach npc pool m : mirrors m pool -> forall t t', subtree t' t -> forall id p, realizes npc pool t id p ->
  exists k p', realizes npc pool t' k p' /\ reach_from m (N.of_nat id) (N.of_nat k).
Proof.
  intros Hmir. induction 1 as [|ended vs ps v child Hv Hst IH|ended vs ps tag cs child Hp Hst IH]; intros id p Hrz.
  - exists id, p. split; [exact Hrz | apply rf_refl].
  - inversion Hrz as [? ? ? ? ? g Hn Hpar Hru Hsi Hvs Hps]; subst.
    assert (G : exists cid, realizes npc pool child cid (Some (N.of_nat id)) /\ In (Some (N.of_nat cid)) (map ve_dest (g_vedges g))).
    { clear - Hv Hvs. induction Hvs as [|x t r src cid es Ht Hr IHr]; [inversion Hv|].
      inversion Hv; subst; [exists cid; split; [exact Ht | left; reflexivity]|].
      destruct (IHr H0) as (c & Hc & Hin). exists c. split; [exact Hc | right; exact Hin]. }
    destruct G as (cid & Hc & Hin). destruct (IH _ _ Hc) as (k & p' & Hk & Hr). exists k, p'. split; [exact Hk|].
    destruct (mirrors_get _ _ _ _ Hmir Hn) as (nd & Hg & _ & _ & _ & Ev & Ep).
    eapply reach_from_step; [exact Hg | | exact Hr]. unfold dests. rewrite Ev. apply in_or_app. left. exact Hin.
  - inversion Hrz as [? ? ? ? ? g Hn Hpar Hru Hsi Hvs Hps]; subst.
    destruct (pin_realizes _ _ _ _ _ Hps) as [_ H2]. destruct (H2 _ _ _ Hp) as (cid & etag & Hin & _ & Hc).
    destruct (IH _ _ Hc) as (k & p' & Hk & Hr). exists k, p'. split; [exact Hk|].
    destruct (mirrors_get _ _ _ _ Hmir Hn) as (nd & Hg & _ & _ & _ & Ev & Ep).
    eapply reach_from_step; [exact Hg | | exact Hr]. unfold dests. rewrite Ep. apply in_or_app. right.
    apply in_map_iff. eexists. split; [|exact Hin]. reflexivity.
Qed.

Lemma sign_lookup_incl rids : forall names acc sc,
  rfold (fun (acc : list N) rid => match al_get ident_eqb rids rid with Some l => Ok (acc ++ l) | None => Err ESemantic end) names acc = Ok sc ->
  (forall j, In j acc -> In j sc) /\ forall y l j, In y names -> al_get ident_eqb rids y = Some l -> In j l -> In j sc.
Proof.
  induction names as [|n names IH]; intros acc sc H; cbn [rfold] in H.
  - inversion H; subst. split; [auto | intros y l j []].
  - destruct (al_get ident_eqb rids n) as [ln|] eqn:E; cbn [bind] in H; [|discriminate].
    destruct (IH _ _ H) as [H1 H2]. split.
    + intros j Hj. apply H1. apply in_or_app. left. exact Hj.
    + intros y l j [<-|Hy] Hl Hj; [|eapply H2; eauto]. rewrite E in Hl. inversion Hl; subst. apply H1. apply in_or_app. right. exact Hj.
Qed.

Definition sign_edge (S : lvsfile) (x y : ident) : Prop := exists d, In d S /\ r_id d = x /\ In y (r_sign d).
Fixpoint sign_walk (S : lvsfile) (a x : ident) (l : list ident) : Prop :=
  match l with
  | [] => sign_edge S x a
  | y :: l' => sign_edge S x y /\ sign_walk S a y l'
  end.

Section Cycle.
  Variable S : lvsfile.
  Variable m : lvsmodel.
  Hypothesis Hstatic : static_ok S = true.
  Hypothesis Hwf : schema_wf S = true.
  Hypothesis Hm : compile S = Ok m.

  Definition carries (x : ident) (i : N) : Prop := reach m i /\ exists nd, get_node m i = Some nd /\ In x (n_rule nd).

  (* the node where the own chain of a definition ends lists, as signers, every node that carries one of its signer rules *)
  Lemma edge_node x y : sign_edge S x y -> is_temp_rule x = false ->
    exists i nd, carries x i /\ get_node m i = Some nd /\ forall j, carries y j -> In j (n_sign nd).
  Proof.
    intros (d & Hd & Hid & Hy) Hx.
    destruct (compile_accepts S Hstatic Hwf) as (chains & st & m' & Hc & Hm' & Hok). rewrite Hm in Hm'. inversion Hm'; subst m'. clear Hm'.
    destruct (compile_unfold _ _ _ _ Hc Hm) as (t0 & Htree & Hmodel).
    destruct (chains_of_facts S chains st Hc) as (sorted & order & nrules & _ & _ & Hrel & Hfrom & Hhas & Hsorted).
    destruct (labelled_cover S 1 d Hd) as (lbl & Hl).
    assert (lbl = x) by (rewrite <- Hid; apply (labelled_plain S 1 lbl d Hl); rewrite Hid; exact Hx). subst lbl.
    pose proof (labelled_in_renamed S x d Hl) as Hd'. apply (proj2 (Hsorted _)) in Hd'.
    destruct (forall2_in_l _ _ _ _ Hrel Hd') as (nr & Hnr & Hnid & Hnsg & _). cbn [set_rule_id r_id r_sign] in Hnid, Hnsg.
    destruct (Hhas nr Hnr) as (rc & Hrc & Hrid & Hrsg). rewrite Hnid in Hrid. rewrite Hnsg in Hrsg.
    assert (Hnr' : no_refs rc). { intros r Hr. destruct (Hfrom rc Hrc) as (Hcf & _). rewrite Forall_forall in Hcf. exact (Hcf _ Hr). }
    destruct (gen_tree_covers _ _ _ _ _ Htree rc Hrc (Nat.le_0_l _) Hnr') as (t' & Hst & Hend).
    pose proof (compiled_mirrors st m t0 Hmodel) as Hmir.
    destruct (realizes_subtree_reach _ _ m Hmir _ _ Hst _ _ (compiled_realizes st m t0 Hmodel)) as (k & p' & Hrz & Hreach).
    destruct (realized_node st m t0 Hmodel t' k p' Hrz) as (g & nd & sc & Hg & Hnd & Hgr & Hgs & Hnr2 & Hsl & Hns).
    destruct (compiled_fields st m t0 Hmodel) as (nodes & _ & _ & Hstart & _).
    assert (Hrk : reach m (N.of_nat k)) by (apply reach_iff_from; exists 0; split; [exact Hstart | exact Hreach]).
    exists (N.of_nat k), nd. split; [|split; [exact Hnd|]].
    - split; [exact Hrk|]. exists nd. split; [exact Hnd|]. rewrite Hnr2, Hgr. apply in_map_iff. exists rc. auto.
    - intros j (Hrj & ndj & Hgj & Hyj). rewrite Hns. apply (proj2 (in_isort _ _ _)).
      assert (Hyg : In y (g_sign g)).
      { rewrite Hgs. apply in_flat_map. exists rc. split; [exact Hend|]. rewrite Hrsg. apply (proj2 (in_isort _ _ _)). exact Hy. }
      (* j is an entry of the table for y *)
      assert (Hj : exists l, al_get ident_eqb (rids_of (fst (flatten t0 None 0 (N.of_nat (length (ns_named st)))))) y = Some l /\ In j l).
      { apply rids_of_in. destruct Hmir as [Hlen Hall].
        assert (Hjl : (N.to_nat j < length (m_nodes m))%nat).
        { unfold get_node in Hgj. destruct (N.ltb_spec j (N.of_nat (length (m_nodes m)))); [lia | discriminate]. }
        destruct (nth_error (fst (flatten t0 None 0 (N.of_nat (length (ns_named st))))) (N.to_nat j)) as [gj|] eqn:Egj;
          [|apply nth_error_None in Egj; lia].
        destruct (Hall _ _ Egj) as (nd' & Hnd' & _ & _ & Hru & _).
        unfold get_node in Hgj. destruct (N.ltb_spec j (N.of_nat (length (m_nodes m)))); [|discriminate]. rewrite Hgj in Hnd'. inversion Hnd'; subst nd'.
        exists (N.to_nat j), gj. split; [rewrite N2Nat.id; reflexivity|]. split; [exact Egj | rewrite <- Hru; exact Hyj]. }
      destruct Hj as (l & Hl2 & Hjl). unfold sign_lookup in Hsl. destruct (sign_lookup_incl _ _ _ _ Hsl) as [_ H2]. eapply H2; eauto.
  Qed.

  Lemma defined_plain y : sign_edge S y y \/ (exists x, sign_edge S x y) -> is_temp_rule y = false.
  Proof.
    intros H. assert (Hex : exists x, sign_edge S x y) by (destruct H as [H|H]; eauto). destruct Hex as (x & d & Hd & _ & Hy).
    destruct (static_parts S Hstatic) as (_ & _ & _ & Hsg). specialize (Hsg d y Hd Hy). unfold defined in Hsg.
    apply andb_true_iff in Hsg. destruct Hsg as [Hsg _]. destruct (is_temp_rule y); [discriminate | reflexivity].
  Qed.

  Theorem sign_cycle_not_acyclic a cyc : sign_walk S a a cyc -> ~ sign_acyclic m.
  Proof.
    intros Hw (rank & Hrank).
    assert (Ha : is_temp_rule a = false).
    { clear - Hw Hstatic. assert (G : forall l x, sign_walk S a x l -> exists z, sign_edge S z a).
      { induction l as [|y l IH]; intros x H; cbn in H; [eauto | destruct H as [_ H]; eapply IH; eauto]. }
      destruct (G _ _ Hw) as (z & Hz). apply defined_plain. right. eauto. }
    assert (G : forall l x, is_temp_rule x = false -> sign_walk S a x l -> exists i, carries x i /\ forall j, carries a j -> (rank j < rank i)%nat).
    { induction l as [|y l IH]; intros x Hx H; cbn in H.
      - destruct (edge_node x a H Hx) as (i & nd & Hci & Hg & Hall). exists i. split; [exact Hci|].
        intros j Hj. destruct Hci as [Hri _]. eapply Hrank; eauto.
      - destruct H as [He Hrest]. destruct (edge_node x y He Hx) as (i & nd & Hci & Hg & Hall).
        destruct (IH y (defined_plain y (or_intror (ex_intro _ x He))) Hrest) as (i' & Hci' & Hlt).
        exists i. split; [exact Hci|]. intros j Hj. specialize (Hlt j Hj). destruct Hci as [Hri _].
        pose proof (Hrank i nd i' Hri Hg (Hall i' Hci')). lia. }
    destruct (G cyc a Ha Hw) as (i & Hci & Hlt). specialize (Hlt i Hci). lia.
  Qed.

  (* ... so Checker(compile S) raises SemanticError *)
  Theorem checker_rejects_cyclic_signing a cyc : sign_walk S a a cyc -> sanity_check (sanity_fuel m) m = Err ESemantic.
  Proof.
    intros Hw. destruct (checker_verdict S m Hstatic Hwf Hm) as [Hiff Herr].
    destruct (sanity_check (sanity_fuel m) m) as [r|e] eqn:E.
    - exfalso. apply (sign_cycle_not_acyclic a cyc Hw). apply Hiff. eauto.
    - rewrite (Herr e eq_refl). reflexivity.
  Qed.
End Cycle.
