(* The specification functions of Spec/SignedPortion.v seen through the list of top-level elements. *)
From NDN Require Import Base.Prelude Model.TlvVar Spec.SignedPortion Proofs.BytesLemmas.
Local Open Scope N_scope.
Set Default Timeout 900.
Arguments N.of_nat : simpl never.
Arguments N.to_nat : simpl never.

Lemma unpack_be_prefix k r v : unpack_be k r = Ok v -> (k <= length r)%nat /\ forall m r', (k <= m)%nat -> unpack_be k (firstn m r ++ r') = Ok v.
Proof.
  unfold unpack_be. destruct (Nat.eqb (length (firstn k r)) k) eqn:E; [|discriminate].
  apply Nat.eqb_eq in E. intros H; inversion H; subst; clear H.
  assert (Hk : (k <= length r)%nat) by (rewrite firstn_length in E; lia).
  split; [exact Hk|]. intros m r' Hm.
  assert (F : firstn k (firstn m r ++ r') = firstn k r).
  { rewrite firstn_app, firstn_firstn. replace (Nat.min k m) with k by lia.
    rewrite firstn_length. replace (k - Nat.min m (length r))%nat with O by lia. cbn [firstn]. apply app_nil_r. }
  rewrite F, E, Nat.eqb_refl. reflexivity.
Qed.

Lemma tl_dec_prefix w v n : tl_dec w = Ok (v, n) ->
  (1 <= n <= length w)%nat /\ forall m r', (n <= m)%nat -> tl_dec (firstn m w ++ r') = Ok (v, n).
Proof.
  destruct w as [|b r]; [discriminate|]. cbn [tl_dec].
  destruct (b <=? 252) eqn:E1.
  - intros H; inversion H; subst. split; [cbn [length]; lia|]. intros m r' Hm.
    destruct m; [lia|]. cbn [firstn app tl_dec]. rewrite E1. reflexivity.
  - destruct (b =? 253) eqn:E2; [|destruct (b =? 254) eqn:E3].
    all: match goal with |- context [unpack_be ?k ?rr] => destruct (unpack_be k rr) as [x|] eqn:U; [|discriminate] end;
      cbn [bind]; intros H; inversion H; subst; destruct (unpack_be_prefix _ _ _ U) as (L & P);
      (split; [cbn [length]; lia|]); intros m r' Hm; (destruct m; [lia|]); cbn [firstn app tl_dec];
      rewrite E1, E2, ?E3; rewrite P by lia; reflexivity.
Qed.

(* an element is self-delimiting: what follows it does not matter *)
Definition is_el (tr : N * bytes) : Prop := forall rest, next_element (snd tr ++ rest) = Some (fst tr, snd tr, rest).

Lemma next_element_inv w t e r : next_element w = Some (t, e, r) ->
  w = e ++ r /\ (2 <= length e)%nat /\ is_el (t, e).
Proof.
  unfold next_element. destruct (tl_dec w) as [[t' st]|] eqn:E1; [|discriminate].
  destruct (tl_dec (skipn st w)) as [[l sl]|] eqn:E2; [|discriminate].
  destruct (N.of_nat (length w - (st + sl)) <? l) eqn:E3; [discriminate|].
  intros H; inversion H; subst; clear H. apply N.ltb_ge in E3.
  destruct (tl_dec_prefix _ _ _ E1) as ((A1 & A2) & P1).
  destruct (tl_dec_prefix _ _ _ E2) as ((B1 & B2) & P2). rewrite skipn_length in B2.
  set (n := (st + sl + N.to_nat l)%nat).
  assert (Hn : (n <= length w)%nat) by (unfold n; lia).
  split; [symmetry; apply firstn_skipn|]. split; [rewrite firstn_length; unfold n; lia|].
  intros rest. cbn [fst snd]. unfold next_element.
  rewrite (P1 n rest) by (unfold n; lia).
  assert (S1 : skipn st (firstn n w ++ rest) = firstn (n - st) (skipn st w) ++ rest).
  { rewrite skipn_app, firstn_length. replace (st - Nat.min n (length w))%nat with O by lia. cbn [skipn].
    rewrite skipn_firstn_comm. reflexivity. }
  rewrite S1. rewrite (P2 (n - st)%nat rest) by (unfold n; lia).
  rewrite app_length, firstn_length.
  replace (N.of_nat (Nat.min n (length w) + length rest - (st + sl)) <? l) with false by (symmetry; apply N.ltb_ge; unfold n; lia).
  fold n. rewrite firstn_app, firstn_firstn, firstn_length.
  replace (Nat.min n n) with n by lia. replace (n - Nat.min n (length w))%nat with O by lia.
  cbn [firstn]. rewrite app_nil_r.
  rewrite skipn_app, firstn_length. replace (n - Nat.min n (length w))%nat with O by lia. cbn [skipn].
  rewrite skipn_firstn_comm. replace (n - n)%nat with O by lia. cbn [firstn app]. reflexivity.
Qed.

Definition raws (sel : list (N * bytes)) : list bytes := map snd sel.

Lemma strict_split_inv : forall fuel w sel, strict_split fuel w = Some sel ->
  w = concat (raws sel) /\ Forall is_el sel /\ Forall (fun tr => (2 <= length (snd tr))%nat) sel.
Proof.
  induction fuel as [|f IH]; intros w sel H.
  - destruct w; [inversion H; subst; repeat split; constructor|discriminate].
  - destruct w as [|b w']; [inversion H; subst; repeat split; constructor|].
    cbn [strict_split] in H. destruct (next_element (b :: w')) as [[[t e] r]|] eqn:E; [|discriminate].
    destruct (strict_split f r) as [sel'|] eqn:E'; [|discriminate]. inversion H; subst; clear H.
    destruct (next_element_inv _ _ _ _ E) as (A & B & C). destruct (IH _ _ E') as (A' & B' & C').
    split; [cbn [raws map concat snd]; rewrite A; f_equal; exact A'|]. split; constructor; assumption.
Qed.

Lemma concat_nonempty_head (tr : N * bytes) sel : (2 <= length (snd tr))%nat -> concat (raws (tr :: sel)) <> [].
Proof. destruct tr as [t [|x e]]; cbn; [lia|discriminate]. Qed.

Fixpoint idx_of (t : N) (ts : list N) : option nat :=
  match ts with
  | [] => None
  | t' :: r => if t' =? t then Some O else option_map S (idx_of t r)
  end.
Definition types (sel : list (N * bytes)) : list N := map fst sel.

Section Views.
Variable sel : list (N * bytes).
Hypothesis Hel : Forall is_el sel.
Hypothesis Hlen : Forall (fun tr => (2 <= length (snd tr))%nat) sel.

Lemma before_type_view t : forall fuel, (length sel < fuel)%nat ->
  before_type fuel t (concat (raws sel)) = option_map (fun k => concat (raws (firstn k sel))) (idx_of t (types sel)).
Proof.
  induction sel as [|[t' e] s IH]; intros fuel Hf.
  - destruct fuel; [cbn in Hf; lia|]. reflexivity.
  - inversion Hel as [|? ? H1 H2]; inversion Hlen as [|? ? L1 L2]; subst.
    destruct fuel; [cbn in Hf; lia|]. cbn [raws map concat snd before_type types fst idx_of].
    pose proof (H1 (concat (map snd s))) as H1'. cbn [fst snd] in H1'. rewrite H1'.
    destruct (t' =? t) eqn:E; [reflexivity|].
    fold (raws s). rewrite (IH H2 L2 fuel) by (cbn in Hf; lia). fold (types s).
    destruct (idx_of t (types s)); reflexivity.
Qed.

Lemma from_type_view t : forall fuel, (length sel < fuel)%nat ->
  from_type fuel t (concat (raws sel)) = option_map (fun k => concat (raws (skipn k sel))) (idx_of t (types sel)).
Proof.
  induction sel as [|[t' e] s IH]; intros fuel Hf.
  - destruct fuel; [cbn in Hf; lia|]. reflexivity.
  - inversion Hel as [|? ? H1 H2]; inversion Hlen as [|? ? L1 L2]; subst.
    destruct fuel; [cbn in Hf; lia|]. cbn [raws map concat snd from_type types fst idx_of].
    pose proof (H1 (concat (map snd s))) as H1'. cbn [fst snd] in H1'. rewrite H1'.
    destruct (t' =? t) eqn:E; [reflexivity|].
    fold (raws s). rewrite (IH H2 L2 fuel) by (cbn in Hf; lia). fold (types s).
    destruct (idx_of t (types s)); reflexivity.
Qed.
End Views.

Lemma length_le_concat sel : Forall (fun tr : N * bytes => (2 <= length (snd tr))%nat) sel ->
  (2 * length sel <= length (concat (raws sel)))%nat.
Proof.
  induction 1 as [|tr s H _ IH]; [cbn; lia|]. cbn [raws map concat length]. rewrite app_length.
  fold (raws s). lia.
Qed.

(* the value bytes of a whole element *)
Definition el_value (e : bytes) : option bytes :=
  match tl_dec e with
  | Ok (_, st) => match tl_dec (skipn st e) with Ok (_, sl) => Some (skipn (st + sl) e) | Err _ => None end
  | Err _ => None
  end.

Lemma value_of_type_view sel t : Forall is_el sel -> forall fuel, (length sel < fuel)%nat ->
  value_of_type fuel t (concat (raws sel)) =
  match idx_of t (types sel) with Some k => match nth_error (raws sel) k with Some e => el_value e | None => None end | None => None end.
Proof.
  induction sel as [|[t' e] s IH]; intros Hel fuel Hf.
  - destruct fuel; [cbn in Hf; lia|]. reflexivity.
  - inversion Hel as [|? ? H1 H2]; subst.
    destruct fuel; [cbn in Hf; lia|]. cbn [raws map concat snd value_of_type types fst idx_of].
    pose proof (H1 (concat (map snd s))) as H1'. cbn [fst snd] in H1'. rewrite H1'.
    destruct (t' =? t) eqn:E; [reflexivity|].
    fold (raws s). rewrite (IH H2 fuel) by (cbn in Hf; lia). fold (types s).
    destruct (idx_of t (types s)); reflexivity.
Qed.
