(* A small program logic for the keychain monad: weakest-precondition style rules for the combinators
   and for the effects (with the injected fault as an explicit branch). *)
From NDN Require Import Base.Prelude Model.Keychain.
Local Open Scope N_scope.

Definition wp {A} (m : M A) (Q : res A -> st -> Prop) (s : st) : Prop := Q (fst (m s)) (snd (m s)).

Lemma wp_conseq {A} (m : M A) (Q Q' : res A -> st -> Prop) s :
  wp m Q s -> (forall r s', Q r s' -> Q' r s') -> wp m Q' s.
Proof. unfold wp. auto. Qed.
Lemma wp_ret {A} (a : A) (Q : res _ -> st -> Prop) s : Q (Ok a) s -> wp (ret a) Q s.
Proof. auto. Qed.
Lemma wp_throw {A} e (Q : res A -> st -> Prop) s : Q (Err e) s -> wp (throw e) Q s.
Proof. auto. Qed.
Lemma wp_bind {A B} (m : M A) (f : A -> M B) (Q : res _ -> st -> Prop) s :
  wp m (fun r s' => match r with Ok a => wp (f a) Q s' | Err e => Q (Err e) s' end) s -> wp (mbind m f) Q s.
Proof. unfold wp, mbind. destruct (m s) as [[a|e] s']; cbn; auto. Qed.
Lemma wp_getc {A} (f : cst -> res A) (Q : res _ -> st -> Prop) s : Q (f (core s)) s -> wp (getc f) Q s.
Proof. auto. Qed.
Lemma wp_reads {A} (f : tables -> A) (Q : res _ -> st -> Prop) s : Q (Ok (f (db (core s)))) s -> wp (reads f) Q s.
Proof. auto. Qed.
Lemma wp_readr {A} (f : tables -> res A) (Q : res _ -> st -> Prop) s : Q (f (db (core s))) s -> wp (readr f) Q s.
Proof. auto. Qed.
Lemma wp_updc f (Q : res _ -> st -> Prop) s : Q (Ok tt) (mkSt (f (core s)) (flt s)) -> wp (updc f) Q s.
Proof. auto. Qed.
Lemma wp_mwhen b m (Q : res _ -> st -> Prop) s : (b = true -> wp m Q s) -> (b = false -> Q (Ok tt) s) -> wp (mwhen b m) Q s.
Proof. destruct b; cbn; intros H1 H2; [apply H1 | apply H2]; reflexivity. Qed.

(* the injector never re-arms: [quiet f f'] = if it was disarmed before it still is *)
Definition quiet (f f' : option nat) : Prop := f = None -> f' = None.
Lemma quiet_refl f : quiet f f. Proof. red; auto. Qed.
Lemma quiet_trans f g h : quiet f g -> quiet g h -> quiet f h. Proof. unfold quiet; auto. Qed.
Lemma quiet_none f : quiet f None. Proof. red; auto. Qed.
Global Hint Resolve quiet_refl quiet_none : core.

Lemma wp_tick (Q : res _ -> st -> Prop) s :
  (forall f', quiet (flt s) f' -> Q (Ok tt) (mkSt (core s) f')) ->
  (flt s <> None -> Q (Err EFault) (mkSt (core s) None)) ->
  wp tick Q s.
Proof.
  intros H1 H2. unfold wp, tick. destruct s as [c [[|k]|]]; cbn in *.
  - apply H2. discriminate.
  - apply H1. red. discriminate.
  - apply H1. auto.
Qed.

(* effects: on success the core changes as stated and the injector stays quiet if it was; a failure
   (injected or natural) leaves the core as it was and disarms the injector *)
Lemma wp_sql_w f (Q : res _ -> st -> Prop) s :
  (forall t f', f (db (core s)) = Ok t -> quiet (flt s) f' -> Q (Ok tt) (mkSt (set_db t (core s)) f')) ->
  (forall e, (e = EFault /\ flt s <> None) \/ f (db (core s)) = Err e -> Q (Err e) (mkSt (core s) None)) ->
  wp (sql_w f) Q s.
Proof.
  intros H1 H2. unfold sql_w. apply wp_bind. apply wp_tick.
  - intros f' Hq. unfold wp. cbn. destruct (f (db (core s))) as [t|e] eqn:E; cbn.
    + apply H1; auto.
    + apply H2. auto.
  - intros Hf. apply H2. auto.
Qed.
Lemma wp_commit (Q : res _ -> st -> Prop) s :
  (forall f', quiet (flt s) f' -> Q (Ok tt) (mkSt (do_commit (core s)) f')) ->
  (flt s <> None -> Q (Err EFault) (mkSt (core s) None)) ->
  wp commit Q s.
Proof.
  intros H1 H2. unfold commit. apply wp_bind. apply wp_tick; [|assumption].
  intros f' Hq. apply wp_updc. cbn. auto.
Qed.
Lemma wp_tpm_save k m (Q : res _ -> st -> Prop) s :
  (forall f', quiet (flt s) f' -> Q (Ok tt) (mkSt (set_tpm (al_set name_eqb (tpm (core s)) k m) (core s)) f')) ->
  (flt s <> None -> Q (Err EFault) (mkSt (core s) None)) ->
  wp (tpm_save k m) Q s.
Proof.
  intros H1 H2. unfold tpm_save. apply wp_bind. apply wp_tick; [|assumption].
  intros f' Hq. apply wp_updc. cbn. auto.
Qed.
Lemma wp_tpm_delete k (Q : res _ -> st -> Prop) s :
  (forall f', quiet (flt s) f' -> Q (Ok tt) (mkSt (set_tpm (al_del name_eqb (tpm (core s)) k) (core s)) f')) ->
  (flt s <> None -> Q (Err EFault) (mkSt (core s) None)) ->
  wp (tpm_delete k) Q s.
Proof.
  intros H1 H2. unfold tpm_delete. apply wp_bind. apply wp_tick; [|assumption].
  intros f' Hq. apply wp_updc. cbn. auto.
Qed.
Lemma wp_tpm_read k (Q : res _ -> st -> Prop) s :
  (forall m f', al_get name_eqb (tpm (core s)) k = Some m -> quiet (flt s) f' -> Q (Ok m) (mkSt (core s) f')) ->
  (forall e, (e = EFault /\ flt s <> None) \/ (e = EKey /\ al_get name_eqb (tpm (core s)) k = None) ->
             Q (Err e) (mkSt (core s) None)) ->
  wp (tpm_read k) Q s.
Proof.
  intros H1 H2. unfold tpm_read. apply wp_bind. apply wp_tick.
  - intros f' Hq. unfold wp. cbn. destruct (al_get name_eqb (tpm (core s)) k) as [m|] eqn:E; cbn.
    + apply H1; auto.
    + apply H2. auto.
  - intros Hf. apply H2. auto.
Qed.

Lemma wp_with_conn {A} (body : M A) (Q : res _ -> st -> Prop) s :
  wp body (fun r s1 => match r with
                       | Ok a => (forall f', quiet (flt s1) f' -> Q (Ok a) (mkSt (do_commit (core s1)) f')) /\
                                 (flt s1 <> None -> Q (Err EFault) (mkSt (do_rollback (core s1)) None))
                       | Err e => Q (Err e) (mkSt (do_rollback (core s1)) (flt s1))
                       end) s ->
  wp (with_conn body) Q s.
Proof.
  unfold wp, with_conn. destruct (body s) as [[a|e] s1]; cbn; [|auto].
  intros [H1 H2]. unfold commit, mbind, tick, updc.
  destruct s1 as [c1 [[|k]|]]; cbn in *.
  - apply H2. discriminate.
  - apply H1. red. discriminate.
  - apply H1. auto.
Qed.
Lemma wp_on_error {A} (body : M A) h (Q : res _ -> st -> Prop) s :
  wp body (fun r s1 => match r with
                       | Ok a => Q (Ok a) s1
                       | Err e => wp h (fun r2 s2 => match r2 with Ok _ => Q (Err e) s2 | Err e' => Q (Err e') s2 end) s1
                       end) s ->
  wp (on_error body h) Q s.
Proof.
  unfold wp, on_error. destruct (body s) as [[a|e] s1]; cbn; [auto|].
  destruct (h s1) as [[u|e'] s2]; cbn; auto.
Qed.
(* loop: [I rest] holds before the remaining elements are processed *)
Lemma wp_mfor {A} (l : list A) (f : A -> M unit) (I : list A -> st -> Prop) (Q : res _ -> st -> Prop) s :
  I l s ->
  (forall x r s', I (x :: r) s' -> wp (f x) (fun res s'' => match res with Ok _ => I r s'' | Err e => Q (Err e) s'' end) s') ->
  (forall s', I [] s' -> Q (Ok tt) s') ->
  wp (mfor l f) Q s.
Proof.
  intros HI Hstep Hend. revert s HI. induction l as [|x r IH]; intros s HI; cbn [mfor].
  - apply wp_ret. auto.
  - apply wp_bind. eapply wp_conseq; [apply Hstep; eassumption|].
    intros [u|e] s'; cbn; auto.
Qed.

(* rollback / commit on a clean connection *)
Lemma rollback_clean c : disk c = db c -> do_rollback c = c.
Proof. destruct c; cbn. intros ->. reflexivity. Qed.
Lemma rollback_set_db t c : disk c = db c -> do_rollback (set_db t c) = c.
Proof. destruct c; cbn. intros ->. reflexivity. Qed.
Lemma st_eta s : mkSt (core s) (flt s) = s.
Proof. destruct s; reflexivity. Qed.

(* what [run_op] returns, in wp form *)
Lemma run_op_wp (f : option nat) o c (Q : res rv -> cst -> Prop) :
  wp (op_sem o) (fun r s' => Q r (core s')) (mkSt c f) -> Q (fst (run_op f o c)) (snd (run_op f o c)).
Proof. unfold wp, run_op. destruct (op_sem o (mkSt c f)) as [r s']; cbn. auto. Qed.

(* ---- the injector never re-arms, whatever the program ------------------------------------------------ *)
Definition quiet_m {A} (m : M A) : Prop := forall s, quiet (flt s) (flt (snd (m s))).
Lemma qm_ret {A} (a : A) : quiet_m (ret a). Proof. intros s. cbn. auto. Qed.
Lemma qm_throw {A} e : quiet_m (@throw A e). Proof. intros s. cbn. auto. Qed.
Lemma qm_disarm {A} e : quiet_m (@disarm A e). Proof. intros s. cbn. auto. Qed.
Lemma qm_getc {A} (f : cst -> res A) : quiet_m (getc f). Proof. intros s. cbn. auto. Qed.
Lemma qm_reads {A} (f : tables -> A) : quiet_m (reads f). Proof. intros s. cbn. auto. Qed.
Lemma qm_readr {A} (f : tables -> res A) : quiet_m (readr f). Proof. intros s. cbn. auto. Qed.
Lemma qm_updc f : quiet_m (updc f). Proof. intros s. cbn. auto. Qed.
Lemma qm_tick : quiet_m tick.
Proof. intros [c [[|k]|]]; cbn; auto. red. discriminate. Qed.
Lemma qm_bind {A B} (m : M A) (f : A -> M B) : quiet_m m -> (forall a, quiet_m (f a)) -> quiet_m (mbind m f).
Proof.
  intros Hm Hf s. unfold mbind. specialize (Hm s). destruct (m s) as [[a|e] s']; cbn in *; [|assumption].
  eapply quiet_trans; [eassumption | apply Hf].
Qed.
Lemma qm_fun {A} (m : M A) : (forall s, quiet (flt s) (flt (snd (m s)))) -> quiet_m m.
Proof. auto. Qed.
Lemma qm_sql_w f : quiet_m (sql_w f).
Proof.
  unfold sql_w. apply qm_bind; [apply qm_tick|]. intros _ s. destruct (f (db (core s))); cbn; auto.
Qed.
Lemma qm_commit : quiet_m commit.
Proof. unfold commit. apply qm_bind; [apply qm_tick | intros; apply qm_updc]. Qed.
Lemma qm_tpm_save k m : quiet_m (tpm_save k m).
Proof. unfold tpm_save. apply qm_bind; [apply qm_tick | intros; apply qm_updc]. Qed.
Lemma qm_tpm_delete k : quiet_m (tpm_delete k).
Proof. unfold tpm_delete. apply qm_bind; [apply qm_tick | intros; apply qm_updc]. Qed.
Lemma qm_tpm_read k : quiet_m (tpm_read k).
Proof.
  unfold tpm_read. apply qm_bind; [apply qm_tick|]. intros _ s. destruct (al_get name_eqb (tpm (core s)) k); cbn; auto.
Qed.
Lemma qm_with_conn {A} (body : M A) : quiet_m body -> quiet_m (with_conn body).
Proof.
  intros Hb s. unfold with_conn. specialize (Hb s). destruct (body s) as [[a|e] s1]; cbn in *; [|assumption].
  pose proof (qm_commit s1) as Hc. destruct (commit s1) as [[u|e] s2]; cbn in *; eapply quiet_trans; eassumption.
Qed.
Lemma qm_on_error {A} (body : M A) h : quiet_m body -> quiet_m h -> quiet_m (on_error body h).
Proof.
  intros Hb Hh s. unfold on_error. specialize (Hb s). destruct (body s) as [[a|e] s1]; cbn in *; [assumption|].
  specialize (Hh s1). destruct (h s1) as [[u|e'] s2]; cbn in *; eapply quiet_trans; eassumption.
Qed.
Lemma qm_mwhen b m : quiet_m m -> quiet_m (mwhen b m).
Proof. destruct b; cbn; [auto | intros; apply qm_ret]. Qed.
Lemma qm_mfor {A} (l : list A) f : (forall x, quiet_m (f x)) -> quiet_m (mfor l f).
Proof. intros Hf. induction l; cbn [mfor]; [apply qm_ret | apply qm_bind; auto]. Qed.
Lemma qm_if {A} (b : bool) (m1 m2 : M A) : quiet_m m1 -> quiet_m m2 -> quiet_m (if b then m1 else m2).
Proof. destruct b; auto. Qed.

Ltac qm :=
  repeat first
    [ apply qm_ret | apply qm_throw | apply qm_getc | apply qm_reads | apply qm_readr | apply qm_updc
    | apply qm_sql_w | apply qm_commit | apply qm_tpm_save | apply qm_tpm_delete | apply qm_tpm_read
    | apply qm_with_conn | apply qm_on_error | apply qm_mwhen | apply qm_mfor | apply qm_if
    | apply qm_bind | match goal with |- forall _, _ => intro end ].

Lemma wp_quiet {A} (m : M A) (Q : res A -> st -> Prop) s :
  quiet_m m -> wp m Q s -> wp m (fun r s' => Q r s' /\ quiet (flt s) (flt s')) s.
Proof. unfold wp. intros Hq H. split; [assumption | apply Hq]. Qed.

Lemma qm_set_default_key_raw n : quiet_m (set_default_key_raw n).
Proof. unfold set_default_key_raw. qm. Qed.
Lemma qm_new_key idn kt ks m v : quiet_m (new_key idn kt ks m v).
Proof.
  unfold new_key, generate_key, tpm_exists. qm; try apply qm_set_default_key_raw.
  all: try (destruct ks; qm).
Qed.
Lemma qm_del_key kn : quiet_m (del_key kn).
Proof. unfold del_key, cache_reset. qm. Qed.
