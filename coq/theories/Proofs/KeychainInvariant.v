(* The state invariant and its preservation by every operation under every injected failure,
   hence over every history. *)
From NDN Require Import Base.Prelude Model.Keychain Spec.KeychainSpec.
From NDN Require Import Proofs.KeychainTables Proofs.KeychainHoare Proofs.KeychainInv Proofs.KeychainOutcome
  Proofs.KeychainOutcomeA Proofs.KeychainOutcomeB.
Local Open Scope N_scope.

(* every private key belongs to a listed key whose stored public bits are those of that private key *)
Definition tpm_sub (t : tables) (tp : list (name * N)) : Prop :=
  forall K m, al_get name_eqb tp K = Some m -> exists k, In k (t_keys t) /\ r_name k = K /\ r_val k = m.
(* a cached signer is the one the private-key store would hand out now *)
Definition cache_ok (c : cst) : Prop :=
  forall K loc g, al_get ckey_eqb (cache c) (K, loc) = Some g ->
                  exists m, al_get name_eqb (tpm c) K = Some m /\ g = SgKey m loc.

Record inv (c : cst) : Prop := mkInv {
  inv_wf : wf_tables (db c);
  inv_clean : disk c = db c;                    (* no transaction is left open *)
  inv_nd : NoDup (map fst (tpm c));
  inv_sub : tpm_sub (db c) (tpm c);
  inv_cache : cache_ok c
}.

Lemma inv_init : inv init_core.
Proof.
  constructor; cbn; try constructor; try apply wf_empty.
  - intros K m H. discriminate.
  - intros K loc g H. discriminate.
Qed.

(* keys keep their (name, bits) *)
Definition keys_kept (t t' : tables) : Prop :=
  forall k, In k (t_keys t) -> exists k', In k' (t_keys t') /\ r_name k' = r_name k /\ r_val k' = r_val k.
Lemma keys_kept_same t t' : t_keys t' = t_keys t -> keys_kept t t'.
Proof. intros E k Hk. exists k. rewrite E. auto. Qed.
Lemma tpm_sub_kept t t' tp : keys_kept t t' -> tpm_sub t tp -> tpm_sub t' tp.
Proof.
  intros K S n m H. destruct (S _ _ H) as [k [Hk [En Ev]]]. destruct (K _ Hk) as [k' [Hk' [En' Ev']]].
  exists k'. repeat split; congruence.
Qed.

Lemma inv_commit_db t c : inv c -> wf_tables t -> keys_kept (db c) t -> inv (commit_db t c).
Proof.
  intros I W K. constructor; cbn; auto; try apply I.
  eapply tpm_sub_kept; [eassumption | apply I].
Qed.
Lemma inv_set_cache_nil c : inv c -> inv (set_cache [] c).
Proof. intros I. constructor; cbn; try apply I. intros K loc g H. discriminate. Qed.

Section Pres.
  Variable F : Prop.

  Lemma inv_out_txn1 fn fin c x :
    inv c ->
    (forall t, fn (db c) = Ok t -> wf_tables t /\ keys_kept (db c) t) ->
    (forall c', inv c' -> inv (fin c')) ->
    out_txn1 F fn fin c x -> inv (snd x).
  Proof.
    intros I Hfn Hfin [[t [E ->]] | [[e [E ->]] | [_ ->]]]; cbn; auto.
    destruct (Hfn _ E). apply Hfin. apply inv_commit_db; auto.
  Qed.

  Lemma sim_kept l l' : rows_sim l l' -> forall k, In k l -> exists k', In k' l' /\ r_name k' = r_name k /\ r_val k' = r_val k.
  Proof. intros [_ S] k Hk. destruct (S _ Hk) as [y [Hy [_ [_ [En Ev]]]]]. exists y. auto. Qed.

  Lemma new_key_name_ok idn kt ks tp kn :
    new_key_name idn kt ks tp = Ok kn -> (exists kid, kn = idn ++ [C_KEY; kid]) /\ al_get name_eqb tp kn = None.
  Proof.
    unfold new_key_name. destruct (2 <=? kt); [discriminate|].
    destruct (match ks with KidExplicit k => Ok k | KidRandom cs => pick_kid idn cs tp end) as [kid|]; [|discriminate].
    cbn. destruct (al_mem name_eqb tp (idn ++ [C_KEY; kid])) eqn:E; [discriminate|]. intros H. inversion H; subst.
    split; [eauto|]. apply (al_mem_get name_eqb). assumption.
  Qed.

  Lemma new_key_db_wf i kn m v t t2 kid :
    wf_tables t -> In i (t_ids t) -> kn = r_name i ++ [C_KEY; kid] -> new_key_db i kn m v t = Ok t2 ->
    wf_tables t2 /\ keys_kept t t2.
  Proof.
    intros W Hi En E. unfold new_key_db in E. destruct (sql_insert_key (r_id i) kn m t) as [t1|] eqn:E1; [|discriminate].
    cbn in E. assert (W1 : wf_tables t1).
    { eapply wf_insert_key; try eassumption; subst kn; [apply drop2_app2 | rewrite app_length; cbn; lia]. }
    split.
    - eapply wf_insert_cert; try eassumption; [apply drop2_app2 | rewrite app_length; cbn; lia].
    - apply sql_insert_cert_ok in E. destruct E as [k0 [l [_ [_ ->]]]]. cbn.
      unfold sql_insert_key in E1. destruct (r_insert (r_id i) kn m (t_keys t)) as [lk|] eqn:R; [|discriminate].
      cbn in E1. inversion E1; subst t1. cbn. intros k Hk. exists k. split; [eapply r_insert_in; eassumption | auto].
  Qed.

  (* the state after a successful new_key *)
  Lemma inv_new_key_done c i kn m v t t2 kid :
    inv c -> wf_tables t -> keys_kept (db c) t -> In i (t_ids t) -> kn = r_name i ++ [C_KEY; kid] ->
    al_get name_eqb (tpm c) kn = None -> new_key_db i kn m v t = Ok t2 ->
    inv (mkC t2 t2 (al_set name_eqb (tpm c) kn m) (cache c)).
  Proof.
    intros I W K Hi En Ex E. destruct (new_key_db_wf _ _ _ _ _ _ _ W Hi En E) as [W2 K2].
    destruct (new_key_db_facts _ _ _ _ _ _ W Hi E) as [_ [_ [k [Gk [Nk Vk]]]]].
    constructor; cbn; auto.
    - apply al_set_nodup; [apply name_eqb_eq | apply I].
    - intros K0 m0 H. destruct (list_eq_dec N.eq_dec K0 kn) as [-> | NE].
      + rewrite (al_get_set_same name_eqb name_eqb_eq) in H. inversion H; subst m0.
        unfold id_get in Gk. apply v_get_ok in Gk. exists k. tauto.
      + rewrite (al_get_set_other name_eqb name_eqb_eq) in H by assumption.
        destruct (inv_sub _ I _ _ H) as [k0 [Hk0 [N0 V0]]]. destruct (K _ Hk0) as [k1 [Hk1 [N1 V1]]].
        destruct (K2 _ Hk1) as [k2 [Hk2 [N2 V2]]]. exists k2. repeat split; congruence.
    - intros K0 loc g H. cbn in H. destruct (inv_cache _ I _ _ _ H) as [m0 [Hm0 ->]]. exists m0. split; [|reflexivity].
      cbn. rewrite (al_get_set_other name_eqb name_eqb_eq); [assumption|]. intros ->. congruence.
  Qed.

  Lemma inv_out_new_key idn kt ks m v c x : inv c -> out_new_key F idn kt ks m v c x -> inv (snd x).
  Proof.
    intros I H. unfold out_new_key in H. destruct (negb (kc_contains idn (db c))); [subst; assumption|].
    destruct (kc_get idn (db c)) as [i|] eqn:G; [|subst; assumption].
    destruct (new_key_name idn kt ks (tpm c)) as [kn|] eqn:Nn; [|subst; assumption].
    assert (Rb : do_rollback c = c) by (apply rollback_clean; apply I).
    destruct H as [[t2 [k [E [_ ->]]]] | [[e [_ ->]] | [_ [-> | ->]]]]; cbn; try rewrite Rb; try assumption.
    apply kc_get_ok in G. destruct G as [Hi Ni]. destruct (new_key_name_ok _ _ _ _ _ Nn) as [[kid En] Ex].
    apply (inv_new_key_done c i kn m v (db c) t2 kid I (inv_wf _ I)); auto.
    - intros k0 H0; eauto.
    - rewrite Ni. exact En.
  Qed.

  Lemma inv_out_touch n cs m v c x : inv c -> out_touch F n cs m v c x -> inv (snd x).
  Proof.
    intros I H. unfold out_touch in H. destruct (kc_contains n (db c)).
    - destruct (scope_has_def 0 (t_ids (db c))).
      + destruct H as [i [_ ->]]. assumption.
      + destruct H as [[t' [i [E [_ ->]]]] | [_ ->]]; cbn; [|assumption].
        apply inv_commit_db; auto; [eapply wf_default_identity; [apply I | eassumption]|].
        inversion E. apply keys_kept_same. reflexivity.
    - destruct H as [[_ ->] | H]; [assumption|].
      destruct (sql_insert_identity n (db c)) as [t1|] eqn:E1; [|subst; assumption].
      destruct (kc_get n t1) as [i|] eqn:G; [|subst; assumption].
      destruct (new_key_name n 0 (KidRandom cs) (tpm c)) as [kn|] eqn:Nn; [|subst; assumption].
      destruct H as [[t3 [i' [E3 [_ H]]]] | [e [_ ->]]]; [|assumption].
      assert (inv (mkC t3 t3 (al_set name_eqb (tpm c) kn m) (cache c))).
      { destruct (insert_identity_facts _ _ _ (inv_wf _ I) E1) as [_ [Ek [_ _]]].
        apply kc_get_ok in G. destruct G as [Hi Ni]. destruct (new_key_name_ok _ _ _ _ _ Nn) as [[kid En] Ex].
        apply (inv_new_key_done c i kn m v t1 t3 kid I); auto.
        - eapply wf_insert_identity; [apply I | eassumption].
        - apply keys_kept_same. assumption.
        - rewrite Ni. exact En. }
      destruct H as [-> | [_ ->]]; assumption.
  Qed.

  Lemma del_key_db_wf k kn t : wf_tables t -> In k (t_keys t) -> r_name k = kn -> wf_tables (del_key_db k kn t).
  Proof.
    intros W Hk Nk. unfold del_key_db.
    pose proof (wf_delete_certs (fun r => negb (in_scope (r_id k) r)) t W) as W1.
    eapply (wf_delete_key kn _ _ W1); [|reflexivity].
    cbn. intros k0 c0 Hk0 Nk0 Hc0 E. assert (k0 = k) by (apply (name_inj (t_keys t)); [apply (wf_k _ W) | assumption | assumption | congruence]). subst k0.
    apply filter_In in Hc0. destruct Hc0 as [_ Hc0]. apply negb_true_iff, in_scope_false in Hc0. contradiction.
  Qed.

  Lemma inv_tpm_del c kn : inv c -> inv (set_tpm (al_del name_eqb (tpm c) kn) (set_cache [] c)).
  Proof.
    intros I. constructor; cbn; try apply I.
    - apply al_del_nodup. apply I.
    - intros K m H. destruct (list_eq_dec N.eq_dec K kn) as [-> | NE].
      + rewrite (al_get_del_same name_eqb name_eqb_eq) in H by apply I. discriminate.
      + rewrite (al_get_del_other name_eqb name_eqb_eq) in H by assumption. apply (inv_sub _ I). assumption.
    - intros K loc g H. discriminate.
  Qed.

  Lemma inv_del_key_done c k kn :
    inv c -> In k (t_keys (db c)) -> r_name k = kn ->
    inv (mkC (del_key_db k kn (db c)) (del_key_db k kn (db c)) (al_del name_eqb (tpm c) kn) []).
  Proof.
    intros I Hk Nk. constructor; cbn; auto.
    - apply del_key_db_wf; auto. apply I.
    - apply al_del_nodup. apply I.
    - intros K m H. destruct (list_eq_dec N.eq_dec K kn) as [-> | NE].
      + rewrite (al_get_del_same name_eqb name_eqb_eq) in H by apply I. discriminate.
      + rewrite (al_get_del_other name_eqb name_eqb_eq) in H by assumption.
        destruct (inv_sub _ I _ _ H) as [k0 [Hk0 [N0 V0]]]. exists k0. repeat split; auto.
        apply r_delete_name_in. split; [assumption | congruence].
    - intros K loc g H. discriminate.
  Qed.

  Lemma inv_out_del_key kn c x : inv c -> out_del_key F kn c x -> inv (snd x).
  Proof.
    intros I H. unfold out_del_key in H. destruct (kc_get (drop2 kn) (db c)) as [i|]; [|subst; assumption].
    destruct (id_get i kn (db c)) as [k|] eqn:G; [|subst; assumption].
    unfold id_get in G. apply v_get_ok in G. destruct G as [Hk [Nk _]].
    destruct H as [-> | [[_ ->] | [_ ->]]]; cbn.
    - apply inv_del_key_done; auto.
    - apply inv_set_cache_nil. assumption.
    - apply inv_tpm_del. assumption.
  Qed.

  (* del_identity: the keys still to delete are exactly the keys the identity still has *)
  Lemma v_iter_delete p l k :
    v_iter p (r_delete_name k l) = filter (fun n => negb (name_eqb n k)) (v_iter p l).
  Proof.
    unfold v_iter, r_delete_name. induction l as [|x l IH]; cbn; [reflexivity|].
    unfold has_name at 1. destruct (name_eqb (r_name x) k) eqn:E; cbn.
    - destruct (in_scope p x); cbn; [rewrite E; cbn|]; exact IH.
    - destruct (in_scope p x); cbn; [rewrite E; cbn; f_equal|]; exact IH.
  Qed.
  Lemma filter_all {A} (f : A -> bool) l : (forall x, In x l -> f x = true) -> filter f l = l.
  Proof.
    induction l as [|x l IH]; cbn; intros H; [reflexivity|].
    rewrite (H x (or_introl eq_refl)). f_equal. apply IH. intros y Hy. apply H. right. assumption.
  Qed.
  Lemma v_iter_delete_head p l k ks :
    wf_rows l -> v_iter p l = k :: ks -> v_iter p (r_delete_name k l) = ks.
  Proof.
    intros W E. pose proof (v_iter_nodup p l W) as ND. rewrite E in ND. inversion ND as [|? ? NI ND']; subst.
    rewrite v_iter_delete, E. cbn. rewrite name_eqb_refl. cbn. apply filter_all.
    intros x Hx. apply negb_true_iff. apply name_eqb_neq. intros ->. contradiction.
  Qed.

  Lemma inv_del_ident n ks c x i :
    inv c -> kc_get n (db c) = Ok i -> v_iter (r_id i) (t_keys (db c)) = ks ->
    del_ident_out F n ks c x -> inv (snd x).
  Proof.
    intros I G E H. revert I G E. induction H as [c t' Ed | c HF | k ks c e c' Hout | k ks c c' x Hout Hrest IH]; intros I G E.
    - cbn. apply inv_set_cache_nil. apply inv_commit_db; auto.
      + eapply wf_delete_identity; [apply I | | eassumption].
        intros i0 k0 Hi0 Ni0 Hk0 Ep. apply kc_get_ok in G. destruct G as [Hi Ni].
        assert (i0 = i) by (apply (name_inj (t_ids (db c))); [apply (wf_i _ (inv_wf _ I)) | assumption | assumption | congruence]). subst i0.
        assert (In (r_name k0) (v_iter (r_id i) (t_keys (db c)))) by (apply v_iter_in; eauto).
        rewrite E in H. contradiction.
      + inversion Ed. apply keys_kept_same. reflexivity.
    - assumption.
    - apply (inv_out_del_key _ _ _ I Hout).
    - pose proof (inv_out_del_key _ _ _ I Hout) as I'. cbn in I'. apply IH; auto.
      + (* the identity row is untouched *)
        unfold out_del_key in Hout. destruct (kc_get (drop2 k) (db c)) as [i0|]; [|discriminate].
        destruct (id_get i0 k (db c)) as [k0|]; [|discriminate].
        destruct Hout as [Ex | [[_ Ex] | [_ Ex]]]; inversion Ex; subst. cbn. exact G.
      + unfold out_del_key in Hout. destruct (kc_get (drop2 k) (db c)) as [i0|]; [|discriminate].
        destruct (id_get i0 k (db c)) as [k0|]; [|discriminate].
        destruct Hout as [Ex | [[_ Ex] | [_ Ex]]]; inversion Ex; subst. cbn.
        apply v_iter_delete_head; [apply I | assumption].
  Qed.

  Lemma inv_out_get_signer a c x : inv c -> out_get_signer F a c x -> inv (snd x).
  Proof.
    intros I H. unfold out_get_signer in H. destruct (a_nosig a); [subst; assumption|].
    destruct (a_digest a); [subst; assumption|].
    destruct (resolve_args a (db c)) as [kc|]; [|subst; assumption].
    destruct (al_get ckey_eqb (cache c) _) as [g|] eqn:Hit; [subst; assumption|].
    destruct (al_get name_eqb (tpm c) (fst kc)) as [m|] eqn:Em.
    - destruct H as [-> | [_ ->]]; [|assumption]. cbn. constructor; cbn; try apply I.
      intros K loc g H. cbn [cache set_cache tpm] in H |- *.
      set (key := (fst kc, match a_locator a with Some l => l | None => snd kc end)) in *.
      destruct (ckey_eqb (K, loc) key) eqn:Ek.
      + apply ckey_eqb_eq in Ek. rewrite Ek in H. rewrite (al_get_set_same ckey_eqb ckey_eqb_eq) in H.
        inversion H; subst g. unfold key in Ek. inversion Ek; subst. eauto.
      + rewrite (al_get_set_other ckey_eqb ckey_eqb_eq) in H.
        * apply (inv_cache _ I). assumption.
        * intros Ek'. rewrite Ek' in Ek. rewrite (proj2 (ckey_eqb_eq _ _) eq_refl) in Ek. discriminate.
    - destruct H as [-> | [_ ->]]; assumption.
  Qed.

  Theorem inv_outs o c x : inv c -> wf_op o -> outs F o c x -> inv (snd x).
  Proof.
    intros I Wo H. destruct o; cbn [outs] in H.
    - (* new_identity *) unfold out_new_identity in H. destruct (kc_contains n (db c)); [subst; assumption|].
      destruct H as [[t1 [i [E [_ ->]]]] | [_ ->]]; [|assumption]. cbn.
      apply inv_commit_db; auto; [eapply wf_insert_identity; [apply I | eassumption]|].
      destruct (insert_identity_facts _ _ _ (inv_wf _ I) E) as [_ [Ek _]]. apply keys_kept_same. assumption.
    - eapply inv_out_touch; eassumption.
    - eapply inv_out_new_key; eassumption.
    - (* import_cert *) cbn in Wo. destruct Wo as [Dn Ln]. eapply inv_out_txn1; try eassumption; auto.
      intros t E. split; [eapply wf_insert_cert; try eassumption; apply I|].
      apply sql_insert_cert_ok in E. destruct E as [k [l [_ [_ ->]]]]. apply keys_kept_same. reflexivity.
    - eapply inv_out_txn1; try eassumption; auto.
      intros t E. split; [eapply wf_default_identity; [apply I | eassumption]|]. inversion E. apply keys_kept_same. reflexivity.
    - unfold guarded in H. destruct (kc_get idn (db c)); [|subst; assumption].
      eapply inv_out_txn1; try eassumption; auto.
      intros t E. split; [eapply wf_default_key; [apply I | eassumption]|]. inversion E. cbn.
      intros k Hk. apply (sim_kept _ _ (r_set_default_sim kn (t_keys (db c)))). assumption.
    - unfold guarded in H. destruct (kc_get idn (db c)) as [i|]; [|subst; assumption].
      destruct (id_get i kn (db c)); [|subst; assumption].
      eapply inv_out_txn1; try eassumption; auto.
      intros t E. split; [eapply wf_default_cert; [apply I | eassumption]|]. inversion E. apply keys_kept_same. reflexivity.
    - eapply inv_out_txn1; try eassumption; [|apply inv_set_cache_nil].
      intros t E. split; [eapply wf_delete_cert; [apply I | eassumption]|]. inversion E. apply keys_kept_same. reflexivity.
    - eapply inv_out_del_key; eassumption.
    - unfold out_del_identity in H. destruct (kc_get n (db c)) as [i|] eqn:G; [|subst; assumption].
      eapply inv_del_ident; try eassumption. reflexivity.
    - unfold guarded in H. destruct (kc_get idn (db c)); [|subst; assumption]. eapply inv_out_del_key; eassumption.
    - unfold guarded in H. destruct (kc_get idn (db c)) as [i|]; [|subst; assumption].
      destruct (id_get i kn (db c)); [|subst; assumption].
      eapply inv_out_txn1; try eassumption; [|apply inv_set_cache_nil].
      intros t E. split; [eapply wf_delete_cert; [apply I | eassumption]|]. inversion E. apply keys_kept_same. reflexivity.
    - eapply inv_out_get_signer; eassumption.
    - subst x. cbn. constructor; cbn; try apply I; try reflexivity.
      + rewrite (inv_clean _ I). apply I.
      + rewrite (inv_clean _ I). apply I.
      + intros K loc g H. discriminate.
  Qed.
End Pres.

(* ---- every operation, under every injected failure, preserves the invariant; so does every history ------- *)
Theorem inv_step f o c : inv c -> wf_op o -> inv (step c (f, o)).
Proof.
  intros I Wo. unfold step. cbn [fst snd]. eapply inv_outs; [eassumption | eassumption|].
  apply run_op_outs; apply I.
Qed.
Theorem inv_run_from c h : inv c -> Forall (fun fo => wf_op (snd fo)) h -> inv (run_from c h).
Proof.
  intros I H. revert c I. induction H as [|[f o] h Wo _ IH]; intros c I; cbn; [assumption|].
  apply IH. apply inv_step; assumption.
Qed.
Theorem inv_run h : Forall (fun fo => wf_op (snd fo)) h -> inv (run h).
Proof. apply inv_run_from. apply inv_init. Qed.
