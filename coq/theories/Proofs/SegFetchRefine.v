(* C19 lemmas, part 2: the model run against the oracle of a scenario computes [expected]. *)
From NDN Require Import Base.Prelude Model.TlvVar Model.Name Model.SegFetch Spec.SegFetchSpec.
From NDN Require Import Proofs.BytesLemmas Proofs.TlvVarProofs Proofs.NameWire Proofs.SegFetchBasics.
Local Open Scope nat_scope.

Lemma find_seq_some (P : nat -> bool) j : forall n s,
  s <= j < s + n -> P j = true -> (forall i, s <= i < j -> P i = false) -> find P (seq s n) = Some j.
Proof.
  induction n as [|n IH]; intros s H Hj Hlt; [lia|]. cbn [seq find].
  destruct (Nat.eq_dec s j) as [->|Hne]; [rewrite Hj; reflexivity|].
  rewrite Hlt by lia. apply IH; [lia|exact Hj|intros i Hi; apply Hlt; lia].
Qed.

Lemma find_seq_none (P : nat -> bool) : forall n s,
  (forall i, s <= i < s + n -> P i = false) -> find P (seq s n) = None.
Proof.
  induction n as [|n IH]; intros s H; [reflexivity|]. cbn [seq find].
  rewrite H by lia. apply IH. intros i Hi. apply H. lia.
Qed.

Definition resp_of (S : scenario) (k : key) (f : fate) : response :=
  match f with
  | Lost => RExc XTimeout | Nacked => RExc XNack | Invalid => RExc XValFail
  | Delivered => rdata (data_of S k)
  end.

Definition res_of (S : scenario) (k : key) (r : key_result) : exc + data :=
  match r with KExhausted => inl XTimeout | KFailed x => inl x | KAnswered => inr (data_of S k) end.

Lemma scan_burst S k att : forall g n,
  (forall m, g m = resp_of S k (fate_of S k (n + m))) ->
  scan g att = res_of S k (burst (fate_of S k) n att).
Proof.
  induction att as [|a IH]; intros g n E; [reflexivity|].
  rewrite scan_S. cbn [burst]. rewrite (E O), Nat.add_0_r.
  destruct (fate_of S k n) eqn:F; cbn [resp_of res_of]; try reflexivity.
  - apply IH. intros m. rewrite E. f_equal. f_equal. lia.
  - destruct (data_of S k) as [[nm c] fb]. reflexivity.
Qed.

Lemma scan_all_timeout att : forall g, (forall m, g m = RExc XTimeout) -> scan g att = inl XTimeout.
Proof.
  induction att as [|a IH]; intros g E; [reflexivity|]. rewrite scan_S, (E O). apply IH. intros m; apply E.
Qed.

Lemma oracle_of_key S rq k n : key_of S rq = Some k -> oracle_of S rq n = resp_of S k (fate_of S k n).
Proof. intros H. unfold oracle_of. rewrite H. destruct (fate_of S k n); reflexivity. Qed.

Lemma oracle_of_nokey S rq n : key_of S rq = None -> oracle_of S rq n = RExc XTimeout.
Proof. intros H. unfold oracle_of. rewrite H. reflexivity. Qed.

Section Refine.
  Variable S : scenario.
  Variable cfg : config.
  Hypothesis HN : (N.of_nat (nseg (obj S)) < two64)%N.

  Notation seg_req := (SegFetchSpec.seg_req S cfg).
  Notation disc_req := (SegFetchSpec.disc_req S cfg).

  Lemma key_of_disc : key_of S disc_req = Some KDisc.
  Proof. unfold key_of, disc_req, mk_req. cbn [rq_cbp rq_name]. rewrite name_eqb_refl. reflexivity. Qed.

  Lemma seg_name_eqb i j :
    i <= nseg (obj S) -> j <= nseg (obj S) ->
    name_eqb (seg_name (obj S) i) (seg_name (obj S) j) = if Nat.eqb i j then true else false.
  Proof.
    intros Hi Hj. destruct (Nat.eqb_spec i j) as [->|Hne]; [apply name_eqb_refl|].
    destruct (name_eqb _ _) eqn:E; [|reflexivity]. apply name_eqb_spec in E.
    apply seg_name_inj in E; [contradiction|lia|lia].
  Qed.

  Lemma key_of_seg j : j < nseg (obj S) -> key_of S (seg_req j) = Some (KSeg j).
  Proof.
    intros Hj. unfold key_of, seg_req, mk_req. cbn [rq_cbp rq_name].
    rewrite (find_seq_some _ j); [reflexivity|lia| |].
    - apply name_eqb_refl.
    - intros i Hi. rewrite seg_name_eqb by lia. destruct (Nat.eqb_spec i j); [lia|reflexivity].
  Qed.

  Lemma key_of_past : key_of S (seg_req (nseg (obj S))) = None.
  Proof.
    unfold key_of, seg_req, mk_req. cbn [rq_cbp rq_name].
    rewrite find_seq_none; [reflexivity|].
    intros i Hi. rewrite seg_name_eqb by lia. destruct (Nat.eqb_spec i (nseg (obj S))); [lia|reflexivity].
  Qed.

  Lemma seg_req_neq i j : i <= nseg (obj S) -> j <= nseg (obj S) -> i <> j -> req_eqb (seg_req i) (seg_req j) = false.
  Proof.
    intros Hi Hj Hne. apply req_eqb_neq. intros E. unfold seg_req, mk_req in E. inversion E as [E'].
    apply seg_name_inj in E'; [contradiction|lia|lia].
  Qed.

  Lemma seg_disc_neq j : req_eqb (seg_req j) disc_req = false.
  Proof. apply req_eqb_neq. intros E. unfold seg_req, disc_req, mk_req in E. inversion E. Qed.

  (* one retry loop against (a shifted copy of) the scenario's oracle *)
  Lemma retry_known o rq k :
    key_of S rq = Some k -> (forall n, o rq n = oracle_of S rq n) ->
    snd (retry (retry_times cfg) o rq) = res_of S k (result_of S (retry_times cfg) k).
  Proof.
    intros Hk Ho. destruct (retry_spec (retry_times cfg) o rq) as (R1 & _). rewrite R1.
    unfold result_of. apply scan_burst. intros m. rewrite Ho. apply oracle_of_key. exact Hk.
  Qed.

  Lemma retry_unknown o rq :
    key_of S rq = None -> (forall n, o rq n = oracle_of S rq n) ->
    snd (retry (retry_times cfg) o rq) = inl XTimeout.
  Proof.
    intros Hk Ho. destruct (retry_spec (retry_times cfg) o rq) as (R1 & _). rewrite R1.
    apply scan_all_timeout. intros m. rewrite Ho. apply oracle_of_nokey. exact Hk.
  Qed.

  Lemma seg_loop_walk : forall len i fuel o c,
    len < fuel -> i + len = nseg (obj S) ->
    (forall j n, i <= j <= nseg (obj S) -> o (seg_req j) n = oracle_of S (seg_req j) n) ->
    observe (seg_loop fuel cfg o (base (obj S) ++ [c]) (N.of_nat i)) = walk S (retry_times cfg) (seq i len).
  Proof.
    induction len as [|len IH]; intros i fuel o c Hf Hi; assert (Hb : (N.of_nat i < two64)%N) by lia;
      intros Ho; (destruct fuel as [|f]; [lia|]);
      cbn [seg_loop]; rewrite comp_from_segment_ok by exact Hb; rewrite set_last_snoc;
      change (mk_req cfg (base (obj S) ++ [seg_comp i]) false) with (seg_req i);
      destruct (retry_spec (retry_times cfg) o (seg_req i)) as (_ & RY & _ & RO & _);
      destruct (retry (retry_times cfg) o (seg_req i)) as [[o1 ev] r] eqn:ER; cbn [fst snd] in RY, RO.
    - (* asking for the segment after the last published one *)
      assert (i = nseg (obj S)) by lia. subst i.
      pose proof (retry_unknown o _ key_of_past (fun n => Ho (nseg (obj S)) n ltac:(lia))) as RU.
      rewrite ER in RU. cbn [snd] in RU. subst r.
      unfold observe. cbn [fst snd seq walk]. rewrite RY. reflexivity.
    - assert (Hlt : i < nseg (obj S)) by lia.
      pose proof (retry_known o _ _ (key_of_seg i Hlt) (fun n => Ho i n ltac:(lia))) as RK.
      rewrite ER in RK. cbn [snd] in RK. subst r.
      cbn [seq walk]. destruct (result_of S (retry_times cfg) (KSeg i)); cbn [res_of].
      + unfold observe. cbn [fst snd]. rewrite RY. reflexivity.
      + unfold observe. cbn [fst snd]. rewrite RY. reflexivity.
      + cbn [data_of seg_data]. unfold seg_name at 1. rewrite last_comp_snoc.
        fold (is_final (obj S) i). destruct (is_final (obj S) i).
        * unfold observe. cbn [fst snd]. rewrite yields_app, RY. reflexivity.
        * rewrite observe_after, yields_app, RY. cbn [yields app].
          replace (N.of_nat i + 1)%N with (N.of_nat (Datatypes.S i)) by lia.
          unfold seg_name.
          rewrite (IH (Datatypes.S i) f o1 (seg_comp i)); [|lia|lia|].
          -- destruct (walk S (retry_times cfg) (seq (Datatypes.S i) len)) as [ys e]. reflexivity.
          -- intros j n Hj. rewrite RO by (apply seg_req_neq; lia). apply Ho. lia.
  Qed.

  Hypothesis HW : wf_scenario S.

  Theorem seg_fetch_refines fuel :
    nseg (obj S) < fuel ->
    observe (segment_fetcher fuel cfg (oracle_of S) (prefix S)) = expected S (retry_times cfg).
  Proof.
    intros Hf. unfold segment_fetcher, expected.
    change (mk_req cfg (prefix S) true) with disc_req.
    destruct (retry_spec (retry_times cfg) (oracle_of S) disc_req) as (_ & RY & _ & RO & _).
    pose proof (retry_known (oracle_of S) _ _ key_of_disc (fun n => eq_refl)) as RK.
    destruct (retry (retry_times cfg) (oracle_of S) disc_req) as [[o1 ev] r] eqn:ER; cbn [fst snd] in RY, RO, RK.
    subst r. destruct (result_of S (retry_times cfg) KDisc); cbn [res_of].
    - unfold observe. cbn [fst snd]. rewrite RY. reflexivity.
    - unfold observe. cbn [fst snd]. rewrite RY. reflexivity.
    - assert (Hinv : forall i j n, i <= j <= nseg (obj S) -> o1 (seg_req j) n = oracle_of S (seg_req j) n)
        by (intros i j n _; apply RO; apply seg_disc_neq).
      destruct HW as [_ HD]. cbn [data_of]. destruct (disc S) as [k|nm c m].
      + (* first response is segment k *)
        cbn [seg_data]. unfold seg_name at 1. rewrite last_comp_snoc, seg_comp_type.
        replace (negb (TYPE_SEGMENT =? TYPE_SEGMENT)%N) with false by reflexivity.
        rewrite seg_comp_number by lia.
        destruct k as [|k'].
        * replace (N.of_nat 0 =? 0)%N with true by reflexivity.
          fold (is_final (obj S) 0). destruct (is_final (obj S) 0).
          -- unfold observe. cbn [fst snd]. rewrite yields_app, RY. reflexivity.
          -- rewrite observe_after, yields_app, RY. cbn [yields app]. unfold seg_name.
             change 1%N with (N.of_nat 1).
             rewrite (seg_loop_walk (nseg (obj S) - 1) 1 fuel o1 (seg_comp 0)); [|lia|lia|apply (Hinv 1)].
             destruct (walk S (retry_times cfg) (seq 1 (nseg (obj S) - 1))) as [ys e]. reflexivity.
        * replace (N.of_nat (Datatypes.S k') =? 0)%N with false by lia.
          rewrite observe_after, RY. cbn [app]. unfold seg_name.
          change 0%N with (N.of_nat 0).
          rewrite (seg_loop_walk (nseg (obj S)) 0 fuel o1 (seg_comp (Datatypes.S k'))); [|lia|lia|apply (Hinv 0)].
          destruct (walk S (retry_times cfg) (seq 0 (nseg (obj S)))) as [ys e]. reflexivity.
      + (* unsegmented *)
        destruct HD as (t & Ht & Hne). destruct (last_comp nm) as [lc|e]; [|discriminate].
        cbn [bind] in Ht. rewrite Ht.
        replace (negb (t =? TYPE_SEGMENT)%N) with true by (destruct (N.eqb_spec t TYPE_SEGMENT); [contradiction|reflexivity]).
        unfold observe. cbn [fst snd]. rewrite yields_app, RY. reflexivity.
  Qed.
End Refine.
