(* Defaults: at most one per scope is part of the invariant (wf_rows); here: a populated scope is left
   without default only by deleting its default — per statement, per operation (with any injected failure),
   and over whole histories. *)
From NDN Require Import Base.Prelude Model.Keychain Spec.KeychainSpec.
From NDN Require Import Proofs.KeychainTables Proofs.KeychainHoare Proofs.KeychainInv Proofs.KeychainOutcome
  Proofs.KeychainOutcomeA Proofs.KeychainOutcomeB Proofs.KeychainInvariant.
Local Open Scope N_scope.

Definition populated (p : N) (l : rows) : Prop := exists r, In r l /\ r_par r = p.
(* the default of scope p in l is a row that l' no longer has *)
Definition lost_default (l l' : rows) (p : N) : Prop :=
  exists d, scope_default p l = Some d /\ ~ In (r_id d) (map r_id l').
Definition def_step (l l' : rows) : Prop :=
  forall p, populated p l' -> scope_has_def p l' = false ->
            (populated p l /\ scope_has_def p l = false) \/ lost_default l l' p.

Definition grow (l l' : rows) : Prop :=
  forall p, populated p l' -> scope_has_def p l' = false -> populated p l /\ scope_has_def p l = false.
Definition shrink (l l' : rows) : Prop := exists f, l' = filter f l.

Lemma grow_refl l : grow l l. Proof. red. auto. Qed.
Lemma grow_trans a b c : grow a b -> grow b c -> grow a c.
Proof. intros H1 H2 p P D. destruct (H2 p P D). auto. Qed.
Lemma shrink_refl l : shrink l l.
Proof. exists (fun _ => true). symmetry. apply filter_all. auto. Qed.
Lemma filter_filter {A} (f g : A -> bool) l : filter f (filter g l) = filter (fun x => g x && f x) l.
Proof. induction l as [|x l IH]; cbn; [reflexivity|]. destruct (g x); cbn; [destruct (f x); cbn; congruence | assumption]. Qed.
Lemma shrink_trans a b c : shrink a b -> shrink b c -> shrink a c.
Proof. intros [f ->] [g ->]. eexists. apply filter_filter. Qed.

Lemma grow_insert p n v l l' : r_insert p n v l = Ok l' -> grow l l'.
Proof.
  intros E q [r [Hr Pr]] D. destruct (N.eq_dec q p) as [-> | NE].
  - rewrite (r_insert_has_default _ _ _ _ _ E) in D. discriminate.
  - rewrite (r_insert_other_scope _ _ _ _ _ _ E NE) in D. split; [|assumption].
    destruct (r_insert_new _ _ _ _ _ E) as [x [_ [_ [Px [_ [_ Hall]]]]]].
    destruct (Hall _ Hr) as [Hr' | ->]; [exists r; auto | congruence].
Qed.
Lemma grow_set_default n l : grow l (r_set_default n l).
Proof.
  intros q [r [Hr Pr]] D. split.
  - destruct (r_set_default_in _ _ _ Hr) as [x [Hx [_ [Px _]]]]. exists x. split; [assumption | congruence].
  - destruct (scope_has_def q l) eqn:E; [|reflexivity]. rewrite (r_set_default_scope_has _ n _ E) in D. discriminate.
Qed.

Lemma grow_def_step l l' : grow l l' -> def_step l l'.
Proof. intros G p P D. left. apply G; assumption. Qed.
Lemma shrink_def_step l l' : wf_rows l -> shrink l l' -> def_step l l'.
Proof.
  intros W [f ->] p [r [Hr Pr]] D. apply filter_In in Hr. destruct Hr as [Hr Fr].
  destruct (scope_default p l) as [d|] eqn:E.
  - right. exists d. split; [exact E|]. intros Hin. apply in_map_iff in Hin. destruct Hin as [y [Ey Hy]].
    pose proof (scope_default_some _ _ _ E) as [Hd [Dd Pd]].
    assert (y = d). { apply filter_In in Hy. eapply id_inj; eauto. tauto. } subst y.
    assert (scope_has_def p (filter f l) = true) by (apply scope_has_def_true; eauto). congruence.
  - left. split; [exists r; auto | apply scope_default_none; assumption].
Qed.

(* ---- per operation --------------------------------------------------------------------------------------- *)
Definition tbl_step (l l' : rows) : Prop := grow l l' \/ shrink l l'.
Definition tables_step (t t' : tables) : Prop :=
  tbl_step (t_ids t) (t_ids t') /\ tbl_step (t_keys t) (t_keys t') /\ tbl_step (t_certs t) (t_certs t').
Definition tables_shrink (t t' : tables) : Prop :=
  shrink (t_ids t) (t_ids t') /\ shrink (t_keys t) (t_keys t') /\ shrink (t_certs t) (t_certs t').

Lemma tbl_step_refl l : tbl_step l l. Proof. left. apply grow_refl. Qed.
Lemma tables_step_refl t : tables_step t t. Proof. repeat split; apply tbl_step_refl. Qed.
Lemma tables_shrink_refl t : tables_shrink t t. Proof. repeat split; apply shrink_refl. Qed.
Lemma tables_shrink_trans a b c : tables_shrink a b -> tables_shrink b c -> tables_shrink a c.
Proof. intros [A1 [A2 A3]] [B1 [B2 B3]]. repeat split; eapply shrink_trans; eassumption. Qed.
Lemma tables_shrink_step a b : tables_shrink a b -> tables_step a b.
Proof. intros [A1 [A2 A3]]. repeat split; right; assumption. Qed.

Lemma step_insert_identity n t t' : sql_insert_identity n t = Ok t' -> tables_step t t'.
Proof.
  unfold sql_insert_identity. destruct (r_insert 0 n 0 (t_ids t)) eqn:E; [|discriminate]. cbn. intros H. inversion H; subst.
  repeat split; cbn; try apply tbl_step_refl. left. eapply grow_insert; eassumption.
Qed.
Lemma step_insert_cert kn cn d t t' : sql_insert_cert kn cn d t = Ok t' -> tables_step t t'.
Proof.
  intros H. apply sql_insert_cert_ok in H. destruct H as [k [l [_ [E ->]]]].
  repeat split; cbn; try apply tbl_step_refl. left. eapply grow_insert; eassumption.
Qed.
Lemma grow_new_key_db i kn m v t t2 :
  new_key_db i kn m v t = Ok t2 -> t_ids t2 = t_ids t /\ grow (t_keys t) (t_keys t2) /\ grow (t_certs t) (t_certs t2).
Proof.
  unfold new_key_db. destruct (sql_insert_key (r_id i) kn m t) as [t1|] eqn:E1; [|discriminate]. cbn. intros E.
  apply sql_insert_cert_ok in E. destruct E as [k0 [l [_ [Ec ->]]]]. cbn.
  unfold sql_insert_key in E1. destruct (r_insert (r_id i) kn m (t_keys t)) as [lk|] eqn:R; [|discriminate].
  cbn in E1. inversion E1; subst t1. cbn in *. repeat split; eapply grow_insert; eassumption.
Qed.

Section Step.
  Variable F : Prop.

  Lemma step_txn1 fn fin c x :
    (forall t, fn (db c) = Ok t -> tables_step (db c) t) -> (forall c', db (fin c') = db c') ->
    out_txn1 F fn fin c x -> tables_step (db c) (db (snd x)).
  Proof.
    intros Hfn Hfin [[t [E ->]] | [[e [E ->]] | [_ ->]]]; cbn; try apply tables_step_refl.
    rewrite Hfin. cbn. auto.
  Qed.

  Lemma shrink_del_key kn c x : out_del_key F kn c x -> tables_shrink (db c) (db (snd x)).
  Proof.
    unfold out_del_key. destruct (kc_get (drop2 kn) (db c)) as [i|]; [|intros ->; apply tables_shrink_refl].
    destruct (id_get i kn (db c)) as [k|]; [|intros ->; apply tables_shrink_refl].
    intros [-> | [[_ ->] | [_ ->]]]; cbn; try apply tables_shrink_refl.
    repeat split; cbn; [apply shrink_refl | eexists; reflexivity | eexists; reflexivity].
  Qed.
  Lemma shrink_del_ident n ks c x : del_ident_out F n ks c x -> tables_shrink (db c) (db (snd x)).
  Proof.
    induction 1 as [c t' Ed | c HF | k ks c e c' Hout | k ks c c' x Hout Hrest IH].
    - cbn. inversion Ed; subst. repeat split; cbn; [eexists; reflexivity | apply shrink_refl | apply shrink_refl].
    - apply tables_shrink_refl.
    - apply (shrink_del_key _ _ _ Hout).
    - eapply tables_shrink_trans; [apply (shrink_del_key _ _ _ Hout) | exact IH].
  Qed.

  Theorem outs_tables_step o c x : inv c -> outs F o c x -> tables_step (db c) (db (snd x)).
  Proof.
    intros I H. assert (Rb : do_rollback c = c) by (apply rollback_clean; apply I).
    destruct o; cbn [outs] in H.
    - unfold out_new_identity in H. destruct (kc_contains n (db c)); [subst; apply tables_step_refl|].
      destruct H as [[t1 [i [E [_ ->]]]] | [_ ->]]; cbn; [eapply step_insert_identity; eassumption | apply tables_step_refl].
    - unfold out_touch in H. destruct (kc_contains n (db c)).
      + destruct (scope_has_def 0 (t_ids (db c))).
        * destruct H as [i [_ ->]]. apply tables_step_refl.
        * destruct H as [[t' [i [E [_ ->]]]] | [_ ->]]; cbn; [|apply tables_step_refl].
          inversion E; subst. repeat split; cbn; try apply tbl_step_refl. left. apply grow_set_default.
      + destruct H as [[_ ->] | H]; [apply tables_step_refl|].
        destruct (sql_insert_identity n (db c)) as [t1|] eqn:E1; [|subst; apply tables_step_refl].
        destruct (kc_get n t1) as [i|]; [|subst; apply tables_step_refl].
        destruct (new_key_name n 0 (KidRandom cands) (tpm c)) as [kn|]; [|subst; apply tables_step_refl].
        destruct H as [[t3 [i' [E3 [_ H]]]] | [e [_ ->]]]; [|apply tables_step_refl].
        assert (tables_step (db c) t3).
        { destruct (grow_new_key_db _ _ _ _ _ _ E3) as [Ei [Gk Gc]].
          destruct (step_insert_identity _ _ _ E1) as [Si _].
          unfold sql_insert_identity in E1. destruct (r_insert 0 n 0 (t_ids (db c))) eqn:R; [|discriminate].
          cbn in E1. inversion E1; subst t1. cbn in *.
          repeat split; [rewrite Ei; exact Si | left; assumption | left; assumption]. }
        destruct H as [-> | [_ ->]]; assumption.
    - unfold out_new_key in H. destruct (negb (kc_contains idn (db c))); [subst; apply tables_step_refl|].
      destruct (kc_get idn (db c)) as [i|]; [|subst; apply tables_step_refl].
      destruct (new_key_name idn ktype ks (tpm c)) as [kn|]; [|subst; apply tables_step_refl].
      destruct H as [[t2 [k [E [_ ->]]]] | [[e [_ ->]] | [_ [-> | ->]]]]; try rewrite Rb; cbn; try apply tables_step_refl.
      destruct (grow_new_key_db _ _ _ _ _ _ E) as [Ei [Gk Gc]]. repeat split; [rewrite Ei; apply tbl_step_refl | left; assumption | left; assumption].
    - eapply step_txn1; [| |eassumption]; [|reflexivity]. intros t E. eapply step_insert_cert; eassumption.
    - eapply step_txn1; [| |eassumption]; [|reflexivity]. intros t E. inversion E; subst.
      repeat split; cbn; try apply tbl_step_refl. left. apply grow_set_default.
    - unfold guarded in H. destruct (kc_get idn (db c)); [|subst; apply tables_step_refl].
      eapply step_txn1; [| |eassumption]; [|reflexivity]. intros t E. inversion E; subst.
      repeat split; cbn; try apply tbl_step_refl. left. apply grow_set_default.
    - unfold guarded in H. destruct (kc_get idn (db c)) as [i|]; [|subst; apply tables_step_refl].
      destruct (id_get i kn (db c)); [|subst; apply tables_step_refl].
      eapply step_txn1; [| |eassumption]; [|reflexivity]. intros t E. inversion E; subst.
      repeat split; cbn; try apply tbl_step_refl. left. apply grow_set_default.
    - eapply step_txn1; [| |eassumption]; [|reflexivity]. intros t E. inversion E; subst.
      repeat split; cbn; try apply tbl_step_refl. right. eexists; reflexivity.
    - apply tables_shrink_step. eapply shrink_del_key; eassumption.
    - unfold out_del_identity in H. destruct (kc_get n (db c)); [|subst; apply tables_step_refl].
      apply tables_shrink_step. eapply shrink_del_ident; eassumption.
    - unfold guarded in H. destruct (kc_get idn (db c)); [|subst; apply tables_step_refl].
      apply tables_shrink_step. eapply shrink_del_key; eassumption.
    - unfold guarded in H. destruct (kc_get idn (db c)) as [i|]; [|subst; apply tables_step_refl].
      destruct (id_get i kn (db c)); [|subst; apply tables_step_refl].
      eapply step_txn1; [| |eassumption]; [|reflexivity]. intros t E. inversion E; subst.
      repeat split; cbn; try apply tbl_step_refl. right. eexists; reflexivity.
    - unfold out_get_signer in H. destruct (a_nosig a); [subst; apply tables_step_refl|].
      destruct (a_digest a); [subst; apply tables_step_refl|].
      destruct (resolve_args a (db c)) as [kc|]; [|subst; apply tables_step_refl].
      destruct (al_get ckey_eqb (cache c) _); [subst; apply tables_step_refl|].
      destruct (al_get name_eqb (tpm c) (fst kc)); destruct H as [-> | [_ ->]]; apply tables_step_refl.
    - subst x. cbn. rewrite (inv_clean _ I). apply tables_step_refl.
  Qed.
End Step.

Lemma tbl_step_def l l' : wf_rows l -> tbl_step l l' -> def_step l l'.
Proof. intros W [G | S]; [apply grow_def_step | apply shrink_def_step]; assumption. Qed.

(* one operation, whatever failure is injected *)
Theorem defaults_step f o c :
  inv c ->
  let c' := step c (f, o) in
  def_step (t_ids (db c)) (t_ids (db c')) /\ def_step (t_keys (db c)) (t_keys (db c')) /\
  def_step (t_certs (db c)) (t_certs (db c')).
Proof.
  intros I. cbn zeta. unfold step. cbn [fst snd].
  pose proof (run_op_outs f o c (inv_clean _ I) (inv_wf _ I)) as H.
  apply (outs_tables_step _ _ _ _ I) in H. destruct H as [H1 [H2 H3]].
  repeat split; apply tbl_step_def; auto; apply (inv_wf _ I).
Qed.

(* whole histories: a populated scope without default has lost its default by a delete at some step *)
Lemma run_snoc h fo : run (h ++ [fo]) = step (run h) fo.
Proof. unfold run, run_from. rewrite fold_left_app. reflexivity. Qed.

Theorem defaults_history (sel : tables -> rows) :
  (forall f o c, inv c -> def_step (sel (db c)) (sel (db (step c (f, o))))) ->
  sel empty_tables = [] ->
  forall h p, Forall (fun fo => wf_op (snd fo)) h ->
    populated p (sel (db (run h))) -> scope_has_def p (sel (db (run h))) = false ->
    exists h1 fo h2, h = h1 ++ fo :: h2 /\ lost_default (sel (db (run h1))) (sel (db (run (h1 ++ [fo])))) p.
Proof.
  intros Hstep Hemp h p. induction h as [|fo h IH] using rev_ind; intros W P D.
  - unfold run, run_from in P. cbn in P. rewrite Hemp in P. destruct P as [r [[] _]].
  - apply Forall_app in W. destruct W as [Wh Wfo]. rewrite run_snoc in P, D.
    destruct fo as [f o]. destruct (Hstep f o (run h) (inv_run h Wh) p P D) as [[P' D'] | L].
    + destruct (IH Wh P' D') as [h1 [fo' [h2 [-> L]]]]. exists h1, fo', (h2 ++ [(f, o)]).
      split; [rewrite <- app_assoc; reflexivity | assumption].
    + exists h, (f, o), []. split; [reflexivity|]. rewrite run_snoc. assumption.
Qed.
