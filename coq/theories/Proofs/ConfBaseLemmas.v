(* Lemmas about the string primitives of Model/ConfBase.v (strip, partition, break, lines, join). *)
From NDN Require Import Base.Prelude Base.Text Model.ConfBase Proofs.TextProofs.
Local Open Scope N_scope.

Lemma str_eqb_eq a b : str_eqb a b = true <-> a = b.
Proof. apply list_eqb_spec. intros; apply N.eqb_eq. Qed.
Lemma str_eqb_refl a : str_eqb a a = true.
Proof. apply str_eqb_eq. reflexivity. Qed.
Lemma str_eqb_neq a b : str_eqb a b = false <-> a <> b.
Proof.
  split.
  - intros H E. apply str_eqb_eq in E. congruence.
  - intros H. destruct (str_eqb a b) eqn:E; [|reflexivity]. apply str_eqb_eq in E. contradiction.
Qed.

Lemma nonempty_app_l a b : nonempty a = true -> nonempty (a ++ b) = true.
Proof. destruct a; [discriminate|reflexivity]. Qed.

(* ---- lstrip / rstrip ------------------------------------------------------------------------------ *)
Lemma lstrip_by_all p ws : forallb p ws = true -> lstrip_by p ws = [].
Proof.
  induction ws as [|c r IH]; [reflexivity|]. cbn. intros H. apply andb_true_iff in H. destruct H as [Hc Hr].
  rewrite Hc. auto.
Qed.

Lemma lstrip_by_app_all p ws s : forallb p ws = true -> lstrip_by p (ws ++ s) = lstrip_by p s.
Proof.
  induction ws as [|c r IH]; [reflexivity|]. cbn. intros H. apply andb_true_iff in H. destruct H as [Hc Hr].
  rewrite Hc. auto.
Qed.

Lemma lstrip_by_head p c s : p c = false -> lstrip_by p (c :: s) = c :: s.
Proof. intros H. cbn. rewrite H. reflexivity. Qed.

Lemma lstrip_by_stop p u x w : p x = false -> lstrip_by p (u ++ x :: w) = lstrip_by p u ++ x :: w.
Proof.
  intros Hx. induction u as [|c r IH]; cbn.
  - rewrite Hx. reflexivity.
  - destruct (p c); [exact IH|reflexivity].
Qed.

Lemma rstrip_by_nil p : rstrip_by p [] = [].
Proof. reflexivity. Qed.

Lemma rstrip_by_all p ws : forallb p ws = true -> rstrip_by p ws = [].
Proof.
  intros H. unfold rstrip_by. rewrite lstrip_by_all; [reflexivity|].
  rewrite forallb_forall in *. intros x Hx. apply H. apply in_rev. exact Hx.
Qed.

Lemma rstrip_by_app_all p a ws : forallb p ws = true -> rstrip_by p (a ++ ws) = rstrip_by p a.
Proof.
  intros H. unfold rstrip_by. rewrite rev_app_distr, lstrip_by_app_all; [reflexivity|].
  rewrite forallb_forall in *. intros x Hx. apply H. apply in_rev. exact Hx.
Qed.

Lemma rstrip_by_stop p a x y : p x = false -> rstrip_by p (a ++ x :: y) = a ++ x :: rstrip_by p y.
Proof.
  intros Hx. unfold rstrip_by. rewrite rev_app_distr. cbn [rev]. rewrite <- app_assoc. cbn [app].
  rewrite lstrip_by_stop by exact Hx. rewrite rev_app_distr. cbn [rev]. rewrite rev_involutive, <- app_assoc.
  reflexivity.
Qed.

Lemma rstrip_by_last p a x : p x = false -> rstrip_by p (a ++ [x]) = a ++ [x].
Proof. intros H. rewrite rstrip_by_stop by exact H. reflexivity. Qed.

Lemma edges_of_bool (p : N -> bool) (v : str) :
  match v with [] => true | c :: _ => negb (p c) end = true ->
  match rev v with [] => true | c :: _ => negb (p c) end = true ->
  v = [] \/ (exists c r, v = c :: r /\ p c = false) /\ (exists m z, v = m ++ [z] /\ p z = false).
Proof.
  intros H1 H2. destruct v as [|c r]; [left; reflexivity|right]. split.
  - exists c, r. split; [reflexivity|]. destruct (p c); [discriminate|reflexivity].
  - destruct (rev (c :: r)) as [|z m] eqn:E.
    + apply (f_equal (@rev N)) in E. rewrite rev_involutive in E. discriminate.
    + exists (rev m), z. split.
      * apply (f_equal (@rev N)) in E. rewrite rev_involutive in E. exact E.
      * destruct (p z); [discriminate|reflexivity].
Qed.

Lemma strip_clear v :
  v = [] \/ (exists c r, v = c :: r /\ is_space c = false) /\ (exists m z, v = m ++ [z] /\ is_space z = false) ->
  forall ws1 ws2, forallb is_space ws1 = true -> forallb is_space ws2 = true -> strip (ws1 ++ v ++ ws2) = v.
Proof.
  intros [->|[(c & r & -> & Hc) (m & z & E & Hz)]] ws1 ws2 H1 H2; unfold strip.
  - cbn [app]. rewrite lstrip_by_app_all by exact H1. rewrite lstrip_by_all by exact H2. reflexivity.
  - rewrite lstrip_by_app_all by exact H1. cbn [app]. rewrite lstrip_by_head by exact Hc.
    change (c :: r ++ ws2) with ((c :: r) ++ ws2). rewrite rstrip_by_app_all by exact H2.
    rewrite E. apply rstrip_by_last. exact Hz.
Qed.

(* ---- partition / break ------------------------------------------------------------------------------- *)
Lemma partition_on_app c a r :
  forallb (fun x => negb (x =? c)) a = true -> partition_on c (a ++ c :: r) = (a, Some r).
Proof.
  induction a as [|x a IH]; cbn; intros H.
  - rewrite N.eqb_refl. reflexivity.
  - apply andb_true_iff in H. destruct H as [Hx Ha]. destruct (x =? c); [discriminate|]. rewrite IH by exact Ha. reflexivity.
Qed.

Lemma partition_on_none c a :
  forallb (fun x => negb (x =? c)) a = true -> partition_on c a = (a, None).
Proof.
  induction a as [|x a IH]; cbn; intros H; [reflexivity|].
  apply andb_true_iff in H. destruct H as [Hx Ha]. destruct (x =? c); [discriminate|]. rewrite IH by exact Ha. reflexivity.
Qed.

Lemma partition_on_fst_app c a x r :
  forallb (fun y => negb (y =? c)) a = true -> x = c -> fst (partition_on c (a ++ x :: r)) = a.
Proof. intros H ->. rewrite partition_on_app by exact H. reflexivity. Qed.

Lemma rpartition_on_none c s :
  forallb (fun x => negb (x =? c)) s = true -> rpartition_on c s = (None, s).
Proof.
  intros H. unfold rpartition_on. rewrite partition_on_none; [reflexivity|].
  rewrite forallb_forall in *. intros x Hx. apply H. apply in_rev. exact Hx.
Qed.

Lemma break_on_app p a x r :
  forallb (fun y => negb (p y)) a = true -> p x = true -> break_on p (a ++ x :: r) = (a, Some (x, r)).
Proof.
  induction a as [|y a IH]; cbn; intros H Hx.
  - rewrite Hx. reflexivity.
  - apply andb_true_iff in H. destruct H as [Hy Ha]. destruct (p y); [discriminate|]. rewrite IH by assumption. reflexivity.
Qed.

Lemma break_on_none p a :
  forallb (fun y => negb (p y)) a = true -> break_on p a = (a, None).
Proof.
  induction a as [|y a IH]; cbn; intros H; [reflexivity|].
  apply andb_true_iff in H. destruct H as [Hy Ha]. destruct (p y); [discriminate|]. rewrite IH by assumption. reflexivity.
Qed.

Lemma contains_false c s : forallb (fun x => negb (x =? c)) s = true -> contains c s = false.
Proof.
  unfold contains. induction s as [|x s IH]; cbn; intros H; [reflexivity|].
  apply andb_true_iff in H. destruct H as [Hx Hs]. rewrite N.eqb_sym. destruct (x =? c); [discriminate|]. cbn. auto.
Qed.

Lemma contains_app c a b : contains c (a ++ b) = contains c a || contains c b.
Proof. unfold contains. apply existsb_app. Qed.

Lemma forallb_impl {A} (p q : A -> bool) l :
  (forall x, p x = true -> q x = true) -> forallb p l = true -> forallb q l = true.
Proof. intros H. rewrite !forallb_forall. auto. Qed.

Lemma filter_id {A} (p : A -> bool) l : forallb p l = true -> filter p l = l.
Proof.
  induction l as [|x l IH]; cbn; intros H; [reflexivity|].
  apply andb_true_iff in H. destruct H as [Hx Hl]. rewrite Hx, IH by exact Hl. reflexivity.
Qed.

(* ---- lines ----------------------------------------------------------------------------------------------- *)
Lemma py_lines_nil : py_lines [] = [].
Proof. reflexivity. Qed.

Lemma py_lines_cons a r :
  forallb (fun c => negb (c =? ch_nl)) a = true -> py_lines (a ++ ch_nl :: r) = a :: py_lines r.
Proof.
  intros H. unfold py_lines. rewrite split_on_app by exact H.
  pose proof (split_on_nonempty ch_nl r) as Hne.
  destruct (rev (split_on ch_nl r)) as [|x y] eqn:E.
  - apply (f_equal (@rev str)) in E. rewrite rev_involutive in E. contradiction.
  - cbn [rev]. rewrite E. cbn [app]. destruct x.
    + rewrite rev_app_distr. reflexivity.
    + reflexivity.
Qed.

Lemma join_with_repeat v n : join_with ch_nl (v :: repeat [] n) = v ++ repeat ch_nl n.
Proof.
  revert v. induction n as [|n IH]; intros v; cbn [repeat].
  - cbn. rewrite app_nil_r. reflexivity.
  - change (join_with ch_nl (v :: [] :: repeat [] n)) with (v ++ ch_nl :: join_with ch_nl ([] :: repeat [] n)).
    rewrite IH. reflexivity.
Qed.

Lemma repeat_snoc {A} (x : A) n : repeat x n ++ [x] = repeat x (S n).
Proof. induction n as [|n IH]; cbn; [reflexivity|]. rewrite IH. reflexivity. Qed.

Lemma forallb_repeat {A} (p : A -> bool) x n : p x = true -> forallb p (repeat x n) = true.
Proof. intros H. induction n; cbn; [reflexivity|]. rewrite H. exact IHn. Qed.

(* ---- os.path ------------------------------------------------------------------------------------------- *)
Lemma path_join_nil b : path_join [] b = b.
Proof. unfold path_join. destruct (starts_with [ch_slash] b); reflexivity. Qed.

Lemma path_dirname_nil : path_dirname [] = [].
Proof. reflexivity. Qed.

Lemma expandvars_plain e s : contains ch_dollar s = false -> expandvars e s = s.
Proof. unfold expandvars. intros ->. reflexivity. Qed.
