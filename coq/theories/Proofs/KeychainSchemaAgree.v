(* T1 tie for C15: the schema re-read from keychain_sqlite3.INITIALIZE_SQL on this run (through SQLite itself)
   is the one Model/Keychain.v implements.

   What the model relies on, per table (identities / keys / certificates are three instances of one [row] table):
   * INTEGER PRIMARY KEY without AUTOINCREMENT        -> [next_id] = max(rowid)+1, ids are reused;
   * UNIQUE index on the name                          -> [r_insert] refuses an existing name (IntegrityError);
   * is_default DEFAULT 0 and BEFORE INSERT WHEN NEW.is_default=1
                                                       -> never fires for the INSERTs of the code (they do not set the flag);
   * AFTER INSERT WHEN no default in the scope of NEW: set is_default=1 where name=NEW.name
                                                       -> [r_insert] makes the new row the default iff its scope has none;
   * BEFORE UPDATE WHEN NEW.is_default=1 AND OLD.is_default=0: clear the scope of NEW
                                                       -> [r_set_default] clears the scope, then sets the row;
   * no trigger on DELETE, foreign keys not enforced   -> deletes are plain filters; the code cascades by hand;
   * scope column (identity_id / key_id) NOT NULL      -> [sql_insert_cert] with an unknown key is an IntegrityError. *)
From NDN Require Import Base.Prelude Model.Keychain.
From NDN Require Generated.KeychainSchema.
Local Open Scope N_scope.

Definition before_insert_new_default : Generated.KeychainSchema.trigger := (0, 0, 0, 0).
Definition before_update_becomes_default : Generated.KeychainSchema.trigger := (0, 1, 2, 0).
Definition after_insert_no_default : Generated.KeychainSchema.trigger := (1, 0, 1, 1).
Definition modelled_triggers := [before_insert_new_default; before_update_becomes_default; after_insert_no_default].

Definition modelled_schema : list Generated.KeychainSchema.table * bool :=
  ([ (0, false, 0, false, true, 0, modelled_triggers);     (* identities: one scope for the whole table *)
     (1, false, 1, true, true, 0, modelled_triggers);      (* keys: scope = identity_id                  *)
     (2, false, 2, true, true, 0, modelled_triggers) ],    (* certificates: scope = key_id               *)
   false).                                                  (* SQLite does not cascade deletes             *)

Lemma schema_agrees : Generated.KeychainSchema.schema = modelled_schema.
Proof. reflexivity. Qed.
