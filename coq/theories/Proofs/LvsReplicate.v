(* Compiler._replicate_rules (Model/LvsCompiler.replicate_rules): when every rule comes after the rules it
   refers to (what _sort_rule_references guarantees) the pass cannot fail; every rule gets at least one chain;
   chains contain no rule references; their literals, named tags and constraint options are those of the
   numbered rules (temporary tags are renamed to fresh negative numbers). *)
From NDN Require Import Base.Prelude Base.Text Model.TlvVar Model.Name Model.LvsAst Model.LvsChecker Model.LvsCompiler
  Spec.LvsSem Proofs.LvsSanity Proofs.LvsGenTree Proofs.LvsCompileTree Proofs.LvsNumbering.
Local Open Scope N_scope.

Lemma map_acc_inv {S A B} (f : S -> A -> S * B) (P : S -> Prop) (Q : B -> Prop) : forall l s s' ys,
  (forall s x s' y, P s -> In x l -> f s x = (s', y) -> P s' /\ Q y) ->
  P s -> map_acc f s l = (s', ys) -> P s' /\ Forall Q ys /\ length ys = length l.
Proof.
  induction l as [|x l IH]; intros s s' ys Hf Hs H; cbn [map_acc] in H.
  - inversion H; subst. auto.
  - destruct (f s x) as [s1 y] eqn:E. destruct (map_acc f s1 l) as [s2 ys'] eqn:Em. inversion H; subst. clear H.
    destruct (Hf s x s1 y Hs (or_introl eq_refl) E) as [Hs1 Hy].
    destruct (IH s1 s' ys' (fun s0 x0 s0' y0 H0 Hin => Hf s0 x0 s0' y0 H0 (or_intror Hin)) Hs1 Em) as (H1 & H2 & H3).
    split; [exact H1|]. split; [constructor; assumption | cbn; lia].
Qed.

Section Replicate.
  Variable nrules : list nrule.

  Definition comp_from (c : ncomp) : Prop :=
    match c with
    | NLit v => exists nr, In nr nrules /\ In (NLit v) (nr_name nr)
    | NPat t => (t < 0)%Z \/ exists nr, In nr nrules /\ In (NPat t) (nr_name nr)
    | NRef _ => False
    end.
  Definition cons_from (nc : ncons) : Prop :=
    exists nr cs c0, In nr nrules /\ In cs (nr_cons nr) /\ In c0 cs /\ nc_opts nc = nc_opts c0.
  Definition chain_from (ch : chain) : Prop :=
    Forall comp_from (ch_name ch) /\ Forall cons_from (ch_cons ch) /\
    exists nr, In nr nrules /\ ch_id ch = nr_id nr /\ ch_sign ch = isort str_leb (nr_sign nr).

  Definition refs_earlier : Prop :=
    forall l1 nr l2 r, nrules = l1 ++ nr :: l2 -> In (NRef r) (nr_name nr) -> exists nr', In nr' l1 /\ nr_id nr' = r.

  (* ---- renaming -------------------------------------------------------------------------------------------- *)
  Lemma fresh_neg s t s' t' : 1 <= snd s -> (forall a b, In (a, b) (fst s) -> (b < 0)%Z) -> fresh s t = (s', t') ->
    1 <= snd s' /\ (forall a b, In (a, b) (fst s') -> (b < 0)%Z) /\ (t' < 0)%Z.
  Proof.
    intros Hk Hm. unfold fresh. destruct (al_get Z.eqb (fst s) t) as [x|] eqn:E.
    - intros H; inversion H; subst. split; [exact Hk|]. split; [exact Hm|].
      clear - E Hm. revert Hm E. induction (fst s') as [|[a b] l IH]; intros Hm E; [discriminate|]. cbn in E. destruct (Z.eqb t a).
      + inversion E; subst. apply (Hm a t'). left; reflexivity.
      + apply IH; [|exact E]. intros a0 b0 H0. apply (Hm a0 b0). right; exact H0.
    - intros H; inversion H; subst. cbn [fst snd]. split; [lia|]. split; [|lia].
      intros a b Hin. apply in_app_or in Hin. destruct Hin as [Hin|[Hin|[]]]; [eapply Hm; eauto | inversion Hin; lia].
  Qed.

  Definition rn_ok (s : list (Z * Z) * N) : Prop := 1 <= snd s /\ forall a b, In (a, b) (fst s) -> (b < 0)%Z.

  Lemma rename_comp_from s c s' c' : rn_ok s -> comp_from c -> rename_comp s c = (s', c') -> rn_ok s' /\ comp_from c'.
  Proof.
    intros [Hk Hm] Hc. unfold rename_comp. destruct c as [v|t|r]; try (intros H; inversion H; subst; split; [split; assumption | exact Hc]).
    destruct (Z.ltb_spec t 0).
    - destruct (fresh s t) as [s1 t1] eqn:Ef. intros H0; inversion H0; subst.
      destruct (fresh_neg _ _ _ _ Hk Hm Ef) as (H1 & H2 & H3). split; [split; assumption|]. cbn. left. exact H3.
    - intros H0; inversion H0; subst. split; [split; assumption | exact Hc].
  Qed.

  Lemma rename_cons_from s c s' c' : rn_ok s -> cons_from c -> rename_cons s c = (s', c') -> rn_ok s' /\ cons_from c'.
  Proof.
    intros Hs Hc. unfold rename_cons. destruct (nc_pat c) as [|t l] eqn:Ep; [intros H; inversion H; subst; auto|].
    destruct (t <? 0)%Z; [|intros H; inversion H; subst; auto].
    destruct (map_acc fresh s (t :: l)) as [s1 l1] eqn:Em. intros H; inversion H; subst. clear H.
    destruct (map_acc_inv fresh rn_ok (fun _ => True) _ _ _ _ (fun s0 x s0' y H0 _ Hf =>
                conj (let '(conj a (conj b _)) := fresh_neg _ _ _ _ (proj1 H0) (proj2 H0) Hf in conj a b) I) Hs Em) as (H1 & _).
    split; [exact H1|]. destruct Hc as (nr & cs & c0 & Ha & Hb & Hc0 & Ho). exists nr, cs, c0. cbn. auto.
  Qed.

  Lemma rename_temp_tags_from k rc k' nm cs : 1 <= k -> Forall comp_from (ch_name rc) -> Forall cons_from (ch_cons rc) ->
    rename_temp_tags k rc = (k', (nm, cs)) -> 1 <= k' /\ Forall comp_from nm /\ Forall cons_from cs.
  Proof.
    intros Hk Hn Hc. unfold rename_temp_tags.
    destruct (map_acc rename_comp ([], k) (ch_name rc)) as [s1 nm1] eqn:E1.
    destruct (map_acc rename_cons s1 (ch_cons rc)) as [s2 cs1] eqn:E2. intros H; inversion H; subst. clear H.
    assert (H0 : rn_ok ([], k)) by (split; [exact Hk | intros a b []]).
    (* names *)
    assert (G1 : rn_ok s1 /\ Forall comp_from nm).
    { clear E2. revert H0 E1. generalize ([] : list (Z * Z), k) as s. revert nm.
      induction (ch_name rc) as [|c l IH]; intros nm s Hs E; cbn [map_acc] in E.
      - inversion E; subst. auto.
      - inversion Hn as [|? ? Hc0 Hl]; subst. destruct (rename_comp s c) as [sa ca] eqn:Ea.
        destruct (map_acc rename_comp sa l) as [sb lb] eqn:Eb. inversion E; subst.
        destruct (rename_comp_from _ _ _ _ Hs Hc0 Ea) as [Hsa Hca]. destruct (IH Hl _ _ Hsa Eb) as [Hsb Hlb].
        split; [exact Hsb | constructor; assumption]. }
    destruct G1 as [Hs1 Hnm].
    assert (G2 : rn_ok s2 /\ Forall cons_from cs).
    { revert Hs1 E2. generalize s1 as s. revert cs.
      induction (ch_cons rc) as [|c l IH]; intros cs s Hs E; cbn [map_acc] in E.
      - inversion E; subst. auto.
      - inversion Hc as [|? ? Hc0 Hl]; subst. destruct (rename_cons s c) as [sa ca] eqn:Ea.
        destruct (map_acc rename_cons sa l) as [sb lb] eqn:Eb. inversion E; subst.
        destruct (rename_cons_from _ _ _ _ Hs Hc0 Ea) as [Hsa Hca]. destruct (IH Hl _ _ Hsa Eb) as [Hsb Hlb].
        split; [exact Hsb | constructor; assumption]. }
    destruct G2 as [[Hk2 _] Hcs]. auto.
  Qed.

  (* ---- one rule ------------------------------------------------------------------------------------------------ *)
  (* a chain under construction for rule nr *)
  Definition partial_for (nr : nrule) (ch : chain) : Prop :=
    Forall comp_from (ch_name ch) /\ Forall cons_from (ch_cons ch) /\ ch_id ch = nr_id nr /\ ch_sign ch = isort str_leb (nr_sign nr).

  Definition rep_ok (rep : list (ident * list chain)) : Prop :=
    forall id chs, In (id, chs) rep -> chs <> [] /\ Forall (fun ch => chain_from ch /\ ch_id ch = id) chs.

  Lemma al_get_in_pair {V} (l : list (ident * V)) k v : al_get ident_eqb l k = Some v -> In (k, v) l.
  Proof.
    induction l as [|[k' v'] l IH]; cbn; [discriminate|]. destruct (ident_eqb k k') eqn:E.
    - apply ident_eqb_eq in E. intros H; inversion H; subst. left; reflexivity.
    - intros H. right. apply IH, H.
  Qed.

  Lemma init_chains_ok nr : In nr nrules -> init_chains nr <> [] /\ Forall (partial_for nr) (init_chains nr).
  Proof.
    intros Hin. unfold init_chains. destruct (nr_cons nr) as [|cs css] eqn:E.
    - split; [discriminate|]. constructor; [|constructor]. unfold partial_for. cbn. repeat split; constructor.
    - split; [discriminate|]. apply Forall_forall. intros ch Hch. apply in_map_iff in Hch. destruct Hch as (cs0 & <- & Hcs0).
      unfold partial_for. cbn. repeat split; [constructor|]. apply Forall_forall. intros c Hc.
      exists nr, cs0, c. repeat split; auto. rewrite E. exact Hcs0.
  Qed.

  Lemma replicate_comp_ok rep nr cur k c :
    In nr nrules -> rep_ok rep -> cur <> [] -> Forall (partial_for nr) cur -> 1 <= k -> In c (nr_name nr) ->
    (forall r, c = NRef r -> exists chs, al_get ident_eqb rep r = Some chs) ->
    exists cur' k', replicate_comp rep (nr_id nr) (cur, k) c = Ok (cur', k') /\ cur' <> [] /\ Forall (partial_for nr) cur' /\ 1 <= k'.
  Proof.
    intros Hnr Hrep Hne Hcur Hk Hc Href. unfold replicate_comp. cbn [fst snd].
    assert (Happ : forall c0, comp_from c0 ->
              exists cur' k', Ok (map (fun ch => {| ch_id := ch_id ch; ch_name := ch_name ch ++ [c0]; ch_cons := ch_cons ch; ch_sign := ch_sign ch |}) cur, k) = Ok (cur', k') /\
                              cur' <> [] /\ Forall (partial_for nr) cur' /\ 1 <= k').
    { intros c0 Hc0. eexists _, _. split; [reflexivity|]. split; [destruct cur; [contradiction | discriminate]|]. split; [|exact Hk].
      apply Forall_forall. intros ch Hch. apply in_map_iff in Hch. destruct Hch as (ch0 & <- & Hch0).
      rewrite Forall_forall in Hcur. destruct (Hcur ch0 Hch0) as (H1 & H2 & H3 & H4). unfold partial_for. cbn. repeat split; auto.
      apply Forall_app. split; [exact H1 | constructor; [exact Hc0 | constructor]]. }
    destruct c as [v|t|r].
    - apply Happ. cbn. exists nr. auto.
    - apply Happ. cbn. right. exists nr. auto.
    - destruct (Href r eq_refl) as (refs & Er). rewrite Er.
      apply al_get_in_pair in Er. destruct (Hrep r refs Er) as [Hrne Hrefs].
      destruct (map_acc (inline_ref (nr_id nr) cur) k refs) as [k' groups] eqn:Em.
      assert (G : 1 <= k' /\ Forall (fun g => g <> [] /\ Forall (partial_for nr) g) groups /\ length groups = length refs).
      { apply (map_acc_inv (inline_ref (nr_id nr) cur) (fun k0 => 1 <= k0) (fun g => g <> [] /\ Forall (partial_for nr) g) refs k k' groups); [|exact Hk | exact Em].
        intros k0 ref_chain k1 g Hk0 Hin Hil. unfold inline_ref in Hil.
        rewrite Forall_forall in Hrefs. destruct (Hrefs ref_chain Hin) as [(Hrn & Hrc & _) _].
        assert (G2 : 1 <= k1 /\ Forall (partial_for nr) g /\ length g = length cur).
        { refine (map_acc_inv _ (fun k0 => 1 <= k0) (partial_for nr) cur k0 k1 g _ Hk0 Hil).
          intros k2 ch k3 y Hk2 Hch Hy. destruct (rename_temp_tags k2 ref_chain) as [k4 [rn rcs]] eqn:Ert.
          inversion Hy; subst. destruct (rename_temp_tags_from _ _ _ _ _ Hk2 Hrn Hrc Ert) as (H1 & H2 & H3).
          split; [exact H1|]. rewrite Forall_forall in Hcur. destruct (Hcur ch Hch) as (A1 & A2 & A3 & A4).
          unfold partial_for. cbn. repeat split; auto; apply Forall_app; auto. }
        destruct G2 as (H1 & H2 & H3). split; [exact H1|]. split; [|exact H2].
        destruct g; [destruct cur; [contradiction | discriminate] | discriminate]. }
      destruct G as (Hk' & Hg & Hl). eexists _, _. split; [reflexivity|]. split; [|split; [|exact Hk']].
      + destruct groups as [|g gs]; [destruct refs; [contradiction | discriminate]|]. inversion Hg as [|? ? [Hgne _] _]; subst.
        cbn. destruct g; [contradiction | discriminate].
      + apply Forall_forall. intros ch Hch. apply in_concat in Hch. destruct Hch as (g & Hgin & Hchg).
        rewrite Forall_forall in Hg. destruct (Hg g Hgin) as [_ Hpg]. rewrite Forall_forall in Hpg. apply Hpg, Hchg.
  Qed.

  (* all components of one rule *)
  Lemma replicate_name_ok rep nr : In nr nrules -> rep_ok rep ->
    (forall r, In (NRef r) (nr_name nr) -> exists chs, al_get ident_eqb rep r = Some chs) ->
    forall comps cur k, (forall c, In c comps -> In c (nr_name nr)) -> cur <> [] -> Forall (partial_for nr) cur -> 1 <= k ->
    exists cur' k', rfold (replicate_comp rep (nr_id nr)) comps (cur, k) = Ok (cur', k') /\ cur' <> [] /\ Forall (partial_for nr) cur' /\ 1 <= k'.
  Proof.
    intros Hnr Hrep Href. induction comps as [|c comps IH]; intros cur k Hsub Hne Hcur Hk; cbn [rfold].
    - eauto 6.
    - destruct (replicate_comp_ok rep nr cur k c Hnr Hrep Hne Hcur Hk (Hsub c (or_introl eq_refl))) as (cur1 & k1 & E1 & Hne1 & Hcur1 & Hk1).
      { intros r ->. apply Href. apply Hsub. left; reflexivity. }
      rewrite E1. cbn [bind]. apply IH; auto. intros c0 Hc0. apply Hsub. right; exact Hc0.
  Qed.

  Lemma partial_done nr ch : In nr nrules -> partial_for nr ch -> chain_from ch /\ ch_id ch = nr_id nr.
  Proof. intros Hnr (H1 & H2 & H3 & H4). split; [|exact H3]. split; [exact H1|]. split; [exact H2|]. exists nr. auto. Qed.

  (* ---- all rules -------------------------------------------------------------------------------------------------- *)
  (* rule nr has a chain of its own (with its own signer list) under its identifier *)
  Definition has_chain_of (rep : list (ident * list chain)) (nr : nrule) : Prop :=
    exists chs rc, al_get ident_eqb rep (nr_id nr) = Some chs /\ In rc chs /\ ch_sign rc = isort str_leb (nr_sign nr).

  Theorem replicate_rules_ok k0 : refs_earlier -> 1 <= k0 ->
    exists rep, replicate_rules nrules k0 = Ok rep /\ rep_ok rep /\
                forall nr, In nr nrules -> has_chain_of rep nr.
  Proof.
    intros Hre Hk0. unfold replicate_rules.
    match goal with |- context [rfold ?F nrules ([], k0)] => set (step := F) end.
    assert (G : forall todo done rep k, nrules = done ++ todo -> rep_ok rep -> 1 <= k ->
              (forall nr, In nr done -> has_chain_of rep nr) ->
              exists rep' k', rfold step todo (rep, k) = Ok (rep', k') /\ rep_ok rep' /\
                forall nr, In nr nrules -> has_chain_of rep' nr).
    { induction todo as [|nr todo IH]; intros done rep k Esplit Hrep Hk Hdone; cbn [rfold].
      - exists rep, k. split; [reflexivity|]. split; [exact Hrep|]. intros nr Hnr. apply Hdone. rewrite Esplit, app_nil_r in Hnr. exact Hnr.
      - assert (Hnr : In nr nrules) by (rewrite Esplit; apply in_or_app; right; left; reflexivity).
        destruct (init_chains_ok nr Hnr) as [Hine Hipart]. unfold step at 1. cbn [fst snd].
        destruct (replicate_name_ok rep nr Hnr Hrep) with (comps := nr_name nr) (cur := init_chains nr) (k := k) as (cur' & k' & E & Hne' & Hcur' & Hk'); auto.
        { intros r Hr. destruct (Hre done nr todo r Esplit Hr) as (nr' & Hin' & Hid'). rewrite <- Hid'. destruct (Hdone nr' Hin') as (chs & _ & Hg & _). eauto. }
        rewrite E. cbn [bind fst snd].
        assert (Hchains : Forall (fun ch => chain_from ch /\ ch_id ch = nr_id nr) cur').
        { eapply Forall_impl; [|exact Hcur']. intros ch Hp. apply partial_done; auto. }
        set (rep1 := match al_get ident_eqb rep (nr_id nr) with
                     | Some old => al_set ident_eqb rep (nr_id nr) (old ++ cur')
                     | None => rep ++ [(nr_id nr, cur')] end).
        assert (Hrep1 : rep_ok rep1 /\ (forall id chs, al_get ident_eqb rep id = Some chs -> exists chs', al_get ident_eqb rep1 id = Some chs' /\ incl chs chs') /\
                        (exists chs', al_get ident_eqb rep1 (nr_id nr) = Some chs' /\ incl cur' chs')).
        { unfold rep1. destruct (al_get ident_eqb rep (nr_id nr)) as [old|] eqn:Eold.
          - split.
            + intros id chs Hin.
              (* entries of al_set: the updated one or an old one *)
              assert (Hcase : (id = nr_id nr /\ chs = old ++ cur') \/ In (id, chs) rep).
              { clear - Hin Eold. induction rep as [|[k0 v0] rep IHr]; [discriminate|]. cbn in Eold, Hin.
                destruct (ident_eqb (nr_id nr) k0) eqn:E.
                - apply ident_eqb_eq in E. subst k0. inversion Eold; subst v0. destruct Hin as [Hin|Hin]; [inversion Hin; auto | right; right; exact Hin].
                - destruct Hin as [Hin|Hin]; [right; left; exact Hin|]. destruct (IHr Eold Hin) as [H|H]; [auto | right; right; exact H]. }
              destruct Hcase as [[-> ->] | Hold]; [|apply Hrep, Hold].
              apply al_get_in_pair in Eold. destruct (Hrep _ _ Eold) as [Hone Hofor].
              split; [destruct old; [contradiction | discriminate] | apply Forall_app; auto].
            + split.
              * intros id chs Hc. destruct (list_eq_dec N.eq_dec id (nr_id nr)) as [->|Hne0].
                -- rewrite Eold in Hc. inversion Hc; subst chs. eexists. split; [apply al_get_set_same; unfold al_mem; rewrite Eold; reflexivity|].
                   intros x Hx. apply in_or_app. left. exact Hx.
                -- exists chs. rewrite al_get_set_other by congruence. split; [exact Hc | apply incl_refl].
              * eexists. split; [apply al_get_set_same; unfold al_mem; rewrite Eold; reflexivity|]. intros x Hx. apply in_or_app. right. exact Hx.
          - split.
            + intros id chs Hin. apply in_app_or in Hin. destruct Hin as [Hin|[Hin|[]]]; [apply Hrep, Hin|]. inversion Hin; subst. auto.
            + split.
              * intros id chs Hc. exists chs. split; [apply al_get_app_some; exact Hc | apply incl_refl].
              * exists cur'. split; [|apply incl_refl]. rewrite (al_get_app_none _ _ _ _ Eold), (proj2 (ident_eqb_eq _ _) eq_refl), Eold. reflexivity. }
        destruct Hrep1 as (Hrep1 & Hmono & Hnew).
        apply (IH (done ++ [nr]) rep1 k'); auto.
        + rewrite <- app_assoc. exact Esplit.
        + intros nr0 Hin0. apply in_app_or in Hin0. destruct Hin0 as [Hin0|[<-|[]]].
          * destruct (Hdone nr0 Hin0) as (chs & rc & Hg & Hrc & Hsg). destruct (Hmono _ _ Hg) as (chs' & Hg' & Hincl).
            exists chs', rc. split; [exact Hg'|]. split; [apply Hincl, Hrc | exact Hsg].
          * destruct Hnew as (chs' & Hg' & Hincl). destruct cur' as [|rc cur']; [contradiction|].
            exists chs', rc. split; [exact Hg'|]. split; [apply Hincl; left; reflexivity|].
            inversion Hcur' as [|? ? (_ & _ & _ & Hsg) _]; subst. exact Hsg. }
    destruct (G nrules [] [] k0 eq_refl) as (rep & k' & E & Hrep & Hall); auto.
    - intros id chs [].
    - intros nr [].
    - rewrite E. cbn [bind fst]. exists rep. auto.
  Qed.
End Replicate.
