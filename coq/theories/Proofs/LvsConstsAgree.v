(* T1 tie for C11-C13: the constants and the record layouts reflected from
   ndn.app_support.light_versec.binary on this run are the ones the hand-written models use
   (Model/LvsAst.v records mirror the classes field by field; Model/LvsChecker.v and Spec/LvsSem.v
   use the version bounds; the digest rule uses TYPE_IMPLICIT_SHA256). *)
From Coq Require Import String Ascii.
From NDN Require Import Base.Prelude Base.Text Model.Name Model.LvsAst Model.LvsChecker Spec.LvsSem.
From NDN Require Generated.ConstsLvs.
Module GL := Generated.ConstsLvs.
Local Open Scope N_scope.

Definition s (x : string) : list N := map (fun a => N.of_nat (nat_of_ascii a)) (list_ascii_of_string x).

Theorem lvs_version_agree :
  GL.VERSION = LVS_VERSION /\ GL.MIN_SUPPORTED_VERSION = LVS_MIN_VERSION /\
  GL.VERSION = SUPPORTED_VERSION /\ GL.MIN_SUPPORTED_VERSION = MIN_SUPPORTED_VERSION /\
  GL.TYPE_IMPLICIT_SHA256 = TYPE_IMPLICIT_SHA256.
Proof. repeat split; reflexivity. Qed.

Theorem lvs_default_fns_agree : GL.default_user_fns = [s "$eq"; s "$eq_type"].
Proof. vm_compute. reflexivity. Qed.

(* class by class: field name, TLV type number, kind -- in declaration order *)
Definition expected_layout : list (list N * list (list N * N * list N)) := [
  (s "UserFnArg", [(s "value", 33, s "bytes"); (s "tag", 35, s "uint")]);
  (s "UserFnCall", [(s "fn_id", 39, s "string"); (s "args", 51, s "repeated model UserFnArg")]);
  (s "ConstraintOption", [(s "value", 33, s "bytes"); (s "tag", 35, s "uint"); (s "fn", 49, s "model UserFnCall")]);
  (s "PatternConstraint", [(s "options", 65, s "repeated model ConstraintOption")]);
  (s "PatternEdge", [(s "dest", 37, s "uint"); (s "tag", 35, s "uint"); (s "cons_sets", 67, s "repeated model PatternConstraint")]);
  (s "ValueEdge", [(s "dest", 37, s "uint"); (s "value", 33, s "bytes")]);
  (s "Node", [(s "id", 37, s "uint"); (s "parent", 87, s "uint"); (s "rule_name", 41, s "repeated string");
              (s "v_edges", 81, s "repeated model ValueEdge"); (s "p_edges", 83, s "repeated model PatternEdge");
              (s "sign_cons", 85, s "repeated uint")]);
  (s "TagSymbol", [(s "tag", 35, s "uint"); (s "ident", 41, s "string")]);
  (s "LvsModel", [(s "version", 97, s "uint"); (s "start_id", 37, s "uint"); (s "named_pattern_cnt", 105, s "uint");
                  (s "nodes", 99, s "repeated model Node"); (s "symbols", 103, s "repeated model TagSymbol")])].

Theorem lvs_layout_agree : GL.layout = expected_layout.
Proof. vm_compute. reflexivity. Qed.
