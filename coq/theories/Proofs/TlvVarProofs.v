(* Variable-size number / non-negative-integer codec: round trips, sizes, shortest form. *)
From NDN Require Import Base.Prelude Model.TlvVar Proofs.BytesLemmas.
Local Open Scope N_scope.

Arguments N.pow : simpl never.
Arguments N.mul : simpl never.
Arguments N.add : simpl never.
Arguments N.div : simpl never.
Arguments N.modulo : simpl never.

Lemma pow256_2 : 256 ^ N.of_nat 2 = 65536. Proof. reflexivity. Qed.
Lemma pow256_4 : 256 ^ N.of_nat 4 = 4294967296. Proof. reflexivity. Qed.
Lemma pow256_8 : 256 ^ N.of_nat 8 = two64. Proof. reflexivity. Qed.
Lemma pow256_1 : 256 ^ N.of_nat 1 = 256. Proof. reflexivity. Qed.

Lemma tl_enc_length v : length (tl_enc v) = tl_size v.
Proof.
  unfold tl_enc, tl_size.
  destruct (v <=? 252); [reflexivity|].
  destruct (v <=? 65535); [cbn [length]; rewrite N_to_be_length; reflexivity|].
  destruct (v <=? 4294967295); cbn [length]; rewrite N_to_be_length; reflexivity.
Qed.

Lemma tl_enc_wf v : v < two64 -> wf_bytes (tl_enc v).
Proof.
  intros Hv. unfold tl_enc.
  destruct (v <=? 252) eqn:E1; [constructor; [lia|constructor]|].
  destruct (v <=? 65535); [constructor; [lia|apply N_to_be_wf]|].
  destruct (v <=? 4294967295); (constructor; [lia|apply N_to_be_wf]).
Qed.

Lemma unpack_be_app k v r : v < 256 ^ N.of_nat k -> unpack_be k (N_to_be k v ++ r) = Ok v.
Proof.
  intros Hv. unfold unpack_be.
  rewrite (firstn_app_exact' k) by (symmetry; apply N_to_be_length).
  rewrite N_to_be_length, Nat.eqb_refl, be_to_N_to_be_small by exact Hv. reflexivity.
Qed.

Theorem tl_dec_enc v r : v < two64 -> tl_dec (tl_enc v ++ r) = Ok (v, tl_size v).
Proof.
  intros Hv. unfold tl_enc, tl_size.
  destruct (v <=? 252) eqn:E1.
  - cbn [app tl_dec]. rewrite E1. reflexivity.
  - destruct (v <=? 65535) eqn:E2.
    + cbn [app tl_dec]. change (253 <=? 252) with false. change (253 =? 253) with true. cbv iota.
      rewrite unpack_be_app by (rewrite pow256_2; lia). reflexivity.
    + destruct (v <=? 4294967295) eqn:E3.
      * cbn [app tl_dec]. change (254 <=? 252) with false. change (254 =? 253) with false.
        change (254 =? 254) with true. cbv iota.
        rewrite unpack_be_app by (rewrite pow256_4; lia). reflexivity.
      * cbn [app tl_dec]. change (255 <=? 252) with false. change (255 =? 253) with false.
        change (255 =? 254) with false. cbv iota.
        rewrite unpack_be_app by (rewrite pow256_8; lia). reflexivity.
Qed.

Lemma unpack_be_inv k r v :
  wf_bytes r -> unpack_be k r = Ok v -> (k <= length r)%nat /\ v < 256 ^ N.of_nat k /\ N_to_be k v = firstn k r.
Proof.
  intros Hr. unfold unpack_be. destruct (Nat.eqb (length (firstn k r)) k) eqn:E; [|discriminate].
  apply Nat.eqb_eq in E. intros H; inversion H; subst; clear H.
  assert (Hk : (k <= length r)%nat) by (rewrite firstn_length in E; lia).
  split; [exact Hk|]. split.
  - rewrite <- E at 2. apply be_to_N_bound. apply wf_bytes_firstn; exact Hr.
  - rewrite <- E at 1. apply N_to_be_be_to_N. apply wf_bytes_firstn; exact Hr.
Qed.

(* what a successful decode guarantees, for any byte string *)
Theorem tl_dec_inv w v n :
  wf_bytes w -> tl_dec w = Ok (v, n) ->
  (n <= length w)%nat /\ v < two64 /\ (tl_size v <= n)%nat /\ (1 <= n)%nat.
Proof.
  intros Hw. destruct w as [|b r]; [discriminate|]. cbn [tl_dec].
  inversion Hw as [|? ? Hb Hr]; subst.
  destruct (b <=? 252) eqn:E1.
  - intros H; inversion H; subst. unfold tl_size, two64. rewrite E1. cbn [length]. lia.
  - destruct (b =? 253) eqn:E2; [|destruct (b =? 254) eqn:E3].
    + destruct (unpack_be 2 r) as [x|] eqn:U; [|discriminate]. cbn [bind].
      intros H; inversion H; subst. apply unpack_be_inv in U; [|exact Hr].
      destruct U as (L & B & _). rewrite pow256_2 in B. unfold tl_size, two64. cbn [length].
      destruct (v <=? 252); destruct (v <=? 65535) eqn:?; try lia.
    + destruct (unpack_be 4 r) as [x|] eqn:U; [|discriminate]. cbn [bind].
      intros H; inversion H; subst. apply unpack_be_inv in U; [|exact Hr].
      destruct U as (L & B & _). rewrite pow256_4 in B. unfold tl_size, two64. cbn [length].
      destruct (v <=? 252); destruct (v <=? 65535); destruct (v <=? 4294967295) eqn:?; try lia.
    + destruct (unpack_be 8 r) as [x|] eqn:U; [|discriminate]. cbn [bind].
      intros H; inversion H; subst. apply unpack_be_inv in U; [|exact Hr].
      destruct U as (L & B & _). rewrite pow256_8 in B. unfold tl_size. cbn [length].
      destruct (v <=? 252); destruct (v <=? 65535); destruct (v <=? 4294967295); lia.
Qed.

(* a decode that consumed exactly the shortest-form size read the canonical encoding *)
Theorem tl_dec_canonical w v :
  wf_bytes w -> tl_dec w = Ok (v, tl_size v) -> firstn (tl_size v) w = tl_enc v.
Proof.
  intros Hw. destruct w as [|b r]; [discriminate|]. cbn [tl_dec].
  inversion Hw as [|? ? Hb Hr]; subst.
  destruct (b <=? 252) eqn:E1.
  - intros H; inversion H as [[Hv Hs]]; subst. unfold tl_enc. rewrite E1. reflexivity.
  - destruct (b =? 253) eqn:E2; [|destruct (b =? 254) eqn:E3].
    + destruct (unpack_be 2 r) as [x|] eqn:U; [|discriminate]. cbn [bind].
      intros H; inversion H as [[Hv Hs]]; subst x. apply unpack_be_inv in U; [|exact Hr].
      destruct U as (L & B & F). unfold tl_enc. unfold tl_size in Hs |- *.
      destruct (v <=? 252); [discriminate|]. destruct (v <=? 65535); [|destruct (v <=? 4294967295); discriminate].
      cbn [firstn]. rewrite F. f_equal. lia.
    + destruct (unpack_be 4 r) as [x|] eqn:U; [|discriminate]. cbn [bind].
      intros H; inversion H as [[Hv Hs]]; subst x. apply unpack_be_inv in U; [|exact Hr].
      destruct U as (L & B & F). unfold tl_enc. unfold tl_size in Hs |- *.
      destruct (v <=? 252); [discriminate|]. destruct (v <=? 65535); [discriminate|].
      destruct (v <=? 4294967295); [|discriminate].
      cbn [firstn]. rewrite F. f_equal. lia.
    + destruct (unpack_be 8 r) as [x|] eqn:U; [|discriminate]. cbn [bind].
      intros H; inversion H as [[Hv Hs]]; subst x. apply unpack_be_inv in U; [|exact Hr].
      destruct U as (L & B & F). unfold tl_enc. unfold tl_size in Hs |- *.
      destruct (v <=? 252); [discriminate|]. destruct (v <=? 65535); [discriminate|].
      destruct (v <=? 4294967295); [discriminate|].
      cbn [firstn]. rewrite F. f_equal. lia.
Qed.

(* non-negative integers *)
Lemma nni_enc_length v : length (nni_enc v) = nni_width v.
Proof. apply N_to_be_length. Qed.

Lemma nni_enc_wf v : wf_bytes (nni_enc v).
Proof. apply N_to_be_wf. Qed.

Lemma nni_width_bound v : v < two64 -> v < 256 ^ N.of_nat (nni_width v).
Proof.
  intros Hv. unfold nni_width.
  destruct (v <=? 255) eqn:?; [rewrite pow256_1; lia|].
  destruct (v <=? 65535) eqn:?; [rewrite pow256_2; lia|].
  destruct (v <=? 4294967295) eqn:?; [rewrite pow256_4; lia|].
  rewrite pow256_8; lia.
Qed.

Lemma nni_width_cases v : (nni_width v = 1 \/ nni_width v = 2 \/ nni_width v = 4 \/ nni_width v = 8)%nat.
Proof. unfold nni_width. destruct (v <=? 255); destruct (v <=? 65535); destruct (v <=? 4294967295); auto. Qed.

Theorem nni_dec_enc v r : v < two64 -> nni_dec (N.of_nat (nni_width v)) (nni_enc v ++ r) = Ok v.
Proof.
  intros Hv. unfold nni_dec.
  assert (W := nni_width_cases v).
  replace ((N.of_nat (nni_width v) =? 1) || (N.of_nat (nni_width v) =? 2) || (N.of_nat (nni_width v) =? 4)
           || (N.of_nat (nni_width v) =? 8)) with true
    by (destruct W as [W|[W|[W|W]]]; rewrite W; reflexivity).
  rewrite Nat2N.id.
  replace (Nat.leb (nni_width v) (length (nni_enc v ++ r))) with true
    by (symmetry; apply Nat.leb_le; rewrite app_length, nni_enc_length; lia).
  rewrite (firstn_app_exact' (nni_width v)) by (symmetry; apply nni_enc_length).
  unfold nni_enc. rewrite be_to_N_to_be_small by (apply nni_width_bound; exact Hv). reflexivity.
Qed.

(* the width is the smallest legal one *)
Theorem nni_width_minimal v k :
  (k = 1 \/ k = 2 \/ k = 4 \/ k = 8)%nat -> v < 256 ^ N.of_nat k -> (nni_width v <= k)%nat.
Proof.
  intros Hk Hv. unfold nni_width.
  destruct Hk as [ -> | [ -> | [ -> | -> ] ] ]; [rewrite pow256_1 in Hv|rewrite pow256_2 in Hv|rewrite pow256_4 in Hv|rewrite pow256_8 in Hv];
  destruct (v <=? 255) eqn:?; destruct (v <=? 65535) eqn:?; destruct (v <=? 4294967295) eqn:?; unfold two64 in *; lia.
Qed.

Theorem nni_dec_inv len w v :
  wf_bytes w -> nni_dec len w = Ok v ->
  (len = 1 \/ len = 2 \/ len = 4 \/ len = 8) /\ (N.to_nat len <= length w)%nat /\ v = be_to_N (firstn (N.to_nat len) w).
Proof.
  intros Hw. unfold nni_dec.
  destruct ((len =? 1) || (len =? 2) || (len =? 4) || (len =? 8)) eqn:E; [|discriminate].
  destruct (Nat.leb (N.to_nat len) (length w)) eqn:L; [|discriminate].
  intros H; inversion H; subst. apply Nat.leb_le in L. repeat split; try assumption. lia.
Qed.
