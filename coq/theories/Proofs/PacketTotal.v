(* C07: every byte string is either accepted or rejected with a documented decoding error; the fuel
   used by the model never runs out (decoding terminates on every input). *)
From NDN Require Import Base.Prelude Base.Utf8 Model.TlvVar Model.Name Model.Tlv Model.Packet Spec.TlvWf
  Proofs.BytesLemmas Proofs.TlvVarProofs Proofs.TlvSplit Proofs.PacketDecode.
Local Open Scope N_scope.

Arguments N.of_nat : simpl never.
Arguments N.to_nat : simpl never.
Arguments N.min : simpl never.

Definition documented (e : err) : bool :=
  match e with EDecode | EIndex | EValue | EStruct | EUnicode => true | _ => false end.
Definition res_documented {A} (r : res A) : Prop :=
  match r with Ok _ => True | Err e => documented e = true end.

Lemma tl_dec_doc w : res_documented (tl_dec w).
Proof.
  destruct w as [|b r]; [reflexivity|]. cbn [tl_dec]. destruct (b <=? 252); [exact I|].
  unfold unpack_be.
  destruct (b =? 253); [|destruct (b =? 254)]; destruct (Nat.eqb _ _); cbn; auto.
Qed.

Lemma bind_doc {A B} (r : res A) (f : A -> res B) :
  res_documented r -> (forall a, r = Ok a -> res_documented (f a)) -> res_documented (bind r f).
Proof. destruct r as [a|e]; cbn; intros H1 H2; [apply H2; reflexivity|exact H1]. Qed.

Lemma elements_doc : forall fuel w, (length w < fuel)%nat -> res_documented (elements fuel w).
Proof.
  induction fuel as [|fuel IH]; intros w Hf; [lia|].
  destruct w as [|b w']; [exact I|]. cbn [elements]. set (w := b :: w') in *.
  apply bind_doc; [apply tl_dec_doc|]. intros [t st] E1.
  apply bind_doc; [apply tl_dec_doc|]. intros [l sl] E2.
  apply bind_doc; [|intros; exact I].
  apply IH. rewrite !skipn_length.
  pose proof (tl_dec_size_pos _ _ _ E1). pose proof (tl_dec_size_pos _ _ _ E2).
  assert (1 <= length w)%nat by (unfold w; cbn [length]; lia). clearbody w. lia.
Qed.

Lemma split_wire_doc w : res_documented (split_wire w).
Proof. apply elements_doc. lia. Qed.

Lemma name_components_doc : forall fuel p, (length p < fuel)%nat -> res_documented (name_components fuel p).
Proof.
  induction fuel as [|fuel IH]; intros p Hf; [lia|].
  destruct p as [|b p']; [exact I|]. cbn [name_components]. set (p := b :: p') in *.
  apply bind_doc; [apply tl_dec_doc|]. intros [t st] E1.
  apply bind_doc; [apply tl_dec_doc|]. intros [l sl] E2. cbn [fst snd].
  destruct (N.of_nat (length p) <? N.of_nat (st + sl) + l) eqn:E; [reflexivity|].
  apply bind_doc; [|intros; exact I]. apply IH. rewrite skipn_length.
  pose proof (tl_dec_size_pos _ _ _ E1).
  assert (1 <= length p)%nat by (unfold p; cbn [length]; lia). clearbody p. lia.
Qed.

(* element parsers whose failures are documented for every kind a well-formed level can ask for *)
Definition pv_doc (pv : fkind -> elem -> res value) (ok : fkind -> Prop) : Prop :=
  forall k e, ok k -> res_documented (pv k e).

Lemma find_from_in fs : forall idx pos t i k, find_from fs idx pos t = Some (i, k) -> In (t, k) fs.
Proof.
  induction fs as [|[t' k'] fs IH]; intros idx pos t i k H; [discriminate|].
  cbn [find_from] in H. destruct (Nat.leb pos idx && (t' =? t)) eqn:E.
  - inversion H; subst. apply andb_true_iff in E. destruct E as [_ E]. apply N.eqb_eq in E. subst. left. reflexivity.
  - right. eapply IH. exact H.
Qed.

(* the kinds [assign_with] hands to the element parser, for a level [fs] *)
Inductive asked (fs : list field) : fkind -> Prop :=
| asked_single t k : In (t, k) fs -> single k = true -> asked fs k
| asked_rep t e : In (t, KRepeated e) fs -> asked fs e
| asked_key t kk vt vk : In (t, KMap kk vt vk) fs -> asked fs kk
| asked_val t kk vt vk : In (t, KMap kk vt vk) fs -> asked fs vk.

Definition st_asked (fs : list field) (st : pstate) : Prop :=
  match st with PNormal => True | PAwait _ _ _ vk => asked fs vk end.

Lemma assign_doc pv fs ic : pv_doc pv (asked fs) ->
  forall els st pos acc, st_asked fs st -> res_documented (assign_with pv fs ic st pos els acc).
Proof.
  intros Hpv. induction els as [|e els IH]; intros st pos acc Hst.
  - destruct st; cbn; auto.
  - cbn [assign_with]. destruct st as [|i key vt vk].
    + destruct (find_from fs 0 pos (e_type e)) as [[i k]|] eqn:Ef.
      * pose proof (find_from_in _ _ _ _ _ _ Ef) as Hin.
        destruct k.
        all: try (apply bind_doc; [apply Hpv; eapply asked_single; [exact Hin|reflexivity]|intros; apply IH; exact I]).
        -- apply bind_doc; [apply Hpv; eapply asked_rep; exact Hin|intros; apply IH; exact I].
        -- apply bind_doc; [apply Hpv; eapply asked_key; exact Hin|intros; apply IH].
           cbn. eapply asked_val. exact Hin.
      * destruct (N.odd (e_type e) && negb ic); [reflexivity|apply IH; exact I].
    + destruct (e_type e =? vt).
      * apply bind_doc; [apply Hpv; exact Hst|intros; apply IH; exact I].
      * destruct (N.odd (e_type e) && negb ic); [reflexivity|apply IH; exact Hst].
Qed.

(* depth of the kinds a level asks for is below the level's depth *)
Lemma kdepth_field (fs : list field) ic (t : N) (k : fkind) : In (t, k) fs -> (kdepth k < kdepth (KModel fs ic))%nat.
Proof.
  intros H. cbn [kdepth]. induction fs as [|[t' k'] fs IH]; [destruct H|].
  destruct H as [E|H]; [inversion E; subst; lia|]. specialize (IH H). lia.
Qed.

Lemma wfk_single_sub (fs : list field) (k' : fkind) : asked fs k' -> (forall t k, In (t, k) fs -> wfk t k) ->
  exists t', wfk t' k' /\ single k' = true /\
             exists t0 k0, In (t0, k0) fs /\ (kdepth k' <= kdepth k0)%nat.
Proof.
  intros A Hwf. destruct A as [t0 k0 Hin Hs|t0 e Hin|t0 kk vt vk Hin|t0 kk vt vk Hin].
  - exists t0. split; [apply Hwf; exact Hin|]. split; [exact Hs|]. exists t0, k0. split; [exact Hin|lia].
  - pose proof (Hwf _ _ Hin) as W. inversion W; subst. exists t0. split; [assumption|]. split; [assumption|].
    exists t0, (KRepeated e). split; [exact Hin|]. cbn [kdepth]. lia.
  - pose proof (Hwf _ _ Hin) as W. inversion W; subst. exists t0. split; [assumption|].
    split; [destruct kk; try discriminate; reflexivity|].
    exists t0, (KMap kk vt vk). split; [exact Hin|]. cbn [kdepth]. lia.
  - pose proof (Hwf _ _ Hin) as W. inversion W; subst. exists vt. split; [assumption|]. split; [assumption|].
    exists t0, (KMap kk vt vk). split; [exact Hin|]. cbn [kdepth]. lia.
Qed.

Theorem parse_val_doc : forall d t k e, wfk t k -> single k = true -> (kdepth k <= d)%nat ->
  res_documented (parse_val d k e).
Proof.
  induction d as [|d IH]; intros t k e Hwf Hs Hd.
  - destruct k; cbn in Hd; lia.
  - destruct k; try discriminate; cbn [parse_val].
    + destruct (_ || _ || _ || _); [destruct (_ =? _)|]; cbn; auto.
    + exact I.
    + destruct is_string; [destruct (utf8_valid _)|]; cbn; auto.
    + destruct (negb _); [reflexivity|]. destruct (_ <? _); [reflexivity|].
      apply bind_doc; [apply name_components_doc; lia|intros; exact I].
    + apply bind_doc; [apply split_wire_doc|]. intros els _.
      apply bind_doc; [|intros; exact I].
      inversion Hwf as [ | | | |t0 fs0 ic0 Ht Hfs| | ]; subst. inversion Hfs as [fs1 Hnd Hall]; subst.
      apply assign_doc; [|exact I].
      intros k' e' A. destruct (wfk_single_sub fs k' A Hall) as (t' & W & Sg & t0 & k0 & Hin & Hk).
      apply (IH t'); [exact W|exact Sg|].
      pose proof (kdepth_field fs ignore_critical t0 k0 Hin). lia.
Qed.

Theorem parse_model_doc d fs ic w :
  wf_fields fs -> (fields_depth fs <= S d)%nat -> res_documented (parse_model d fs ic w).
Proof.
  intros Hwf Hd. unfold parse_model. apply bind_doc; [apply split_wire_doc|]. intros els _.
  inversion Hwf as [fs1 Hnd Hall]; subst. apply assign_doc; [|exact I].
  intros k' e' A. destruct (wfk_single_sub fs k' A Hall) as (t' & W & Sg & t0 & k0 & Hin & Hk).
  apply (parse_val_doc d t'); [exact W|exact Sg|].
  pose proof (kdepth_field fs false t0 k0 Hin). unfold fields_depth in Hd. lia.
Qed.

Lemma pact_doc w t : res_documented (parse_and_check_tl w t).
Proof.
  unfold parse_and_check_tl. apply bind_doc; [apply tl_dec_doc|]. intros [typ tlen] _.
  apply bind_doc; [apply tl_dec_doc|]. intros [size slen] _.
  destruct (negb _); [reflexivity|]. destruct (negb _); [reflexivity|exact I].
Qed.

Lemma gen_decode_doc outer fs ic w :
  wf_fields fs -> res_documented (gen_decode parse_model outer fs ic w).
Proof.
  intros Hwf. unfold gen_decode. apply bind_doc; [apply pact_doc|]. intros v _.
  apply parse_model_doc; [exact Hwf|]. unfold depth_of. lia.
Qed.
