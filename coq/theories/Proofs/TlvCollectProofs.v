(* Proofs about the field collection of TlvModelMeta (Model/TlvCollect.v) against Spec/TlvCollectSpec.v. *)
From NDN Require Import Base.Prelude Model.TlvCollect Spec.TlvCollectSpec.
Local Open Scope N_scope.

Section Proofs.
  Context {A : Type}.
  Notation get := (al_get (V:=A) N.eqb).
  Implicit Types (l acc : list (N * A)) (ks : list N).

  (* ---------- names ---------- *)
  Definition add_new ks (n : N) : list N := if existsb (N.eqb n) ks then ks else ks ++ [n].
  Definition notin ks : N -> bool := fun y => negb (existsb (N.eqb y) ks).

  Lemma names_al_set acc n a : map fst (al_set N.eqb acc n a) = add_new (map fst acc) n.
  Proof.
    unfold add_new. induction acc as [|[k v] r IH]; cbn; [reflexivity|].
    destruct (n =? k) eqn:E; cbn; [reflexivity|].
    rewrite IH. destruct (existsb (N.eqb n) (map fst r)); reflexivity.
  Qed.

  Lemma names_put_all l acc : map fst (put_all l acc) = fold_left add_new (map fst l) (map fst acc).
  Proof.
    revert acc; induction l as [|[k v] r IH]; intros acc; cbn; [reflexivity|].
    unfold put_all in IH. rewrite IH. unfold put; cbn. now rewrite names_al_set.
  Qed.

  Lemma filter_drop_in ks a L :
    existsb (N.eqb a) ks = true -> filter (notin ks) (drop a L) = filter (notin ks) L.
  Proof.
    intros Ha. unfold drop. induction L as [|y L IH]; cbn; [reflexivity|].
    destruct (y =? a) eqn:E; cbn.
    - apply N.eqb_eq in E; subst y. unfold notin at 2. rewrite Ha; cbn. exact IH.
    - destruct (notin ks y); cbn; now rewrite IH.
  Qed.

  Lemma filter_notin_snoc ks a L : filter (notin (ks ++ [a])) L = filter (notin ks) (drop a L).
  Proof.
    unfold drop. induction L as [|y L IH]; cbn; [reflexivity|].
    unfold notin at 1. rewrite existsb_app; cbn. rewrite orb_false_r.
    destruct (y =? a) eqn:E; cbn.
    - rewrite orb_true_r; cbn. exact IH.
    - rewrite orb_false_r. fold (notin ks y). destruct (notin ks y); cbn; now rewrite IH.
  Qed.

  Lemma fold_add_new (l : list N) ks : fold_left add_new l ks = ks ++ filter (notin ks) (firsts l).
  Proof.
    revert ks; induction l as [|a l IH]; intros ks; cbn [fold_left firsts filter].
    - now rewrite app_nil_r.
    - unfold add_new at 2. destruct (existsb (N.eqb a) ks) eqn:E.
      + rewrite IH. f_equal. cbn. unfold notin at 2. rewrite E; cbn. symmetry. now apply filter_drop_in.
      + rewrite IH, <- app_assoc. f_equal. cbn. unfold notin at 2. rewrite E; cbn. f_equal.
        apply filter_notin_snoc.
  Qed.

  Lemma filter_notin_nil (L : list N) : filter (notin []) L = L.
  Proof. induction L; cbn; congruence. Qed.

  Lemma names_put_all_nil l : map fst (put_all l []) = firsts (map fst l).
  Proof. rewrite names_put_all, fold_add_new. cbn. apply filter_notin_nil. Qed.

  Lemma drop_In x y L : In y (drop x L) <-> In y L /\ y <> x.
  Proof.
    unfold drop. rewrite filter_In. split; intros [H1 H2]; split; auto.
    - intros ->. now rewrite N.eqb_refl in H2.
    - apply N.eqb_neq in H2. now rewrite H2.
  Qed.

  Lemma nodup_filter (p : N -> bool) (L : list N) : NoDup L -> NoDup (filter p L).
  Proof.
    induction 1 as [|x L Hx Hn IH]; cbn; [constructor|].
    destruct (p x); auto. constructor; auto. rewrite filter_In. tauto.
  Qed.

  Lemma firsts_In y (L : list N) : In y (firsts L) <-> In y L.
  Proof.
    induction L as [|x L IH]; cbn; [tauto|].
    rewrite drop_In, IH. destruct (N.eq_dec x y); intuition congruence.
  Qed.

  Lemma firsts_nodup (L : list N) : NoDup (firsts L).
  Proof.
    induction L as [|x L IH]; cbn; constructor.
    - rewrite drop_In. intros [_ H]; congruence.
    - now apply nodup_filter.
  Qed.

  Lemma drop_notin x (L : list N) : ~ In x L -> drop x L = L.
  Proof.
    unfold drop. induction L as [|y L IH]; cbn; intros H; [reflexivity|].
    destruct (y =? x) eqn:E.
    - apply N.eqb_eq in E. tauto.
    - cbn. f_equal. tauto.
  Qed.

  Lemma firsts_id (L : list N) : NoDup L -> firsts L = L.
  Proof.
    induction 1 as [|x L Hx Hn IH]; cbn; [reflexivity|]. rewrite IH. f_equal. now apply drop_notin.
  Qed.

  Lemma nodup_app (a b : list N) : NoDup a -> NoDup b -> (forall x, In x a -> ~ In x b) -> NoDup (a ++ b).
  Proof.
    induction 1 as [|x a Hx Hn IH]; cbn; intros Hb Hd; [assumption|].
    constructor.
    - rewrite in_app_iff. intros [H|H]; [tauto|]. apply (Hd x); auto.
    - apply IH; auto.
  Qed.

  Lemma notin_spec ks y : notin ks y = true <-> ~ In y ks.
  Proof.
    unfold notin. rewrite negb_true_iff. split.
    - intros H Hin. assert (existsb (N.eqb y) ks = true); [|congruence].
      apply existsb_exists. exists y. split; auto. apply N.eqb_refl.
    - intros H. destruct (existsb (N.eqb y) ks) eqn:E; [|reflexivity].
      apply existsb_exists in E. destruct E as [z [Hz E]]. apply N.eqb_eq in E. subst. tauto.
  Qed.

  Lemma names_put_all_nodup l acc : NoDup (map fst acc) -> NoDup (map fst (put_all l acc)).
  Proof.
    intros H. rewrite names_put_all, fold_add_new. apply nodup_app; auto.
    - apply nodup_filter, firsts_nodup.
    - intros x Hx. rewrite filter_In, notin_spec. tauto.
  Qed.

  (* ---------- values ---------- *)
  Lemma get_al_set acc n a m : get (al_set N.eqb acc n a) m = if m =? n then Some a else get acc m.
  Proof.
    induction acc as [|[k v] r IH]; cbn; [reflexivity|].
    destruct (n =? k) eqn:E; cbn.
    - apply N.eqb_eq in E; subst k. destruct (m =? n); reflexivity.
    - rewrite IH. destruct (m =? k) eqn:E1; destruct (m =? n) eqn:E2; try reflexivity.
      apply N.eqb_eq in E1, E2. subst. now rewrite N.eqb_refl in E.
  Qed.

  Lemma get_put_all l acc m :
    get (put_all l acc) m = match last_def m l with Some a => Some a | None => get acc m end.
  Proof.
    revert acc; induction l as [|[k v] r IH]; intros acc; cbn; [reflexivity|].
    unfold put_all in IH. rewrite IH. destruct (last_def m r); [reflexivity|].
    unfold put; cbn. rewrite get_al_set. destruct (m =? k); reflexivity.
  Qed.

  Lemma get_none l m : ~ In m (map fst l) -> get l m = None.
  Proof.
    induction l as [|[k v] r IH]; cbn; intros H; [reflexivity|].
    destruct (m =? k) eqn:E.
    - apply N.eqb_eq in E. subst. tauto.
    - tauto.
  Qed.

  Lemma last_def_nodup l m : NoDup (map fst l) -> last_def m l = get l m.
  Proof.
    induction l as [|[k v] r IH]; cbn; intros H; [reflexivity|].
    inversion H as [|? ? Hk Hr]; subst. rewrite (IH Hr).
    destruct (m =? k) eqn:E.
    - apply N.eqb_eq in E; subst m. now rewrite (get_none r k Hk).
    - destruct (get r m); reflexivity.
  Qed.

  (* a list with distinct names is determined by its names (in order) and its lookups *)
  Lemma alist_ext l1 l2 :
    NoDup (map fst l1) -> map fst l1 = map fst l2 -> (forall n, get l1 n = get l2 n) -> l1 = l2.
  Proof.
    revert l2; induction l1 as [|[k v] r IH]; intros [|[k2 v2] r2]; cbn; intros Hn Hm Hg;
      try discriminate; [reflexivity|].
    injection Hm as -> Hm. inversion Hn as [|? ? Hk Hr]; subst.
    pose proof (Hg k2) as H0. rewrite N.eqb_refl in H0. injection H0 as ->.
    f_equal. apply IH; auto.
    intros n. specialize (Hg n). destruct (n =? k2) eqn:E; [|exact Hg].
    apply N.eqb_eq in E; subst n. rewrite (get_none r k2 Hk). symmetry. apply get_none. now rewrite <- Hm.
  Qed.

  (* ---------- including the collected list of a base = pasting the base's declarations ---------- *)
  Lemma put_all_canon l acc : NoDup (map fst acc) -> put_all (put_all l []) acc = put_all l acc.
  Proof.
    intros Hacc. apply alist_ext.
    - now apply names_put_all_nodup.
    - rewrite !names_put_all, !fold_add_new. cbn [map app]. rewrite filter_notin_nil.
      now rewrite (firsts_id _ (firsts_nodup _)).
    - intros n. rewrite !get_put_all.
      rewrite last_def_nodup by (apply names_put_all_nodup; constructor).
      rewrite get_put_all. cbn. destruct (last_def n l); reflexivity.
  Qed.

  Lemma collect_into_pasted (b : body A) : forall acc,
    NoDup (map fst acc) -> collect_into b acc = put_all (pasted b) acc.
  Proof.
    induction b as [|n a r IHr|base IHb r IHr]; intros acc Hacc; cbn.
    - reflexivity.
    - rewrite IHr; [reflexivity|]. unfold put; cbn. rewrite names_al_set.
      change (add_new (map fst acc) n) with (fold_left add_new (map fst [(n, a)]) (map fst acc)).
      rewrite <- names_put_all. now apply names_put_all_nodup.
    - rewrite (IHb []) by constructor. rewrite put_all_canon by assumption.
      rewrite IHr by now apply names_put_all_nodup.
      unfold put_all. now rewrite fold_left_app.
  Qed.

  Theorem collect_is_pasting (b : body A) : collect b = put_all (pasted b) [].
  Proof. apply collect_into_pasted. constructor. Qed.

  Theorem collect_meets_spec (b : body A) : collected_ok (pasted b) (collect b).
  Proof.
    rewrite collect_is_pasting. split.
    - apply names_put_all_nil.
    - intros n. rewrite get_put_all. cbn. destruct (last_def n (pasted b)); reflexivity.
  Qed.

  Theorem collect_names_distinct (b : body A) : NoDup (map fst (collect b)).
  Proof. rewrite (proj1 (collect_meets_spec b)). apply firsts_nodup. Qed.

  Theorem collect_names_complete (b : body A) n :
    In n (map fst (collect b)) <-> In n (map fst (pasted b)).
  Proof. rewrite (proj1 (collect_meets_spec b)). apply firsts_In. Qed.

  (* the specification determines the list: nothing else satisfies it *)
  Theorem collected_ok_unique l got1 got2 : collected_ok l got1 -> collected_ok l got2 -> got1 = got2.
  Proof.
    intros [N1 G1] [N2 G2]. apply alist_ext.
    - rewrite N1. apply firsts_nodup.
    - congruence.
    - intros n. now rewrite G1, G2.
  Qed.
End Proofs.
