(* Splitting a serialised element list gives the elements back (with exact declared lengths). *)
From NDN Require Import Base.Prelude Model.TlvVar Model.Name Model.Tlv Proofs.BytesLemmas Proofs.TlvVarProofs.
Local Open Scope N_scope.

Arguments N.pow : simpl never.
Arguments N.mul : simpl never.
Arguments N.add : simpl never.
Arguments N.min : simpl never.
Arguments N.of_nat : simpl never.
Arguments N.to_nat : simpl never.

Definition el_ok (e : elem) : Prop :=
  e_type e < two64 /\ e_dlen e = N.of_nat (length (e_payload e)) /\ e_dlen e < two64.

Definition ser_elem (e : elem) : bytes := tlv (e_type e) (e_payload e).
Definition ser_els (els : list elem) : bytes := concat (map ser_elem els).

Lemma tlv_length t p : length (tlv t p) = (tl_size t + tl_size (N.of_nat (length p)) + length p)%nat.
Proof. unfold tlv. rewrite !app_length, !tl_enc_length. lia. Qed.

Lemma tl_size_pos t : (1 <= tl_size t)%nat.
Proof. unfold tl_size. destruct (t <=? 252); destruct (t <=? 65535); destruct (t <=? 4294967295); lia. Qed.

Lemma tlv_nonempty t p : tlv t p <> [].
Proof. intros E. apply (f_equal (@length N)) in E. rewrite tlv_length in E. pose proof (tl_size_pos t). cbn in E. lia. Qed.

Lemma elements_cons fuel e rest :
  el_ok e ->
  elements (S fuel) (ser_elem e ++ rest) = do r <- elements fuel rest ;; Ok (e :: r).
Proof.
  intros (Ht & Hl & Hl2). destruct e as [t dl p]. cbn [e_type e_dlen e_payload] in *. subst dl.
  unfold ser_elem. cbn [e_type e_payload].
  destruct (tlv t p ++ rest) as [|b0 w0] eqn:Ew.
  { exfalso. apply (tlv_nonempty t p). destruct (tlv t p); [reflexivity|discriminate]. }
  rewrite <- Ew. clear Ew b0 w0.
  cbn [elements].
  destruct (tlv t p ++ rest) as [|b0 w0] eqn:Ew.
  { exfalso. apply (tlv_nonempty t p). destruct (tlv t p); [reflexivity|discriminate]. }
  rewrite <- Ew. clear Ew b0 w0.
  unfold tlv. rewrite <- !app_assoc.
  rewrite tl_dec_enc by exact Ht. cbn [bind].
  rewrite skipn_app_exact' by (symmetry; apply tl_enc_length).
  rewrite tl_dec_enc by exact Hl2. cbn [bind].
  rewrite (app_assoc (tl_enc t)).
  rewrite skipn_app_exact' by (rewrite app_length, !tl_enc_length; reflexivity).
  replace (N.to_nat (N.min (N.of_nat (length p)) (N.of_nat (length (p ++ rest))))) with (length p)
    by (rewrite app_length; lia).
  rewrite firstn_app_exact, skipn_app_exact. reflexivity.
Qed.

Lemma elements_nil fuel : elements fuel [] = Ok [].
Proof. destruct fuel; reflexivity. Qed.

Theorem elements_ser els : forall fuel,
  Forall el_ok els -> (length els <= fuel)%nat -> elements fuel (ser_els els) = Ok els.
Proof.
  induction els as [|e els IH]; intros fuel H Hf.
  - apply elements_nil.
  - inversion H as [|? ? He Hr]; subst. destruct fuel as [|fuel]; [cbn in Hf; lia|].
    unfold ser_els. cbn [map concat]. rewrite elements_cons by exact He.
    fold (ser_els els). rewrite IH; [reflexivity|exact Hr|cbn in Hf; lia].
Qed.

Lemma ser_els_length_ge els : Forall el_ok els -> (2 * length els <= length (ser_els els))%nat.
Proof.
  induction 1 as [|e els He Hr IH]; [cbn; lia|].
  unfold ser_els in *. cbn [map concat length]. rewrite app_length. unfold ser_elem at 1.
  rewrite tlv_length. pose proof (tl_size_pos (e_type e)). pose proof (tl_size_pos (N.of_nat (length (e_payload e)))). lia.
Qed.

Theorem split_wire_ser els : Forall el_ok els -> split_wire (ser_els els) = Ok els.
Proof.
  intros H. unfold split_wire. apply elements_ser; [exact H|].
  pose proof (ser_els_length_ge els H). lia.
Qed.

Lemma ser_els_app a b : ser_els (a ++ b) = ser_els a ++ ser_els b.
Proof. unfold ser_els. rewrite map_app, concat_app. reflexivity. Qed.
