(* C03 / C05 — one loop turn of the whole state reduces to the per-record turn ([rturn_g]) plus a filter of the PIT;
   the invariant is preserved when every record satisfies its per-record obligation. *)
From NDN Require Import Base.Prelude Spec.ExpressSpec Model.ExpressPipeline Proofs.ExpressBasics Proofs.ExpressInv
  Proofs.ExpressRec.
Local Open Scope N_scope.

(* ---- only ints / pit / now matter ---- *)
Definition core_eq (s s' : st) : Prop := ints s = ints s' /\ pit s = pit s' /\ now s = now s'.
Lemma core_eq_refl s : core_eq s s. Proof. repeat split. Qed.
Lemma core_eq_sym s s' : core_eq s s' -> core_eq s' s. Proof. unfold core_eq; intuition. Qed.
Lemma core_eq_trans a b c : core_eq a b -> core_eq b c -> core_eq a c.
Proof. unfold core_eq; intuition congruence. Qed.

Lemma core_upd_all f s s' : core_eq s s' -> core_eq (upd_all f s) (upd_all f s').
Proof. intros [A [B C]]. unfold core_eq, upd_all; cbn. rewrite A, B, C. auto. Qed.
Lemma core_fire b t s s' : core_eq s s' -> core_eq (fire b t s) (fire b t s').
Proof. apply core_upd_all. Qed.
Lemma core_settle fe s s' : core_eq s s' -> core_eq (settle fe s) (settle fe s').
Proof. intros [A [B C]]. unfold core_eq, settle, upd_all, set_pit; cbn. rewrite A, B, C. auto. Qed.

Lemma get_int_core s s' i : core_eq s s' -> get_int s i = get_int s' i.
Proof. intros [A _]. unfold get_int. rewrite A. reflexivity. Qed.
Lemma abs_core s s' i : core_eq s s' -> abs s i = abs s' i.
Proof. intros H. unfold abs. rewrite (get_int_core s s' i H). reflexivity. Qed.
Lemma inv_struct_core s s' : core_eq s s' -> inv_struct s -> inv_struct s'.
Proof.
  intros [A [B C]]. unfold inv_struct, pit_ok, pit_entries, get_int. rewrite A, B. auto.
Qed.
Lemma inv_core fe sb s s' : core_eq s s' -> inv fe sb s -> inv fe sb s'.
Proof.
  intros H [I R]. split; [eapply inv_struct_core; eauto|]. destruct H as [A [B C]].
  unfold get_int in *. rewrite <- A, <- C. exact R.
Qed.

(* ---- the generic synchronous effect: a PIT filter and a record map ---- *)
Definition gsync (g : N -> irec -> eff) (kp : name -> N -> entry -> bool) (s : st) : st :=
  upd_all g (set_pit s (pit_map kp (pit s))).

Definition turn (fe : frontend) (mid sb : bool) (t : N) (g : N -> irec -> eff) (kp : name -> N -> entry -> bool) (s : st) : st :=
  settle fe (fire sb t (gsync g kp (if mid then fire false t s else s))).

Lemma get_int_set_pit s p i : get_int (set_pit s p) i = get_int s i. Proof. reflexivity. Qed.

(* the stages of a turn *)
Definition tA0 (mid : bool) (t : N) (s : st) : st := if mid then fire false t s else s.
Definition tA3 (fe : frontend) (mid sb : bool) (t : N) g kp (s : st) : st :=
  upd_all (sv_rec fe) (fire sb t (gsync g kp (tA0 mid t s))).
Definition tclean (fe : frontend) (mid sb : bool) (t : N) g kp (s : st) (pn : name) (nid : N) (e : entry) : bool :=
  negb (cleaning (ints (tA3 fe mid sb t g kp s)) pn nid e).
Definition tA4 (fe : frontend) (mid sb : bool) (t : N) g kp (s : st) : st :=
  set_pit (tA3 fe mid sb t g kp s) (pit_map (tclean fe mid sb t g kp s) (pit (tA3 fe mid sb t g kp s))).

Lemma turn_unfold fe mid sb t g kp s :
  turn fe mid sb t g kp s = gsync (ws_rec fe (now s)) (tclean fe mid sb t g kp s) (tA3 fe mid sb t g kp s).
Proof.
  unfold turn, settle, gsync at 1, tA3, tA0, tclean.
  replace (now s) with (now (set_pit (upd_all (sv_rec fe) (fire sb t (gsync g kp (if mid then fire false t s else s))))
     (pit_map (fun pn nid e => negb (cleaning (ints (upd_all (sv_rec fe) (fire sb t (gsync g kp (if mid then fire false t s else s))))) pn nid e))
        (pit (upd_all (sv_rec fe) (fire sb t (gsync g kp (if mid then fire false t s else s)))))))) by (destruct mid; reflexivity).
  reflexivity.
Qed.

Lemma turn_now fe mid sb t g kp s : now (turn fe mid sb t g kp s) = now s.
Proof. unfold turn, settle, fire, gsync. destruct mid; reflexivity. Qed.

Lemma tA0_get mid t s i : get_int (tA0 mid t s) i = option_map (fun r => if mid then fire_rec false t r else r) (get_int s i).
Proof.
  unfold tA0. destruct mid.
  - unfold fire. rewrite get_int_upd_all. reflexivity.
  - destruct (get_int s i); reflexivity.
Qed.

Lemma tA3_get fe mid sb t g kp s i :
  get_int (tA3 fe mid sb t g kp s) i =
  option_map (fun r => f_rec (sv_rec fe i (fire_rec sb t (f_rec (g i (if mid then fire_rec false t r else r)))))) (get_int s i).
Proof.
  unfold tA3, fire, gsync. rewrite !get_int_upd_all, get_int_set_pit, tA0_get. destruct (get_int s i); reflexivity.
Qed.

Lemma turn_get fe mid sb t g kp s i :
  get_int (turn fe mid sb t g kp s) i = option_map (rturn_g fe mid sb (now s) (g i) i) (get_int s i) \/ now s <> t.
Proof.
  destruct (N.eq_dec (now s) t) as [E|E]; [left | right; exact E]. subst t.
  rewrite turn_unfold. unfold gsync. rewrite get_int_upd_all, get_int_set_pit, tA3_get.
  destruct (get_int s i); reflexivity.
Qed.

Lemma turn_pit fe mid sb t g kp s :
  pit (turn fe mid sb t g kp s) = pit_map (tclean fe mid sb t g kp s) (pit_map kp (pit s)).
Proof.
  rewrite turn_unfold. unfold gsync at 1. rewrite upd_all_pit. cbn [pit set_pit].
  unfold tA3, fire, gsync. rewrite !upd_all_pit. cbn [pit set_pit]. unfold tA0. destruct mid; reflexivity.
Qed.

Lemma turn_get' fe mid sb t g kp s i :
  now s = t -> get_int (turn fe mid sb t g kp s) i = option_map (rturn_g fe mid sb t (g i) i) (get_int s i).
Proof. intros <-. destruct (turn_get fe mid sb (now s) g kp s i) as [E|E]; [exact E | congruence]. Qed.

Lemma turn_ids fe mid sb t g kp s : map fst (ints (turn fe mid sb t g kp s)) = map fst (ints s).
Proof.
  rewrite turn_unfold. unfold gsync, tA3, fire, gsync, tA0. rewrite !ids_upd_all. cbn [ints set_pit]. rewrite !ids_upd_all.
  cbn [ints set_pit]. destruct mid; [unfold fire; rewrite ids_upd_all|]; reflexivity.
Qed.

Lemma pit_ok_tA3 fe mid sb t g kp s :
  pit_ok s -> (forall i r, same_static r (f_rec (g i r))) -> pit_ok (tA3 fe mid sb t g kp s).
Proof.
  intros P SS. unfold tA3. apply pit_ok_upd_all; [|intros; apply ss_sv].
  unfold fire. apply pit_ok_upd_all; [|intros; apply ss_fire].
  apply pit_ok_gsync; auto. unfold tA0. destruct mid; auto. unfold fire. apply pit_ok_upd_all; auto. intros; apply ss_fire.
Qed.

Lemma tA3_pit fe mid sb t g kp s : pit (tA3 fe mid sb t g kp s) = pit_map kp (pit s).
Proof. unfold tA3, fire, gsync. rewrite !upd_all_pit. cbn [pit set_pit]. unfold tA0. destruct mid; reflexivity. Qed.

Lemma cleaning_self l i r :
  al_get N.eqb l i = Some r -> cleaning l (i_name r) (i_node r) (entry_of i r) = wants_cleanup r.
Proof.
  intros G. unfold cleaning. cbn [e_id entry_of]. rewrite G, name_eqb_refl, N.eqb_refl, !andb_true_r. reflexivity.
Qed.

Lemma turn_inv_struct fe mid sb t g kp s :
  now s = t -> inv_struct s ->
  (forall i r, same_static r (f_rec (g i r))) ->
  (forall i r, get_int s i = Some r ->
     pendingb (rturn_g fe mid sb t (g i) i r) =
     pendingb r && kp (i_name r) (i_node r) (entry_of i r) && negb (rturn_clean_g fe mid sb t (g i) i r)) ->
  inv_struct (turn fe mid sb t g kp s).
Proof.
  intros Nw [K [P M]] SS HP. split; [|split].
  - rewrite turn_ids. exact K.
  - rewrite turn_unfold. apply pit_ok_gsync; [apply pit_ok_tA3; auto | intros; apply ss_ws].
  - intros i r' G'. rewrite (turn_get' fe mid sb t g kp s i Nw) in G'.
    destruct (get_int s i) as [r|] eqn:G; [|discriminate]. cbn in G'. inversion G'; subst r'. clear G'.
    pose proof (tA3_get fe mid sb t g kp s i) as G3. rewrite G in G3. cbn in G3.
    set (r3 := f_rec (sv_rec fe i (fire_rec sb t (f_rec (g i (if mid then fire_rec false t r else r)))))) in *.
    unfold pit_entries. rewrite turn_unfold. unfold gsync at 1. rewrite upd_all_pit. cbn [pit set_pit].
    rewrite (mem_pit_map (tA3 fe mid sb t g kp s) i r3 _ (pit_ok_tA3 fe mid sb t g kp s P SS) G3).
    unfold pit_entries. rewrite tA3_pit. rewrite (mem_pit_map s i r kp P G). rewrite (M i r G).
    unfold tclean. rewrite (cleaning_self (ints (tA3 fe mid sb t g kp s)) i r3 G3). rewrite (HP i r G). reflexivity.
Qed.

Lemma turn_abs fe mid sb t g kp s i (F : istate -> istate) :
  now s = t -> F INone = INone ->
  (forall r, get_int s i = Some r -> abs_rec (rturn_g fe mid sb t (g i) i r) = F (abs_rec r)) ->
  abs (turn fe mid sb t g kp s) i = F (abs s i).
Proof.
  intros Nw F0 H. unfold abs. rewrite (turn_get' fe mid sb t g kp s i Nw).
  destruct (get_int s i) as [r|]; cbn; [apply H; reflexivity | symmetry; exact F0].
Qed.
