(* C10, part 5: on every envelope the executable specification (Spec/LpSpec.v: an order-insensitive reading of
   the element list, written without TlvModel.parse) and the model of the unwrap prologue agree.  This is the
   link between the theorems (about the model) and the oracle the harness evaluates on the implementation. *)
From NDN Require Import Base.Prelude Model.TlvVar Model.Name Model.Tlv Model.Packet Model.Lp Spec.TlvWf
  Spec.StrictTlv Spec.LpSpec
  Proofs.BytesLemmas Proofs.TlvVarProofs Proofs.TlvSplit Proofs.TlvAssign Proofs.TlvRoundtrip Proofs.TlvRoundtrip2
  Proofs.TlvMore Proofs.PacketDecode Proofs.LpUnknown Proofs.LpProofs Proofs.LpWire.
From NDN Require Import Generated.Schemas Generated.ConstsLp.
Local Open Scope N_scope.

Arguments N.of_nat : simpl never.
Arguments N.to_nat : simpl never.
Arguments N.pow : simpl never.
Arguments tl_enc : simpl never.
Arguments nni_width : simpl never.
Arguments N_to_be : simpl never.

Definition spec_of_unwrapped (u : unwrapped) : spec_result :=
  match u with
  | UDrop 1 => SReject
  | UDrop _ => SIdle
  | URaise _ => SUnspec
  | UNack r f => SNack r f
  | UPacket t tok d => SPacket t tok d
  end.

(* ---- small facts --------------------------------------------------------------------------------- *)
Lemma strict_split_ser els : Forall el_ok els -> strict_split (ser_els els) = Some els.
Proof.
  intros H. unfold strict_split. apply elements_exact_strict.
  - apply (split_wire_ser els H).
  - eapply Forall_impl; [|exact H]. intros e (_ & E & _). exact E.
Qed.

Lemma strict_split_tlv t p :
  t < two64 -> N.of_nat (length p) < two64 -> strict_split (tlv t p) = Some [Elem t (N.of_nat (length p)) p].
Proof.
  intros Ht Hp. change (tlv t p) with (tlv (e_type (Elem t (N.of_nat (length p)) p)) (e_payload (Elem t (N.of_nat (length p)) p))).
  rewrite <- ser_single.
  apply strict_split_ser. constructor; [|constructor]. repeat split; assumption.
Qed.

Lemma tl_size_add_inj m n : (tl_size (N.of_nat m) + m = tl_size (N.of_nat n) + n)%nat -> m = n.
Proof.
  unfold tl_size.
  destruct (N.of_nat m <=? 252) eqn:A1; destruct (N.of_nat m <=? 65535) eqn:A2; destruct (N.of_nat m <=? 4294967295) eqn:A3;
    destruct (N.of_nat n <=? 252) eqn:B1; destruct (N.of_nat n <=? 65535) eqn:B2; destruct (N.of_nat n <=? 4294967295) eqn:B3;
    lia.
Qed.

Lemma tlv_inj t a b : tlv t a = tlv t b -> a = b.
Proof.
  intros H. assert (length a = length b) as L.
  { apply (f_equal (@length N)) in H. rewrite !tlv_length in H. apply tl_size_add_inj. lia. }
  unfold tlv in H. rewrite L in H. apply app_inv_head in H. apply app_inv_head in H. exact H.
Qed.

Lemma has_find t els : has t els = match find (fun e => e_type e =? t) els with Some _ => true | None => false end.
Proof. unfold has. induction els as [|e els IH]; [reflexivity|]. cbn [existsb find]. destruct (e_type e =? t); [reflexivity|exact IH]. Qed.

Lemma find_with_unknown fs a b t :
  with_unknown fs a b -> In t (level_types fs) ->
  find (fun e => e_type e =? t) b = find (fun e => e_type e =? t) a.
Proof.
  intros H Ht. induction H as [|e a b _ IH|e a b K _ IH]; [reflexivity| |].
  - cbn [find]. rewrite IH. reflexivity.
  - cbn [find]. replace (e_type e =? t) with false; [exact IH|].
    symmetry. apply N.eqb_neq. intros E. apply (known_false _ _ K). rewrite E. exact Ht.
Qed.

Lemma nni_of_enc r : r < two64 -> nni (nni_enc r) = Some r.
Proof.
  intros Hr. unfold nni. rewrite nni_enc_length.
  destruct (nni_width_cases r) as [E|[E|[E|E]]]; rewrite E; cbn [Nat.eqb orb]; unfold nni_enc; rewrite E;
    (rewrite be_to_N_to_be_small; [reflexivity|]); rewrite <- E; apply nni_width_bound; exact Hr.
Qed.

(* ---- the element list of an encoded level, field by field ---------------------------------------------- *)
Definition hd_opt {A} (l : list A) : option A := match l with [] => None | x :: _ => Some x end.

Definition item_enc (d : nat) (it : item) : Prop :=
  item_good (parse_val d) it /\
  enc_val d (fst (it_field it)) (snd (it_field it)) (it_value it) = Ok (ser_els (it_els it)).

Lemma enc_fields_items d :
  forall fs vs w, (forall t k, In (t, k) fs -> wfk t k) -> Forall2 (fun f v => fits (snd f) v) fs vs ->
  enc_fields_with (enc_val d) fs vs = Ok w -> N.of_nat (length w) < two64 ->
  exists items, map it_field items = fs /\ map it_value items = vs /\
                w = ser_els (concat (map it_els items)) /\ Forall (item_enc d) items.
Proof.
  intros fs vs w Hwf HF. revert w. induction HF as [|[t k] v fs vs Hfit _ IH]; intros w He Hl.
  - cbn in He. inversion He; subst. exists []. repeat split; constructor.
  - cbn [enc_fields_with] in He. cbn [snd] in Hfit.
    destruct (enc_val d t k v) as [a|] eqn:Ea; [|discriminate]. cbn [bind] in He.
    destruct (enc_fields_with (enc_val d) fs vs) as [r|] eqn:Er; [|discriminate]. cbn [bind] in He.
    inversion He; subst w. rewrite app_length in Hl.
    destruct (enc_good d t k v a (Hwf t k (or_introl eq_refl)) Hfit Ea ltac:(lia)) as (els & -> & Hg).
    destruct (IH (fun t' k' H => Hwf t' k' (or_intror H)) r eq_refl ltac:(lia)) as (items & E1 & E2 & -> & Hgs).
    exists (((t, k), v, els) :: items). cbn [map it_field it_value it_els fst snd concat].
    rewrite E1, E2. repeat split; try reflexivity.
    + rewrite ser_els_app. reflexivity.
    + constructor; [|exact Hgs]. split; [exact Hg|exact Ea].
Qed.

Lemma good_single_cases pv t k v els :
  good pv t k v els -> single k = true ->
  (v = VNone /\ els = []) \/ (exists e, els = [e] /\ v <> VNone /\ good1 pv t k v e).
Proof.
  intros H Hs. destruct H as [k|k v e _ Hv H1|ek l els _ HF|kk vt vk l prs _ _ HF]; try discriminate.
  - left. split; reflexivity.
  - right. exists e. split; [reflexivity|split; assumption].
Qed.

Definition it_type (it : item) : N := fst (it_field it).
Definition it_single (d : nat) (it : item) : Prop := single (snd (it_field it)) = true /\ item_enc d it.

Lemma find_none_items d items t :
  Forall (it_single d) items -> ~ In t (map it_type items) ->
  find (fun e => e_type e =? t) (concat (map it_els items)) = None.
Proof.
  induction 1 as [|it items (Hs & (Hg & _)) _ IH]; intros Hn; [reflexivity|].
  cbn [map concat]. cbn [map In] in Hn.
  destruct (good_single_cases _ _ _ _ _ Hg Hs) as [(_ & E)|(e & E & _ & (Et & _))]; rewrite E; cbn [app find].
  - apply IH. tauto.
  - replace (e_type e =? t) with false by (symmetry; apply N.eqb_neq; unfold it_type in Hn; rewrite Et; tauto).
    apply IH. tauto.
Qed.

Lemma find_items d items t :
  Forall (it_single d) items -> NoDup (map it_type items) ->
  forall it, In it items -> it_type it = t ->
  find (fun e => e_type e =? t) (concat (map it_els items)) = hd_opt (it_els it).
Proof.
  induction 1 as [|h items (Hs & (Hg & He)) Hr IH]; intros Hnd it Hin Ht; [destruct Hin|].
  cbn [map] in Hnd. inversion Hnd as [|? ? Hnot Hnd']; subst.
  cbn [map concat].
  destruct Hin as [->|Hin].
  - destruct (good_single_cases _ _ _ _ _ Hg Hs) as [(_ & E)|(e & E & _ & (Et & _))]; rewrite E; cbn [app find hd_opt].
    + apply (find_none_items d); assumption.
    + unfold it_type. rewrite Et, N.eqb_refl. reflexivity.
  - assert (it_type h <> it_type it) as Hne.
    { intros E. apply Hnot. rewrite E. apply in_map. exact Hin. }
    destruct (good_single_cases _ _ _ _ _ Hg Hs) as [(_ & E)|(e & E & _ & (Et & _))]; rewrite E; cbn [app find].
    + apply IH; auto.
    + replace (e_type e =? it_type it) with false by (symmetry; apply N.eqb_neq; rewrite Et; exact Hne).
      apply IH; auto.
Qed.

Lemma field_value_items items :
  NoDup (map it_type items) -> forall it, In it items ->
  field_value (map it_field items) (map it_value items) (it_type it) = it_value it.
Proof.
  induction items as [|h items IH]; intros Hnd it Hin; [destruct Hin|].
  cbn [map] in Hnd. inversion Hnd as [|? ? Hnot Hnd']; subst.
  cbn [map field_value]. destruct (it_field h) as [t' k'] eqn:Eh.
  destruct Hin as [->|Hin].
  - unfold it_type. rewrite Eh. cbn [fst]. rewrite N.eqb_refl. reflexivity.
  - replace (t' =? it_type it) with false.
    + apply IH; assumption.
    + symmetry. apply N.eqb_neq. intros E. apply Hnot. unfold it_type at 1. rewrite Eh. cbn [fst]. rewrite E.
      apply in_map. exact Hin.
Qed.

(* ---- per-header facts of an envelope ------------------------------------------------------------------- *)
Definition header_fact (vs : list value) (els : list elem) (T : N) (K : fkind) : Prop :=
  (lp_attr vs T = VNone /\ find (fun e => e_type e =? T) els = None) \/
  (exists e, find (fun e => e_type e =? T) els = Some e /\ lp_attr vs T <> VNone /\ e_type e = T /\ el_ok e /\
             parse_val lp_depth K e = Ok (lp_attr vs T) /\
             enc_val lp_depth T K (lp_attr vs T) = Ok (tlv T (e_payload e))).

Lemma lp_all_single : forallb (fun f => single (snd f)) lp_fields = true.
Proof. vm_compute. reflexivity. Qed.

Lemma envelope_header_facts vs els :
  envelope_of vs els -> forall T K, In (T, K) lp_fields -> header_fact vs els T K.
Proof.
  intros (HF & Hok & Hl & els0 & He & Hw) T K Hin.
  pose proof wf_lp_fields as Hwf. inversion Hwf as [fs0 Hnd Hall]; subst.
  pose proof (with_unknown_el_ok _ _ _ Hw Hok) as Hok0.
  pose proof (ser_els_with_unknown_length _ _ _ Hw) as Hlen.
  destruct (enc_fields_items lp_depth lp_fields vs _ Hall HF He ltac:(lia)) as (items & E1 & E2 & E3 & Hit).
  assert (els0 = concat (map it_els items)) as ->.
  { assert (Forall el_ok (concat (map it_els items))) as Hok1.
    { eapply items_el_ok. eapply Forall_impl; [|exact Hit]. intros it (Hg & _). exact Hg. }
    pose proof (split_wire_ser _ Hok0) as S0. rewrite E3 in S0. rewrite (split_wire_ser _ Hok1) in S0.
    inversion S0. reflexivity. }
  assert (map it_type items = map fst lp_fields) as Ety by (rewrite <- E1, map_map; reflexivity).
  assert (Forall (it_single lp_depth) items) as Hsing.
  { apply Forall_forall. intros it Hi. split; [|exact (proj1 (Forall_forall _ _) Hit it Hi)].
    pose proof lp_all_single as S. rewrite forallb_forall in S. apply (S (it_field it)).
    rewrite <- E1. apply in_map. exact Hi. }
  assert (NoDup (map it_type items)) as Hnd' by (rewrite Ety; exact Hnd).
  assert (exists it, In it items /\ it_field it = (T, K)) as (it & Hi & Ef).
  { rewrite <- E1 in Hin. apply in_map_iff in Hin. destruct Hin as (it & Ef & Hi). exists it. split; assumption. }
  assert (it_type it = T) as Et by (unfold it_type; rewrite Ef; reflexivity).
  assert (lp_attr vs T = it_value it) as Ev.
  { unfold lp_attr. rewrite <- E1, <- E2, <- Et. apply field_value_items; assumption. }
  assert (In T (level_types lp_fields)) as HT by (eapply level_types_field; exact Hin).
  pose proof (find_items lp_depth items T Hsing Hnd' it Hi Et) as Hfind.
  rewrite <- (find_with_unknown lp_fields _ els T Hw HT) in Hfind.
  destruct (proj1 (Forall_forall _ _) Hsing it Hi) as (Hs & (Hg & Hen)).
  unfold item_good in Hg. rewrite Ef in Hg, Hen, Hs. cbn [fst snd] in Hg, Hen, Hs.
  destruct (good_single_cases _ _ _ _ _ Hg Hs) as [(Evn & Ee)|(e & Ee & Hv & (Et' & Hoke & Hp))].
  - left. rewrite Ev, Evn. split; [reflexivity|]. rewrite Hfind, Ee. reflexivity.
  - right. exists e. rewrite Ev. rewrite Hfind, Ee. cbn [hd_opt].
    split; [reflexivity|]. split; [exact Hv|]. split; [exact Et'|]. split; [exact Hoke|]. split; [exact Hp|].
    rewrite Hen, Ee, ser_single, Et'. reflexivity.
Qed.

(* ---- byte-string headers: the element's payload is the attribute -------------------------------------- *)
Lemma bytes_header vs els T :
  header_fact vs els T (KBytes false) -> (forall v, lp_attr vs T = v -> fits (KBytes false) v) ->
  first_of T els = match lp_attr vs T with VBytes b => Some b | _ => None end.
Proof.
  intros [(Ev & Ef)|(e & Ef & Hv & _ & _ & Hp & _)] Hfit; unfold first_of; rewrite Ef.
  - rewrite Ev. reflexivity.
  - cbn [option_map]. unfold lp_depth, depth_of in Hp. cbn [parse_val] in Hp. inversion Hp as [E]. reflexivity.
Qed.

Lemma uint_header_has vs els T :
  header_fact vs els T (KUint None) -> has T els = match lp_attr vs T with VNone => false | _ => true end.
Proof.
  intros [(Ev & Ef)|(e & Ef & Hv & _)]; rewrite has_find, Ef.
  - rewrite Ev. reflexivity.
  - destruct (lp_attr vs T); try reflexivity. congruence.
Qed.

Lemma fits_at vs T K : Forall2 (fun f v => fits (snd f) v) lp_fields vs -> In (T, K) lp_fields ->
  NoDup (map fst lp_fields) -> fits K (lp_attr vs T).
Proof.
  unfold lp_attr. generalize lp_fields. intros fs HF. induction HF as [|[t k] v fs vs Hfit _ IH]; intros Hin Hnd; [destruct Hin|].
  cbn [map] in Hnd. inversion Hnd as [|? ? Hnot Hnd']; subst. cbn [field_value].
  destruct Hin as [E|Hin].
  - inversion E; subst. rewrite N.eqb_refl. exact Hfit.
  - replace (t =? T) with false; [apply IH; assumption|].
    symmetry. apply N.eqb_neq. intros ->. apply Hnot. change T with (fst (T, K)). apply in_map. exact Hin.
Qed.

(* the Nack header *)
Lemma fits_model_inv fs ic v :
  fits (KModel fs ic) v -> v = VNone \/ exists ns, v = VModel ns /\ Forall2 (fun f x => fits (snd f) x) fs ns.
Proof. inversion 1; subst; [left; reflexivity|right; eauto]. Qed.
Lemma fits_uint_inv fx v :
  fits (KUint fx) v -> v = VNone \/ exists n w, v = VUint n /\ fixed_width fx n = Ok w /\ n < 256 ^ N.of_nat w.
Proof. inversion 1; subst; [left; reflexivity|right; eauto]. Qed.

Lemma enc_nack_none d :
  enc_val (S (S d)) attr_nack (KModel nack_fields false) (VModel [VNone]) = Ok (tlv attr_nack []).
Proof. cbn. reflexivity. Qed.

Lemma enc_nack_reason d n :
  n < 256 ^ N.of_nat (nni_width n) ->
  enc_val (S (S d)) attr_nack (KModel nack_fields false) (VModel [VUint n]) =
  Ok (tlv attr_nack (tlv attr_nack_reason (nni_enc n))).
Proof.
  intros Hb. cbn. replace (256 ^ N.of_nat (nni_width n) <=? n) with false by lia.
  cbn [bind]. rewrite !app_nil_r. rewrite uint_element. reflexivity.
Qed.

Lemma nack_header vs els :
  header_fact vs els attr_nack (KModel nack_fields false) -> fits (KModel nack_fields false) (lp_attr vs attr_nack) ->
  spec_nack els = Some (nack_reason_of (lp_nack vs)).
Proof.
  intros Hh Hfit. unfold spec_nack, lp_nack, first_of. change T_NACK with attr_nack.
  destruct Hh as [(Ev & Ef)|(e & Ef & Hv & _ & Hoke & _ & Hen)]; rewrite Ef.
  - rewrite Ev. reflexivity.
  - cbn [option_map].
    destruct (fits_model_inv _ _ _ Hfit) as [E|(ns & E & HF2)]; [congruence|].
    rewrite E in Hen |- *.
    unfold nack_fields, ndnlp_v2_NetworkNack in HF2.
    inversion HF2 as [|f x fs' ns' Hx HF3]; subst. inversion HF3; subst. cbn [snd] in Hx.
    change lp_depth with 4%nat in Hen.
    destruct (fits_uint_inv _ _ Hx) as [->|(n & w & -> & Hw & Hb)].
    + (* no NackReason *)
      rewrite enc_nack_none in Hen.
      assert (tlv attr_nack [] = tlv attr_nack (e_payload e)) as E' by congruence.
      apply tlv_inj in E'. rewrite <- E'. reflexivity.
    + cbn [fixed_width] in Hw. injection Hw as <-.
      rewrite (enc_nack_reason _ n Hb) in Hen.
      assert (tlv attr_nack (tlv attr_nack_reason (nni_enc n)) = tlv attr_nack (e_payload e)) as E' by congruence.
      apply tlv_inj in E'. rewrite <- E'.
      assert (n < two64) as Hn.
      { destruct (nni_width_cases n) as [W|[W|[W|W]]]; rewrite W in Hb; unfold two64;
          [rewrite pow256_1 in Hb|rewrite pow256_2 in Hb|rewrite pow256_4 in Hb|rewrite pow256_8 in Hb; unfold two64 in Hb]; lia. }
      rewrite strict_split_tlv; [|reflexivity|rewrite nni_enc_length; destruct (nni_width_cases n) as [W|[W|[W|W]]]; rewrite W; reflexivity].
      cbn [e_type e_payload]. change (attr_nack_reason =? T_NACK_REASON) with true. cbn iota.
      rewrite (nni_of_enc n Hn). reflexivity.
Qed.

(* ---- the theorem ------------------------------------------------------------------------------------------ *)
Theorem model_meets_spec vs els :
  envelope_of vs els ->
  spec_receive LP_PACKET (lp_wire els) = spec_of_unwrapped (unwrap_v2 LP_PACKET (lp_wire els)).
Proof.
  intros He.
  pose proof (envelope_header_facts vs els He) as Hfacts.
  destruct attrs_in_descriptor as (I1 & I2 & I3 & I4 & _ & _ & _).
  assert (In (attr_fragment, KBytes false) lp_fields) as I5 by (vm_compute; auto 20).
  pose proof He as (HF & Hok & Hl & _).
  pose proof wf_lp_fields as Hwf. inversion Hwf as [fs0 Hnd Hall]; subst.
  (* left-hand side down to the element list *)
  set (rhs := spec_of_unwrapped (unwrap_v2 LP_PACKET (lp_wire els))).
  unfold spec_receive. change (LP_PACKET =? T_LP_PACKET) with true. cbn iota.
  unfold spec_envelope, whole, lp_wire. change LP_PACKET with T_LP_PACKET.
  rewrite strict_split_tlv by (try exact Hl; reflexivity). cbn [e_type e_payload]. rewrite N.eqb_refl.
  rewrite (strict_split_ser els Hok).
  change T_FRAG_INDEX with attr_frag_index. change T_FRAG_COUNT with attr_frag_count.
  rewrite (uint_header_has vs els _ (Hfacts _ _ I1)), (uint_header_has vs els _ (Hfacts _ _ I2)).
  subst rhs.
  destruct (lp_attr vs attr_frag_index) eqn:F1;
    try (unfold unwrap_v2; rewrite (unwrap_fragmented _ true caught_decode_v2 vs els He);
         [reflexivity|intros [A B]; congruence]).
  destruct (lp_attr vs attr_frag_count) eqn:F2;
    try (unfold unwrap_v2; rewrite (unwrap_fragmented _ true caught_decode_v2 vs els He);
         [reflexivity|intros [A B]; congruence]).
  cbn [orb].
  assert (unfragmented vs) as Hu by (split; assumption).
  unfold unwrap_v2. rewrite (unwrap_envelope lp_caught_v2 true vs els He Hu).
  rewrite (nack_header vs els (Hfacts _ _ I4) (fits_at vs _ _ HF I4 Hnd)).
  change T_FRAGMENT with attr_fragment. change T_PIT_TOKEN with attr_pit_token.
  rewrite (bytes_header vs els _ (Hfacts _ _ I5)) by (intros v <-; exact (fits_at vs _ _ HF I5 Hnd)).
  rewrite (bytes_header vs els _ (Hfacts _ _ I3)) by (intros v <-; exact (fits_at vs _ _ HF I3 Hnd)).
  unfold lp_fragment, tok_if, lp_token.
  destruct (lp_attr vs attr_fragment) as [| | |[|b frag]| | | |]; try reflexivity.
  destruct (tl_dec (b :: frag)) as [[t n]|e]; [|reflexivity].
  destruct (nack_reason_of (lp_nack vs)); reflexivity.
Qed.
