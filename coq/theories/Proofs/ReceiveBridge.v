(* C06: tie between the source text and the model, re-established on every run.
   Generated/ReceiveGen.v is produced by tools/gen_receive.py from the python ast of
   appv2.py / app.py (_receive), transport/stream_face.py (run, shutdown), transport/udp_face.py
   (datagram_received) and encoding/tlv_var.py (read_tl_num_from_stream).
   The two coroutines are translated statement by statement and must be *convertible* with the
   hand-written ones of Model/Stream.v; the except tuples must cover what the theorems need. *)
From NDN Require Import Base.Prelude Model.TlvVar Model.Name Model.Tlv Model.Packet Model.Stream Model.Receive
  Proofs.PacketTotal Proofs.ReceiveTotal.
From NDN Require Generated.ReceiveGen.
Module Gen := Generated.ReceiveGen.
Local Open Scope N_scope.

(* T2: read_tl_num_from_stream and the try body of StreamFace.run *)
Theorem gen_read_tl_num_eq : Gen.read_tl_num_from_stream = read_tl_num.
Proof. reflexivity. Qed.
Theorem gen_run_body_eq : Gen.run_try_body = run_body.
Proof. reflexivity. Qed.

(* T1: the except clause of StreamFace.run, what its handler does, how the callback is started *)
Definition run_cfg_gen : run_cfg :=
  RunCfg (catches Gen.run_caught EIncomplete) (catches Gen.run_caught EConnReset).
Theorem run_cfg_gen_eq : run_cfg_gen = run_cfg_src.
Proof. reflexivity. Qed.
Theorem run_spawns_task : Gen.run_spawns_task = true.
Proof. reflexivity. Qed.
Theorem shutdown_clears_running : Gen.shutdown_clears_running = true.
Proof. reflexivity. Qed.

(* T1: packet type constants of the dispatch *)
Theorem type_numbers_eq :
  Gen.src_TYPE_INTEREST = TYPE_INTEREST /\ Gen.src_TYPE_DATA = TYPE_DATA /\ Gen.src_TYPE_LP_PACKET = TYPE_LP_PACKET.
Proof. repeat split; reflexivity. Qed.

(* T1: the except tuples of _receive, both front-ends, as written in the source of this run *)
Definition cfg_v2 (nack_default : option N) : rcfg :=
  RCfg Gen.v2_catch_lp Gen.v2_catch_nack Gen.v2_catch_interest Gen.v2_catch_data
       Gen.v2_frag_guard Gen.v2_catch_fragtl nack_default.
Definition cfg_v1 (nack_default : option N) : rcfg :=
  RCfg Gen.v1_catch_lp Gen.v1_catch_nack Gen.v1_catch_interest Gen.v1_catch_data
       Gen.v1_frag_guard Gen.v1_catch_fragtl nack_default.

Theorem cfg_v2_ok nd : cfg_okb (cfg_v2 nd) = true.
Proof. reflexivity. Qed.
Theorem cfg_v1_ok nd : cfg_okb (cfg_v1 nd) = true.
Proof. reflexivity. Qed.

(* T1: UdpFace.datagram_received guards parse_tl_num against everything it can raise *)
Theorem udp_guard_ok : Gen.udp_guarded = true /\ catches Gen.udp_caught EIndex = true /\ catches Gen.udp_caught EStruct = true.
Proof. repeat split; reflexivity. Qed.

(* one datagram = at most one callback, never an exception *)
Theorem datagram_total caught data :
  catches caught EIndex = true -> catches caught EStruct = true ->
  exists o, datagram_received caught data = Ok o /\
            match o with Some (typ, d) => d = data /\ exists sz, tl_dec data = Ok (typ, sz) | None => is_ok (tl_dec data) = false end.
Proof.
  intros HI HS. unfold datagram_received. destruct (tl_dec data) as [[typ sz]|e] eqn:E.
  - eexists. split; [reflexivity|]. split; [reflexivity|]. exists sz. reflexivity.
  - destruct (tl_dec_err _ _ E) as [-> | ->]; [rewrite HI|rewrite HS]; eexists; split; reflexivity.
Qed.
