(* C19 lemmas, part 4: the retry discipline against ANY producer (arbitrary oracle).
   [disciplined att trace ending]: the trace is a sequence of bursts; a burst asks the same request
   again after every timeout, at most [att] times; a burst ends with Data (the fetch goes on), with an
   exception other than a timeout (the fetch ends right there with that exception) or with the
   [att]-th timeout (the fetch ends with a timeout). *)
From NDN Require Import Base.Prelude Model.TlvVar Model.Name Model.SegFetch Spec.SegFetchSpec.
From NDN Require Import Proofs.SegFetchBasics.
Local Open Scope nat_scope.

Definition tmo (rq : request) : event := EvAsk rq (RExc XTimeout).

Inductive disciplined (att : nat) : list event -> ending -> Prop :=
| D_done : disciplined att [] Completed
| D_fuel : disciplined att [] OutOfFuel
| D_py e : disciplined att [] (Raised (XPy e))
| D_yield c ev en : disciplined att ev en -> disciplined att (EvYield c :: ev) en
| D_data rq k nm c fb ev en :
    k < att -> disciplined att ev en ->
    disciplined att (repeat (tmo rq) k ++ EvAsk rq (RData nm c fb) :: ev) en
| D_exc rq k x :
    k < att -> x <> XTimeout ->
    disciplined att (repeat (tmo rq) k ++ [EvAsk rq (RExc x)]) (Raised x)
| D_timeout rq : disciplined att (repeat (tmo rq) att) (Raised XTimeout).

(* shape of one retry loop *)
Definition burst_shape (att : nat) (rq : request) (ev : list event) (res : exc + (name * bytes * option bytes)) : Prop :=
  match res with
  | inr (nm, c, fb) => exists k, k < att /\ ev = repeat (tmo rq) k ++ [EvAsk rq (RData nm c fb)]
  | inl XTimeout => ev = repeat (tmo rq) att
  | inl x => exists k, k < att /\ ev = repeat (tmo rq) k ++ [EvAsk rq (RExc x)]
  end.

Lemma retry_shape b : forall o rq,
  burst_shape (attempts_of b) rq (snd (fst (retry b o rq))) (snd (retry b o rq)).
Proof.
  induction b as [|b IH]; intros o rq.
  - cbn. destruct (o rq O) as [nm c fb|[| | | |]]; cbn; try reflexivity; exists 0; split; try lia; reflexivity.
  - destruct b as [|b'].
    + cbn. destruct (o rq O) as [nm c fb|[| | | |]]; cbn; try reflexivity; exists 0; split; try lia; reflexivity.
    + specialize (IH (shift o rq) rq). rewrite retry_SS.
      replace (attempts_of (Datatypes.S (Datatypes.S b'))) with (Datatypes.S (attempts_of (Datatypes.S b'))) by reflexivity.
      destruct (o rq O) as [nm c fb|[| | | |]] eqn:E0;
        try (cbn; exists 0; split; [lia|reflexivity]).
      destruct (retry (Datatypes.S b') (shift o rq) rq) as [[o2 ev] res]. cbn [fst snd] in *.
      fold (tmo rq). unfold burst_shape in *.
      destruct res as [[| | | |]|[[nm c] fb]].
      * rewrite IH. reflexivity.
      * destruct IH as (k & Hk & ->). exists (Datatypes.S k). split; [lia|reflexivity].
      * destruct IH as (k & Hk & ->). exists (Datatypes.S k). split; [lia|reflexivity].
      * destruct IH as (k & Hk & ->). exists (Datatypes.S k). split; [lia|reflexivity].
      * destruct IH as (k & Hk & ->). exists (Datatypes.S k). split; [lia|reflexivity].
      * destruct IH as (k & Hk & ->). exists (Datatypes.S k). split; [lia|reflexivity].
Qed.

Lemma shape_fail att rq ev x : burst_shape att rq ev (inl x) -> disciplined att ev (Raised x).
Proof.
  unfold burst_shape. destruct x.
  - intros ->. apply D_timeout.
  - intros (k & Hk & ->). apply D_exc; [exact Hk|discriminate].
  - intros (k & Hk & ->). apply D_exc; [exact Hk|discriminate].
  - intros (k & Hk & ->). apply D_exc; [exact Hk|discriminate].
  - intros (k & Hk & ->). apply D_exc; [exact Hk|discriminate].
Qed.

Lemma shape_data att rq ev nm c fb rest en :
  burst_shape att rq ev (inr (nm, c, fb)) -> disciplined att rest en -> disciplined att (ev ++ rest) en.
Proof.
  intros (k & Hk & ->) H. rewrite <- app_assoc. cbn [app]. apply D_data; assumption.
Qed.

Lemma seg_loop_disciplined cfg : forall fuel o nm seg_no,
  disciplined (attempts_of (retry_times cfg)) (fst (seg_loop fuel cfg o nm seg_no)) (snd (seg_loop fuel cfg o nm seg_no)).
Proof.
  induction fuel as [|f IH]; intros o nm seg_no; [apply D_fuel|]. cbn [seg_loop].
  destruct (comp_from_segment seg_no) as [c|e]; [|apply D_py].
  destruct (set_last nm c) as [nm1|e]; [|apply D_py].
  pose proof (retry_shape (retry_times cfg) o (mk_req cfg nm1 false)) as SH.
  destruct (retry (retry_times cfg) o (mk_req cfg nm1 false)) as [[o1 ev] r]. cbn [fst snd] in SH.
  destruct r as [x|[[nm2 content] fb]].
  - cbn [fst snd]. apply shape_fail with (rq := mk_req cfg nm1 false). exact SH.
  - destruct (last_comp nm2) as [lc|e].
    + destruct (fb_eq fb lc).
      * cbn [fst snd]. eapply shape_data; [exact SH|]. apply D_yield, D_done.
      * unfold after. cbn [fst snd]. rewrite <- app_assoc. eapply shape_data; [exact SH|].
        cbn [app]. apply D_yield. apply IH.
    + cbn [fst snd]. eapply shape_data; [exact SH|]. apply D_yield, D_py.
Qed.

Theorem fetcher_disciplined fuel cfg o nm0 :
  disciplined (attempts_of (retry_times cfg)) (fst (segment_fetcher fuel cfg o nm0)) (snd (segment_fetcher fuel cfg o nm0)).
Proof.
  unfold segment_fetcher.
  pose proof (retry_shape (retry_times cfg) o (mk_req cfg nm0 true)) as SH.
  destruct (retry (retry_times cfg) o (mk_req cfg nm0 true)) as [[o1 ev] r]. cbn [fst snd] in SH.
  destruct r as [x|[[nm content] fb]].
  - cbn [fst snd]. apply shape_fail with (rq := mk_req cfg nm0 true). exact SH.
  - assert (P : forall e, disciplined (attempts_of (retry_times cfg)) ev (Raised (XPy e))).
    { intros e. rewrite <- (app_nil_r ev). eapply shape_data; [exact SH|]. apply D_py. }
    destruct (last_comp nm) as [lc|e]; [|apply P].
    destruct (comp_get_type lc) as [t|e]; [|apply P].
    destruct (negb (t =? TYPE_SEGMENT)%N).
    + cbn [fst snd]. eapply shape_data; [exact SH|]. apply D_yield, D_done.
    + destruct (comp_to_number lc) as [num|e]; [|apply P].
      destruct (num =? 0)%N.
      * destruct (fb_eq fb lc).
        -- cbn [fst snd]. eapply shape_data; [exact SH|]. apply D_yield, D_done.
        -- unfold after. cbn [fst snd]. rewrite <- app_assoc. eapply shape_data; [exact SH|].
           cbn [app]. apply D_yield. apply seg_loop_disciplined.
      * unfold after. cbn [fst snd]. eapply shape_data; [exact SH|]. apply seg_loop_disciplined.
Qed.

(* consequences spelled out: an exception other than a timeout is the last event and is what the
   fetch raises; nothing is asked or yielded after it *)
Lemma disciplined_exc_last att ev en : disciplined att ev en ->
  forall pre rq x post, ev = pre ++ EvAsk rq (RExc x) :: post -> x <> XTimeout -> post = [] /\ en = Raised x.
Proof.
  induction 1 as [| | |c ev en H IH|rq k nm c fb ev en Hk H IH|rq k x0 Hk Hx|rq]; intros pre rq' x post E Hne.
  - destruct pre; discriminate.
  - destruct pre; discriminate.
  - destruct pre; discriminate.
  - destruct pre as [|p pre]; [discriminate|]. inversion E. eapply IH; eassumption.
  - revert pre E. induction k as [|k IHk]; intros pre E.
    + cbn in E. destruct pre as [|p pre]; [discriminate|]. inversion E. eapply IH; eassumption.
    + cbn in E. destruct pre as [|p pre].
      * inversion E. congruence.
      * inversion E. eapply IHk; [lia|eassumption].
  - revert pre E. induction k as [|k IHk]; intros pre E.
    + cbn in E. destruct pre as [|p pre].
      * inversion E. subst. split; reflexivity.
      * inversion E. destruct pre; discriminate.
    + cbn in E. destruct pre as [|p pre].
      * inversion E. congruence.
      * inversion E. eapply IHk; [lia|eassumption].
  - revert pre E. induction att as [|a IHa]; intros pre E.
    + destruct pre; discriminate.
    + cbn in E. destruct pre as [|p pre].
      * inversion E. congruence.
      * inversion E. eapply IHa. eassumption.
Qed.
