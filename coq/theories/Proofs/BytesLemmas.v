(* Big-endian number lemmas and list helpers used by all codec proofs. *)
From NDN Require Import Base.Prelude.
Local Open Scope N_scope.

Lemma be_to_N_acc (l : bytes) (a : N) :
  fold_left (fun a b => a * 256 + b) l a = a * 256 ^ N.of_nat (length l) + be_to_N l.
Proof.
  unfold be_to_N. revert a. induction l as [|b l IH]; intros a.
  - cbn. lia.
  - cbn [fold_left length]. rewrite IH, (IH (0 * 256 + b)).
    rewrite Nat2N.inj_succ, N.pow_succ_r'. lia.
Qed.

Lemma be_to_N_app (a b : bytes) :
  be_to_N (a ++ b) = be_to_N a * 256 ^ N.of_nat (length b) + be_to_N b.
Proof. unfold be_to_N at 1. rewrite fold_left_app. apply be_to_N_acc. Qed.

Lemma be_to_N_cons (x : N) (l : bytes) :
  be_to_N (x :: l) = x * 256 ^ N.of_nat (length l) + be_to_N l.
Proof. change (x :: l) with ([x] ++ l). rewrite be_to_N_app. cbn. lia. Qed.

Lemma be_to_N_single x : be_to_N [x] = x.
Proof. reflexivity. Qed.

Lemma N_to_be_length k v : length (N_to_be k v) = k.
Proof. revert v; induction k as [|k IH]; intros v; cbn; [reflexivity|]. rewrite app_length, IH. cbn. lia. Qed.

Lemma N_to_be_wf k v : wf_bytes (N_to_be k v).
Proof.
  revert v; induction k as [|k IH]; intros v; cbn; [constructor|].
  apply Forall_app. split; [apply IH|]. constructor; [|constructor]. apply N.mod_lt. lia.
Qed.

Lemma be_to_N_to_be k v : be_to_N (N_to_be k v) = v mod 256 ^ N.of_nat k.
Proof.
  revert v; induction k as [|k IH]; intros v.
  - cbn. rewrite N.mod_1_r. reflexivity.
  - cbn [N_to_be]. rewrite be_to_N_app, IH.
    replace (N.of_nat (length [v mod 256])) with 1 by reflexivity.
    rewrite N.pow_1_r, be_to_N_single.
    replace (N.of_nat (S k)) with (N.succ (N.of_nat k)) by lia.
    rewrite N.pow_succ_r'.
    set (P := 256 ^ N.of_nat k).
    assert (HP : P <> 0) by (unfold P; apply N.pow_nonzero; lia).
    rewrite N.mod_mul_r by lia.
    generalize ((v / 256) mod P) (v mod 256). intros a b. lia.
Qed.

Lemma be_to_N_to_be_small k v : v < 256 ^ N.of_nat k -> be_to_N (N_to_be k v) = v.
Proof. intros H. rewrite be_to_N_to_be. apply N.mod_small. exact H. Qed.

Lemma be_to_N_bound (l : bytes) : wf_bytes l -> be_to_N l < 256 ^ N.of_nat (length l).
Proof.
  induction l as [|x l IH] using rev_ind; intros H.
  - cbn. lia.
  - apply Forall_app in H. destruct H as [Hl Hx]. inversion Hx; subst.
    rewrite be_to_N_app, app_length.
    replace (N.of_nat (length [x])) with 1 by reflexivity.
    rewrite be_to_N_single, N.pow_1_r.
    replace (N.of_nat (length l + length [x])) with (N.succ (N.of_nat (length l))) by (cbn [length]; lia).
    rewrite N.pow_succ_r'.
    specialize (IH Hl). nia.
Qed.

Lemma N_to_be_be_to_N (l : bytes) : wf_bytes l -> N_to_be (length l) (be_to_N l) = l.
Proof.
  induction l as [|x l IH] using rev_ind; intros H; [reflexivity|].
  apply Forall_app in H. destruct H as [Hl Hx]. inversion Hx; subst.
  rewrite app_length. cbn [length]. rewrite Nat.add_1_r. cbn [N_to_be].
  rewrite be_to_N_app. replace (N.of_nat (length [x])) with 1 by reflexivity.
  rewrite be_to_N_single, N.pow_1_r.
  replace ((be_to_N l * 256 + x) / 256) with (be_to_N l) by (apply N.div_unique with x; lia).
  replace ((be_to_N l * 256 + x) mod 256) with x by (apply N.mod_unique with (be_to_N l); lia).
  rewrite IH by assumption. reflexivity.
Qed.

Lemma wf_bytes_app a b : wf_bytes (a ++ b) <-> wf_bytes a /\ wf_bytes b.
Proof. apply Forall_app. Qed.

Lemma wf_bytes_firstn n l : wf_bytes l -> wf_bytes (firstn n l).
Proof.
  intros H. unfold wf_bytes in *. rewrite Forall_forall in *. intros x Hx. apply H.
  rewrite <- (firstn_skipn n l). apply in_or_app. left. exact Hx.
Qed.

Lemma wf_bytes_skipn n l : wf_bytes l -> wf_bytes (skipn n l).
Proof.
  intros H. unfold wf_bytes in *. rewrite Forall_forall in *. intros x Hx. apply H.
  rewrite <- (firstn_skipn n l). apply in_or_app. right. exact Hx.
Qed.

Lemma wf_bytesb_spec l : wf_bytesb l = true <-> wf_bytes l.
Proof.
  unfold wf_bytesb, wf_bytes. rewrite forallb_forall, Forall_forall. unfold wf_byte.
  split; intros H x Hx; specialize (H x Hx); lia.
Qed.

Lemma firstn_app_exact {A} (a b : list A) : firstn (length a) (a ++ b) = a.
Proof. rewrite firstn_app, Nat.sub_diag, firstn_all. cbn. apply app_nil_r. Qed.

Lemma skipn_app_exact {A} (a b : list A) : skipn (length a) (a ++ b) = b.
Proof. rewrite skipn_app, Nat.sub_diag, skipn_all. reflexivity. Qed.

Lemma firstn_app_exact' {A} n (a b : list A) : n = length a -> firstn n (a ++ b) = a.
Proof. intros ->. apply firstn_app_exact. Qed.

Lemma skipn_app_exact' {A} n (a b : list A) : n = length a -> skipn n (a ++ b) = b.
Proof. intros ->. apply skipn_app_exact. Qed.
