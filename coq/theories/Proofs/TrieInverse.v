(* attach followed by detach of a free prefix gives back the very same table (structure included) *)
From NDN Require Import Base.Prelude Model.Name Model.Trie Model.Dispatch Spec.DispatchSpec
  Proofs.TrieProofs Proofs.DispatchProofs.

Section Inverse.
  Context {V : Type}.
  Notation trie := (trie V).

  Lemma ch_set_set (l : list (bytes * trie)) c s1 s2 : ch_set (ch_set l c s1) c s2 = ch_set l c s2.
  Proof.
    unfold ch_set. induction l as [|[d s] l IH]; cbn.
    - rewrite bytes_eqb_refl. reflexivity.
    - destruct (bytes_eqb c d) eqn:E; cbn; rewrite E; [reflexivity|]. rewrite IH. reflexivity.
  Qed.

  Lemma ch_set_same (l : list (bytes * trie)) c s : ch_get l c = Some s -> ch_set l c s = l.
  Proof.
    unfold ch_get, ch_set. induction l as [|[d s'] l IH]; cbn; [discriminate|].
    destruct (bytes_eqb c d) eqn:E.
    - intros H. inversion H; subst. reflexivity.
    - intros H. rewrite IH by exact H. reflexivity.
  Qed.

  Lemma ch_del_set_fresh (l : list (bytes * trie)) c s : ch_get l c = None -> ch_del (ch_set l c s) c = l.
  Proof.
    unfold ch_get, ch_set, ch_del. induction l as [|[d s'] l IH]; cbn.
    - rewrite bytes_eqb_refl. reflexivity.
    - destruct (bytes_eqb c d) eqn:E; [discriminate|]. intros H. cbn. rewrite E. cbn. rewrite IH by exact H. reflexivity.
  Qed.

  Lemma ch_ok_nonempty (l : list (bytes * trie)) c s : ch_ok l -> ch_get l c = Some s -> t_is_empty s = false.
  Proof.
    unfold ch_ok, ch_get. intros H. induction H as [|[d s'] l Hx H IH]; cbn; [discriminate|].
    destruct (bytes_eqb c d); [intros E; inversion E; subst; apply Hx|exact IH].
  Qed.

  Lemma t_set_node_twice (t : trie) k a o1 b :
    t_set_node (t_set_node t k a o1) k b false = t_set_node t k b false.
  Proof.
    revert t. induction k as [|c k IH]; intros t.
    - cbn. destruct (t_val t), o1; cbn; try reflexivity. destruct t as [[x|] l]; reflexivity.
    - cbn [t_set_node t_ch t_val]. rewrite ch_get_set_same, IH, ch_set_set. reflexivity.
  Qed.

  Theorem t_del_set_node (t : trie) k v oim :
    t_get t k = None -> t_pruned t = true -> t_del (t_set_node t k v oim) k = Ok t.
  Proof.
    revert t. induction k as [|c k IH]; intros t G P.
    - rewrite t_get_nil in G. destruct t as [x l]. cbn in G. subst x. reflexivity.
    - rewrite t_get_cons in G. cbn [t_set_node t_del t_ch t_val]. rewrite ch_get_set_same.
      apply t_pruned_ch in P. destruct t as [x l]. cbn [t_ch t_val] in *.
      destruct (ch_get l c) as [s|] eqn:Ec.
      + rewrite (IH s G (ch_ok_get _ _ _ P Ec)). cbn [bind]. rewrite (ch_ok_nonempty _ _ _ P Ec).
        rewrite ch_set_set, ch_set_same by exact Ec. reflexivity.
      + rewrite (IH t_empty (t_get_empty k) eq_refl). cbn [bind t_is_empty t_empty].
        rewrite ch_del_set_fresh by exact Ec. reflexivity.
  Qed.
End Inverse.

Theorem attach_detach_inverse fe (t : fib) k h v ex :
  t_get t k = None -> t_pruned t = true ->
  fib_detach (fst (fib_attach fe t k h v ex)) k = (t, Ok tt).
Proof.
  intros G P. unfold fib_attach, t_setdefault. rewrite G. cbn [pn_cb pnode0 fst].
  unfold fib_detach, t_set. rewrite t_set_node_twice. rewrite t_del_set_node by assumption. reflexivity.
Qed.

(* in the form exported by Properties/C04.v: from any reachable table *)
Theorem top_attach_detach_inverse fe ops k h v ex :
  Forall wf_op ops ->
  let t := s_fib (exec fe st0 ops) in
  attached t k = None ->
  fib_detach (fst (fib_attach fe t k h v ex)) k = (t, Ok tt).
Proof.
  intros W t H. apply attach_detach_inverse.
  - apply attached_none; [|exact H]. apply exec_all_cb; [exact W|apply all_cb_empty].
  - apply exec_pruned. reflexivity.
Qed.
