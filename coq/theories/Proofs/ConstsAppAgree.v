(* T1 tie for C04: the lifetime default reflected from ndn.appv2 on this run is the one the model
   (Model/Dispatch.v, deadline_of) uses. *)
From NDN Require Import Base.Prelude Model.Dispatch.
From NDN Require Generated.ConstsApp.
Local Open Scope N_scope.

Theorem default_lifetime_agree : Generated.ConstsApp.DEFAULT_LIFETIME = DEFAULT_LIFETIME.
Proof. reflexivity. Qed.

(* an Interest without InterestLifetime gets the same deadline as one carrying the default *)
Theorem deadline_default now :
  deadline_of FE_V2 None now = deadline_of FE_V2 (Some Generated.ConstsApp.DEFAULT_LIFETIME) now.
Proof. reflexivity. Qed.
