(* The signing graph Checker._sanity_check hands to compiler.top_order, and the verdict:
   on a model whose tree part is sane and whose node ids are their indices, the loader accepts iff the signing relation
   between reachable nodes has no cycle; otherwise it raises the schema error. *)
From NDN Require Import Base.Prelude Base.Text Model.LvsAst Model.LvsChecker Spec.LvsSem Proofs.LvsSanity Proofs.LvsTopOrder Proofs.LvsGenTree.
Local Open Scope N_scope.

Definition sedges (adj : list (option N * list N)) : list (option N * N) := flat_map (fun e => map (pair (fst e)) (snd e)) adj.

Lemma al_set_keys_some (adj : list (option N * list N)) k l l' : al_get optN_eqb adj k = Some l -> map fst (al_set optN_eqb adj k l') = map fst adj.
Proof.
  induction adj as [|[k0 v0] adj IH]; cbn; [discriminate|]. destruct (optN_eqb k k0); cbn; [reflexivity|]. intros H. rewrite IH by exact H. reflexivity.
Qed.

Lemma adj_append_keys adj k v : map fst (adj_append adj k v) = map fst adj.
Proof. unfold adj_append. destruct (al_get optN_eqb adj k) as [l|] eqn:E; [|reflexivity]. eapply al_set_keys_some; eauto. Qed.

Lemma al_set_edges (adj : list (option N * list N)) k l v : al_get optN_eqb adj k = Some l ->
  forall e, In e (sedges (al_set optN_eqb adj k (l ++ [v]))) <-> In e (sedges adj) \/ e = (k, v).
Proof.
  unfold sedges. induction adj as [|[k0 v0] adj IH]; cbn; [discriminate|]. destruct (optN_eqb k k0) eqn:Ek.
  - apply optN_eqb_eq in Ek. subst k0. intros H; inversion H; subst v0. intros e. cbn. rewrite map_app, !in_app_iff. cbn. split; [intros [[H1|[H1|[]]]|H1]; auto | intros [[H1|H1]|H1]; auto; subst e; auto].
  - intros H e. cbn. rewrite !in_app_iff, (IH H e). tauto.
Qed.

Lemma adj_append_edges adj k v e : In e (sedges (adj_append adj k v)) -> In e (sedges adj) \/ e = (k, v).
Proof. unfold adj_append. destruct (al_get optN_eqb adj k) as [l|] eqn:E; [apply al_set_edges; exact E | auto]. Qed.

Lemma adj_append_mono adj k v e : In e (sedges adj) -> In e (sedges (adj_append adj k v)).
Proof. unfold adj_append. destruct (al_get optN_eqb adj k) as [l|] eqn:E; [intros H; apply (al_set_edges _ _ _ _ E); auto | auto]. Qed.

Lemma al_get_some_of_key (adj : list (option N * list N)) k : In k (map fst adj) -> exists l, al_get optN_eqb adj k = Some l.
Proof.
  induction adj as [|[k0 v0] adj IH]; cbn; [intros []|]. destruct (optN_eqb k k0) eqn:Ek; [eauto|]. intros [->|H]; [|auto].
  rewrite (proj2 (optN_eqb_eq _ _) eq_refl) in Ek. discriminate.
Qed.

Lemma adj_append_new adj k v : In k (map fst adj) -> In (k, v) (sedges (adj_append adj k v)).
Proof. intros H. destruct (al_get_some_of_key adj k H) as (l & E). unfold adj_append. rewrite E. apply (al_set_edges _ _ _ _ E). auto. Qed.

(* ---- how an accumulator evolves ---------------------------------------------------------------------------------------- *)
Record adj_rel (P : option N -> N -> Prop) (a a' : sacc) : Prop := {
  ar_keys : map fst (sa_adj a') = map fst (sa_adj a);
  ar_mono : forall e, In e (sedges (sa_adj a)) -> In e (sedges (sa_adj a'));
  ar_sound : forall x k, In (x, k) (sedges (sa_adj a')) -> In (x, k) (sedges (sa_adj a)) \/ P x k
}.
Definition req (Q : option N -> N -> Prop) (a a' : sacc) : Prop :=
  forall x k, Q x k -> In x (map fst (sa_adj a)) -> In (x, k) (sedges (sa_adj a')).

Lemma adj_rel_refl P a : adj_rel P a a.
Proof. constructor; auto. Qed.
Lemma adj_rel_trans P a a1 a2 : adj_rel P a a1 -> adj_rel P a1 a2 -> adj_rel P a a2.
Proof.
  intros [K1 M1 S1] [K2 M2 S2]. constructor; [congruence | auto |].
  intros x k H. destruct (S2 x k H) as [H1|H1]; [apply S1, H1 | auto].
Qed.
Lemma adj_rel_weaken (P P' : option N -> N -> Prop) a a' : (forall x k, P x k -> P' x k) -> adj_rel P a a' -> adj_rel P' a a'.
Proof. intros HP [K M S]. constructor; auto. intros x k H. destruct (S x k H); auto. Qed.
Lemma req_after P Q a a1 a2 : req Q a a1 -> adj_rel P a1 a2 -> req Q a a2.
Proof. intros HQ [_ M _] x k Hq Hx. apply M, HQ; auto. Qed.
Lemma req_before P Q a a1 a2 : adj_rel P a a1 -> req Q a1 a2 -> req Q a a2.
Proof. intros [K _ _] HQ x k Hq Hx. apply HQ; [exact Hq | rewrite K; exact Hx]. Qed.

Lemma rfold_adj {B} (f : sacc -> B -> res sacc) (P : option N -> N -> Prop) (Q : B -> option N -> N -> Prop) : forall l a a',
  (forall b, In b l -> forall a1 a2, f a1 b = Ok a2 -> adj_rel P a1 a2 /\ req (Q b) a1 a2) ->
  rfold f l a = Ok a' -> adj_rel P a a' /\ forall b, In b l -> req (Q b) a a'.
Proof.
  induction l as [|b l IH]; intros a a' Hf H; cbn [rfold] in H.
  - inversion H; subst. split; [apply adj_rel_refl | intros b []].
  - destruct (f a b) as [a1|] eqn:E; cbn [bind] in H; [|discriminate].
    destruct (Hf b (or_introl eq_refl) a a1 E) as [R1 Q1].
    destruct (IH a1 a' (fun b0 Hb0 => Hf b0 (or_intror Hb0)) H) as [R2 Q2].
    split; [eapply adj_rel_trans; eauto|]. intros b0 [<-|Hb0]; [eapply req_after; eauto | eapply req_before; eauto].
Qed.

Lemma check_option_adj a op a' : check_option a op = Ok a' -> sa_adj a' = sa_adj a.
Proof.
  unfold check_option. destruct (negb (opt_shape_ok op)); [discriminate|]. destruct (co_fn op) as [fn|]; [|intros H; inversion H; reflexivity].
  destruct (uf_id fn) as [[|c s]|]; try discriminate. intros H; inversion H; reflexivity.
Qed.

Lemma check_options_adj : forall conss a a', rfold (fun a cons => rfold check_option cons a) conss a = Ok a' -> sa_adj a' = sa_adj a.
Proof.
  assert (G : forall cons a a', rfold check_option cons a = Ok a' -> sa_adj a' = sa_adj a).
  { induction cons as [|op cons IH]; intros a a' H; cbn [rfold] in H; [inversion H; reflexivity|].
    destruct (check_option a op) as [a1|] eqn:E; cbn [bind] in H; [|discriminate]. rewrite (IH _ _ H). eapply check_option_adj; eauto. }
  induction conss as [|cons conss IH]; intros a a' H; cbn [rfold] in H; [inversion H; reflexivity|].
  destruct (rfold check_option cons a) as [a1|] eqn:E; cbn [bind] in H; [|discriminate]. rewrite (IH _ _ H). eapply G; eauto.
Qed.

(* ---- dfs ------------------------------------------------------------------------------------------------------------------- *)
Definition own (m : lvsmodel) (cur : N) (x : option N) (k : N) : Prop :=
  exists i nd, x = Some i /\ reach_from m cur i /\ get_node m i = Some nd /\ In k (n_sign nd).

Lemma dfs_adj m : forall fuel cur par a a', dfs fuel m cur par a = Ok a' -> adj_rel (own m cur) a a' /\ req (own m cur) a a'.
Proof.
  induction fuel as [|f IH]; intros cur par a a' H; [discriminate|]. cbn [dfs] in H.
  destruct (get_node m cur) as [nd|] eqn:En; [|discriminate].
  destruct (optN_eqb (n_id nd) (Some cur)) eqn:Eid; cbn [negb] in H; [|discriminate].
  destruct (optN_eqb (n_parent nd) par) eqn:Epar; cbn [negb] in H; [|discriminate].
  destruct (rfold _ (n_vedges nd) a) as [a1|] eqn:Ev; [|discriminate]. cbn [bind] in H.
  destruct (rfold _ (n_pedges nd) a1) as [a2|] eqn:Ep; [|discriminate]. cbn [bind] in H.
  assert (Hchild : forall d, In (Some d) (dests nd) -> forall x k, own m d x k -> own m cur x k).
  { intros d Hd x k (i & ndi & -> & Hr & Hg & Hk). exists i, ndi. split; [reflexivity|]. split; [eapply reach_from_step; eauto | auto]. }
  (* value edges *)
  assert (Hv : forall ve, In ve (n_vedges nd) -> forall a1' a2',
            match ve_dest ve with
            | Some d => if nonempty (ve_value ve) then dfs f m d (Some cur) a1' else Err ELvsModel
            | None => Err ELvsModel
            end = Ok a2' -> adj_rel (own m cur) a1' a2' /\ req (fun x k => exists d, ve_dest ve = Some d /\ own m d x k) a1' a2').
  { intros ve Hve a1' a2' Hx. destruct (ve_dest ve) as [d|] eqn:Ed; [|discriminate].
    destruct (nonempty (ve_value ve)); [|discriminate]. destruct (IH _ _ _ _ Hx) as [R Q]. split.
    - apply (adj_rel_weaken (own m d)); [|exact R]. apply Hchild. unfold dests. apply in_or_app. left. apply in_map_iff. exists ve. auto.
    - intros x k (d0 & E0 & Ho) Hx0. inversion E0; subst d0. apply Q; auto. }
  destruct (rfold_adj _ (own m cur) (fun ve x k => exists d, ve_dest ve = Some d /\ own m d x k) _ _ _ Hv Ev) as [Rv Qv].
  (* pattern edges *)
  assert (Hp : forall pe, In pe (n_pedges nd) -> forall a1' a2',
            match pe_dest pe, pe_tag pe with
            | Some d, Some _ => do a' <- dfs f m d (Some cur) a1' ;; rfold (fun a cons => rfold check_option cons a) (pe_cons pe) a'
            | _, _ => Err ELvsModel
            end = Ok a2' -> adj_rel (own m cur) a1' a2' /\ req (fun x k => exists d, pe_dest pe = Some d /\ own m d x k) a1' a2').
  { intros pe Hpe a1' a2' Hx. destruct (pe_dest pe) as [d|] eqn:Ed; [|discriminate]. destruct (pe_tag pe) as [t|]; [|discriminate].
    destruct (dfs f m d (Some cur) a1') as [a3|] eqn:Edfs; [|discriminate]. cbn [bind] in Hx.
    destruct (IH _ _ _ _ Edfs) as [R Q]. pose proof (check_options_adj _ _ _ Hx) as Eadj. split.
    - apply (adj_rel_weaken (own m d)); [apply Hchild; unfold dests; apply in_or_app; right; apply in_map_iff; exists pe; auto|].
      destruct R as [K M S]. constructor; rewrite Eadj; assumption.
    - intros x k (d0 & E0 & Ho) Hx0. inversion E0; subst d0. rewrite Eadj. apply Q; auto. }
  destruct (rfold_adj _ (own m cur) (fun pe x k => exists d, pe_dest pe = Some d /\ own m d x k) _ _ _ Hp Ep) as [Rp Qp].
  (* signers *)
  assert (Hs : forall k0, In k0 (n_sign nd) -> forall a1' a2', check_signer (N.of_nat (length (m_nodes m))) cur a1' k0 = Ok a2' ->
            adj_rel (own m cur) a1' a2' /\ req (fun x k => x = Some cur /\ k = k0) a1' a2').
  { intros k0 Hk0 a1' a2' Hx. unfold check_signer in Hx. destruct (N.of_nat (length (m_nodes m)) <=? k0); [discriminate|]. inversion Hx; subst a2'. split.
    - constructor; cbn [sa_adj]; [apply adj_append_keys | intros e He; apply adj_append_mono, He|].
      intros x k Hin. apply adj_append_edges in Hin. destruct Hin as [Hin|Hin]; [left; exact Hin|]. right. inversion Hin; subst.
      exists cur, nd. split; [reflexivity|]. split; [apply rf_refl | auto].
    - intros x k [-> ->] Hx0. cbn [sa_adj]. apply adj_append_new, Hx0. }
  destruct (rfold_adj _ (own m cur) (fun k0 x k => x = Some cur /\ k = k0) _ _ _ Hs H) as [Rs Qs].
  split; [eapply adj_rel_trans; [eapply adj_rel_trans; eauto | exact Rs]|].
  intros x k (i & ndi & -> & Hr & Hg & Hk) Hx. apply reach_from_inv in Hr. destruct Hr as [->|(nd0 & d & Hn0 & Hd & Hr)].
  - rewrite En in Hg. inversion Hg; subst ndi.
    exact (req_before (own m cur) (fun x k0 => x = Some cur /\ k0 = k) a a2 a' (adj_rel_trans _ _ _ _ Rv Rp) (Qs k Hk) (Some cur) k (conj eq_refl eq_refl) Hx).
  - rewrite En in Hn0. inversion Hn0; subst nd0. assert (Ho : own m d (Some i) k) by (exists i, ndi; auto).
    unfold dests in Hd. apply in_app_or in Hd. destruct Hd as [Hd|Hd]; apply in_map_iff in Hd; destruct Hd as (e & He & Hin).
    + apply (ar_mono _ _ _ Rs), (ar_mono _ _ _ Rp). apply (Qv e Hin (Some i) k); [exists d; auto | exact Hx].
    + apply (ar_mono _ _ _ Rs). apply (req_before (own m cur) (fun x k0 => exists d0, pe_dest e = Some d0 /\ own m d0 x k0) a a1 a2 Rv (Qp e Hin) (Some i) k); [exists d; auto | exact Hx].
Qed.

(* ---- the verdict of the loader ------------------------------------------------------------------------------------------------ *)
From NDN Require Import Proofs.LvsSortRules Proofs.LvsFlatten.

Definition ids_ok (m : lvsmodel) : Prop := forall i nd, get_node m i = Some nd -> n_id nd = Some i.

Fixpoint oidx (x : option N) (l : list (option N)) : nat :=
  match l with [] => O | y :: r => if optN_eqb x y then O else Datatypes.S (oidx x r) end.

Lemma optN_eqb_neq a b : a <> b -> optN_eqb a b = false.
Proof. intros H. destruct (optN_eqb a b) eqn:E; [apply optN_eqb_eq in E; contradiction | reflexivity]. Qed.

Lemma oidx_app_notin x a b : ~ In x a -> oidx x (a ++ b) = (length a + oidx x b)%nat.
Proof.
  induction a as [|y a IH]; intros H; cbn; [reflexivity|]. rewrite optN_eqb_neq by (intros ->; apply H; left; reflexivity).
  rewrite IH; [reflexivity|]. intros Hx. apply H. right. exact Hx.
Qed.

Lemma nodup_app_left {A} (a b : list A) x : NoDup (a ++ b) -> In x b -> ~ In x a.
Proof.
  induction a as [|y a IH]; intros Hnd Hb; [auto|]. cbn in Hnd. inversion Hnd; subst. intros [->|Ha].
  - apply H1. apply in_or_app. right. exact Hb.
  - eapply IH; eauto.
Qed.

Lemma oidx_before l1 b l2 a : NoDup (l1 ++ b :: l2) -> In a l2 -> (oidx b (l1 ++ b :: l2) < oidx a (l1 ++ b :: l2))%nat.
Proof.
  intros Hnd Ha.
  assert (Hn1 : ~ In b l1) by (eapply nodup_app_left; [exact Hnd | left; reflexivity]).
  assert (Hn2 : ~ In a l1) by (eapply nodup_app_left; [exact Hnd | right; exact Ha]).
  assert (Hn3 : a <> b) by (intros E; apply NoDup_remove_2 in Hnd; apply Hnd; apply in_or_app; right; rewrite <- E; exact Ha).
  rewrite !oidx_app_notin by assumption. cbn [oidx]. rewrite (proj2 (optN_eqb_eq b b) eq_refl), (optN_eqb_neq _ _ Hn3). lia.
Qed.

Lemma in_gedges_map (adj : list (option N * list N)) x y :
  In (x, y) (gedges (map (fun e => (fst e, map Some (snd e))) adj)) <-> exists k, y = Some k /\ In (x, k) (sedges adj).
Proof.
  unfold gedges, sedges. rewrite in_flat_map. split.
  - intros (e & He & Hin). apply in_map_iff in He. destruct He as ([k0 l0] & <- & He). cbn [fst snd] in Hin.
    apply in_map_iff in Hin. destruct Hin as (y0 & E & Hy0). apply in_map_iff in Hy0. destruct Hy0 as (k & <- & Hk). inversion E; subst.
    exists k. split; [reflexivity|]. apply in_flat_map. exists (x, l0). split; [exact He|]. cbn. apply in_map. exact Hk.
  - intros (k & -> & Hin). apply in_flat_map in Hin. destruct Hin as ([k0 l0] & He & Hin). cbn [fst snd] in Hin. apply in_map_iff in Hin.
    destruct Hin as (k1 & E & Hk1). inversion E; subst. exists (x, map Some l0). split; [apply in_map_iff; exists (x, l0); auto|].
    cbn. apply in_map. apply in_map. exact Hk1.
Qed.

Lemma sedges_zero (ids : list (option N)) : sedges (map (fun i => (i, [])) ids) = [].
Proof. unfold sedges. induction ids as [|i l IH]; cbn; auto. Qed.

Section Verdict.
  Variable m : lvsmodel.
  Hypothesis Hsane : sane m.
  Hypothesis Hids : ids_ok m.
  Let nodes := dedup optN_eqb (map n_id (m_nodes m)).

  Lemma get_node_in i nd : get_node m i = Some nd -> In nd (m_nodes m).
  Proof. unfold get_node. destruct (i <? N.of_nat (length (m_nodes m))); [|discriminate]. apply nth_error_In. Qed.

  Lemma get_node_some k : k < N.of_nat (length (m_nodes m)) -> exists nd, get_node m k = Some nd.
  Proof.
    intros H. unfold get_node. destruct (N.ltb_spec k (N.of_nat (length (m_nodes m)))); [|lia].
    destruct (nth_error (m_nodes m) (N.to_nat k)) as [nd|] eqn:E; [eauto|]. apply nth_error_None in E. lia.
  Qed.

  Lemma node_in i nd : get_node m i = Some nd -> In (Some i) nodes.
  Proof.
    intros H. unfold nodes. apply (in_dedup _ optN_eqb_eq). apply in_map_iff. exists nd. split; [apply Hids, H | eapply get_node_in; eauto].
  Qed.

  Lemma nodes_some x : In x nodes -> exists i, x = Some i.
  Proof.
    intros H. unfold nodes in H. apply (proj1 (in_dedup _ optN_eqb_eq _ _)) in H. apply in_map_iff in H. destruct H as (nd & <- & Hnd).
    apply In_nth_error in Hnd. destruct Hnd as (n & Hn).
    assert (Hlt : (n < length (m_nodes m))%nat) by (apply nth_error_Some; congruence).
    exists (N.of_nat n). apply Hids. rewrite get_node_nat by exact Hlt. exact Hn.
  Qed.

  Lemma nodes_sortable l : (forall x, In x l -> In x nodes) -> ids_sortable l = true.
  Proof.
    intros H. unfold ids_sortable. destruct l as [|a [|b l]]; auto. apply forallb_forall. intros x Hx. destruct (nodes_some x (H x Hx)) as (i & ->). reflexivity.
  Qed.

  Lemma signer_in_range i nd k : reach m i -> get_node m i = Some nd -> In k (n_sign nd) -> k < N.of_nat (length (m_nodes m)).
  Proof.
    intros Hr Hg Hk. destruct Hsane as (_ & _ & Hall). specialize (Hall i Hr). unfold node_ok in Hall. rewrite Hg in Hall.
    apply andb_true_iff in Hall. destruct Hall as [_ Hs]. rewrite forallb_forall in Hs. apply N.ltb_lt. apply Hs, Hk.
  Qed.

  Theorem loader_verdict :
    ((exists r, sanity_check (sanity_fuel m) m = Ok r) <-> sign_acyclic m) /\
    (forall e, sanity_check (sanity_fuel m) m = Err e -> e = ESemantic).
  Proof.
    destruct (sanity_check_sane m Hsane) as (s & a & Hs & Hdfs & Hpass & Hfail).
    destruct (dfs_adj m _ _ _ _ _ Hdfs) as [[Hkeys Hmono Hsound] Hreq]. unfold req in Hreq. cbn [sa_adj] in Hkeys, Hsound, Hreq.
    rewrite sedges_zero in Hsound. rewrite map_map in Hkeys, Hreq. cbn [fst] in Hkeys, Hreq. rewrite map_id in Hkeys, Hreq. fold nodes in Hkeys, Hreq.
    set (graph := map (fun e => (fst e, map Some (snd e))) (sa_adj a)) in *.
    assert (Hgk : map fst graph = nodes) by (unfold graph; rewrite map_map; cbn [fst]; exact Hkeys).
    assert (Hnd : NoDup nodes) by apply (nodup_dedup optN_eqb optN_eqb_eq).
    assert (Hreach : forall i, reach m i <-> reach_from m s i).
    { intros i. rewrite reach_iff_from. split; [intros (s' & Hs' & Hr); rewrite Hs in Hs'; inversion Hs'; subst; exact Hr | intros Hr; exists s; auto]. }
    assert (Hedge_fwd : forall x y, In (x, y) (gedges graph) -> exists i nd k, x = Some i /\ y = Some k /\ reach m i /\ get_node m i = Some nd /\ In k (n_sign nd)).
    { intros x y Hin. apply in_gedges_map in Hin. destruct Hin as (k & -> & Hin). destruct (Hsound x k Hin) as [[]|(i & nd & -> & Hr & Hg & Hk)].
      exists i, nd, k. repeat split; auto. apply Hreach, Hr. }
    assert (Hedge_bwd : forall i nd k, reach m i -> get_node m i = Some nd -> In k (n_sign nd) -> In (Some i, Some k) (gedges graph)).
    { intros i nd k Hr Hg Hk. apply in_gedges_map. exists k. split; [reflexivity|]. apply Hreq; [|eapply node_in; eauto].
      exists i, nd. split; [reflexivity|]. split; [apply Hreach, Hr | auto]. }
    assert (Hclosed : closed_in nodes graph).
    { intros x y Hin. destruct (Hedge_fwd x y Hin) as (i & nd & k & -> & -> & Hr & Hg & Hk). split; [eapply node_in; eauto|].
      destruct (get_node_some k (signer_in_range i nd k Hr Hg Hk)) as (ndk & Hgk'). eapply node_in; eauto. }
    pose proof (top_order_spec optN_eqb optN_leb ids_sortable optN_eqb_eq nodes graph Hnd Hgk nodes_sortable) as Hspec.
    unfold sign_graph_passes in Hpass, Hfail. fold nodes in Hpass, Hfail. fold graph in Hpass, Hfail.
    destruct (top_order optN_eqb optN_leb ids_sortable nodes graph) as [o|e0] eqn:Et.
    - destruct Hspec as (_ & Hndo & Hino & Hbefore).
      assert (Hac : sign_acyclic m).
      { exists (fun i => oidx (Some i) o). intros i nd k Hr Hg Hk. pose proof (Hedge_bwd i nd k Hr Hg Hk) as He.
        destruct (Hclosed _ _ He) as [_ Hkn]. apply (proj2 (Hino _)) in Hkn. apply in_split in Hkn. destruct Hkn as (l1 & l2 & Eo).
        pose proof (Hbefore _ _ l1 l2 He Eo) as Hi2. rewrite Eo in Hndo |- *. apply oidx_before; assumption. }
      destruct (Hpass (ex_intro _ o eq_refl)) as (r & Hr). split; [split; [intros _; exact Hac | intros _; eauto]|].
      intros e He. rewrite Hr in He. discriminate.
    - assert (Hnac : ~ sign_acyclic m).
      { intros (rank & Hrank).
        destruct (top_order_complete optN_eqb optN_leb ids_sortable optN_eqb_eq nodes graph Hnd Hgk nodes_sortable
                    (fun x => match x with Some i => rank i | None => O end) Hclosed) as (o & Ho).
        - intros x y Hin. destruct (Hedge_fwd x y Hin) as (i & nd & k & -> & -> & Hr & Hg & Hk). eapply Hrank; eauto.
        - rewrite Et in Ho. discriminate. }
      assert (Herr : sanity_check (sanity_fuel m) m = Err e0).
      { destruct Hsane as (Hv & _ & _). unfold sanity_check. rewrite version_ok_supported, Hv, Hs. cbn [negb]. rewrite Hdfs. cbn [bind].
        fold nodes. fold graph. rewrite Et. reflexivity. }
      split; [split; [intros (r & Hr); rewrite Herr in Hr; discriminate | intros H; contradiction]|].
      intros e He. rewrite Herr in He. injection He as <-. exact Hspec.
  Qed.
End Verdict.
