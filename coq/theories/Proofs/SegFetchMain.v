(* C19: the statements of Properties/C19.v, about the model, in the words of the property. *)
From NDN Require Import Base.Prelude Model.TlvVar Model.Name Model.SegFetch Spec.SegFetchSpec.
From NDN Require Import Proofs.SegFetchBasics Proofs.SegFetchRefine Proofs.SegFetchHeadline Proofs.SegFetchAsks.
Local Open Scope nat_scope.

Definition fetch (fuel : nat) (cfg : config) (S : scenario) : list bytes * ending :=
  observe (segment_fetcher fuel cfg (oracle_of S) (prefix S)).

Theorem fetch_refines S cfg fuel :
  wf_scenario S -> nseg (obj S) < fuel -> fetch fuel cfg S = expected S (retry_times cfg).
Proof. intros HW Hf. exact (seg_fetch_refines S cfg (proj1 HW) HW fuel Hf). Qed.

Theorem fetch_in_order_once S cfg fuel :
  wf_scenario S -> marked S -> nseg (obj S) < fuel ->
  (forall k, needed S k -> tolerable_explicit S (retry_times cfg) k) ->
  fetch fuel cfg S = (all_contents S, Completed).
Proof.
  intros HW HM Hf HT. rewrite fetch_refines by assumption.
  apply expected_all_tolerable; try assumption. intros k Hk. apply tolerable_iff. apply HT. exact Hk.
Qed.

Theorem fetch_completes_iff S cfg fuel :
  wf_scenario S -> marked S -> nseg (obj S) < fuel ->
  (snd (fetch fuel cfg S) = Completed <-> forall k, needed S k -> tolerable_explicit S (retry_times cfg) k).
Proof.
  intros HW HM Hf. rewrite fetch_refines by assumption.
  rewrite (completes_iff_all_tolerable S (retry_times cfg) HW HM).
  split; intros H k Hk; apply tolerable_iff; apply H; exact Hk.
Qed.

Theorem fetch_timeout_iff S cfg fuel :
  wf_scenario S -> marked S -> nseg (obj S) < fuel -> no_faults S ->
  (snd (fetch fuel cfg S) = Raised XTimeout <-> exists k, needed S k /\ exhausted S (retry_times cfg) k).
Proof.
  intros HW HM Hf NF. rewrite fetch_refines by assumption.
  exact (timeout_iff_exhausted S (retry_times cfg) HW HM NF).
Qed.

Theorem fetch_timeout_after_earlier S cfg fuel k :
  wf_scenario S -> marked S -> nseg (obj S) < fuel ->
  needed S k -> (forall k', needed S k' -> before k' k -> tolerable_explicit S (retry_times cfg) k') ->
  exhausted S (retry_times cfg) k ->
  fetch fuel cfg S = (contents_before S k, Raised XTimeout).
Proof.
  intros HW HM Hf Hk Hpre He. rewrite fetch_refines by assumption.
  apply exhausted_iff in He.
  rewrite (expected_first_failure S (retry_times cfg) HM k Hk).
  - rewrite He. reflexivity.
  - intros k' Hn Hb. apply tolerable_iff. apply Hpre; assumption.
  - unfold tolerable. congruence.
Qed.

(* the first Interest of a key that is not lost is nacked / fails validation *)
Definition fails_with (S : scenario) (retry : nat) (k : key) (x : exc) : Prop :=
  exists j, j < attempts_of retry /\ (forall j', j' < j -> fate_of S k j' = Lost) /\
            ((fate_of S k j = Nacked /\ x = XNack) \/ (fate_of S k j = Invalid /\ x = XValFail)).

Lemma burst_failed f att x : forall n,
  (exists j, j < att /\ (forall j', j' < j -> f (n + j') = Lost) /\
             ((f (n + j) = Nacked /\ x = XNack) \/ (f (n + j) = Invalid /\ x = XValFail))) ->
  burst f n att = KFailed x.
Proof.
  induction att as [|a IH]; intros n (j & Hj & HL & HF); [lia|]. cbn [burst].
  destruct j as [|j].
  - rewrite Nat.add_0_r in HF. destruct HF as [[-> ->]|[-> ->]]; reflexivity.
  - rewrite <- (Nat.add_0_r n) at 1. rewrite (HL 0) by lia. apply IH. exists j. split; [lia|]. split.
    + intros j' Hj'. rewrite <- (HL (Datatypes.S j')) by lia. f_equal. lia.
    + replace (Datatypes.S n + j) with (n + Datatypes.S j) by lia. exact HF.
Qed.

Theorem fetch_errors_propagate S cfg fuel k x :
  wf_scenario S -> marked S -> nseg (obj S) < fuel ->
  needed S k -> (forall k', needed S k' -> before k' k -> tolerable_explicit S (retry_times cfg) k') ->
  fails_with S (retry_times cfg) k x ->
  fetch fuel cfg S = (contents_before S k, Raised x).
Proof.
  intros HW HM Hf Hk Hpre HF. rewrite fetch_refines by assumption.
  assert (E : result_of S (retry_times cfg) k = KFailed x) by (apply burst_failed; exact HF).
  rewrite (expected_first_failure S (retry_times cfg) HM k Hk).
  - rewrite E. reflexivity.
  - intros k' Hn Hb. apply tolerable_iff. apply Hpre; assumption.
  - unfold tolerable. congruence.
Qed.

(* no segment designates itself final: every published segment is delivered, then the fetch asks for
   a segment that does not exist and ends with a timeout *)
Lemma walk_unmarked S retry : forall len i,
  (forall t, i <= t < i + len -> result_of S retry (KSeg t) = KAnswered /\ is_final (obj S) t = false) ->
  walk S retry (seq i len) = (map (content (obj S)) (seq i len), Raised XTimeout).
Proof.
  induction len as [|len IH]; intros i H; [reflexivity|]. cbn [seq walk map].
  destruct (H i ltac:(lia)) as [A F]. rewrite A, F, IH; [reflexivity|]. intros t Ht. apply H. lia.
Qed.

Theorem fetch_unmarked S cfg fuel k :
  wf_scenario S -> disc S = DSeg k -> nseg (obj S) < fuel ->
  (forall i, i < nseg (obj S) -> is_final (obj S) i = false) ->
  (forall k, needed S k -> tolerable_explicit S (retry_times cfg) k) ->
  fetch fuel cfg S = (all_contents S, Raised XTimeout).
Proof.
  intros HW ED Hf HU HT. rewrite fetch_refines by assumption.
  assert (HT' : forall k, needed S k -> result_of S (retry_times cfg) k = KAnswered)
    by (intros k' Hk; apply tolerable_iff, HT, Hk).
  unfold expected, all_contents. rewrite (HT' KDisc I).
  destruct HW as [_ HD]. unfold needed, first_needed in HT'. rewrite ED in *.
  destruct k as [|k'].
  - rewrite HU by lia. rewrite walk_unmarked.
    + rewrite (seq_S_head (nseg (obj S))) by lia. reflexivity.
    + intros t Ht. split; [apply (HT' (KSeg t)); lia | apply HU; lia].
  - rewrite walk_unmarked; [reflexivity|].
    intros t Ht. split; [apply (HT' (KSeg t)); lia | apply HU; lia].
Qed.

(* ---- the Interests the producer sees ------------------------------------------------------------ *)

Definition interests (fuel : nat) (cfg : config) (S : scenario) : list request :=
  asked (fst (segment_fetcher fuel cfg (oracle_of S) (prefix S))).

Theorem fetch_asks S cfg fuel :
  wf_scenario S -> nseg (obj S) < fuel -> interests fuel cfg S = expected_asks S cfg.
Proof. intros HW Hf. exact (seg_fetch_asks S cfg (proj1 HW) HW fuel Hf). Qed.

Lemma walk_asks_complete S cfg : forall len i,
  1 <= len ->
  (forall t, i <= t < i + len -> result_of S (retry_times cfg) (KSeg t) = KAnswered) ->
  (forall t, i <= t < i + len - 1 -> is_final (obj S) t = false) ->
  is_final (obj S) (i + len - 1) = true ->
  walk_asks S cfg i len = flat_map (fun t => asks_for S cfg (KSeg t) (seg_req S cfg t)) (seq i len).
Proof.
  induction len as [|len IH]; intros i H1 HA HF HL; [lia|].
  cbn [seq walk_asks flat_map]. rewrite (HA i) by lia. destruct len as [|len'].
  - replace (i + 1 - 1) with i in HL by lia. rewrite HL. reflexivity.
  - rewrite (HF i) by lia. f_equal. apply (IH (Datatypes.S i)).
    + lia.
    + intros t Ht. apply HA. lia.
    + intros t Ht. apply HF. lia.
    + rewrite <- HL. f_equal. lia.
Qed.

(* every needed key, in order, receives its Interests (one more than the number of initial losses) and
   nothing else is ever asked: no segment is skipped, none is fetched twice *)
Theorem fetch_asks_in_order S cfg fuel k :
  wf_scenario S -> disc S = DSeg k -> well_marked (obj S) -> nseg (obj S) < fuel ->
  (forall k, needed S k -> tolerable_explicit S (retry_times cfg) k) ->
  interests fuel cfg S =
    asks_for S cfg KDisc (disc_req S cfg) ++
    flat_map (fun t => asks_for S cfg (KSeg t) (seg_req S cfg t)) (seq (first_needed S) (nseg (obj S) - first_needed S)).
Proof.
  intros HW ED (M1 & M2 & M3) Hf HT. rewrite fetch_asks by assumption.
  assert (HT' : forall k, needed S k -> result_of S (retry_times cfg) k = KAnswered)
    by (intros k' Hk; apply tolerable_iff, HT, Hk).
  unfold expected_asks. rewrite (HT' KDisc I). f_equal.
  unfold needed, first_needed in *. rewrite ED in *. destruct k as [|k'].
  - destruct (is_final (obj S) 0) eqn:F0.
    + assert (nseg (obj S) = 1).
      { destruct (Nat.eq_dec (nseg (obj S)) 1) as [E|E]; [exact E|]. rewrite M3 in F0 by lia. discriminate. }
      rewrite H. reflexivity.
    + assert (2 <= nseg (obj S)).
      { destruct (Nat.eq_dec (nseg (obj S)) 1) as [E|E]; [|lia]. rewrite E in M2. cbn in M2. congruence. }
      apply walk_asks_complete.
      * lia.
      * intros t Ht. apply (HT' (KSeg t)). lia.
      * intros t Ht. apply M3. lia.
      * rewrite <- M2. f_equal. lia.
  - rewrite Nat.sub_0_r. apply walk_asks_complete.
    + lia.
    + intros t Ht. apply (HT' (KSeg t)). lia.
    + intros t Ht. apply M3. lia.
    + exact M2.
Qed.

(* ---- non-vacuity: a concrete scenario satisfying the hypotheses ------------------------------ *)

Definition ex_base : name := [[8; 1; 97]%N].
Definition ex_obj : object :=
  mkObj ex_base 3 (fun i => [N.of_nat i; 7]%N) (fun i => if Nat.eqb i 2 then Some (seg_comp 2) else None).
(* discovery answered by segment 1 after one loss; segment 0 lost twice; segment 2 delivered at once *)
Definition ex_fate (k : key) (n : nat) : fate :=
  match k with
  | KDisc => if Nat.ltb n 1 then Lost else Delivered
  | KSeg O => if Nat.ltb n 2 then Lost else Delivered
  | KSeg _ => Delivered
  end.
Definition ex_scn : scenario := mkScn ex_obj ex_base (DSeg 1) ex_fate.
Definition ex_cfg : config := mkCfg 3 4000 true.

Lemma ex_wf : wf_scenario ex_scn.
Proof. split; [reflexivity|cbn; lia]. Qed.
Lemma ex_marked : marked ex_scn.
Proof.
  cbn. split; [cbn; lia|]. split; [vm_compute; reflexivity|].
  intros i Hi. cbn in Hi. assert (i = 0 \/ i = 1) as [->| ->] by lia; vm_compute; reflexivity.
Qed.
Lemma ex_tolerable k : needed ex_scn k -> tolerable_explicit ex_scn 3 k.
Proof.
  intros Hk. apply tolerable_iff. destruct k as [|i]; [reflexivity|].
  cbn in Hk. assert (i = 0 \/ i = 1 \/ i = 2) as [->|[->| ->]] by lia; reflexivity.
Qed.
Lemma ex_runs : fetch 4 ex_cfg ex_scn = ([[0; 7]; [1; 7]; [2; 7]]%N, Completed).
Proof. vm_compute. reflexivity. Qed.

Lemma ex_interests :
  map rq_cbp (interests 4 ex_cfg ex_scn) = [true; true; false; false; false; false; false] /\
  map (fun q => last (rq_name q) []) (interests 4 ex_cfg ex_scn) =
    [[8; 1; 97]; [8; 1; 97]; seg_comp 0; seg_comp 0; seg_comp 0; seg_comp 1; seg_comp 2]%N.
Proof. split; vm_compute; reflexivity. Qed.

(* with retry_times = 2 segment 0 exhausts its attempts: timeout, nothing yielded *)
Lemma ex_exhausted : exhausted ex_scn 2 (KSeg 0).
Proof. intros j Hj. cbn in Hj. assert (j = 0 \/ j = 1) as [->| ->] by lia; reflexivity. Qed.
Lemma ex_timeout : fetch 4 (mkCfg 2 4000 true) ex_scn = ([], Raised XTimeout).
Proof. vm_compute. reflexivity. Qed.

(* a nack on segment 1 *)
Definition ex_scn_nack : scenario :=
  mkScn ex_obj ex_base (DSeg 0) (fun k n => match k with KSeg 1 => if Nat.ltb n 1 then Lost else Nacked | _ => Delivered end).
Lemma ex_fails : fails_with ex_scn_nack 3 (KSeg 1) XNack.
Proof. exists 1. split; [cbn; lia|]. split; [intros j' Hj'; assert (j' = 0) as -> by lia; reflexivity|left; split; reflexivity]. Qed.
Lemma ex_nack : fetch 4 ex_cfg ex_scn_nack = ([[0; 7]]%N, Raised XNack).
Proof. vm_compute. reflexivity. Qed.

(* no FinalBlockId at all *)
Definition ex_scn_unmarked : scenario :=
  mkScn (mkObj ex_base 2 (fun i => [N.of_nat i]) (fun _ => None)) ex_base (DSeg 1) (fun _ _ => Delivered).
Lemma ex_unmarked : fetch 3 ex_cfg ex_scn_unmarked = ([[0]; [1]]%N, Raised XTimeout).
Proof. vm_compute. reflexivity. Qed.
