(* C10, part 3: the bytes the library puts on the wire (Nack envelope, reply with PIT token) are exactly the
   ones the specification writes down, they are envelopes in the sense of LpProofs.v, and the [reply] closures
   of several outstanding Interests echo each their own token whatever the order of the replies. *)
From NDN Require Import Base.Prelude Model.TlvVar Model.Name Model.Tlv Model.Packet Model.Lp Spec.TlvWf
  Spec.StrictTlv Spec.LpSpec
  Proofs.BytesLemmas Proofs.TlvVarProofs Proofs.TlvSplit Proofs.TlvRoundtrip Proofs.TlvRoundtrip2 Proofs.TlvMore
  Proofs.LpUnknown Proofs.LpProofs.
From NDN Require Import Generated.Schemas Generated.ConstsLp.
Local Open Scope N_scope.

Arguments N.of_nat : simpl never.
Arguments N.to_nat : simpl never.
Arguments N.pow : simpl never.
Arguments tl_enc : simpl never.
Arguments nni_width : simpl never.
Arguments N_to_be : simpl never.

(* ---- exact bytes -------------------------------------------------------------------------------------- *)
Theorem wrap_with_token_bytes data k : wrap_with_token data k = Ok (spec_reply_wire (Some k) data).
Proof.
  unfold wrap_with_token, encode_lp, spec_reply_wire, encode_model. cbn.
  rewrite !app_nil_r. reflexivity.
Qed.

Lemma uint_element t r :
  tl_enc t ++ N.of_nat (nni_width r) :: N_to_be (nni_width r) r = tlv t (nni_enc r).
Proof.
  assert (N.of_nat (nni_width r) <= 252) as Hw by (destruct (nni_width_cases r) as [E|[E|[E|E]]]; rewrite E; vm_compute; discriminate).
  unfold tlv. rewrite nni_enc_length. unfold nni_enc.
  rewrite (tl_enc_small _ Hw). reflexivity.
Qed.

Theorem make_network_nack_bytes i r : r < two64 -> make_network_nack i r = Ok (spec_nack_wire i r).
Proof.
  intros Hr. unfold make_network_nack, encode_lp, spec_nack_wire, encode_model. cbn.
  replace (256 ^ N.of_nat (nni_width r) <=? r) with false
    by (symmetry; apply N.leb_gt; apply nni_width_bound; exact Hr).
  cbn [bind]. rewrite !app_nil_r. rewrite uint_element. reflexivity.
Qed.

(* a reason that does not fit 8 bytes is refused by the encoder *)
Theorem make_network_nack_too_big i r : two64 <= r -> is_ok (make_network_nack i r) = false.
Proof.
  intros Hr. unfold make_network_nack, encode_lp, encode_model. cbn.
  replace (256 ^ N.of_nat (nni_width r) <=? r) with true; [reflexivity|].
  symmetry. apply N.leb_le.
  assert (nni_width r = 8%nat) as E.
  { unfold nni_width. unfold two64 in Hr.
    destruct (r <=? 255) eqn:E1; [lia|]. destruct (r <=? 65535) eqn:E2; [lia|].
    destruct (r <=? 4294967295) eqn:E3; [lia|]. reflexivity. }
  rewrite E. exact Hr.
Qed.

(* the header-first variant puts the same bytes on a stream *)
Theorem put_nocopy_bytes data k :
  N.of_nat (length (spec_reply_wire (Some k) data)) < two64 ->
  exists h, put_raw_packet_with_pit_token_nocopy true data k = Ok [h; data] /\
            h ++ data = spec_reply_wire (Some k) data.
Proof.
  intros Hl. unfold put_raw_packet_with_pit_token_nocopy, encode_model. cbn [mk_vals]. cbn.
  rewrite !app_nil_r. cbn [bind].
  unfold spec_reply_wire in *. unfold tlv in Hl. rewrite !app_length, !tl_enc_length in Hl.
  match goal with |- context [tl_enc_r ?x] => set (lp_l := x) end.
  assert (lp_l = N.of_nat (length (tlv T_PIT_TOKEN k ++ tlv T_FRAGMENT data))) as E.
  { subst lp_l. unfold tlv. rewrite !app_length, !tl_enc_length.
    change (tl_size T_PIT_TOKEN) with 1%nat. change (tl_size T_FRAGMENT) with 1%nat. change (tl_size 98) with 1%nat. lia. }
  change (tl_size T_LP_PACKET) with 1%nat in Hl. change (tl_size T_PIT_TOKEN) with 1%nat in Hl.
  change (tl_size T_FRAGMENT) with 1%nat in Hl.
  assert (lp_l < two64) as Hlp.
  { rewrite E. unfold tlv. rewrite !app_length, !tl_enc_length.
    change (tl_size T_PIT_TOKEN) with 1%nat. change (tl_size T_FRAGMENT) with 1%nat. lia. }
  unfold tl_enc_r.
  replace (lp_l <? two64) with true by (symmetry; apply N.ltb_lt; exact Hlp).
  replace (N.of_nat (length data) <? two64) with true by (symmetry; apply N.ltb_lt; lia).
  cbn [bind]. eexists. split; [reflexivity|].
  rewrite E. unfold tlv. change LP_PACKET with T_LP_PACKET. change FRAGMENT with T_FRAGMENT. change 98 with T_PIT_TOKEN.
  rewrite <- !app_assoc. reflexivity.
Qed.

(* ---- these wires are envelopes ---------------------------------------------------------------------- *)
Definition token_vals (k data : bytes) : list value :=
  mk_vals lp_fields [(attr_pit_token, VBytes k); (attr_fragment, VBytes data)].
Definition token_els (k data : bytes) : list elem :=
  [Elem T_PIT_TOKEN (N.of_nat (length k)) k; Elem T_FRAGMENT (N.of_nat (length data)) data].

Lemma token_wire k data : spec_reply_wire (Some k) data = lp_wire (token_els k data).
Proof. unfold spec_reply_wire, lp_wire, token_els, ser_els, ser_elem. cbn [map concat e_type e_payload]. rewrite app_nil_r. reflexivity. Qed.

Lemma token_envelope k data :
  N.of_nat (length (ser_els (token_els k data))) < two64 -> envelope_of (token_vals k data) (token_els k data).
Proof.
  intros Hl.
  assert (N.of_nat (length k) < two64 /\ N.of_nat (length data) < two64) as [Hk Hd].
  { unfold token_els, ser_els, ser_elem in Hl. cbn [map concat e_type e_payload] in Hl.
    rewrite !app_length, !tlv_length in Hl. lia. }
  split; [|split; [|split; [exact Hl|]]].
  - unfold token_vals, lp_fields, ndnlp_v2_LpPacketValue, mk_vals. cbn [map aget fst N.eqb Pos.eqb attr_pit_token attr_fragment].
    repeat (constructor; try (cbn [snd]; first [apply fits_none | apply fits_bytes; discriminate])).
  - repeat constructor; cbn [e_type e_dlen e_payload]; try reflexivity; try assumption.
  - exists (token_els k data). split; [|apply with_unknown_refl].
    unfold token_vals, token_els, lp_depth, encode_model, ser_els, ser_elem. cbn. rewrite !app_nil_r. reflexivity.
Qed.

Lemma token_vals_attrs k data :
  unfragmented (token_vals k data) /\ lp_attr (token_vals k data) attr_nack = VNone /\
  lp_token (token_vals k data) = Some k /\ lp_fragment (token_vals k data) = Some data.
Proof. repeat split. Qed.

(* what the peer (or this library itself) reads from the reply: the token and the unmodified data *)
Theorem token_echo_parses k data :
  N.of_nat (length (ser_els (token_els k data))) < two64 ->
  exists vs, dec_lp (spec_reply_wire (Some k) data) = Ok vs /\ lp_token vs = Some k /\ lp_fragment vs = Some data /\
             lp_nack vs = None /\ unfragmented vs.
Proof.
  intros Hl. exists (token_vals k data). rewrite token_wire.
  rewrite (dec_lp_envelope _ _ (token_envelope k data Hl)).
  destruct (token_vals_attrs k data) as (Hu & Hn & Ht & Hf).
  rewrite (no_frag_ok _ Hu). repeat split.
Qed.

Definition nack_vals (r : N) (i : bytes) : list value :=
  mk_vals lp_fields [(attr_nack, VModel (mk_vals nack_fields [(attr_nack_reason, VUint r)])); (attr_fragment, VBytes i)].
Definition nack_els (r : N) (i : bytes) : list elem :=
  let p := tlv T_NACK_REASON (nni_enc r) in
  [Elem T_NACK (N.of_nat (length p)) p; Elem T_FRAGMENT (N.of_nat (length i)) i].

Lemma nack_wire r i : spec_nack_wire i r = lp_wire (nack_els r i).
Proof. unfold spec_nack_wire, lp_wire, nack_els, ser_els, ser_elem. cbn [map concat e_type e_payload]. rewrite app_nil_r. reflexivity. Qed.

Lemma nack_envelope r i :
  r < two64 -> N.of_nat (length (ser_els (nack_els r i))) < two64 -> envelope_of (nack_vals r i) (nack_els r i).
Proof.
  intros Hr Hl.
  assert (N.of_nat (length (tlv T_NACK_REASON (nni_enc r))) < two64 /\ N.of_nat (length i) < two64) as [Hk Hd].
  { unfold nack_els, ser_els, ser_elem in Hl. cbn [map concat e_type e_payload] in Hl.
    rewrite !app_length, !tlv_length in Hl. rewrite tlv_length. lia. }
  split; [|split; [|split; [exact Hl|]]].
  - unfold nack_vals, lp_fields, ndnlp_v2_LpPacketValue, nack_fields, ndnlp_v2_NetworkNack, mk_vals.
    cbn [map aget fst N.eqb Pos.eqb attr_nack attr_fragment attr_nack_reason].
    repeat (first [apply Forall2_nil | apply Forall2_cons]; cbn [snd]);
      try apply fits_none; try (apply fits_bytes; discriminate).
    apply fits_model. repeat (first [apply Forall2_nil | apply Forall2_cons]; cbn [snd]).
    apply (fits_uint None r (nni_width r)); [reflexivity|apply nni_width_bound; exact Hr].
  - repeat constructor; cbn [e_type e_dlen e_payload]; try reflexivity; try assumption.
  - exists (nack_els r i). split; [|apply with_unknown_refl].
    unfold nack_vals, nack_els, lp_depth, encode_model, ser_els, ser_elem. cbn.
    replace (256 ^ N.of_nat (nni_width r) <=? r) with false
      by (symmetry; apply N.leb_gt; apply nni_width_bound; exact Hr).
    cbn [bind]. rewrite !app_nil_r. rewrite uint_element. reflexivity.
Qed.

Lemma nack_vals_attrs r i :
  unfragmented (nack_vals r i) /\ lp_attr (nack_vals r i) attr_nack = VModel [VUint r] /\
  lp_nack (nack_vals r i) = Some (Some r) /\ lp_fragment (nack_vals r i) = Some i /\ lp_token (nack_vals r i) = None.
Proof. repeat split. Qed.

(* make_network_nack / parse_network_nack / parse_lp_packet round trip, every reason 0 .. 2^64-1 *)
Theorem nack_roundtrip i r w :
  r < two64 -> make_network_nack i r = Ok w -> N.of_nat (length w) < two64 ->
  parse_network_nack w = Ok (Some r, Some i) /\ parse_lp_packet w = Ok (Some r, Some i).
Proof.
  intros Hr Hm Hl. rewrite (make_network_nack_bytes i r Hr) in Hm. inversion Hm; subst w. clear Hm.
  rewrite nack_wire in *.
  assert (N.of_nat (length (ser_els (nack_els r i))) < two64) as Hl'.
  { unfold lp_wire in Hl. rewrite tlv_length in Hl. lia. }
  pose proof (nack_envelope r i Hr Hl') as He.
  destruct (nack_vals_attrs r i) as (Hu & Hn & Hn' & Hf & Ht).
  split.
  - unfold parse_network_nack. rewrite (gen_decode_envelope _ _ He). cbn [bind]. rewrite Hn', Hf. reflexivity.
  - unfold parse_lp_packet, parse_lp_packet_v2. rewrite (dec_lp_envelope _ _ He), (no_frag_ok _ Hu). cbn [bind].
    rewrite Hn', Hf. reflexivity.
Qed.

(* ---- the reply closure -------------------------------------------------------------------------------- *)
Theorem reply_v2_spec now c data :
  reply_v2 true now c data = Ok (if c_deadline c <? now then [] else [spec_reply_wire (c_token c) data]).
Proof.
  unfold reply_v2. destruct (c_deadline c <? now); [reflexivity|].
  destruct (c_token c) as [k|]; [|reflexivity].
  unfold put_raw_packet_with_pit_token. rewrite wrap_with_token_bytes. reflexivity.
Qed.

Theorem reply_v2_not_running now c data :
  c_deadline c <? now = false -> reply_v2 false now c data = Err E_NETWORK.
Proof. intros H. unfold reply_v2. rewrite H. destruct (c_token c); reflexivity. Qed.

(* closures created by the arrivals of a history, in order *)
Fixpoint arrivals (h : list lp_event) : list closure :=
  match h with
  | [] => []
  | EvInterest tok dl :: r => Closure tok dl :: arrivals r
  | EvReply _ _ _ :: r => arrivals r
  end.

Lemma arrivals_app a b : arrivals (a ++ b) = arrivals a ++ arrivals b.
Proof. induction a as [|[tok dl|i now data] a IH]; cbn [app arrivals]; [reflexivity|rewrite IH; reflexivity|exact IH]. Qed.

Lemma lp_run_app running a b :
  lp_run running (a ++ b) = fold_left (lp_step running) b (lp_run running a).
Proof. unfold lp_run. apply fold_left_app. Qed.

Lemma lp_run_closures running h : fst (lp_run running h) = arrivals h.
Proof.
  induction h as [|e h IH] using rev_ind; [reflexivity|].
  rewrite lp_run_app, arrivals_app. cbn [fold_left]. destruct e as [tok dl|i now data]; cbn [lp_step arrivals].
  - cbn [fst]. rewrite IH. reflexivity.
  - destruct (nth_error (fst (lp_run running h)) i); cbn [fst]; rewrite IH, app_nil_r; reflexivity.
Qed.

(* C10: pairing under several outstanding Interests.  Whatever happened before ([pre]: arrivals of other
   Interests, replies to them in any order) and whatever the other tokens are, the reply to the i-th Interest
   puts on the face exactly [spec_reply_wire token_i data] (nothing after the deadline), where token_i is the
   token (or absence of token) the i-th Interest arrived with *)
Theorem token_echo_history pre i now data c :
  nth_error (arrivals pre) i = Some c ->
  snd (lp_run true (pre ++ [EvReply i now data])) =
  snd (lp_run true pre) ++ [(i, Ok (if c_deadline c <? now then [] else [spec_reply_wire (c_token c) data]))].
Proof.
  intros H. rewrite lp_run_app. cbn [fold_left lp_step]. rewrite lp_run_closures, H. cbn [snd].
  rewrite reply_v2_spec. reflexivity.
Qed.

(* later arrivals never change the closure an index denotes *)
Theorem arrivals_stable pre post i c :
  nth_error (arrivals pre) i = Some c -> nth_error (arrivals (pre ++ post)) i = Some c.
Proof.
  intros H. rewrite arrivals_app. rewrite nth_error_app1; [exact H|].
  apply nth_error_Some. congruence.
Qed.
