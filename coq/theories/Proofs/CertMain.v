(* C16, headline statements in terms of the inputs of new_cert / self_sign / sign_req / derive_cert. *)
From NDN Require Import Base.Prelude Base.Text Model.TlvVar Model.Name Model.Tlv Model.Packet Model.PacketEnc Model.Cert
  Spec.TlvWf Spec.StrictTlv Spec.SignedPortion Spec.CertSpec Generated.Schemas Generated.ConstsCert
  Proofs.BytesLemmas Proofs.TlvVarProofs Proofs.NameWire Proofs.NameUri Proofs.TlvSplit Proofs.TlvRoundtrip
  Proofs.TlvRoundtrip2 Proofs.TlvMore Proofs.CertProofs Proofs.CertStrict Proofs.CertTime.
Local Open Scope N_scope.
Set Default Timeout 900.

Arguments N.of_nat : simpl never.
Arguments N.to_nat : simpl never.

Notation cfs := security_v2_CertificateV2Value.

(* the legal-input domain of new_cert *)
Record legal (a : cert_in) (kn : list bytes) : Prop := {
  l_name : name_normalize (c_key_name a) = Ok kn;
  l_comps : Forall wf_comp64 kn;                    (* the key name consists of well-formed components *)
  l_issuer : wf_comp64 (c_issuer a);                (* so does the issuer id *)
  l_info : fits (KModel ndn_format_0_3_SignatureInfo true) (VModel (written_of a));  (* the signer wrote a legal SignatureInfo *)
  l_start : valid_bdt (a_fields (c_start a)) = true;  (* datetimes are existing dates *)
  l_end : valid_bdt (a_fields (c_end a)) = true }.

(* what comes back when the certificate is decoded *)
Definition issued_values (a : cert_in) (kn : list bytes) (n : N) (t0 t1 : bdt) (sv : option bytes) : list value :=
  cert_values (kn ++ [c_issuer a; comp_enc TYPE_VERSION (nni_enc n)]) (c_pub a) (written_of a)
              (validity_text t0) (validity_text t1) sv.

Section Main.
Variable sign : bytes -> bytes.

Lemma parts_instants a m p kn :
  parts_of sign a m p -> legal a kn ->
  exists n, c_now a = Z.of_N n /\ n < two64 /\ p_name p = kn ++ [c_issuer a; comp_enc TYPE_VERSION (nni_enc n)] /\
            bdt_to_secs (p_t0 p) = instant_of (c_start a) /\ valid_bdt (p_t0 p) = true /\
            bdt_to_secs (p_t1 p) = instant_of (c_end a) /\ valid_bdt (p_t1 p) = true /\
            (1000 <= t_year (p_t0 p) -> p_nb p = validity_text (p_t0 p)) /\
            (1000 <= t_year (p_t1 p) -> p_na p = validity_text (p_t1 p)).
Proof.
  intros (En & E0 & E1 & Eb & Ea & _) L.
  destruct (cert_name_shape a _ En) as (kn' & n & Ek & Hn & Hlt & Hname).
  rewrite (l_name a kn L) in Ek. apply Ok_inj in Ek. subst kn'.
  destruct (to_utc_sound _ _ (l_start a kn L) E0) as [I0 V0].
  destruct (to_utc_sound _ _ (l_end a kn L) E1) as [I1 V1].
  exists n. repeat split; try assumption.
  - intros Hy. destruct (strftime_validity (p_t0 p) (valid_in_range _ V0 Hy)) as [S _].
    rewrite S in Eb. apply Ok_inj in Eb. symmetry. exact Eb.
  - intros Hy. destruct (strftime_validity (p_t1 p) (valid_in_range _ V1 Hy)) as [_ S].
    rewrite S in Ea. apply Ok_inj in Ea. symmetry. exact Ea.
Qed.

(* C16_fields: for every signer (every signature length up to the reserved size) and every key-bits length,
   decoding the issued certificate returns name = key name / issuer / version, MetaInfo KEY, the key bits,
   the signer's SignatureInfo with the validity period written from the UTC fields of the requested instants,
   and the signature the signer wrote *)
Theorem new_cert_fields a m kn :
  new_cert sign a = Ok m -> legal a kn -> N.of_nat (length (m_wire m)) < two64 ->
  exists n t0 t1 sv,
    c_now a = Z.of_N n /\ m_final_name m = kn ++ [c_issuer a; comp_enc TYPE_VERSION (nni_enc n)] /\
    to_utc (c_start a) = Ok t0 /\ to_utc (c_end a) = Ok t1 /\
    bdt_to_secs t0 = instant_of (c_start a) /\ bdt_to_secs t1 = instant_of (c_end a) /\
    valid_bdt t0 = true /\ valid_bdt t1 = true /\
    (match c_signer a with Some _ => sv = Some (sign (m_sig_covered m)) | None => sv = None end) /\
    (1000 <= t_year t0 -> 1000 <= t_year t1 ->
     dec_cert (m_wire m) = Ok (issued_values a kn n t0 t1 sv) /\ strict_cert (m_wire m) = Ok (issued_values a kn n t0 t1 sv)).
Proof.
  intros H L Hl. destruct (new_cert_parts sign a m H) as (p & Hp).
  destruct (parts_instants a m p kn Hp L) as (n & Hn & Hlt & Hname & I0 & V0 & I1 & V1 & T0 & T1).
  pose proof Hp as (_ & E0 & E1 & _ & _ & _ & _ & _ & _ & Hfn & _ & _ & _ & Hsv).
  exists n, (p_t0 p), (p_t1 p), (p_sv p).
  split; [exact Hn|]. split; [rewrite Hfn; exact Hname|]. split; [exact E0|]. split; [exact E1|].
  split; [exact I0|]. split; [exact I1|]. split; [exact V0|]. split; [exact V1|]. split; [exact Hsv|].
  intros Y0 Y1. unfold issued_values. rewrite <- Hname, <- (T0 Y0), <- (T1 Y1).
  assert (Hn' : Forall wf_comp64 (p_name p)).
  { rewrite Hname. apply Forall_app. split; [exact (l_comps a kn L)|].
    constructor; [exact (l_issuer a kn L)|]. constructor; [apply version_wf|constructor]. }
  split.
  - exact (new_cert_roundtrip sign a m p Hp Hl Hn' (l_info a kn L)).
  - exact (new_cert_strict sign a m p Hp Hl Hn' (l_info a kn L)).
Qed.

(* C16_wellformed: one Data element -- shortest-form Type and Length, Length exact -- whose value is a sequence of
   well-formed elements (the encoding of the five fields; the unused signature octets are gone) *)
Theorem new_cert_wellformed a m kn :
  new_cert sign a = Ok m -> legal a kn -> N.of_nat (length (m_wire m)) < two64 ->
  exists body els, m_wire m = tlv TYPE_DATA body /\ body = ser_els els /\ Forall el_ok els /\ split_wire body = Ok els /\
                   N.of_nat (length (m_wire m)) = N.of_nat (tl_size TYPE_DATA + tl_size (N.of_nat (length body)) + length body).
Proof.
  intros H L Hl. destruct (new_cert_parts sign a m H) as (p & Hp).
  destruct (parts_instants a m p kn Hp L) as (n & _ & _ & Hname & _).
  destruct (new_cert_body sign a m p Hp) as [Ew Eb].
  assert (Hn : Forall wf_comp64 (p_name p)).
  { rewrite Hname. apply Forall_app. split; [exact (l_comps a kn L)|].
    constructor; [exact (l_issuer a kn L)|]. constructor; [apply version_wf|constructor]. }
  rewrite Ew in Hl. rewrite tlv_length in Hl.
  destruct (encode_wellformed _ _ _ _ (wf_fieldsb_spec _ wf_security_v2_CertificateV2Value)
              (cert_fits _ (c_pub a) _ (p_nb p) (p_na p) (p_sv p) Hn (l_info a kn L)) Eb ltac:(lia)) as (els & E1 & E2 & E3).
  exists (m_sig_covered m ++ p_sigel p), els. rewrite Ew, tlv_length. repeat split; assumption.
Qed.

(* C16_signed_portion: the signer is handed exactly Name .. SignatureInfo of the certificate that is returned *)
Theorem new_cert_signed a m kn s :
  new_cert sign a = Ok m -> legal a kn -> c_signer a = Some s -> N.of_nat (length (m_wire m)) < two64 ->
  exists body, m_wire m = tlv TYPE_DATA body /\ signed_portion_data body = Some (m_sig_covered m).
Proof.
  intros H L Es Hl. destruct (new_cert_parts sign a m H) as (p & Hp).
  pose proof Hp as (_ & _ & _ & _ & _ & _ & _ & _ & _ & _ & _ & Hw & _).
  eexists. split; [exact Hw|]. exact (new_cert_signed_portion sign a m p s Hp Es Hl (l_info a kn L)).
Qed.

(* the signature never exceeds its reserved space, and a reserved space of 253 octets or more must be filled *)
Theorem new_cert_sig_length a m s :
  new_cert sign a = Ok m -> c_signer a = Some s ->
  N.of_nat (length (sign (m_sig_covered m))) <= sg_reserved s /\
  (253 <= sg_reserved s -> N.of_nat (length (sign (m_sig_covered m))) = sg_reserved s).
Proof.
  unfold new_cert. intros H Es. rewrite Es in H.
  repeat match type of H with
         | (do _ <- ?e ;; _) = _ => let E := fresh "E" in destruct e eqn:E; [|discriminate]; cbn [bind] in H
         end.
  apply Ok_inj in H. subst m. cbv [m_sig_covered].
  unfold signed_value in E7. rewrite kind_sigvalue in E7.
  match type of E7 with context [check_sig_len ?r ?x] => destruct (check_sig_len r x) as [[]|] eqn:Ec; [|discriminate] end.
  unfold check_sig_len in Ec.
  match type of Ec with context [?x =? ?y] => destruct (x =? y) eqn:Q1 end; [lia|].
  destruct (253 <=? sg_reserved s) eqn:Q2; [discriminate|].
  match type of Ec with context [?x <? ?y] => destruct (x <? y) eqn:Q3 end; [discriminate|]. lia.
Qed.

(* "the signature verifies under the issuing key": a verifier reads the signed portion and the SignatureValue off the
   certificate; for any verification function that accepts what the signer produces for a message, it accepts *)
Theorem new_cert_verifies (verify : bytes -> bytes -> bool) a m kn s :
  (forall msg, verify msg (sign msg) = true) ->
  new_cert sign a = Ok m -> legal a kn -> c_signer a = Some s -> N.of_nat (length (m_wire m)) < two64 ->
  exists body vs msg sigv,
    m_wire m = tlv TYPE_DATA body /\ strict_cert (m_wire m) = Ok vs /\
    signed_portion_data body = Some msg /\ signature_of vs = VBytes sigv /\ verify msg sigv = true.
Proof.
  intros Hv H L Es Hl. destruct (new_cert_parts sign a m H) as (p & Hp).
  destruct (parts_instants a m p kn Hp L) as (n & _ & _ & Hname & _).
  pose proof Hp as (_ & _ & _ & _ & _ & _ & _ & _ & _ & _ & _ & Hw & _ & Hsv).
  rewrite Es in Hsv.
  assert (Hn' : Forall wf_comp64 (p_name p)).
  { rewrite Hname. apply Forall_app. split; [exact (l_comps a kn L)|].
    constructor; [exact (l_issuer a kn L)|]. constructor; [apply version_wf|constructor]. }
  eexists. eexists. exists (m_sig_covered m), (sign (m_sig_covered m)).
  split; [exact Hw|]. split; [exact (new_cert_strict sign a m p Hp Hl Hn' (l_info a kn L))|].
  split; [exact (new_cert_signed_portion sign a m p s Hp Es Hl (l_info a kn L))|].
  split; [rewrite Hsv; reflexivity|apply Hv].
Qed.

(* ---- the three callers are new_cert on particular arguments ------------------------------------------------------- *)
Theorem derive_cert_spec key_name iss pub sg ts start e m :
  derive_cert sign key_name iss pub sg ts start e = Ok m ->
  exists ic a,
    issuer_comp iss = Ok ic /\ new_cert sign a = Ok m /\
    c_key_name a = key_name /\ c_issuer a = ic /\ c_now a = ts /\ c_pub a = pub /\ c_signer a = sg /\ c_start a = start /\
    instant_of (c_end a) = (instant_of start + e)%Z /\ valid_bdt (a_fields (c_end a)) = true.
Proof.
  unfold derive_cert. intros H.
  destruct (add_seconds (a_fields start) e) as [endf|] eqn:Ea; [|discriminate]. cbn [bind] in H.
  destruct (issuer_comp iss) as [ic|] eqn:Ei; [|discriminate]. cbn [bind] in H.
  destruct (add_seconds_sound _ _ _ Ea) as [Hs Hv].
  eexists. eexists. split; [reflexivity|]. split; [exact H|].
  cbn [c_key_name c_issuer c_now c_pub c_signer c_start c_end a_fields a_offset].
  repeat split; try reflexivity; [|exact Hv].
  unfold instant_of. cbn [a_fields a_offset]. rewrite Hs. lia.
Qed.

Lemma replace_year_valid t y e : valid_bdt t = true -> replace_year t y = Ok e ->
  valid_bdt e = true /\ t_year e = y /\ t_mon e = t_mon t /\ t_day e = t_day t /\ t_hour e = t_hour t /\
  t_min e = t_min t /\ t_sec e = t_sec t.
Proof.
  unfold replace_year, valid_bdt. intros Hv.
  destruct ((y <? 1) || (9999 <? y)) eqn:Ey; [discriminate|].
  destruct ((t_mon t =? 2) && (t_day t =? 29) && negb (is_leap y)) eqn:Ef; [discriminate|].
  intros H. apply Ok_inj in H. subst e. cbn [t_year t_mon t_day t_hour t_min t_sec].
  split; [|repeat split; reflexivity].
  repeat (apply andb_true_iff in Hv; destruct Hv as [Hv ?]).
  repeat (apply andb_true_iff; split); try lia.
  unfold days_in_month in *.
  destruct (t_mon t =? 2) eqn:E2; [|assumption].
  destruct (is_leap y); [destruct (is_leap (t_year t)); lia|].
  destruct (t_day t =? 29) eqn:E29; [discriminate|]. destruct (is_leap (t_year t)); lia.
Qed.

Theorem self_sign_spec key_name pub sg ts now m :
  valid_bdt now = true ->
  self_sign sign key_name pub sg ts now = Ok m ->
  exists e a,
    new_cert sign a = Ok m /\
    c_key_name a = key_name /\ c_issuer a = SELF_COMPONENT /\ c_now a = ts /\ c_pub a = pub /\ c_signer a = sg /\
    instant_of (c_start a) = 0%Z /\ valid_bdt (a_fields (c_start a)) = true /\
    c_end a = utc e /\ valid_bdt e = true /\
    t_year e = t_year now + 20 /\ t_mon e = t_mon now /\ t_day e = t_day now /\ t_hour e = t_hour now /\
    t_min e = t_min now /\ t_sec e = t_sec now.
Proof.
  unfold self_sign. intros Hv H.
  destruct (replace_year now (t_year now + self_sign_years)) as [e|] eqn:Er; [|discriminate]. cbn [bind] in H.
  destruct (replace_year_valid _ _ _ Hv Er) as (V & Y & R).
  exists e. eexists. split; [exact H|].
  cbn [c_key_name c_issuer c_now c_pub c_signer c_start c_end].
  repeat split; try reflexivity; try assumption; tauto.
Qed.

Theorem sign_req_spec key_name pub sg ts now1 now2 m :
  sign_req sign key_name pub sg ts now1 now2 = Ok m ->
  exists a,
    new_cert sign a = Ok m /\
    c_key_name a = key_name /\ c_issuer a = SIGN_REQ_COMPONENT /\ c_now a = ts /\ c_pub a = pub /\ c_signer a = sg /\
    c_start a = utc now2 /\
    instant_of (c_end a) = (bdt_to_secs now1 + 864000)%Z /\ valid_bdt (a_fields (c_end a)) = true.
Proof.
  unfold sign_req. intros H.
  destruct (add_seconds now1 (Z.of_N sign_req_seconds)) as [e|] eqn:Ea; [|discriminate]. cbn [bind] in H.
  destruct (add_seconds_sound _ _ _ Ea) as [Hs Hv].
  eexists. split; [exact H|].
  cbn [c_key_name c_issuer c_now c_pub c_signer c_start c_end].
  repeat split; try reflexivity; [|exact Hv].
  unfold instant_of, utc. cbn [a_fields a_offset]. rewrite Hs. change (Z.of_N sign_req_seconds) with 864000%Z. lia.
Qed.

(* observation (not a clause of the property): on 29 February of a year y with y+20 not a leap year the clock reading
   cannot be moved 20 years ahead and self_sign raises ValueError before anything is issued *)
Example self_sign_leap_day_raises :
  self_sign sign (NSStr [47; 97]) [] None 0%Z {| t_year := 2080; t_mon := 2; t_day := 29; t_hour := 0; t_min := 0; t_sec := 0 |}
  = Err EValue.
Proof. reflexivity. Qed.

End Main.

(* ---- the specification holds of the decoded values ---------------------------------------------------------------- *)
Definition request_of (a : cert_in) (kn : list bytes) : issue_req :=
  {| q_key_name := kn; q_issuer := c_issuer a; q_pub := c_pub a;
     q_not_before := instant_of (c_start a); q_not_after := instant_of (c_end a);
     q_sig_type := nth 0 (written_of a) VNone; q_key_locator := nth 1 (written_of a) VNone |}.

Lemma name_eqb_refl n : name_eqb n n = true.
Proof. apply name_eqb_spec. reflexivity. Qed.
Lemma bytes_eqb_refl b : bytes_eqb b b = true.
Proof. apply bytes_eqb_spec. reflexivity. Qed.

Lemma is_version_enc n : is_version (comp_enc TYPE_VERSION (nni_enc n)) = true.
Proof.
  unfold is_version. rewrite comp_split_enc.
  - rewrite nni_enc_length. destruct (nni_width_cases n) as [E|[E|[E|E]]]; rewrite E; reflexivity.
  - reflexivity.
  - rewrite nni_enc_length. destruct (nni_width_cases n) as [E|[E|[E|E]]]; rewrite E; reflexivity.
Qed.

Lemma name_shape_issued kn i v : is_version v = true -> name_shape_ok kn i (kn ++ [i; v]) = true.
Proof.
  intros Hv. unfold name_shape_ok. rewrite skipn_app_exact, firstn_app_exact.
  rewrite name_eqb_refl, bytes_eqb_refl, Hv. reflexivity.
Qed.

Lemma validity_instant_text t : valid_bdt t = true -> 1000 <= t_year t ->
  validity_instant (VBytes (validity_text t)) = Some (bdt_to_secs t).
Proof. intros Hv Hy. unfold validity_instant. rewrite parse_validity_text by assumption. reflexivity. Qed.

(* SignatureType numbers and key locators that carry a name (what the shipped signers write) *)
Definition flat (v : value) : Prop := flat_eqb v v = true.

Theorem issued_values_meet_spec a kn n t0 t1 sv st kl x y z :
  written_of a = [st; kl; x; y; z] -> flat st -> flat kl ->
  valid_bdt t0 = true -> valid_bdt t1 = true -> 1000 <= t_year t0 -> 1000 <= t_year t1 ->
  bdt_to_secs t0 = instant_of (c_start a) -> bdt_to_secs t1 = instant_of (c_end a) ->
  cert_fields_ok (request_of a kn) (issued_values a kn n t0 t1 sv) = true /\
  signature_of (issued_values a kn n t0 t1 sv) = vbytes sv.
Proof.
  intros Hw Fs Fk V0 V1 Y0 Y1 I0 I1. split; [|reflexivity].
  unfold cert_fields_ok, issued_values, cert_values, request_of. rewrite Hw.
  cbn [q_key_name q_issuer q_pub q_not_before q_not_after q_sig_type q_key_locator nth].
  change (field_value cfs [?a; ?b; ?c; ?d; ?e] 7) with a.
  change (field_value cfs [?a; ?b; ?c; ?d; ?e] 20) with b.
  change (field_value cfs [?a; ?b; ?c; ?d; ?e] 21) with c.
  change (field_value cfs [?a; ?b; ?c; ?d; ?e] 22) with d.
  cbv beta iota.
  rewrite name_shape_issued by apply is_version_enc.
  change (inner ndn_format_0_3_MetaInfo cert_meta 24) with (VUint 2).
  cbv beta iota. rewrite bytes_eqb_refl. unfold cert_siginfo. cbn [app].
  change (inner security_v2_CertificateV2SignatureInfo (VModel [?a; ?b; ?c; ?d; ?e; ?f; ?g]) 253) with f.
  change (inner security_v2_CertificateV2SignatureInfo (VModel [?a; ?b; ?c; ?d; ?e; ?f; ?g]) 27) with a.
  change (inner security_v2_CertificateV2SignatureInfo (VModel [?a; ?b; ?c; ?d; ?e; ?f; ?g]) 28) with b.
  change (inner security_v2_ValidityPeriod (VModel [?a; ?b]) 254) with a.
  change (inner security_v2_ValidityPeriod (VModel [?a; ?b]) 255) with b.
  rewrite !validity_instant_text by assumption. rewrite I0, I1. unfold opt_z_eqb. rewrite !Z.eqb_refl.
  rewrite Fs, Fk. reflexivity.
Qed.
