(* C07: with the end-of-parent check added, the decoder accepts EXACTLY what the strict reading of the format
   accepts, with the same fields, at every nesting depth; and the checked decoder refines the library's. *)
From NDN Require Import Base.Prelude Base.Utf8 Model.TlvVar Model.Name Model.Tlv Model.TlvChecked Model.Packet Spec.StrictTlv
  Proofs.BytesLemmas Proofs.TlvVarProofs Proofs.TlvSplit Proofs.TlvRoundtrip Proofs.PacketDecode.
Local Open Scope N_scope.
Set Default Timeout 900.
Arguments N.of_nat : simpl never.
Arguments N.to_nat : simpl never.
Arguments N.min : simpl never.

Lemma exactb_spec e : exactb e = true <-> exact e.
Proof. unfold exactb, exact. apply N.eqb_eq. Qed.
Lemma forallb_exact els : forallb exactb els = true <-> Forall exact els.
Proof.
  rewrite forallb_forall, Forall_forall. split; intros H x Hx; [apply exactb_spec|apply exactb_spec]; apply H; exact Hx.
Qed.

(* the checked split is the strict split *)
Lemma split_checked_strict w els : split_checked w = Ok els <-> strict_split w = Some els.
Proof.
  unfold split_checked, strict_split, split_wire. split.
  - destruct (elements (S (length w)) w) as [e|] eqn:E; [|discriminate]. cbn [bind].
    destruct (forallb exactb e) eqn:F; [|discriminate]. intros H; inversion H; subst e.
    apply elements_exact_strict; [exact E|apply forallb_exact; exact F].
  - intros H. destruct (strict_elements_lenient _ _ _ H) as (E1 & E2). rewrite E1. cbn [bind].
    rewrite (proj2 (forallb_exact els) E2). reflexivity.
Qed.
Lemma split_checked_exact w els : split_checked w = Ok els -> Forall exact els.
Proof. intros H. apply split_checked_strict in H. apply (strict_elements_lenient _ _ _ H). Qed.

(* checked decoder and strict reader agree on every exact element, at every depth *)
Lemma val_c_strict : forall d k e v, exact e -> (parse_val_c d k e = Ok v <-> strict_val d k e = Ok v).
Proof.
  induction d as [|d IH]; intros k e v Hex; [split; discriminate|]. unfold exact in Hex.
  destruct k; cbn [strict_val parse_val_c].
  - rewrite Hex. destruct ((N.of_nat (length (e_payload e)) =? 1) || _ || _ || _); [|reflexivity].
    rewrite N.eqb_refl. reflexivity.
  - reflexivity.
  - destruct is_string; cbn [andb negb]; [|reflexivity]. destruct (utf8_valid (e_payload e)); reflexivity.
  - destruct (negb (e_type e =? TYPE_NAME)); [reflexivity|]. rewrite Hex, N.ltb_irrefl. reflexivity.
  - destruct (split_checked (e_payload e)) as [els|] eqn:Es.
    + pose proof (proj1 (split_checked_strict _ _) Es) as Es'. rewrite Es'. cbn [bind].
      pose proof (split_checked_exact _ _ Es) as Hall. rewrite Forall_forall in Hall.
      split; intros H.
      * destruct (assign_with (parse_val_c d) fs ignore_critical PNormal 0 els (blank fs)) as [vs|] eqn:Ea; [|discriminate].
        rewrite (assign_mono_in (parse_val_c d) (strict_val d) fs ignore_critical els) with (r := vs); [exact H| |exact Ea].
        intros k0 e0 v0 Hin. apply IH. apply Hall. exact Hin.
      * destruct (assign_with (strict_val d) fs ignore_critical PNormal 0 els (blank fs)) as [vs|] eqn:Ea; [|discriminate].
        rewrite (assign_mono_in (strict_val d) (parse_val_c d) fs ignore_critical els) with (r := vs); [exact H| |exact Ea].
        intros k0 e0 v0 Hin. apply IH. apply Hall. exact Hin.
    + cbn [bind]. destruct (strict_split (e_payload e)) as [els|] eqn:Es'.
      * apply split_checked_strict in Es'. congruence.
      * split; discriminate.
  - reflexivity.
  - reflexivity.
Qed.

Theorem checked_iff_strict d fs ic w vs :
  parse_model_c d fs ic w = Ok vs <-> strict_model d fs ic w = Ok vs.
Proof.
  unfold parse_model_c, strict_model.
  destruct (split_checked w) as [els|] eqn:Es.
  - pose proof (proj1 (split_checked_strict _ _) Es) as Es'. rewrite Es'. cbn [bind].
    pose proof (split_checked_exact _ _ Es) as Hall. rewrite Forall_forall in Hall.
    split; intros H.
    + apply (assign_mono_in (parse_val_c d) (strict_val d) fs ic els); [|exact H].
      intros k e v Hin. apply val_c_strict. apply Hall. exact Hin.
    + apply (assign_mono_in (strict_val d) (parse_val_c d) fs ic els); [|exact H].
      intros k e v Hin. apply val_c_strict. apply Hall. exact Hin.
  - cbn [bind]. destruct (strict_split w) as [els|] eqn:Es'.
    + apply split_checked_strict in Es'. congruence.
    + split; discriminate.
Qed.

(* the checked decoder refines the library's: it only ever rejects more *)
Lemma val_c_le : forall d k e v, parse_val_c d k e = Ok v -> parse_val d k e = Ok v.
Proof.
  induction d as [|d IH]; intros k e v H; [discriminate|].
  destruct k; cbn [parse_val parse_val_c] in *; try exact H.
  unfold split_checked in H. destruct (split_wire (e_payload e)) as [els|]; [|discriminate]. cbn [bind] in *.
  destruct (forallb exactb els); [|discriminate]. cbn [bind] in H.
  destruct (assign_with (parse_val_c d) fs ignore_critical PNormal 0 els (blank fs)) as [vs|] eqn:Ea; [|cbn [bind] in H; discriminate].
  rewrite (assign_mono_in (parse_val_c d) (parse_val d) fs ignore_critical els) with (r := vs); [exact H| |exact Ea].
  intros k0 e0 v0 _. apply IH.
Qed.

Theorem checked_refines d fs ic w vs : parse_model_c d fs ic w = Ok vs -> parse_model d fs ic w = Ok vs.
Proof.
  unfold parse_model_c, parse_model, split_checked. destruct (split_wire w) as [els|]; [|discriminate]. cbn [bind].
  destruct (forallb exactb els); [|discriminate]. intros H.
  apply (assign_mono_in (parse_val_c d) (parse_val d) fs ic els); [|exact H]. intros k e v _. apply val_c_le.
Qed.

(* packet level *)
Definition dec_interest_c (w : bytes) := require_name Generated.Schemas.ndn_format_0_3_InterestPacketValue
  (gen_decode parse_model_c TYPE_INTEREST Generated.Schemas.ndn_format_0_3_InterestPacketValue false w).
Definition dec_data_c (w : bytes) := require_name Generated.Schemas.ndn_format_0_3_DataPacketValue
  (gen_decode parse_model_c TYPE_DATA Generated.Schemas.ndn_format_0_3_DataPacketValue false w).
Definition dec_cert_c (w : bytes) := require_name Generated.Schemas.security_v2_CertificateV2Value
  (gen_decode parse_model_c TYPE_DATA Generated.Schemas.security_v2_CertificateV2Value false w).
Definition dec_lp_c (w : bytes) := no_fragmentation Generated.Schemas.ndnlp_v2_LpPacketValue
  (gen_decode parse_model_c TYPE_LP_PACKET Generated.Schemas.ndnlp_v2_LpPacketValue true w).

Lemma gen_decode_iff outer fs ic w vs :
  gen_decode parse_model_c outer fs ic w = Ok vs <-> gen_decode strict_model outer fs ic w = Ok vs.
Proof. unfold gen_decode. destruct (parse_and_check_tl w outer); [|split; discriminate]. cbn [bind]. apply checked_iff_strict. Qed.
Lemma gen_decode_res_eq outer fs ic w :
  gen_decode parse_model_c outer fs ic w = gen_decode strict_model outer fs ic w \/
  (forall vs, gen_decode parse_model_c outer fs ic w <> Ok vs) /\ (forall vs, gen_decode strict_model outer fs ic w <> Ok vs).
Proof.
  destruct (gen_decode parse_model_c outer fs ic w) as [vs|] eqn:E.
  - left. symmetry. apply gen_decode_iff. exact E.
  - right. split; [discriminate|]. intros vs H. apply gen_decode_iff in H. congruence.
Qed.

Theorem interest_c_iff w vs : dec_interest_c w = Ok vs <-> strict_interest w = Ok vs.
Proof.
  unfold dec_interest_c, strict_interest, require_name.
  destruct (gen_decode_res_eq TYPE_INTEREST Generated.Schemas.ndn_format_0_3_InterestPacketValue false w) as [->|(A & B)]; [reflexivity|].
  destruct (gen_decode parse_model_c _ _ _ w) as [x|]; [exfalso; eapply A; reflexivity|].
  destruct (gen_decode strict_model _ _ _ w) as [y|]; [exfalso; eapply B; reflexivity|]. split; discriminate.
Qed.
Theorem data_c_iff w vs : dec_data_c w = Ok vs <-> strict_data w = Ok vs.
Proof.
  unfold dec_data_c, strict_data, require_name.
  destruct (gen_decode_res_eq TYPE_DATA Generated.Schemas.ndn_format_0_3_DataPacketValue false w) as [->|(A & B)]; [reflexivity|].
  destruct (gen_decode parse_model_c _ _ _ w) as [x|]; [exfalso; eapply A; reflexivity|].
  destruct (gen_decode strict_model _ _ _ w) as [y|]; [exfalso; eapply B; reflexivity|]. split; discriminate.
Qed.
Theorem cert_c_iff w vs : dec_cert_c w = Ok vs <-> strict_cert w = Ok vs.
Proof.
  unfold dec_cert_c, strict_cert, require_name.
  destruct (gen_decode_res_eq TYPE_DATA Generated.Schemas.security_v2_CertificateV2Value false w) as [->|(A & B)]; [reflexivity|].
  destruct (gen_decode parse_model_c _ _ _ w) as [x|]; [exfalso; eapply A; reflexivity|].
  destruct (gen_decode strict_model _ _ _ w) as [y|]; [exfalso; eapply B; reflexivity|]. split; discriminate.
Qed.
Theorem lp_c_iff w vs : dec_lp_c w = Ok vs <-> strict_lp w = Ok vs.
Proof.
  unfold dec_lp_c, strict_lp, no_fragmentation.
  destruct (gen_decode_res_eq TYPE_LP_PACKET Generated.Schemas.ndnlp_v2_LpPacketValue true w) as [->|(A & B)]; [reflexivity|].
  destruct (gen_decode parse_model_c _ _ _ w) as [x|]; [exfalso; eapply A; reflexivity|].
  destruct (gen_decode strict_model _ _ _ w) as [y|]; [exfalso; eapply B; reflexivity|]. split; discriminate.
Qed.

Lemma gen_decode_c_le outer fs ic w vs :
  gen_decode parse_model_c outer fs ic w = Ok vs -> gen_decode parse_model outer fs ic w = Ok vs.
Proof. unfold gen_decode. destruct (parse_and_check_tl w outer); [|discriminate]. cbn [bind]. apply checked_refines. Qed.
Theorem interest_c_refines w vs : dec_interest_c w = Ok vs -> dec_interest w = Ok vs.
Proof.
  unfold dec_interest_c, dec_interest, require_name.
  destruct (gen_decode parse_model_c _ _ _ w) as [x|] eqn:E; [|discriminate]. rewrite (gen_decode_c_le _ _ _ _ _ E). exact (fun H => H).
Qed.
Theorem data_c_refines w vs : dec_data_c w = Ok vs -> dec_data w = Ok vs.
Proof.
  unfold dec_data_c, dec_data, require_name.
  destruct (gen_decode parse_model_c _ _ _ w) as [x|] eqn:E; [|discriminate]. rewrite (gen_decode_c_le _ _ _ _ _ E). exact (fun H => H).
Qed.
Theorem lp_c_refines w vs : dec_lp_c w = Ok vs -> dec_lp w = Ok vs.
Proof.
  unfold dec_lp_c, dec_lp, no_fragmentation.
  destruct (gen_decode parse_model_c _ _ _ w) as [x|] eqn:E; [|discriminate]. rewrite (gen_decode_c_le _ _ _ _ _ E). exact (fun H => H).
Qed.
Theorem cert_c_refines w vs : dec_cert_c w = Ok vs -> dec_cert w = Ok vs.
Proof.
  unfold dec_cert_c, dec_cert, require_name.
  destruct (gen_decode parse_model_c _ _ _ w) as [x|] eqn:E; [|discriminate]. rewrite (gen_decode_c_le _ _ _ _ _ E). exact (fun H => H).
Qed.

(* the converse clause of C07, at every depth: accepted, and the end-of-parent check would not have fired
   => strictly well-formed, with the same fields *)
Theorem accept_no_overrun_interest w vs : dec_interest w = Ok vs -> (exists vs', dec_interest_c w = Ok vs') -> strict_interest w = Ok vs.
Proof. intros H (vs' & Hc). pose proof (interest_c_refines _ _ Hc) as H'. rewrite H in H'. inversion H'; subst. apply interest_c_iff. exact Hc. Qed.
Theorem accept_no_overrun_data w vs : dec_data w = Ok vs -> (exists vs', dec_data_c w = Ok vs') -> strict_data w = Ok vs.
Proof. intros H (vs' & Hc). pose proof (data_c_refines _ _ Hc) as H'. rewrite H in H'. inversion H'; subst. apply data_c_iff. exact Hc. Qed.
Theorem accept_no_overrun_cert w vs : dec_cert w = Ok vs -> (exists vs', dec_cert_c w = Ok vs') -> strict_cert w = Ok vs.
Proof. intros H (vs' & Hc). pose proof (cert_c_refines _ _ Hc) as H'. rewrite H in H'. inversion H'; subst. apply cert_c_iff. exact Hc. Qed.
Theorem accept_no_overrun_lp w vs : dec_lp w = Ok vs -> (exists vs', dec_lp_c w = Ok vs') -> strict_lp w = Ok vs.
Proof. intros H (vs' & Hc). pose proof (lp_c_refines _ _ Hc) as H'. rewrite H in H'. inversion H'; subst. apply lp_c_iff. exact Hc. Qed.
