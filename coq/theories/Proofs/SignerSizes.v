(* The reserved SignatureValue size of the ECDSA signer bounds every DER signature it can write. *)
From Coq Require Import NArith List Lia.
From NDN Require Import Base.Prelude Model.SignerSizes Model.PacketEnc.
From NDN Require Generated.SignerSizes.
Import ListNotations.
Local Open Scope N_scope.
Set Default Timeout 900.

Lemma der_int_len_bound b x : 0 < b -> x < 2 ^ b -> der_int_len x <= b / 8 + 1.
Proof.
  intros Hb Hx. unfold der_int_len.
  assert (N.log2 x + 1 <= b) as Hl.
  { destruct (N.eq_dec x 0) as [->|Hne]; [cbn; lia|].
    assert (N.log2 x < b) by (apply N.log2_lt_pow2; lia). lia. }
  assert ((N.log2 x + 1) / 8 <= b / 8) by (apply N.div_le_mono; lia).
  lia.
Qed.

Lemma der_int_len_pos x : 1 <= der_int_len x.
Proof. unfold der_int_len. lia. Qed.

(* the length of the signature is monotone in the two integer lengths, and explicit once they are bounded *)
Lemma der_sig_len_le k r s :
  der_int_len r <= k -> der_int_len s <= k -> k < 120 ->
  der_sig_len r s <= 2 * (k + 2) + (if 2 * (k + 2) <? 128 then 2 else 3).
Proof.
  intros Hr Hs Hk. unfold der_sig_len, der_tlv_len, der_hdr_len.
  pose proof (der_int_len_pos r). pose proof (der_int_len_pos s).
  repeat match goal with |- context [?a <? ?b] => destruct (N.ltb_spec a b) end; lia.
Qed.

Theorem ecdsa_signature_fits b r s :
  In b ecdsa_curve_bits -> r < 2 ^ b -> s < 2 ^ b ->
  der_sig_len r s <= Generated.SignerSizes.ecdsa_reserved b.
Proof.
  intros Hb Hr Hs.
  assert (forall k R, b / 8 + 1 = k -> k < 120 ->
                      2 * (k + 2) + (if 2 * (k + 2) <? 128 then 2 else 3) <= R ->
                      0 < b -> der_sig_len r s <= R) as H.
  { intros k R Hk Hk' HR Hpos. etransitivity; [|exact HR].
    apply der_sig_len_le; [rewrite <- Hk; apply der_int_len_bound; assumption ..|assumption]. }
  cbn [ecdsa_curve_bits In] in Hb.
  destruct Hb as [<-|[<-|[<-|[<-|[<-|[]]]]]];
    (eapply H; [vm_compute; reflexivity | vm_compute; reflexivity | vm_compute; discriminate | reflexivity]).
Qed.

(* the reservation is not generous: on P-521 a signature of 139 octets exists (so 138 would not do) *)
Lemma ecdsa_p521_tight : exists r s, r < 2 ^ 521 /\ s < 2 ^ 521 /\ der_sig_len r s = 139.
Proof. exists (2 ^ 520), (2 ^ 520). vm_compute. repeat split; reflexivity. Qed.

Lemma ecdsa_reserved_values :
  map Generated.SignerSizes.ecdsa_reserved ecdsa_curve_bits = [56; 64; 72; 104; 140].
Proof. vm_compute. reflexivity. Qed.

(* what the encoder does with such a signature: the post-signing rule accepts it *)
Theorem ecdsa_signature_accepted b r s sv :
  In b ecdsa_curve_bits -> r < 2 ^ b -> s < 2 ^ b ->
  N.of_nat (length sv) = der_sig_len r s ->
  check_sig_len (Generated.SignerSizes.ecdsa_reserved b) sv = Ok tt.
Proof.
  intros Hb Hr Hs Hl.
  pose proof (ecdsa_signature_fits b r s Hb Hr Hs) as Hfit.
  assert (Generated.SignerSizes.ecdsa_reserved b < 253) as Hsmall.
  { cbn [ecdsa_curve_bits In] in Hb.
    destruct Hb as [<-|[<-|[<-|[<-|[<-|[]]]]]]; vm_compute; reflexivity. }
  unfold check_sig_len. rewrite Hl.
  destruct (N.eqb_spec (der_sig_len r s) (Generated.SignerSizes.ecdsa_reserved b)); [reflexivity|].
  destruct (N.leb_spec 253 (Generated.SignerSizes.ecdsa_reserved b)); [lia|].
  destruct (N.ltb_spec (Generated.SignerSizes.ecdsa_reserved b) (der_sig_len r s)); [lia|reflexivity].
Qed.

(* the fixed-size signers reserve exactly what their primitive writes (SHA-256 / HMAC-SHA-256: 32 octets,
   Ed25519: 64, null: nothing) and RSA PKCS#1 v1.5 writes one modulus-sized block *)
Lemma fixed_signer_sizes :
  Generated.SignerSizes.digest_reserved = 32 /\ Generated.SignerSizes.hmac_reserved = 32 /\
  Generated.SignerSizes.ed25519_reserved = 64 /\ Generated.SignerSizes.null_reserved = 0 /\
  (forall k, Generated.SignerSizes.rsa_reserved k = k).
Proof. repeat split. Qed.
