(* C14 — proofs about validations that overlap in time on one validator instance (Model/ValidatorConc.v):
   whatever the interleaving of starts and fetch completions, every verdict is accept <-> Chain, the key
   storage keeps its invariant, a delivered verdict never changes; and a validation that runs alone, every
   fetch answered at once, is exactly [validate] of Model/Validator.v. *)
From NDN Require Import Base.Prelude Model.Validator Model.ValidatorConc Spec.ChainSpec Proofs.ValidatorProofs.
Local Open Scope nat_scope.

(* ---------------------------------------------------------------- lists ------------------------ *)
Lemma set_nth_cons {A} (x : A) l i a : set_nth (x :: l) (S i) a = x :: set_nth l i a.
Proof. reflexivity. Qed.

Lemma set_nth_length {A} (l : list A) : forall i a, i < length l -> length (set_nth l i a) = length l.
Proof.
  induction l as [|x l IH]; intros i a H; cbn in H; [lia|].
  destruct i as [|i]; [reflexivity|]. rewrite set_nth_cons. cbn. rewrite IH; lia.
Qed.

Lemma set_nth_same {A} (l : list A) : forall i a, i < length l -> nth_error (set_nth l i a) i = Some a.
Proof.
  induction l as [|x l IH]; intros i a H; cbn in H; [lia|].
  destruct i as [|i]; [reflexivity|]. rewrite set_nth_cons. cbn. apply IH. lia.
Qed.

Lemma set_nth_other {A} (l : list A) : forall i a j, i < length l -> j <> i -> nth_error (set_nth l i a) j = nth_error l j.
Proof.
  induction l as [|x l IH]; intros i a j H N; cbn in H; [lia|].
  destruct i as [|i].
  - destruct j as [|j]; [lia | reflexivity].
  - rewrite set_nth_cons. destruct j as [|j]; [reflexivity|]. cbn. apply IH; lia.
Qed.

Lemma Forall_set_nth {A} (P : A -> Prop) (l : list A) : forall i a, Forall P l -> P a -> Forall P (set_nth l i a).
Proof.
  induction l as [|x l IH]; intros i a Hl Ha.
  - unfold set_nth. destruct i; cbn; auto.
  - inversion Hl; subst. destruct i as [|i].
    + unfold set_nth. cbn. constructor; auto.
    + rewrite set_nth_cons. constructor; auto.
Qed.

(* ---------------------------------------------------------------- invariant -------------------- *)
Section Conc.
Variables (w : world) (c : cfg).
Let t := trust_of c.

(* what a finished call validate(q) -> r guarantees (r = out-of-fuel only if an oracle of the world says so) *)
Definition verdict_ok (r : res bool) (q : pkt) : Prop :=
  (r = Ok true -> Chain w t q) /\ (Chain w t q -> r = Ok true \/ r = Err EFuel).

(* a suspended validate(p): p names cn, the schema allows it, cn is not the anchor *)
Definition frame_ok (f : frame) : Prop :=
  names_key (fst f) (snd f) /\ t_allowed t (p_name (fst f)) (snd f) = true /\ snd f <> t_anchor_name t.

(* q is the certificate the top frame fetched, the packet of each frame the certificate of the one below *)
Fixpoint linked (q : pkt) (stack : list frame) : Prop :=
  match stack with
  | [] => True
  | (p, cn) :: rest => w_fetch w cn = FData q /\ linked p rest
  end.

(* the packet the caller asked about *)
Fixpoint root (q : pkt) (stack : list frame) : pkt :=
  match stack with [] => q | (p, _) :: rest => root p rest end.

Definition tstate_ok (rt : pkt) (ts : tstate) : Prop :=
  match ts with
  | TDone r => verdict_ok r rt
  | TWait [] => False
  | TWait ((p, cn) :: rest) => Forall frame_ok ((p, cn) :: rest) /\ linked p rest /\ root p rest = rt
  end.

Definition thread_ok (th : thread) : Prop := tstate_ok (th_pkt th) (th_state th).

Definition cstate_ok (cs : cstate) : Prop :=
  cache_ok w t (cs_cache cs) /\ Forall thread_ok (cs_threads cs).

Lemma not_chain_verdict r q : r <> Ok true -> ~ Chain w t q -> verdict_ok r q.
Proof. intros N H. split; [intros E; contradiction | intros Hc; contradiction]. Qed.

Lemma frame_not_data p cn : frame_ok (p, cn) -> (forall d, w_fetch w cn <> FData d) -> ~ Chain w t p.
Proof.
  intros (NK & _ & NE) ND Hc. cbn in *.
  destruct (chain_cert_inv _ _ _ _ Hc NK NE) as (_ & c' & k' & F' & _). eapply ND; eauto.
Qed.

(* ---------------------------------------------------------------- one call, up to its fetch ---- *)
Lemma local_verdict_spec st q :
  cache_ok w t st ->
  match local_verdict w c st q with
  | inl r => verdict_ok r q
  | inr cn => frame_ok (q, cn) /\ truthy (cache_load st cn) = None
  end.
Proof.
  intros Hst. unfold local_verdict.
  destruct (key_locator q) as [cn|] eqn:KL.
  2:{ apply not_chain_verdict; [discriminate|]. intros Hc.
      inversion Hc; subst; match goal with H : names_key q _ |- _ => apply key_locator_spec in H; congruence end. }
  pose proof KL as NK. apply key_locator_spec in NK.
  assert (AL : Chain w t q -> t_allowed t (p_name q) cn = true).
  { intros Hc. destruct (name_eqb cn (t_anchor_name t)) eqn:E.
    - apply name_eqb_spec in E. subst cn. apply (chain_anchor_inv _ _ _ Hc NK).
    - apply name_eqb_false in E. apply (chain_cert_inv _ _ _ _ Hc NK E). }
  destruct (name_check c (p_name q) cn) as [[|]|e] eqn:NC.
  2:{ apply not_chain_verdict; [discriminate|]. intros Hc. apply AL in Hc. apply name_check_true in Hc. congruence. }
  2:{ split; [discriminate|]. intros Hc. apply AL in Hc. apply name_check_true in Hc. congruence. }
  apply name_check_true in NC. fold t in NC.
  change (c_anchor_name c) with (t_anchor_name t). change (c_anchor_key c) with (t_anchor_key t).
  destruct (name_eqb cn (t_anchor_name t)) eqn:EA.
  - apply name_eqb_spec in EA. subst cn. split.
    + intros H. apply check_key_true in H. apply ByAnchor; auto.
    + intros Hc. left. apply check_key_true. apply (chain_anchor_inv _ _ _ Hc NK).
  - apply name_eqb_false in EA.
    destruct (truthy (cache_load st cn)) as [k|] eqn:CL.
    + destruct (Hst _ _ CL) as (d & Fd & Cd & Chd).
      apply truthy_some in CL. destruct CL as [_ Kne]. split.
      * intros H. apply verify_sig_true in H; auto. eapply ByCert; eauto.
      * intros Hc. left. apply verify_sig_true; auto.
        destruct (chain_cert_inv _ _ _ _ Hc NK EA) as (_ & c' & k' & F' & C' & V' & _).
        rewrite Fd in F'. inversion F'; subst c'. congruence.
    + split; auto. split; auto.
Qed.

(* ---------------------------------------------------------------- unwinding the frames --------- *)
Lemma unwind_spec : forall stack q r st r' st',
  cache_ok w t st -> Forall frame_ok stack -> linked q stack -> verdict_ok r q ->
  unwind w q r stack st = (r', st') ->
  cache_ok w t st' /\ verdict_ok r' (root q stack).
Proof.
  induction stack as [|[p cn] rest IH]; intros q r st r' st' Hst Hfr Hl Hv Hu; cbn [unwind] in Hu.
  - inversion Hu; subst. auto.
  - inversion Hfr as [|? ? Hf Hfr']; subst. destruct Hl as [Fq Hl]. cbn [root].
    pose proof Hf as (NK & AL & NE). cbn [fst snd] in NK, AL, NE.
    assert (Inv : Chain w t p -> exists k', p_content q = Some k' /\ verifies w k' p /\ Chain w t q).
    { intros Hc. destruct (chain_cert_inv _ _ _ _ Hc NK NE) as (_ & c' & k' & F' & C' & V' & Ch').
      rewrite Fq in F'. inversion F'; subst c'. exists k'. auto. }
    destruct Hv as [Hs Hcmp].
    destruct r as [[|]|e].
    + specialize (Hs eq_refl).
      destruct (truthy (p_content q)) as [k|] eqn:TK.
      * pose proof TK as TK'. apply truthy_some in TK'. destruct TK' as [Cq Kne].
        eapply IH; [| exact Hfr' | exact Hl | | exact Hu].
        -- eapply cache_ok_save; eauto.
        -- split.
           ++ intros H. apply verify_sig_true in H; auto. eapply ByCert; eauto.
           ++ intros Hc. left. apply verify_sig_true; auto.
              destruct (Inv Hc) as (k' & C' & V' & _). congruence.
      * eapply IH; [exact Hst | exact Hfr' | exact Hl | | exact Hu].
        apply not_chain_verdict; [discriminate|]. intros Hc.
        destruct (Inv Hc) as (k' & C' & [Kne _] & _). rewrite C' in TK. rewrite truthy_content in TK; auto. discriminate.
    + eapply IH; [exact Hst | exact Hfr' | exact Hl | | exact Hu].
      apply not_chain_verdict; [discriminate|]. intros Hc.
      destruct (Inv Hc) as (_ & _ & _ & Chq). destruct (Hcmp Chq); discriminate.
    + eapply IH; [exact Hst | exact Hfr' | exact Hl | | exact Hu].
      split; [discriminate|]. intros Hc. destruct (Inv Hc) as (_ & _ & _ & Chq).
      destruct (Hcmp Chq) as [H|H]; [discriminate | right; exact H].
Qed.

Lemma advance_spec q stack st ts st' sent :
  cache_ok w t st -> Forall frame_ok stack -> linked q stack ->
  advance w c q stack st = (ts, st', sent) ->
  cache_ok w t st' /\ tstate_ok (root q stack) ts.
Proof.
  intros Hst Hfr Hl Ha. unfold advance in Ha.
  pose proof (local_verdict_spec st q Hst) as LV.
  destruct (local_verdict w c st q) as [r|cn].
  - destruct (unwind w q r stack st) as [r' st1] eqn:U. inversion Ha; subst.
    apply (unwind_spec _ _ _ _ _ _ Hst Hfr Hl LV U).
  - destruct LV as [Hf _].
    destruct (w_fetch w cn) as [d| | |e] eqn:F.
    4:{ destruct (unwind w q (Err e) stack st) as [r' st1] eqn:U. inversion Ha; subst.
        refine (unwind_spec _ _ _ _ _ _ Hst Hfr Hl _ U).
        apply not_chain_verdict; [discriminate|]. apply (frame_not_data _ _ Hf). intros d. congruence. }
    all: inversion Ha; subst; split; auto; cbn; repeat split; auto.
Qed.

Lemma resume_spec th st th' st' :
  cache_ok w t st -> thread_ok th -> resume w c th st = (th', st') ->
  cache_ok w t st' /\ thread_ok th' /\ th_pkt th' = th_pkt th.
Proof.
  intros Hst Hth Hr. unfold resume in Hr. unfold thread_ok in *.
  destruct (th_state th) as [[|[p cn] rest]|r] eqn:TS.
  1,3: inversion Hr; subst; rewrite TS; auto.
  cbn in Hth. destruct Hth as (Hfr & Hl & Hrt).
  inversion Hfr as [|? ? Hf Hfr']; subst.
  destruct (w_fetch w cn) as [d| | |e] eqn:F.
  - destruct (advance w c d ((p, cn) :: rest) st) as [[ts st1] sent] eqn:A. inversion Hr; subst. cbn.
    assert (L : linked d ((p, cn) :: rest)) by (cbn; auto).
    destruct (advance_spec _ _ _ _ _ _ Hst Hfr L A) as [H1 H2]. cbn [root] in H2. rewrite Hrt in H2. auto.
  - destruct (unwind w p (Ok false) rest st) as [r st1] eqn:U. inversion Hr; subst. cbn.
    assert (V : verdict_ok (Ok false) p).
    { apply not_chain_verdict; [discriminate|]. apply (frame_not_data _ _ Hf). intros d. congruence. }
    destruct (unwind_spec _ _ _ _ _ _ Hst Hfr' Hl V U) as [H1 H2]. rewrite Hrt in H2. auto.
  - destruct (unwind w p (Ok false) rest st) as [r st1] eqn:U. inversion Hr; subst. cbn.
    assert (V : verdict_ok (Ok false) p).
    { apply not_chain_verdict; [discriminate|]. apply (frame_not_data _ _ Hf). intros d. congruence. }
    destruct (unwind_spec _ _ _ _ _ _ Hst Hfr' Hl V U) as [H1 H2]. rewrite Hrt in H2. auto.
  - destruct (unwind w p (Err e) rest st) as [r st1] eqn:U. inversion Hr; subst. cbn.
    assert (V : verdict_ok (Err e) p).
    { apply not_chain_verdict; [discriminate|]. apply (frame_not_data _ _ Hf). intros d. congruence. }
    destruct (unwind_spec _ _ _ _ _ _ Hst Hfr' Hl V U) as [H1 H2]. rewrite Hrt in H2. auto.
Qed.

(* a verdict that was delivered is not touched again *)
Lemma resume_done th st r : th_state th = TDone r -> resume w c th st = (th, st).
Proof. intros H. unfold resume. rewrite H. reflexivity. Qed.

(* ---------------------------------------------------------------- steps ------------------------ *)
(* what every step does to the thread table: threads stay where they are and keep their packet; a delivered
   verdict stays *)
Definition extends (cs cs' : cstate) : Prop :=
  forall tid th, nth_error (cs_threads cs) tid = Some th ->
    exists th', nth_error (cs_threads cs') tid = Some th' /\ th_pkt th' = th_pkt th /\
                forall r, th_state th = TDone r -> th_state th' = TDone r.

Lemma extends_refl cs : extends cs cs.
Proof. intros tid th H. exists th. auto. Qed.

Lemma extends_trans a b d : extends a b -> extends b d -> extends a d.
Proof.
  intros H1 H2 tid th H. destruct (H1 _ _ H) as (th1 & N1 & P1 & D1).
  destruct (H2 _ _ N1) as (th2 & N2 & P2 & D2). exists th2. repeat split; auto; try congruence.
Qed.

Lemma resume_tid_spec cs tid :
  cstate_ok cs -> cstate_ok (resume_tid w c cs tid) /\ extends cs (resume_tid w c cs tid).
Proof.
  intros [Hc Ht]. unfold resume_tid.
  destruct (nth_error (cs_threads cs) tid) as [th|] eqn:N; [|split; [split; auto | apply extends_refl]].
  destruct (waiting_on th) as [cn|] eqn:Wt; [|split; [split; auto | apply extends_refl]].
  destruct (resume w c th (cs_cache cs)) as [th' st'] eqn:R.
  assert (Hth : thread_ok th) by (rewrite Forall_forall in Ht; apply Ht; eapply nth_error_In; eauto).
  destruct (resume_spec _ _ _ _ Hc Hth R) as (H1 & H2 & H3).
  assert (L : tid < length (cs_threads cs)) by (apply nth_error_Some; congruence).
  split.
  - split; cbn; auto. apply Forall_set_nth; auto.
  - intros j thj Nj. cbn. destruct (Nat.eq_dec j tid) as [->|NE].
    + rewrite set_nth_same by exact L. exists th'. split; auto. split; [congruence|].
      intros r Hr. assert (thj = th) by congruence. subst thj.
      unfold waiting_on in Wt. rewrite Hr in Wt. discriminate.
    + rewrite set_nth_other by auto. exists thj. auto.
Qed.

Lemma fold_resume_spec : forall tids cs,
  cstate_ok cs ->
  cstate_ok (fold_left (resume_tid w c) tids cs) /\ extends cs (fold_left (resume_tid w c) tids cs).
Proof.
  induction tids as [|tid r IH]; intros cs H; cbn.
  - split; auto. apply extends_refl.
  - destruct (resume_tid_spec cs tid H) as [H1 E1]. destruct (IH _ H1) as [H2 E2].
    split; auto. eapply extends_trans; eauto.
Qed.

Lemma cstep_spec cs e : cstate_ok cs -> cstate_ok (cstep w c cs e) /\ extends cs (cstep w c cs e).
Proof.
  intros H. destruct e as [p|tid|cn|]; cbn [cstep].
  - destruct H as [Hc Ht].
    destruct (advance w c p [] (cs_cache cs)) as [[ts st'] sent] eqn:A.
    destruct (advance_spec _ _ _ _ _ _ Hc (Forall_nil _) I A) as [H1 H2]. cbn [root] in H2.
    split.
    + split; cbn; auto. apply Forall_app. split; auto.
    + intros tid th N. cbn. exists th. split; auto. rewrite nth_error_app1; auto. apply nth_error_Some. congruence.
  - apply resume_tid_spec; auto.
  - destruct (silent w cn); [split; [auto | apply extends_refl]|]. apply fold_resume_spec; auto.
  - apply fold_resume_spec; auto.
Qed.

Lemma cfinal_spec : forall evs cs, cstate_ok cs -> cstate_ok (cfinal w c cs evs) /\ extends cs (cfinal w c cs evs).
Proof.
  unfold cfinal. induction evs as [|e r IH]; intros cs H; cbn.
  - split; auto. apply extends_refl.
  - destruct (cstep_spec cs e H) as [H1 E1]. destruct (IH _ H1) as [H2 E2]. split; auto. eapply extends_trans; eauto.
Qed.

Lemma crun_spec : forall evs cs, cstate_ok cs -> Forall cstate_ok (crun w c cs evs).
Proof.
  induction evs as [|e r IH]; intros cs H; cbn; constructor.
  - apply cstep_spec; auto.
  - apply IH. apply cstep_spec; auto.
Qed.

Lemma cinit_ok st : cache_ok w t st -> cstate_ok (cinit st).
Proof. intros H. split; cbn; auto. Qed.

(* ---------------------------------------------------------------- the theorems ----------------- *)
(* any interleaving: a verdict is accept <-> Chain *)
Theorem conc_iff cs evs th r :
  cstate_ok cs ->
  In th (cs_threads (cfinal w c cs evs)) -> th_state th = TDone r -> r <> Err EFuel ->
  (r = Ok true <-> Chain w t (th_pkt th)).
Proof.
  intros H Hin Hd Hne. destruct (cfinal_spec evs cs H) as [[_ Ht] _].
  rewrite Forall_forall in Ht. specialize (Ht _ Hin). unfold thread_ok in Ht. rewrite Hd in Ht.
  destruct Ht as [S C]. split; auto. intros Hc. destruct (C Hc); auto. contradiction.
Qed.

(* the validation started by [CStart p] is thread number |threads before|, asks about p for ever, and once it has
   a verdict keeps it *)
Theorem conc_started cs p :
  exists th, nth_error (cs_threads (cstep w c cs (CStart p))) (length (cs_threads cs)) = Some th /\ th_pkt th = p.
Proof.
  cbn [cstep]. destruct (advance w c p [] (cs_cache cs)) as [[ts st'] sent]. cbn.
  eexists. split; [rewrite nth_error_app2 by lia; rewrite Nat.sub_diag; reflexivity | reflexivity].
Qed.

Theorem conc_stable cs evs : cstate_ok cs -> extends cs (cfinal w c cs evs).
Proof. intros H. apply cfinal_spec; auto. Qed.

End Conc.

(* two runs — any two interleavings, any two starting storages that satisfy the invariant, even two instances
   with the same trust configuration: the same packet gets the same verdict *)
Theorem conc_same_verdict w c1 c2 cs1 cs2 evs1 evs2 th1 th2 r1 r2 :
  trust_of c1 = trust_of c2 ->
  cstate_ok w c1 cs1 -> cstate_ok w c2 cs2 ->
  In th1 (cs_threads (cfinal w c1 cs1 evs1)) -> In th2 (cs_threads (cfinal w c2 cs2 evs2)) ->
  th_pkt th1 = th_pkt th2 ->
  th_state th1 = TDone r1 -> th_state th2 = TDone r2 -> r1 <> Err EFuel -> r2 <> Err EFuel ->
  (r1 = Ok true <-> r2 = Ok true).
Proof.
  intros ET H1 H2 I1 I2 EP D1 D2 N1 N2.
  rewrite (conc_iff w c1 cs1 evs1 th1 r1 H1 I1 D1 N1), (conc_iff w c2 cs2 evs2 th2 r2 H2 I2 D2 N2).
  rewrite ET, EP. tauto.
Qed.

(* ---------------------------------------------------------------- alone = Model/Validator.v ---- *)
Lemma validate_local w c fuel st q :
  validate w c fuel st q =
  match local_verdict w c st q with
  | inl r => (r, st, [])
  | inr cn =>
      match fuel with
      | O => (Err EFuel, st, [])
      | S f =>
          match w_fetch w cn with
          | FNack => (Ok false, st, [cn])
          | FTimeout => (Ok false, st, [cn])
          | FFail e => (Err e, st, [cn])
          | FData d =>
              match validate w c f st d with
              | (Err e, st1, tr) => (Err e, st1, cn :: tr)
              | (Ok false, st1, tr) => (Ok false, st1, cn :: tr)
              | (Ok true, st1, tr) =>
                  match truthy (p_content d) with
                  | Some k => (verify_sig w k q, cache_save st1 cn k, cn :: tr)
                  | None => (Ok false, st1, cn :: tr)
                  end
              end
          end
      end
  end.
Proof.
  unfold local_verdict. destruct fuel; cbn [validate];
    destruct (key_locator q); try reflexivity;
    destruct (name_check c (p_name q) v) as [[|]|]; try reflexivity;
    destruct (name_eqb v (c_anchor_name c)); try reflexivity;
    destruct (truthy (cache_load st v)); reflexivity.
Qed.

Lemma drive_done w c fuel th st r : th_state th = TDone r -> drive w c fuel th st = (th, st).
Proof. intros H. destruct fuel; cbn [drive]; rewrite H; reflexivity. Qed.

Lemma alone_general w c : forall fuel q stack st pk pre r st1 tr,
  validate w c fuel st q = (r, st1, tr) -> r <> Err EFuel ->
  let '(th, st0) := start_thread w c pk q stack pre st in
  let '(r', st') := unwind w q r stack st1 in
  drive w c fuel th st0 = ({| th_pkt := pk; th_state := TDone r'; th_sent := pre ++ tr |}, st').
Proof.
  induction fuel as [|f IH]; intros q stack st pk pre r st1 tr Hv Hne;
    rewrite validate_local in Hv; unfold start_thread, advance.
  - destruct (local_verdict w c st q) as [r0|cn]; [|inversion Hv; subst; congruence].
    inversion Hv; subst. destruct (unwind w q r stack st1) as [r' st']. apply drive_done with r'. reflexivity.
  - destruct (local_verdict w c st q) as [r0|cn].
    { inversion Hv; subst. destruct (unwind w q r stack st1) as [r' st']. apply drive_done with r'. reflexivity. }
    destruct (w_fetch w cn) as [d| | |e] eqn:F.
    + (* Data: the certificate is validated by next_level *)
      destruct (validate w c f st d) as [[ri sti] tri] eqn:VI.
      assert (Hri : ri <> Err EFuel).
      { destruct ri as [[|]|e]; try discriminate. inversion Hv; subst. exact Hne. }
      specialize (IH d ((q, cn) :: stack) st pk (pre ++ [cn]) ri sti tri VI Hri).
      unfold start_thread in IH.
      cbn [drive th_state]. unfold resume. cbn [th_state th_pkt th_sent]. rewrite F.
      destruct (advance w c d ((q, cn) :: stack) st) as [[ts st0] sent] eqn:A.
      cbn [unwind] in IH.
      destruct ri as [[|]|e].
      * destruct (truthy (p_content d)) as [k|]; inversion Hv; subst;
          (destruct (unwind w q _ stack _) as [r' st']); rewrite IH; rewrite <- app_assoc; reflexivity.
      * inversion Hv; subst. destruct (unwind w q (Ok false) stack st1) as [r' st'].
        rewrite IH. rewrite <- app_assoc. reflexivity.
      * inversion Hv; subst. destruct (unwind w q (Err e) stack st1) as [r' st'].
        rewrite IH. rewrite <- app_assoc. reflexivity.
    + inversion Hv; subst. cbn [drive th_state]. unfold resume. cbn [th_state th_pkt th_sent]. rewrite F.
      destruct (unwind w q (Ok false) stack st1) as [r' st']. apply drive_done with r'. reflexivity.
    + inversion Hv; subst. cbn [drive th_state]. unfold resume. cbn [th_state th_pkt th_sent]. rewrite F.
      destruct (unwind w q (Ok false) stack st1) as [r' st']. apply drive_done with r'. reflexivity.
    + inversion Hv; subst. destruct (unwind w q (Err e) stack st1) as [r' st']. apply drive_done with r'. reflexivity.
Qed.

(* a validation that has the instance to itself, every fetch answered at once, IS [validate] *)
Theorem alone_is_validate w c fuel st p r st' tr :
  validate w c fuel st p = (r, st', tr) -> r <> Err EFuel ->
  run_alone w c fuel st p = ({| th_pkt := p; th_state := TDone r; th_sent := tr |}, st').
Proof.
  intros Hv Hne. pose proof (alone_general w c fuel p [] st p [] r st' tr Hv Hne) as H.
  unfold run_alone. destruct (start_thread w c p p [] [] st) as [th st0]. cbn [unwind app] in H. exact H.
Qed.

(* ---------------------------------------------------------------- examples --------------------- *)
From NDN Require Import Proofs.ValidatorExamples.

Definition ex_thread_P : thread := {| th_pkt := P; th_state := TDone (Ok true); th_sent := [nC] |}.

(* two validations of P start before the certificate C has arrived: both wait for it ... *)
Example ex_conc_waiting :
  cfinal ex_world cfg1 (cinit []) [CStart P; CStart P] =
  {| cs_cache := [];
     cs_threads := [ {| th_pkt := P; th_state := TWait [(P, nC)]; th_sent := [nC] |};
                     {| th_pkt := P; th_state := TWait [(P, nC)]; th_sent := [nC] |} ];
     cs_queue := [0; 1] |}.
Proof. vm_compute. reflexivity. Qed.

(* ... and both accept when it does; a third one, later, is served from the storage *)
Example ex_conc_overlap :
  cfinal ex_world cfg1 (cinit []) [CStart P; CStart P; CDeliver nC; CStart P] =
  {| cs_cache := [(nC, [13%N])];
     cs_threads := [ ex_thread_P; ex_thread_P; {| th_pkt := P; th_state := TDone (Ok true); th_sent := [] |} ];
     cs_queue := [] |}.
Proof. vm_compute. reflexivity. Qed.

Example ex_alone : run_alone ex_world cfg1 3 [] P = (ex_thread_P, [(nC, [13%N])]).
Proof. vm_compute. reflexivity. Qed.
