(* Name-level URI round trips: from_str (to_str n) = n and from_str (to_canonical_uri n) = n. *)
From NDN Require Import Base.Prelude Base.Text Model.TlvVar Model.Name
  Proofs.BytesLemmas Proofs.TlvVarProofs Proofs.TextProofs Proofs.NameWire Proofs.NameUri.
Local Open Scope N_scope.

Arguments N.of_nat : simpl never.

(* what the name-level argument needs from a component renderer [f] *)
Definition part_ok (f : bytes -> res str) (c : bytes) : Prop :=
  exists p, f c = Ok p /\ forallb in_charset p = true /\ comp_from_str p = Ok c
            /\ (p = [] -> c = [8; 0]) /\ (c = [8; 0] -> p = []).

Definition rel (f : bytes -> res str) (c : bytes) (p : str) : Prop :=
  f c = Ok p /\ forallb in_charset p = true /\ comp_from_str p = Ok c
  /\ (p = [] -> c = [8; 0]) /\ (c = [8; 0] -> p = []).

Lemma rmap_parts f n : Forall (part_ok f) n -> exists parts, rmap f n = Ok parts /\ Forall2 (rel f) n parts.
Proof.
  induction 1 as [|c n Hc Hn IH].
  - exists []. split; [reflexivity|constructor].
  - destruct Hc as (p & Hp). destruct IH as (ps & E & F). exists (p :: ps). split.
    + cbn [rmap]. destruct Hp as (-> & _). cbn [bind]. rewrite E. reflexivity.
    + constructor; assumption.
Qed.

Lemma escape_str_id p : forallb in_charset p = true -> escape_str p = Ok p.
Proof.
  induction p as [|c p IH]; intros H; [reflexivity|]. cbn [forallb] in H. apply andb_true_iff in H.
  destruct H as [Hc Hp]. cbn [escape_str]. unfold escape_chr. rewrite Hc. cbn [bind]. rewrite IH by exact Hp. reflexivity.
Qed.

Lemma rmap_back f n parts :
  Forall2 (rel f) n parts -> rmap (fun s => do e <- escape_str s ;; comp_from_str e) parts = Ok n.
Proof.
  induction 1 as [|c p n parts (H1 & H2 & H3 & _) _ IH]; [reflexivity|].
  cbn [rmap]. rewrite escape_str_id by exact H2. cbn [bind]. rewrite H3. cbn [bind]. rewrite IH. reflexivity.
Qed.

Lemma in_charset_noslash p : forallb in_charset p = true -> forallb (fun c => negb (c =? 47)) p = true.
Proof.
  intros H. rewrite forallb_forall in *. intros c Hc. specialize (H c Hc).
  destruct (c =? 47) eqn:E; [|reflexivity]. apply N.eqb_eq in E. subst. discriminate.
Qed.

Lemma join_snoc sep l x :
  join_with sep (l ++ [x]) = match l with [] => x | _ => join_with sep l ++ sep :: x end.
Proof.
  induction l as [|a l IH]; [reflexivity|].
  destruct l as [|b l].
  - reflexivity.
  - change ((a :: b :: l) ++ [x]) with (a :: ((b :: l) ++ [x])).
    change (join_with sep (a :: (b :: l) ++ [x])) with (a ++ sep :: join_with sep ((b :: l) ++ [x])).
    rewrite IH. change (join_with sep (a :: b :: l)) with (a ++ sep :: join_with sep (b :: l)).
    rewrite <- app_assoc. reflexivity.
Qed.

Lemma strip_last_slash_snoc s : strip_last_slash (s ++ [47]) = (s, true).
Proof. unfold strip_last_slash. rewrite rev_app_distr. cbn [rev app]. rewrite rev_involutive. reflexivity. Qed.

Lemma strip_last_slash_none s x : x <> 47 -> strip_last_slash (s ++ [x]) = (s ++ [x], false).
Proof.
  intros Hx. unfold strip_last_slash. rewrite rev_app_distr. cbn [rev app].
  destruct x as [|p]; [reflexivity|].
  destruct (N.eq_dec (N.pos p) 47) as [E|_]; [congruence|].
  repeat (destruct p as [p|p|]; try reflexivity); congruence.
Qed.

Lemma Forall2_snoc_inv {A B} (R : A -> B -> Prop) l x ps :
  Forall2 R (l ++ [x]) ps -> exists ps' p, ps = ps' ++ [p] /\ Forall2 R l ps' /\ R x p.
Proof.
  revert ps. induction l as [|a l IH]; intros ps H.
  - inversion H as [|? p ? ps0 Hr Hn]; subst. inversion Hn; subst. exists [], p. repeat split; [constructor|exact Hr].
  - inversion H as [|? p ? ps0 Hr Hn]; subst. destruct (IH _ Hn) as (ps' & q & -> & F & Rq).
    exists (p :: ps'), q. repeat split; [constructor; assumption|exact Rq].
Qed.

Lemma parts_noslash f n parts :
  Forall2 (rel f) n parts -> Forall (fun p => forallb (fun c => negb (c =? 47)) p = true) parts.
Proof.
  induction 1 as [|c p n parts (_ & H2 & _) _ IH]; constructor; [apply in_charset_noslash; exact H2|exact IH].
Qed.

Lemma name_from_str_slash r :
  name_from_str (47 :: r) =
  let '(v2, c2) := strip_last_slash r in
  match v2 with
  | [] => if c2 then rmap (fun s => do e <- escape_str s ;; comp_from_str e) (split_on 47 v2) else Ok []
  | _ => rmap (fun s => do e <- escape_str s ;; comp_from_str e) (split_on 47 v2)
  end.
Proof. unfold name_from_str. destruct (strip_last_slash r) as [v2 c2]. reflexivity. Qed.

Theorem render_roundtrip f n :
  Forall (part_ok f) n -> (do u <- name_render f n ;; name_from_str u) = Ok n.
Proof.
  intros H. destruct (rmap_parts f n H) as (parts & E & F). unfold name_render. rewrite E. cbn [bind].
  destruct (rev n) as [|lastc rn] eqn:Er.
  - (* empty name: "/" *)
    assert (n = []) by (rewrite <- (rev_involutive n), Er; reflexivity). subst n.
    inversion F; subst. reflexivity.
  - assert (Hn : n = rev rn ++ [lastc]) by (rewrite <- (rev_involutive n), Er; reflexivity).
    rewrite Hn in F. destruct (Forall2_snoc_inv _ _ _ _ F) as (ps' & lastp & -> & F' & Rl).
    assert (Hns : Forall (fun p => forallb (fun c => negb (c =? 47)) p = true) (ps' ++ [lastp]))
      by (eapply parts_noslash; exact F).
    assert (Hne : ps' ++ [lastp] <> []) by (destruct ps'; discriminate).
    assert (Hback := rmap_back f _ _ F). rewrite <- Hn in Hback.
    destruct Rl as (_ & Hcs & _ & Hp_empty & Hc_empty).
    destruct (bytes_eqb lastc [8; 0]) eqn:Eb.
    + apply bytes_eqb_spec in Eb. specialize (Hc_empty Eb). subst lastp. cbn [bind].
      change ((47 :: join_with 47 (ps' ++ [[]])) ++ [47]) with (47 :: (join_with 47 (ps' ++ [[]]) ++ [47])).
      rewrite name_from_str_slash, strip_last_slash_snoc.
      rewrite split_join; [|exact Hne|exact Hns].
      destruct (join_with 47 _); exact Hback.
    + cbn [bind]. rewrite name_from_str_slash.
      assert (Hlp : lastp <> []).
      { intros ->. specialize (Hp_empty eq_refl). subst lastc. discriminate. }
      destruct (exists_last Hlp) as (lp' & x & ->).
      assert (Hx : x <> 47).
      { rewrite forallb_app in Hcs. apply andb_true_iff in Hcs. destruct Hcs as [_ Hx]. cbn in Hx.
        intros ->. discriminate. }
      match goal with |- context [join_with 47 ?P] =>
        assert (Ej : exists s, join_with 47 P = s ++ [x])
          by (rewrite join_snoc; destruct ps'; [exists lp'; reflexivity|];
              eexists; rewrite app_comm_cons, app_assoc; reflexivity);
        destruct Ej as (s & Ej);
        assert (Sp : split_on 47 (join_with 47 P) = P) by (apply split_join; [exact Hne|exact Hns])
      end.
      rewrite Ej in *. rewrite strip_last_slash_none by exact Hx. rewrite Sp.
      destruct (s ++ [x]) eqn:Es; [destruct s; discriminate|]. exact Hback.
Qed.

(* instantiation for the two renderers *)
Definition uri_comp (c : bytes) : Prop :=
  exists t v, c = comp_enc t v /\ valid_type t /\ wf_bytes v /\ N.of_nat (length v) < two64.

Definition uri_comp_num (c : bytes) : Prop :=
  exists t v, c = comp_enc t v /\ valid_type t /\ wf_bytes v /\ N.of_nat (length v) < two64
              /\ (is_alt_type t = true -> nni_len_ok (length v) = true -> exists m, m < two64 /\ v = nni_enc m).

Lemma comp_enc_generic_empty t v :
  valid_type t -> comp_enc t v = [8; 0] -> t = 8 /\ v = [].
Proof.
  intros [H0 H1] E. unfold comp_enc, tl_enc in E.
  destruct (t <=? 252) eqn:E1.
  - cbn [app] in E. inversion E as [[Ht Hr]]. split; [reflexivity|].
    destruct (N.of_nat (length v) <=? 252) eqn:E2.
    + cbn [app] in Hr. inversion Hr as [[Hl Hv]]. congruence.
    + destruct (N.of_nat (length v) <=? 65535); [|destruct (N.of_nat (length v) <=? 4294967295)];
        cbn [app] in Hr; inversion Hr.
  - destruct (t <=? 65535); [|destruct (t <=? 4294967295)]; cbn [app] in E; inversion E.
Qed.

Lemma uri_body_empty t v : valid_type t -> uri_body t v = [] -> t = 8 /\ v = [].
Proof.
  intros Ht E. unfold uri_body, TYPE_GENERIC in E. destruct (t =? 8) eqn:E8.
  - apply N.eqb_eq in E8. split; [exact E8|]. cbn [app] in E. destruct v as [|b v]; [reflexivity|].
    exfalso. eapply body_nonempty; [|exact E]. discriminate.
  - destruct (dec_print_spec t) as (Hne & _). destruct (dec_print t); [congruence|discriminate].
Qed.

Lemma uri_body_charset t v : wf_bytes v -> forallb in_charset (uri_body t v) = true.
Proof.
  intros Hv. unfold uri_body. rewrite forallb_app. rewrite (okc_in_charset _ (body_okc v Hv)), andb_true_r.
  destruct (t =? TYPE_GENERIC); [reflexivity|]. rewrite forallb_app. cbn [forallb].
  destruct (dec_print_spec t) as (_ & Hd & _). rewrite (okc_in_charset _ (digits_okc _ Hd)). reflexivity.
Qed.

Lemma canonical_part_ok c : uri_comp c -> part_ok comp_to_canonical_uri c.
Proof.
  intros (t & v & -> & Ht & Hv & Hl). exists (uri_body t v). unfold comp_to_canonical_uri.
  rewrite comp_split_enc by (assumption || (destruct Ht; unfold two64; lia)). cbn [bind].
  split; [reflexivity|]. split; [apply uri_body_charset; exact Hv|].
  split; [apply comp_from_str_uri_body; assumption|]. split.
  - intros E. destruct (uri_body_empty t v Ht E) as [-> ->]. reflexivity.
  - intros E. destruct (comp_enc_generic_empty t v Ht E) as [-> ->]. reflexivity.
Qed.

(* C09: canonical URI round trip for every name *)
Theorem name_canonical_uri_roundtrip n :
  Forall uri_comp n -> (do u <- name_to_canonical_uri n ;; name_from_str u) = Ok n.
Proof.
  intros H. apply render_roundtrip. eapply Forall_impl; [|exact H]. apply canonical_part_ok.
Qed.

(* ---- to_str (shorthand) instantiation ------------------------------------------------------ *)
Definition to_str_body (t : N) (v : bytes) : str :=
  if t =? 1 then s_sha256digest ++ 61 :: hex_print v
  else if t =? 2 then s_params_sha256 ++ 61 :: hex_print v
  else match alt_by_type alt_uri t with
       | Some k => if nni_len_ok (length v) then k ++ 61 :: dec_print (be_to_N v) else uri_body t v
       | None => uri_body t v
       end.

Lemma comp_to_str_enc t v :
  t < two64 -> N.of_nat (length v) < two64 -> comp_to_str (comp_enc t v) = Ok (to_str_body t v).
Proof.
  intros Ht Hl. unfold comp_to_str, to_str_body. rewrite comp_split_enc by assumption. cbn [bind].
  unfold TYPE_IMPLICIT_SHA256, TYPE_PARAMETERS_SHA256.
  destruct (t =? 1); [reflexivity|]. destruct (t =? 2); [reflexivity|].
  destruct (alt_by_type alt_uri t); [destruct (nni_len_ok (length v))|]; reflexivity.
Qed.

Lemma typed_charset k r : forallb okc k = true -> forallb okc r = true -> forallb in_charset (k ++ 61 :: r) = true.
Proof.
  intros Hk Hr. rewrite forallb_app. cbn [forallb]. rewrite (okc_in_charset k Hk), (okc_in_charset r Hr). reflexivity.
Qed.

Lemma shorthand_part_ok c : uri_comp_num c -> part_ok comp_to_str c.
Proof.
  intros (t & v & -> & Ht & Hv & Hl & Hcanon). exists (to_str_body t v).
  assert (Ht64 : t < two64) by (destruct Ht; unfold two64; lia).
  split; [apply comp_to_str_enc; assumption|].
  pose proof (comp_uri_roundtrip t v Ht Hv Hl Hcanon) as RT.
  rewrite comp_to_str_enc in RT by assumption. cbn [bind] in RT.
  split; [|split; [exact RT|]].
  - unfold to_str_body.
    destruct (t =? 1); [apply typed_charset; [reflexivity|apply hex_print_okc; exact Hv]|].
    destruct (t =? 2); [apply typed_charset; [reflexivity|apply hex_print_okc; exact Hv]|].
    pose proof (alt_by_type_spec t) as A. destruct (alt_by_type alt_uri t) as [k|].
    + destruct (nni_len_ok (length v)); [|apply uri_body_charset; exact Hv].
      destruct A as (_ & Hk & _). apply typed_charset; [exact Hk|].
      destruct (dec_print_spec (be_to_N v)) as (_ & Hd & _). apply digits_okc. exact Hd.
    + apply uri_body_charset. exact Hv.
  - unfold to_str_body. split.
    + destruct (t =? 1) eqn:E1; [intros E; destruct s_sha256digest; discriminate|].
      destruct (t =? 2) eqn:E2; [intros E; destruct s_params_sha256; discriminate|].
      destruct (alt_by_type alt_uri t) as [k|];
        [destruct (nni_len_ok (length v)); [intros E; destruct k; discriminate|]|];
        intros E; destruct (uri_body_empty t v Ht E) as [-> ->]; reflexivity.
    + intros E. destruct (comp_enc_generic_empty t v Ht E) as [-> ->]. reflexivity.
Qed.

(* C09: URI round trip (with naming-convention shorthands) for every name whose typed numbers
   are canonically encoded *)
Theorem name_uri_roundtrip n :
  Forall uri_comp_num n -> (do u <- name_to_str n ;; name_from_str u) = Ok n.
Proof.
  intros H. apply render_roundtrip. eapply Forall_impl; [|exact H]. apply shorthand_part_ok.
Qed.
