(* C03 / C05 — generic lemmas about the batch operations of Model/ExpressPipeline.v:
   [upd_all] (per-record map), [pit_map]/[pit_hits] (filter over the flattened PIT), association lists. *)
From NDN Require Import Base.Prelude Spec.ExpressSpec Model.ExpressPipeline.
Local Open Scope N_scope.

Lemma name_eqb_eq a b : name_eqb a b = true <-> a = b.
Proof. apply list_eqb_spec. intros; apply N.eqb_eq. Qed.
Lemma name_eqb_refl a : name_eqb a a = true.
Proof. apply name_eqb_eq; reflexivity. Qed.
Lemma name_eqb_sym a b : name_eqb a b = name_eqb b a.
Proof.
  destruct (name_eqb a b) eqn:E.
  - apply name_eqb_eq in E; subst. symmetry; apply name_eqb_refl.
  - destruct (name_eqb b a) eqn:F; auto. apply name_eqb_eq in F; subst. rewrite name_eqb_refl in E; discriminate.
Qed.
Lemma is_prefix_refl a : is_prefix a a = true.
Proof. induction a; cbn; auto. rewrite N.eqb_refl; auto. Qed.

(* ---- association lists keyed by N ---- *)
Lemma al_get_map {V W} (g : N -> V -> W) (l : list (N * V)) i :
  al_get N.eqb (map (fun kv : N * V => (fst kv, g (fst kv) (snd kv))) l) i = option_map (g i) (al_get N.eqb l i).
Proof.
  induction l as [|[k v] l IH]; cbn; [reflexivity|].
  destruct (N.eqb_spec i k); subst; auto.
Qed.

Lemma al_get_app {V} (l1 l2 : list (N * V)) i :
  al_get N.eqb (l1 ++ l2) i = match al_get N.eqb l1 i with Some v => Some v | None => al_get N.eqb l2 i end.
Proof. induction l1 as [|[k v] l1 IH]; cbn; auto. destruct (i =? k); auto. Qed.

Lemma al_get_In {V} (l : list (N * V)) i v : al_get N.eqb l i = Some v -> In (i, v) l.
Proof.
  induction l as [|[k w] l IH]; cbn; [discriminate|].
  destruct (N.eqb_spec i k); subst; intros H; [inversion H; auto | auto].
Qed.
Lemma al_get_None_notin {V} (l : list (N * V)) i : al_get N.eqb l i = None <-> ~ In i (map fst l).
Proof.
  induction l as [|[k w] l IH]; cbn; [tauto|].
  destruct (N.eqb_spec i k); subst.
  - split; [discriminate | intros H; exfalso; apply H; auto].
  - rewrite IH. split; [intros H [E|E]; [congruence | tauto] | tauto].
Qed.
Lemma In_al_get {V} (l : list (N * V)) i v : NoDup (map fst l) -> In (i, v) l -> al_get N.eqb l i = Some v.
Proof.
  induction l as [|[k w] l IH]; cbn; [tauto|]. intros ND [E|E].
  - inversion E; subst. rewrite N.eqb_refl; auto.
  - inversion ND; subst. destruct (N.eqb_spec i k); subst.
    + exfalso. apply H1. apply in_map_iff. exists (k, v); auto.
    + auto.
Qed.
Lemma al_mem_get {V} (l : list (N * V)) i : al_mem N.eqb l i = match al_get N.eqb l i with Some _ => true | None => false end.
Proof. reflexivity. Qed.

(* ---- upd_all ---- *)
Lemma get_int_upd_all f s i : get_int (upd_all f s) i = option_map (fun r => f_rec (f i r)) (get_int s i).
Proof. unfold get_int, upd_all; cbn. apply (al_get_map (fun k r => f_rec (f k r))). Qed.

Lemma ids_upd_all f s : map fst (ints (upd_all f s)) = map fst (ints s).
Proof. unfold upd_all; cbn. rewrite map_map; cbn. reflexivity. Qed.

Lemma upd_all_pit f s : pit (upd_all f s) = pit s. Proof. reflexivity. Qed.
Lemma upd_all_now f s : now (upd_all f s) = now s. Proof. reflexivity. Qed.
Lemma upd_all_shut f s : shut (upd_all f s) = shut s. Proof. reflexivity. Qed.
Lemma upd_all_fib f s : fib (upd_all f s) = fib s. Proof. reflexivity. Qed.
Lemma upd_all_hcalls f s : hcalls (upd_all f s) = hcalls s. Proof. reflexivity. Qed.

Lemma map_fst_snd_id {A B} (l : list (A * B)) : map (fun kr : A * B => (fst kr, snd kr)) l = l.
Proof. induction l as [|[a b] l IH]; cbn; congruence. Qed.
Lemma flat_map_nil {A B} (l : list A) : flat_map (fun _ : A => @nil B) l = [].
Proof. induction l; cbn; auto. Qed.

Lemma upd_all_ext f g s :
  (forall i r, In (i, r) (ints s) -> f i r = g i r) -> upd_all f s = upd_all g s.
Proof.
  intros H. unfold upd_all.
  assert (E1 : map (fun kr : N * irec => (fst kr, f_rec (f (fst kr) (snd kr)))) (ints s)
             = map (fun kr : N * irec => (fst kr, f_rec (g (fst kr) (snd kr)))) (ints s)).
  { apply map_ext_in. intros [k r] I; cbn. rewrite (H k r I); auto. }
  assert (E2 : forall (A : Type) (p : eff -> list A),
             flat_map (fun kr : N * irec => p (f (fst kr) (snd kr))) (ints s)
             = flat_map (fun kr : N * irec => p (g (fst kr) (snd kr))) (ints s)).
  { intros A p. rewrite !flat_map_concat_map. f_equal. apply map_ext_in. intros [k r] I; cbn. rewrite (H k r I); auto. }
  rewrite E1, (E2 _ f_log), (E2 _ f_vcalls), (E2 _ f_errs). reflexivity.
Qed.

Lemma upd_all_keep s : upd_all (fun _ r => keep r) s = s.
Proof.
  unfold upd_all, keep; cbn. rewrite map_fst_snd_id, !flat_map_nil, !app_nil_r. destruct s; reflexivity.
Qed.

Lemma upd_all_id f s : (forall i r, In (i, r) (ints s) -> f i r = keep r) -> upd_all f s = s.
Proof. intros H. rewrite (upd_all_ext f (fun _ r => keep r)); auto. apply upd_all_keep. Qed.

(* ---- the flattened PIT ---- *)
Definition pflat (p : pit_t) : list (name * N * entry) :=
  flat_map (fun kv : name * pnode => map (fun e => (fst kv, fst (snd kv), e)) (snd (snd kv))) p.
Definition lift (h : name -> N -> entry -> bool) (x : name * N * entry) : bool := h (fst (fst x)) (snd (fst x)) (snd x).
Definition xid (x : name * N * entry) : N := e_id (snd x).

Lemma pit_hits_flat h p : pit_hits h p = map xid (filter (lift h) (pflat p)).
Proof.
  unfold pit_hits, pflat. induction p as [|[pn [nid es]] p IH]; cbn; [reflexivity|].
  rewrite filter_app, map_app, IH. f_equal.
  induction es as [|e es IHe]; cbn; [reflexivity|].
  unfold lift at 1; cbn. destruct (h pn nid e); cbn; rewrite IHe; reflexivity.
Qed.

Lemma pflat_pit_map kp p : pflat (pit_map kp p) = filter (lift kp) (pflat p).
Proof.
  unfold pit_map, pflat. induction p as [|[pn [nid es]] p IH]; cbn; [reflexivity|].
  rewrite filter_app, <- IH.
  assert (E : filter (lift kp) (map (fun e => (pn, nid, e)) es) = map (fun e => (pn, nid, e)) (filter (kp pn nid) es)).
  { induction es as [|e es IHe]; cbn; [reflexivity|]. unfold lift at 1; cbn. destruct (kp pn nid e); cbn; rewrite IHe; reflexivity. }
  rewrite E. unfold nonempty at 1; cbn.
  destruct (filter (kp pn nid) es) eqn:F; cbn; reflexivity.
Qed.

Lemma pit_entries_flat p : pit_hits (fun _ _ _ => true) p = map xid (pflat p).
Proof.
  rewrite pit_hits_flat. f_equal. induction (pflat p) as [|x l IH]; cbn; [reflexivity|]. f_equal; exact IH.
Qed.

Lemma pflat_In p pn nid e : In (pn, nid, e) (pflat p) <-> exists es, In (pn, (nid, es)) p /\ In e es.
Proof.
  unfold pflat. rewrite in_flat_map. split.
  - intros [[pn' [nid' es]] [I1 I2]]; cbn in I2. apply in_map_iff in I2. destruct I2 as [e' [E I3]]. inversion E; subst. eauto.
  - intros [es [I1 I2]]. exists (pn, (nid, es)); split; auto. cbn. apply in_map_iff. eauto.
Qed.

Lemma pit_map_keys_sub kp p k : In k (map fst (pit_map kp p)) -> In k (map fst p).
Proof.
  unfold pit_map. intros H. apply in_map_iff in H. destruct H as [[pn nd] [E I]]. cbn in E; subst.
  apply filter_In in I. destruct I as [I _]. apply in_map_iff in I. destruct I as [x [E I]].
  apply in_map_iff. exists x; split; auto. inversion E; reflexivity.
Qed.

Lemma NoDup_map_filter {A B} (f : A -> B) (q : A -> bool) l : NoDup (map f l) -> NoDup (map f (filter q l)).
Proof.
  induction l as [|a l IH]; cbn; auto. intros ND. inversion ND; subst. destruct (q a); cbn; auto.
  constructor; auto. intros I. apply H1. apply in_map_iff in I. destruct I as [x [E I]]. apply filter_In in I.
  apply in_map_iff. exists x; tauto.
Qed.

Lemma pit_map_keys_nodup kp p : NoDup (map fst p) -> NoDup (map fst (pit_map kp p)).
Proof.
  intros ND. unfold pit_map. apply NoDup_map_filter. rewrite map_map; cbn. exact ND.
Qed.

Lemma pit_map_In kp p pn nid es :
  In (pn, (nid, es)) (pit_map kp p) -> es <> [] /\ exists es0, In (pn, (nid, es0)) p /\ es = filter (kp pn nid) es0.
Proof.
  unfold pit_map. intros I. apply filter_In in I. destruct I as [I NE].
  apply in_map_iff in I. destruct I as [[pn' [nid' es0]] [E I]]. cbn in E. inversion E; subst.
  split.
  - unfold nonempty in NE; cbn in NE. destruct (filter (kp pn nid) es0); [discriminate | congruence].
  - eauto.
Qed.

Lemma pit_map_true p : (forall pn nid es, In (pn, (nid, es)) p -> es <> []) -> pit_map (fun _ _ _ => true) p = p.
Proof.
  intros NE. unfold pit_map. induction p as [|[pn [nid es]] p IH]; cbn; [reflexivity|].
  assert (F : filter (fun _ : entry => true) es = es) by (clear; induction es; cbn; congruence).
  rewrite F. unfold nonempty at 1; cbn. destruct es eqn:Ees.
  - exfalso. eapply NE; [left; reflexivity | reflexivity].
  - f_equal. apply IH. intros; eapply NE; right; eauto.
Qed.

Lemma pit_map_ext kp kq p :
  (forall pn nid es e, In (pn, (nid, es)) p -> In e es -> kp pn nid e = kq pn nid e) -> pit_map kp p = pit_map kq p.
Proof.
  intros H. unfold pit_map. f_equal. apply map_ext_in. intros [pn [nid es]] I; cbn. do 2 f_equal.
  apply filter_ext_in. intros e Ie. eapply H; eauto.
Qed.

(* mem *)
Lemma mem_In i l : mem i l = true <-> In i l.
Proof.
  unfold mem. rewrite existsb_exists. split.
  - intros [x [I E]]. apply N.eqb_eq in E; subst; auto.
  - intros I. exists i; split; auto. apply N.eqb_refl.
Qed.

Lemma NoDup_app_intro {A} (l1 l2 : list A) :
  NoDup l1 -> NoDup l2 -> (forall y, In y l1 -> In y l2 -> False) -> NoDup (l1 ++ l2).
Proof.
  induction l1 as [|a l1 IH]; cbn; auto. intros N1 N2 D. inversion N1; subst. constructor.
  - rewrite in_app_iff. intros [I|I]; [auto | eapply D; eauto].
  - apply IH; auto. intros y I1 I2. eapply D; eauto.
Qed.
