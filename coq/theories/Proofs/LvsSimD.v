(* From the source schema to its numbered chains: [chains_of S] holds, for every labelled definition of S, exactly
   (up to [represents]) the chains [expand] gives it. *)
From NDN Require Import Base.Prelude Base.Text Model.TlvVar Model.Name Model.LvsAst Model.LvsChecker Model.LvsCompiler
  Spec.LvsSem Proofs.LvsGenTree Proofs.LvsCompileTree Proofs.LvsSortRules Proofs.LvsNumbering Proofs.LvsReplicate Proofs.LvsCompileOk
  Proofs.LvsRepresents Proofs.LvsExpand Proofs.LvsSimB Proofs.LvsSimC Proofs.LvsNamedInv.
Local Open Scope N_scope.

(* ---- temporary rules: labels and renamed identifiers -------------------------------------------------------------------- *)
Lemma set_rule_id_same r : set_rule_id r (r_id r) = r.
Proof. destruct r; reflexivity. Qed.

Lemma rename_labelled : forall S k, rename_temp_rules k S = map (fun ld => set_rule_id (snd ld) (fst ld)) (labelled k S).
Proof.
  induction S as [|a S IH]; intros k; cbn [rename_temp_rules labelled]; [reflexivity|].
  destruct (is_temp_rule (r_id a)); cbn [map fst snd]; rewrite IH; [reflexivity | rewrite set_rule_id_same; reflexivity].
Qed.

Lemma labelled_snd : forall S k ld, In ld (labelled k S) -> In (snd ld) S.
Proof.
  induction S as [|a S IH]; intros k ld H; cbn [labelled] in H; [destruct H|].
  destruct (is_temp_rule (r_id a)); destruct H as [<-|H]; cbn; auto; right; eapply IH; eauto.
Qed.

Lemma labelled_cover : forall S k d, In d S -> exists lbl, In (lbl, d) (labelled k S).
Proof.
  induction S as [|a S IH]; intros k d H; [destruct H|]. cbn [labelled]. destruct H as [<-|H].
  - destruct (is_temp_rule (r_id a)); eexists; left; reflexivity.
  - destruct (is_temp_rule (r_id a)); [destruct (IH (k + 1) d H) as (lbl & Hl) | destruct (IH k d H) as (lbl & Hl)]; exists lbl; right; exact Hl.
Qed.

Lemma labelled_plain : forall S k lbl d, In (lbl, d) (labelled k S) -> is_temp_rule (r_id d) = false -> lbl = r_id d.
Proof.
  induction S as [|a S IH]; intros k lbl d H Hd; cbn [labelled] in H; [destruct H|].
  destruct (is_temp_rule (r_id a)) eqn:Et; destruct H as [H|H]; try (eapply IH; eauto; fail); inversion H; subst; [congruence | reflexivity].
Qed.

Lemma is_temp_rule_app a b : is_temp_rule a = true -> is_temp_rule (a ++ b) = true.
Proof. destruct a as [|x [|y a]]; cbn; try discriminate; auto. Qed.

Lemma ident_eqb_neq a b : a <> b -> ident_eqb a b = false.
Proof. intros H. destruct (ident_eqb a b) eqn:E; [apply ident_eqb_eq in E; contradiction | reflexivity]. Qed.

Lemma defs_of_rename x : is_temp_rule x = false -> forall S k, defs_of (rename_temp_rules k S) x = defs_of S x.
Proof.
  intros Hx. unfold defs_of. induction S as [|a S IH]; intros k; cbn [rename_temp_rules filter]; [reflexivity|].
  destruct (is_temp_rule (r_id a)) eqn:Et; cbn [filter set_rule_id r_id].
  - rewrite (ident_eqb_neq (r_id a ++ ch_hash :: dec_print k) x), (ident_eqb_neq (r_id a) x), IH; [reflexivity | |].
    + intros E. rewrite E in Et. congruence.
    + intros E. pose proof (is_temp_rule_app (r_id a) (ch_hash :: dec_print k) Et) as H. rewrite E in H. congruence.
  - rewrite IH. reflexivity.
Qed.

Definition refs_plain (S : lvsfile) : Prop := forall d x, In d S -> In (CRef x) (r_name d) -> is_temp_rule x = false.

Lemma flat_map_ext_in' {A B} (f g : A -> list B) l : (forall a, In a l -> f a = g a) -> flat_map f l = flat_map g l.
Proof. induction l as [|a l IH]; intros H; cbn; [reflexivity|]. rewrite (H a (or_introl eq_refl)), IH; [reflexivity|]. intros b Hb. apply H. right. exact Hb. Qed.

Lemma expand_rename S : refs_plain S -> forall k d lbl, In d S ->
  expand k (rename_temp_rules 1 S) (set_rule_id d lbl) = expand k S d.
Proof.
  intros Hpl. induction k as [|k IH]; intros d lbl Hd; [reflexivity|]. rewrite !expand_unfold.
  change (choices (set_rule_id d lbl)) with (choices d). change (r_name (set_rule_id d lbl)) with (r_name d).
  apply flat_map_ext_in'. intros cs _. f_equal. f_equal. apply map_ext_in. intros c Hc.
  destruct c as [v|p|x]; try reflexivity. cbn [alts]. rewrite (defs_of_rename x (Hpl d x Hd Hc)).
  apply flat_map_ext_in'. intros d' Hd'. rewrite <- (set_rule_id_same d') at 1. apply IH. eapply defs_of_in; eauto.
Qed.

(* ---- order of the sorted rules ------------------------------------------------------------------------------------------- *)
Lemma nodup_before {A} (x y : A) : forall q1 q2 o1 o2, NoDup (q1 ++ x :: q2) -> In y q2 -> q1 ++ x :: q2 = o1 ++ y :: o2 -> In x o1.
Proof.
  induction q1 as [|a q1 IH]; intros q2 o1 o2 Hnd Hy E; cbn in *.
  - destruct o1 as [|z o1]; cbn in E; inversion E; subst; [|left; reflexivity]. inversion Hnd; contradiction.
  - destruct o1 as [|z o1]; cbn in E; inversion E; subst.
    + inversion Hnd as [|? ? Hn _]; subst. exfalso. apply Hn. apply in_or_app. right. right. exact Hy.
    + right. inversion Hnd; subst. eapply IH; eauto.
Qed.

Fixpoint idx (x : ident) (l : list ident) : nat :=
  match l with [] => O | y :: r => if ident_eqb x y then O else Datatypes.S (idx x r) end.

Lemma idx_le x l : (idx x l <= length l)%nat.
Proof. induction l as [|y l IH]; cbn; [lia|]. destruct (ident_eqb x y); lia. Qed.

Lemma idx_app_notin x a b : ~ In x a -> idx x (a ++ b) = (length a + idx x b)%nat.
Proof.
  induction a as [|y a IH]; intros H; cbn; [reflexivity|]. rewrite ident_eqb_neq by (intros ->; apply H; left; reflexivity).
  rewrite IH; [reflexivity|]. intros Hx. apply H. right. exact Hx.
Qed.

Lemma nodup_app_l {A} (a b : list A) x : NoDup (a ++ b) -> In x b -> ~ In x a.
Proof.
  induction a as [|y a IH]; intros Hnd Hb; [auto|]. cbn in Hnd. inversion Hnd; subst. intros [->|Ha].
  - apply H1. apply in_or_app. right. exact Hb.
  - eapply IH; eauto.
Qed.

Section Sorted.
  Variable S : lvsfile.
  Let S' := rename_temp_rules 1 S.
  Variable sorted : list rule.
  Variable order : list ident.
  Hypothesis Hclosed : refs_closed S.
  Hypothesis Hnd : NoDup order.
  Hypothesis Hord : forall x, In x order <-> In x (dedup ident_eqb (map r_id S')).
  Hypothesis Hsorted : sorted = sorted_of S order.
  Hypothesis Hin : forall r, In r sorted <-> In r S'.
  Hypothesis Hedge : forall x y q1 q2, ref_edge S x y -> order = q1 ++ y :: q2 -> In x q2.

  Lemma cref_refs d x : In (CRef x) (r_name d) -> In x (refs_of d).
  Proof. intros H. unfold refs_of. apply in_flat_map. exists (CRef x). split; [exact H | left; reflexivity]. Qed.

  Lemma id_in_order d : In d S' -> In (r_id d) order.
  Proof. intros Hd. apply Hord. apply (in_dedup _ ident_eqb_eq). apply in_map. exact Hd. Qed.

  Lemma earlier_defs l1 r l2 x d' : sorted = l1 ++ r :: l2 -> In (CRef x) (r_name r) -> In d' (defs_of S' x) -> In d' l1.
  Proof.
    intros Es Hx Hd'. rewrite Hsorted in Es. unfold sorted_of in Es.
    destruct (flat_map_split _ _ _ _ _ Es) as (o1 & y & o2 & p1 & p2 & Eo & Ey & ->).
    assert (Hr : In r (filter (fun r0 => ident_eqb (r_id r0) y) (rename_temp_rules 1 S))) by (rewrite Ey; apply in_or_app; right; left; reflexivity).
    apply filter_In in Hr. destruct Hr as [HrS Hry]. apply ident_eqb_eq in Hry.
    assert (He : ref_edge S y x) by (exists r; split; [exact HrS | split; [exact Hry | apply cref_refs, Hx]]).
    pose proof Hd' as Hd2. unfold defs_of in Hd2. apply filter_In in Hd2. destruct Hd2 as [Hd2 Hidx]. apply ident_eqb_eq in Hidx.
    pose proof (id_in_order d' Hd2) as Hxo. rewrite Hidx in Hxo. apply in_split in Hxo. destruct Hxo as (q1 & q2 & Eq).
    pose proof (Hedge y x q1 q2 He Eq) as Hy2.
    assert (Hxo1 : In x o1) by (apply (nodup_before x y q1 q2 o1 o2); [rewrite <- Eq; exact Hnd | exact Hy2 | rewrite <- Eq; exact Eo]).
    apply in_or_app. left. apply in_flat_map. exists x. split; [exact Hxo1 | exact Hd'].
  Qed.

  Definition height (d : rule) : nat := idx (r_id d) order.

  Lemma height_edge d r d' : In d S' -> In (CRef r) (r_name d) -> In d' (defs_of S' r) -> (height d' < height d)%nat.
  Proof.
    intros Hd Hr Hd'. unfold height.
    assert (He : ref_edge S (r_id d) r) by (exists d; split; [exact Hd | split; [reflexivity | apply cref_refs, Hr]]).
    unfold defs_of in Hd'. apply filter_In in Hd'. destruct Hd' as [Hd2 Hidx]. apply ident_eqb_eq in Hidx.
    pose proof (id_in_order d' Hd2) as Hxo. rewrite Hidx in Hxo |- *. apply in_split in Hxo. destruct Hxo as (q1 & q2 & Eq).
    pose proof (Hedge _ _ q1 q2 He Eq) as Hy2. rewrite Eq in Hnd |- *.
    assert (Hn1 : ~ In r q1) by (eapply nodup_app_l; [exact Hnd | left; reflexivity]).
    assert (Hn2 : ~ In (r_id d) q1) by (eapply nodup_app_l; [exact Hnd | right; exact Hy2]).
    assert (Hn3 : r_id d <> r).
    { intros E. apply NoDup_remove_2 in Hnd. apply Hnd. apply in_or_app. right. rewrite <- E. exact Hy2. }
    rewrite !idx_app_notin by assumption. cbn [idx]. rewrite (proj2 (ident_eqb_eq r r) eq_refl), (ident_eqb_neq _ _ Hn3). lia.
  Qed.

  Lemma rename_length : forall (T : lvsfile) k, length (rename_temp_rules k T) = length T.
  Proof. induction T as [|a T IH]; intros k; cbn; [reflexivity|]. destruct (is_temp_rule (r_id a)); cbn; rewrite IH; reflexivity. Qed.

  Lemma height_bound d : (height d < 2 + length S)%nat.
  Proof.
    unfold height. pose proof (idx_le (r_id d) order).
    assert (length order <= length (map r_id S'))%nat.
    { apply NoDup_incl_length; [exact Hnd|]. intros x Hx. apply (proj1 (Hord x)) in Hx. apply (proj1 (in_dedup _ ident_eqb_eq _ _)) in Hx. exact Hx. }
    rewrite map_length in H0. unfold S' in H0. rewrite rename_length in H0. lia.
  Qed.

  Lemma stable d f : In d S' -> In f (expand (Datatypes.S (2 + length S)) S' d) -> In f (expand (2 + length S) S' d).
  Proof. intros Hd. apply (expand_down S' height height_edge); [exact Hd | apply height_bound]. Qed.

  Lemma closed_plain : refs_plain S.
  Proof.
    intros d x Hd Hx. destruct (labelled_cover S 1 d Hd) as (lbl & Hl).
    assert (Hd' : In (set_rule_id d lbl) S').
    { unfold S'. rewrite rename_labelled. apply in_map_iff. exists (lbl, d). auto. }
    destruct (Hclosed (set_rule_id d lbl) x Hd') as [_ Ht]; [|exact Ht]. apply cref_refs. exact Hx.
  Qed.
End Sorted.

(* ---- the chains of a schema ------------------------------------------------------------------------------------------------ *)
Theorem chains_of_expand S chains st : chains_of S = Ok (chains, st) ->
  (forall rc, In rc chains -> exists lbl d f, In (lbl, d) (labelled 1 S) /\ In f (expand (ref_fuel S) S d) /\ ch_id rc = lbl /\
        represents (ns_named st) rc f /\ ch_sign rc = isort str_leb (r_sign d)) /\
  (forall lbl d f, In (lbl, d) (labelled 1 S) -> In f (expand (ref_fuel S) S d) ->
        exists rc, In rc chains /\ ch_id rc = lbl /\ represents (ns_named st) rc f /\ ch_sign rc = isort str_leb (r_sign d)).
Proof.
  intros Hc. unfold chains_of in Hc.
  destruct (sort_rule_references S) as [[sorted order]|] eqn:Es; cbn [bind fst] in Hc; [|discriminate].
  pose proof (sort_rule_references_spec S) as Hs. rewrite Es in Hs. destruct Hs as (Hclosed & Hnd & Hord & Hsorted & Hin & Hafter & Hedge).
  destruct (gen_pattern_numbers sorted) as [[nrules st']|] eqn:En; cbn [bind] in Hc; [|discriminate].
  destruct (replicate_rules nrules (ns_next_temp st')) as [rep|] eqn:Er; cbn [bind] in Hc; [|discriminate].
  inversion Hc; subst chains st'. clear Hc.
  pose proof (gen_pattern_numbers_spec sorted) as Hn. rewrite En in Hn. destruct Hn as (HI & _).
  pose proof (gen_pattern_numbers_good _ _ _ En) as Hgood.
  pose proof (closed_plain S Hclosed) as Hplain.
  set (S' := rename_temp_rules 1 S) in *. set (K' := (2 + length S)%nat).
  destruct (replicate_sim S' (ns_named st) (ns_next_temp st) K' (named_good_inj _ Hgood) (named_good_nt _ Hgood) (ni_temp _ HI)
              (stable S sorted order Hnd Hord Hin Hedge) sorted nrules (fun d Hd => proj1 (Hin d) Hd)
              (earlier_defs S sorted order Hnd Hord Hsorted Hedge) (ns_next_temp st) rep
              (gen_pattern_numbers_full _ _ _ En) (gen_pattern_numbers_num _ _ _ En) (N.le_refl _) Er) as (k & [_ Hsound Hcomplete]).
  assert (Hmem : forall rc, In rc (concat (map snd (sort_by_key rep))) <-> exists x chs, In (x, chs) rep /\ In rc chs).
  { intros rc. rewrite in_concat. split.
    - intros (chs & Hchs & Hrc). apply in_map_iff in Hchs. destruct Hchs as ([x chs'] & <- & Hp). apply (proj1 (in_sort_by_key rep _)) in Hp. eauto.
    - intros (x & chs & Hp & Hrc). exists chs. split; [|exact Hrc]. apply in_map_iff. exists (x, chs). split; [reflexivity | apply (proj2 (in_sort_by_key rep _)); exact Hp]. }
  assert (HS' : forall d', In d' S' <-> exists lbl d, In (lbl, d) (labelled 1 S) /\ d' = set_rule_id d lbl).
  { intros d'. unfold S'. rewrite rename_labelled, in_map_iff. split.
    - intros ([lbl d] & <- & Hl). exists lbl, d. auto.
    - intros (lbl & d & Hl & ->). exists (lbl, d). auto. }
  split.
  - intros rc Hrc. apply (proj1 (Hmem rc)) in Hrc. destruct Hrc as (x & chs & Hp & Hrc).
    destruct (Hsound x chs rc Hp Hrc) as (d' & f & Hd' & Hidx & Hf & Hrep & _ & Hid & Hsg).
    apply (proj1 (Hin d')) in Hd'. apply (proj1 (HS' d')) in Hd'. destruct Hd' as (lbl & d & Hl & ->).
    exists lbl, d, f. split; [exact Hl|]. cbn [set_rule_id r_id r_sign] in *.
    split; [|split; [congruence | split; [exact Hrep | exact Hsg]]].
    pose proof (labelled_snd _ _ _ Hl) as HdS. cbn in HdS. unfold S' in Hf. rewrite (expand_rename S Hplain K' d lbl HdS) in Hf.
    apply (expand_mono S K'). exact Hf.
  - intros lbl d f Hl Hf. pose proof (labelled_snd _ _ _ Hl) as HdS. cbn in HdS.
    assert (Hd' : In (set_rule_id d lbl) S') by (apply (proj2 (HS' _)); eauto).
    change (ref_fuel S) with (Datatypes.S K') in Hf. rewrite <- (expand_rename S Hplain (Datatypes.S K') d lbl HdS) in Hf.
    apply (stable S sorted order Hnd Hord Hin Hedge _ _ Hd') in Hf.
    destruct (Hcomplete (set_rule_id d lbl) f (proj2 (Hin _) Hd') Hf) as (chs & rc & Hg & Hrc & Hrep & Hsg).
    apply al_get_in_pair in Hg. cbn [set_rule_id r_id r_sign] in *.
    destruct (Hsound _ chs rc Hg Hrc) as (_ & _ & _ & _ & _ & _ & _ & Hid & _).
    exists rc. split; [apply (proj2 (Hmem rc)); eauto | auto].
Qed.
