(* Decimal / hexadecimal printing and parsing round trips; per-byte facts by exhaustive check. *)
From NDN Require Import Base.Prelude Base.Text.
Local Open Scope N_scope.

Arguments N.pow : simpl never.
Arguments N.mul : simpl never.
Arguments N.add : simpl never.
Arguments N.div : simpl never.
Arguments N.modulo : simpl never.
Arguments N.log2 : simpl never.

(* ---- a finite-domain principle: a boolean fact checked on 0..255 holds for every byte ---- *)
Definition all_bytes : list N := map N.of_nat (seq 0 256).
Lemma byte_forall (P : N -> bool) : forallb P all_bytes = true -> forall b, b < 256 -> P b = true.
Proof.
  intros H b Hb. rewrite forallb_forall in H. apply H. unfold all_bytes.
  apply in_map_iff. exists (N.to_nat b). split; [lia|]. apply in_seq. lia.
Qed.

(* ---- decimal -------------------------------------------------------------------------------- *)
Definition dec_val (a : N) (s : str) : N := fold_left (fun a c => a * 10 + (c - 48)) s a.

Lemma dec_val_app a x y : dec_val a (x ++ y) = dec_val (dec_val a x) y.
Proof. unfold dec_val. apply fold_left_app. Qed.

Lemma dec_digits_all_digits s : forall acc b,
  forallb is_digit s = true -> s <> [] -> dec_digits acc b s = Some (dec_val acc s).
Proof.
  induction s as [|c s IH]; intros acc b Hd Hne; [congruence|].
  cbn [forallb] in Hd. apply andb_true_iff in Hd. destruct Hd as [Hc Hs].
  cbn [dec_digits]. rewrite Hc. destruct s as [|c' s'].
  - reflexivity.
  - rewrite IH by (assumption || discriminate). reflexivity.
Qed.

Lemma dec_aux_spec fuel : forall n acc,
  (1 <= fuel)%nat -> n < 10 ^ N.of_nat fuel ->
  exists ds, dec_aux fuel n acc = ds ++ acc /\ ds <> [] /\ forallb is_digit ds = true /\
             forall a, dec_val a ds = a * 10 ^ N.of_nat (length ds) + n.
Proof.
  induction fuel as [|f IH]; intros n acc Hf Hn; [lia|].
  cbn [dec_aux]. pose proof (N.mod_lt n 10 ltac:(lia)) as Hm.
  destruct (n <? 10) eqn:E.
  - exists [48 + n mod 10]. repeat split.
    + discriminate.
    + cbn. unfold is_digit. lia.
    + intros a. cbn. rewrite N.mod_small by lia. change (10 ^ N.of_nat 1) with 10. lia.
  - assert (Hf' : (1 <= f)%nat).
    { destruct f; [|lia]. change (10 ^ N.of_nat 1) with 10 in Hn. lia. }
    replace (N.of_nat (S f)) with (N.succ (N.of_nat f)) in Hn by lia. rewrite N.pow_succ_r' in Hn.
    destruct (IH (n / 10) ((48 + n mod 10) :: acc) Hf') as (ds & E1 & Hne & Hd & Hv).
    { apply N.div_lt_upper_bound; lia. }
    exists (ds ++ [48 + n mod 10]). repeat split.
    + rewrite E1, <- app_assoc. reflexivity.
    + destruct ds; discriminate.
    + rewrite forallb_app, Hd. cbn. unfold is_digit. lia.
    + intros a. rewrite dec_val_app, Hv, app_length. cbn [length].
      replace (N.of_nat (length ds + 1)) with (N.succ (N.of_nat (length ds))) by lia.
      rewrite N.pow_succ_r'. cbn. pose proof (N.div_mod n 10 ltac:(lia)). lia.
Qed.

Lemma dec_fuel_ok n : n < 10 ^ N.of_nat (S (N.to_nat (N.log2 n))).
Proof.
  replace (N.of_nat (S (N.to_nat (N.log2 n)))) with (N.succ (N.log2 n)) by lia.
  destruct (N.eq_dec n 0) as [->|Hn].
  - cbn. lia.
  - apply N.lt_le_trans with (2 ^ N.succ (N.log2 n)).
    + apply N.log2_spec. lia.
    + apply N.pow_le_mono_l. lia.
Qed.

Theorem dec_print_spec n :
  dec_print n <> [] /\ forallb is_digit (dec_print n) = true /\ dec_val 0 (dec_print n) = n.
Proof.
  unfold dec_print.
  destruct (dec_aux_spec (S (N.to_nat (N.log2 n))) n [] ltac:(lia) (dec_fuel_ok n)) as (ds & E & Hne & Hd & Hv).
  rewrite E, app_nil_r. repeat split; try assumption. rewrite Hv. lia.
Qed.

Lemma is_digit_not_minus c : is_digit c = true -> c <> 45.
Proof. unfold is_digit. lia. Qed.

(* int(f"{n}") = n *)
Theorem py_int_dec_print n : py_int (dec_print n) = Some (Z.of_N n).
Proof.
  destruct (dec_print_spec n) as (Hne & Hd & Hv). unfold py_int.
  destruct (dec_print n) as [|c s] eqn:E; [congruence|].
  assert (Hc : is_digit c = true) by (cbn in Hd; apply andb_true_iff in Hd; tauto).
  assert (c <> 45) by (apply is_digit_not_minus; exact Hc).
  destruct (N.eq_dec c 45) as [->|_]; [congruence|].
  rewrite dec_digits_all_digits by (assumption || discriminate). rewrite Hv.
  destruct c as [|p]; [reflexivity|].
  (* the match on the literal 45 *)
  repeat (destruct p as [p|p|]; try reflexivity); congruence.
Qed.

(* ---- hexadecimal -------------------------------------------------------------------------- *)
Definition opt_is (o : option N) (v : N) : bool := match o with Some x => x =? v | None => false end.

Lemma opt_is_spec o v : opt_is o v = true -> o = Some v.
Proof. destruct o; cbn; [intros H; apply N.eqb_eq in H; congruence|discriminate]. Qed.

Lemma hex_upper_roundtrip b : b < 256 ->
  hexval (hexdigit_upper (b / 16)) = Some (b / 16) /\ hexval (hexdigit_upper (b mod 16)) = Some (b mod 16)
  /\ b / 16 * 16 + b mod 16 = b.
Proof.
  intros Hb.
  pose proof (byte_forall (fun b => opt_is (hexval (hexdigit_upper (b / 16))) (b / 16)
                                    && opt_is (hexval (hexdigit_upper (b mod 16))) (b mod 16)
                                    && (b / 16 * 16 + b mod 16 =? b)) ltac:(vm_compute; reflexivity) b Hb) as H.
  cbv beta in H. apply andb_true_iff in H. destruct H as [H H3]. apply andb_true_iff in H. destruct H as [H1 H2].
  apply opt_is_spec in H1. apply opt_is_spec in H2. apply N.eqb_eq in H3. auto.
Qed.

Lemma hex_lower_roundtrip b : b < 256 ->
  hexval (hexdigit_lower (b / 16)) = Some (b / 16) /\ hexval (hexdigit_lower (b mod 16)) = Some (b mod 16)
  /\ b / 16 * 16 + b mod 16 = b.
Proof.
  intros Hb.
  pose proof (byte_forall (fun b => opt_is (hexval (hexdigit_lower (b / 16))) (b / 16)
                                    && opt_is (hexval (hexdigit_lower (b mod 16))) (b mod 16)
                                    && (b / 16 * 16 + b mod 16 =? b)) ltac:(vm_compute; reflexivity) b Hb) as H.
  cbv beta in H. apply andb_true_iff in H. destruct H as [H H3]. apply andb_true_iff in H. destruct H as [H1 H2].
  apply opt_is_spec in H1. apply opt_is_spec in H2. apply N.eqb_eq in H3. auto.
Qed.

(* fromhex(b.hex()) = b *)
Theorem hex_parse_print (b : bytes) : wf_bytes b -> hex_parse (hex_print b) = Some b.
Proof.
  induction 1 as [|x b Hx Hb IH]; [reflexivity|].
  cbn [hex_print hex_parse]. destruct (hex_lower_roundtrip x Hx) as (H1 & H2 & H3).
  rewrite H1, H2. cbn [obind]. rewrite IH. cbn [obind]. rewrite H3. reflexivity.
Qed.

(* ---- split / join ----------------------------------------------------------------------------- *)
Lemma split_on_nonempty sep s : split_on sep s <> [].
Proof. induction s as [|c s IH]; cbn; [discriminate|]. destruct (c =? sep); [discriminate|]. destruct (split_on sep s); discriminate. Qed.

Lemma split_on_no_sep sep s : forallb (fun c => negb (c =? sep)) s = true -> split_on sep s = [s].
Proof.
  induction s as [|c s IH]; intros H; [reflexivity|].
  cbn [forallb] in H. apply andb_true_iff in H. destruct H as [Hc Hs].
  cbn [split_on]. destruct (c =? sep); [discriminate|]. rewrite IH by exact Hs. reflexivity.
Qed.

Lemma split_on_app sep a r :
  forallb (fun c => negb (c =? sep)) a = true ->
  split_on sep (a ++ sep :: r) = a :: split_on sep r.
Proof.
  induction a as [|c a IH]; intros H.
  - cbn [app split_on]. rewrite N.eqb_refl. reflexivity.
  - cbn [forallb] in H. apply andb_true_iff in H. destruct H as [Hc Hs].
    cbn [app split_on]. destruct (c =? sep); [discriminate|]. rewrite IH by exact Hs. reflexivity.
Qed.

(* split(join(parts)) = parts when no part contains the separator and there is at least one part *)
Theorem split_join sep (parts : list str) :
  parts <> [] -> Forall (fun p => forallb (fun c => negb (c =? sep)) p = true) parts ->
  split_on sep (join_with sep parts) = parts.
Proof.
  intros Hne H. revert Hne. induction H as [|p parts Hp Hps IH]; intros Hne; [exfalso; apply Hne; reflexivity|].
  destruct parts as [|q parts].
  - cbn [join_with]. apply split_on_no_sep. exact Hp.
  - change (join_with sep (p :: q :: parts)) with (p ++ sep :: join_with sep (q :: parts)).
    rewrite split_on_app by exact Hp. rewrite IH by discriminate. reflexivity.
Qed.
