(* C06 (A): running a reading coroutine against a growing buffer.  The three resumption lemmas say that
   a coroutine cannot tell whether the bytes arrived at once or in pieces; they hold for EVERY
   coroutine tree, because readexactly consumes nothing until it can return. *)
From NDN Require Import Base.Prelude Model.TlvVar Model.Stream Spec.Framing Proofs.BytesLemmas Proofs.TlvVarProofs.
Local Open Scope N_scope.

Arguments N.of_nat : simpl never.
Arguments N.to_nat : simpl never.

Lemma firstn_app_le {A} n (a b : list A) : (n <= length a)%nat -> firstn n (a ++ b) = firstn n a.
Proof. intros H. rewrite firstn_app. replace (n - length a)%nat with 0%nat by lia. cbn. apply app_nil_r. Qed.

Lemma skipn_app_le {A} n (a b : list A) : (n <= length a)%nat -> skipn n (a ++ b) = skipn n a ++ b.
Proof. intros H. rewrite skipn_app. replace (n - length a)%nat with 0%nat by lia. reflexivity. Qed.

Section Resume.
  Context {A : Type}.

  Lemma read_enough_app n (buf c : bytes) :
    (n <=? N.of_nat (length buf)) = true -> (n <=? N.of_nat (length (buf ++ c))) = true.
  Proof. rewrite app_length. lia. Qed.

  Lemma run_one_done_app (m : rd A) : forall buf c a rest,
    run_one m buf = ODone a rest -> run_one m (buf ++ c) = ODone a (rest ++ c).
  Proof.
    induction m as [a0|e|n k IH]; intros buf c a rest H; cbn [run_one] in *.
    - inversion H; subst. reflexivity.
    - discriminate.
    - destruct (n <=? N.of_nat (length buf)) eqn:E; [|discriminate].
      rewrite (read_enough_app _ _ c E).
      rewrite firstn_app_le, skipn_app_le by lia. apply IH. exact H.
  Qed.

  Lemma run_one_fail_app (m : rd A) : forall buf c e,
    run_one m buf = OFail e -> run_one m (buf ++ c) = OFail e.
  Proof.
    induction m as [a0|e0|n k IH]; intros buf c e H; cbn [run_one] in *.
    - discriminate.
    - exact H.
    - destruct (n <=? N.of_nat (length buf)) eqn:E; [|discriminate].
      rewrite (read_enough_app _ _ c E).
      rewrite firstn_app_le, skipn_app_le by lia. apply IH. exact H.
  Qed.

  (* resuming the suspended coroutine on the old buffer plus the new bytes = running the original
     coroutine on everything *)
  Lemma run_one_blocked_app (m : rd A) : forall buf c m' b,
    run_one m buf = OBlocked m' b -> run_one m (buf ++ c) = run_one m' (b ++ c).
  Proof.
    induction m as [a0|e0|n k IH]; intros buf c m' b H; cbn [run_one] in H.
    - discriminate.
    - discriminate.
    - destruct (n <=? N.of_nat (length buf)) eqn:E.
      + cbn [run_one]. rewrite (read_enough_app _ _ c E).
        rewrite firstn_app_le, skipn_app_le by lia. eapply IH. exact H.
      + inversion H; subst. reflexivity.
  Qed.

  (* a suspended coroutine waits at a readexactly(n) with fewer than n bytes buffered *)
  Definition waiting (m : rd A) (b : bytes) : Prop :=
    exists n k, m = Read n k /\ N.of_nat (length b) < n.

  Lemma run_one_blocked_inv (m : rd A) : forall buf m' b,
    run_one m buf = OBlocked m' b -> waiting m' b.
  Proof.
    induction m as [a0|e0|n k IH]; intros buf m' b H; cbn [run_one] in H; try discriminate.
    destruct (n <=? N.of_nat (length buf)) eqn:E.
    - eapply IH. exact H.
    - inversion H; subst. exists n, k. split; [reflexivity|lia].
  Qed.

  Lemma waiting_blocked (m : rd A) b : waiting m b -> run_one m b = OBlocked m b.
  Proof.
    intros (n & k & -> & H). cbn [run_one]. replace (n <=? N.of_nat (length b)) with false by lia. reflexivity.
  Qed.

  (* what is left over is a suffix of what was there *)
  Lemma run_one_done_suffix (m : rd A) : forall buf a rest,
    run_one m buf = ODone a rest -> exists used, buf = used ++ rest.
  Proof.
    induction m as [a0|e0|n k IH]; intros buf a rest H; cbn [run_one] in H; try discriminate.
    - inversion H; subst. exists []. reflexivity.
    - destruct (n <=? N.of_nat (length buf)) eqn:E; [|discriminate].
      destruct (IH _ _ _ _ H) as [used Hu]. exists (firstn (N.to_nat n) buf ++ used).
      rewrite <- app_assoc, <- Hu. symmetry. apply firstn_skipn.
  Qed.

  Lemma run_one_blocked_buf (m : rd A) : forall buf m' b,
    run_one m buf = OBlocked m' b -> exists used, buf = used ++ b.
  Proof.
    induction m as [a0|e0|n k IH]; intros buf m' b H; cbn [run_one] in H; try discriminate.
    destruct (n <=? N.of_nat (length buf)) eqn:E.
    - destruct (IH _ _ _ _ H) as [used Hu]. exists (firstn (N.to_nat n) buf ++ used).
      rewrite <- app_assoc, <- Hu. symmetry. apply firstn_skipn.
    - inversion H; subst. exists []. reflexivity.
  Qed.

  (* a coroutine that starts with readexactly(n), n >= 1, consumes at least one byte when it finishes *)
  Lemma run_one_read_consumes n k buf (a : A) rest :
    1 <= n -> run_one (Read n k) buf = ODone a rest -> (length rest < length buf)%nat.
  Proof.
    intros Hn H. cbn [run_one] in H. destruct (n <=? N.of_nat (length buf)) eqn:E; [|discriminate].
    destruct (run_one_done_suffix _ _ _ _ H) as [used Hu].
    assert (length (skipn (N.to_nat n) buf) = length used + length rest)%nat by (rewrite Hu, app_length; reflexivity).
    rewrite skipn_length in H0. lia.
  Qed.

  (* coroutines none of whose paths raise, whatever bytes of the requested size they are given *)
  Fixpoint never_fails (m : rd A) : Prop :=
    match m with
    | Ret _ => True
    | Fail _ => False
    | Read n k => forall x, N.of_nat (length x) = n -> never_fails (k x)
    end.

  Lemma never_fails_run (m : rd A) : never_fails m -> forall buf e, run_one m buf <> OFail e.
  Proof.
    induction m as [a0|e0|n k IH]; intros Hs buf e; cbn [run_one]; try discriminate.
    - destruct Hs.
    - destruct (n <=? N.of_nat (length buf)) eqn:E; [|discriminate].
      apply IH. apply Hs. rewrite firstn_length. lia.
  Qed.

  Lemma never_fails_blocked (m : rd A) : never_fails m -> forall buf m' b,
    run_one m buf = OBlocked m' b -> never_fails m'.
  Proof.
    induction m as [a0|e0|n k IH]; intros Hs buf m' b H; cbn [run_one] in H; try discriminate.
    destruct (n <=? N.of_nat (length buf)) eqn:E.
    - eapply IH; [|exact H]. apply Hs. rewrite firstn_length. lia.
    - inversion H; subst. exact Hs.
  Qed.
End Resume.

Lemma never_fails_bind {A B} (m : rd A) (f : A -> rd B) :
  never_fails m -> (forall a, never_fails (f a)) -> never_fails (rbind m f).
Proof.
  induction m as [a0|e0|n k IH]; intros Hm Hf; cbn [rbind never_fails] in *; auto.
Qed.

Lemma run_one_bind {A B} (m : rd A) (f : A -> rd B) : forall buf a rest,
  run_one m buf = ODone a rest -> run_one (rbind m f) buf = run_one (f a) rest.
Proof.
  induction m as [a0|e0|n k IH]; intros buf a rest H; cbn [run_one rbind] in *; try discriminate.
  - inversion H; subst. reflexivity.
  - destruct (n <=? N.of_nat (length buf)); [|discriminate]. apply IH. exact H.
Qed.

(* ---- read_tl_num_from_stream reads what parse_tl_num parses ------------------------------------ *)
Lemma read_ext_never_fails k bio : never_fails (read_ext k bio).
Proof.
  unfold read_ext. cbn [never_fails]. intros x Hx. unfold unpack_exact.
  replace (Nat.eqb (length x) k) with true by lia. exact I.
Qed.

Lemma read_tl_num_never_fails bio : never_fails (read_tl_num bio).
Proof.
  unfold read_tl_num. cbn [never_fails]. intros x Hx.
  destruct x as [|num x']; [cbn in Hx; lia|].
  destruct (num <=? 252); [exact I|].
  destruct (num =? 253); [apply read_ext_never_fails|].
  destruct (num =? 254); apply read_ext_never_fails.
Qed.

Lemma run_body_never_fails : never_fails run_body.
Proof.
  unfold run_body. apply never_fails_bind; [apply read_tl_num_never_fails|]. intros [typ bio].
  apply never_fails_bind; [apply read_tl_num_never_fails|]. intros [siz bio'].
  cbn [never_fails]. intros; exact I.
Qed.

Lemma run_one_read_ext k bio (r : bytes) :
  (k <= length r)%nat ->
  run_one (read_ext k bio) r = ODone (be_to_N (firstn k r), bio ++ firstn k r) (skipn k r).
Proof.
  intros H. unfold read_ext. cbn [run_one]. replace (N.of_nat k <=? N.of_nat (length r)) with true by lia.
  rewrite Nat2N.id. unfold unpack_exact. rewrite firstn_length. replace (Nat.eqb (Nat.min k (length r)) k) with true by lia.
  reflexivity.
Qed.

(* the stream reader and the buffer parser (Model/TlvVar.v tl_dec = parse_tl_num) agree: same value,
   and the bytes the reader took are exactly the [sz] bytes the parser says the number occupies *)
Theorem read_tl_num_dec w v sz bio :
  tl_dec w = Ok (v, sz) ->
  run_one (read_tl_num bio) w = ODone (v, bio ++ firstn sz w) (skipn sz w).
Proof.
  destruct w as [|b r]; [discriminate|]. cbn [tl_dec]. unfold read_tl_num. cbn [run_one].
  replace (1 <=? N.of_nat (length (b :: r))) with true by (cbn [length]; lia).
  change (N.to_nat 1) with 1%nat. cbn [firstn skipn].
  destruct (b <=? 252).
  { intros H; inversion H; subst. cbn [run_one firstn skipn]. reflexivity. }
  unfold unpack_be.
  destruct (b =? 253).
  { destruct (Nat.eqb (length (firstn 2 r)) 2) eqn:E; [|discriminate]. intros H; inversion H; subst.
    rewrite firstn_length in E. rewrite run_one_read_ext by lia. cbn [firstn skipn]. rewrite <- app_assoc. reflexivity. }
  destruct (b =? 254).
  { destruct (Nat.eqb (length (firstn 4 r)) 4) eqn:E; [|discriminate]. intros H; inversion H; subst.
    rewrite firstn_length in E. rewrite run_one_read_ext by lia. cbn [firstn skipn]. rewrite <- app_assoc. reflexivity. }
  destruct (Nat.eqb (length (firstn 8 r)) 8) eqn:E; [|discriminate]. intros H; inversion H; subst.
  rewrite firstn_length in E. rewrite run_one_read_ext by lia. cbn [firstn skipn]. rewrite <- app_assoc. reflexivity.
Qed.

(* ---- one framed packet ----------------------------------------------------------------------------------- *)
Lemma varnum_dec w v r : varnum w v -> tl_dec (w ++ r) = Ok (v, length w).
Proof.
  intros H. destruct H as [b Hb|x Hx|x Hx|x Hx]; cbn [app tl_dec length].
  - replace (b <=? 252) with true by lia. reflexivity.
  - cbn. unfold unpack_be. rewrite firstn_app_exact' by lia. rewrite Hx. cbn. reflexivity.
  - cbn. unfold unpack_be. rewrite firstn_app_exact' by lia. rewrite Hx. cbn. reflexivity.
  - cbn. unfold unpack_be. rewrite firstn_app_exact' by lia. rewrite Hx. cbn. reflexivity.
Qed.

Lemma varnum_read w v r bio : varnum w v -> run_one (read_tl_num bio) (w ++ r) = ODone (v, bio ++ w) r.
Proof.
  intros H. rewrite (read_tl_num_dec _ v (length w)) by (apply varnum_dec; exact H).
  rewrite firstn_app_exact, skipn_app_exact. reflexivity.
Qed.

(* run_body on a buffer that starts with a complete packet hands over exactly that packet and leaves
   the rest *)
Theorem run_body_framed p r : framed p -> run_one run_body (snd p ++ r) = ODone p r.
Proof.
  intros H. destruct H as [t tn ln body Ht Hl]. cbn [snd]. unfold run_body.
  rewrite <- !app_assoc.
  rewrite (run_one_bind _ _ _ _ _ (varnum_read tn t _ [] Ht)).
  rewrite (run_one_bind _ _ _ _ _ (varnum_read ln _ _ _ Hl)).
  cbn [run_one app]. rewrite app_length.
  replace (N.of_nat (length body) <=? N.of_nat (length body + length r)) with true by lia.
  rewrite Nat2N.id, firstn_app_exact, skipn_app_exact. cbn [app]. rewrite app_assoc. reflexivity.
Qed.

(* ... and on a proper prefix of a packet it stays suspended (never done, never failing) *)
Theorem run_body_partial pre : partial_packet pre -> exists m b, run_one run_body pre = OBlocked m b.
Proof.
  intros (t & suf & Hs & Hf).
  pose proof (run_body_framed _ [] Hf) as H. cbn [snd] in H. rewrite app_nil_r in H.
  destruct (run_one run_body pre) as [a rest|m b|e] eqn:E.
  - rewrite (run_one_done_app _ _ suf _ _ E) in H. inversion H. destruct rest; destruct suf; try discriminate. congruence.
  - exists m, b. reflexivity.
  - rewrite (run_one_fail_app _ _ suf _ E) in H. discriminate.
Qed.
