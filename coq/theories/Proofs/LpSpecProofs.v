(* C10, part 4: the Nack envelope built by make_network_nack is received as a Nack with that reason; a worked
   envelope (non-vacuity); the executable specification (Spec/LpSpec.v) agrees with the model on envelopes. *)
From NDN Require Import Base.Prelude Model.TlvVar Model.Name Model.Tlv Model.Packet Model.Lp Spec.TlvWf
  Spec.StrictTlv Spec.LpSpec
  Proofs.BytesLemmas Proofs.TlvVarProofs Proofs.TlvSplit Proofs.TlvAssign Proofs.TlvRoundtrip Proofs.TlvRoundtrip2
  Proofs.TlvMore Proofs.PacketDecode Proofs.LpUnknown Proofs.LpProofs Proofs.LpWire.
From NDN Require Import Generated.Schemas Generated.ConstsLp.
Local Open Scope N_scope.

Arguments N.of_nat : simpl never.
Arguments N.to_nat : simpl never.
Arguments N.pow : simpl never.

Section NackReceived.
Variables St Out : Type.
Variable dispatch : St -> N -> option bytes -> bytes -> St * Out.
Variable on_nack : St -> N -> bytes -> St * Out.
Variable nothing : Out.

Theorem make_nack_received s i r t n :
  r < two64 -> tl_dec i = Ok (t, n) -> N.of_nat (length (spec_nack_wire i r)) < two64 ->
  make_network_nack i r = Ok (spec_nack_wire i r) /\
  receive_v2 St Out dispatch on_nack nothing s LP_PACKET (spec_nack_wire i r) = Ok (on_nack s r i) /\
  receive_v1 St Out dispatch on_nack nothing s LP_PACKET (spec_nack_wire i r) = Ok (on_nack s r i).
Proof.
  intros Hr Ht Hl. split; [apply make_network_nack_bytes; exact Hr|].
  rewrite nack_wire in *.
  assert (N.of_nat (length (ser_els (nack_els r i))) < two64) as Hl'.
  { unfold lp_wire in Hl. rewrite tlv_length in Hl. lia. }
  pose proof (nack_envelope r i Hr Hl') as He.
  destruct (nack_vals_attrs r i) as (Hu & Hn & _ & Hf & _).
  assert (lp_attr (nack_vals r i) attr_fragment = VBytes i) as Hf' by reflexivity.
  exact (nack_exact_reason St Out dispatch on_nack nothing s _ _ _ i t n He Hu Hn Hf' Ht).
Qed.
End NackReceived.

Example example_envelope :
  let vs := mk_vals lp_fields [(attr_pit_token, VBytes [1; 2]); (INCOMING_FACE_ID, VUint 7); (NON_DISCOVERY, VTrue);
                               (attr_fragment, VBytes [5; 0])] in
  let els := [Elem 81 1 [9]; Elem 98 2 [1; 2]; Elem 1000 0 []; Elem 812 1 [7]; Elem 844 0 []; Elem 80 2 [5; 0];
              Elem 1001 1 [0]] in
  envelope_of vs els /\ unfragmented vs /\ lp_attr vs attr_nack = VNone /\ lp_attr vs attr_fragment = VBytes [5; 0] /\
  tl_dec [5; 0] = Ok (5, 1%nat) /\ lp_token vs = Some [1; 2] /\
  unwrap_v2 LP_PACKET (lp_wire els) = UPacket 5 (Some [1; 2]) [5; 0] /\
  unwrap_v1 LP_PACKET (lp_wire els) = UPacket 5 None [5; 0].
Proof.
  cbv zeta. split; [|vm_compute; repeat split; reflexivity].
  split; [|split; [|split]].
  - vm_compute. repeat (first [apply Forall2_nil | apply Forall2_cons]);
      try apply fits_none; try (apply fits_bytes; discriminate); try apply fits_true.
    apply (fits_uint None 7 1%nat); reflexivity.
  - repeat constructor.
  - vm_compute. reflexivity.
  - exists [Elem 98 2 [1; 2]; Elem 812 1 [7]; Elem 844 0 []; Elem 80 2 [5; 0]]. split; [vm_compute; reflexivity|].
    repeat first [apply wu_nil | apply wu_keep | (apply wu_ins; [vm_compute; reflexivity|])].
Qed.

(* the reply envelope as a peer running this library reads it: the data, with the token *)
Theorem reply_unwraps k data t n :
  tl_dec data = Ok (t, n) -> N.of_nat (length (ser_els (token_els k data))) < two64 ->
  unwrap_v2 LP_PACKET (spec_reply_wire (Some k) data) = UPacket t (Some k) data.
Proof.
  intros Ht Hl. rewrite token_wire. unfold unwrap_v2.
  destruct (token_vals_attrs k data) as (Hu & Hn & Htok & Hf).
  rewrite (unwrap_envelope lp_caught_v2 true _ _ (token_envelope k data Hl) Hu).
  rewrite Hf. destruct data as [|b data]; [discriminate Ht|]. rewrite Ht.
  unfold lp_nack. rewrite Hn. cbn [nack_reason_of]. unfold tok_if. rewrite Htok. reflexivity.
Qed.

Section Idle.
Variables St Out : Type.
Variable dispatch : St -> N -> option bytes -> bytes -> St * Out.
Variable on_nack : St -> N -> bytes -> St * Out.
Variable nothing : Out.

(* an envelope without a network packet inside (IDLE packet, empty fragment) changes nothing, whatever its
   headers (a Nack header included) *)
Theorem idle_dropped s vs els :
  envelope_of vs els -> unfragmented vs ->
  lp_attr vs attr_fragment = VNone \/ lp_attr vs attr_fragment = VBytes [] ->
  receive_v2 St Out dispatch on_nack nothing s LP_PACKET (lp_wire els) = Ok (s, nothing) /\
  receive_v1 St Out dispatch on_nack nothing s LP_PACKET (lp_wire els) = Ok (s, nothing).
Proof.
  intros He Hu Hf. split.
  - unfold receive_v2, unwrap_v2. rewrite (unwrap_envelope lp_caught_v2 true vs els He Hu).
    unfold lp_fragment. destruct Hf as [-> | ->]; reflexivity.
  - unfold receive_v1, unwrap_v1. rewrite (unwrap_envelope lp_caught_v1 false vs els He Hu).
    unfold lp_fragment. destruct Hf as [-> | ->]; reflexivity.
Qed.
End Idle.
