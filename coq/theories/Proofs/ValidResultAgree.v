(* C05 — T1 tie: the verdict table of the model/specification against the ValidResult enum reflected from
   ndn.types on every run (Generated/ValidResultConsts.v).  A new or renumbered member, a different default result of
   ValidationFailure, a falsy member or another legacy default Interest validator breaks this obligation. *)
From NDN Require Import Base.Prelude Spec.ExpressSpec Generated.ValidResultConsts.
Local Open Scope N_scope.

(* the model numbers the verdicts 0..4 in the order of the enum values -2..2 *)
Definition vr_index (v : Z) : N := Z.to_N (v + 2).

Definition n_FAIL : list N := [70; 65; 73; 76].
Definition n_TIMEOUT : list N := [84; 73; 77; 69; 79; 85; 84].
Definition n_SILENCE : list N := [83; 73; 76; 69; 78; 67; 69].
Definition n_PASS : list N := [80; 65; 83; 83].
Definition n_ALLOW_BYPASS : list N := [65; 76; 76; 79; 87; 95; 66; 89; 80; 65; 83; 83].

Lemma valid_result_table :
  (* exactly these five members, with these values *)
  valid_result_members = [(n_FAIL, -2); (n_TIMEOUT, -1); (n_SILENCE, 0); (n_PASS, 1); (n_ALLOW_BYPASS, 2)]%Z /\
  (* the specification's [pass V2] accepts PASS and ALLOW_BYPASS and nothing else *)
  map (fun m => pass V2 (vr_index (snd m))) valid_result_members = [false; false; false; true; true] /\
  (* a validator raising TimeoutError is reported as TIMEOUT *)
  norm_verdict V2 5 = vr_index (-1) /\
  (* the legacy ValidationFailure carries the default result, FAIL *)
  validation_failure_default_result = n_FAIL /\ norm_verdict V1 1 = vr_index (-2) /\
  (* legacy truthiness: every enum member counts as acceptance *)
  valid_result_members_all_truthy = true /\
  (* legacy default validator for signed Interests *)
  legacy_default_int_validator_is_sha256_digest_checker = true.
Proof. vm_compute. repeat split. Qed.
