(* C17, protocol part — auto-registration: the starting task of every connection registers each declared
   route exactly once, in order.  Stated as the state of the [auto_step] automaton as a function of the
   machine state. *)
From NDN Require Import Base.Prelude Model.TlvVar Model.Name Model.Tlv Model.NfdMgmt Model.Registerer
  Spec.Registration Proofs.RegistererBase Proofs.RegistererInv.
Local Open Scope N_scope.

Definition auto_abs (s : state) := check auto_step ([], None) (log s).
Definition cur_of (s : state) : option (list name) := option_map (fun i => firstn i (routes s)) (st_pos s).

(* [s'] differs from [s] in nothing the auto-registration clause looks at *)
Definition same_E (s s' : state) : Prop :=
  auto_abs s' = auto_abs s /\ routes s' = routes s /\ st_pos s' = st_pos s /\ connected s' = connected s.

Lemma same_E_refl s : same_E s s.
Proof. repeat split. Qed.
Lemma same_E_trans a b c : same_E a b -> same_E b c -> same_E a c.
Proof. intros (A1 & A2 & A3 & A4) (B1 & B2 & B3 & B4). repeat split; congruence. Qed.

Lemma auto_send a c : auto_step a (OSend c) = a.
Proof. destruct a as [[rs [l|]]|]; reflexivity. Qed.
Lemma auto_done a id r o : auto_step a (ODone id r o) = a.
Proof. destruct a as [[rs [l|]]|]; reflexivity. Qed.
Lemma auto_call_plain a id k nm : auto_step a (OCall id k nm false) = a.
Proof. destruct a as [[rs [l|]]|]; destruct k; reflexivity. Qed.

Section Auto.
  Variable fe : kind -> proto.
  Variable clock : nat -> N.
  Hypothesis Hok : forall k, proto_ok (fe k) = true.

  Lemma send_E s id : same_E s (send fe clock s id).
  Proof.
    unfold send. destruct (nth_error (calls s) id) as [c|]; [|apply same_E_refl].
    destruct (match p_ts (fe (c_kind c)) with TsNone => true | _ => negb (p_recorded (fe (c_kind c))) end);
      (split; [unfold auto_abs; simp; rewrite check_snoc; apply auto_send|repeat split]).
  Qed.

  Lemma ts_try_E s id left b : same_E s (ts_try fe clock s id left b).
  Proof.
    destruct left as [|l]; cbn [ts_try].
    - destruct b; [|apply send_E]. eapply same_E_trans; [|apply send_E]. repeat split.
    - destruct (last_ts s <? clock (clk s)).
      + eapply same_E_trans; [|apply send_E]. repeat split.
      + repeat split.
  Qed.

  Lemma proceed_E s id : same_E s (proceed fe clock s id).
  Proof.
    unfold proceed. destruct (proto_of fe s id) as [p|]; [|apply same_E_refl].
    destruct (p_ts p).
    - apply send_E.
    - apply ts_try_E.
    - eapply same_E_trans; [|apply send_E]. repeat split.
  Qed.

  Lemma acquire_E s id : same_E s (acquire fe clock s id).
  Proof.
    unfold acquire. destruct (proto_of fe s id) as [p|]; [|apply same_E_refl].
    destruct (p_sem p); [|apply proceed_E].
    destruct (holder s).
    - repeat split.
    - eapply same_E_trans; [|apply proceed_E]. repeat split.
  Qed.

  Lemma spawn_E s k nm a :
    auto_abs (spawn fe clock s k nm a) = auto_step (auto_abs s) (OCall (length (calls s)) k nm a) /\
    routes (spawn fe clock s k nm a) = routes s /\ st_pos (spawn fe clock s k nm a) = st_pos s /\
    connected (spawn fe clock s k nm a) = connected s.
  Proof.
    unfold spawn.
    set (s1 := emit (set_calls s (calls s ++ [{| c_kind := k; c_prefix := nm; c_auto := a; c_st := CWait |}]))
                    (OCall (length (calls s)) k nm a)).
    destruct (acquire_E s1 (length (calls s))) as (A1 & A2 & A3 & A4).
    rewrite A1, A2, A3, A4. split; [|repeat split]. unfold auto_abs, s1. simp. now rewrite check_snoc.
  Qed.

  Lemma wake_E ids : forall s, same_E s (wake fe clock s ids).
  Proof.
    induction ids as [|id r IH]; intros s; cbn [wake]; [apply same_E_refl|].
    eapply same_E_trans; [|apply IH].
    destruct (status s id) as [[|l| |]|]; try apply same_E_refl.
    destruct (proto_of fe s id) as [p|]; [|apply same_E_refl].
    destruct (p_ts p); try apply same_E_refl. apply ts_try_E.
  Qed.

  Record InvE (s : state) : Prop := {
    E_auto : auto_abs s = Some (routes s, cur_of s);
    E_pos : forall i, st_pos s = Some i -> (i <= length (routes s))%nat;
    E_conn : connected s = false -> st_pos s = None
  }.

  Lemma InvE_same s s' : same_E s s' -> InvE s -> InvE s'.
  Proof.
    intros (A1 & A2 & A3 & A4) [E1 E2 E3]. constructor.
    - rewrite A1, E1. unfold cur_of. now rewrite A2, A3.
    - rewrite A2, A3. exact E2.
    - rewrite A3, A4. exact E3.
  Qed.

  Lemma spawn_plain_E s k nm : same_E s (spawn fe clock s k nm false).
  Proof.
    destruct (spawn_E s k nm false) as (A1 & A2 & A3 & A4). split; [|repeat split; assumption].
    rewrite A1. apply auto_call_plain.
  Qed.

  Lemma starter_next_E s : InvE s -> InvE (starter_next fe clock s).
  Proof.
    intros HE. unfold starter_next. destruct (st_pos s) as [i|] eqn:Ep; [|exact HE]. destruct HE as [E1 E2 E3].
    unfold cur_of in E1. rewrite Ep in E1. cbn [option_map] in E1.
    destruct (nth_error (routes s) i) as [nm|] eqn:En.
    - destruct (spawn_E (set_starter s (Some (S i)) (Some (length (calls s)))) KReg nm true) as (A1 & A2 & A3 & A4).
      constructor.
      + rewrite A1. unfold auto_abs at 1. simp. fold (auto_abs s). rewrite E1. cbn [auto_step].
        unfold cur_of. rewrite A2, A3. simp. cbn [option_map]. now rewrite (firstn_snoc_nth _ _ _ En).
      + rewrite A2, A3. simp. intros j Hj. assert (j = S i) by congruence. subst j. apply nth_error_Some. congruence.
      + rewrite A3, A4. simp. intros Hc. specialize (E3 Hc). rewrite Ep in E3. discriminate.
    - constructor; simp.
      + unfold auto_abs. simp. rewrite check_snoc. fold (auto_abs s). rewrite E1. cbn [auto_step].
        rewrite (firstn_ge_all _ _ En), names_eqb_refl. reflexivity.
      + intros j Hj. discriminate.
      + reflexivity.
  Qed.

  Lemma complete_E s id r b : InvE s -> InvE (complete fe clock s id r (Ret b)).
  Proof.
    intros HE. unfold complete.
    set (s1 := emit (set_outst (set_status s id (CDone (Ret b))) (remove_id id (outst s))) (ODone id r (Ret b))).
    assert (E1 : InvE s1).
    { apply (InvE_same s); [|exact HE]. split; [|repeat split]. unfold auto_abs, s1. simp. rewrite check_snoc.
      apply auto_done. }
    set (holds := match holder s1 with Some h => Nat.eqb h id | None => false end).
    destruct (if holds then match queue s1 with
                            | [] => (set_holder s1 None, None)
                            | h :: q => (set_queue (set_holder s1 (Some h)) q, Some h)
                            end else (s1, None)) as [s2 next] eqn:E2.
    assert (I2 : InvE s2).
    { apply (InvE_same s1); [|exact E1]. destruct holds; [destruct (queue s1)|]; injection E2 as <- <-; repeat split. }
    set (s3 := match st_cur s2 with
               | Some c => if Nat.eqb c id then starter_next fe clock (set_starter s2 (st_pos s2) None) else s2
               | None => s2 end).
    assert (I3 : InvE s3).
    { unfold s3. destruct (st_cur s2) as [c|]; [|exact I2]. destruct (Nat.eqb c id); [|exact I2].
      apply starter_next_E. apply (InvE_same s2); [repeat split|exact I2]. }
    destruct next as [h|]; [|exact I3]. apply (InvE_same s3); [apply proceed_E|exact I3].
  Qed.

  Lemma init_E : InvE init.
  Proof. constructor; cbn; [reflexivity|discriminate|reflexivity]. Qed.

  Lemma step_E s e : InvE s -> InvE (step fe clock s e).
  Proof.
    intros HE. destruct e as [k nm|i r| | |nm| |]; cbn [step].
    - destruct (connected s); [|exact HE]. apply (InvE_same s); [apply spawn_plain_E|exact HE].
    - destruct (nth_error (outst s) i) as [id|]; [|exact HE].
      unfold proto_of. destruct (nth_error (calls s) id) as [c|]; cbn [option_map]; [|exact HE].
      rewrite (finish_ok _ r (Hok (c_kind c))). apply complete_E. exact HE.
    - apply (InvE_same s); [apply wake_E|exact HE].
    - exact HE.
    - destruct (st_pos s) as [i|] eqn:Ep; [exact HE|].
      assert (E1 : InvE (emit (set_routes s (routes s ++ [nm])) (ORoute nm))).
      { destruct HE as [E1 E2 E3]. constructor; simp.
        - unfold auto_abs. simp. rewrite check_snoc. fold (auto_abs s). rewrite E1. unfold cur_of. simp. rewrite Ep.
          reflexivity.
        - rewrite Ep. discriminate.
        - intros _. exact Ep. }
      destruct (connected s); [|exact E1]. apply (InvE_same _ _ (spawn_plain_E _ KReg nm)). exact E1.
    - destruct (connected s) eqn:Ec; [exact HE|]. apply starter_next_E.
      destruct HE as [E1 E2 E3]. specialize (E3 Ec). constructor; simp.
      + unfold auto_abs. simp. rewrite check_snoc. fold (auto_abs s). rewrite E1. unfold cur_of. simp. rewrite E3.
        reflexivity.
      + intros j Hj. injection Hj as <-. lia.
      + discriminate.
    - destruct (connected s && idle s) eqn:Ei; [|exact HE].
      apply andb_true_iff in Ei. destruct Ei as [_ Ei]. unfold idle in Ei. apply andb_true_iff in Ei.
      destruct Ei as [_ Ei]. destruct (st_pos s) eqn:Ep; [discriminate|].
      destruct HE as [E1 E2 E3]. constructor; simp.
      + unfold auto_abs. simp. rewrite check_snoc. fold (auto_abs s). rewrite E1. unfold cur_of. simp. rewrite Ep.
        reflexivity.
      + rewrite Ep. discriminate.
      + intros _. exact Ep.
  Qed.

  Theorem run_E evs : InvE (run_events fe clock evs).
  Proof.
    unfold run_events. generalize init_E. generalize init.
    induction evs as [|e r IH]; intros s HI; cbn [fold_left]; [exact HI|]. apply IH. apply step_E. exact HI.
  Qed.

  Theorem run_autoreg evs : autoreg_ok (log (run_events fe clock evs)) = true.
  Proof. unfold autoreg_ok. fold (auto_abs (run_events fe clock evs)). now rewrite (E_auto _ (run_E evs)). Qed.
End Auto.
