(* T2 bridge for tlv_var.shrink_length: on the inputs the encoders produce (a well-formed element whose
   value ends with [val] > 0 unused bytes) the function translated from the source on this run computes
   what the hand-written offset model computes, hence (C01_shrink) the canonical shorter element. *)
From NDN Require Import Base.Prelude Base.PyPrim Model.TlvVar Model.Tlv Proofs.BytesLemmas Proofs.TlvVarProofs
  Proofs.TlvVarBridge Proofs.TlvSplit Proofs.ShrinkProofs.
From NDN Require Generated.TlvVarGen.
Local Open Scope Z_scope.
Set Default Timeout 900.

Arguments N.of_nat : simpl never.
Arguments N.to_nat : simpl never.

Lemma py_slice_neg_end buf (val : nat) :
  (0 < val <= length buf)%nat ->
  py_slice buf None (Some (- Z.of_nat val)) = firstn (length buf - val) buf.
Proof.
  intros H. unfold py_slice, clamp_idx, py_len.
  replace (- Z.of_nat val <? 0) with true by lia.
  replace (Z.max 0 (Z.min (Z.of_nat (length buf)) (- Z.of_nat val + Z.of_nat (length buf))))
    with (Z.of_nat (length buf - val)) by lia.
  destruct (Z.of_nat (length buf - val) <=? 0) eqn:E.
  - assert (length buf - val = 0)%nat by lia. rewrite H0. reflexivity.
  - rewrite Nat2Z.id. reflexivity.
Qed.

Lemma py_slice_mid_neg_end buf (d val : nat) :
  (0 < val <= length buf)%nat ->
  py_slice buf (Some (Z.of_nat d)) (Some (- Z.of_nat val)) = skipn d (firstn (length buf - val) buf).
Proof.
  intros H. unfold py_slice, clamp_idx, py_len.
  replace (- Z.of_nat val <? 0) with true by lia.
  replace (Z.of_nat d <? 0) with false by lia.
  replace (Z.max 0 (Z.min (Z.of_nat (length buf)) (- Z.of_nat val + Z.of_nat (length buf))))
    with (Z.of_nat (length buf - val)) by lia.
  destruct (Z.of_nat (length buf - val) <=? Z.max 0 (Z.min (Z.of_nat (length buf)) (Z.of_nat d))) eqn:E.
  - symmetry. apply skipn_all2. rewrite firstn_length. lia.
  - replace (Z.max 0 (Z.min (Z.of_nat (length buf)) (Z.of_nat d))) with (Z.of_nat d) by lia.
    rewrite !Nat2Z.id. reflexivity.
Qed.

Lemma splice_length buf off p : (off + length p <= length buf)%nat -> length (splice buf off p) = length buf.
Proof. intros H. unfold splice. rewrite !app_length, firstn_length, skipn_length. lia. Qed.

Lemma splice_wf buf off p : wf_bytes buf -> wf_bytes p -> wf_bytes (splice buf off p).
Proof.
  intros Hb Hp. unfold splice. apply wf_bytes_app. split; [apply wf_bytes_firstn; exact Hb|].
  apply wf_bytes_app. split; [exact Hp|apply wf_bytes_skipn; exact Hb].
Qed.

Theorem gen_shrink_eq t p pad :
  (t < two64)%N -> (N.of_nat (length (p ++ pad)) < two64)%N -> (0 < length pad)%nat -> wf_bytes (p ++ pad) ->
  Generated.TlvVarGen.shrink_length (tlv t (p ++ pad)) (Z.of_nat (length pad)) = Ok (tlv t p).
Proof.
  intros Ht Hl Hpad Hwf.
  rewrite <- (shrink_length_correct t p pad Ht Hl).
  set (w := tlv t (p ++ pad)).
  assert (Hww : wf_bytes w).
  { unfold w, tlv. apply wf_bytes_app. split; [apply tl_enc_wf; exact Ht|].
    apply wf_bytes_app. split; [apply tl_enc_wf; exact Hl|exact Hwf]. }
  unfold Generated.TlvVarGen.shrink_length, shrink_length.
  change 0 with (Z.of_nat 0). rewrite gen_parse_eq by exact Hww. cbn [skipn].
  assert (E1 : tl_dec w = Ok (t, tl_size t)) by (unfold w, tlv; apply tl_dec_enc; exact Ht).
  rewrite E1. cbn [map_res bind zpair fst snd].
  rewrite gen_parse_eq by exact Hww.
  set (size := N.of_nat (length (p ++ pad))) in *.
  assert (E2 : tl_dec (skipn (tl_size t) w) = Ok (size, tl_size size)).
  { unfold w, tlv. rewrite skipn_app_exact' by (symmetry; apply tl_enc_length). apply tl_dec_enc. exact Hl. }
  rewrite E2. cbn [map_res bind zpair fst snd].
  assert (Hsz : (N.of_nat (length pad) <= size)%N) by (unfold size; rewrite app_length; lia).
  replace (size <? N.of_nat (length pad))%N with false by lia.
  set (real := (size - N.of_nat (length pad))%N).
  replace (Z.of_N size - Z.of_nat (length pad)) with (Z.of_N real) by (unfold real; lia).
  assert (Hreal : (real < two64)%N) by (unfold real; lia).
  assert (Hwlen : length w = (tl_size t + tl_size size + length (p ++ pad))%nat) by (unfold w; apply tlv_length).
  assert (Hrs : (tl_size real <= tl_size size)%nat) by (apply tl_size_mono; unfold real; lia).
  rewrite gen_write_eq by (exact Hreal || lia). cbn [bind].
  set (w1 := splice w (tl_size t) (tl_enc real)).
  assert (Hw1len : length w1 = length w) by (unfold w1; apply splice_length; rewrite tl_enc_length; lia).
  assert (Hw1wf : wf_bytes w1) by (unfold w1; apply splice_wf; [exact Hww|apply tl_enc_wf; exact Hreal]).
  replace (Z.of_nat (tl_size real) =? Z.of_nat (tl_size size)) with (Nat.eqb (tl_size real) (tl_size size))
    by (destruct (Nat.eqb_spec (tl_size real) (tl_size size)); lia).
  destruct (Nat.eqb (tl_size real) (tl_size size)) eqn:E.
  - rewrite py_slice_neg_end by (rewrite Hw1len, Hwlen, app_length; lia). reflexivity.
  - apply Nat.eqb_neq in E.
    replace (Z.of_nat (tl_size size) - Z.of_nat (tl_size real)) with (Z.of_nat (tl_size size - tl_size real)) by lia.
    set (diff := (tl_size size - tl_size real)%nat).
    rewrite gen_write_eq by (exact Ht || (rewrite Hw1len, Hwlen; unfold diff; lia)). cbn [bind].
    set (w2 := splice w1 diff (tl_enc t)).
    assert (Hw2len : length w2 = length w)
      by (unfold w2; rewrite splice_length; [exact Hw1len|rewrite tl_enc_length, Hw1len, Hwlen; unfold diff; lia]).
    replace (Z.of_nat (tl_size t) + Z.of_nat diff) with (Z.of_nat (tl_size t + diff)) by lia.
    rewrite gen_write_eq by (exact Hreal || (rewrite Hw2len, Hwlen; unfold diff; lia)). cbn [bind].
    set (w3 := splice w2 (tl_size t + diff) (tl_enc real)).
    assert (Hw3len : length w3 = length w)
      by (unfold w3; rewrite splice_length; [exact Hw2len|rewrite tl_enc_length, Hw2len, Hwlen; unfold diff; lia]).
    rewrite py_slice_mid_neg_end by (rewrite Hw3len, Hwlen, app_length; lia). reflexivity.
Qed.
