(* [outs] is sound for the operations that consist of a lookup and one transaction, for new_identity,
   new_key and touch_identity. *)
From NDN Require Import Base.Prelude Model.Keychain Spec.KeychainSpec.
From NDN Require Import Proofs.KeychainTables Proofs.KeychainHoare Proofs.KeychainInv Proofs.KeychainOutcome.
Local Open Scope N_scope.

Section A.
  Variable F : Prop.

  (* ---- lookup + one transaction ---------------------------------------------------------------------- *)
  Lemma wp_txn1_then fn fin (k : M rv) c f :
    (f <> None -> F) -> disk c = db c ->
    (forall t f', fn (db c) = Ok t ->
                  wp k (fun r s' => r = Ok RNone /\ core s' = fin (commit_db t c)) (mkSt (commit_db t c) f')) ->
    wp (with_conn (sql_w fn) >> k) (fun r s' => out_txn1 F fn fin c (r, core s')) (mkSt c f).
  Proof.
    intros HF Cl Hk. apply wp_bind. apply wp_txn1; [assumption| |].
    - intros t f' E Hq. eapply wp_conseq; [apply Hk; assumption|].
      cbn. intros r s' [-> ->]. left. eauto.
    - intros e [[-> N] | E]; cbn.
      + right. right. auto.
      + right. left. eauto.
  Qed.

  Lemma outs_set_default_identity n c f :
    (f <> None -> F) -> disk c = db c ->
    wp (kc_set_default_identity n) (fun r s' => outs F (OSetDefaultIdentity n) c (r, core s')) (mkSt c f).
  Proof.
    intros HF Cl. unfold kc_set_default_identity, set_default_identity. cbn [outs].
    apply wp_txn1_then; auto. intros t f' _. apply wp_ret. auto.
  Qed.
  Lemma outs_import_cert kn cn d c f :
    (f <> None -> F) -> disk c = db c ->
    wp (import_cert kn cn d) (fun r s' => outs F (OImportCert kn cn d) c (r, core s')) (mkSt c f).
  Proof.
    intros HF Cl. unfold import_cert. cbn [outs]. apply wp_txn1_then; auto. intros t f' _. apply wp_ret. auto.
  Qed.
  Lemma wp_del_cert cn c f :
    (f <> None -> F) -> disk c = db c ->
    wp (del_cert cn) (fun r s' => out_txn1 F (sql_delete_cert cn) (set_cache []) c (r, core s')) (mkSt c f).
  Proof.
    intros HF Cl. unfold del_cert. apply wp_txn1_then; auto. intros t f' _.
    apply wp_bind. unfold cache_reset. apply wp_updc. apply wp_ret. auto.
  Qed.
  Lemma outs_set_default_key idn kn c f :
    (f <> None -> F) -> disk c = db c ->
    wp (id_set_default_key idn kn) (fun r s' => outs F (OSetDefaultKey idn kn) c (r, core s')) (mkSt c f).
  Proof.
    intros HF Cl. unfold id_set_default_key. cbn [outs]. apply wp_bind, wp_readr. cbn [core].
    destruct (kc_get idn (db c)) as [i|e]; cbn [guarded]; [|reflexivity].
    unfold set_default_key_raw. apply wp_txn1_then; auto. intros t f' _. apply wp_ret. auto.
  Qed.
  Lemma outs_set_default_cert idn kn cn c f :
    (f <> None -> F) -> disk c = db c ->
    wp (key_set_default_cert idn kn cn) (fun r s' => outs F (OSetDefaultCert idn kn cn) c (r, core s')) (mkSt c f).
  Proof.
    intros HF Cl. unfold key_set_default_cert. cbn [outs]. apply wp_bind, wp_readr. cbn [core].
    destruct (kc_get idn (db c)) as [i|e]; cbn [guarded]; [|reflexivity].
    apply wp_bind, wp_readr. cbn [core]. destruct (id_get i kn (db c)) as [k|e]; cbn [guarded]; [|reflexivity].
    unfold set_default_cert_raw. apply wp_txn1_then; auto. intros t f' _. apply wp_ret. auto.
  Qed.
  Lemma outs_key_del_cert idn kn cn c f :
    (f <> None -> F) -> disk c = db c ->
    wp (key_del_cert idn kn cn) (fun r s' => outs F (OKeyDelCert idn kn cn) c (r, core s')) (mkSt c f).
  Proof.
    intros HF Cl. unfold key_del_cert. cbn [outs]. apply wp_bind, wp_readr. cbn [core].
    destruct (kc_get idn (db c)) as [i|e]; cbn [guarded]; [|reflexivity].
    apply wp_bind, wp_readr. cbn [core]. destruct (id_get i kn (db c)) as [k|e]; cbn [guarded]; [|reflexivity].
    apply wp_del_cert; auto.
  Qed.

  (* ---- new_identity ----------------------------------------------------------------------------------- *)
  Lemma insert_identity_facts n t t1 :
    wf_tables t -> sql_insert_identity n t = Ok t1 ->
    scope_has_def 0 (t_ids t1) = true /\ t_keys t1 = t_keys t /\ t_certs t1 = t_certs t /\
    exists i, kc_get n t1 = Ok i /\ In i (t_ids t1) /\ r_name i = n.
  Proof.
    intros W E. pose proof (wf_insert_identity _ _ _ W E) as W1.
    unfold sql_insert_identity in E. destruct (r_insert 0 n 0 (t_ids t)) as [l|] eqn:R; [|discriminate].
    cbn in E. inversion E; subst; clear E. cbn. repeat split; try reflexivity.
    - eapply r_insert_has_default; eassumption.
    - destruct (r_insert_new _ _ _ _ _ R) as [x [Hx [Nx _]]]. exists x. split; [|auto].
      apply kc_get_in; auto.
  Qed.
  Lemma insert_identity_absent n t :
    wf_tables t -> kc_contains n t = false -> exists t1, sql_insert_identity n t = Ok t1.
  Proof.
    intros W C. unfold sql_insert_identity. destruct (r_insert 0 n 0 (t_ids t)) as [l|e] eqn:R; cbn; [eauto|].
    apply r_insert_err in R. destruct R as [_ Hin]. apply (kc_contains_spec _ _ W) in Hin. congruence.
  Qed.

  Lemma outs_new_identity n c f :
    (f <> None -> F) -> disk c = db c -> wf_tables (db c) ->
    wp (new_identity n) (fun r s' => outs F (ONewIdentity n) c (r, core s')) (mkSt c f).
  Proof.
    intros HF Cl W. unfold new_identity. cbn [outs]. unfold out_new_identity.
    apply wp_bind, wp_reads. cbn [core]. destruct (kc_contains n (db c)) eqn:Ct.
    - apply wp_throw. reflexivity.
    - apply wp_bind. apply wp_txn1; [assumption| |].
      + intros t1 f' E Hq. destruct (insert_identity_facts _ _ _ W E) as [Hd [_ [_ [i [G _]]]]].
        apply wp_bind. unfold ensure_default_identity. apply wp_bind, wp_reads. cbn [core commit_db db].
        rewrite Hd. cbn [negb mwhen]. apply wp_ret. apply wp_bind, wp_readr. cbn [core commit_db db]. rewrite G.
        apply wp_ret. left. eauto.
      + intros e [[-> N] | E]; cbn.
        * right. auto.
        * exfalso. destruct (insert_identity_absent _ _ W Ct) as [t1 E1]. congruence.
  Qed.

  (* ---- new_key (also from inside touch_identity's transaction: the connection may be dirty) ------------- *)
  Lemma wp_tpm_delete_quiet k (Q : res unit -> st -> Prop) c :
    Q (Ok tt) (mkSt (set_tpm (al_del name_eqb (tpm c) k) c) None) -> wp (tpm_delete k) Q (mkSt c None).
  Proof.
    intros H. apply wp_tpm_delete; cbn [core flt].
    - intros f' Hq. rewrite (Hq eq_refl). assumption.
    - intros N. contradiction.
  Qed.

  Lemma new_key_db_facts i kn m v t t2 :
    wf_tables t -> In i (t_ids t) -> new_key_db i kn m v t = Ok t2 ->
    scope_has_def (r_id i) (t_keys t2) = true /\ t_ids t2 = t_ids t /\
    exists k, id_get i kn t2 = Ok k /\ r_name k = kn /\ r_val k = m.
  Proof.
    intros W Hi E. unfold new_key_db in E.
    destruct (sql_insert_key (r_id i) kn m t) as [t1|] eqn:E1; [|discriminate]. cbn in E.
    apply sql_insert_cert_ok in E. destruct E as [k0 [l [_ [_ ->]]]]. cbn.
    unfold sql_insert_key in E1. destruct (r_insert (r_id i) kn m (t_keys t)) as [lk|] eqn:R; [|discriminate].
    cbn in E1. inversion E1; subst; clear E1. cbn. repeat split.
    - eapply r_insert_has_default; eassumption.
    - destruct (r_insert_new _ _ _ _ _ R) as [x [Hx [Nx [Px [Vx _]]]]]. exists x. split; [|auto].
      unfold id_get. cbn. apply v_get_in; auto. eapply r_insert_wf; [|eassumption]; apply W.
  Qed.

  Lemma outs_new_key idn kt ks m v c f :
    (f <> None -> F) -> wf_tables (db c) ->
    wp (new_key idn kt ks m v) (fun r s' => out_new_key F idn kt ks m v c (r, core s')) (mkSt c f).
  Proof.
    intros HF W. unfold new_key, out_new_key.
    apply wp_bind, wp_reads. cbn [core]. destruct (kc_contains idn (db c)) eqn:Ct; cbn [negb]; [|apply wp_throw; reflexivity].
    apply wp_bind, wp_readr. cbn [core]. destruct (kc_get idn (db c)) as [i|e] eqn:G; [|reflexivity].
    pose proof (kc_get_ok _ _ _ G) as [Hi Ni].
    apply wp_bind. unfold generate_key, new_key_name.
    destruct (2 <=? kt); [apply wp_throw; reflexivity|].
    apply wp_bind.
    assert (Hkid : forall (Q : res N -> st -> Prop),
               Q (match ks with KidExplicit k => Ok k | KidRandom cs => pick_kid idn cs (tpm c) end) (mkSt c f) ->
               wp (match ks with KidExplicit k => ret k | KidRandom cs => getc (fun c0 => pick_kid idn cs (tpm c0)) end) Q (mkSt c f)).
    { intros Q HQ. destruct ks; [apply wp_getc | apply wp_ret]; exact HQ. }
    apply Hkid. clear Hkid.
    destruct (match ks with KidExplicit k => Ok k | KidRandom cs => pick_kid idn cs (tpm c) end) as [kid|e]; cbn [bind]; [|reflexivity].
    set (kn := idn ++ [C_KEY; kid]).
    apply wp_bind. unfold tpm_exists. apply wp_getc. cbn [core].
    destruct (al_mem name_eqb (tpm c) kn) eqn:Ex; [apply wp_throw; reflexivity|].
    apply (proj1 (al_mem_get name_eqb _ _)) in Ex.
    apply wp_bind. apply wp_tpm_save; cbn [core flt].
    2:{ intros N. right. right. split; [auto | left; reflexivity]. }
    intros f1 Hq1. apply wp_ret.
    set (c1 := set_tpm (al_set name_eqb (tpm c) kn m) c).
    assert (Hdel : set_tpm (al_del name_eqb (tpm c1) kn) c1 = c).
    { unfold c1. destruct c; cbn in *. rewrite (al_del_set_fresh name_eqb name_eqb_eq) by assumption. reflexivity. }
    assert (Hdelr : set_tpm (al_del name_eqb (tpm (do_rollback c1)) kn) (do_rollback c1) = do_rollback c).
    { unfold c1. destruct c; cbn in *. rewrite (al_del_set_fresh name_eqb name_eqb_eq) by assumption. reflexivity. }
    apply wp_bind. apply wp_on_error. apply wp_bind. apply wp_tpm_read; cbn [core flt].
    2:{ intros e [[-> N] | [_ Hn]].
        - apply wp_tpm_delete_quiet. rewrite Hdel. right. right. split; [eauto using quiet_ne | left; reflexivity].
        - exfalso. unfold c1 in Hn. destruct c; cbn in Hn. rewrite (al_get_set_same name_eqb name_eqb_eq) in Hn. discriminate. }
    intros m' f2 _ Hq2. apply wp_with_conn. apply wp_bind. apply wp_sql_w; cbn [core flt].
    2:{ intros e He. apply wp_tpm_delete_quiet. rewrite Hdelr.
        destruct He as [[-> N] | He].
        - right. right. split; [eauto using quiet_ne | right; reflexivity].
        - right. left. exists e. split; [|reflexivity]. unfold new_key_db, c1. destruct c; cbn in *. rewrite He. reflexivity. }
    intros t1 f3 E1 Hq3. apply wp_sql_w; cbn [core flt].
    2:{ intros e He. apply wp_tpm_delete_quiet.
        replace (do_rollback (set_db t1 c1)) with (do_rollback c1) by (destruct c; reflexivity). rewrite Hdelr.
        destruct He as [[-> N] | He].
        - right. right. split; [eauto using quiet_ne | right; reflexivity].
        - right. left. exists e. split; [|reflexivity]. unfold new_key_db, c1 in *. destruct c; cbn in *. rewrite E1. cbn. assumption. }
    intros t2 f4 E2 Hq4. split.
    2:{ intros N. apply wp_tpm_delete_quiet.
        replace (do_rollback (set_db t2 (set_db t1 c1))) with (do_rollback c1) by (destruct c; reflexivity). rewrite Hdelr.
        right. right. split; [eauto 6 using quiet_ne | right; reflexivity]. }
    intros f5 Hq5.
    assert (Edb : new_key_db i kn m v (db c) = Ok t2).
    { unfold new_key_db, c1 in *. destruct c; cbn in *. rewrite E1. cbn. assumption. }
    destruct (new_key_db_facts _ _ _ _ _ _ W Hi Edb) as [Hd [_ [k [Gk _]]]].
    replace (do_commit (set_db t2 (set_db t1 c1))) with (mkC t2 t2 (al_set name_eqb (tpm c) kn m) (cache c))
      by (destruct c; reflexivity).
    apply wp_bind, wp_reads. cbn [core db]. rewrite Hd. cbn [negb mwhen]. apply wp_bind. apply wp_ret.
    apply wp_bind, wp_readr. cbn [core db]. rewrite Gk. apply wp_ret.
    left. exists t2, k. auto.
  Qed.
End A.
