(* C06 (B): packet reception returns normally on every byte string.  Derived from the C07 totality
   theorems (Proofs/PacketTotal.v, PacketProps.v: the decoders raise only documented classes) plus
   "every except tuple of _receive covers the documented classes" and "the Fragment is guarded". *)
From NDN Require Import Base.Prelude Model.TlvVar Model.Name Model.Tlv Model.Packet Model.Stream Model.Receive
  Proofs.PacketTotal Proofs.PacketProps.
Local Open Scope N_scope.

(* an except tuple covers everything a decoder can raise *)
Definition covers (tuple : list err) : Prop := forall e, documented e = true -> catches tuple e = true.
Definition coversb (tuple : list err) : bool :=
  forallb (catches tuple) [EDecode; EIndex; EValue; EStruct; EUnicode].

Lemma coversb_spec tuple : coversb tuple = true -> covers tuple.
Proof.
  unfold coversb. cbn [forallb]. rewrite !andb_true_iff. intros (A & B & C & D & E & _) e He.
  destruct e; try discriminate; assumption.
Qed.

Definition cfg_okb (cfg : rcfg) : bool :=
  coversb (c_lp cfg) && coversb (c_nack cfg) && coversb (c_interest cfg) && coversb (c_data cfg)
  && (1 <=? c_frag_guard cfg) && catches (c_fragtl cfg) EIndex && catches (c_fragtl cfg) EStruct.

Lemma try_parse_no_raise {A} tuple site (r : res A) k e :
  covers tuple -> res_documented r -> (forall a, r = Ok a -> k a <> ARaise e) ->
  try_parse tuple site r k <> ARaise e.
Proof.
  intros Hc Hd Hk. unfold try_parse. destruct r as [a|e0].
  - apply Hk. reflexivity.
  - cbn in Hd. rewrite (Hc _ Hd). discriminate.
Qed.

Lemma tl_dec_err w e : tl_dec w = Err e -> e = EIndex \/ e = EStruct.
Proof.
  destruct w as [|b r]; cbn [tl_dec]; [intros H; inversion H; auto|].
  destruct (b <=? 252); [discriminate|]. unfold unpack_be.
  destruct (b =? 253); [|destruct (b =? 254)]; destruct (Nat.eqb _ _); cbn; intros H; inversion H; auto.
Qed.

Lemma dispatch_no_raise cfg nack token typ data e :
  covers (c_nack cfg) -> covers (c_interest cfg) -> covers (c_data cfg) ->
  dispatch cfg nack token typ data <> ARaise e.
Proof.
  intros Hn Hi Hd. unfold dispatch. destruct nack as [reason|].
  - apply try_parse_no_raise; [exact Hn|apply dec_interest_doc|discriminate].
  - destruct (typ =? TYPE_INTEREST).
    + apply try_parse_no_raise; [exact Hi|apply dec_interest_doc|discriminate].
    + destruct (typ =? TYPE_DATA); [|discriminate].
      apply try_parse_no_raise; [exact Hd|apply dec_data_doc|discriminate].
Qed.

(* no exception leaves the part of _receive that precedes the handler call *)
Theorem classify_total cfg : cfg_okb cfg = true -> forall typ data e, classify cfg typ data <> ARaise e.
Proof.
  unfold cfg_okb. rewrite !andb_true_iff. intros ((((((Hl & Hn) & Hi) & Hd) & Hg) & HtI) & HtS) typ data e.
  apply coversb_spec in Hl, Hn, Hi, Hd.
  unfold classify. destruct (typ =? TYPE_LP_PACKET); [|apply dispatch_no_raise; assumption].
  apply try_parse_no_raise; [exact Hl|apply dec_lp_doc|]. intros vs _. cbv zeta.
  destruct (match field_value _ vs LP_FRAGMENT with VBytes b => Some b | _ => None end) as [d|].
  - destruct ((c_frag_guard cfg =? 1) && _); [discriminate|].
    unfold try_parse. destruct (tl_dec d) as [[t sz]|e0] eqn:E.
    + apply dispatch_no_raise; assumption.
    + destruct (tl_dec_err _ _ E) as [-> | ->]; [rewrite HtI|rewrite HtS]; discriminate.
  - rewrite Hg. discriminate.
Qed.

Section Pipeline.
  Variable state : Type.
  Variable on_interest : list bytes -> option bytes -> list value -> bytes -> state -> res state.
  Variable on_data : list bytes -> list value -> bytes -> state -> res state.
  Variable on_nack : list bytes -> N -> state -> res state.
  (* the handlers do not raise on parsed input (C03 / C04 / C05 establish this for the real tables, with the
     exceptions listed in docs/C06.md) *)
  Hypothesis on_interest_total : forall n t vs raw s, exists s', on_interest n t vs raw s = Ok s'.
  Hypothesis on_data_total : forall n vs raw s, exists s', on_data n vs raw s = Ok s'.
  Hypothesis on_nack_total : forall n r s, exists s', on_nack n r s = Ok s'.

  Theorem receive_total cfg : cfg_okb cfg = true ->
    forall typ data s, exists s', receive state on_interest on_data on_nack cfg typ data s = Ok s'.
  Proof.
    intros Hcfg typ data s. unfold receive.
    pose proof (classify_total cfg Hcfg typ data) as Hc.
    destruct (classify cfg typ data) as [site|e|n r|n t vs raw|n vs raw].
    - exists s. reflexivity.
    - exfalso. eapply Hc. reflexivity.
    - apply on_nack_total.
    - apply on_interest_total.
    - apply on_data_total.
  Qed.

  (* the per-packet tasks of a whole delivery sequence, one after the other *)
  Definition receive_all cfg (ps : list (N * bytes)) (s : state) : res state :=
    fold_left (fun r p => do s0 <- r ;; receive state on_interest on_data on_nack cfg (fst p) (snd p) s0) ps (Ok s).

  Theorem receive_all_total cfg : cfg_okb cfg = true ->
    forall ps s, exists s', receive_all cfg ps s = Ok s'.
  Proof.
    intros Hcfg ps. unfold receive_all. induction ps as [|p ps IH]; intros s; cbn [fold_left].
    - exists s. reflexivity.
    - cbn [bind]. destruct (receive_total cfg Hcfg (fst p) (snd p) s) as [s1 ->]. apply IH.
  Qed.

  (* a dropped packet leaves the tables untouched (no hypothesis on the handlers needed) *)
  Theorem receive_frame cfg typ data site s :
    classify cfg typ data = ADrop site -> receive state on_interest on_data on_nack cfg typ data s = Ok s.
  Proof. intros H. unfold receive. rewrite H. reflexivity. Qed.

  (* a handler is only ever called on a packet its decoder accepted, with that packet's fields *)
  Theorem receive_calls_only_parsed cfg typ data :
    match classify cfg typ data with
    | AInterest n t vs raw => dec_interest raw = Ok vs
    | AData n vs raw => dec_data raw = Ok vs
    | ANack n r => True
    | _ => True
    end.
  Proof.
    assert (D : forall nack token t d, match dispatch cfg nack token t d with
              | AInterest n t vs raw => dec_interest raw = Ok vs
              | AData n vs raw => dec_data raw = Ok vs | _ => True end).
    { intros nack token t d. unfold dispatch, try_parse. destruct nack.
      - destruct (dec_interest d); [exact I|]. destruct (catches _ _); exact I.
      - destruct (t =? TYPE_INTEREST).
        + destruct (dec_interest d) eqn:E; [exact E|]. destruct (catches _ _); exact I.
        + destruct (t =? TYPE_DATA); [|exact I].
          destruct (dec_data d) eqn:E; [exact E|]. destruct (catches _ _); exact I. }
    unfold classify. destruct (typ =? TYPE_LP_PACKET); [|apply D].
    unfold try_parse at 1. destruct (dec_lp data) as [vs|e]; [|destruct (catches _ _); exact I]. cbv zeta.
    destruct (match field_value _ vs LP_FRAGMENT with VBytes b => Some b | _ => None end) as [d|].
    - destruct ((c_frag_guard cfg =? 1) && _); [exact I|]. unfold try_parse.
      destruct (tl_dec d) as [[t sz]|e]; [apply D|destruct (catches _ _); exact I].
    - destruct (1 <=? c_frag_guard cfg); [exact I|]. destruct (catches _ _); exact I.
  Qed.
End Pipeline.

(* a packet whose decoder fails is dropped, whatever the state *)
Theorem bad_packet_dropped cfg typ data :
  cfg_okb cfg = true -> typ <> TYPE_LP_PACKET ->
  (typ = TYPE_INTEREST -> is_ok (dec_interest data) = false) ->
  (typ = TYPE_DATA -> is_ok (dec_data data) = false) ->
  exists site, classify cfg typ data = ADrop site.
Proof.
  intros Hcfg Hlp Hi Hd. pose proof (classify_total cfg Hcfg typ data) as Hc. revert Hc.
  unfold classify. replace (typ =? TYPE_LP_PACKET) with false by (symmetry; apply N.eqb_neq; exact Hlp).
  unfold dispatch, try_parse.
  destruct (typ =? TYPE_INTEREST) eqn:E1.
  - apply N.eqb_eq in E1. specialize (Hi E1). destruct (dec_interest data); [discriminate|].
    destruct (catches _ _); intros Hc; [eexists; reflexivity|exfalso; eapply Hc; reflexivity].
  - destruct (typ =? TYPE_DATA) eqn:E2; [|intros; eexists; reflexivity].
    apply N.eqb_eq in E2. specialize (Hd E2). destruct (dec_data data); [discriminate|].
    destruct (catches _ _); intros Hc; [eexists; reflexivity|exfalso; eapply Hc; reflexivity].
Qed.

(* the lookups of _on_nack *)
Lemma on_nack_lookup_total name reason t :
  (forall entries, al_get name_eqb t name = Some entries -> existsb (fun d => d) entries = false) ->
  exists t', on_nack_lookup true name reason t = Ok t'.
Proof.
  intros H. unfold on_nack_lookup. destruct (al_get name_eqb t name) as [entries|] eqn:E; [|eexists; reflexivity].
  unfold nack_node. rewrite (H _ eq_refl). cbn. eexists; reflexivity.
Qed.
