(* T2 bridge: the definitions generated from src/ndn/encoding/tlv_var.py on this run
   (Generated/TlvVarGen.v) compute the same functions as the hand-written model (Model/TlvVar.v)
   that all codec theorems are stated over.  A change of a threshold, format or offset in the
   Python source changes the generated text and one of these lemmas stops checking. *)
From NDN Require Import Base.Prelude Base.PyPrim Model.TlvVar Proofs.BytesLemmas Proofs.TlvVarProofs.
From NDN Require Generated.TlvVarGen.
Module Gen := Generated.TlvVarGen.
Local Open Scope Z_scope.

Arguments N.pow : simpl never.
Arguments Z.mul : simpl never.
Arguments Z.add : simpl never.

Definition zpair (p : N * nat) : Z * Z := (Z.of_N (fst p), Z.of_nat (snd p)).
Definition map_res {A B} (f : A -> B) (r : res A) : res B :=
  match r with Ok a => Ok (f a) | Err e => Err e end.

Theorem gen_size_eq (v : N) : Gen.get_tl_num_size (Z.of_N v) = Ok (Z.of_nat (tl_size v)).
Proof.
  unfold Gen.get_tl_num_size, tl_size.
  destruct (Z.of_N v <=? 252) eqn:A; destruct (v <=? 252)%N eqn:A'; try lia; [reflexivity|].
  destruct (Z.of_N v <=? 65535) eqn:B; destruct (v <=? 65535)%N eqn:B'; try lia; [reflexivity|].
  destruct (Z.of_N v <=? 4294967295) eqn:C; destruct (v <=? 4294967295)%N eqn:C'; try lia; reflexivity.
Qed.

Lemma struct_pack1_ok f (v : N) :
  (Z.of_N v < sfmt_bound f) -> struct_pack1 f (Z.of_N v) = Ok (N_to_be (sfmt_width f) v).
Proof.
  intros H. unfold struct_pack1.
  replace ((0 <=? Z.of_N v) && (Z.of_N v <? sfmt_bound f)) with true by lia.
  rewrite N2Z.id. reflexivity.
Qed.

Lemma struct_pack1_err f (v : N) :
  (sfmt_bound f <= Z.of_N v) -> struct_pack1 f (Z.of_N v) = Err EStruct.
Proof.
  intros H. unfold struct_pack1.
  replace ((0 <=? Z.of_N v) && (Z.of_N v <? sfmt_bound f)) with false by lia. reflexivity.
Qed.

Theorem gen_pack_uint_eq (v : N) : Gen.pack_uint_bytes (Z.of_N v) = nni_enc_r v.
Proof.
  unfold Gen.pack_uint_bytes, nni_enc_r, nni_enc, nni_width, two64.
  destruct (Z.of_N v <=? 255) eqn:A; destruct (v <=? 255)%N eqn:A'; try lia.
  { replace (v <? 18446744073709551616)%N with true by lia.
    cbn [struct_pack]. rewrite struct_pack1_ok by (cbn; lia). cbn [bind sfmt_width]. rewrite app_nil_r. reflexivity. }
  destruct (Z.of_N v <=? 65535) eqn:B; destruct (v <=? 65535)%N eqn:B'; try lia.
  { replace (v <? 18446744073709551616)%N with true by lia.
    cbn [struct_pack]. rewrite struct_pack1_ok by (cbn; lia). cbn [bind sfmt_width]. rewrite app_nil_r. reflexivity. }
  destruct (Z.of_N v <=? 4294967295) eqn:C; destruct (v <=? 4294967295)%N eqn:C'; try lia.
  { replace (v <? 18446744073709551616)%N with true by lia.
    cbn [struct_pack]. rewrite struct_pack1_ok by (cbn; lia). cbn [bind sfmt_width]. rewrite app_nil_r. reflexivity. }
  destruct (v <? 18446744073709551616)%N eqn:D.
  - cbn [struct_pack]. rewrite struct_pack1_ok by (cbn; lia). cbn [bind sfmt_width]. rewrite app_nil_r. reflexivity.
  - cbn [struct_pack]. rewrite struct_pack1_err by (cbn; lia). reflexivity.
Qed.

Lemma splice_z_eq buf off p : splice_z buf off p = splice buf off p.
Proof. reflexivity. Qed.

Lemma pack_into_ok fs buf (off : nat) vs p :
  struct_pack fs vs = Ok p -> (off + length p <= length buf)%nat ->
  struct_pack_into fs buf (Z.of_nat off) vs = Ok (splice buf off p).
Proof.
  intros Hp Hl. unfold struct_pack_into. rewrite Hp. cbn [bind]. unfold py_len.
  replace (Z.of_nat off <? 0) with false by lia.
  replace ((Z.of_nat off <? 0) || (Z.of_nat (length buf) <? Z.of_nat off + Z.of_nat (length p))) with false by lia.
  rewrite Nat2Z.id. reflexivity.
Qed.

Lemma pack_into_short fs buf (off : nat) vs p :
  struct_pack fs vs = Ok p -> (length buf < off + length p)%nat ->
  struct_pack_into fs buf (Z.of_nat off) vs = Err EStruct.
Proof.
  intros Hp Hl. unfold struct_pack_into. rewrite Hp. cbn [bind]. unfold py_len.
  replace (Z.of_nat off <? 0) with false by lia.
  replace ((Z.of_nat off <? 0) || (Z.of_nat (length buf) <? Z.of_nat off + Z.of_nat (length p))) with true by lia.
  reflexivity.
Qed.

(* write_tl_num writes exactly [tl_enc v] at [off] and reports [tl_size v] *)
Theorem gen_write_eq (v : N) buf (off : nat) :
  (v < two64)%N -> (off + tl_size v <= length buf)%nat ->
  Gen.write_tl_num (Z.of_N v) buf (Z.of_nat off) = Ok (Z.of_nat (tl_size v), splice buf off (tl_enc v)).
Proof.
  intros Hv Hl. unfold Gen.write_tl_num. rewrite <- tl_enc_length in Hl. revert Hl. unfold tl_size, tl_enc, two64 in *.
  destruct (Z.of_N v <=? 252) eqn:A; destruct (v <=? 252)%N eqn:A'; try lia.
  { intros Hl. erewrite pack_into_ok; [reflexivity| |exact Hl].
    cbn [struct_pack]. rewrite struct_pack1_ok by (cbn; lia). cbn [bind sfmt_width N_to_be app].
    f_equal. f_equal. apply N.mod_small. lia. }
  destruct (Z.of_N v <=? 65535) eqn:B; destruct (v <=? 65535)%N eqn:B'; try lia.
  { intros Hl. erewrite pack_into_ok; [reflexivity| |exact Hl].
    cbn [struct_pack]. change 253 with (Z.of_N 253). rewrite !struct_pack1_ok by (cbn; lia).
    cbn [bind sfmt_width]. rewrite app_nil_r. reflexivity. }
  destruct (Z.of_N v <=? 4294967295) eqn:C; destruct (v <=? 4294967295)%N eqn:C'; try lia.
  { intros Hl. erewrite pack_into_ok; [reflexivity| |exact Hl].
    cbn [struct_pack]. change 254 with (Z.of_N 254). rewrite !struct_pack1_ok by (cbn; lia).
    cbn [bind sfmt_width]. rewrite app_nil_r. reflexivity. }
  intros Hl. erewrite pack_into_ok; [reflexivity| |exact Hl].
  cbn [struct_pack]. change 255 with (Z.of_N 255). rewrite !struct_pack1_ok by (cbn; lia).
  cbn [bind sfmt_width]. rewrite app_nil_r. reflexivity.
Qed.

Lemma py_index_nat buf (off : nat) :
  py_index buf (Z.of_nat off) =
  match nth_error buf off with Some x => Ok (Z.of_N x) | None => Err EIndex end.
Proof.
  unfold py_index, py_len. replace (Z.of_nat off <? 0) with false by lia.
  destruct (nth_error buf off) as [x|] eqn:E.
  - assert (off < length buf)%nat by (apply nth_error_Some; congruence).
    replace ((Z.of_nat off <? 0) || (Z.of_nat (length buf) <=? Z.of_nat off)) with false by lia.
    rewrite Nat2Z.id, E. reflexivity.
  - apply nth_error_None in E.
    replace ((Z.of_nat off <? 0) || (Z.of_nat (length buf) <=? Z.of_nat off)) with true by lia. reflexivity.
Qed.

Lemma py_slice_nat buf (a k : nat) :
  py_slice buf (Some (Z.of_nat a + Z.of_nat 1)) (Some (Z.of_nat a + Z.of_nat (S k))) = firstn k (skipn (S a) buf).
Proof.
  unfold py_slice, clamp_idx, py_len.
  replace (Z.of_nat a + Z.of_nat 1 <? 0) with false by lia.
  replace (Z.of_nat a + Z.of_nat (S k) <? 0) with false by lia.
  set (n := length buf).
  destruct (Z.max 0 (Z.min (Z.of_nat n) (Z.of_nat a + Z.of_nat (S k))) <=?
            Z.max 0 (Z.min (Z.of_nat n) (Z.of_nat a + Z.of_nat 1))) eqn:E.
  - (* empty: either k = 0 or a+1 >= n *)
    destruct k as [|k]; [reflexivity|].
    assert (n <= S a)%nat by lia. rewrite skipn_all2 by (unfold n in *; lia). reflexivity.
  - replace (Z.to_nat (Z.max 0 (Z.min (Z.of_nat n) (Z.of_nat a + Z.of_nat 1)))) with (S a) by lia.
    assert (S a < n)%nat by lia.
    destruct (Nat.le_gt_cases (S a + k) n) as [L|L].
    + replace (Z.to_nat (Z.max 0 (Z.min (Z.of_nat n) (Z.of_nat a + Z.of_nat (S k))))) with (S a + k)%nat by lia.
      rewrite skipn_firstn_comm. f_equal. lia.
    + replace (Z.to_nat (Z.max 0 (Z.min (Z.of_nat n) (Z.of_nat a + Z.of_nat (S k))))) with n by lia.
      unfold n. rewrite firstn_all. symmetry. apply firstn_all2. rewrite skipn_length. lia.
Qed.

Lemma struct_unpack1_eq f r k :
  sfmt_width f = k -> struct_unpack1 f (firstn k r) = map_res Z.of_N (unpack_be k r).
Proof. intros <-. unfold struct_unpack1, unpack_be. destruct (Nat.eqb _ _); reflexivity. Qed.

(* parse_tl_num(buf, off) reads the number that starts at buf[off:] *)
Theorem gen_parse_eq buf (off : nat) :
  wf_bytes buf ->
  Gen.parse_tl_num buf (Z.of_nat off) = map_res zpair (tl_dec (skipn off buf)).
Proof.
  intros Hw. unfold Gen.parse_tl_num. rewrite py_index_nat.
  destruct (nth_error buf off) as [b|] eqn:E.
  - assert (Hs : skipn off buf = b :: skipn (S off) buf).
    { clear Hw. revert buf E. induction off as [|o IH]; intros [|x buf] E; try discriminate.
      - inversion E. reflexivity.
      - cbn in E. apply IH in E. exact E. }
    rewrite Hs. cbn [bind tl_dec].
    assert (Hb : (b < 256)%N).
    { unfold wf_bytes in Hw. rewrite Forall_forall in Hw. apply Hw. eapply nth_error_In; eauto. }
    destruct (Z.of_N b <=? 252) eqn:A; destruct (b <=? 252)%N eqn:A'; try lia; [reflexivity|].
    destruct (Z.of_N b =? 253) eqn:B; destruct (b =? 253)%N eqn:B'; try lia.
    { change (Z.of_nat off + 3) with (Z.of_nat off + Z.of_nat 3).
      change (Z.of_nat off + 1) with (Z.of_nat off + Z.of_nat 1).
      rewrite py_slice_nat, (struct_unpack1_eq FH _ 2) by reflexivity.
      destruct (unpack_be 2 (skipn (S off) buf)); reflexivity. }
    destruct (Z.of_N b =? 254) eqn:C; destruct (b =? 254)%N eqn:C'; try lia.
    { change (Z.of_nat off + 5) with (Z.of_nat off + Z.of_nat 5).
      change (Z.of_nat off + 1) with (Z.of_nat off + Z.of_nat 1).
      rewrite py_slice_nat, (struct_unpack1_eq FI _ 4) by reflexivity.
      destruct (unpack_be 4 (skipn (S off) buf)); reflexivity. }
    change (Z.of_nat off + 9) with (Z.of_nat off + Z.of_nat 9).
    change (Z.of_nat off + 1) with (Z.of_nat off + Z.of_nat 1).
    rewrite py_slice_nat, (struct_unpack1_eq FQ _ 8) by reflexivity.
    destruct (unpack_be 8 (skipn (S off) buf)); reflexivity.
  - apply nth_error_None in E. rewrite skipn_all2 by exact E. reflexivity.
Qed.

Lemma py_slice_tail buf (a : nat) (sz : N) :
  (a <= length buf)%nat -> Z.of_nat (length buf) = Z.of_nat a + Z.of_N sz ->
  py_slice buf (Some (Z.of_nat a)) (Some (Z.of_nat a + Z.of_N sz)) = skipn a buf.
Proof.
  intros Ha Hl. unfold py_slice, clamp_idx, py_len.
  replace (Z.of_nat a <? 0) with false by lia.
  replace (Z.of_nat a + Z.of_N sz <? 0) with false by lia.
  rewrite <- Hl.
  replace (Z.max 0 (Z.min (Z.of_nat (length buf)) (Z.of_nat (length buf)))) with (Z.of_nat (length buf)) by lia.
  replace (Z.max 0 (Z.min (Z.of_nat (length buf)) (Z.of_nat a))) with (Z.of_nat a) by lia.
  rewrite !Nat2Z.id. rewrite firstn_all.
  destruct (Z.of_nat (length buf) <=? Z.of_nat a) eqn:E; [|reflexivity].
  assert (a = length buf) by lia. subst. rewrite skipn_all. reflexivity.
Qed.

(* parse_and_check_tl(wire, expected_type): same accept/reject, same error class, same value slice *)
Theorem gen_pact_eq wire (t : N) :
  wf_bytes wire -> Gen.parse_and_check_tl wire (Z.of_N t) = parse_and_check_tl wire t.
Proof.
  intros Hw. unfold Gen.parse_and_check_tl, parse_and_check_tl.
  change 0 with (Z.of_nat 0). rewrite gen_parse_eq by exact Hw. cbn [skipn].
  destruct (tl_dec wire) as [[typ tlen]|e] eqn:E1; [|reflexivity]. cbn [map_res bind zpair fst snd].
  rewrite gen_parse_eq by exact Hw.
  destruct (tl_dec (skipn tlen wire)) as [[size slen]|e] eqn:E2; [|reflexivity]. cbn [map_res bind zpair fst snd].
  replace (Z.of_N typ =? Z.of_N t) with (typ =? t)%N by lia.
  destruct (typ =? t)%N; cbn [negb]; [|reflexivity].
  unfold py_len.
  replace (Z.of_nat (length wire) =? Z.of_nat tlen + Z.of_nat slen + Z.of_N size)
    with (N.of_nat (length wire) =? N.of_nat (tlen + slen) + size)%N by lia.
  destruct (N.of_nat (length wire) =? N.of_nat (tlen + slen) + size)%N eqn:E3; cbn [negb]; [|reflexivity].
  f_equal. replace (Z.of_nat tlen + Z.of_nat slen) with (Z.of_nat (tlen + slen)) by lia.
  apply py_slice_tail; lia.
Qed.
