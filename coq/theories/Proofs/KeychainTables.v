(* Pure lemmas about one table (rows, the INSERT/UPDATE/DELETE statements with their triggers, the views). *)
From NDN Require Import Base.Prelude Model.Keychain.
Local Open Scope N_scope.

Lemma name_eqb_eq a b : name_eqb a b = true <-> a = b.
Proof. apply list_eqb_spec. intros; apply N.eqb_eq. Qed.
Lemma name_eqb_refl a : name_eqb a a = true.
Proof. apply name_eqb_eq; reflexivity. Qed.
Lemma name_eqb_neq a b : name_eqb a b = false <-> a <> b.
Proof.
  split.
  - intros H E. apply name_eqb_eq in E. congruence.
  - intros H. destruct (name_eqb a b) eqn:E; [apply name_eqb_eq in E; contradiction | reflexivity].
Qed.
Lemma name_eqb_sym a b : name_eqb a b = name_eqb b a.
Proof.
  destruct (name_eqb a b) eqn:E.
  - apply name_eqb_eq in E; subst. symmetry; apply name_eqb_refl.
  - apply name_eqb_neq in E. symmetry. apply name_eqb_neq. congruence.
Qed.
Lemma has_name_true n r : has_name n r = true <-> r_name r = n.
Proof. unfold has_name. apply name_eqb_eq. Qed.
Lemma has_name_false n r : has_name n r = false <-> r_name r <> n.
Proof. unfold has_name. apply name_eqb_neq. Qed.
Lemma in_scope_true p r : in_scope p r = true <-> r_par r = p.
Proof. unfold in_scope. apply N.eqb_eq. Qed.
Lemma in_scope_false p r : in_scope p r = false <-> r_par r <> p.
Proof. unfold in_scope. apply N.eqb_neq. Qed.

Lemma drop2_app2 (n : name) a b : drop2 (n ++ [a; b]) = n.
Proof.
  unfold drop2. rewrite app_length. cbn [length].
  replace (length n + 2 - 2)%nat with (length n + 0)%nat by lia.
  rewrite firstn_app_2. cbn. apply app_nil_r.
Qed.

(* ---- well-formed table --------------------------------------------------------------------------- *)
Definition onedef (l : rows) : Prop :=
  forall a b, In a l -> In b l -> r_def a = true -> r_def b = true -> r_par a = r_par b -> r_id a = r_id b.
Record wf_rows (l : rows) : Prop := mkWfRows {
  wr_ids : NoDup (map r_id l);
  wr_names : NoDup (map r_name l);
  wr_onedef : onedef l
}.

Lemma NoDup_snoc {A} (l : list A) x : NoDup l -> ~ In x l -> NoDup (l ++ [x]).
Proof.
  induction l as [|y l IH]; cbn; intros ND NI.
  - constructor; [intros [] | constructor].
  - inversion ND; subst. constructor.
    + rewrite in_app_iff. cbn. intros [H | [H | []]]; [contradiction | subst; apply NI; left; reflexivity].
    + apply IH; [assumption | intros H; apply NI; right; assumption].
Qed.
Lemma NoDup_map_filter {A B} (f : A -> B) (g : A -> bool) l : NoDup (map f l) -> NoDup (map f (filter g l)).
Proof.
  induction l as [|x l IH]; cbn; intros ND; [constructor|].
  inversion ND; subst. destruct (g x); cbn; [constructor|]; auto.
  intros H. apply H1. apply in_map_iff in H. destruct H as [y [E Hy]]. apply filter_In in Hy.
  apply in_map_iff. exists y. tauto.
Qed.
Lemma NoDup_map_inj {A B} (f : A -> B) l a b : NoDup (map f l) -> In a l -> In b l -> f a = f b -> a = b.
Proof.
  induction l as [|x l IH]; cbn; intros ND Ha Hb E; [contradiction|].
  inversion ND; subst.
  destruct Ha as [-> | Ha], Hb as [-> | Hb]; auto.
  - exfalso. apply H1. rewrite E. apply in_map. assumption.
  - exfalso. apply H1. rewrite <- E. apply in_map. assumption.
Qed.

Lemma id_inj l a b : wf_rows l -> In a l -> In b l -> r_id a = r_id b -> a = b.
Proof. intros W. apply NoDup_map_inj. apply W. Qed.
Lemma name_inj l a b : wf_rows l -> In a l -> In b l -> r_name a = r_name b -> a = b.
Proof. intros W. apply NoDup_map_inj. apply W. Qed.

Lemma wf_rows_nil : wf_rows [].
Proof. constructor; cbn; try constructor. intros a b []. Qed.

(* ---- row ids ----------------------------------------------------------------------------------- *)
Lemma max_id_cons x l : max_id (x :: l) = N.max (r_id x) (max_id l).
Proof. reflexivity. Qed.
Lemma max_id_ge l r : In r l -> r_id r <= max_id l.
Proof.
  induction l as [|x l IH]; intros H; [contradiction|]. rewrite max_id_cons.
  destruct H as [-> | H]; [lia | specialize (IH H); lia].
Qed.
Lemma next_id_fresh l : ~ In (next_id l) (map r_id l).
Proof.
  intros H. apply in_map_iff in H. destruct H as [r [E Hr]]. apply max_id_ge in Hr. unfold next_id in E. lia.
Qed.
Lemma next_id_fresh_row l r : In r l -> r_id r <> next_id l.
Proof. intros H E. apply (next_id_fresh l). rewrite <- E. apply in_map. assumption. Qed.

(* ---- lookups ------------------------------------------------------------------------------------ *)
Lemma r_find_some n l r : r_find n l = Some r -> In r l /\ r_name r = n.
Proof. unfold r_find. intros H. apply find_some in H. rewrite has_name_true in H. assumption. Qed.
Lemma r_find_none n l : r_find n l = None -> ~ In n (map r_name l).
Proof.
  unfold r_find. intros H Hin. apply in_map_iff in Hin. destruct Hin as [r [E Hr]].
  apply (find_none _ _ H) in Hr. apply has_name_false in Hr. contradiction.
Qed.
Lemma r_find_in n l r : wf_rows l -> In r l -> r_name r = n -> r_find n l = Some r.
Proof.
  intros W Hr E. destruct (r_find n l) as [r'|] eqn:F.
  - apply r_find_some in F. destruct F as [H1 H2]. f_equal. eapply name_inj; eauto. congruence.
  - apply r_find_none in F. exfalso. apply F. rewrite <- E. apply in_map. assumption.
Qed.
Lemma existsb_has_name n l : existsb (has_name n) l = true <-> In n (map r_name l).
Proof.
  rewrite existsb_exists. split.
  - intros [r [H1 H2]]. apply has_name_true in H2. subst. apply in_map. assumption.
  - intros H. apply in_map_iff in H. destruct H as [r [E Hr]]. exists r. split; [assumption|]. apply has_name_true. assumption.
Qed.
Lemma scope_has_def_true p l : scope_has_def p l = true <-> exists r, In r l /\ r_def r = true /\ r_par r = p.
Proof.
  unfold scope_has_def, is_def_in. rewrite existsb_exists. split.
  - intros [r [H1 H2]]. apply andb_true_iff in H2. destruct H2 as [H2 H3]. apply in_scope_true in H3. eauto.
  - intros [r [H1 [H2 H3]]]. exists r. split; [assumption|]. rewrite H2. apply in_scope_true in H3. rewrite H3. reflexivity.
Qed.
Lemma scope_has_def_false p l r : scope_has_def p l = false -> In r l -> r_par r = p -> r_def r = false.
Proof.
  intros H Hr E. destruct (r_def r) eqn:D; [|reflexivity].
  assert (scope_has_def p l = true) by (apply scope_has_def_true; eauto). congruence.
Qed.
Lemma scope_default_some p l r : scope_default p l = Some r -> In r l /\ r_def r = true /\ r_par r = p.
Proof.
  unfold scope_default, is_def_in. intros H. apply find_some in H. destruct H as [H1 H2].
  apply andb_true_iff in H2. destruct H2 as [H2 H3]. apply in_scope_true in H3. auto.
Qed.
Lemma scope_default_none p l : scope_default p l = None <-> scope_has_def p l = false.
Proof.
  unfold scope_default, scope_has_def. split; intros H.
  - destruct (existsb (is_def_in p) l) eqn:E; [|reflexivity].
    apply existsb_exists in E. destruct E as [r [H1 H2]]. rewrite (find_none _ _ H _ H1) in H2. discriminate.
  - destruct (find (is_def_in p) l) as [r|] eqn:E; [|reflexivity].
    apply find_some in E. destruct E as [H1 H2].
    assert (existsb (is_def_in p) l = true) by (apply existsb_exists; eauto). congruence.
Qed.
Lemma scope_default_unique p l r r' :
  wf_rows l -> scope_default p l = Some r -> In r' l -> r_def r' = true -> r_par r' = p -> r' = r.
Proof.
  intros W H Hin D P. apply scope_default_some in H. destruct H as [H1 [H2 H3]].
  eapply id_inj; eauto. apply (wr_onedef _ W); auto. congruence.
Qed.

(* ---- INSERT ------------------------------------------------------------------------------------- *)
Lemma r_insert_ok p n v l l' :
  r_insert p n v l = Ok l' ->
  l' = l ++ [mkRow (next_id l) p n v (negb (scope_has_def p l))] /\ ~ In n (map r_name l).
Proof.
  unfold r_insert. destruct (existsb (has_name n) l) eqn:E; [discriminate|]. intros H. inversion H; subst. split; [reflexivity|].
  intros Hin. apply existsb_has_name in Hin. congruence.
Qed.
Lemma r_insert_err p n v l e : r_insert p n v l = Err e -> e = EIntegrity /\ In n (map r_name l).
Proof.
  unfold r_insert. destruct (existsb (has_name n) l) eqn:E; [|discriminate]. intros H. inversion H. split; [reflexivity|].
  apply existsb_has_name. assumption.
Qed.
Lemma r_insert_wf p n v l l' : wf_rows l -> r_insert p n v l = Ok l' -> wf_rows l'.
Proof.
  intros W H. apply r_insert_ok in H. destruct H as [-> NI]. constructor.
  - rewrite map_app. cbn. apply NoDup_snoc; [apply W | apply next_id_fresh].
  - rewrite map_app. cbn. apply NoDup_snoc; [apply W | assumption].
  - intros a b Ha Hb Da Db Pab. rewrite in_app_iff in Ha, Hb. cbn in Ha, Hb.
    destruct Ha as [Ha | [<- | []]], Hb as [Hb | [<- | []]]; cbn in *.
    + apply (wr_onedef _ W); assumption.
    + apply negb_true_iff in Db. rewrite (scope_has_def_false _ _ _ Db Ha Pab) in Da. discriminate.
    + apply negb_true_iff in Da. rewrite (scope_has_def_false _ _ _ Da Hb (eq_sym Pab)) in Db. discriminate.
    + reflexivity.
Qed.
Lemma r_insert_in p n v l l' x : r_insert p n v l = Ok l' -> In x l -> In x l'.
Proof. intros H Hx. apply r_insert_ok in H. destruct H as [-> _]. apply in_app_iff. left. assumption. Qed.
Lemma r_insert_new p n v l l' :
  r_insert p n v l = Ok l' ->
  exists x, In x l' /\ r_name x = n /\ r_par x = p /\ r_val x = v /\ r_id x = next_id l /\
            (forall y, In y l' -> In y l \/ y = x).
Proof.
  intros H. apply r_insert_ok in H. destruct H as [-> _].
  eexists. split; [apply in_app_iff; right; left; reflexivity|]. cbn. repeat split; try reflexivity.
  intros y Hy. apply in_app_iff in Hy. destruct Hy as [Hy | [<- | []]]; auto.
Qed.
(* after an insert the scope has a default *)
Lemma r_insert_has_default p n v l l' : r_insert p n v l = Ok l' -> scope_has_def p l' = true.
Proof.
  intros H. apply r_insert_ok in H. destruct H as [-> _]. unfold scope_has_def. rewrite existsb_app. cbn.
  fold (scope_has_def p l). destruct (scope_has_def p l); cbn; [reflexivity|].
  unfold is_def_in, in_scope. cbn. rewrite N.eqb_refl. reflexivity.
Qed.
Lemma r_insert_other_scope p q n v l l' : r_insert p n v l = Ok l' -> q <> p -> scope_has_def q l' = scope_has_def q l.
Proof.
  intros H NE. apply r_insert_ok in H. destruct H as [-> _]. unfold scope_has_def. rewrite existsb_app. cbn.
  unfold is_def_in at 2, in_scope. cbn. replace (p =? q) with false by (symmetry; apply N.eqb_neq; congruence).
  rewrite andb_false_r. cbn. apply orb_false_r.
Qed.

(* ---- UPDATE ... SET is_default=1 ----------------------------------------------------------------- *)
Definition upd_default (r : row) (x : row) : row :=
  if r_id x =? r_id r then set_def x true else if in_scope (r_par r) x then set_def x false else x.
Lemma r_set_default_cases n l :
  (r_set_default n l = l) \/
  (exists r, r_find n l = Some r /\ r_def r = false /\ r_set_default n l = map (upd_default r) l).
Proof.
  unfold r_set_default. destruct (r_find n l) as [r|] eqn:F; [|left; reflexivity].
  destruct (r_def r) eqn:D; [left; reflexivity|]. right. exists r. auto.
Qed.
Lemma upd_default_id r x : r_id (upd_default r x) = r_id x.
Proof. unfold upd_default. destruct (_ =? _); [reflexivity|]. destruct (in_scope _ _); reflexivity. Qed.
Lemma upd_default_name r x : r_name (upd_default r x) = r_name x.
Proof. unfold upd_default. destruct (_ =? _); [reflexivity|]. destruct (in_scope _ _); reflexivity. Qed.
Lemma upd_default_par r x : r_par (upd_default r x) = r_par x.
Proof. unfold upd_default. destruct (_ =? _); [reflexivity|]. destruct (in_scope _ _); reflexivity. Qed.
Lemma upd_default_val r x : r_val (upd_default r x) = r_val x.
Proof. unfold upd_default. destruct (_ =? _); [reflexivity|]. destruct (in_scope _ _); reflexivity. Qed.

Lemma r_set_default_ids n l : map r_id (r_set_default n l) = map r_id l.
Proof.
  destruct (r_set_default_cases n l) as [-> | [r [_ [_ ->]]]]; [reflexivity|].
  rewrite map_map. apply map_ext. apply upd_default_id.
Qed.
Lemma r_set_default_names n l : map r_name (r_set_default n l) = map r_name l.
Proof.
  destruct (r_set_default_cases n l) as [-> | [r [_ [_ ->]]]]; [reflexivity|].
  rewrite map_map. apply map_ext. apply upd_default_name.
Qed.
(* the rows keep id, parent, name, value; only flags change *)
Lemma r_set_default_in n l y :
  In y (r_set_default n l) -> exists x, In x l /\ r_id x = r_id y /\ r_par x = r_par y /\ r_name x = r_name y /\ r_val x = r_val y.
Proof.
  destruct (r_set_default_cases n l) as [-> | [r [_ [_ ->]]]]; intros H.
  - exists y. auto.
  - apply in_map_iff in H. destruct H as [x [<- Hx]]. exists x.
    rewrite upd_default_id, upd_default_par, upd_default_name, upd_default_val. auto.
Qed.
Lemma r_set_default_in_rev n l x :
  In x l -> exists y, In y (r_set_default n l) /\ r_id x = r_id y /\ r_par x = r_par y /\ r_name x = r_name y /\ r_val x = r_val y.
Proof.
  destruct (r_set_default_cases n l) as [-> | [r [_ [_ ->]]]]; intros H.
  - exists x. auto.
  - exists (upd_default r x). split; [apply in_map; assumption|].
    rewrite upd_default_id, upd_default_par, upd_default_name, upd_default_val. auto.
Qed.
Lemma r_set_default_wf n l : wf_rows l -> wf_rows (r_set_default n l).
Proof.
  intros W. constructor.
  - rewrite r_set_default_ids. apply W.
  - rewrite r_set_default_names. apply W.
  - destruct (r_set_default_cases n l) as [-> | [r [F [D ->]]]]; [apply W|].
    apply r_find_some in F. destruct F as [Hr _].
    intros a' b' Ha Hb Da Db Pab.
    apply in_map_iff in Ha. destruct Ha as [a [<- Ha]]. apply in_map_iff in Hb. destruct Hb as [b [<- Hb]].
    rewrite !upd_default_id. rewrite !upd_default_par in Pab.
    unfold upd_default in Da, Db.
    destruct (r_id a =? r_id r) eqn:Ea, (r_id b =? r_id r) eqn:Eb.
    + apply N.eqb_eq in Ea, Eb. congruence.
    + apply N.eqb_eq in Ea. assert (a = r) by (eapply id_inj; eauto). subst a.
      assert (in_scope (r_par r) b = true) by (apply in_scope_true; congruence).
      rewrite H in Db. cbn in Db. discriminate.
    + apply N.eqb_eq in Eb. assert (b = r) by (eapply id_inj; eauto). subst b.
      assert (in_scope (r_par r) a = true) by (apply in_scope_true; congruence).
      rewrite H in Da. cbn in Da. discriminate.
    + destruct (in_scope (r_par r) a); [cbn in Da; discriminate|].
      destruct (in_scope (r_par r) b); [cbn in Db; discriminate|].
      apply (wr_onedef _ W); assumption.
Qed.
(* when the named row exists its scope has a default afterwards, and it is that row *)
Lemma r_set_default_sets n l r :
  wf_rows l -> r_find n l = Some r ->
  exists r', In r' (r_set_default n l) /\ r_id r' = r_id r /\ r_name r' = n /\ r_par r' = r_par r /\ r_def r' = true.
Proof.
  intros W F. unfold r_set_default. rewrite F. pose proof (r_find_some _ _ _ F) as [Hr En].
  destruct (r_def r) eqn:D.
  - exists r. auto.
  - exists (set_def r true). split.
    + apply in_map_iff. exists r. split; [|assumption]. rewrite N.eqb_refl. reflexivity.
    + cbn. auto.
Qed.
Lemma r_set_default_scope_has p n l :
  scope_has_def p l = true -> scope_has_def p (r_set_default n l) = true.
Proof.
  intros H. destruct (r_set_default_cases n l) as [-> | [r [F [D E]]]]; [assumption|]. rewrite E.
  apply scope_has_def_true in H. destruct H as [x [Hx [Dx Px]]]. apply scope_has_def_true.
  apply r_find_some in F. destruct F as [Hr _].
  destruct (N.eq_dec (r_par r) p) as [Ep | Np].
  - exists (upd_default r r). split; [apply in_map; assumption|]. rewrite upd_default_par. split; [|assumption].
    unfold upd_default. rewrite N.eqb_refl. reflexivity.
  - exists (upd_default r x). split; [apply in_map; assumption|]. rewrite upd_default_par. split; [|assumption].
    unfold upd_default. destruct (r_id x =? r_id r); [reflexivity|].
    replace (in_scope (r_par r) x) with false; [assumption|]. symmetry. apply in_scope_false. congruence.
Qed.

(* ---- DELETE ------------------------------------------------------------------------------------- *)
Lemma filter_wf (f : row -> bool) l : wf_rows l -> wf_rows (filter f l).
Proof.
  intros W. constructor.
  - apply NoDup_map_filter. apply W.
  - apply NoDup_map_filter. apply W.
  - intros a b Ha Hb. apply filter_In in Ha, Hb. apply (wr_onedef _ W); tauto.
Qed.
Lemma r_delete_name_in n l x : In x (r_delete_name n l) <-> In x l /\ r_name x <> n.
Proof. unfold r_delete_name. rewrite filter_In, negb_true_iff, has_name_false. tauto. Qed.
Lemma r_delete_scope_in p l x : In x (r_delete_scope p l) <-> In x l /\ r_par x <> p.
Proof. unfold r_delete_scope. rewrite filter_In, negb_true_iff, in_scope_false. tauto. Qed.
(* a delete can only remove a default, never create or move one *)
Lemma filter_scope_has_def (f : row -> bool) p l :
  scope_has_def p (filter f l) = true -> scope_has_def p l = true.
Proof.
  rewrite !scope_has_def_true. intros [r [H1 H2]]. apply filter_In in H1. exists r. tauto.
Qed.
Lemma filter_keeps_default (f : row -> bool) p l r :
  scope_default p l = Some r -> f r = true -> scope_has_def p (filter f l) = true.
Proof.
  intros H F. apply scope_default_some in H. apply scope_has_def_true. exists r. rewrite filter_In. tauto.
Qed.

(* ---- the Mapping views --------------------------------------------------------------------------- *)
Lemma v_len_iter p l : v_len p l = length (v_iter p l).
Proof. unfold v_len, v_iter. rewrite map_length. reflexivity. Qed.
Lemma v_iter_in p l n : In n (v_iter p l) <-> exists r, In r l /\ r_name r = n /\ r_par r = p.
Proof.
  unfold v_iter. rewrite in_map_iff. split.
  - intros [r [E H]]. apply filter_In in H. rewrite in_scope_true in H. exists r. tauto.
  - intros [r [H1 [H2 H3]]]. exists r. rewrite filter_In, in_scope_true. tauto.
Qed.
Lemma v_get_ok p n l r : v_get p n l = Ok r -> In r l /\ r_name r = n /\ r_par r = p.
Proof.
  unfold v_get. destruct (find _ l) as [x|] eqn:F; [|discriminate]. intros H. inversion H; subst.
  apply find_some in F. rewrite andb_true_iff, has_name_true, in_scope_true in F. tauto.
Qed.
Lemma v_get_err p n l e : v_get p n l = Err e -> e = EKey /\ ~ In n (v_iter p l).
Proof.
  unfold v_get. destruct (find _ l) as [x|] eqn:F; [discriminate|]. intros H. inversion H. split; [reflexivity|].
  intros Hin. apply v_iter_in in Hin. destruct Hin as [r [G1 [G2 G3]]].
  apply (find_none _ _ F) in G1. rewrite andb_false_iff, has_name_false, in_scope_false in G1. tauto.
Qed.
Lemma v_get_in p n l r : wf_rows l -> In r l -> r_name r = n -> r_par r = p -> v_get p n l = Ok r.
Proof.
  intros W Hr En Ep. destruct (v_get p n l) as [x|e] eqn:G.
  - apply v_get_ok in G. destruct G as [G1 [G2 G3]]. f_equal. symmetry. eapply name_inj; eauto. congruence.
  - apply v_get_err in G. exfalso. apply (proj2 G). apply v_iter_in. eauto.
Qed.
Lemma v_contains_iter p n l : v_contains p n l = true <-> In n (v_iter p l).
Proof.
  unfold v_contains. destruct (v_get p n l) as [r|e] eqn:G; cbn.
  - apply v_get_ok in G. split; [|reflexivity]. intros _. apply v_iter_in. eauto.
  - apply v_get_err in G. split; [discriminate | tauto].
Qed.
Lemma v_iter_nodup p l : wf_rows l -> NoDup (v_iter p l).
Proof. intros W. unfold v_iter. apply NoDup_map_filter. apply W. Qed.
(* a name is listed by at most one owner *)
Lemma v_iter_scoped p q l n : wf_rows l -> In n (v_iter p l) -> In n (v_iter q l) -> p = q.
Proof.
  intros W Hp Hq. apply v_iter_in in Hp, Hq. destruct Hp as [a [Ha [Na Pa]]], Hq as [b [Hb [Nb Pb]]].
  assert (a = b) by (eapply name_inj; eauto; congruence). subst. congruence.
Qed.
Lemma v_default_ok p l r : v_default p l = Ok r -> In r l /\ r_def r = true /\ r_par r = p.
Proof.
  unfold v_default. destruct (scope_default p l) eqn:E; [|discriminate]. intros H. inversion H; subst.
  apply scope_default_some. assumption.
Qed.
Lemma v_default_err p l e : v_default p l = Err e -> e = EKey /\ scope_has_def p l = false.
Proof.
  unfold v_default. destruct (scope_default p l) eqn:E; [discriminate|]. intros H. inversion H. split; [reflexivity|].
  apply scope_default_none. assumption.
Qed.
