(* C16, time: the validity text new_cert writes is 15 octets "YYYYMMDDTHHMMSS" for years 1000..9999 and reads back
   to the same fields; the day-count arithmetic behind timedelta addition / astimezone(UTC) is inverted by the
   reading of an instant (seconds since the epoch), so the text denotes exactly the requested instant. *)
From NDN Require Import Base.Prelude Base.Text Model.TlvVar Model.Name Model.Tlv Model.Cert Spec.CertSpec
  Generated.ConstsCert.
Local Open Scope N_scope.
Set Default Timeout 900.

Arguments N.of_nat : simpl never.
Arguments N.to_nat : simpl never.

(* ---- finite checks lifted to all numbers below a bound ------------------------------------------------------------- *)
Definition N_below (k : N) : list N := map N.of_nat (seq 0 (N.to_nat k)).

Lemma forallb_below (P : N -> bool) (k : N) :
  forallb P (N_below k) = true -> forall n, n < k -> P n = true.
Proof.
  intros H n Hn. rewrite forallb_forall in H. apply H. unfold N_below.
  rewrite <- (N2Nat.id n). apply in_map. apply in_seq. lia.
Qed.

(* ---- digits ------------------------------------------------------------------------------------------------------------ *)
Definition two_digits (n : N) : str := [48 + n / 10; 48 + n mod 10].
Definition four_digits (n : N) : str := [48 + n / 1000; 48 + n / 100 mod 10; 48 + n / 10 mod 10; 48 + n mod 10].

Lemma pad2_digits n : n < 100 -> pad2 n = two_digits n.
Proof.
  intros H.
  assert (E : forallb (fun n => str_eqb (pad2 n) (two_digits n)) (N_below 100) = true) by (vm_compute; reflexivity).
  pose proof (forallb_below _ _ E n ltac:(lia)) as G. cbv beta in G.
  apply bytes_eqb_spec in G. exact G.
Qed.

Lemma year_digits y : 1000 <= y -> y <= 9999 -> dec_print y = four_digits y.
Proof.
  intros H1 H2.
  assert (E : forallb (fun y => (y <? 1000) || str_eqb (dec_print y) (four_digits y)) (N_below 10000) = true)
    by (vm_compute; reflexivity).
  pose proof (forallb_below _ _ E y ltac:(lia)) as G. cbv beta in G.
  replace (y <? 1000) with false in G by lia. cbn [orb] in G. apply bytes_eqb_spec in G. exact G.
Qed.

(* ---- the text written for a validity instant ------------------------------------------------------------------------------ *)
(* both format strings of the source are the NDN certificate timestamp format *)
Lemma formats_are_iso8601_basic :
  not_before_format = [37; 89; 37; 109; 37; 100; 84; 37; 72; 37; 77; 37; 83] /\ not_after_format = not_before_format.
Proof. split; reflexivity. Qed.

Definition validity_text (t : bdt) : bytes :=
  four_digits (t_year t) ++ two_digits (t_mon t) ++ two_digits (t_day t) ++ [84] ++
  two_digits (t_hour t) ++ two_digits (t_min t) ++ two_digits (t_sec t).

Lemma strftime_raw t :
  strftime not_before_format t =
  Ok (dec_print (t_year t) ++ pad2 (t_mon t) ++ pad2 (t_day t) ++ [84] ++ pad2 (t_hour t) ++ pad2 (t_min t) ++ pad2 (t_sec t)).
Proof.
  destruct formats_are_iso8601_basic as [-> _].
  cbn [strftime N.eqb Pos.eqb]. unfold directive. cbn [N.eqb Pos.eqb bind app].
  rewrite app_nil_r. reflexivity.
Qed.

(* fields in the ranges every datetime satisfies (valid_bdt implies them), year of four digits *)
Definition in_range (t : bdt) : Prop :=
  1000 <= t_year t /\ t_year t <= 9999 /\ t_mon t < 100 /\ t_day t < 100 /\ t_hour t < 100 /\ t_min t < 100 /\ t_sec t < 100.

Theorem strftime_validity t : in_range t -> strftime not_before_format t = Ok (validity_text t) /\
                                             strftime not_after_format t = Ok (validity_text t).
Proof.
  intros (H1 & H2 & H3 & H4 & H5 & H6 & H7).
  destruct formats_are_iso8601_basic as [_ ->]. rewrite strftime_raw.
  rewrite year_digits, !pad2_digits by assumption. split; reflexivity.
Qed.

Lemma validity_text_length t : length (validity_text t) = 15%nat.
Proof. reflexivity. Qed.

Lemma valid_in_range t : valid_bdt t = true -> 1000 <= t_year t -> in_range t.
Proof.
  unfold valid_bdt, in_range, days_in_month. intros H Hy.
  repeat (apply andb_true_iff in H; destruct H as [H ?]).
  destruct (t_mon t =? 2); [destruct (is_leap (t_year t))|destruct ((t_mon t =? 4) || (t_mon t =? 6) || (t_mon t =? 9) || (t_mon t =? 11))]; lia.
Qed.

Lemma is_digit_48 x : x < 10 -> is_digit (48 + x) = true.
Proof. unfold is_digit. lia. Qed.

(* reading the 15 octets back gives the fields *)
Theorem parse_validity_text t : valid_bdt t = true -> 1000 <= t_year t -> parse_validity (validity_text t) = Some t.
Proof.
  intros Hv Hy. destruct (valid_in_range t Hv Hy) as (H1 & H2 & H3 & H4 & H5 & H6 & H7).
  unfold validity_text, four_digits, two_digits. cbn [app]. unfold parse_validity.
  rewrite N.eqb_refl. cbn [andb forallb].
  rewrite !is_digit_48 by lia. cbn [andb].
  match goal with |- (if valid_bdt ?r then _ else _) = _ => replace r with t end.
  - rewrite Hv. reflexivity.
  - destruct t as [y mo d h mi sc]. cbn [t_year t_mon t_day t_hour t_min t_sec] in *. unfold dig.
    f_equal; lia.
Qed.

(* ---- day counting ------------------------------------------------------------------------------------------------------- *)
Local Open Scope Z_scope.

Definition zleap (y : Z) : bool := ((y mod 4 =? 0) && negb (y mod 100 =? 0)) || (y mod 400 =? 0).
Definition zdim (y m : Z) : Z :=
  if m =? 2 then (if zleap y then 29 else 28)
  else if (m =? 4) || (m =? 6) || (m =? 9) || (m =? 11) then 30 else 31.

(* one 400-year era, day by day: the split of a day-of-era into (year-of-era, month, day) is a date that exists
   and recombines to the same day-of-era *)
Definition check_doe (doe : Z) : bool :=
  let yoe := (doe - doe / 1460 + doe / 36524 - doe / 146096) / 365 in
  let doy := doe - (365 * yoe + yoe / 4 - yoe / 100) in
  let mp := (5 * doy + 2) / 153 in
  let d := doy - (153 * mp + 2) / 5 + 1 in
  let m := if mp <? 10 then mp + 3 else mp - 9 in
  let y0 := yoe + (if m <=? 2 then 1 else 0) in
  (0 <=? yoe) && (yoe <? 400) && (0 <=? mp) && (mp <=? 11) && (1 <=? d) && (d <=? zdim y0 m)
  && (yoe * 365 + yoe / 4 - yoe / 100 + ((153 * mp + 2) / 5 + d - 1) =? doe).

Fixpoint all_from (fuel : nat) (start : Z) (P : Z -> bool) : bool :=
  match fuel with O => true | S f => P start && all_from f (start + 1) P end.

Lemma all_from_spec P : forall fuel start, all_from fuel start P = true ->
  forall x, start <= x < start + Z.of_nat fuel -> P x = true.
Proof.
  induction fuel as [|f IH]; intros start H x Hx; [lia|].
  cbn [all_from] in H. apply andb_true_iff in H. destruct H as [H1 H2].
  destruct (Z.eq_dec x start) as [->|Hne]; [exact H1|]. apply (IH (start + 1) H2). lia.
Qed.

Lemma check_doe_all : all_from (N.to_nat 146097) 0 check_doe = true.
Proof. vm_compute. reflexivity. Qed.

Lemma check_doe_ok doe : 0 <= doe < 146097 -> check_doe doe = true.
Proof. intros H. apply (all_from_spec _ _ _ check_doe_all). lia. Qed.

Lemma zleap_period y e : zleap (y + e * 400) = zleap y.
Proof.
  unfold zleap.
  replace ((y + e * 400) mod 4) with (y mod 4) by lia.
  replace ((y + e * 400) mod 100) with (y mod 100) by lia.
  replace ((y + e * 400) mod 400) with (y mod 400) by lia. reflexivity.
Qed.

Lemma zdim_period y e m : zdim (y + e * 400) m = zdim y m.
Proof. unfold zdim. rewrite zleap_period. reflexivity. Qed.

(* counting days to a date inverts splitting a day count into a date; the date exists *)
Theorem days_civil_inverse z :
  let '(y, m, d) := civil_from_days z in
  days_from_civil y m d = z /\ 1 <= m <= 12 /\ 1 <= d <= zdim y m.
Proof.
  unfold civil_from_days. cbv zeta.
  set (era := (z + 719468) / 146097).
  set (doe := z + 719468 - era * 146097).
  assert (Hdoe : 0 <= doe < 146097) by (unfold doe, era; lia).
  pose proof (check_doe_ok doe Hdoe) as C. unfold check_doe in C. cbv zeta in C.
  set (yoe := (doe - doe / 1460 + doe / 36524 - doe / 146096) / 365) in *.
  set (doy := doe - (365 * yoe + yoe / 4 - yoe / 100)) in *.
  set (mp := (5 * doy + 2) / 153) in *.
  set (d := doy - (153 * mp + 2) / 5 + 1) in *.
  set (m := if mp <? 10 then mp + 3 else mp - 9) in *.
  repeat (apply andb_true_iff in C; destruct C as [C ?]).
  assert (Hz : z = era * 146097 + doe - 719468) by (unfold doe; lia).
  clearbody era doe yoe d mp. clear doy.
  assert (Hm : (mp < 10 /\ m = mp + 3) \/ (10 <= mp /\ m = mp - 9))
    by (unfold m; destruct (mp <? 10) eqn:?; lia).
  clearbody m.
  replace (yoe + era * 400 + (if m <=? 2 then 1 else 0)) with (yoe + (if m <=? 2 then 1 else 0) + era * 400) by lia.
  rewrite zdim_period. split; [|split; lia].
  unfold days_from_civil. cbv zeta.
  destruct Hm as [[Hlt ->]|[Hge ->]].
  - replace (mp + 3 <=? 2) with false by lia. replace (2 <? mp + 3) with true by lia.
    replace (yoe + 0 + era * 400) with (yoe + era * 400) by lia.
    replace ((yoe + era * 400) / 400) with era by lia.
    replace (yoe + era * 400 - era * 400) with yoe by lia.
    replace (mp + 3 - 3) with mp by lia. lia.
  - replace (mp - 9 <=? 2) with true by lia. replace (2 <? mp - 9) with false by lia.
    replace (yoe + 1 + era * 400 - 1) with (yoe + era * 400) by lia.
    replace ((yoe + era * 400) / 400) with era by lia.
    replace (yoe + era * 400 - era * 400) with yoe by lia.
    replace (mp - 9 + 9) with mp by lia. lia.
Qed.

(* ---- instants -------------------------------------------------------------------------------------------------------------- *)
Lemma leap_N_Z y : 0 <= y -> is_leap (Z.to_N y) = zleap y.
Proof.
  intros H. unfold is_leap, zleap.
  replace ((Z.to_N y mod 4 =? 0)%N) with (y mod 4 =? 0) by lia.
  replace ((Z.to_N y mod 100 =? 0)%N) with (y mod 100 =? 0) by lia.
  replace ((Z.to_N y mod 400 =? 0)%N) with (y mod 400 =? 0) by lia. reflexivity.
Qed.

Lemma dim_N_Z y m : 0 <= y -> 0 <= m -> Z.of_N (days_in_month (Z.to_N y) (Z.to_N m)) = zdim y m.
Proof.
  intros Hy Hm. unfold days_in_month, zdim. rewrite leap_N_Z by exact Hy.
  replace ((Z.to_N m =? 2)%N) with (m =? 2) by lia.
  replace ((Z.to_N m =? 4)%N) with (m =? 4) by lia.
  replace ((Z.to_N m =? 6)%N) with (m =? 6) by lia.
  replace ((Z.to_N m =? 9)%N) with (m =? 9) by lia.
  replace ((Z.to_N m =? 11)%N) with (m =? 11) by lia.
  destruct (m =? 2); [destruct (zleap y); reflexivity|].
  destruct ((m =? 4) || (m =? 6) || (m =? 9) || (m =? 11)); reflexivity.
Qed.

(* the datetime computed for a number of seconds is an existing date and time, and denotes that instant *)
Theorem secs_to_bdt_sound s t : secs_to_bdt s = Ok t -> bdt_to_secs t = s /\ valid_bdt t = true.
Proof.
  unfold secs_to_bdt. cbv zeta.
  set (days := s / 86400). set (r := s - days * 86400).
  assert (Hr : 0 <= r < 86400) by (unfold r, days; lia).
  pose proof (days_civil_inverse days) as Hc.
  destruct (civil_from_days days) as [[y m] d]. destruct Hc as (Hd & Hm & Hdd).
  unfold MINYEAR, MAXYEAR.
  destruct ((y <? 1) || (9999 <? y)) eqn:Ey; [discriminate|]. intros H. injection H as <-.
  assert (Hy : 1 <= y <= 9999) by lia.
  pose proof (dim_N_Z y m ltac:(lia) ltac:(lia)) as Hdim.
  split.
  - unfold bdt_to_secs. cbn [t_year t_mon t_day t_hour t_min t_sec].
    rewrite !Z2N.id by lia. rewrite Hd. unfold r in *. lia.
  - unfold valid_bdt. cbn [t_year t_mon t_day t_hour t_min t_sec].
    repeat (apply andb_true_iff; split); lia.
Qed.

(* adding seconds moves the instant by exactly that much *)
Theorem add_seconds_sound t e t' : add_seconds t e = Ok t' -> bdt_to_secs t' = bdt_to_secs t + e /\ valid_bdt t' = true.
Proof.
  unfold add_seconds. destruct ((e / 86400 <? -999999999) || (999999999 <? e / 86400)); [discriminate|].
  apply secs_to_bdt_sound.
Qed.

(* the instant an (aware or naive) datetime designates: its fields read as UTC, minus the UTC offset *)
Definition instant_of (a : atime) : Z :=
  bdt_to_secs (a_fields a) - match a_offset a with Some o => o | None => 0 end.

Theorem to_utc_sound a t : valid_bdt (a_fields a) = true -> to_utc a = Ok t -> bdt_to_secs t = instant_of a /\ valid_bdt t = true.
Proof.
  unfold to_utc, instant_of. intros Hv. destruct (a_offset a) as [o|].
  - destruct (o =? 0) eqn:Eo.
    + intros H. injection H as <-. split; [lia|exact Hv].
    + apply secs_to_bdt_sound.
  - intros H. injection H as <-. split; [lia|exact Hv].
Qed.
