(* A numbered rule chain (Model/LvsCompiler.chain) REPRESENTS a source-level flat chain (Spec/LvsSem.flat):
   same literals, named patterns numbered by the symbol table, every temporary occurrence carrying the (resolved)
   constraints written for it.  For such a pair, [chain_sem] (Proofs/LvsGenTree.v, on tags and contexts) and
   [chain_match] (Spec/LvsSem.v, on identifiers and environments) agree. *)
From NDN Require Import Base.Prelude Base.Text Model.TlvVar Model.Name Model.LvsAst Model.LvsChecker Model.LvsCompiler
  Spec.LvsSem Spec.LvsTree Proofs.LvsMachine Proofs.LvsTreePaths Proofs.LvsFlatten Proofs.LvsGenTree Proofs.LvsCompileTree Proofs.LvsNumbering.
Local Open Scope N_scope.

Section Represents.
  Variable ufn : ident -> option (bytes -> list (option bytes) -> res bool).
  Variable named : list (ident * N).
  (* the symbol table is injective *)
  Hypothesis Hinj : forall p q t, al_get ident_eqb named p = Some t -> al_get ident_eqb named q = Some t -> p = q.

  (* ---- environments and contexts ----------------------------------------------------------------------------- *)
  Definition env_ctx (e : env) (c : tctx) : Prop :=
    Forall2 (fun pv tw => al_get ident_eqb named (fst pv) = Some (fst tw) /\ snd pv = snd tw) e c.

  Lemma env_ctx_get e c q t : env_ctx e c -> al_get ident_eqb named q = Some t -> tget c t = al_get ident_eqb e q.
  Proof.
    intros H Hq. unfold tget. induction H as [|[p v] [t' w] e c [Hp Hv] _ IH]; [reflexivity|]. cbn in *. subst w.
    destruct (N.eqb_spec t t') as [->|Hne].
    - rewrite (Hinj _ _ _ Hq Hp). rewrite (proj2 (ident_eqb_eq p p) eq_refl). reflexivity.
    - destruct (ident_eqb q p) eqn:E; [apply ident_eqb_eq in E; subst; congruence | exact IH].
  Qed.

  Lemma env_ctx_app e c p t v : env_ctx e c -> al_get ident_eqb named p = Some t -> env_ctx (e ++ [(p, v)]) (c ++ [(t, v)]).
  Proof. intros H Hp. apply Forall2_app; [exact H|]. constructor; [cbn; auto | constructor]. Qed.

  (* ---- options ---------------------------------------------------------------------------------------------------- *)
  Definition opt_rel (o : opt) (no : nopt) : Prop := resolve_opt named o = Ok no.

  Lemma arg_rel e c a na : env_ctx e c -> resolve_arg named a = Ok na -> targ c (fst (enc_arg na)) = arg_val e a.
  Proof.
    intros He. destruct a as [x|q]; cbn.
    - intros H; inversion H; subst. reflexivity.
    - destruct (is_temp_pat q); [discriminate|]. unfold resolve_named. destruct (al_get ident_eqb named q) as [t|] eqn:Eq; cbn; [|discriminate].
      intros H; inversion H; subst. cbn. unfold targ. cbn. rewrite (env_ctx_get e c q t He Eq). destruct (al_get ident_eqb e q); reflexivity.
  Qed.

  Lemma opt_rel_true e c v o no : env_ctx e c -> opt_rel o no ->
    (option_true ufn v c (fst (enc_opt no)) <-> opt_holds ufn e v o = true).
  Proof.
    intros He. unfold opt_rel. destruct o as [x|q|f args]; cbn [resolve_opt].
    - intros H; inversion H; subst. cbn. rewrite bytes_eqb_spec. reflexivity.
    - destruct (is_temp_pat q); [discriminate|]. unfold resolve_named. destruct (al_get ident_eqb named q) as [t|] eqn:Eq; cbn; [|discriminate].
      intros H; inversion H; subst. unfold option_true. cbn. rewrite (env_ctx_get e c q t He Eq).
      destruct (al_get ident_eqb e q) as [w|]; [|split; discriminate]. rewrite bytes_eqb_spec. split; [intros E; inversion E; reflexivity | intros ->; reflexivity].
    - destruct (rmap (resolve_arg named) args) as [nargs|] eqn:Ea; cbn; [|discriminate]. intros H; inversion H; subst. clear H.
      unfold option_true. cbn.
      assert (Hargs : map (targ c) (map fst (map enc_arg nargs)) = map (arg_val e) args).
      { apply rmap_forall2 in Ea. clear - Ea He Hinj. induction Ea as [|a na l l' Hr _ IH]; [reflexivity|]. cbn. rewrite IH. f_equal. eapply arg_rel; eauto. }
      rewrite Hargs. split.
      + intros (fid & g & Ef & Eg & Er). inversion Ef; subst fid. rewrite Eg, Er. reflexivity.
      + destruct (ufn f) as [g|] eqn:Eg; [|discriminate]. destruct (g v (map (arg_val e) args)) as [[|]|] eqn:Er; try discriminate.
        intros _. exists f, g. auto.
  Qed.

  Definition optlist_rel (opts : list opt) (nopts : list nopt) : Prop := Forall2 opt_rel opts nopts.

  Lemma optlist_true e c v opts nopts : env_ctx e c -> optlist_rel opts nopts ->
    (Exists (option_true ufn v c) (map (fun o => fst (enc_opt o)) nopts) <-> existsb (opt_holds ufn e v) opts = true).
  Proof.
    intros He H. induction H as [|o no opts nopts Hr _ IH]; cbn.
    - split; [intros E; inversion E | discriminate].
    - rewrite orb_true_iff, <- IH, <- (opt_rel_true e c v o no He Hr). split.
      + intros E; inversion E; subst; auto.
      + intros [E|E]; [left; exact E | right; exact E].
  Qed.

  Lemma cnf_true_rel e c v (L : list (list opt)) (NL : list (list nopt)) : env_ctx e c -> Forall2 optlist_rel L NL ->
    (cnf_true ufn v c (map (fun nopts => map (fun o => fst (enc_opt o)) nopts) NL) <-> cons_hold ufn e v L = true).
  Proof.
    intros He H. unfold cnf_true, cons_hold. induction H as [|opts nopts L NL Hr _ IH]; cbn.
    - split; [reflexivity | constructor].
    - rewrite andb_true_iff, <- IH, <- (optlist_true e c v opts nopts He Hr). split.
      + intros F; inversion F; subst; auto.
      + intros [F1 F2]; constructor; assumption.
  Qed.

  (* ---- representation ------------------------------------------------------------------------------------------------ *)
  Definition cons_opts_for (rc : chain) (t : Z) : list (list nopt) :=
    map nc_opts (filter (fun c => zmem t (nc_pat c)) (ch_cons rc)).

  Lemma cons_for_opts rc t : cons_for rc t = map (fun nopts => map (fun o => fst (enc_opt o)) nopts) (cons_opts_for rc t).
  Proof. unfold cons_for, cons_opts_for. rewrite map_map. apply map_ext. intros c. unfold enc_cons. cbn. rewrite map_map. reflexivity. Qed.

  Definition comp_rep (rc : chain) (fc : fcomp) (nc : ncomp) : Prop :=
    match fc, nc with
    | FLit x, NLit y => x = y
    | FNamed p, NPat t => (0 < t)%Z /\ al_get ident_eqb named p = Some (Z.to_N t)
    | FTemp cs, NPat t => (t < 0)%Z /\ Forall2 optlist_rel cs (cons_opts_for rc t)
    | _, _ => False
    end.

  Record represents (rc : chain) (f : flat) : Prop := {
    rp_comps : Forall2 (comp_rep rc) (f_comps f) (ch_name rc);
    rp_named : forall p t, al_get ident_eqb named p = Some t -> Forall2 optlist_rel (cons_on p (f_ncons f)) (cons_opts_for rc (Z.of_N t))
  }.

  (* ---- the two semantics agree ------------------------------------------------------------------------------------------- *)
  Definition seen_rel (seen : list ident) (seen_t : list Z) : Prop :=
    forall p t, al_get ident_eqb named p = Some t -> (imem p seen = true <-> zmem (Z.of_N t) seen_t = true).

  Lemma zmem_cons t x l : zmem t (x :: l) = Z.eqb t x || zmem t l.
  Proof. reflexivity. Qed.

  Lemma seen_rel_cons seen seen_t p t : seen_rel seen seen_t -> al_get ident_eqb named p = Some t ->
    seen_rel (p :: seen) (Z.of_N t :: seen_t).
  Proof.
    intros H Hp q u Hq. change (imem q (p :: seen)) with (ident_eqb q p || imem q seen). rewrite zmem_cons, !orb_true_iff. rewrite (H q u Hq). split.
    - intros [E|E]; [left | right; exact E]. apply ident_eqb_eq in E. subst q. rewrite Hp in Hq. inversion Hq; subst. apply Z.eqb_refl.
    - intros [E|E]; [left | right; exact E]. apply Z.eqb_eq in E. apply N2Z.inj in E. subst u. apply ident_eqb_eq. eapply Hinj; eauto.
  Qed.

  Lemma seen_rel_temp seen seen_t t : seen_rel seen seen_t -> (t < 0)%Z -> seen_rel seen (t :: seen_t).
  Proof.
    intros H Ht q u Hq. rewrite zmem_cons, orb_true_iff, (H q u Hq). split; [auto|]. intros [E|E]; [|exact E].
    apply Z.eqb_eq in E. lia.
  Qed.

  Lemma seen_rel_dup seen seen_t p t : seen_rel seen seen_t -> al_get ident_eqb named p = Some t -> imem p seen = true ->
    seen_rel seen (Z.of_N t :: seen_t).
  Proof.
    intros H Hp Hs q u Hq. rewrite zmem_cons, orb_true_iff, (H q u Hq). split; [auto|]. intros [E|E]; [|exact E].
    apply Z.eqb_eq in E. apply N2Z.inj in E. subst u. apply (H p t Hp). exact Hs.
  Qed.

  Theorem represents_sem rc f : represents rc f ->
    forall comps ncomps, Forall2 (comp_rep rc) comps ncomps ->
    forall name e c seen seen_t, env_ctx e c -> seen_rel seen seen_t ->
      (forall p, imem p seen = true -> exists w, al_get ident_eqb e p = Some w) ->
    forall c', chain_sem ufn (cons_for rc) seen_t ncomps name c c' <->
               exists e', chain_match ufn (f_ncons f) comps name e seen = Some e' /\ env_ctx e' c'.
  Proof.
    intros Hrep comps ncomps Hf. induction Hf as [|fc nc comps ncomps Hc _ IH]; intros name e c seen seen_t He Hs Hbound c'.
    - destruct name as [|v name]; cbn.
      + split; [intros ->; exists e; auto | intros (e' & E & He'); inversion E; subst e'].
        (* env_ctx is functional in the context once the environment is fixed?  not needed: c' is determined *)
        clear - He He' Hinj. revert c' He'. induction He as [|[p v] [t w] e c [Hp Hv] _ IH]; intros c' He'; inversion He' as [|? [t' w'] ? c2 [Hp' Hv'] Hrest]; subst; [reflexivity|].
        cbn in *. subst. rewrite Hp in Hp'. inversion Hp'; subst. f_equal. apply IH, Hrest.
      + split; [contradiction | intros (e' & E & _); discriminate].
    - destruct name as [|v name].
      { cbn. destruct nc, fc; cbn; split; try contradiction; intros (e' & E & _); try discriminate; destruct Hc. }
      destruct fc as [x|p|cs], nc as [y|t|r]; cbn in Hc; try contradiction.
      + (* literal *)
        subst y. cbn [chain_sem chain_match]. destruct (bytes_eqb x v) eqn:E.
        * apply bytes_eqb_spec in E. subst x. rewrite <- (IH name e c seen seen_t He Hs Hbound c'). tauto.
        * split; [intros [-> _]; assert (bytes_eqb x x = true) by (apply bytes_eqb_spec; reflexivity); congruence | intros (e' & H & _); discriminate].
      + (* named pattern *)
        destruct Hc as [Hpos Hp]. cbn [chain_sem chain_match].
        assert (Ht : Z.of_N (Z.to_N t) = t) by (apply Z2N.id; lia).
        assert (Hle : (0 <=? t)%Z = true) by (apply Z.leb_le; lia). rewrite Hle. cbn [andb].
        pose proof (Hs p (Z.to_N t) Hp) as Hsp. rewrite Ht in Hsp.
        pose proof (env_ctx_get e c p (Z.to_N t) He Hp) as Hget.
        pose proof (rp_named _ _ Hrep p (Z.to_N t) Hp) as Hcons. rewrite Ht in Hcons.
        unfold tstep. rewrite Hle. rewrite Hget.
        destruct (al_get ident_eqb e p) as [w|] eqn:Ew.
        * (* bound *)
          destruct (bytes_eqb v w) eqn:Evw; cbn [negb].
          -- apply bytes_eqb_spec in Evw. subst w.
             destruct (imem p seen) eqn:Esn.
             ++ assert (Hz : zmem t seen_t = true) by (apply Hsp; reflexivity). rewrite Hz.
                rewrite <- (IH name e c seen (t :: seen_t) He).
                ** split.
                   --- intros (c1 & (_ & _ & ->) & H2). exact H2.
                   --- intros H2. exists c. split; [split; [constructor | auto] | exact H2].
                ** rewrite <- Ht. eapply seen_rel_dup; eauto.
                ** exact Hbound.
             ++ assert (Hz : zmem t seen_t = false) by (destruct (zmem t seen_t) eqn:Ez; [destruct Hsp as [_ Hx]; specialize (Hx eq_refl); discriminate | reflexivity]). rewrite Hz.
                rewrite cons_for_opts. destruct (cons_hold ufn e v (cons_on p (f_ncons f))) eqn:Ech.
                ** rewrite <- (IH name e c (p :: seen) (t :: seen_t) He).
                   --- split.
                       +++ intros (c1 & (_ & _ & ->) & H2). exact H2.
                       +++ intros H2. exists c. split; [split; [apply (cnf_true_rel e c v _ _ He Hcons); exact Ech | auto] | exact H2].
                   --- rewrite <- Ht. apply seen_rel_cons; auto.
                   --- intros q Hq. unfold imem in Hq. cbn in Hq. apply orb_true_iff in Hq. destruct Hq as [Hq|Hq]; [apply ident_eqb_eq in Hq; subst q; eauto | apply Hbound, Hq].
                ** split; [|intros (e' & H & _); discriminate].
                   intros (c1 & (Hcnf & _) & _). apply (cnf_true_rel e c v _ _ He Hcons) in Hcnf. congruence.
          -- split; [|intros (e' & H & _); discriminate]. intros (c1 & (_ & Heq & _) & _). subst w.
             assert (bytes_eqb v v = true) by (apply bytes_eqb_spec; reflexivity). congruence.
        * (* not bound: first occurrence *)
          assert (Hz : zmem t seen_t = false).
          { destruct (zmem t seen_t) eqn:Ez; [|reflexivity]. destruct Hsp as [_ Hx]. specialize (Hx eq_refl). destruct (Hbound p Hx) as (w & Hw). congruence. }
          rewrite Hz. rewrite cons_for_opts. destruct (cons_hold ufn e v (cons_on p (f_ncons f))) eqn:Ech.
          -- rewrite <- (IH name (e ++ [(p, v)]) (c ++ [(Z.to_N t, v)]) (p :: seen) (t :: seen_t)).
             ++ split.
                ** intros (c1 & (_ & ->) & H2). exact H2.
                ** intros H2. exists (c ++ [(Z.to_N t, v)]). split; [split; [apply (cnf_true_rel e c v _ _ He Hcons); exact Ech | reflexivity] | exact H2].
             ++ apply env_ctx_app; auto.
             ++ rewrite <- Ht. apply seen_rel_cons; auto.
             ++ intros q Hq. unfold imem in Hq. cbn in Hq. apply orb_true_iff in Hq. destruct Hq as [Hq|Hq].
                ** apply ident_eqb_eq in Hq. subst q. exists v.
                   rewrite (al_get_app_none _ _ _ _ Ew), (proj2 (ident_eqb_eq p p) eq_refl), Ew. reflexivity.
                ** destruct (Hbound q Hq) as (w & Hw). exists w. apply al_get_app_some. exact Hw.
          -- split; [|intros (e' & H & _); discriminate].
             intros (c1 & (Hcnf & _) & _). apply (cnf_true_rel e c v _ _ He Hcons) in Hcnf. congruence.
      + (* temporary pattern *)
        destruct Hc as [Hneg Hcs]. cbn [chain_sem chain_match].
        assert (Hle : (0 <=? t)%Z = false) by (apply Z.leb_gt; lia). rewrite Hle. cbn [andb]. unfold tstep. rewrite Hle.
        rewrite cons_for_opts. destruct (cons_hold ufn e v cs) eqn:Ech.
        * rewrite <- (IH name e c seen (t :: seen_t) He).
          -- split.
             ++ intros (c1 & (_ & ->) & H2). exact H2.
             ++ intros H2. exists c. split; [split; [apply (cnf_true_rel e c v _ _ He Hcs); exact Ech | reflexivity] | exact H2].
          -- apply seen_rel_temp; auto.
          -- exact Hbound.
        * split; [|intros (e' & H & _); discriminate].
          intros (c1 & (Hcnf & _) & _). apply (cnf_true_rel e c v _ _ He Hcs) in Hcnf. congruence.
  Qed.
End Represents.
