(* C14 — a concrete world used for non-vacuity examples and for the refutation witnesses. *)
From NDN Require Import Base.Prelude Model.Validator Spec.ChainSpec Proofs.ValidatorProofs Proofs.ValidatorHistory.
Local Open Scope N_scope.

Definition nA  : vname := [[1]].      (* anchor 1 *)
Definition nA2 : vname := [[4]].      (* anchor 2 *)
Definition nC  : vname := [[2]].      (* certificate issued by anchor 1 *)
Definition nP  : vname := [[3]].      (* a data packet signed with C's key *)
Definition nL  : vname := [[5]].      (* a certificate that names itself as its signer, not an anchor *)
Definition nE  : vname := [[6]].      (* certificate of another key type than the signature of Q claims *)

Definition mk (i : N) (n : vname) (ty : N) (kl : vname) (c : bytes) : pkt :=
  {| p_id := i; p_name := n; p_sig := Some {| s_type := ty; s_kl := Some kl |}; p_content := Some c |}.

Definition A1 := mk 1 nA SIG_ECDSA nA [11].
Definition A2 := mk 2 nA2 SIG_ECDSA nA2 [12].
Definition C  := mk 3 nC SIG_ECDSA nA [13].
Definition P  := mk 4 nP SIG_ECDSA nC [99].
Definition L  := mk 5 nL SIG_ECDSA nL [14].
Definition PL := mk 6 nP SIG_ECDSA nL [98].
Definition Q  := mk 7 nP SIG_RSA nC [97].        (* claims RSA, names the EC certificate C *)
Definition H  := mk 8 nP SIG_HMAC nA [96].       (* HMAC "signed" with the anchor's public key as secret *)

Definition ex_world : world := {|
  w_fetch := fun n => if name_eqb n nC then FData C else if name_eqb n nL then FData L else FTimeout;
  w_verify := fun a k p =>
    if a =? SIG_RSA then Err EValue                      (* RSA.import_key on EC key bits raises ValueError *)
    else if a =? SIG_HMAC then Ok true                   (* the HMAC really matches *)
    else Ok ((a =? SIG_ECDSA) &&
             (   (bytes_eqb k [11] && ((p_id p =? 1) || (p_id p =? 3)))
              || (bytes_eqb k [12] && (p_id p =? 2))
              || (bytes_eqb k [13] && (p_id p =? 4))
              || (bytes_eqb k [14] && ((p_id p =? 5) || (p_id p =? 6)))))
|}.

Definition ex_schema : schema := {|
  sc_fns_ok := true; sc_roots := [[82]]; sc_match := fun _ => Ok [[82]; [83]]; sc_check := fun _ _ => Ok true |}.

Definition cfg1 : cfg := {| c_anchor_name := nA; c_anchor_key := [11]; c_check := Some (sc_check ex_schema) |}.
Definition cfg2 : cfg := {| c_anchor_name := nA2; c_anchor_key := [12]; c_check := Some (sc_check ex_schema) |}.

(* the constructor produces exactly these configurations *)
Example ex_init1 : lvs_init ex_world ex_schema (Ok A1) = Ok cfg1.
Proof. vm_compute. reflexivity. Qed.
Example ex_init2 : lvs_init ex_world ex_schema (Ok A2) = Ok cfg2.
Proof. vm_compute. reflexivity. Qed.

(* P has a chain P - C - A1, accepted with one certificate fetch; under anchor 2 it has none *)
Example ex_validate_P : validate ex_world cfg1 3 [] P = (Ok true, [(nC, [13])], [nC]).
Proof. vm_compute. reflexivity. Qed.

Example ex_chain_P : Chain ex_world (trust_of cfg1) P.
Proof. apply (chainb_spec ex_world (trust_of cfg1) 3 P true); vm_compute; reflexivity. Qed.

Example ex_no_chain_P_anchor2 : ~ Chain ex_world (trust_of cfg2) P.
Proof.
  intros Hc. apply (chainb_spec ex_world (trust_of cfg2) 3 P false) in Hc; [discriminate | vm_compute; reflexivity].
Qed.

Example ex_cache_ok : cache_ok ex_world (trust_of cfg1) [(nC, [13])].
Proof.
  exact (validate_keeps_cache_ok ex_world cfg1 3 [] P _ _ _ (cache_ok_nil _ _) ex_validate_P).
Qed.

Example ex_bounded_P : Bounded ex_world cfg1 1 P.
Proof. eapply BStep with (cn := nC) (d := C); [reflexivity | reflexivity | apply BAnchor; reflexivity]. Qed.

(* ---- histories ---- *)
Definition ex_ops : list op :=
  [ ONewLvs ex_schema (Ok A1) SDefault; ONewLvs ex_schema (Ok A2) SDefault;
    OValidate 1 P; OValidate 0 P; OValidate 1 P ].

(* fixed code: own storage per instance — reject, accept, still reject *)
Example ex_history_fixed :
  snd (run_history false ex_world 5 init_state ex_ops) =
  [ BNew (Ok 0%nat); BNew (Ok 1%nat); BVal (Ok false) [nC; nA]; BVal (Ok true) [nC]; BVal (Ok false) [nC; nA] ].
Proof. vm_compute. reflexivity. Qed.

(* code before the fix: the default-argument storage is shared — reject, accept, ACCEPT (no fetch at all) *)
Example ex_history_legacy :
  snd (run_history true ex_world 5 init_state ex_ops) =
  [ BNew (Ok 0%nat); BNew (Ok 1%nat); BVal (Ok false) [nC; nA]; BVal (Ok true) [nC]; BVal (Ok true) [] ].
Proof. vm_compute. reflexivity. Qed.

Definition ex_state2 : state := fst (run_history false ex_world 5 init_state (firstn 4 ex_ops)).

Lemma run_history_reachable w fuel : forall ops st,
  reachable w st -> (forall o, In o ops -> match o with
                                           | ONewLvs _ _ (SGiven _) | ONewCascade _ (SGiven _) => False
                                           | _ => True end) ->
  reachable w (fst (run_history false w fuel st ops)).
Proof.
  induction ops as [|o ops IH]; intros st R H; cbn [run_history]; [exact R|].
  destruct (step false w fuel st o) as [st1 b] eqn:S.
  assert (R1 : reachable w st1).
  { replace st1 with (fst (step false w fuel st o)) by (rewrite S; reflexivity).
    apply RS; auto. specialize (H o (or_introl eq_refl)). destruct o as [|? ? []|? []|]; cbn; auto; contradiction. }
  specialize (IH st1 R1 (fun o' Ho => H o' (or_intror Ho))).
  destruct (run_history false w fuel st1 ops) as [st2 bs]. exact IH.
Qed.

Example ex_reachable : reachable ex_world ex_state2.
Proof.
  apply run_history_reachable; [apply R0|]. intros o Ho. cbn in Ho.
  repeat (destruct Ho as [<-|Ho]; [exact I|]). contradiction.
Qed.

(* ---- a certificate loop: every fuel runs out ---- *)
Lemma loop_never_answers : forall fuel,
  validate ex_world cfg1 fuel [] L = (Err EFuel, [], repeat nL fuel).
Proof.
  induction fuel as [|f IH]; [vm_compute; reflexivity|].
  change (validate ex_world cfg1 (S f) [] L) with
    (match validate ex_world cfg1 f [] L with
     | (Err e, st1, tr) => (Err e, st1, nL :: tr)
     | (Ok false, st1, tr) => (Ok false, st1, nL :: tr)
     | (Ok true, st1, tr) =>
         match truthy (p_content L) with
         | Some k => (verify_sig ex_world k L, cache_save st1 nL k, nL :: tr)
         | None => (Ok false, st1, nL :: tr)
         end
     end).
  rewrite IH. reflexivity.
Qed.

Lemma loop_leaf_never_answers fuel : fst (fst (validate ex_world cfg1 fuel [] PL)) = Err EFuel.
Proof.
  destruct fuel as [|f]; [vm_compute; reflexivity|].
  change (validate ex_world cfg1 (S f) [] PL) with
    (match validate ex_world cfg1 f [] L with
     | (Err e, st1, tr) => (Err e, st1, nL :: tr)
     | (Ok false, st1, tr) => (Ok false, st1, nL :: tr)
     | (Ok true, st1, tr) =>
         match truthy (p_content L) with
         | Some k => (verify_sig ex_world k PL, cache_save st1 nL k, nL :: tr)
         | None => (Ok false, st1, nL :: tr)
         end
     end).
  rewrite loop_never_answers. reflexivity.
Qed.

Example ex_no_chain_PL : ~ Chain ex_world (trust_of cfg1) PL.
Proof.
  intros Hc. destruct (validate_complete _ _ _ Hc) as (n & Hn).
  specialize (Hn n [] (le_n n) (cache_ok_nil _ _)). rewrite loop_leaf_never_answers in Hn. discriminate.
Qed.

(* ---- remarks ---- *)
(* a packet that claims RSA but names an EC certificate: rejected by exception (ValueError), not by `False` *)
Example ex_reject_by_exception : fst (fst (validate ex_world cfg1 3 [] Q)) = Err EValue.
Proof. vm_compute. reflexivity. Qed.

(* HMAC: even when the MAC matches (key = the anchor's public key bits) the packet is not accepted *)
Example ex_hmac_rejected : fst (fst (validate ex_world cfg1 3 [] H)) = Ok false.
Proof. vm_compute. reflexivity. Qed.
