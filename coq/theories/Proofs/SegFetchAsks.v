(* C19 lemmas, part 5: the Interests the producer sees are exactly [expected_asks]. *)
From NDN Require Import Base.Prelude Model.TlvVar Model.Name Model.SegFetch Spec.SegFetchSpec.
From NDN Require Import Proofs.SegFetchBasics Proofs.SegFetchRefine.
Local Open Scope nat_scope.

Lemma sent_burst S k att : forall g n,
  (forall m, g m = resp_of S k (fate_of S k (n + m))) ->
  sent g att = burst_len (fate_of S k) n att.
Proof.
  induction att as [|a IH]; intros g n E; [reflexivity|].
  rewrite sent_S. cbn [burst_len]. rewrite (E O), Nat.add_0_r.
  destruct (fate_of S k n) eqn:F; cbn [resp_of]; try reflexivity.
  f_equal. apply IH. intros m. rewrite E. f_equal. f_equal. lia.
Qed.

Lemma sent_all_timeout att : forall g, (forall m, g m = RExc XTimeout) -> sent g att = att.
Proof.
  induction att as [|a IH]; intros g E; [reflexivity|]. rewrite sent_S, (E O). f_equal. apply IH. intros m; apply E.
Qed.

Section Asks.
  Variable S : scenario.
  Variable cfg : config.
  Hypothesis HN : (N.of_nat (nseg (obj S)) < two64)%N.

  Lemma retry_asks_known o rq k :
    key_of S rq = Some k -> (forall n, o rq n = oracle_of S rq n) ->
    asked (snd (fst (retry (retry_times cfg) o rq))) = asks_for S cfg k rq.
  Proof.
    intros Hk Ho. destruct (retry_spec (retry_times cfg) o rq) as (_ & _ & R3 & _). rewrite R3.
    unfold asks_for. f_equal. apply sent_burst. intros m. rewrite Ho. apply oracle_of_key. exact Hk.
  Qed.

  Lemma retry_asks_unknown o rq :
    key_of S rq = None -> (forall n, o rq n = oracle_of S rq n) ->
    asked (snd (fst (retry (retry_times cfg) o rq))) = repeat rq (attempts_of (retry_times cfg)).
  Proof.
    intros Hk Ho. destruct (retry_spec (retry_times cfg) o rq) as (_ & _ & R3 & _). rewrite R3.
    f_equal. apply sent_all_timeout. intros m. rewrite Ho. apply oracle_of_nokey. exact Hk.
  Qed.

  Lemma seg_loop_asks : forall len i fuel o c,
    len < fuel -> i + len = nseg (obj S) ->
    (forall j n, i <= j <= nseg (obj S) -> o (seg_req S cfg j) n = oracle_of S (seg_req S cfg j) n) ->
    asked (fst (seg_loop fuel cfg o (base (obj S) ++ [c]) (N.of_nat i))) = walk_asks S cfg i len.
  Proof.
    induction len as [|len IH]; intros i fuel o c Hf Hi; assert (Hb : (N.of_nat i < two64)%N) by lia;
      intros Ho; (destruct fuel as [|f]; [lia|]);
      cbn [seg_loop]; rewrite comp_from_segment_ok by exact Hb; rewrite set_last_snoc;
      change (mk_req cfg (base (obj S) ++ [seg_comp i]) false) with (seg_req S cfg i);
      destruct (retry_spec (retry_times cfg) o (seg_req S cfg i)) as (_ & _ & _ & RO & _).
    - assert (i = nseg (obj S)) by lia. subst i.
      pose proof (retry_unknown S cfg o _ (key_of_past S cfg HN) (fun n => Ho (nseg (obj S)) n ltac:(lia))) as RU.
      pose proof (retry_asks_unknown o _ (key_of_past S cfg HN) (fun n => Ho (nseg (obj S)) n ltac:(lia))) as RA.
      destruct (retry (retry_times cfg) o (seg_req S cfg (nseg (obj S)))) as [[o1 ev] r]. cbn [fst snd] in *.
      subst r. cbn [fst walk_asks]. exact RA.
    - assert (Hlt : i < nseg (obj S)) by lia.
      pose proof (retry_known S cfg o _ _ (key_of_seg S cfg HN i Hlt) (fun n => Ho i n ltac:(lia))) as RK.
      pose proof (retry_asks_known o _ _ (key_of_seg S cfg HN i Hlt) (fun n => Ho i n ltac:(lia))) as RA.
      destruct (retry (retry_times cfg) o (seg_req S cfg i)) as [[o1 ev] r]. cbn [fst snd] in *.
      subst r. cbn [walk_asks]. destruct (result_of S (retry_times cfg) (KSeg i)); cbn [res_of].
      + cbn [fst]. rewrite RA, app_nil_r. reflexivity.
      + cbn [fst]. rewrite RA, app_nil_r. reflexivity.
      + cbn [data_of seg_data]. unfold seg_name at 1. rewrite last_comp_snoc.
        fold (is_final (obj S) i). destruct (is_final (obj S) i).
        * cbn [fst]. rewrite asked_app, RA. reflexivity.
        * unfold after. cbn [fst]. rewrite !asked_app, RA. cbn [asked app]. rewrite app_nil_r. f_equal.
          replace (N.of_nat i + 1)%N with (N.of_nat (Datatypes.S i)) by lia.
          unfold seg_name. apply (IH (Datatypes.S i) f o1 (seg_comp i)); [lia|lia|].
          intros j n Hj. rewrite RO by (apply seg_req_neq; [exact HN|lia|lia|lia]). apply Ho. lia.
  Qed.

  Hypothesis HW : wf_scenario S.

  Theorem seg_fetch_asks fuel :
    nseg (obj S) < fuel ->
    asked (fst (segment_fetcher fuel cfg (oracle_of S) (prefix S))) = expected_asks S cfg.
  Proof.
    intros Hf. unfold segment_fetcher, expected_asks.
    change (mk_req cfg (prefix S) true) with (disc_req S cfg).
    destruct (retry_spec (retry_times cfg) (oracle_of S) (disc_req S cfg)) as (_ & _ & _ & RO & _).
    pose proof (retry_known S cfg (oracle_of S) _ _ (key_of_disc S cfg) (fun n => eq_refl)) as RK.
    pose proof (retry_asks_known (oracle_of S) _ _ (key_of_disc S cfg) (fun n => eq_refl)) as RA.
    destruct (retry (retry_times cfg) (oracle_of S) (disc_req S cfg)) as [[o1 ev] r]; cbn [fst snd] in RO, RK, RA.
    subst r. destruct (result_of S (retry_times cfg) KDisc); cbn [res_of].
    - cbn [fst]. rewrite RA, app_nil_r. reflexivity.
    - cbn [fst]. rewrite RA, app_nil_r. reflexivity.
    - assert (Hinv : forall i j n, i <= j <= nseg (obj S) -> o1 (seg_req S cfg j) n = oracle_of S (seg_req S cfg j) n)
        by (intros i j n _; apply RO; apply seg_disc_neq).
      destruct HW as [_ HD]. cbn [data_of]. destruct (disc S) as [k|nm c m].
      + cbn [seg_data]. unfold seg_name at 1. rewrite last_comp_snoc, seg_comp_type.
        replace (negb (TYPE_SEGMENT =? TYPE_SEGMENT)%N) with false by reflexivity.
        rewrite seg_comp_number by lia.
        destruct k as [|k'].
        * replace (N.of_nat 0 =? 0)%N with true by reflexivity.
          fold (is_final (obj S) 0). destruct (is_final (obj S) 0).
          -- cbn [fst]. rewrite asked_app, RA. reflexivity.
          -- unfold after. cbn [fst]. rewrite !asked_app, RA. cbn [asked app]. rewrite app_nil_r. f_equal.
             unfold seg_name. change 1%N with (N.of_nat 1).
             apply (seg_loop_asks (nseg (obj S) - 1) 1 fuel o1 (seg_comp 0)); [lia|lia|apply (Hinv 1)].
        * replace (N.of_nat (Datatypes.S k') =? 0)%N with false by lia.
          unfold after. cbn [fst]. rewrite asked_app, RA. f_equal.
          unfold seg_name. change 0%N with (N.of_nat 0).
          apply (seg_loop_asks (nseg (obj S)) 0 fuel o1 (seg_comp (Datatypes.S k'))); [lia|lia|apply (Hinv 0)].
      + destruct HD as (t & Ht & Hne). destruct (last_comp nm) as [lc|e]; [|discriminate].
        cbn [bind] in Ht. rewrite Ht.
        replace (negb (t =? TYPE_SEGMENT)%N) with true by (destruct (N.eqb_spec t TYPE_SEGMENT); [contradiction|reflexivity]).
        cbn [fst]. rewrite asked_app, RA. reflexivity.
  Qed.
End Asks.
