(* C02 (receiving side, Interest): on every well-formed Interest value that the decoder accepts, the reported
   signature value is the specified one; the reported signed range and digest range are the specified ones when
   ApplicationParameters precedes the signature elements (as the packet format demands); the reported digest is the
   value of the ParametersSha256 component. *)
From NDN Require Import Base.Prelude Model.TlvVar Model.Name Model.Tlv Model.PacketPtrs Spec.SignedPortion
  Proofs.BytesLemmas Proofs.PtrsSpecView Proofs.PtrsSplit Proofs.PtrsData Proofs.PtrsInterestWalk.
Local Open Scope N_scope.
Set Default Timeout 900.
Arguments N.of_nat : simpl never.
Arguments N.to_nat : simpl never.

(* ---- the Name element ---------------------------------------------------------------------------- *)
Lemma components_inv : forall fuel nv comps, components fuel nv = Some comps ->
  nv = concat comps /\ Forall (fun c => exists t, is_el (t, c) /\ (2 <= length c)%nat) comps.
Proof.
  induction fuel as [|f IH]; intros nv comps H.
  - destruct nv; [inversion H; subst; split; [reflexivity|constructor]|discriminate].
  - destruct nv as [|b w]; [inversion H; subst; split; [reflexivity|constructor]|].
    cbn [components] in H. destruct (next_element (b :: w)) as [[[t e] r]|] eqn:E; [|discriminate].
    destruct (components f r) as [cs|] eqn:E'; [|discriminate]. inversion H; subst; clear H.
    destruct (next_element_inv _ _ _ _ E) as (A & B & C). destruct (IH _ _ E') as (A' & B').
    split; [cbn [concat]; rewrite A; f_equal; exact A'|]. constructor; [exists t; split; assumption|exact B'].
Qed.

Lemma decode_loop_strict : forall comps fuel acc used,
  Forall (fun c => exists t, is_el (t, c) /\ (2 <= length c)%nat) comps -> (length comps < fuel)%nat ->
  exists used', name_decode_loop fuel (concat comps) (Z.of_nat (length (concat comps))) acc used = Ok (rev acc ++ comps, used').
Proof.
  induction comps as [|c r IH]; intros fuel acc used H Hf.
  - destruct fuel; [cbn in Hf; lia|]. cbn. rewrite app_nil_r. eexists; reflexivity.
  - inversion H as [|? ? (t & Hel & Hl) Hr]; subst. destruct fuel; [cbn in Hf; lia|].
    cbn [concat]. set (rest := concat r) in *.
    destruct (is_el_unfold t c rest Hel Hl) as (st & l & sl & E1 & E2 & Hlen & S1 & S2).
    cbn [name_decode_loop].
    destruct (Z.leb_spec (Z.of_nat (length (c ++ rest))) 0) as [Hz|Hz]; [rewrite app_length in Hz; lia|].
    rewrite E1. cbn [bind snd]. rewrite E2. cbn [bind].
    set (tot := N.of_nat (st + sl) + l).
    assert (Htot : N.to_nat tot = length c) by (unfold tot; lia).
    destruct (Z.ltb_spec (Z.of_nat (length (c ++ rest))) (Z.of_N tot)) as [Hlt|Hge]; [rewrite app_length in Hlt; lia|].
    replace (N.to_nat (N.min tot (N.of_nat (length (c ++ rest))))) with (length c) by (rewrite app_length; lia).
    rewrite firstn_app_exact, skipn_app_exact.
    replace (Z.of_nat (length (c ++ rest)) - Z.of_N tot)%Z with (Z.of_nat (length rest)) by (rewrite app_length; lia).
    destruct (IH fuel (c :: acc) (used + tot) Hr ltac:(cbn in Hf; lia)) as (u' & Hu).
    exists u'. refine (eq_trans Hu _). cbn [rev]. rewrite <- app_assoc. reflexivity.
Qed.

Lemma name_decode_strict raw nv comps :
  is_el (7, raw) -> (2 <= length raw)%nat -> el_value raw = Some nv ->
  components (S (length nv)) nv = Some comps ->
  exists u, name_decode raw = Ok (comps, u).
Proof.
  intros Hel Hl Hv Hc.
  destruct (is_el_unfold 7 raw [] Hel Hl) as (st & l & sl & E1 & E2 & Hlen & S1 & S2). rewrite app_nil_r in E1, E2.
  unfold el_value in Hv. rewrite E1, E2 in Hv. inversion Hv; subst nv. clear Hv.
  destruct (components_inv _ _ _ Hc) as (Enc & Hall).
  unfold name_decode. rewrite E1. cbn [bind]. unfold TYPE_NAME. cbn [N.eqb Pos.eqb negb].
  rewrite E2. cbn [bind].
  replace (N.of_nat (length raw - (st + sl)) <? l) with false by (symmetry; apply N.ltb_ge; lia).
  assert (Hnl : length (skipn (st + sl) raw) = N.to_nat l) by (rewrite skipn_length; lia).
  replace (Z.of_N l) with (Z.of_nat (length (skipn (st + sl) raw))) by lia.
  assert (Hcl : (length comps <= length (skipn (st + sl) raw))%nat).
  { rewrite Enc. clear -Hall. induction Hall as [|c r (t & _ & L) _ IH]; [cbn; lia|]. cbn [concat length]. rewrite app_length. lia. }
  rewrite Enc.
  destruct (decode_loop_strict comps (S (length raw)) [] (N.of_nat (st + sl)) Hall ltac:(pose proof (f_equal (@length N) Enc) as Q; rewrite skipn_length in Q; lia)) as (u & Hu).
  rewrite Hu. cbn [rev app]. eexists; reflexivity.
Qed.

Definition non2 (c : bytes) : bool := negb (comp_type c =? 2).
Definition is2 (c : bytes) : bool := comp_type c =? 2.
Definition dig_fold (comps : list bytes) (d : option bytes) : option bytes :=
  fold_left (fun d c => if is2 c then el_value c else d) comps d.

Lemma name_parts_spec : forall comps cov dig cov' dig',
  name_parts comps cov dig = Ok (cov', dig') ->
  cov' = cov ++ filter non2 comps /\ dig' = dig_fold comps dig.
Proof.
  induction comps as [|c r IH]; intros cov dig cov' dig' H.
  - inversion H; subst. cbn. rewrite app_nil_r. split; reflexivity.
  - cbn [name_parts] in H. unfold comp_get_type in H.
    destruct (tl_dec c) as [[t st]|] eqn:E1; [|discriminate]. cbn [bind fst] in H.
    assert (Hct : comp_type c = t) by (unfold comp_type; rewrite E1; reflexivity).
    assert (His2 : is2 c = (t =? 2)) by (unfold is2; rewrite Hct; reflexivity).
    assert (Hnon2 : non2 c = negb (t =? 2)) by (unfold non2; rewrite Hct; reflexivity).
    unfold dig_fold. cbn [filter fold_left]. rewrite His2, Hnon2.
    unfold TYPE_PARAMETERS_SHA256 in H.
    destruct (t =? 2) eqn:E2; cbn [negb].
    + unfold comp_get_value in H. rewrite E1 in H. cbn [bind snd] in H.
      destruct (tl_dec (skipn st c)) as [[l sl]|] eqn:E3; [|discriminate]. cbn [bind snd] in H.
      destruct (IH _ _ _ _ H) as (A & B). split; [exact A|].
      rewrite B. unfold dig_fold. f_equal. unfold el_value. rewrite E1, E3. reflexivity.
    + destruct (IH _ _ _ _ H) as (A & B). split; [rewrite A, <- app_assoc; reflexivity|exact B].
Qed.

Lemma dig_fold_none comps d : filter is2 comps = [] -> dig_fold comps d = d.
Proof.
  revert d; induction comps as [|c r IH]; intros d H; [reflexivity|]. cbn [filter] in H. unfold dig_fold. cbn [fold_left].
  destruct (is2 c); [discriminate|]. apply IH; exact H.
Qed.
Lemma dig_fold_one comps d c : filter is2 comps = [c] -> dig_fold comps d = el_value c.
Proof.
  revert d; induction comps as [|x r IH]; intros d H; [discriminate|]. cbn [filter] in H. unfold dig_fold. cbn [fold_left].
  destruct (is2 x) eqn:E.
  - inversion H; subst. apply dig_fold_none. assumption.
  - apply IH; exact H.
Qed.

(* ---- bits of list arithmetic --------------------------------------------------------------------- *)
Lemma idx_of_firstn t : forall l k j, idx_of t (firstn k l) = Some j -> idx_of t l = Some j /\ (j < k)%nat.
Proof.
  induction l as [|x l IH]; intros k j H; [destruct k; discriminate|].
  destruct k; [discriminate|]. cbn [firstn idx_of] in H |- *.
  destruct (x =? t); [inversion H; subst; split; [reflexivity|lia]|].
  destruct (idx_of t (firstn k l)) as [j'|] eqn:E; [|discriminate]. inversion H; subst.
  destruct (IH _ _ E) as (A & B). rewrite A. split; [reflexivity|lia].
Qed.
Lemma idx_of_lt t ts k : idx_of t ts = Some k -> (k < length ts)%nat.
Proof.
  revert k; induction ts as [|x r IH]; intros k H; [discriminate|]. cbn [idx_of] in H.
  destruct (x =? t); [inversion H; cbn; lia|]. destruct (idx_of t r) eqn:E; [|discriminate].
  inversion H; subst. specialize (IH _ eq_refl). cbn; lia.
Qed.
Lemma event_of_in t ev i m : event_of t ev = Some (i, m) -> In (i, t, m) ev.
Proof.
  induction ev as [|[[i' t'] m'] ev IH]; intros H; [discriminate|]. cbn [event_of] in H.
  destruct (N.eqb_spec t' t) as [->|]; [inversion H; subst; left; reflexivity|right; apply IH; exact H].
Qed.
Lemma idx_firstn_notin t ts k : idx_of t ts = Some k -> ~ In t (firstn k ts).
Proof.
  revert k; induction ts as [|x r IH]; intros k H; [discriminate|]. cbn [idx_of] in H.
  destruct (N.eqb_spec x t) as [->|N]; [inversion H; subst; intros []|].
  destruct (idx_of t r) eqn:E; [|discriminate]. inversion H; subst. cbn [firstn].
  intros [A|A]; [contradiction|]. eapply IH; [reflexivity|exact A].
Qed.

(* ApplicationParameters comes before the signature elements *)
Definition params_first (ts : list N) : Prop :=
  forall k, idx_of 36 ts = Some k -> forall x, In x (firstn k ts) -> x <> 44 /\ x <> 46.

Lemma get_mark_MK1 k : get_mark MARK_SIG_START (MK k) = Some k. Proof. reflexivity. Qed.
Lemma get_mark_MK2 k : get_mark MARK_DIG_START (MK k) = Some k. Proof. reflexivity. Qed.
Lemma get_mark_MK3 k : get_mark MARK_DIG_END (MK k) = None. Proof. reflexivity. Qed.

Section Spec.
Variables (v : bytes) (sel : list (N * bytes)) (p : ptrs).
Hypothesis Hs : strict_split (S (length v)) v = Some sel.
Hypothesis Hp : ptrs_interest_with LI v = Ok p.

Let Ev := proj1 (strict_split_inv _ _ _ Hs).
Let Hel := proj1 (proj2 (strict_split_inv _ _ _ Hs)).
Let Hlen := proj2 (proj2 (strict_split_inv _ _ _ Hs)).

Lemma G0 : (2 * length sel <= length v)%nat.
Proof. pose proof (length_le_concat sel Hlen) as G. rewrite <- Ev in G. exact G. Qed.

(* what the run of the model consists of *)
Lemma run_parts : exists rs ev ncov dig,
  split_raw v = Ok rs /\ Forall2 agrees rs sel /\ walk LI 0 (types sel) 0 [] = Ok ev /\
  match event_of 7 ev with
  | Some (i, _) => exists el raw nd, nth_error rs i = Some (el, raw) /\ name_decode raw = Ok nd /\ name_parts (fst nd) [] None = Ok (ncov, dig)
  | None => ncov = [] /\ dig = None
  end /\
  p = Ptrs (ncov ++ fst (sig_part 46 rs ev)) (snd (sig_part 46 rs ev))
           [match get_mark MARK_DIG_END (last_marks [] ev) with
            | Some b => raws_between (map snd rs) (match get_mark MARK_DIG_START (last_marks [] ev) with Some a => a | None => O end) b
            | None => raws_from (map snd rs) (match get_mark MARK_DIG_START (last_marks [] ev) with Some a => a | None => O end)
            end] dig.
Proof.
  destruct (split_raw_strict _ _ Hs) as (rs & Ers & Hag).
  pose proof Hp as Hp'. unfold ptrs_interest_with in Hp'. rewrite Ers in Hp'. cbn [bind] in Hp'.
  rewrite (agrees_types _ _ Hag) in Hp'.
  destruct (walk LI 0 (types sel) 0 []) as [ev|] eqn:W; [|discriminate]. cbn [bind] in Hp'.
  unfold TYPE_NAME in Hp'.
  destruct (event_of 7 ev) as [[i m]|] eqn:E7.
  - destruct (nth_error rs i) as [[el raw]|] eqn:En; [|discriminate].
    destruct (name_decode raw) as [nd|] eqn:End; [|discriminate]. cbn [bind] in Hp'.
    destruct (name_parts (fst nd) [] None) as [[ncov dig]|] eqn:Enp; [|discriminate]. cbn [bind] in Hp'.
    exists rs, ev, ncov, dig. split; [exact Ers|]. split; [exact Hag|]. split; [first [reflexivity|exact W]|].
    split; [rewrite E7; exists el, raw, nd; repeat split; assumption|].
    destruct (sig_part 46 rs ev) as [cov sv]. cbn [fst snd]. injection Hp' as Ep. symmetry. exact Ep.
  - cbn [bind] in Hp'. exists rs, ev, [], None. split; [exact Ers|]. split; [exact Hag|]. split; [first [reflexivity|exact W]|].
    split; [rewrite E7; split; reflexivity|].
    destruct (sig_part 46 rs ev) as [cov sv]. cbn [fst snd]. injection Hp' as Ep. symmetry. exact Ep.
Qed.

Lemma nth_agrees rs k : Forall2 agrees rs sel -> (k < length sel)%nat ->
  exists er tr, nth_error rs k = Some er /\ nth_error sel k = Some tr /\ agrees er tr.
Proof.
  intros Hag Hk. pose proof (agrees_length _ _ Hag) as L.
  destruct (nth_error rs k) as [er|] eqn:E; [|apply nth_error_None in E; lia].
  destruct (agrees_nth _ _ _ _ Hag E) as (tr & Htr & A). exists er, tr. split; [reflexivity|split; [exact Htr|exact A]].
Qed.

Lemma types_length : length (types sel) = length sel. Proof. apply map_length. Qed.

(* (A) the signature value *)
Theorem interest_sig_value : p_sig_value p = value_of_type (S (length v)) 46 v.
Proof.
  destruct run_parts as (rs & ev & ncov & dig & Ers & Hag & W & _ & Ep). subst p. cbn [p_sig_value].
  rewrite Ev at 2. rewrite (value_of_type_view sel 46 Hel) by (pose proof G0; lia).
  pose proof (walkI_sig_event _ _ _ _ _ W ltac:(lia)) as Hev. unfold sig_part.
  destruct (idx_of 46 (types sel)) as [k|] eqn:I.
  - destruct Hev as (m & Hm). cbn [Nat.add] in Hm. rewrite Hm. cbn [snd].
    pose proof (idx_of_lt _ _ _ I) as Hk. rewrite types_length in Hk.
    destruct (nth_agrees rs k Hag Hk) as (er & tr & E1 & E2 & (_ & _ & Aval)).
    rewrite E1. cbn [option_map]. unfold raws. rewrite nth_error_map, E2. cbn [option_map]. symmetry; exact Aval.
  - rewrite Hev. reflexivity.
Qed.

(* (D) the digest *)
Theorem interest_digest_value dc : digest_component v = Some dc -> p_dig_value p = Some dc.
Proof.
  intros Hd. destruct run_parts as (rs & ev & ncov & dig & Ers & Hag & W & Hname & Ep). subst p. cbn [p_dig_value].
  unfold digest_component in Hd. unfold T_NAME in Hd. rewrite Ev in Hd at 2.
  rewrite (value_of_type_view sel 7 Hel) in Hd by (pose proof G0; lia).
  pose proof (walkI_name_event _ _ _ _ W) as Hev.
  destruct (idx_of 7 (types sel)) as [k7|] eqn:I7; [|discriminate].
  destruct Hev as (m & Hm). cbn [Nat.add] in Hm. rewrite Hm in Hname.
  destruct Hname as (el & raw & nd & En & End & Enp).
  pose proof (idx_of_lt _ _ _ I7) as Hk. rewrite types_length in Hk.
  destruct (nth_agrees rs k7 Hag Hk) as (er & tr & E1 & E2 & (Aty & Araw & _)).
  rewrite En in E1. inversion E1; subst er. cbn [fst snd] in Aty, Araw.
  unfold raws in Hd. rewrite nth_error_map, E2 in Hd. cbn [option_map] in Hd.
  destruct (el_value (snd tr)) as [nv|] eqn:Env; [|discriminate].
  destruct (components (S (length nv)) nv) as [comps|] eqn:Ec; [|discriminate].
  assert (Htr : is_el tr /\ (2 <= length (snd tr))%nat /\ fst tr = 7).
  { split; [eapply Forall_forall; [exact Hel|eapply nth_error_In; exact E2]|].
    split; [eapply (proj1 (Forall_forall _ _) Hlen); eapply nth_error_In; exact E2|].
    clear -I7 E2. unfold types in I7. revert k7 I7 E2. induction sel as [|x s IH]; intros k H1 H2; [discriminate|].
    cbn [map idx_of] in H1. destruct (N.eqb_spec (fst x) 7) as [E|N].
    - inversion H1; subst. cbn in H2. inversion H2; subst. exact E.
    - destruct (idx_of 7 (map fst s)) eqn:E'; [|discriminate]. inversion H1; subst. cbn in H2. eapply IH; [reflexivity|exact H2]. }
  destruct Htr as (Hel7 & Hl7 & Ht7). destruct tr as [t7 e7]. cbn [fst snd] in *. clear Aty. subst t7 raw.
  destruct (name_decode_strict e7 nv comps Hel7 Hl7 Env Ec) as (u & Hu).
  rewrite Hu in End. inversion End; subst nd. cbn [fst] in Enp.
  destruct (name_parts_spec _ _ _ _ _ Enp) as (_ & Hdig). subst dig.
  fold is2 in Hd. destruct (filter is2 comps) as [|c [|c' r]] eqn:F; try discriminate.
  rewrite (dig_fold_one _ _ _ F). exact Hd.
Qed.

Hypothesis Hcanon : params_first (types sel).

(* (C) the digest range *)
Theorem interest_digest_range dp : digest_portion v = Some dp -> concat (p_dig_covered p) = dp.
Proof.
  intros Hd. destruct run_parts as (rs & ev & ncov & dig & Ers & Hag & W & _ & Ep). subst p. cbn [p_dig_covered].
  unfold digest_portion in Hd. rewrite Ev in Hd at 2. rewrite (from_type_view sel Hel Hlen) in Hd by (pose proof G0; lia).
  destruct (idx_of 36 (types sel)) as [k|] eqn:I; [|discriminate]. cbn [option_map] in Hd. inversion Hd; subst dp.
  destruct (walkI_split _ _ _ _ _ W ltac:(lia) I (Hcanon k I)) as (ev1 & ev2 & E & F1 & F2). cbn [Nat.add] in E.
  rewrite E. rewrite (last_marks_app [] ev1 (k, 36, MK k) ev2) by exact F2. cbn [snd].
  rewrite get_mark_MK3, get_mark_MK2. cbn [concat]. rewrite app_nil_r.
  unfold raws_from. rewrite (agrees_raws _ _ Hag), raws_skipn. reflexivity.
Qed.

(* (B) the signed range *)
Theorem interest_signed_range s : signed_portion_interest v = Some s -> concat (p_sig_covered p) = s.
Proof.
  intros Hsp. destruct run_parts as (rs & ev & ncov & dig & Ers & Hag & W & Hname & Ep). subst p. cbn [p_sig_covered].
  pose proof G0 as G.
  unfold signed_portion_interest in Hsp. unfold T_NAME in Hsp. rewrite Ev in Hsp at 2.
  rewrite (value_of_type_view sel 7 Hel) in Hsp by lia.
  pose proof (walkI_name_event _ _ _ _ W) as Hev7.
  destruct (idx_of 7 (types sel)) as [k7|] eqn:I7; [|discriminate].
  destruct Hev7 as (m7 & Hm7). cbn [Nat.add] in Hm7. rewrite Hm7 in Hname.
  destruct Hname as (el & raw & nd & En & End & Enp).
  pose proof (idx_of_lt _ _ _ I7) as Hk. rewrite types_length in Hk.
  destruct (nth_agrees rs k7 Hag Hk) as (er & tr & E1 & E2 & (Aty & Araw & _)).
  rewrite En in E1. inversion E1; subst er. cbn [fst snd] in Aty, Araw.
  unfold raws in Hsp at 1. rewrite nth_error_map, E2 in Hsp. cbn [option_map] in Hsp.
  destruct (el_value (snd tr)) as [nv|] eqn:Env; [|discriminate].
  destruct (components (S (length nv)) nv) as [comps|] eqn:Ec; [|discriminate].
  assert (Htr : is_el tr /\ (2 <= length (snd tr))%nat /\ fst tr = 7).
  { split; [eapply Forall_forall; [exact Hel|eapply nth_error_In; exact E2]|].
    split; [eapply (proj1 (Forall_forall _ _) Hlen); eapply nth_error_In; exact E2|].
    clear -I7 E2. unfold types in I7. revert k7 I7 E2. induction sel as [|x s0 IH]; intros k H1 H2; [discriminate|].
    cbn [map idx_of] in H1. destruct (N.eqb_spec (fst x) 7) as [E|N].
    - inversion H1; subst. cbn in H2. inversion H2; subst. exact E.
    - destruct (idx_of 7 (map fst s0)) eqn:E'; [|discriminate]. inversion H1; subst. cbn in H2. eapply IH; [reflexivity|exact H2]. }
  destruct Htr as (Hel7 & Hl7 & Ht7). destruct tr as [t7 e7]. cbn [fst snd] in *. clear Aty. subst t7 raw.
  destruct (name_decode_strict e7 nv comps Hel7 Hl7 Env Ec) as (u & Hu).
  rewrite Hu in End. inversion End; subst nd. cbn [fst] in Enp.
  destruct (name_parts_spec _ _ _ _ _ Enp) as (Hncov & _). cbn [app] in Hncov. subst ncov.
  (* the range *)
  rewrite Ev in Hsp at 2. rewrite (before_type_view sel Hel Hlen) in Hsp by lia.
  destruct (idx_of 46 (types sel)) as [k46|] eqn:I46; [|discriminate]. cbn [option_map] in Hsp.
  set (pre := firstn k46 sel) in *.
  assert (Hel' : Forall is_el pre) by (apply Forall_firstn; exact Hel).
  assert (Hlen' : Forall (fun tr => (2 <= length (snd tr))%nat) pre) by (apply Forall_firstn; exact Hlen).
  pose proof (length_le_concat pre Hlen') as G1.
  rewrite (from_type_view pre Hel' Hlen') in Hsp by lia.
  unfold pre in Hsp. rewrite types_firstn in Hsp.
  destruct (idx_of 36 (firstn k46 (types sel))) as [k36|] eqn:I36f; [|discriminate]. cbn [option_map] in Hsp.
  inversion Hsp; subst s. clear Hsp.
  destruct (idx_of_firstn _ _ _ _ I36f) as (I36 & Hlt).
  destruct (walkI_split _ _ _ _ _ W ltac:(lia) I36 (Hcanon k36 I36)) as (ev1 & ev2 & E & F1 & F2). cbn [Nat.add] in E.
  pose proof (walkI_sig_event _ _ _ _ _ W ltac:(lia)) as Hev. rewrite I46 in Hev. destruct Hev as (m & Hm). cbn [Nat.add] in Hm.
  assert (Hm' : m = MK k36).
  { rewrite E in Hm. rewrite event_of_app_skip in Hm.
    - apply event_of_in in Hm. rewrite Forall_forall in F2. apply (F2 _ Hm).
    - eapply Forall_impl; [|exact F1]. intros e (_ & Hin) Habs. rewrite Habs in Hin.
      destruct (Hcanon k36 I36 46 Hin) as (_ & X). apply X; reflexivity.
    - cbn. discriminate. }
  subst m. unfold sig_part. rewrite Hm. cbn [fst]. rewrite get_mark_MK1.
  rewrite concat_app. cbn [concat]. rewrite app_nil_r. f_equal.
  unfold raws_between. rewrite (agrees_raws _ _ Hag).
  rewrite raws_skipn, raws_firstn, skipn_firstn_comm. reflexivity.
Qed.
End Spec.
