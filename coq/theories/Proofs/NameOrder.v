(* Byte-wise comparison of library-encoded components / names = NDN canonical order.
   The key fact is that shortest-form variable-size numbers are order-preserving and
   prefix-free under lexicographic byte comparison. *)
From NDN Require Import Base.Prelude Model.TlvVar Model.Name Spec.NdnOrder Proofs.BytesLemmas Proofs.TlvVarProofs.
Local Open Scope N_scope.

Arguments N.pow : simpl never.
Arguments N.mul : simpl never.
Arguments N.add : simpl never.
Arguments N.div : simpl never.
Arguments N.modulo : simpl never.
Arguments N.of_nat : simpl never.

Lemma bytes_cmp_lex a b : bytes_cmp a b = lex_bytes a b.
Proof.
  revert b; induction a as [|x a IH]; intros [|y b]; cbn [bytes_cmp lex_bytes]; try reflexivity;
  rewrite IH; reflexivity.
Qed.

Lemma bytes_cmp_app_same p x y : bytes_cmp (p ++ x) (p ++ y) = bytes_cmp x y.
Proof. induction p as [|c p IH]; cbn [app bytes_cmp]; [reflexivity|]. rewrite N.compare_refl. exact IH. Qed.

(* fixed-width big-endian numbers compare like the numbers *)
Lemma be_cmp k : forall a b x y,
  a < 256 ^ N.of_nat k -> b < 256 ^ N.of_nat k ->
  bytes_cmp (N_to_be k a ++ x) (N_to_be k b ++ y) = match a ?= b with Eq => bytes_cmp x y | c => c end.
Proof.
  induction k as [|k IH]; intros a b x y Ha Hb.
  - change (256 ^ N.of_nat 0) with 1 in *. assert (a = 0) by lia. assert (b = 0) by lia. subst. reflexivity.
  - cbn [N_to_be]. rewrite <- !app_assoc.
    replace (N.of_nat (S k)) with (N.succ (N.of_nat k)) in * by lia.
    rewrite N.pow_succ_r' in *.
    assert (HP : 0 < 256 ^ N.of_nat k) by (apply N.neq_0_lt_0, N.pow_nonzero; lia).
    rewrite IH by (apply N.div_lt_upper_bound; lia).
    pose proof (N.div_mod a 256 ltac:(lia)) as Da. pose proof (N.div_mod b 256 ltac:(lia)) as Db.
    pose proof (N.mod_lt a 256 ltac:(lia)) as Ma. pose proof (N.mod_lt b 256 ltac:(lia)) as Mb.
    destruct (N.compare_spec (a / 256) (b / 256)) as [E|L|G].
    + cbn [app bytes_cmp].
      destruct (N.compare_spec (a mod 256) (b mod 256)) as [E2|L2|G2].
      * replace (a ?= b) with Eq by (symmetry; apply N.compare_eq_iff; lia). reflexivity.
      * replace (a ?= b) with Lt by (symmetry; apply N.compare_lt_iff; lia). reflexivity.
      * replace (a ?= b) with Gt by (symmetry; apply N.compare_gt_iff; lia). reflexivity.
    + replace (a ?= b) with Lt by (symmetry; apply N.compare_lt_iff; nia). reflexivity.
    + replace (a ?= b) with Gt by (symmetry; apply N.compare_gt_iff; nia). reflexivity.
Qed.

(* shortest-form var-numbers: order preserving and prefix free *)
Theorem tl_enc_cmp a b x y :
  a < two64 -> b < two64 ->
  bytes_cmp (tl_enc a ++ x) (tl_enc b ++ y) = match a ?= b with Eq => bytes_cmp x y | c => c end.
Proof.
  intros Ha Hb. unfold tl_enc, two64 in *.
  destruct (a <=? 252) eqn:A1; destruct (b <=? 252) eqn:B1.
  - cbn [app bytes_cmp]. destruct (a ?= b); reflexivity.
  - assert (Hlt : a < b) by lia. replace (a ?= b) with Lt by (symmetry; apply N.compare_lt_iff; exact Hlt).
    destruct (b <=? 65535); [|destruct (b <=? 4294967295)]; cbn [app bytes_cmp];
      (match goal with |- context [?p ?= ?q] => replace (p ?= q) with Lt by (symmetry; apply N.compare_lt_iff; lia) end);
      reflexivity.
  - assert (Hgt : b < a) by lia. replace (a ?= b) with Gt by (symmetry; apply N.compare_gt_iff; exact Hgt).
    destruct (a <=? 65535); [|destruct (a <=? 4294967295)]; cbn [app bytes_cmp];
      (match goal with |- context [?p ?= ?q] => replace (p ?= q) with Gt by (symmetry; apply N.compare_gt_iff; lia) end);
      reflexivity.
  - destruct (a <=? 65535) eqn:A2; destruct (b <=? 65535) eqn:B2.
    + cbn [app bytes_cmp]. rewrite N.compare_refl. apply be_cmp; rewrite pow256_2; lia.
    + replace (a ?= b) with Lt by (symmetry; apply N.compare_lt_iff; lia).
      destruct (b <=? 4294967295); cbn [app bytes_cmp]; reflexivity.
    + replace (a ?= b) with Gt by (symmetry; apply N.compare_gt_iff; lia).
      destruct (a <=? 4294967295); cbn [app bytes_cmp]; reflexivity.
    + destruct (a <=? 4294967295) eqn:A3; destruct (b <=? 4294967295) eqn:B3.
      * cbn [app bytes_cmp]. rewrite N.compare_refl. apply be_cmp; rewrite pow256_4; lia.
      * replace (a ?= b) with Lt by (symmetry; apply N.compare_lt_iff; lia). reflexivity.
      * replace (a ?= b) with Gt by (symmetry; apply N.compare_gt_iff; lia). reflexivity.
      * cbn [app bytes_cmp]. rewrite N.compare_refl. apply be_cmp; rewrite pow256_8; unfold two64; lia.
Qed.

Definition wf_scomp (c : scomp) : Prop := fst c < two64 /\ N.of_nat (length (snd c)) < two64.
Definition enc_scomp (c : scomp) : bytes := comp_enc (fst c) (snd c).

Theorem comp_cmp_canonical (c1 c2 : scomp) :
  wf_scomp c1 -> wf_scomp c2 -> bytes_cmp (enc_scomp c1) (enc_scomp c2) = canon_comp_cmp c1 c2.
Proof.
  intros [T1 L1] [T2 L2]. unfold enc_scomp, comp_enc, canon_comp_cmp.
  rewrite tl_enc_cmp by assumption.
  destruct (fst c1 ?= fst c2); try reflexivity.
  rewrite tl_enc_cmp by assumption.
  destruct (N.of_nat (length (snd c1)) ?= N.of_nat (length (snd c2))); try reflexivity;
  apply bytes_cmp_lex.
Qed.

(* C09: comparing library-produced names (lists of encoded components) = canonical name order *)
Theorem name_cmp_canonical (a b : list scomp) :
  Forall wf_scomp a -> Forall wf_scomp b ->
  name_cmp (map enc_scomp a) (map enc_scomp b) = canon_name_cmp a b.
Proof.
  intros Ha. revert b. induction Ha as [|x a Hx Ha IH]; intros b Hb.
  - destruct b; reflexivity.
  - destruct Hb as [|y b Hy Hb]; [reflexivity|].
    cbn [map name_cmp canon_name_cmp]. rewrite comp_cmp_canonical by assumption.
    destruct (canon_comp_cmp x y); try reflexivity. apply IH. exact Hb.
Qed.
