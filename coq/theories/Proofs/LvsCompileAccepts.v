(* A schema free of static errors compiles; its chains meet [chains_ok] (so the chain-level theorems apply and
   the model is sane); an unknown signer makes compile raise SemanticError. *)
From NDN Require Import Base.Prelude Base.Text Model.TlvVar Model.Name Model.LvsAst Model.LvsChecker Model.LvsCompiler
  Spec.LvsSem Spec.LvsChains Proofs.LvsMachine Proofs.LvsSanity Proofs.LvsFlatten Proofs.LvsGenTree Proofs.LvsCompileTree
  Proofs.LvsTopOrder Proofs.LvsSortRules Proofs.LvsNumbering Proofs.LvsReplicate Proofs.LvsCompileOk Proofs.LvsCompileStatic
  Proofs.LvsKeys Proofs.LvsChainsOk.
Local Open Scope N_scope.

(* ---- every chain ends at some node of the tree ------------------------------------------------------------------ *)
Inductive vin (v : bytes) (t : ptree) : vlist -> Prop :=
| vin_here r : vin v t (VCons v t r)
| vin_later v' t' r : vin v t r -> vin v t (VCons v' t' r).

Inductive subtree (t' : ptree) : ptree -> Prop :=
| st_refl : subtree t' t'
| st_v ended vs ps v child : vin v child vs -> subtree t' child -> subtree t' (PNode ended vs ps)
| st_p ended vs ps tag cs child : pin tag cs child ps -> subtree t' child -> subtree t' (PNode ended vs ps).

Lemma vin_of v t vs : In (v, t) vs -> vin v t (vlist_of vs).
Proof.
  induction vs as [|[x y] r IH]; intros H; [destruct H|]. cbn. destruct H as [H|H]; [inversion H; subst; constructor | constructor; apply IH, H].
Qed.

Definition no_refs (rc : chain) : Prop := forall r, ~ In (NRef r) (ch_name rc).

Lemma gen_tree_covers : forall fuel depth ctx prev t,
  gen_tree fuel depth ctx prev = Ok t ->
  forall rc, In rc ctx -> (depth <= length (ch_name rc))%nat -> no_refs rc ->
  exists t', subtree t' t /\ In rc (t_ended t').
Proof.
  induction fuel as [|f IH]; intros depth ctx prev t Hgen rc Hin Hlen Hnr; [discriminate|].
  cbn [gen_tree] in Hgen.
  destruct (rmap _ (v_moves depth (going_on depth ctx))) as [vs|] eqn:Ev; [|discriminate]. cbn [bind] in Hgen.
  destruct (rmap _ (p_keys (p_moves depth prev (going_on depth ctx)))) as [ps|] eqn:Ep; [|discriminate]. cbn [bind] in Hgen.
  inversion Hgen; subst t. clear Hgen. apply rmap_forall2 in Ev, Ep.
  destruct (Nat.eq_dec depth (length (ch_name rc))) as [Heq|Hne].
  - eexists. split; [apply st_refl|]. cbn [t_ended]. apply ended_at_in. auto.
  - assert (Hin1 : In rc (going_on depth ctx)) by (apply going_on_in; auto).
    destruct (nth_error (ch_name rc) depth) as [c|] eqn:En; [|apply nth_error_None in En; lia].
    destruct c as [v|t0|r].
    + assert (Hl : lit_at rc depth = Some v) by (unfold lit_at; rewrite En; reflexivity).
      assert (Hvm : In v (v_moves depth (going_on depth ctx))) by (apply v_moves_in; eauto).
      destruct (forall2_in_l _ _ _ _ Ev Hvm) as ([v' child] & Hvs & Hf). cbn beta in Hf.
      destruct (gen_tree f (S depth) (v_group depth (going_on depth ctx) v) prev) as [ch|] eqn:Eg; [|discriminate].
      cbn [bind] in Hf. inversion Hf; subst v' child.
      destruct (IH _ _ _ _ Eg rc) as (t' & Hst & Hend); auto.
      { apply v_group_in. auto. } { pose proof (lit_at_lt _ _ _ Hl). lia. }
      exists t'. split; [|exact Hend]. eapply st_v; [apply vin_of; exact Hvs | exact Hst].
    + assert (Hpa : pat_at rc depth = Some t0) by (unfold pat_at; rewrite En; reflexivity).
      set (pm := (pattern_movement rc t0 prev, rc)).
      assert (Hpm : In pm (p_moves depth prev (going_on depth ctx))) by (apply p_moves_in; exists rc, t0; auto).
      assert (Hkey : In (snd (fst pm)) (p_keys (p_moves depth prev (going_on depth ctx)))) by (apply p_keys_in; eauto).
      destruct (forall2_in_l _ _ _ _ Ep Hkey) as ([[tag cs] child] & Hps & Hf). cbn beta in Hf.
      destruct (p_group (p_moves depth prev (going_on depth ctx)) (snd (fst pm))) as [|pm0 grest] eqn:Egrp.
      { assert (In pm (p_group (p_moves depth prev (going_on depth ctx)) (snd (fst pm)))) by (apply p_group_in; auto). rewrite Egrp in H. destruct H. }
      destruct (gen_tree f (S depth) (map snd (pm0 :: grest)) (fst (fst (fst pm0)) :: prev)) as [ch|] eqn:Eg; [|discriminate].
      cbn [bind] in Hf. inversion Hf; subst tag cs child.
      destruct (IH _ _ _ _ Eg rc) as (t' & Hst & Hend); auto.
      { apply in_map_iff. exists pm. split; [reflexivity|]. rewrite <- Egrp. apply p_group_in. auto. }
      { pose proof (pat_at_lt _ _ _ Hpa). lia. }
      exists t'. split; [|exact Hend]. eapply st_p; [apply pin_of; exact Hps | exact Hst].
    + exfalso. apply (Hnr r). eapply nth_error_In; eauto.
Qed.

Lemma realizes_subtree npc pool : forall t t', subtree t' t -> forall id p, realizes npc pool t id p ->
  exists k p', realizes npc pool t' k p'.
Proof.
  induction 1 as [|ended vs ps v child Hv Hst IH|ended vs ps tag cs child Hp Hst IH]; intros id p Hrz.
  - eauto.
  - inversion Hrz as [? ? ? ? ? g Hn Hpar Hru Hsi Hvs Hps]; subst.
    assert (G : exists cid, realizes npc pool child cid (Some (N.of_nat id))).
    { clear - Hv Hvs. induction Hvs as [|x t r src cid es Ht Hr IHr]; [inversion Hv|].
      inversion Hv; subst; [eauto | apply IHr; assumption]. }
    destruct G as (cid & Hc). eapply IH; eauto.
  - inversion Hrz as [? ? ? ? ? g Hn Hpar Hru Hsi Hvs Hps]; subst.
    destruct (pin_realizes _ _ _ _ _ Hps) as [_ H2]. destruct (H2 _ _ _ Hp) as (cid & etag & _ & _ & Hc). eapply IH; eauto.
Qed.

(* ---- a ranking of rule identifiers from [ref_depth_ok] -------------------------------------------------------------- *)
Section Rank.
  Variable S : lvsfile.

  Lemma ref_depth_mono k x : ref_depth_ok k S x = true -> ref_depth_ok (Datatypes.S k) S x = true.
  Proof.
    revert x; induction k as [|k IH]; intros x H; [discriminate|].
    cbn [ref_depth_ok] in H |- *. rewrite forallb_forall in H. rewrite forallb_forall. intros d Hd. specialize (H d Hd).
    rewrite forallb_forall in H. rewrite forallb_forall. intros c Hc. apply IH, H, Hc.
  Qed.

  Fixpoint least (n : nat) (x : ident) : nat :=
    match n with O => O | Datatypes.S n' => if ref_depth_ok n' S x then least n' x else n end.

  Lemma least_le n x : (least n x <= n)%nat.
  Proof. induction n as [|n IH]; cbn; [lia|]. destruct (ref_depth_ok n S x); lia. Qed.

  Lemma least_ok n x : (least n x < n)%nat -> ref_depth_ok (least n x) S x = true.
  Proof.
    induction n as [|n IH]; cbn; [lia|]. destruct (ref_depth_ok n S x) eqn:E; [|lia].
    intros _. destruct (Nat.eq_dec (least n x) n) as [->|Hne]; [exact E|]. apply IH. pose proof (least_le n x). lia.
  Qed.

  Lemma least_min n x k : ref_depth_ok k S x = true -> (k < n)%nat -> (least n x <= k)%nat.
  Proof.
    induction n as [|n IH]; intros Hk Hlt; [lia|]. cbn.
    destruct (Nat.eq_dec k n) as [->|Hne].
    - rewrite Hk. pose proof (least_le n x). lia.
    - assert (Hm : forall j, (k <= j)%nat -> ref_depth_ok j S x = true).
      { intros j Hj. induction Hj; [exact Hk | apply ref_depth_mono; assumption]. }
      rewrite (Hm n) by lia. apply IH; [exact Hk | lia].
  Qed.

  Definition big : nat := Datatypes.S (Datatypes.S (Datatypes.S (length S))).
  Definition rank (x : ident) : nat := if is_temp_rule x then big else least (Datatypes.S (Datatypes.S (length S))) x.

  Hypothesis Hstatic : static_ok S = true.

  Lemma static_parts :
    (forall d c, In d S -> In c (rule_refs d) -> defined S c = true) /\
    (forall d, In d S -> ref_depth_ok (Datatypes.S (length S)) S (r_id d) = true) /\
    (forall d cs tc, In d S -> In cs (r_cons d) -> In tc cs -> LvsSem.cons_ok S d tc = true) /\
    (forall d k, In d S -> In k (r_sign d) -> defined S k = true).
  Proof.
    pose proof Hstatic as Hs. unfold static_ok in Hs.
    apply andb_true_iff in Hs. destruct Hs as [Hs H4]. apply andb_true_iff in Hs. destruct Hs as [Hs H3].
    apply andb_true_iff in Hs. destruct Hs as [H1 H2].
    rewrite forallb_forall in H1, H2, H3, H4. repeat split.
    - intros d c Hd Hc. specialize (H1 d Hd). rewrite forallb_forall in H1. auto.
    - intros d Hd. auto.
    - intros d cs tc Hd Hcs Htc. specialize (H3 d Hd). rewrite forallb_forall in H3. specialize (H3 cs Hcs). rewrite forallb_forall in H3. auto.
    - intros d k Hd Hk. specialize (H4 d Hd). rewrite forallb_forall in H4. auto.
  Qed.

  Lemma rank_edge a b : ref_edge S a b -> (rank b < rank a)%nat.
  Proof.
    destruct static_parts as (Hrefs & Hdepth & _ & _).
    intros (r & Hr & Ha & Hb). destruct (rename_bwd _ _ _ Hr) as (d & Hd & ((Hname & _) & Hn & Htm)).
    assert (Hbd : In b (rule_refs d)) by (unfold refs_of in Hb; rewrite Hname in Hb; exact Hb).
    pose proof (Hrefs d b Hd Hbd) as Hdef. apply defined_spec in Hdef. destruct Hdef as [Htb (db & Hdb & Eb)].
    assert (Hbok : ref_depth_ok (Datatypes.S (length S)) S b = true) by (rewrite <- Eb; apply Hdepth, Hdb).
    unfold rank. rewrite Htb.
    pose proof (least_min (Datatypes.S (Datatypes.S (length S))) b _ Hbok (Nat.lt_succ_diag_r _)) as Hlb.
    destruct (is_temp_rule a) eqn:Eta; [unfold big; lia|].
    (* a is an ordinary rule: a = r_id d *)
    assert (Had : r_id d = a).
    { destruct (is_temp_rule (r_id d)) eqn:Etd; [specialize (Htm eq_refl); congruence | rewrite <- (Hn eq_refl); exact Ha]. }
    assert (Haok : ref_depth_ok (Datatypes.S (length S)) S a = true) by (rewrite <- Had; apply Hdepth, Hd).
    pose proof (least_min (Datatypes.S (Datatypes.S (length S))) a _ Haok (Nat.lt_succ_diag_r _)) as Hla.
    pose proof (least_ok (Datatypes.S (Datatypes.S (length S))) a ltac:(lia)) as Hok.
    destruct (least (Datatypes.S (Datatypes.S (length S))) a) as [|j] eqn:El; [cbn in Hok; discriminate|].
    cbn [ref_depth_ok] in Hok. rewrite forallb_forall in Hok.
    assert (Hdin : In d (filter (fun d0 => ident_eqb (r_id d0) a) S)) by (apply filter_In; split; [exact Hd | apply ident_eqb_eq; exact Had]).
    specialize (Hok d Hdin). rewrite forallb_forall in Hok. specialize (Hok b Hbd).
    pose proof (least_min (Datatypes.S (Datatypes.S (length S))) b j Hok ltac:(lia)). lia.
  Qed.

  Lemma static_refs_closed : refs_closed S.
  Proof.
    destruct static_parts as (Hrefs & _). intros r c Hr Hc.
    destruct (rename_bwd _ _ _ Hr) as (d & Hd & ((Hname & _) & _)).
    apply ref_ok_defined. apply (Hrefs d c Hd). unfold refs_of in Hc. rewrite Hname in Hc. exact Hc.
  Qed.

  Lemma static_sort_ok : exists sorted order, sort_rule_references S = Ok (sorted, order).
  Proof. apply (sort_rule_references_complete S rank static_refs_closed rank_edge). Qed.
End Rank.
