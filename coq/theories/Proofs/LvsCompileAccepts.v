(* A schema free of static errors compiles; its chains meet [chains_ok] (so the chain-level theorems apply and
   the model is sane); an unknown signer makes compile raise SemanticError. *)
From NDN Require Import Base.Prelude Base.Text Model.TlvVar Model.Name Model.LvsAst Model.LvsChecker Model.LvsCompiler
  Spec.LvsSem Spec.LvsChains Proofs.LvsMachine Proofs.LvsSanity Proofs.LvsFlatten Proofs.LvsGenTree Proofs.LvsCompileTree
  Proofs.LvsTopOrder Proofs.LvsSortRules Proofs.LvsNumbering Proofs.LvsReplicate Proofs.LvsCompileOk Proofs.LvsCompileStatic
  Proofs.LvsKeys Proofs.LvsChainsOk.
Local Open Scope N_scope.

(* ---- every chain ends at some node of the tree ------------------------------------------------------------------ *)
Inductive vin (v : bytes) (t : ptree) : vlist -> Prop :=
| vin_here r : vin v t (VCons v t r)
| vin_later v' t' r : vin v t r -> vin v t (VCons v' t' r).

Inductive subtree (t' : ptree) : ptree -> Prop :=
| st_refl : subtree t' t'
| st_v ended vs ps v child : vin v child vs -> subtree t' child -> subtree t' (PNode ended vs ps)
| st_p ended vs ps tag cs child : pin tag cs child ps -> subtree t' child -> subtree t' (PNode ended vs ps).

Lemma vin_of v t vs : In (v, t) vs -> vin v t (vlist_of vs).
Proof.
  induction vs as [|[x y] r IH]; intros H; [destruct H|]. cbn. destruct H as [H|H]; [inversion H; subst; constructor | constructor; apply IH, H].
Qed.

Definition no_refs (rc : chain) : Prop := forall r, ~ In (NRef r) (ch_name rc).

Lemma gen_tree_covers : forall fuel depth ctx prev t,
  gen_tree fuel depth ctx prev = Ok t ->
  forall rc, In rc ctx -> (depth <= length (ch_name rc))%nat -> no_refs rc ->
  exists t', subtree t' t /\ In rc (t_ended t').
Proof.
  induction fuel as [|f IH]; intros depth ctx prev t Hgen rc Hin Hlen Hnr; [discriminate|].
  cbn [gen_tree] in Hgen.
  destruct (rmap _ (v_moves depth (going_on depth ctx))) as [vs|] eqn:Ev; [|discriminate]. cbn [bind] in Hgen.
  destruct (rmap _ (p_keys (p_moves depth prev (going_on depth ctx)))) as [ps|] eqn:Ep; [|discriminate]. cbn [bind] in Hgen.
  inversion Hgen; subst t. clear Hgen. apply rmap_forall2 in Ev, Ep.
  destruct (Nat.eq_dec depth (length (ch_name rc))) as [Heq|Hne].
  - eexists. split; [apply st_refl|]. cbn [t_ended]. apply ended_at_in. auto.
  - assert (Hin1 : In rc (going_on depth ctx)) by (apply going_on_in; auto).
    destruct (nth_error (ch_name rc) depth) as [c|] eqn:En; [|apply nth_error_None in En; lia].
    destruct c as [v|t0|r].
    + assert (Hl : lit_at rc depth = Some v) by (unfold lit_at; rewrite En; reflexivity).
      assert (Hvm : In v (v_moves depth (going_on depth ctx))) by (apply v_moves_in; eauto).
      destruct (forall2_in_l _ _ _ _ Ev Hvm) as ([v' child] & Hvs & Hf). cbn beta in Hf.
      destruct (gen_tree f (S depth) (v_group depth (going_on depth ctx) v) prev) as [ch|] eqn:Eg; [|discriminate].
      cbn [bind] in Hf. inversion Hf; subst v' child.
      destruct (IH _ _ _ _ Eg rc) as (t' & Hst & Hend); auto.
      { apply v_group_in. auto. } { pose proof (lit_at_lt _ _ _ Hl). lia. }
      exists t'. split; [|exact Hend]. eapply st_v; [apply vin_of; exact Hvs | exact Hst].
    + assert (Hpa : pat_at rc depth = Some t0) by (unfold pat_at; rewrite En; reflexivity).
      set (pm := (pattern_movement rc t0 prev, rc)).
      assert (Hpm : In pm (p_moves depth prev (going_on depth ctx))) by (apply p_moves_in; exists rc, t0; auto).
      assert (Hkey : In (snd (fst pm)) (p_keys (p_moves depth prev (going_on depth ctx)))) by (apply p_keys_in; eauto).
      destruct (forall2_in_l _ _ _ _ Ep Hkey) as ([[tag cs] child] & Hps & Hf). cbn beta in Hf.
      destruct (p_group (p_moves depth prev (going_on depth ctx)) (snd (fst pm))) as [|pm0 grest] eqn:Egrp.
      { assert (In pm (p_group (p_moves depth prev (going_on depth ctx)) (snd (fst pm)))) by (apply p_group_in; auto). rewrite Egrp in H. destruct H. }
      destruct (gen_tree f (S depth) (map snd (pm0 :: grest)) (fst (fst (fst pm0)) :: prev)) as [ch|] eqn:Eg; [|discriminate].
      cbn [bind] in Hf. inversion Hf; subst tag cs child.
      destruct (IH _ _ _ _ Eg rc) as (t' & Hst & Hend); auto.
      { apply in_map_iff. exists pm. split; [reflexivity|]. rewrite <- Egrp. apply p_group_in. auto. }
      { pose proof (pat_at_lt _ _ _ Hpa). lia. }
      exists t'. split; [|exact Hend]. eapply st_p; [apply pin_of; exact Hps | exact Hst].
    + exfalso. apply (Hnr r). eapply nth_error_In; eauto.
Qed.

Lemma realizes_subtree npc pool : forall t t', subtree t' t -> forall id p, realizes npc pool t id p ->
  exists k p', realizes npc pool t' k p'.
Proof.
  induction 1 as [|ended vs ps v child Hv Hst IH|ended vs ps tag cs child Hp Hst IH]; intros id p Hrz.
  - eauto.
  - inversion Hrz as [? ? ? ? ? g Hn Hpar Hru Hsi Hvs Hps]; subst.
    assert (G : exists cid, realizes npc pool child cid (Some (N.of_nat id))).
    { clear - Hv Hvs. induction Hvs as [|x t r src cid es Ht Hr IHr]; [inversion Hv|].
      inversion Hv; subst; [eauto | apply IHr; assumption]. }
    destruct G as (cid & Hc). eapply IH; eauto.
  - inversion Hrz as [? ? ? ? ? g Hn Hpar Hru Hsi Hvs Hps]; subst.
    destruct (pin_realizes _ _ _ _ _ Hps) as [_ H2]. destruct (H2 _ _ _ Hp) as (cid & etag & _ & _ & Hc). eapply IH; eauto.
Qed.

(* ---- a ranking of rule identifiers from [ref_depth_ok] -------------------------------------------------------------- *)
Section Rank.
  Variable S : lvsfile.

  Lemma ref_depth_mono k x : ref_depth_ok k S x = true -> ref_depth_ok (Datatypes.S k) S x = true.
  Proof.
    revert x; induction k as [|k IH]; intros x H; [discriminate|].
    cbn [ref_depth_ok] in H |- *. rewrite forallb_forall in H. rewrite forallb_forall. intros d Hd. specialize (H d Hd).
    rewrite forallb_forall in H. rewrite forallb_forall. intros c Hc. apply IH, H, Hc.
  Qed.

  Fixpoint least (n : nat) (x : ident) : nat :=
    match n with O => O | Datatypes.S n' => if ref_depth_ok n' S x then least n' x else n end.

  Lemma least_le n x : (least n x <= n)%nat.
  Proof. induction n as [|n IH]; cbn; [lia|]. destruct (ref_depth_ok n S x); lia. Qed.

  Lemma least_ok n x : (least n x < n)%nat -> ref_depth_ok (least n x) S x = true.
  Proof.
    induction n as [|n IH]; cbn; [lia|]. destruct (ref_depth_ok n S x) eqn:E; [|lia].
    intros _. destruct (Nat.eq_dec (least n x) n) as [->|Hne]; [exact E|]. apply IH. pose proof (least_le n x). lia.
  Qed.

  Lemma least_min n x k : ref_depth_ok k S x = true -> (k < n)%nat -> (least n x <= k)%nat.
  Proof.
    induction n as [|n IH]; intros Hk Hlt; [lia|]. cbn.
    destruct (Nat.eq_dec k n) as [->|Hne].
    - rewrite Hk. pose proof (least_le n x). lia.
    - assert (Hm : forall j, (k <= j)%nat -> ref_depth_ok j S x = true).
      { intros j Hj. induction Hj; [exact Hk | apply ref_depth_mono; assumption]. }
      rewrite (Hm n) by lia. apply IH; [exact Hk | lia].
  Qed.

  Definition big : nat := Datatypes.S (Datatypes.S (Datatypes.S (length S))).
  Definition rank (x : ident) : nat := if is_temp_rule x then big else least (Datatypes.S (Datatypes.S (length S))) x.

  Hypothesis Hstatic : static_ok S = true.

  Lemma static_parts :
    (forall d c, In d S -> In c (rule_refs d) -> defined S c = true) /\
    (forall d, In d S -> ref_depth_ok (Datatypes.S (length S)) S (r_id d) = true) /\
    (forall d cs tc, In d S -> In cs (r_cons d) -> In tc cs -> LvsSem.cons_ok S d tc = true) /\
    (forall d k, In d S -> In k (r_sign d) -> defined S k = true).
  Proof.
    pose proof Hstatic as Hs. unfold static_ok in Hs.
    apply andb_true_iff in Hs. destruct Hs as [Hs H4]. apply andb_true_iff in Hs. destruct Hs as [Hs H3].
    apply andb_true_iff in Hs. destruct Hs as [H1 H2].
    rewrite forallb_forall in H1, H2, H3, H4. repeat split.
    - intros d c Hd Hc. specialize (H1 d Hd). rewrite forallb_forall in H1. auto.
    - intros d Hd. auto.
    - intros d cs tc Hd Hcs Htc. specialize (H3 d Hd). rewrite forallb_forall in H3. specialize (H3 cs Hcs). rewrite forallb_forall in H3. auto.
    - intros d k Hd Hk. specialize (H4 d Hd). rewrite forallb_forall in H4. auto.
  Qed.

  Lemma rank_edge a b : ref_edge S a b -> (rank b < rank a)%nat.
  Proof.
    destruct static_parts as (Hrefs & Hdepth & _ & _).
    intros (r & Hr & Ha & Hb). destruct (rename_bwd _ _ _ Hr) as (d & Hd & ((Hname & _) & Hn & Htm)).
    assert (Hbd : In b (rule_refs d)) by (unfold refs_of in Hb; rewrite Hname in Hb; exact Hb).
    pose proof (Hrefs d b Hd Hbd) as Hdef. apply defined_spec in Hdef. destruct Hdef as [Htb (db & Hdb & Eb)].
    assert (Hbok : ref_depth_ok (Datatypes.S (length S)) S b = true) by (rewrite <- Eb; apply Hdepth, Hdb).
    unfold rank. rewrite Htb.
    pose proof (least_min (Datatypes.S (Datatypes.S (length S))) b _ Hbok (Nat.lt_succ_diag_r _)) as Hlb.
    destruct (is_temp_rule a) eqn:Eta; [unfold big; lia|].
    (* a is an ordinary rule: a = r_id d *)
    assert (Had : r_id d = a).
    { destruct (is_temp_rule (r_id d)) eqn:Etd; [specialize (Htm eq_refl); congruence | rewrite <- (Hn eq_refl); exact Ha]. }
    assert (Haok : ref_depth_ok (Datatypes.S (length S)) S a = true) by (rewrite <- Had; apply Hdepth, Hd).
    pose proof (least_min (Datatypes.S (Datatypes.S (length S))) a _ Haok (Nat.lt_succ_diag_r _)) as Hla.
    pose proof (least_ok (Datatypes.S (Datatypes.S (length S))) a ltac:(lia)) as Hok.
    destruct (least (Datatypes.S (Datatypes.S (length S))) a) as [|j] eqn:El; [cbn in Hok; discriminate|].
    cbn [ref_depth_ok] in Hok. rewrite forallb_forall in Hok.
    assert (Hdin : In d (filter (fun d0 => ident_eqb (r_id d0) a) S)) by (apply filter_In; split; [exact Hd | apply ident_eqb_eq; exact Had]).
    specialize (Hok d Hdin). rewrite forallb_forall in Hok. specialize (Hok b Hbd).
    pose proof (least_min (Datatypes.S (Datatypes.S (length S))) b j Hok ltac:(lia)). lia.
  Qed.

  Lemma static_refs_closed : refs_closed S.
  Proof.
    destruct static_parts as (Hrefs & _). intros r c Hr Hc.
    destruct (rename_bwd _ _ _ Hr) as (d & Hd & ((Hname & _) & _)).
    apply ref_ok_defined. apply (Hrefs d c Hd). unfold refs_of in Hc. rewrite Hname in Hc. exact Hc.
  Qed.

  Lemma static_sort_ok : exists sorted order, sort_rule_references S = Ok (sorted, order).
  Proof. apply (sort_rule_references_complete S rank static_refs_closed rank_edge). Qed.
End Rank.

(* ---- provenance of the nodes of the flattened tree ------------------------------------------------------------------ *)
Lemma vin_of_inv v t vs : vin v t (vlist_of vs) -> In (v, t) vs.
Proof.
  induction vs as [|[x y] r IH]; cbn; intros H; inversion H; subst; [left; reflexivity | right; apply IH; assumption].
Qed.

Lemma gen_tree_ended_sub : forall fuel depth ctx prev t, gen_tree fuel depth ctx prev = Ok t ->
  forall t', subtree t' t -> forall rc, In rc (t_ended t') -> In rc ctx.
Proof.
  induction fuel as [|f IH]; intros depth ctx prev t Hgen t' Hst rc Hrc; [discriminate|].
  cbn [gen_tree] in Hgen.
  destruct (rmap _ (v_moves depth (going_on depth ctx))) as [vs|] eqn:Ev; [|discriminate]. cbn [bind] in Hgen.
  destruct (rmap _ (p_keys (p_moves depth prev (going_on depth ctx)))) as [ps|] eqn:Ep; [|discriminate]. cbn [bind] in Hgen.
  inversion Hgen; subst t. clear Hgen. apply rmap_forall2 in Ev, Ep.
  inversion Hst as [|ended vs0 ps0 v child Hv Hst'|ended vs0 ps0 tag cs child Hp Hst']; subst.
  - cbn [t_ended] in Hrc. apply ended_at_in in Hrc. tauto.
  - apply vin_of_inv in Hv. destruct (forall2_in_r _ _ _ _ Ev Hv) as (v' & _ & Hf). cbn beta in Hf.
    destruct (gen_tree f (S depth) (v_group depth (going_on depth ctx) v') prev) as [ch|] eqn:Eg; [|discriminate].
    cbn [bind] in Hf. inversion Hf; subst v' ch.
    pose proof (IH _ _ _ _ Eg t' Hst' rc Hrc) as Hin. apply v_group_in in Hin. destruct Hin as [Hin _]. apply going_on_in in Hin. tauto.
  - apply pin_of in Hp. destruct (forall2_in_r _ _ _ _ Ep Hp) as (key & _ & Hf). cbn beta in Hf.
    destruct (p_group (p_moves depth prev (going_on depth ctx)) key) as [|pm0 grest] eqn:Egrp; [discriminate|].
    destruct (gen_tree f (S depth) (map snd (pm0 :: grest)) (fst (fst (fst pm0)) :: prev)) as [ch|] eqn:Eg; [|discriminate].
    cbn [bind] in Hf. inversion Hf; subst tag cs ch.
    pose proof (IH _ _ _ _ Eg t' Hst' rc Hrc) as Hin. apply in_map_iff in Hin. destruct Hin as (pm & <- & Hpm). rewrite <- Egrp in Hpm.
    apply p_group_in in Hpm. destruct Hpm as [Hpm _]. apply p_moves_in in Hpm. destruct Hpm as (rc1 & t1 & Hr1 & _ & ->). cbn.
    apply going_on_in in Hr1. tauto.
Qed.

Definition node_of (g : gnode) (t' : ptree) : Prop :=
  g_rule g = map ch_id (t_ended t') /\ g_sign g = flat_map ch_sign (t_ended t').

Lemma flatten_nodes :
  (forall t parent id tti g, In g (fst (flatten t parent id tti)) -> exists t', subtree t' t /\ node_of g t') /\
  (forall vs src nid tti g, In g (snd (fst (fst (flatten_vs vs src nid tti)))) ->
      exists v child t', vin v child vs /\ subtree t' child /\ node_of g t') /\
  (forall ps src nid tti g, In g (snd (fst (fst (flatten_ps ps src nid tti)))) ->
      exists tag cs child t', pin tag cs child ps /\ subtree t' child /\ node_of g t').
Proof.
  apply ptree_mutind.
  - intros ended vs IHv ps IHp parent id tti g Hin. cbn [flatten] in Hin.
    destruct (flatten_vs vs id (S id) tti) as [[[ves sub1] nid1] tti1] eqn:Ev.
    destruct (flatten_ps ps id nid1 tti1) as [[[pes sub2] nid2] tti2] eqn:Ep. cbn [fst] in Hin.
    destruct Hin as [<-|Hin].
    + exists (PNode ended vs ps). split; [apply st_refl|]. split; reflexivity.
    + apply in_app_or in Hin. destruct Hin as [Hin|Hin].
      * specialize (IHv id (S id) tti g). rewrite Ev in IHv. destruct (IHv Hin) as (v & child & t' & H1 & H2 & H3).
        exists t'. split; [eapply st_v; eauto | exact H3].
      * specialize (IHp id nid1 tti1 g). rewrite Ep in IHp. destruct (IHp Hin) as (tag & cs & child & t' & H1 & H2 & H3).
        exists t'. split; [eapply st_p; eauto | exact H3].
  - intros src nid tti g []. 
  - intros v t IHt r IHr src nid tti g Hin. cbn [flatten_vs] in Hin.
    destruct (flatten t (Some (N.of_nat src)) nid tti) as [sub tti1] eqn:Et.
    destruct (flatten_vs r src (nid + length sub) tti1) as [[[es subs] nid'] tti2] eqn:Er. cbn [fst snd] in Hin.
    apply in_app_or in Hin. destruct Hin as [Hin|Hin].
    + specialize (IHt (Some (N.of_nat src)) nid tti g). rewrite Et in IHt. destruct (IHt Hin) as (t' & H1 & H2).
      exists v, t, t'. split; [constructor | auto].
    + specialize (IHr src (nid + length sub)%nat tti1 g). rewrite Er in IHr. destruct (IHr Hin) as (v' & child & t' & H1 & H2 & H3).
      exists v', child, t'. split; [constructor; exact H1 | auto].
  - intros src nid tti g [].
  - intros tag cs t IHt r IHr src nid tti g Hin. cbn [flatten_ps] in Hin.
    destruct (if (0 <=? tag)%Z then (Z.to_N tag, tti) else (tti + 1, tti + 1)) as [etag tti0].
    destruct (flatten t (Some (N.of_nat src)) nid tti0) as [sub tti1] eqn:Et.
    destruct (flatten_ps r src (nid + length sub) tti1) as [[[es subs] nid'] tti2] eqn:Er. cbn [fst snd] in Hin.
    apply in_app_or in Hin. destruct Hin as [Hin|Hin].
    + specialize (IHt (Some (N.of_nat src)) nid tti0 g). rewrite Et in IHt. destruct (IHt Hin) as (t' & H1 & H2).
      exists tag, cs, t, t'. split; [constructor | auto].
    + specialize (IHr src (nid + length sub)%nat tti1 g). rewrite Er in IHr. destruct (IHr Hin) as (tag' & cs' & child & t' & H1 & H2 & H3).
      exists tag', cs', child, t'. split; [constructor; exact H1 | auto].
Qed.

(* ---- resolution keeps literals and function identifiers ------------------------------------------------------------- *)
Lemma resolve_arg_wf named a na : resolve_arg named a = Ok na -> arg_wf a = true -> arg_ok na = true.
Proof.
  destruct a as [c|p]; cbn; [intros H; inversion H; subst; auto|].
  destruct (is_temp_pat p); [discriminate|]. destruct (resolve_named named p); cbn; [|discriminate]. intros H; inversion H; subst. reflexivity.
Qed.

Lemma resolve_opt_wf named o no : resolve_opt named o = Ok no -> opt_wf o = true -> opt_ok no = true.
Proof.
  destruct o as [c|p|f args]; cbn [resolve_opt opt_wf].
  - intros H; inversion H; subst. auto.
  - destruct (is_temp_pat p); [discriminate|]. destruct (resolve_named named p); cbn; [|discriminate]. intros H; inversion H; subst. reflexivity.
  - destruct (rmap (resolve_arg named) args) as [l|] eqn:E; cbn; [|discriminate]. intros H; inversion H; subst.
    rewrite andb_true_iff. intros [Hf Ha]. cbn. rewrite Hf. cbn. apply rmap_forall2 in E.
    rewrite forallb_forall in Ha. apply forallb_forall. intros na Hna. destruct (forall2_in_r _ _ _ _ E Hna) as (a & Ha' & Hr).
    eapply resolve_arg_wf; eauto.
Qed.

Lemma resolve_cons_wf named tp tc nc : resolve_cons named tp tc = Ok nc -> forallb opt_wf (tc_opts tc) = true -> Spec.LvsChains.cons_ok nc = true.
Proof.
  unfold resolve_cons. destruct (if is_temp_pat (tc_pat tc) then _ else _) as [pat|]; cbn [bind]; [|discriminate].
  destruct (rmap (resolve_opt named) (tc_opts tc)) as [opts|] eqn:E; cbn [bind]; [|discriminate]. intros H; inversion H; subst.
  intros Hw. unfold Spec.LvsChains.cons_ok. cbn. apply rmap_forall2 in E. rewrite forallb_forall in Hw. apply forallb_forall.
  intros no Hno. destruct (forall2_in_r _ _ _ _ E Hno) as (o & Ho & Hr). eapply resolve_opt_wf; eauto.
Qed.

Lemma forall2_in_r2 {A B} (R : A -> B -> Prop) l l' y : Forall2 R l l' -> In y l' -> exists x, In x l /\ R x y.
Proof. apply forall2_in_r. Qed.

(* ---- the theorem ------------------------------------------------------------------------------------------------------- *)
Theorem compile_accepts S : static_ok S = true -> schema_wf S = true ->
  exists chains st m, chains_of S = Ok (chains, st) /\ compile S = Ok m /\ chains_ok (N.of_nat (length (ns_named st))) chains.
Proof.
  intros Hstatic Hwf.
  destruct (static_parts S Hstatic) as (Hrefs & Hdepth & Hcons & Hsigners).
  destruct (static_sort_ok S Hstatic) as (sorted & order & Es).
  pose proof (sort_rule_references_spec S) as Hs. rewrite Es in Hs.
  destruct Hs as (Hcl & Hnd & Hino & _ & Hsin & Hafter & _).
  pose proof (sorted_bodies _ _ _ Es) as Hb.
  (* numbering *)
  pose proof (gen_pattern_numbers_spec sorted) as Hn. pose proof (gen_pattern_numbers_rel sorted) as Hrel.
  destruct (gen_pattern_numbers sorted) as [[nrules st]|e2] eqn:En.
  2:{ exfalso. destruct Hn as [_ (r & cs & tc & Hr & Hcs & Htc & Hbad)]. apply Hbad.
      destruct (proj2 Hb r Hr) as (d & Hd & Hsame). destruct Hsame as (Hn1 & Hc1 & Hs1) eqn:Esame.
      apply (cons_ok_src S sorted d r tc Hb (conj Hn1 (conj Hc1 Hs1))). apply (Hcons d cs tc Hd); [rewrite <- Hc1; exact Hcs | exact Htc]. }
  specialize (Hrel nrules st eq_refl). destruct Hn as (HI & Hnamed & _ & _).
  (* replication *)
  destruct (replicate_rules_ok nrules (ns_next_temp st) (refs_earlier_of _ _ _ Hrel Hafter) (ni_temp _ HI)) as (rep & Erep & Hrep & Hkeys).
  set (chains := concat (map snd (sort_by_key rep))).
  assert (Echains : chains_of S = Ok (chains, st)).
  { unfold chains_of. rewrite Es. cbn [bind fst]. rewrite En. cbn [bind]. rewrite Erep. reflexivity. }
  assert (Hfrom : forall rc, In rc chains -> chain_from nrules rc).
  { intros rc Hrc. unfold chains in Hrc. apply in_concat in Hrc. destruct Hrc as (chs & Hchs & Hin). apply in_map_iff in Hchs.
    destruct Hchs as ([id chs'] & <- & Hp). apply (proj1 (in_sort_by_key rep (id, chs'))) in Hp. destruct (Hrep id chs' Hp) as [_ Hall].
    rewrite Forall_forall in Hall. apply Hall, Hin. }
  assert (Hhas : forall nr, In nr nrules -> exists rc, In rc chains /\ ch_id rc = nr_id nr).
  { intros nr Hnr. destruct (Hkeys nr Hnr) as (chs & rc & Hg & Hrc & _). apply al_get_in_pair in Hg. destruct (Hrep _ _ Hg) as [Hne Hall].
    rewrite Forall_forall in Hall. destruct (Hall rc Hrc) as [_ Hid]. exists rc. split; [|exact Hid].
    unfold chains. apply in_concat. exists chs. split; [|exact Hrc]. apply in_map_iff. exists (nr_id nr, chs).
    split; [reflexivity | apply (proj2 (in_sort_by_key rep _)); exact Hg]. }
  (* source rule behind a numbered rule *)
  assert (Hsrc : forall nr, In nr nrules -> exists r d, In r sorted /\ nrule_rel (ns_named st) r nr /\ In d S /\ same_body d r).
  { intros nr Hnr. destruct (forall2_in_r _ _ _ _ Hrel Hnr) as (r & Hr & Hrl). destruct (proj2 Hb r Hr) as (d & Hd & Hsame). eauto 8. }
  assert (Hrwf : forall d, In d S -> rule_wf d = true) by (unfold schema_wf in Hwf; rewrite forallb_forall in Hwf; exact Hwf).
  (* chains_ok *)
  assert (Hok : chains_ok (N.of_nat (length (ns_named st))) chains).
  { constructor.
    - apply keys_faithful_of. intros rc Hrc. destruct (Hfrom rc Hrc) as (_ & Hcf & _).
      unfold chain_keys_ok. apply forallb_forall. intros c Hc. rewrite Forall_forall in Hcf.
      destruct (Hcf c Hc) as (nr & cs & c0 & Hnr & Hcs & Hc0 & Hopts).
      destruct (Hsrc nr Hnr) as (r & d & Hr & (_ & _ & _ & _ & Hcr) & Hd & (_ & Hcd & _)).
      destruct (forall2_in_r _ _ _ _ Hcr Hcs) as (scs & Hscs & Hf2). destruct (forall2_in_r _ _ _ _ Hf2 Hc0) as (tc & Htc & (tp & Hres)).
      pose proof (resolve_cons_wf _ _ _ _ Hres) as Hw. unfold Spec.LvsChains.cons_ok in *. rewrite Hopts. apply Hw.
      specialize (Hrwf d Hd). unfold rule_wf in Hrwf. apply andb_true_iff in Hrwf. destruct Hrwf as [_ Hrc2].
      rewrite forallb_forall in Hrc2. rewrite Hcd in Hscs. specialize (Hrc2 scs Hscs). rewrite forallb_forall in Hrc2. apply Hrc2, Htc.
    - intros rc v Hrc Hv. destruct (Hfrom rc Hrc) as (Hnf & _). rewrite Forall_forall in Hnf. specialize (Hnf _ Hv). cbn in Hnf.
      destruct Hnf as (nr & Hnr & Hvn). destruct (Hsrc nr Hnr) as (r & d & Hr & (_ & _ & Hshape & _) & Hd & (Hnd' & _)).
      destruct (forall2_in_r _ _ _ _ Hshape Hvn) as (c & Hc & Hcs). destruct c as [v'|p|r0]; cbn in Hcs; try contradiction. subst v'.
      specialize (Hrwf d Hd). unfold rule_wf in Hrwf. apply andb_true_iff in Hrwf. destruct Hrwf as [Hrn _].
      rewrite forallb_forall in Hrn. rewrite Hnd' in Hc. specialize (Hrn _ Hc). cbn in Hrn. destruct v; [discriminate | discriminate].
    - intros rc c f args Hrc Hc Ho. destruct (Hfrom rc Hrc) as (_ & Hcf & _). rewrite Forall_forall in Hcf.
      destruct (Hcf c Hc) as (nr & cs & c0 & Hnr & Hcs & Hc0 & Hopts).
      destruct (Hsrc nr Hnr) as (r & d & Hr & (_ & _ & _ & _ & Hcr) & Hd & (_ & Hcd & _)).
      destruct (forall2_in_r _ _ _ _ Hcr Hcs) as (scs & Hscs & Hf2). destruct (forall2_in_r _ _ _ _ Hf2 Hc0) as (tc & Htc & (tp & Hres)).
      assert (Hw : Spec.LvsChains.cons_ok c0 = true).
      { eapply resolve_cons_wf; eauto. specialize (Hrwf d Hd). unfold rule_wf in Hrwf. apply andb_true_iff in Hrwf. destruct Hrwf as [_ Hrc2].
        rewrite forallb_forall in Hrc2. rewrite Hcd in Hscs. specialize (Hrc2 scs Hscs). rewrite forallb_forall in Hrc2. apply Hrc2, Htc. }
      unfold Spec.LvsChains.cons_ok in Hw. rewrite forallb_forall in Hw. rewrite Hopts in Ho. specialize (Hw _ Ho). cbn in Hw.
      apply andb_true_iff in Hw. destruct Hw as [Hf _]. destruct (fid_ok_spec f Hf) as (r1 & -> & _). discriminate.
    - intros rc t Hrc Ht Hpos. destruct (Hfrom rc Hrc) as (Hnf & _). rewrite Forall_forall in Hnf. specialize (Hnf _ Ht). cbn in Hnf.
      destruct Hnf as [Hneg|(nr & Hnr & Htn)]; [lia|].
      destruct (Hsrc nr Hnr) as (r & d & Hr & (_ & _ & _ & Htags & _) & _).
      rewrite Forall_forall in Htags. specialize (Htags _ Htn). cbn in Htags. destruct Htags as [Hneg|(p & Hp & _)]; [lia|].
      apply (ni_range _ HI) in Hp. lia. }
  (* the tree, the pool, the signers *)
  destruct (gen_tree_ok (Datatypes.S (max_chain_len chains)) 0 chains []) as (t & Et); [lia | |].
  { intros rc Hrc. pose proof (max_chain_len_ge _ _ Hrc). lia. }
  set (npc := N.of_nat (length (ns_named st))) in *.
  set (pool := fst (flatten t None O npc)).
  assert (Hroot : realizes npc pool t O None).
  { unfold pool. destruct (flatten t None O npc) as [sub tti'] eqn:Ef. cbn [fst].
    destruct (proj1 (flatten_realizes npc) t [] [] None npc sub tti' Ef (N.le_refl _)) as (Hr & _).
    cbn [app length] in Hr. rewrite app_nil_r in Hr. exact Hr. }
  assert (Hnorefs : forall rc, In rc chains -> no_refs rc).
  { intros rc Hrc r0 Hin. destruct (Hfrom rc Hrc) as (Hnf & _). rewrite Forall_forall in Hnf. apply (Hnf _ Hin). }
  assert (Hidkey : forall rc, In rc chains -> exists l, al_get ident_eqb (rids_of pool) (ch_id rc) = Some l).
  { intros rc Hrc. destruct (gen_tree_covers _ _ _ _ _ Et rc Hrc (Nat.le_0_l _) (Hnorefs rc Hrc)) as (t' & Hst & Hend).
    destruct (realizes_subtree npc pool _ _ Hst _ _ Hroot) as (k & p' & Hrz).
    inversion Hrz as [? ? ? ? ? g Hg Hpar Hru Hsi _ _]; subst.
    assert (Hex : exists l, al_get ident_eqb (rids_of pool) (ch_id rc) = Some l /\ In (N.of_nat k) l).
    { apply rids_of_in. exists k, g. repeat split; auto. rewrite Hru. apply in_map. exact Hend. }
    destruct Hex as (l & Hl & _). eauto. }
  destruct (fix_all_ok (rids_of pool) pool O) as (nodes & Enodes).
  { intros g k Hg Hk. destruct (proj1 flatten_nodes t None O npc g Hg) as (t' & Hst & (_ & Hsg)).
    rewrite Hsg in Hk. apply in_flat_map in Hk. destruct Hk as (rc & Hrc & Hkrc).
    pose proof (gen_tree_ended_sub _ _ _ _ _ Et t' Hst rc Hrc) as Hrcc.
    destruct (Hfrom rc Hrcc) as (_ & _ & (nr & Hnr & _ & Hsign)). rewrite Hsign in Hkrc. apply in_isort in Hkrc.
    destruct (Hsrc nr Hnr) as (r & d & Hr & (_ & Hsg2 & _) & Hd & (_ & _ & Hsd)).
    assert (Hkd : In k (r_sign d)) by (rewrite <- Hsd, <- Hsg2; exact Hkrc).
    pose proof (Hsigners d k Hd Hkd) as Hdef. apply ref_ok_defined in Hdef. destruct Hdef as [Hkids _].
    apply (proj1 (in_dedup _ ident_eqb_eq _ _)) in Hkids. apply in_map_iff in Hkids. destruct Hkids as (rk & Hidk & Hrk).
    apply Hsin in Hrk. destruct (forall2_in_l _ _ _ _ Hrel Hrk) as (nrk & Hnrk & (Hidnrk & _)).
    destruct (Hhas nrk Hnrk) as (rck & Hrck & Hidrck). destruct (Hidkey rck Hrck) as (l & Hl). exists l. rewrite <- Hidk, <- Hidnrk, <- Hidrck. exact Hl. }
  eexists chains, st, _. split; [exact Echains|]. split; [|exact Hok].
  unfold compile. rewrite Echains. cbn [bind]. rewrite Et. cbn [bind]. fold npc. fold pool. unfold model_of. rewrite Enodes. cbn [bind]. reflexivity.
Qed.

(* ---- what is known of the chains of any schema that gets through the first three passes ----------------------------- *)
Lemma chains_of_facts S chains st : chains_of S = Ok (chains, st) ->
  exists sorted order nrules,
    sort_rule_references S = Ok (sorted, order) /\ gen_pattern_numbers sorted = Ok (nrules, st) /\
    Forall2 (nrule_rel (ns_named st)) sorted nrules /\
    (forall rc, In rc chains -> chain_from nrules rc) /\
    (forall nr, In nr nrules -> exists rc, In rc chains /\ ch_id rc = nr_id nr /\ ch_sign rc = isort str_leb (nr_sign nr)) /\
    (forall r, In r sorted <-> In r (rename_temp_rules 1 S)).
Proof.
  intros Hc. unfold chains_of in Hc.
  destruct (sort_rule_references S) as [[sorted order]|e1] eqn:Es; cbn [bind fst] in Hc; [|discriminate].
  pose proof (sort_rule_references_spec S) as Hs. rewrite Es in Hs. destruct Hs as (_ & _ & _ & _ & Hsin & Hafter & _).
  pose proof (gen_pattern_numbers_spec sorted) as Hn. pose proof (gen_pattern_numbers_rel sorted) as Hrel.
  destruct (gen_pattern_numbers sorted) as [[nrules st']|e2] eqn:En; cbn [bind] in Hc; [|discriminate].
  specialize (Hrel nrules st' eq_refl). destruct Hn as (HI & _).
  destruct (replicate_rules_ok nrules (ns_next_temp st') (refs_earlier_of _ _ _ Hrel Hafter) (ni_temp _ HI)) as (rep & Erep & Hrep & Hkeys).
  rewrite Erep in Hc. cbn [bind] in Hc. inversion Hc; subst chains st'. clear Hc.
  exists sorted, order, nrules. split; [reflexivity|]. split; [exact En|]. split; [exact Hrel|]. split; [|split; [|exact Hsin]].
  - intros rc Hrc. apply in_concat in Hrc. destruct Hrc as (chs & Hchs & Hin). apply in_map_iff in Hchs.
    destruct Hchs as ([id chs'] & <- & Hp). apply (proj1 (in_sort_by_key rep (id, chs'))) in Hp. destruct (Hrep id chs' Hp) as [_ Hall].
    rewrite Forall_forall in Hall. apply Hall, Hin.
  - intros nr Hnr. destruct (Hkeys nr Hnr) as (chs & rc & Hg & Hrc & Hsg). apply al_get_in_pair in Hg. destruct (Hrep _ _ Hg) as [Hne Hall].
    rewrite Forall_forall in Hall. destruct (Hall rc Hrc) as [_ Hid]. exists rc. split; [|split; [exact Hid | exact Hsg]].
    apply in_concat. exists chs. split; [|exact Hrc]. apply in_map_iff. exists (nr_id nr, chs).
    split; [reflexivity | apply (proj2 (in_sort_by_key rep _)); exact Hg].
Qed.

(* ---- unknown signer --------------------------------------------------------------------------------------------------- *)
(* what the lexer produces: no '#' after the first character *)
Definition ident_plain (k : ident) : Prop := ~ In ch_hash (tl k).

Lemma renamed_temp_not_plain r k : is_temp_rule r = true -> ~ ident_plain (r ++ ch_hash :: dec_print k).
Proof.
  intros Ht Hp. apply Hp. destruct r as [|a [|b r]]; cbn in Ht; try discriminate. cbn. right. apply in_or_app. right. left. reflexivity.
Qed.

Lemma rename_bwd_id : forall S k d', In d' (rename_temp_rules k S) ->
  exists d, In d S /\ ((is_temp_rule (r_id d) = false /\ r_id d' = r_id d) \/
                       (is_temp_rule (r_id d) = true /\ exists k', r_id d' = r_id d ++ ch_hash :: dec_print k')).
Proof.
  induction S as [|x S IH]; intros k d' Hin; [destruct Hin|]. cbn [rename_temp_rules] in Hin.
  destruct (is_temp_rule (r_id x)) eqn:Et.
  - destruct Hin as [<-|Hin].
    + exists x. split; [left; reflexivity|]. right. split; [exact Et|]. exists k. reflexivity.
    + destruct (IH (k + 1) d' Hin) as (d & H1 & H2). exists d. split; [right; exact H1 | exact H2].
  - destruct Hin as [<-|Hin].
    + exists x. split; [left; reflexivity|]. left. auto.
    + destruct (IH k d' Hin) as (d & H1 & H2). exists d. split; [right; exact H1 | exact H2].
Qed.


Definition entries_nonempty (r : list (ident * list N)) : Prop := forall id l, al_get ident_eqb r id = Some l -> l <> [].

Lemma rids_add_nonempty r rid v : entries_nonempty r -> entries_nonempty (rids_add r rid v).
Proof.
  intros Hr id l. unfold rids_add. destruct (al_get ident_eqb r rid) as [lx|] eqn:Ex.
  - destruct (list_eq_dec N.eq_dec id rid) as [->|Hne].
    + rewrite al_get_set_same by (unfold al_mem; rewrite Ex; reflexivity). intros H; inversion H. destruct lx; discriminate.
    + rewrite al_get_set_other by congruence. apply Hr.
  - rewrite (al_get_app_none _ _ _ _ Ex). destruct (ident_eqb id rid) eqn:E; [|apply Hr].
    destruct (al_get ident_eqb r id) as [x0|] eqn:Eid; intros H; inversion H; subst; [eapply Hr; eauto | discriminate].
Qed.

Lemma rids_of_nonempty pool : entries_nonempty (rids_of pool).
Proof.
  unfold rids_of.
  assert (G : forall pool0 (s : N * list (ident * list N)), entries_nonempty (snd s) ->
            entries_nonempty (snd (fold_left (fun (s : N * list (ident * list N)) g0 =>
                    (fst s + 1, fold_left (fun r rid => rids_add r rid (fst s)) (g_rule g0) (snd s))) pool0 s))).
  { induction pool0 as [|g0 pool0 IHp]; intros s Hs; cbn [fold_left]; [exact Hs|]. apply IHp. cbn [snd].
    generalize (fst s) as v. intros v. revert Hs. generalize (snd s) as r. generalize (g_rule g0) as rules.
    induction rules as [|x rules IHr]; intros r Hr; cbn [fold_left]; [exact Hr|]. apply IHr. apply rids_add_nonempty, Hr. }
  apply (G pool (0, [])). intros id l H. discriminate.
Qed.

Theorem compile_rejects_unknown_signer S d k :
  In d S -> In k (r_sign d) -> defined S k = false -> ident_plain k -> compile S = Err ESemantic.
Proof.
  intros Hd Hk Hdef Hplain.
  destruct (compile S) as [m|e] eqn:Ec; [|f_equal; eapply compile_err; eauto]. exfalso.
  unfold compile in Ec. destruct (chains_of S) as [[chains st]|e1] eqn:Ech; cbn [bind] in Ec; [|discriminate].
  destruct (chains_of_facts _ _ _ Ech) as (sorted & order & nrules & Es & En & Hrel & Hfrom & Hhas & Hsin).
  destruct (gen_tree (Datatypes.S (max_chain_len chains)) 0 chains []) as [t|] eqn:Et; cbn [bind] in Ec; [|discriminate].
  set (npc := N.of_nat (length (ns_named st))) in *. set (pool := fst (flatten t None O npc)) in *.
  unfold model_of in Ec. destruct (fix_all (rids_of pool) 0 pool) as [nodes|] eqn:Ef; cbn [bind] in Ec; [|discriminate].
  assert (Hroot : realizes npc pool t O None).
  { unfold pool. destruct (flatten t None O npc) as [sub tti'] eqn:Efl. cbn [fst].
    destruct (proj1 (flatten_realizes npc) t [] [] None npc sub tti' Efl (N.le_refl _)) as (Hr & _).
    cbn [app length] in Hr. rewrite app_nil_r in Hr. exact Hr. }
  (* a chain of rule d itself, with k among its signers; it ends at a node of the pool *)
  destruct (rename_fwd _ 1 _ Hd) as (rd & Hrd & ((_ & _ & Hsd) & _)).
  apply Hsin in Hrd. destruct (forall2_in_l _ _ _ _ Hrel Hrd) as (nrd & Hnrd & (_ & Hsgn & _)).
  destruct (Hhas nrd Hnrd) as (rcd & Hrcd & _ & Hsignd).
  assert (Hkin : In k (ch_sign rcd)) by (rewrite Hsignd; apply in_isort; rewrite Hsgn, Hsd; exact Hk).
  assert (Hnoref : no_refs rcd).
  { intros r0 Hin. destruct (Hfrom rcd Hrcd) as (Hnf & _). rewrite Forall_forall in Hnf. apply (Hnf _ Hin). }
  destruct (gen_tree_covers _ _ _ _ _ Et rcd Hrcd (Nat.le_0_l _) Hnoref) as (t' & Hst & Hend).
  destruct (realizes_subtree npc pool _ _ Hst _ _ Hroot) as (j & p' & Hrz).
  inversion Hrz as [? ? ? ? ? g Hg Hpar Hru Hsi _ _]; subst.
  (* fix_all succeeded: k has an entry in rule_node_ids *)
  assert (Hkey : exists l, al_get ident_eqb (rids_of pool) k = Some l).
  { destruct (al_get ident_eqb (rids_of pool) k) as [l|] eqn:El; [eauto|]. exfalso.
    destruct (fix_all_spec _ _ _ _ Ef) as [_ Hall]. destruct (Hall j g Hg) as (nd & sc & _ & Hsc & _).
    assert (Hks : In k (g_sign g)) by (rewrite Hsi; apply in_flat_map; exists rcd; auto).
    clear - Hsc Hks El. unfold sign_lookup in Hsc. revert Hsc. generalize (@nil N). induction (g_sign g) as [|x l IH]; intros acc Hsc; [destruct Hks|].
    cbn in Hsc. destruct Hks as [->|Hks].
    - rewrite El in Hsc. discriminate.
    - destruct (al_get ident_eqb (rids_of pool) x); [|discriminate]. cbn in Hsc. eapply IH; eauto. }
  (* hence a node where a chain with identifier k ends, hence a rule with identifier k *)
  destruct Hkey as (l & Hl).
  assert (Hlne : exists i, In i l).
  { (* entries of rule_node_ids are never empty: use rids_of_in on ... *) 
    destruct l as [|i l]; [|exists i; left; reflexivity]. exfalso. exact (rids_of_nonempty pool k [] Hl eq_refl). }
  destruct Hlne as (i & Hi).
  assert (Hex : exists l', al_get ident_eqb (rids_of pool) k = Some l' /\ In i l') by eauto.
  apply rids_of_in in Hex. destruct Hex as (j' & g' & -> & Hg' & Hkr).
  destruct (proj1 flatten_nodes t None O npc g' (nth_error_In _ _ Hg')) as (t'' & Hst'' & (Hru'' & _)).
  rewrite Hru'' in Hkr. apply in_map_iff in Hkr. destruct Hkr as (rck & Hidk & Hrck).
  pose proof (gen_tree_ended_sub _ _ _ _ _ Et t'' Hst'' rck Hrck) as Hrckc.
  destruct (Hfrom rck Hrckc) as (_ & _ & (nrk & Hnrk & Hidnrk & _)).
  destruct (forall2_in_r _ _ _ _ Hrel Hnrk) as (rk & Hrk & (Hidrk & _)).
  apply Hsin in Hrk. destruct (rename_bwd_id _ _ _ Hrk) as (d0 & Hd0 & [[Ht0 Hid0]|[Ht0 (k' & Hid0)]]).
  - (* an ordinary rule with identifier k: then k is defined *)
    assert (Hdk : defined S k = true).
    { apply defined_spec. assert (Ek : r_id d0 = k) by congruence. split; [rewrite <- Ek; exact Ht0 | exists d0; auto]. }
    congruence.
  - (* a renamed temporary rule: its identifier contains '#' *)
    assert (Ek : k = r_id d0 ++ ch_hash :: dec_print k') by congruence.
    rewrite Ek in Hplain. exact (renamed_temp_not_plain _ _ Ht0 Hplain).
Qed.
