(* T1 tie for C09: the constants reflected from ndn.encoding.name on this run are the ones the
   hand-written model (Model/Name.v) uses. *)
From NDN Require Import Base.Prelude Base.Text Model.Name Proofs.TextProofs.
From NDN Require Generated.ConstsName.
Module G := Generated.ConstsName.
Local Open Scope N_scope.

Lemma charset_small : forallb (fun c => c <? 128) G.charset_codes = true.
Proof. vm_compute. reflexivity. Qed.

Lemma charset_agree_bytes :
  forallb (fun c => Bool.eqb (in_charset c) (existsb (N.eqb c) G.charset_codes)) all_bytes = true.
Proof. vm_compute. reflexivity. Qed.

Theorem charset_agree c : in_charset c = existsb (N.eqb c) G.charset_codes.
Proof.
  destruct (N.ltb_spec c 256) as [H|H].
  - apply Bool.eqb_prop. apply (byte_forall _ charset_agree_bytes c H).
  - transitivity false.
    + unfold in_charset, is_alpha, is_digit. lia.
    + symmetry. apply not_true_is_false. intros E. apply existsb_exists in E. destruct E as (x & Hx & Ex).
      apply N.eqb_eq in Ex. subst x. pose proof charset_small as S. rewrite forallb_forall in S.
      specialize (S c Hx). lia.
Qed.

Theorem type_consts_agree :
  G.TYPE_GENERIC = TYPE_GENERIC /\ G.TYPE_IMPLICIT_SHA256 = TYPE_IMPLICIT_SHA256 /\
  G.TYPE_PARAMETERS_SHA256 = TYPE_PARAMETERS_SHA256 /\ G.TYPE_NAME = TYPE_NAME /\
  G.MAX_COMPONENT_TYPE_VALUE = MAX_COMPONENT_TYPE /\ G.TYPE_INVALID = 0.
Proof. repeat split; reflexivity. Qed.

Theorem alt_uri_agree :
  G.alternate_uri_str = alt_uri /\ G.alternate_uri_type = map (fun p => (snd p, fst p)) alt_uri.
Proof. split; reflexivity. Qed.
