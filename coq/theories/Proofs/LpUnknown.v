(* C10, part 1 (generic, any descriptor): with ignore_critical the scan loop skips EVERY element whose
   Type the level does not recognise — critical or not, at any position, any number of them — and the
   outer Type/Length check of a packet is transparent on a well-formed element. *)
From NDN Require Import Base.Prelude Model.TlvVar Model.Name Model.Tlv Spec.TlvWf
  Proofs.BytesLemmas Proofs.TlvVarProofs Proofs.TlvSplit Proofs.TlvMore.
Local Open Scope N_scope.

Arguments N.of_nat : simpl never.
Arguments N.to_nat : simpl never.

(* ---- the outer Type/Length check ------------------------------------------------------------ *)
Lemma pact_tlv t body :
  t < two64 -> N.of_nat (length body) < two64 -> parse_and_check_tl (tlv t body) t = Ok body.
Proof.
  intros Ht Hl. unfold parse_and_check_tl, tlv.
  rewrite tl_dec_enc by exact Ht. cbn [bind].
  rewrite skipn_app_exact' by (symmetry; apply tl_enc_length).
  rewrite tl_dec_enc by exact Hl. cbn [bind].
  rewrite N.eqb_refl. cbn [negb].
  rewrite !app_length, !tl_enc_length.
  replace (N.of_nat (tl_size t + (tl_size (N.of_nat (length body)) + length body)) =?
           N.of_nat (tl_size t + tl_size (N.of_nat (length body))) + N.of_nat (length body)) with true
    by (symmetry; apply N.eqb_eq; lia).
  cbn [negb]. f_equal.
  rewrite app_assoc. apply skipn_app_exact'. rewrite app_length, !tl_enc_length. reflexivity.
Qed.

(* ---- unrecognised elements under ignore_critical ------------------------------------------------ *)
Definition known (fs : list field) (e : elem) : bool := existsb (N.eqb (e_type e)) (level_types fs).

Lemma known_false fs e : known fs e = false -> ~ In (e_type e) (level_types fs).
Proof.
  intros H Hin. unfold known in H.
  assert (existsb (N.eqb (e_type e)) (level_types fs) = true) as E
    by (apply existsb_exists; exists (e_type e); split; [exact Hin|apply N.eqb_refl]).
  congruence.
Qed.

Lemma assign_skip_unknown_ic pv fs e0 b st pos acc :
  ~ In (e_type e0) (level_types fs) -> st_ok fs st ->
  assign_with pv fs true st pos (e0 :: b) acc = assign_with pv fs true st pos b acc.
Proof.
  intros Hun Hst. cbn [assign_with]. destruct st as [|i key vt vk].
  - rewrite find_from_none; [rewrite andb_false_r; reflexivity|].
    intros Hin. apply Hun. apply in_map_iff in Hin. destruct Hin as ([t k] & Et & Hin). cbn in Et. subst.
    eapply level_types_field. exact Hin.
  - cbn in Hst. replace (e_type e0 =? vt) with false
      by (symmetry; apply N.eqb_neq; intros E; apply Hun; rewrite E; exact Hst).
    rewrite andb_false_r. reflexivity.
Qed.

(* one step of the loop on a common head: the tails may be exchanged if they are equivalent *)
Lemma assign_cons_congr pv fs ic e a b :
  (forall st pos acc, st_ok fs st -> assign_with pv fs ic st pos a acc = assign_with pv fs ic st pos b acc) ->
  forall st pos acc, st_ok fs st ->
  assign_with pv fs ic st pos (e :: a) acc = assign_with pv fs ic st pos (e :: b) acc.
Proof.
  intros H st pos acc Hst. cbn [assign_with]. destruct st as [|i key vt vk].
  - destruct (find_from fs 0 pos (e_type e)) as [[i k]|] eqn:Ef.
    + pose proof (find_from_some_in _ _ _ _ _ _ Ef) as Hin.
      destruct k; try (destruct (pv _ e); cbn [bind]; [apply H; exact I|reflexivity]).
      destruct (pv k1 e); cbn [bind]; [|reflexivity]. apply H. cbn. eapply level_types_vt. exact Hin.
    + destruct (N.odd (e_type e) && negb ic); [reflexivity|]. apply H. exact I.
  - destruct (e_type e =? vt).
    + destruct (pv vk e); cbn [bind]; [apply H; exact I|reflexivity].
    + destruct (N.odd (e_type e) && negb ic); [reflexivity|]. apply H. exact Hst.
Qed.

(* the scan of a level sees only the elements whose Type it recognises *)
Theorem assign_filter_known pv fs els :
  forall st pos acc, st_ok fs st ->
  assign_with pv fs true st pos els acc = assign_with pv fs true st pos (filter (known fs) els) acc.
Proof.
  induction els as [|e els IH]; intros st pos acc Hst; [reflexivity|].
  cbn [filter]. destruct (known fs e) eqn:K.
  - apply assign_cons_congr; [exact IH|exact Hst].
  - rewrite assign_skip_unknown_ic by (try apply known_false; assumption). apply IH. exact Hst.
Qed.

(* [b] is [a] with unrecognised elements inserted anywhere *)
Inductive with_unknown (fs : list field) : list elem -> list elem -> Prop :=
| wu_nil : with_unknown fs [] []
| wu_keep e a b : with_unknown fs a b -> with_unknown fs (e :: a) (e :: b)
| wu_ins e a b : known fs e = false -> with_unknown fs a b -> with_unknown fs a (e :: b).

Lemma with_unknown_refl fs a : with_unknown fs a a.
Proof. induction a; constructor; assumption. Qed.

Lemma with_unknown_filter fs a b : with_unknown fs a b -> filter (known fs) b = filter (known fs) a.
Proof.
  induction 1 as [|e a b _ IH|e a b K _ IH]; [reflexivity| |].
  - cbn [filter]. rewrite IH. reflexivity.
  - cbn [filter]. rewrite K. exact IH.
Qed.

Theorem assign_with_unknown pv fs a b :
  with_unknown fs a b -> forall st pos acc, st_ok fs st ->
  assign_with pv fs true st pos b acc = assign_with pv fs true st pos a acc.
Proof.
  intros H st pos acc Hst.
  rewrite (assign_filter_known pv fs b) by exact Hst.
  rewrite (assign_filter_known pv fs a) by exact Hst.
  rewrite (with_unknown_filter _ _ _ H). reflexivity.
Qed.

(* ---- on wires ------------------------------------------------------------------------------------ *)
Lemma el_ok_filter f els : Forall el_ok els -> Forall el_ok (filter f els).
Proof.
  induction 1 as [|e els He _ IH]; [constructor|]. cbn [filter]. destruct (f e); [constructor|]; assumption.
Qed.

Lemma with_unknown_el_ok fs a b : with_unknown fs a b -> Forall el_ok b -> Forall el_ok a.
Proof.
  induction 1 as [|e a b _ IH|e a b _ _ IH]; intros H; [constructor| |].
  - inversion H; subst. constructor; [assumption|apply IH; assumption].
  - inversion H; subst. apply IH. assumption.
Qed.

Theorem parse_model_filter_known d fs els :
  Forall el_ok els ->
  parse_model d fs true (ser_els els) = parse_model d fs true (ser_els (filter (known fs) els)).
Proof.
  intros H. unfold parse_model.
  rewrite (split_wire_ser els H), (split_wire_ser _ (el_ok_filter (known fs) els H)). cbn [bind].
  apply assign_filter_known. exact I.
Qed.

Theorem parse_model_with_unknown d fs a b :
  with_unknown fs a b -> Forall el_ok b ->
  parse_model d fs true (ser_els b) = parse_model d fs true (ser_els a).
Proof.
  intros Hw Hb. unfold parse_model.
  rewrite (split_wire_ser b Hb), (split_wire_ser a (with_unknown_el_ok _ _ _ Hw Hb)). cbn [bind].
  apply assign_with_unknown; [exact Hw|exact I].
Qed.

Lemma ser_els_with_unknown_length fs a b :
  with_unknown fs a b -> (length (ser_els a) <= length (ser_els b))%nat.
Proof.
  induction 1 as [|e a b _ IH|e a b _ _ IH]; [lia| |];
    unfold ser_els in *; cbn [map concat]; rewrite ?app_length; lia.
Qed.
