(* T1 tie for C20: what tools/gen_consts_conf.py reflected from ndn.platform / ndn.client_conf /
   the face classes on this run is what the hand-written model uses. *)
From NDN Require Import Base.Prelude Base.Text Model.ConfBase Model.ClientConf Spec.ClientConfSpec.
From NDN Require Generated.ConstsConf.
From Coq Require Strings.String Strings.Ascii.
Import Coq.Strings.String.StringSyntax Coq.Strings.Ascii.AsciiSyntax.
Module G := Generated.ConstsConf.
Local Open Scope N_scope.

(* Platform() under HOME = G.home: every answer that does not depend on the file system *)
Theorem platform_agree (ex : str -> bool) :
  let P := linux_platform G.home ex in
  client_conf_paths P = G.client_conf_paths /\
  default_pib_scheme P = G.default_pib_scheme /\ default_pib_paths P = G.default_pib_paths /\
  default_tpm_scheme P = G.default_tpm_scheme /\ default_tpm_paths P = G.default_tpm_paths.
Proof. repeat split; reflexivity. Qed.

(* the model's platform for a world whose HOME is G.home *)
Theorem home_agree ex files pw extra :
  user_home (mk_world ((slit "HOME", G.home) :: extra) ex files pw) = G.home.
Proof. reflexivity. Qed.

(* default_transport() for the four answers os.path.exists can give about the two NFD sockets *)
Definition sock_fs (new old : bool) (p : str) : bool :=
  if str_eqb p (slit "/run/nfd/nfd.sock") then new else if str_eqb p (slit "/run/nfd.sock") then old else false.

Theorem transport_agree :
  map (fun ab => (ab, linux_default_transport (sock_fs (fst ab) (snd ab))))
      [(false, false); (false, true); (true, false); (true, true)] = G.default_transport_table.
Proof. vm_compute. reflexivity. Qed.

Theorem keys_agree :
  G.conf_keys = [key_transport; key_pib; key_tpm] /\
  map env_name G.conf_keys = map (fun k => G.env_prefix ++ upper k) G.conf_keys /\
  map env_name G.conf_keys = [slit "NDN_CLIENT_TRANSPORT"; slit "NDN_CLIENT_PIB"; slit "NDN_CLIENT_TPM"].
Proof. repeat split; reflexivity. Qed.

Theorem face_consts_agree :
  G.unix_face_default_path = unix_default_path /\ G.tcp_face_default_host = tcp_default_host /\
  G.default_face_port = default_port /\ G.default_face_port = spec_default_port /\
  G.udp_face_default_port = default_port /\ G.tcp_face_default_port = default_port.
Proof. repeat split; reflexivity. Qed.

(* the scheme literals compared in default_face are exactly the keys of the specification's table *)
Theorem schemes_agree :
  G.default_face_schemes = [slit "tcp"; slit "tcp4"; slit "tcp6"; slit "udp"; slit "udp4"; slit "udp6"; slit "unix"] /\
  forallb (fun s => existsb (str_eqb s) G.default_face_schemes) (map fst scheme_table) = true /\
  forallb (fun s => match scheme_kind s with Some _ => true | None => false end) G.default_face_schemes = true.
Proof. repeat split; vm_compute; reflexivity. Qed.

Theorem keychain_literals_agree :
  G.default_keychain_literals = [slit "pib-sqlite3"; slit "tpm-cng"; slit "tpm-file"; slit "tpm-osxkeychain"].
Proof. reflexivity. Qed.
