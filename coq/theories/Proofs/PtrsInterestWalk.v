(* The walk of Model/PacketPtrs.v over the reflected declared order of InterestPacketValue. *)
From NDN Require Import Base.Prelude Model.TlvVar Model.Tlv Model.PacketPtrs Spec.SignedPortion
  Proofs.BytesLemmas Proofs.PtrsSpecView Proofs.PtrsSplit Proofs.PtrsData.
From NDN Require Generated.Schemas.
Local Open Scope N_scope.
Set Default Timeout 900.
Arguments N.of_nat : simpl never.
Arguments N.to_nat : simpl never.

Definition LI : layout := Generated.Schemas.ndn_format_0_3_InterestPacketValue_layout.

(* index of the wire field of Type t in the declared order *)
Definition fidxI (t : N) : option nat :=
  if 7 =? t then Some 0%nat else if 33 =? t then Some 1%nat else if 18 =? t then Some 2%nat
  else if 30 =? t then Some 3%nat else if 10 =? t then Some 4%nat else if 12 =? t then Some 5%nat
  else if 34 =? t then Some 6%nat else if 36 =? t then Some 9%nat else if 44 =? t then Some 10%nat
  else if 46 =? t then Some 11%nat else None.

Ltac dpos pos := destruct pos as [|[|[|[|[|[|[|[|[|[|[|[|[|pos]]]]]]]]]]]]].

Lemma ffI pos t :
  find_field LI 0 pos t = match fidxI t with Some i => if (pos <=? i)%nat then Some i else None | None => None end.
Proof.
  unfold LI, Generated.Schemas.ndn_format_0_3_InterestPacketValue_layout, fidxI. cbn [find_field].
  destruct (N.eqb_spec 7 t) as [<-|N1]; [dpos pos; reflexivity|].
  destruct (N.eqb_spec 33 t) as [<-|N2]; [dpos pos; reflexivity|].
  destruct (N.eqb_spec 18 t) as [<-|N3]; [dpos pos; reflexivity|].
  destruct (N.eqb_spec 30 t) as [<-|N4]; [dpos pos; reflexivity|].
  destruct (N.eqb_spec 10 t) as [<-|N5]; [dpos pos; reflexivity|].
  destruct (N.eqb_spec 12 t) as [<-|N6]; [dpos pos; reflexivity|].
  destruct (N.eqb_spec 34 t) as [<-|N7]; [dpos pos; reflexivity|].
  destruct (N.eqb_spec 36 t) as [<-|N8]; [dpos pos; reflexivity|].
  destruct (N.eqb_spec 44 t) as [<-|N9]; [dpos pos; reflexivity|].
  destruct (N.eqb_spec 46 t) as [<-|N10]; dpos pos; reflexivity.
Qed.

Lemma fidxI_range t i : fidxI t = Some i -> (i <= 6 \/ 9 <= i <= 11)%nat.
Proof.
  unfold fidxI.
  repeat match goal with |- context [if ?a =? t then _ else _] => destruct (a =? t); [intros H; inversion H; lia|] end.
  discriminate.
Qed.
Lemma fidxI_7 t : fidxI t = Some 0%nat <-> t = 7.
Proof.
  unfold fidxI. destruct (N.eqb_spec 7 t) as [<-|N1]; [split; reflexivity|].
  split; [|intros ->; contradiction].
  repeat match goal with |- context [if ?a =? t then _ else _] => destruct (a =? t); [discriminate|] end. discriminate.
Qed.
Lemma fidxI_hi t i : fidxI t = Some i -> (9 <= i)%nat -> t = 36 \/ t = 44 \/ t = 46.
Proof.
  unfold fidxI.
  destruct (7 =? t); [intros H; inversion H; lia|]. destruct (33 =? t); [intros H; inversion H; lia|].
  destruct (18 =? t); [intros H; inversion H; lia|]. destruct (30 =? t); [intros H; inversion H; lia|].
  destruct (10 =? t); [intros H; inversion H; lia|]. destruct (12 =? t); [intros H; inversion H; lia|].
  destruct (34 =? t); [intros H; inversion H; lia|].
  destruct (N.eqb_spec 36 t); [auto|]. destruct (N.eqb_spec 44 t); [auto|]. destruct (N.eqb_spec 46 t); [auto|discriminate].
Qed.
Lemma fidxI_36 : fidxI 36 = Some 9%nat. Proof. reflexivity. Qed.
Lemma fidxI_46 : fidxI 46 = Some 11%nat. Proof. reflexivity. Qed.
Lemma fidxI_7' : fidxI 7 = Some 0%nat. Proof. reflexivity. Qed.
Lemma fidxI_le t i : fidxI t = Some i -> (i <= 11)%nat.
Proof. intros H. destruct (fidxI_range _ _ H); lia. Qed.
Lemma fidxI_11 t : fidxI t = Some 11%nat -> t = 46.
Proof.
  unfold fidxI.
  repeat match goal with |- context [if ?a =? t then _ else _] =>
    destruct (N.eqb_spec a t); [intros H; inversion H; try lia; congruence|] end. discriminate.
Qed.

Definition MK (idx : nat) : list (N * nat) := [(2, idx); (1, idx)].

Lemma smI pos i idx marks : (i <= 11)%nat ->
  set_marks LI 0 pos i idx marks =
  let m1 := if (pos <=? 7)%nat && (7 <? i)%nat then (1, idx) :: marks else marks in
  if (pos <=? 8)%nat && (8 <? i)%nat then (2, idx) :: m1 else m1.
Proof.
  intros Hi. unfold LI, Generated.Schemas.ndn_format_0_3_InterestPacketValue_layout. cbn [set_marks].
  destruct (Nat.ltb_spec 12 i); [lia|]. rewrite Bool.andb_false_r. reflexivity.
Qed.
Lemma smI_low pos i idx marks : (i <= 6)%nat -> set_marks LI 0 pos i idx marks = marks.
Proof.
  intros Hi. rewrite smI by lia. cbv zeta.
  destruct (Nat.ltb_spec 7 i); [lia|]. destruct (Nat.ltb_spec 8 i); [lia|]. rewrite !Bool.andb_false_r. reflexivity.
Qed.
Lemma smI_hi pos i idx : (pos <= 7)%nat -> (9 <= i <= 11)%nat -> set_marks LI 0 pos i idx [] = MK idx.
Proof.
  intros Hp Hi. rewrite smI by lia. cbv zeta.
  destruct (Nat.ltb_spec 7 i); [|lia]. destruct (Nat.ltb_spec 8 i); [|lia].
  destruct (Nat.leb_spec pos 7); [|lia]. destruct (Nat.leb_spec pos 8); [|lia]. reflexivity.
Qed.
Lemma smI_fixed pos i idx marks : (9 <= pos)%nat -> (i <= 11)%nat -> set_marks LI 0 pos i idx marks = marks.
Proof.
  intros Hp Hi. rewrite smI by lia. cbv zeta.
  destruct (Nat.leb_spec pos 7); [lia|]. destruct (Nat.leb_spec pos 8); [lia|]. reflexivity.
Qed.

Lemma find_I pos t i : find_field LI 0 pos t = Some i -> fidxI t = Some i /\ (pos <= i)%nat.
Proof.
  rewrite ffI. destruct (fidxI t) as [j|]; [|discriminate]. destruct (Nat.leb_spec pos j); [|discriminate].
  intros HH; inversion HH; subst. split; [reflexivity|assumption].
Qed.

(* generic: events carry Types of the elements walked over *)
Lemma event_types_gen lay : forall ts idx pos marks ev,
  walk lay idx ts pos marks = Ok ev -> Forall (fun e => In (snd (fst e)) ts) ev.
Proof.
  induction ts as [|t r IH]; intros idx pos marks ev H; [inversion H; constructor|].
  cbn [walk] in H. destruct (find_field lay 0 pos t) as [i|] eqn:F.
  - destruct (walk lay (S idx) r (S i) _) as [rest|] eqn:W; [|discriminate]. inversion H; subst.
    constructor; [left; reflexivity|]. eapply Forall_impl; [|eapply IH; exact W]. intros e He; right; exact He.
  - destruct (N.odd t); [discriminate|]. eapply Forall_impl; [|eapply IH; exact H]. intros e He; right; exact He.
Qed.
Lemma event_of_none t ts ev : Forall (fun e : nat * N * list (N * nat) => In (snd (fst e)) ts) ev -> ~ In t ts -> event_of t ev = None.
Proof.
  induction 1 as [|[[i t'] m] ev Hin _ IH]; intros Hn; [reflexivity|]. cbn [event_of]. cbn [fst snd] in Hin.
  destruct (N.eqb_spec t' t) as [->|]; [contradiction|]. apply IH; exact Hn.
Qed.
Lemma idx_of_none t ts : ~ In t ts -> idx_of t ts = None.
Proof.
  induction ts as [|t' r IH]; intros Hn; [reflexivity|]. cbn [idx_of].
  destruct (N.eqb_spec t' t) as [->|]; [exfalso; apply Hn; left; reflexivity|].
  rewrite IH; [reflexivity|]. intros Hin; apply Hn; right; exact Hin.
Qed.

(* once any field has been filled, a Name element is refused *)
Lemma walkI_no_name : forall ts idx pos marks ev,
  walk LI idx ts pos marks = Ok ev -> (1 <= pos)%nat -> ~ In 7 ts.
Proof.
  induction ts as [|t r IH]; intros idx pos marks ev H Hp; [intros []|].
  cbn [walk] in H. intros [E|Hin].
  - subst t. rewrite ffI in H. cbn [fidxI N.eqb Pos.eqb] in H. destruct (Nat.leb_spec pos 0); [lia|]. discriminate.
  - destruct (find_field LI 0 pos t) as [i|] eqn:F.
    + destruct (walk LI (S idx) r (S i) _) as [rest|] eqn:W; [|discriminate].
      eapply IH; [exact W|lia|exact Hin].
    + destruct (N.odd t); [discriminate|]. eapply IH; [exact H|exact Hp|exact Hin].
Qed.

Lemma walkI_marks_fixed : forall ts idx pos marks ev,
  walk LI idx ts pos marks = Ok ev -> (9 <= pos)%nat -> Forall (fun e => snd e = marks) ev.
Proof.
  induction ts as [|t r IH]; intros idx pos marks ev H Hp; [inversion H; constructor|].
  cbn [walk] in H. destruct (find_field LI 0 pos t) as [i|] eqn:F.
  - destruct (find_I _ _ _ F) as (Fi & Hpi). pose proof (fidxI_le _ _ Fi).
    rewrite smI_fixed in H by lia.
    destruct (walk LI (S idx) r (S i) marks) as [rest|] eqn:W; [|discriminate]. inversion H; subst.
    constructor; [reflexivity|]. eapply IH; [exact W|lia].
  - destruct (N.odd t); [discriminate|]. eapply IH; [exact H|exact Hp].
Qed.

(* the first Name element is the one assigned to the Name field *)
Lemma walkI_name_event : forall ts idx marks ev,
  walk LI idx ts 0 marks = Ok ev ->
  match idx_of 7 ts with
  | Some k => exists m, event_of 7 ev = Some ((idx + k)%nat, m)
  | None => event_of 7 ev = None
  end.
Proof.
  induction ts as [|t r IH]; intros idx marks ev H; [inversion H; reflexivity|].
  cbn [walk] in H. cbn [idx_of].
  destruct (N.eqb_spec t 7) as [->|N7].
  - rewrite ffI in H. cbn [fidxI N.eqb Pos.eqb Nat.leb] in H.
    destruct (walk LI (S idx) r 1 _) as [rest|] eqn:W; [|discriminate]. inversion H; subst.
    eexists. cbn [event_of N.eqb Pos.eqb]. rewrite Nat.add_0_r. reflexivity.
  - destruct (find_field LI 0 0 t) as [i|] eqn:F.
    + destruct (walk LI (S idx) r (S i) _) as [rest|] eqn:W; [|discriminate]. inversion H; subst.
      pose proof (walkI_no_name _ _ _ _ _ W ltac:(lia)) as Hn.
      rewrite (idx_of_none _ _ Hn). cbn [option_map event_of].
      destruct (N.eqb_spec t 7); [contradiction|].
      apply (event_of_none 7 r); [eapply event_types_gen; exact W|exact Hn].
    + destruct (N.odd t); [discriminate|]. specialize (IH (S idx) marks ev H).
      destruct (idx_of 7 r) as [k|]; cbn [option_map].
      * destruct IH as (m & Hm). exists m. rewrite Hm. f_equal. f_equal. lia.
      * exact IH.
Qed.

(* the first InterestSignatureValue element is the one assigned to the field *)
Lemma walkI_sig_event : forall ts idx pos marks ev,
  walk LI idx ts pos marks = Ok ev -> (pos <= 11)%nat ->
  match idx_of 46 ts with
  | Some k => exists m, event_of 46 ev = Some ((idx + k)%nat, m)
  | None => event_of 46 ev = None
  end.
Proof.
  induction ts as [|t r IH]; intros idx pos marks ev H Hp; [inversion H; reflexivity|].
  cbn [walk] in H. cbn [idx_of].
  destruct (N.eqb_spec t 46) as [->|N46].
  - rewrite ffI in H. rewrite fidxI_46 in H. destruct (Nat.leb_spec pos 11); [|lia].
    destruct (walk LI (S idx) r 12 _) as [rest|] eqn:W; [|discriminate]. inversion H; subst.
    eexists. cbn [event_of N.eqb Pos.eqb]. rewrite Nat.add_0_r. reflexivity.
  - destruct (find_field LI 0 pos t) as [i|] eqn:F.
    + destruct (walk LI (S idx) r (S i) _) as [rest|] eqn:W; [|discriminate]. inversion H; subst.
      destruct (find_I _ _ _ F) as (Fi & Hpi). pose proof (fidxI_le _ _ Fi) as Hle.
      assert (Hi : (S i <= 11)%nat).
      { destruct (Nat.eq_dec i 11) as [->|]; [|lia]. apply fidxI_11 in Fi. congruence. }
      specialize (IH (S idx) (S i) _ _ W Hi). cbn [event_of].
      destruct (N.eqb_spec t 46); [contradiction|].
      destruct (idx_of 46 r) as [k|]; cbn [option_map].
      * destruct IH as (m & Hm). exists m. rewrite Hm. f_equal. f_equal. lia.
      * exact IH.
    + destruct (N.odd t); [discriminate|]. specialize (IH (S idx) pos _ _ H Hp).
      destruct (idx_of 46 r) as [k|]; cbn [option_map].
      * destruct IH as (m & Hm). exists m. rewrite Hm. f_equal. f_equal. lia.
      * exact IH.
Qed.

(* when ApplicationParameters is the first of {ApplicationParameters, SignatureInfo, SignatureValue}, both start
   markers record exactly that element, and nothing changes them afterwards *)
Lemma walkI_split : forall ts idx pos ev k,
  walk LI idx ts pos [] = Ok ev -> (pos <= 7)%nat ->
  idx_of 36 ts = Some k -> (forall x, In x (firstn k ts) -> x <> 44 /\ x <> 46) ->
  exists ev1 ev2, ev = ev1 ++ ((idx + k)%nat, 36, MK (idx + k)) :: ev2 /\
                  Forall (fun e => snd e = [] /\ In (snd (fst e)) (firstn k ts)) ev1 /\
                  Forall (fun e => snd e = MK (idx + k)) ev2.
Proof.
  induction ts as [|t r IH]; intros idx pos ev k H Hp Hk Hno; [discriminate|].
  cbn [walk] in H. cbn [idx_of] in Hk.
  destruct (N.eqb_spec t 36) as [->|N36].
  - inversion Hk; subst k. rewrite ffI, fidxI_36 in H. destruct (Nat.leb_spec pos 9); [|lia].
    rewrite smI_hi in H by lia.
    destruct (walk LI (S idx) r 10 (MK idx)) as [rest|] eqn:W; [|discriminate]. inversion H; subst.
    exists [], rest. rewrite Nat.add_0_r. split; [reflexivity|]. split; [constructor|].
    eapply walkI_marks_fixed; [exact W|lia].
  - destruct (idx_of 36 r) as [k'|] eqn:R36; [|discriminate]. inversion Hk; subst k. clear Hk.
    assert (Hno' : forall x, In x (firstn k' r) -> x <> 44 /\ x <> 46) by (intros x Hx; apply Hno; right; exact Hx).
    destruct (Hno t ltac:(left; reflexivity)) as (N44 & N46).
    destruct (find_field LI 0 pos t) as [i|] eqn:F.
    + destruct (find_I _ _ _ F) as (Fi & Hpi).
      assert (Hi : (i <= 6)%nat).
      { destruct (fidxI_range _ _ Fi) as [|Hhi]; [assumption|].
        destruct (fidxI_hi _ _ Fi ltac:(lia)) as [|[|]]; congruence. }
      rewrite smI_low in H by lia.
      destruct (walk LI (S idx) r (S i) []) as [rest|] eqn:W; [|discriminate]. inversion H; subst.
      destruct (IH (S idx) (S i) rest k' W ltac:(lia) eq_refl Hno') as (ev1 & ev2 & E & F1 & F2).
      exists ((idx, t, []) :: ev1), ev2.
      replace (idx + S k')%nat with (S idx + k')%nat by lia.
      split; [rewrite E; reflexivity|]. split; [|exact F2].
      constructor; [split; [reflexivity|left; reflexivity]|].
      eapply Forall_impl; [|exact F1]. intros e (A & B). split; [exact A|right; exact B].
    + destruct (N.odd t); [discriminate|].
      destruct (IH (S idx) pos ev k' H Hp eq_refl Hno') as (ev1 & ev2 & E & F1 & F2).
      exists ev1, ev2. replace (idx + S k')%nat with (S idx + k')%nat by lia.
      split; [exact E|]. split; [|exact F2].
      eapply Forall_impl; [|exact F1]. intros e (A & B). split; [exact A|right; exact B].
Qed.

Lemma last_marks_app m0 ev1 e ev2 : Forall (fun x : nat * N * list (N * nat) => snd x = snd e) ev2 ->
  last_marks m0 (ev1 ++ e :: ev2) = snd e.
Proof.
  revert m0. induction ev1 as [|[[i t] m] ev1 IH]; intros m0 H.
  - cbn [app]. destruct e as [[i t] m]. cbn [last_marks snd]. clear -H. revert m H.
    induction ev2 as [|[[i' t'] m'] ev2 IH]; intros m H; [reflexivity|].
    inversion H as [|? ? A B]; subst. cbn [snd] in A. subst m'. cbn [last_marks]. apply IH. exact B.
  - cbn [app last_marks]. apply IH. exact H.
Qed.

Lemma event_of_app_skip t ev1 e ev2 :
  Forall (fun x : nat * N * list (N * nat) => snd (fst x) <> t) ev1 -> snd (fst e) <> t ->
  event_of t (ev1 ++ e :: ev2) = event_of t ev2.
Proof.
  induction 1 as [|[[i t'] m] ev1 A _ IH]; intros He.
  - destruct e as [[i t'] m]. cbn [app event_of]. cbn [fst snd] in He. destruct (N.eqb_spec t' t); [contradiction|reflexivity].
  - cbn [app event_of]. cbn [fst snd] in A. destruct (N.eqb_spec t' t); [contradiction|]. apply IH. exact He.
Qed.
