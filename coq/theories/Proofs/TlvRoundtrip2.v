(* C08 core, part 2: shape of the encoder output and the round-trip theorem. *)
From NDN Require Import Base.Prelude Base.Utf8 Model.TlvVar Model.Name Model.Tlv Spec.TlvWf
  Proofs.BytesLemmas Proofs.TlvVarProofs Proofs.NameWire Proofs.TlvSplit Proofs.TlvAssign Proofs.TlvRoundtrip.
Local Open Scope N_scope.

Arguments N.pow : simpl never.
Arguments N.mul : simpl never.
Arguments N.add : simpl never.
Arguments N.of_nat : simpl never.
Arguments N.to_nat : simpl never.
Arguments N.min : simpl never.

Definition P (d : nat) : Prop :=
  forall t k v w, wfk t k -> fits k v -> enc_val d t k v = Ok w -> N.of_nat (length w) < two64 ->
  exists els, w = ser_els els /\ good (parse_val d) t k v els.

Lemma enc_val_none d t k : enc_val (S d) t k VNone = Ok [].
Proof. destruct k; reflexivity. Qed.

Lemma ser_single e : ser_els [e] = tlv (e_type e) (e_payload e).
Proof. unfold ser_els, ser_elem. cbn. apply app_nil_r. Qed.

(* a single element: build the [good] witness from the three facts *)
Lemma good_single_intro pv t k v p :
  single k = true -> v <> VNone -> t < two64 -> N.of_nat (length p) < two64 ->
  pv k (Elem t (N.of_nat (length p)) p) = Ok v ->
  exists els, tlv t p = ser_els els /\ good pv t k v els.
Proof.
  intros Hs Hv Ht Hl Hp. exists [Elem t (N.of_nat (length p)) p]. split; [rewrite ser_single; reflexivity|].
  apply good_single; [exact Hs|exact Hv|]. split; [reflexivity|]. split; [|exact Hp].
  repeat split; assumption.
Qed.

Lemma tlv_len_bound t p : N.of_nat (length (tlv t p)) < two64 -> N.of_nat (length p) < two64.
Proof. rewrite tlv_length. lia. Qed.

(* fields of one model level *)
Lemma enc_fields_good d : P d ->
  forall fs vs w, (forall t k, In (t, k) fs -> wfk t k) -> Forall2 (fun f v => fits (snd f) v) fs vs ->
  enc_fields_with (enc_val d) fs vs = Ok w -> N.of_nat (length w) < two64 ->
  exists items, map it_field items = fs /\ map it_value items = vs /\
                w = ser_els (concat (map it_els items)) /\ Forall (item_good (parse_val d)) items.
Proof.
  intros HP fs vs w Hwf HF. revert w. induction HF as [|[t k] v fs vs Hfit _ IH]; intros w He Hl.
  - cbn in He. inversion He; subst. exists []. repeat split; constructor.
  - cbn [enc_fields_with] in He. cbn [snd] in Hfit.
    destruct (enc_val d t k v) as [a|] eqn:Ea; [|discriminate]. cbn [bind] in He.
    destruct (enc_fields_with (enc_val d) fs vs) as [r|] eqn:Er; [|discriminate]. cbn [bind] in He.
    inversion He; subst w. rewrite app_length in Hl.
    destruct (HP t k v a (Hwf t k (or_introl eq_refl)) Hfit Ea ltac:(lia)) as (els & -> & Hg).
    destruct (IH (fun t' k' H => Hwf t' k' (or_intror H)) r eq_refl ltac:(lia)) as (items & E1 & E2 & -> & Hgs).
    exists (((t, k), v, els) :: items). cbn [map it_field it_value it_els fst snd concat].
    rewrite E1, E2. repeat split; try reflexivity.
    + rewrite ser_els_app. reflexivity.
    + constructor; [exact Hg|exact Hgs].
Qed.

Lemma good_single_inv pv t k v els :
  good pv t k v els -> single k = true -> v <> VNone -> exists e, els = [e] /\ good1 pv t k v e.
Proof.
  intros H Hs Hv. destruct H as [k|k v e _ _ H1|ek l els _ HF|kk vt vk l prs _ _ HF]; try discriminate; try congruence.
  exists e. split; [reflexivity|exact H1].
Qed.

Theorem enc_good : forall d, P d.
Proof.
  induction d as [|d IH]; intros t k v w Hwf Hfit He Hl; [discriminate|].
  destruct Hfit as [k|fx n wd Hfw Hn| |s b Hutf|n Hcomps|fs ic vs HF|e l Hne HFl|kk vt vk l Hne HFl Hnk].
  - (* omitted *) rewrite enc_val_none in He. inversion He; subst. exists []. split; [reflexivity|constructor].
  - (* uint *)
    inversion Hwf as [t0 fx0 Ht Hfx| | | | | | ]; subst.
    cbn [enc_val] in He. rewrite Hfw in He. cbn [bind] in He.
    replace (256 ^ N.of_nat wd <=? n) with false in He by lia.
    rewrite tl_enc_r_ok in He by exact Ht. cbn [bind] in He. inversion He; subst w. clear He.
    pose proof (fixed_width_cases _ _ _ Hfw) as Hc.
    assert (Ew : tl_enc t ++ N.of_nat wd :: N_to_be wd n = tlv t (N_to_be wd n)).
    { unfold tlv. rewrite N_to_be_length. rewrite (tl_enc_small (N.of_nat wd)) by (destruct Hc as [-> |[-> |[-> | ->]]]; lia). reflexivity. }
    rewrite Ew in *. apply good_single_intro; try reflexivity; try discriminate; try exact Ht.
    + eapply tlv_len_bound. exact Hl.
    + cbn [parse_val e_payload e_dlen]. rewrite N_to_be_length.
      replace ((N.of_nat wd =? 1) || (N.of_nat wd =? 2) || (N.of_nat wd =? 4) || (N.of_nat wd =? 8)) with true
        by (destruct Hc as [-> |[-> |[-> | ->]]]; reflexivity).
      rewrite N.eqb_refl. rewrite be_to_N_to_be_small by exact Hn. reflexivity.
  - (* bool *)
    inversion Hwf as [ |t0 Ht| | | | | ]; subst.
    cbn [enc_val] in He. rewrite tl_enc_r_ok in He by exact Ht. cbn [bind] in He. inversion He; subst w. clear He.
    change (tl_enc t ++ [0]) with (tlv t []) in *.
    apply good_single_intro; try reflexivity; try discriminate; try exact Ht; try (unfold two64; cbn; lia).
  - (* bytes *)
    inversion Hwf as [ | |t0 s0 Ht| | | | ]; subst.
    cbn [enc_val] in He. rewrite tl_enc_r_ok in He by exact Ht. cbn [bind] in He. inversion He; subst w. clear He.
    change (tl_enc t ++ tl_enc (N.of_nat (length b)) ++ b) with (tlv t b) in *.
    apply good_single_intro; try reflexivity; try discriminate; try exact Ht.
    + eapply tlv_len_bound. exact Hl.
    + cbn [parse_val e_payload]. destruct s; [rewrite (Hutf eq_refl)|]; reflexivity.
  - (* name *)
    inversion Hwf; subst.
    cbn [enc_val] in He. inversion He; subst w. clear He.
    assert (En : name_encode n = tlv TYPE_NAME (concat n)).
    { unfold name_encode, tlv. rewrite name_value_length_concat. reflexivity. }
    rewrite En in *.
    apply good_single_intro; [reflexivity|discriminate|reflexivity| |].
    + eapply tlv_len_bound. exact Hl.
    + cbn [parse_val e_payload e_dlen e_type]. rewrite N.eqb_refl. cbn [negb].
      rewrite N.ltb_irrefl.
      rewrite name_components_concat; [reflexivity|exact Hcomps|].
      pose proof (concat_length_ge n Hcomps). lia.
  - (* sub-model *)
    inversion Hwf as [ | | | |t0 fs0 ic0 Ht Hfs| | ]; subst.
    cbn [enc_val] in He.
    destruct (enc_fields_with (enc_val d) fs vs) as [inner|] eqn:Ei; [|discriminate]. cbn [bind] in He.
    rewrite tl_enc_r_ok in He by exact Ht. cbn [bind] in He. inversion He; subst w. clear He.
    change (tl_enc t ++ tl_enc (N.of_nat (length inner)) ++ inner) with (tlv t inner) in *.
    pose proof (tlv_len_bound _ _ Hl) as Hli.
    inversion Hfs as [fs1 Hnd Hall]; subst.
    destruct (enc_fields_good d IH fs vs inner Hall HF Ei Hli) as (items & E1 & E2 & -> & Hgs).
    apply good_single_intro; try reflexivity; try discriminate; try assumption.
    rewrite parse_val_model. cbn [e_payload].
    rewrite split_wire_ser by (eapply items_el_ok; exact Hgs). cbn [bind].
    subst fs vs.
    pose proof (assign_fields (parse_val d) (map it_field items) ic Hnd items [] [] 0%nat
                  eq_refl eq_refl Hgs (le_n _)) as A.
    cbn [app] in A. unfold blank. rewrite map_map. rewrite A. reflexivity.
  - (* repeated *)
    inversion Hwf as [ | | | | |t0 e0 Hs Hwe| ]; subst.
    cbn [enc_val] in He.
    assert (G : forall l w, Forall (fun x => x <> VNone /\ fits e x) l -> rconcat (enc_val d t e) l = Ok w ->
                N.of_nat (length w) < two64 ->
                exists els, w = ser_els els /\ Forall2 (good1 (parse_val (S d)) t e) l els).
    { clear l Hne HFl He Hl w. induction l as [|x l IHl]; intros w HFl He Hl.
      - cbn in He. inversion He; subst. exists []. split; [reflexivity|constructor].
      - inversion HFl as [|? ? (Hx & Hfx) Hr]; subst. cbn [rconcat] in He.
        destruct (enc_val d t e x) as [a|] eqn:Ea; [|discriminate]. cbn [bind] in He.
        destruct (rconcat (enc_val d t e) l) as [r|] eqn:Er; [|discriminate]. cbn [bind] in He.
        inversion He; subst w. rewrite app_length in Hl.
        destruct (IH t e x a Hwe Hfx Ea ltac:(lia)) as (els & -> & Hg).
        destruct (good_single_inv _ _ _ _ _ Hg Hs Hx) as (ex & -> & (A1 & A2 & A3)).
        destruct (IHl r Hr eq_refl ltac:(lia)) as (els' & -> & HF2).
        exists (ex :: els'). split; [rewrite <- ser_els_app; reflexivity|].
        constructor; [|exact HF2]. split; [exact A1|split; [exact A2|apply parse_val_mono; exact A3]]. }
    destruct (G l w HFl He Hl) as (els & -> & HF2). exists els. split; [reflexivity|].
    apply good_rep; assumption.
  - (* map *)
    inversion Hwf as [ | | | | | |t0 kk0 vt0 vk0 Hkk Hwk Hsv Hwv]; subst.
    cbn [enc_val] in He.
    assert (Hsk : single kk = true) by (destruct kk; try discriminate; reflexivity).
    assert (G : forall l w,
                Forall (fun kv => fst kv <> VNone /\ fits kk (fst kv) /\ snd kv <> VNone /\ fits vk (snd kv)) l ->
                rconcat (fun kv => do a <- enc_val d t kk (fst kv) ;; do b <- enc_val d vt vk (snd kv) ;; Ok (a ++ b)) l = Ok w ->
                N.of_nat (length w) < two64 ->
                exists prs, w = ser_els (flat_map (fun pr => [fst pr; snd pr]) prs) /\
                            Forall2 (fun kv pr => good1 (parse_val (S d)) t kk (fst kv) (fst pr) /\
                                                  good1 (parse_val (S d)) vt vk (snd kv) (snd pr)) l prs).
    { clear l Hne HFl Hnk He Hl w. induction l as [|[key val] l IHl]; intros w HFl He Hl.
      - cbn in He. inversion He; subst. exists []. split; [reflexivity|constructor].
      - inversion HFl as [|? ? (Hk1 & Hk2 & Hv1 & Hv2) Hr]; subst. cbn [fst snd] in *. cbn [rconcat fst snd] in He.
        destruct (enc_val d t kk key) as [a|] eqn:Ea; [|discriminate]. cbn [bind] in He.
        destruct (enc_val d vt vk val) as [b|] eqn:Eb; [|discriminate]. cbn [bind] in He.
        destruct (rconcat _ l) as [r|] eqn:Er; [|discriminate]. cbn [bind] in He.
        inversion He; subst w. rewrite !app_length in Hl.
        destruct (IH t kk key a Hwk Hk2 Ea ltac:(lia)) as (els1 & -> & Hg1).
        destruct (IH vt vk val b Hwv Hv2 Eb ltac:(lia)) as (els2 & -> & Hg2).
        destruct (good_single_inv _ _ _ _ _ Hg1 Hsk Hk1) as (e1 & -> & (A1 & A2 & A3)).
        destruct (good_single_inv _ _ _ _ _ Hg2 Hsv Hv1) as (e2 & -> & (B1 & B2 & B3)).
        destruct (IHl r Hr eq_refl ltac:(lia)) as (prs & -> & HF2).
        exists ((e1, e2) :: prs). split.
        + cbn [flat_map fst snd app]. rewrite <- !ser_els_app. reflexivity.
        + constructor; [|exact HF2]. cbn [fst snd]. split.
          * split; [exact A1|split; [exact A2|apply parse_val_mono; exact A3]].
          * split; [exact B1|split; [exact B2|apply parse_val_mono; exact B3]]. }
    destruct (G l w HFl He Hl) as (prs & -> & HF2). eexists. split; [reflexivity|].
    apply good_map; assumption.
Qed.

(* C08: decoding the encoding yields the same values, for every well-formed model and legal assignment *)
Theorem parse_encode_roundtrip d fs ic vs w :
  wf_fields fs -> Forall2 (fun f v => fits (snd f) v) fs vs ->
  encode_model d fs vs = Ok w -> N.of_nat (length w) < two64 ->
  parse_model d fs ic w = Ok vs.
Proof.
  intros Hwf HF He Hl. inversion Hwf as [fs0 Hnd Hall]; subst.
  destruct (enc_fields_good d (enc_good d) fs vs w Hall HF He Hl) as (items & E1 & E2 & -> & Hgs).
  unfold parse_model. rewrite split_wire_ser by (eapply items_el_ok; exact Hgs). cbn [bind].
  subst fs vs.
  pose proof (assign_fields (parse_val d) (map it_field items) ic Hnd items [] [] 0%nat
                eq_refl eq_refl Hgs (le_n _)) as A.
  cbn [app] in A. unfold blank. rewrite map_map. rewrite A. reflexivity.
Qed.

(* C08: the encoder output is a sequence of well-formed elements, every Type and Length in shortest
   form (it is [ser_els] of an element list, and [ser_elem] writes [tl_enc]) *)
Theorem encode_wellformed d fs vs w :
  wf_fields fs -> Forall2 (fun f v => fits (snd f) v) fs vs ->
  encode_model d fs vs = Ok w -> N.of_nat (length w) < two64 ->
  exists els, w = ser_els els /\ Forall el_ok els /\ split_wire w = Ok els.
Proof.
  intros Hwf HF He Hl. inversion Hwf as [fs0 Hnd Hall]; subst.
  destruct (enc_fields_good d (enc_good d) fs vs w Hall HF He Hl) as (items & E1 & E2 & -> & Hgs).
  exists (concat (map it_els items)). split; [reflexivity|].
  pose proof (items_el_ok _ _ Hgs) as Hok. split; [exact Hok|]. apply split_wire_ser. exact Hok.
Qed.
