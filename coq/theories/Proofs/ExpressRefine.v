(* C03 / C05 — the refinement: for every well-formed history the abstraction of the operational state of each
   Interest is the state of its specification automaton. *)
From NDN Require Import Base.Prelude Spec.ExpressSpec Model.ExpressPipeline Proofs.ExpressBasics Proofs.ExpressSafety
  Proofs.ExpressInv Proofs.ExpressRec Proofs.ExpressTurn.
Local Open Scope N_scope.

Definition ktrue : name -> N -> entry -> bool := fun _ _ _ => true.
Definition kfalse : name -> N -> entry -> bool := fun _ _ _ => false.
Definition gkeep : N -> irec -> eff := fun _ r => keep r.

(* ---- hit predicates versus the specification's tests ---- *)
Lemma name_eqb_is_prefix a n : name_eqb a n = true -> is_prefix a n = true.
Proof. intros E. apply name_eqb_eq in E. subst. apply is_prefix_refl. Qed.

Lemma data_hit_matches n h i r nid :
  data_hit n h (i_name r) nid (entry_of i r) = matches (spec_of r) n h.
Proof.
  unfold data_hit, entry_sat, matches, spec_of, entry_of; cbn.
  destruct (name_eqb (i_name r) n) eqn:E.
  - rewrite (name_eqb_is_prefix _ _ E). destruct (i_cbp r); reflexivity.
  - destruct (i_cbp r), (is_prefix (i_name r) n); reflexivity.
Qed.

Lemma odig_eqb_sym a b : odig_eqb a b = odig_eqb b a.
Proof. destruct a, b; cbn; auto. apply N.eqb_sym. Qed.

Lemma nack_hit_spec n dig i r nid :
  nack_hit n dig (i_name r) nid (entry_of i r) = name_eqb n (i_name r) && odig_eqb dig (i_dig r).
Proof. unfold nack_hit, entry_of; cbn. rewrite name_eqb_sym, odig_eqb_sym. reflexivity. Qed.

(* ---- settle o fire is a turn without synchronous effect ---- *)
Lemma gsync_keep_core s : pit_ok s -> core_eq (gsync gkeep ktrue s) s.
Proof.
  intros [_ [NE _]]. unfold gsync, gkeep. rewrite upd_all_keep. unfold core_eq, set_pit; cbn.
  unfold ktrue. rewrite pit_map_true; auto.
Qed.

Lemma expiry_as_turn fe sb t s :
  pit_ok s -> core_eq (settle fe (fire sb t s)) (turn fe false sb t gkeep ktrue s).
Proof.
  intros P. unfold turn. apply core_settle, core_fire, core_eq_sym, gsync_keep_core, P.
Qed.

(* ---- the expiry turn ---- *)
Lemma inv_set_now_struct s t : inv_struct s -> inv_struct (set_now s t).
Proof. unfold inv_struct, pit_ok, pit_entries, get_int. destruct s; cbn. auto. Qed.

Lemma expiry_inv fe sb sb' t s :
  inv fe sb' s ->
  inv fe sb (settle fe (fire sb t (set_now s t))) /\
  (forall i, abs (settle fe (fire sb t (set_now s t))) i = expire fe sb t (abs s i)) /\
  now (settle fe (fire sb t (set_now s t))) = t.
Proof.
  intros [IS R].
  assert (IS0 : inv_struct (set_now s t)) by (apply inv_set_now_struct; auto).
  assert (N0 : now (set_now s t) = t) by reflexivity.
  pose proof (expiry_as_turn fe sb t (set_now s t) (proj1 (proj2 IS0))) as CE.
  assert (RR : forall i r, get_int (set_now s t) i = Some r -> rec_ok fe sb' (now s) r) by (intros i r G; apply (R i r G)).
  split; [|split].
  - eapply inv_core; [apply core_eq_sym, CE|]. split.
    + apply turn_inv_struct; auto.
      * intros; apply same_static_refl.
      * intros i r G. destruct (rexp_spec fe sb sb' (now s) t i r (RR i r G)) as [_ [_ E]].
        rewrite rexp_as_g, rexp_clean_as_g in E. unfold ktrue. rewrite andb_true_r. exact E.
    + intros i r' G'. rewrite turn_now, N0. rewrite (turn_get' fe false sb t gkeep ktrue (set_now s t) i N0) in G'.
      destruct (get_int (set_now s t) i) as [r|] eqn:G; [|discriminate]. cbn in G'. inversion G'; subst.
      destruct (rexp_spec fe sb sb' (now s) t i r (RR i r G)) as [A _]. rewrite rexp_as_g in A. exact A.
  - intros i. rewrite (abs_core _ _ i CE).
    change (abs s i) with (abs (set_now s t) i).
    apply (turn_abs fe false sb t gkeep ktrue (set_now s t) i (expire fe sb t) N0); [reflexivity|].
    intros r G. destruct (rexp_spec fe sb sb' (now s) t i r (RR i r G)) as [_ [A _]]. rewrite rexp_as_g in A. exact A.
  - reflexivity.
Qed.

Lemma inv_weaken fe s : inv fe false s -> inv fe true s.
Proof. intros [A B]. split; auto. intros i r G. apply rec_ok_weaken, (B i r G). Qed.

(* ---- the turn carrying an event ---- *)
Lemma event_turn fe mid t e g kp s1 :
  inv fe true s1 -> now s1 = t ->
  core_eq (apply fe (tA0 mid t s1) e) (gsync g kp (tA0 mid t s1)) ->
  (forall i r, same_static r (f_rec (g i r))) ->
  (forall i, react fe i INone e = INone) ->
  (forall i r, get_int s1 i = Some r -> rec_ok fe true t r ->
      rec_ok fe false t (rturn fe mid t (g i) i r) /\
      abs_rec (rturn fe mid t (g i) i r) = expire fe false t (react fe i (abs_rec r) e) /\
      pendingb (rturn fe mid t (g i) i r) =
        pendingb r && kp (i_name r) (i_node r) (entry_of i r) && negb (rturn_clean fe mid t (g i) i r)) ->
  inv fe false (settle fe (fire false t (apply fe (tA0 mid t s1) e))) /\
  (forall i, abs (settle fe (fire false t (apply fe (tA0 mid t s1) e))) i = expire fe false t (react fe i (abs s1 i) e)) /\
  now (settle fe (fire false t (apply fe (tA0 mid t s1) e))) = t.
Proof.
  intros [IS R] Nw CE SS R0 HR.
  assert (CT : core_eq (settle fe (fire false t (apply fe (tA0 mid t s1) e))) (turn fe mid false t g kp s1)).
  { unfold turn. apply core_settle, core_fire. exact CE. }
  assert (RR : forall i r, get_int s1 i = Some r -> rec_ok fe true t r) by (intros i r G; rewrite <- Nw; apply (R i r G)).
  split; [|split].
  - eapply inv_core; [apply core_eq_sym, CT|]. split.
    + apply turn_inv_struct; auto. intros i r G. apply (HR i r G (RR i r G)).
    + intros i r' G'. rewrite turn_now, Nw. rewrite (turn_get' fe mid false t g kp s1 i Nw) in G'.
      destruct (get_int s1 i) as [r|] eqn:G; [|discriminate]. cbn in G'. inversion G'; subst r'.
      apply (HR i r G (RR i r G)).
  - intros i. rewrite (abs_core _ _ i CT).
    apply (turn_abs fe mid false t g kp s1 i (fun st => expire fe false t (react fe i st e)) Nw).
    + rewrite R0. reflexivity.
    + intros r G. apply (HR i r G (RR i r G)).
  - destruct CT as [_ [_ C]]. rewrite C. rewrite turn_now. exact Nw.
Qed.

(* ---- instances ---- *)
Lemma tA0_pit mid t s : pit (tA0 mid t s) = pit s. Proof. unfold tA0. destruct mid; reflexivity. Qed.
Lemma tA0_now mid t s : now (tA0 mid t s) = now s. Proof. unfold tA0. destruct mid; reflexivity. Qed.
Lemma tA0_shut mid t s : shut (tA0 mid t s) = shut s. Proof. unfold tA0. destruct mid; reflexivity. Qed.
Lemma pit_ok_tA0 mid t s : pit_ok s -> pit_ok (tA0 mid t s).
Proof. intros P. unfold tA0. destruct mid; auto. unfold fire. apply pit_ok_upd_all; auto. intros; apply ss_fire. Qed.

Lemma mem_entries_pending fe sb s i r : inv fe sb s -> get_int s i = Some r -> mem i (pit_entries s) = pendingb r.
Proof. intros [[_ [_ M]] _] G. apply (M i r G). Qed.

Lemma upd_all_as_gsync g s : pit_ok s -> core_eq (upd_all g s) (gsync g ktrue s).
Proof.
  intros [_ [NE _]]. unfold gsync, ktrue. rewrite pit_map_true; auto. unfold core_eq, upd_all, set_pit; cbn. auto.
Qed.

Section Events.
  Variable fe : frontend.
  Variable mid : bool.
  Variable t : N.
  Variable s1 : st.
  Hypothesis I1 : inv fe true s1.
  Hypothesis N1 : now s1 = t.

  Let P1 : pit_ok s1 := proj1 (proj2 (proj1 I1)).

  Lemma step_data d n h :
    let s' := settle fe (fire false t (apply fe (tA0 mid t s1) (Data d n h t))) in
    inv fe false s' /\ (forall i, abs s' i = expire fe false t (react fe i (abs s1 i) (Data d n h t))) /\ now s' = t.
  Proof.
    cbv zeta.
    apply (event_turn fe mid t (Data d n h t)
             (fun i r => if mem i (pit_hits (data_hit n h) (pit s1)) then sat_rec fe d r else keep r)
             (fun pn nid e => negb (data_hit n h pn nid e)) s1 I1 N1).
    - cbn [apply]. unfold do_data, gsync. rewrite tA0_pit. apply core_eq_refl.
    - intros i r. destruct (mem i _); [apply ss_sat | apply same_static_refl].
    - reflexivity.
    - intros i r G RK. rewrite (mem_hits s1 i r (data_hit n h) P1 G), (mem_entries_pending fe true s1 i r I1 G).
      rewrite !data_hit_matches. apply (rturn_data fe mid t d n h i r RK).
  Qed.

  Lemma step_nack n dig x :
    let s' := settle fe (fire false t (apply fe (tA0 mid t s1) (Nack n dig x t))) in
    inv fe false s' /\ (forall i, abs s' i = expire fe false t (react fe i (abs s1 i) (Nack n dig x t))) /\ now s' = t.
  Proof.
    cbv zeta.
    apply (event_turn fe mid t (Nack n dig x t)
             (fun i r => if mem i (pit_hits (nack_hit n dig) (pit s1)) then nack_rec x r else keep r)
             (fun pn nid e => negb (nack_hit n dig pn nid e)) s1 I1 N1).
    - cbn [apply]. unfold do_nack, gsync. rewrite tA0_pit. apply core_eq_refl.
    - intros i r. destruct (mem i _); [apply ss_nack | apply same_static_refl].
    - reflexivity.
    - intros i r G RK. rewrite (mem_hits s1 i r (nack_hit n dig) P1 G), (mem_entries_pending fe true s1 i r I1 G).
      rewrite !nack_hit_spec. apply (rturn_nack fe mid t n dig x i r RK).
  Qed.

  Lemma step_vdone j v :
    let s' := settle fe (fire false t (apply fe (tA0 mid t s1) (VDone j v t))) in
    inv fe false s' /\ (forall i, abs s' i = expire fe false t (react fe i (abs s1 i) (VDone j v t))) /\ now s' = t.
  Proof.
    cbv zeta.
    apply (event_turn fe mid t (VDone j v t)
             (fun i r => if i =? j then vdone_rec fe t i v r else keep r) ktrue s1 I1 N1).
    - cbn [apply]. unfold do_vdone. rewrite tA0_now, N1. apply upd_all_as_gsync, pit_ok_tA0, P1.
    - intros i r. destruct (i =? j); [apply ss_vdone | apply same_static_refl].
    - reflexivity.
    - intros i r G RK. unfold ktrue. rewrite andb_true_r. apply (rturn_vdone fe mid t j v i r RK).
  Qed.

  Lemma step_cancel j :
    let s' := settle fe (fire false t (apply fe (tA0 mid t s1) (Cancel j t))) in
    inv fe false s' /\ (forall i, abs s' i = expire fe false t (react fe i (abs s1 i) (Cancel j t))) /\ now s' = t.
  Proof.
    cbv zeta.
    apply (event_turn fe mid t (Cancel j t)
             (fun i r => if i =? j then only (cancel_rec r) else keep r) ktrue s1 I1 N1).
    - cbn [apply]. unfold do_cancel. apply upd_all_as_gsync, pit_ok_tA0, P1.
    - intros i r. destruct (i =? j); [apply ss_cancel | apply same_static_refl].
    - reflexivity.
    - intros i r G RK. unfold ktrue. rewrite andb_true_r. apply (rturn_cancel fe mid t j i r RK).
  Qed.

  Lemma step_noop e :
    (forall i st, react fe i st e = st) ->
    core_eq (apply fe (tA0 mid t s1) e) (tA0 mid t s1) ->
    let s' := settle fe (fire false t (apply fe (tA0 mid t s1) e)) in
    inv fe false s' /\ (forall i, abs s' i = expire fe false t (react fe i (abs s1 i) e)) /\ now s' = t.
  Proof.
    intros Hr CE. cbv zeta.
    apply (event_turn fe mid t e gkeep ktrue s1 I1 N1).
    - eapply core_eq_trans; [exact CE|]. apply core_eq_sym, gsync_keep_core, pit_ok_tA0, P1.
    - intros; apply same_static_refl.
    - intros; apply Hr.
    - intros i r G RK. unfold ktrue, gkeep. rewrite andb_true_r. apply (rturn_noop fe mid t e i r RK (Hr i)).
  Qed.

  Lemma step_shutdown :
    (shut s1 = true -> pit s1 = []) ->
    let s' := settle fe (fire false t (apply fe (tA0 mid t s1) (Shutdown t))) in
    inv fe false s' /\ (forall i, abs s' i = expire fe false t (react fe i (abs s1 i) (Shutdown t))) /\ now s' = t.
  Proof.
    intros SH. cbv zeta.
    apply (event_turn fe mid t (Shutdown t)
             (fun i r => if mem i (pit_hits ktrue (pit s1)) then only (set_fut r (fut_cancel (i_fut r))) else keep r)
             kfalse s1 I1 N1).
    - cbn [apply]. unfold do_shutdown. rewrite tA0_shut, tA0_pit. destruct (shut s1) eqn:S.
      + rewrite (SH eq_refl). unfold gsync. rewrite tA0_pit, (SH eq_refl). cbn [pit_hits flat_map mem existsb].
        rewrite upd_all_keep. unfold core_eq, set_pit, pit_map; cbn. rewrite tA0_pit. auto.
      + unfold gsync, core_eq; cbn. rewrite tA0_pit. unfold kfalse. rewrite pit_map_false. auto.
    - intros i r. destruct (mem i _); [apply ss_set_fut | apply same_static_refl].
    - reflexivity.
    - intros i r G RK. change (pit_hits ktrue (pit s1)) with (pit_entries s1).
      rewrite (mem_entries_pending fe true s1 i r I1 G). unfold kfalse. rewrite andb_false_r. cbn [andb].
      apply (rturn_shutdown fe mid t i r RK).
  Qed.
End Events.

(* ---- one step with an event other than Express / Await ---- *)
Definition plain_event (e : ev) : bool :=
  match e with Express _ _ _ _ _ _ _ | Await _ _ => false | _ => true end.
Definition is_shutdown (e : ev) : bool := match e with Shutdown _ => true | _ => false end.

Definition shut_ok (s : st) : Prop := shut s = true -> pit s = [].

Lemma settle_shut fe s : shut (settle fe s) = shut s. Proof. reflexivity. Qed.
Lemma fire_shut b t s : shut (fire b t s) = shut s. Proof. reflexivity. Qed.
Lemma settle_pit_nil fe s : pit s = [] -> pit (settle fe s) = [].
Proof. intros E. unfold settle. rewrite upd_all_pit. cbn [pit set_pit]. rewrite upd_all_pit, E. reflexivity. Qed.
Lemma fire_pit b t s : pit (fire b t s) = pit s. Proof. reflexivity. Qed.
Lemma settle_ids fe s : map fst (ints (settle fe s)) = map fst (ints s).
Proof. unfold settle. rewrite ids_upd_all. cbn [ints set_pit]. rewrite ids_upd_all. reflexivity. Qed.
Lemma fire_ids b t s : map fst (ints (fire b t s)) = map fst (ints s).
Proof. unfold fire. apply ids_upd_all. Qed.

Lemma apply_plain_facts fe s e :
  plain_event e = true ->
  map fst (ints (apply fe s e)) = map fst (ints s) /\
  shut (apply fe s e) = shut s || is_shutdown e /\
  (pit s = [] -> pit (apply fe s e) = []) /\
  (is_shutdown e = true -> pit (apply fe s e) = [] \/ (shut s = true /\ apply fe s e = s)).
Proof.
  intros PE. destruct e; try discriminate; cbn [apply is_shutdown]; rewrite ?orb_false_r.
  - unfold do_data. rewrite ids_upd_all. repeat split; auto; try discriminate. intros E. rewrite upd_all_pit. cbn. rewrite E. reflexivity.
  - unfold do_nack. rewrite ids_upd_all. repeat split; auto; try discriminate. intros E. rewrite upd_all_pit. cbn. rewrite E. reflexivity.
  - unfold do_vdone. rewrite ids_upd_all. repeat split; auto; discriminate.
  - unfold do_cancel. rewrite ids_upd_all. repeat split; auto; discriminate.
  - unfold do_shutdown. destruct (shut s) eqn:S.
    + split; [reflexivity|]. split; [exact S|]. split; [auto|]. intros _. right. split; reflexivity.
    + cbn [ints shut pit]. rewrite ids_upd_all. split; [reflexivity|]. split; [reflexivity|]. split; [auto|]. intros _. left. reflexivity.
  - repeat split; auto; discriminate.
  - unfold do_attach. destruct (al_mem name_eqb (fib s) p); repeat split; auto; discriminate.
  - repeat split; auto; discriminate.
  - repeat split; auto; discriminate.
Qed.

Lemma expire_idem fe t st : expire fe false t (expire fe false t st) = expire fe false t st.
Proof.
  destruct st as [|r|r d|o]; unfold expire, due; auto.
  - destruct (s_D r <=? t) eqn:D; auto. rewrite D. reflexivity.
  - destruct fe; auto. destruct (s_D r <=? t) eqn:D; auto. rewrite D. reflexivity.
Qed.

Definition tie_sb (m : tie) : bool := match m with NoTie => false | _ => true end.
Definition tie_mid (m : tie) : bool := match m with Mid => true | _ => false end.

Lemma pre_as_tA0 fe m t s0 : pre fe m t s0 = tA0 (tie_mid m) t (settle fe (fire (tie_sb m) t s0)).
Proof. destruct m; reflexivity. Qed.

Lemma step_plain fe s m e :
  inv fe false s -> shut_ok s -> now s <= ev_time e -> plain_event e = true ->
  inv fe false (step fe s (m, e)) /\ shut_ok (step fe s (m, e)) /\
  (forall i, abs (step fe s (m, e)) i = spec_step fe i (abs s i) (m, e)) /\
  now (step fe s (m, e)) = ev_time e /\
  shut (step fe s (m, e)) = shut s || is_shutdown e /\
  map fst (ints (step fe s (m, e))) = map fst (ints s).
Proof.
  intros I SH LE PE. unfold step. cbn [fst snd]. rewrite (N.max_r _ _ LE). set (t := ev_time e).
  rewrite pre_as_tA0. set (s1 := settle fe (fire (tie_sb m) t (set_now s t))).
  destruct (expiry_inv fe (tie_sb m) false t s I) as [I1 [A1 N1]]. fold s1 in I1, A1, N1.
  assert (I1' : inv fe true s1) by (destruct (tie_sb m); [exact I1 | apply inv_weaken, I1]).
  assert (SH1 : shut s1 = shut s) by reflexivity.
  assert (P1nil : pit s = [] -> pit s1 = []). { intros E. unfold s1. apply settle_pit_nil. rewrite fire_pit. exact E. }
  assert (IDS1 : map fst (ints s1) = map fst (ints s)). { unfold s1. rewrite settle_ids, fire_ids. reflexivity. }
  destruct (apply_plain_facts fe (tA0 (tie_mid m) t s1) e PE) as [F1 [F2 [F3 F4]]].
  assert (MAIN : inv fe false (settle fe (fire false t (apply fe (tA0 (tie_mid m) t s1) e))) /\
                 (forall i, abs (settle fe (fire false t (apply fe (tA0 (tie_mid m) t s1) e))) i
                            = expire fe false t (react fe i (abs s1 i) e)) /\
                 now (settle fe (fire false t (apply fe (tA0 (tie_mid m) t s1) e))) = t).
  { destruct e; try discriminate; unfold t in *; cbn [ev_time] in *.
    - apply (step_data fe (tie_mid m) t0 s1 I1' N1).
    - apply (step_nack fe (tie_mid m) t0 s1 I1' N1).
    - apply (step_vdone fe (tie_mid m) t0 s1 I1' N1).
    - apply (step_cancel fe (tie_mid m) t0 s1 I1' N1).
    - apply (step_shutdown fe (tie_mid m) t0 s1 I1' N1). intros S. apply P1nil, SH. rewrite <- SH1. exact S.
    - apply (step_noop fe (tie_mid m) t0 s1 I1' N1); [reflexivity | apply core_eq_refl].
    - apply (step_noop fe (tie_mid m) t0 s1 I1' N1); [reflexivity|].
      cbn [apply]. unfold do_attach. destruct (al_mem name_eqb _ p); [apply core_eq_refl | repeat split].
    - apply (step_noop fe (tie_mid m) t0 s1 I1' N1); [reflexivity | repeat split].
    - apply (step_noop fe (tie_mid m) t0 s1 I1' N1); [reflexivity | repeat split].
  }
  destruct MAIN as [M1 [M2 M3]].
  split; [exact M1|]. split; [|split; [|split; [exact M3|split]]].
  - (* shut_ok *)
    intros S. rewrite settle_shut, fire_shut, F2, tA0_shut, SH1 in S.
    apply settle_pit_nil. rewrite fire_pit.
    destruct (shut s) eqn:Ss.
    + apply F3. rewrite tA0_pit. apply P1nil, SH, Ss.
    + cbn in S. destruct (F4 S) as [E|[E _]]; [exact E|]. rewrite tA0_shut, SH1 in E. discriminate.
  - intros i. rewrite M2, A1. unfold spec_step. cbn [fst snd]. fold t. destruct m; reflexivity.
  - rewrite settle_shut, fire_shut, F2, tA0_shut, SH1. reflexivity.
  - rewrite settle_ids, fire_ids, F1. unfold tA0. destruct (tie_mid m); [rewrite fire_ids|]; exact IDS1.
Qed.

(* ---- Express immediately awaited ---- *)
Definition quiet_rec (fe : frontend) (t : N) (i : N) (r : irec) : Prop :=
  fire_rec false t r = r /\ sv_rec fe i r = keep r /\ wants_cleanup r = false /\ ws_rec fe t i r = keep r.

Lemma rec_ok_quiet fe t i r : rec_ok fe false t r -> quiet_rec fe t i r.
Proof.
  destruct r as [nm cb dg lf dl vm nd fu wa tm tf xc va]. unfold rec_ok, quiet_rec, fire_rec, timer_due, sv_rec, ws_rec, wants_cleanup; cbn.
  intros [H V]. destruct wa; [destruct H | | |].
  - destruct H as [-> [-> [-> [E [D W]]]]]. cbn. rewrite D. destruct va; try tauto; repeat split; auto.
  - destruct H as [F [-> W]]. destruct va; repeat split; auto; subst fe; specialize (V eq_refl); discriminate.
  - destruct va; try tauto; repeat split; auto.
Qed.

Lemma set_pit_id s : set_pit s (pit s) = s. Proof. destruct s; reflexivity. Qed.
Lemma set_now_id s : set_now s (now s) = s. Proof. destruct s; reflexivity. Qed.

Lemma quiet_settle_fire fe s :
  (forall i r, In (i, r) (ints s) -> quiet_rec fe (now s) i r) ->
  (forall pn nid es, In (pn, (nid, es)) (pit s) -> es <> []) ->
  settle fe (fire false (now s) s) = s.
Proof.
  intros Q NE.
  assert (F : fire false (now s) s = s).
  { unfold fire. apply upd_all_id. intros i r I. destruct (Q i r I) as [E _]. rewrite E. reflexivity. }
  rewrite F. unfold settle.
  assert (S1 : upd_all (sv_rec fe) s = s). { apply upd_all_id. intros i r I. apply (Q i r I). }
  rewrite S1.
  assert (S2 : pit_map (fun pn nid e => negb (cleaning (ints s) pn nid e)) (pit s) = pit s).
  { rewrite (pit_map_ext _ (fun _ _ _ => true)); [apply pit_map_true; auto|].
    intros pn nid es e _ _. unfold cleaning. destruct (al_get N.eqb (ints s) (e_id e)) as [r|] eqn:G; auto.
    apply al_get_In in G. destruct (Q _ _ G) as [_ [_ [W _]]]. rewrite W. reflexivity. }
  rewrite S2, set_pit_id. apply upd_all_id. intros i r I. apply (Q i r I).
Qed.

(* al_set on the PIT *)
Lemma Add_map {A B} (f : A -> B) x l l' : Add x l l' -> Add (f x) (map f l) (map f l').
Proof. induction 1; cbn; constructor; auto. Qed.
Lemma Add_app_l {A} (x : A) a l l' : Add x l l' -> Add x (a ++ l) (a ++ l').
Proof. intros H. induction a; cbn; auto. constructor; auto. Qed.

Lemma pflat_app p q : pflat (p ++ q) = pflat p ++ pflat q.
Proof. unfold pflat. apply flat_map_app. Qed.

Lemma al_set_absent (p : pit_t) n v : pit_get p n = None -> al_set name_eqb p n v = p ++ [(n, v)].
Proof.
  unfold pit_get. induction p as [|[k w] p IH]; cbn; auto. destruct (name_eqb n k); [discriminate|]. intros H. rewrite IH; auto.
Qed.

Lemma pflat_express_Add p n nid l e :
  match pit_get p n with Some x => x = (nid, l) | None => l = [] end ->
  Add (n, nid, e) (pflat p) (pflat (al_set name_eqb p n (nid, l ++ [e]))).
Proof.
  unfold pit_get. induction p as [|[k [nid0 l0]] p IH]; cbn.
  - intros ->. cbn. constructor.
  - destruct (name_eqb n k) eqn:E.
    + intros H. inversion H; subst. apply name_eqb_eq in E. subst k. cbn.
      rewrite map_app. cbn. rewrite <- app_assoc. cbn. apply Add_app.
    + intros H. cbn. apply Add_app_l. apply IH, H.
Qed.

Lemma al_set_keys p n v :
  map fst (al_set name_eqb p n v) = match pit_get p n with Some _ => map fst p | None => map fst p ++ [n] end.
Proof.
  unfold pit_get. induction p as [|[k w] p IH]; cbn; auto. destruct (name_eqb n k) eqn:E; cbn; auto.
  rewrite IH. destruct (al_get name_eqb p n); reflexivity.
Qed.

Lemma pit_get_None_notin p n : pit_get p n = None -> ~ In n (map fst p).
Proof.
  unfold pit_get. induction p as [|[k w] p IH]; cbn; auto. destruct (name_eqb n k) eqn:E; [discriminate|].
  intros H [F|F]; [subst; rewrite name_eqb_refl in E; discriminate | apply IH; auto].
Qed.

Lemma al_set_In (p : pit_t) n v pn x : In (pn, x) (al_set name_eqb p n v) -> In (pn, x) p \/ x = v.
Proof.
  induction p as [|[k w] p IH]; cbn.
  - intros [E|[]]. inversion E; auto.
  - destruct (name_eqb n k); cbn; intros [E|I]; auto.
    + inversion E; auto.
    + destruct (IH I); auto.
Qed.

Definition fresh_rec (n : name) (cbp : bool) (dig : option N) (life : N) (vm : vmode) (nw nid : N) : irec :=
  mkI n cbp dig life (nw + life) vm nid FPending WNotAwaited 0 false false VNone.

Lemma do_express_facts fe s1 i n cbp dig life vm :
  shut s1 = false -> get_int s1 i = None ->
  exists nid l,
    match pit_get (pit s1) n with Some x => x = (nid, l) | None => l = [] end /\
    ints (do_express fe s1 i n cbp dig life vm) = ints s1 ++ [(i, fresh_rec n cbp dig life vm (now s1) nid)] /\
    pit (do_express fe s1 i n cbp dig life vm) = al_set name_eqb (pit s1) n (nid, l ++ [mkE i cbp dig]) /\
    now (do_express fe s1 i n cbp dig life vm) = now s1 /\
    shut (do_express fe s1 i n cbp dig life vm) = false.
Proof.
  intros S G. unfold do_express. rewrite S. unfold get_int in G. rewrite al_mem_get, G.
  destruct (pit_get (pit s1) n) as [[nid l]|]; eexists; eexists; cbn; repeat split; eauto.
Qed.

Lemma await_fresh fe n cbp dig life vm t nid :
  0 < life ->
  await_rec fe t (fresh_rec n cbp dig life vm t nid) =
  mkI n cbp dig life (t + life) vm nid FPending WWaiting (t + life) false false VNone.
Proof.
  intros L. unfold await_rec, fresh_rec; cbn.
  destruct fe; cbn; (destruct (N.leb_spec (t + life) t); [lia | reflexivity]).
Qed.

Lemma step_express_await fe s i n cbp dig life vm t :
  inv fe false s -> shut_ok s -> now s <= t -> 0 < life -> get_int s i = None -> shut s = false ->
  let s' := step fe (step fe s (NoTie, Express i n cbp dig life vm t)) (NoTie, Await i t) in
  inv fe false s' /\ shut_ok s' /\
  (forall j, abs s' j = spec_step fe j (spec_step fe j (abs s j) (NoTie, Express i n cbp dig life vm t)) (NoTie, Await i t)) /\
  now s' = t /\ shut s' = false /\ map fst (ints s') = map fst (ints s) ++ [i].
Proof.
  intros I SH LE L G S. cbv zeta.
  destruct (expiry_inv fe false false t s I) as [I1 [A1 N1]].
  assert (S1 : shut (settle fe (fire false t (set_now s t))) = false) by exact S.
  assert (IDS1 : map fst (ints (settle fe (fire false t (set_now s t)))) = map fst (ints s)).
  { rewrite settle_ids, fire_ids. reflexivity. }
  assert (STEP1 : forall e, step fe s (NoTie, e) = settle fe (fire false t (apply fe (settle fe (fire false t (set_now s t))) e)) \/ ev_time e <> t).
  { intros e. destruct (N.eq_dec (ev_time e) t) as [X|X]; [left | right; exact X].
    unfold step. cbn [fst snd]. rewrite X, (N.max_r _ _ LE). reflexivity. }
  remember (settle fe (fire false t (set_now s t))) as s1 eqn:Hs1.
  assert (G1 : get_int s1 i = None).
  { unfold get_int in *. apply al_get_None_notin. rewrite IDS1. apply al_get_None_notin. exact G. }
  destruct I1 as [[K1 [P1 M1]] R1].
  destruct (do_express_facts fe s1 i n cbp dig life vm S1 G1) as [nid [l [PG [Ei [Ep [En Es]]]]]].
  remember (do_express fe s1 i n cbp dig life vm) as s2 eqn:Hs2.
  rewrite N1 in Ei, En.
  set (r0 := fresh_rec n cbp dig life vm t nid) in *.
  set (e0 := mkE i cbp dig) in *.
  destruct P1 as [PK [PNE [PND PE]]].
  assert (NE2 : forall pn nid' es, In (pn, (nid', es)) (pit s2) -> es <> []).
  { intros pn nid' es In2. rewrite Ep in In2. apply al_set_In in In2. destruct In2 as [In2|E].
    - eapply PNE; eauto.
    - inversion E. destruct l; discriminate. }
  assert (OLD : forall j r, In (j, r) (ints s1) -> get_int s1 j = Some r /\ j <> i).
  { intros j r In1. assert (Gj : get_int s1 j = Some r) by (apply In_al_get; auto). split; auto. intros ->. congruence. }
  (* first step *)
  assert (E1 : step fe s (NoTie, Express i n cbp dig life vm t) = s2).
  { destruct (STEP1 (Express i n cbp dig life vm t)) as [X|X]; [rewrite X | cbn in X; congruence]. cbn [apply]. rewrite <- Hs2.
    rewrite <- En. apply quiet_settle_fire; auto.
    intros j r In2. rewrite Ei in In2. apply in_app_iff in In2. destruct In2 as [In2|[In2|[]]].
    - destruct (OLD j r In2) as [Gj _]. rewrite En, <- N1. apply rec_ok_quiet, (R1 j r Gj).
    - inversion In2; subst. unfold quiet_rec, r0, fresh_rec. repeat split. }
  rewrite E1.
  (* second step *)
  remember (do_await fe s2 i) as s3 eqn:Hs3.
  assert (N3 : now s3 = t) by (rewrite Hs3; unfold do_await; rewrite upd_all_now; exact En).
  assert (G3 : forall j, get_int s3 j = if j =? i then Some (await_rec fe t r0) else get_int s1 j).
  { intros j. rewrite Hs3; unfold do_await. rewrite get_int_upd_all. unfold get_int. rewrite Ei, al_get_app. rewrite En.
    destruct (N.eqb_spec j i) as [->|NE].
    - unfold get_int in G1. rewrite G1. cbn [al_get]. rewrite N.eqb_refl. reflexivity.
    - destruct (al_get N.eqb (ints s1) j) eqn:Gj; cbn [al_get option_map]; [reflexivity|].
      apply N.eqb_neq in NE. rewrite NE. reflexivity. }
  assert (P3 : pit s3 = al_set name_eqb (pit s1) n (nid, l ++ [e0])) by (rewrite Hs3; unfold do_await; rewrite upd_all_pit; exact Ep).
  assert (AW : await_rec fe t r0 = mkI n cbp dig life (t + life) vm nid FPending WWaiting (t + life) false false VNone)
    by (apply await_fresh; auto).
  assert (ADD : Add (n, nid, e0) (pflat (pit s1)) (pflat (pit s3))) by (rewrite P3; apply pflat_express_Add; exact PG).
  assert (NI : ~ In i (map xid (pflat (pit s1)))).
  { intros In1. apply in_map_iff in In1. destruct In1 as [[[pn nd] e] [X In1]]. unfold xid in X; cbn in X. subst.
    destruct (PE pn nd e In1) as [r [Gr _]]. congruence. }
  assert (IDS3 : map fst (ints s3) = map fst (ints s) ++ [i]).
  { rewrite Hs3; unfold do_await. rewrite ids_upd_all, Ei, map_app, IDS1. reflexivity. }
  assert (INV3 : inv fe false s3).
  { split; [split; [|split]|].
    - rewrite IDS3. apply NoDup_app_intro; [rewrite <- IDS1; exact K1 | repeat constructor; auto |].
      intros y Iy [<-|[]]. unfold get_int in G. apply al_get_None_notin in G. auto.
    - split; [|split; [|split]].
      + rewrite P3, al_set_keys. destruct (pit_get (pit s1) n) eqn:PGn; auto.
        apply NoDup_app_intro; auto; [repeat constructor; auto|]. intros y Iy [<-|[]]. apply (pit_get_None_notin _ _ PGn Iy).
      + intros pn nid' es In3. rewrite Hs3 in In3; unfold do_await in In3. rewrite upd_all_pit in In3. eapply NE2; eauto.
      + apply (NoDup_Add (Add_map xid _ _ _ ADD)). split; auto.
      + intros pn nd e In3. apply (Add_in ADD) in In3. destruct In3 as [E|In3].
        * inversion E; subst. cbn [e_id e0]. rewrite G3, N.eqb_refl. eexists; split; [reflexivity|]. rewrite AW. cbn. auto.
        * destruct (PE pn nd e In3) as [r [Gr [A [B C]]]]. rewrite G3.
          destruct (N.eqb_spec (e_id e) i) as [X|X]; [rewrite X in Gr; congruence|]. eauto.
    - intros j r' Gj. rewrite G3 in Gj. unfold pit_entries. rewrite pit_entries_flat.
      destruct (N.eqb_spec j i) as [->|NE].
      + inversion Gj; subst r'. rewrite AW. cbn. apply mem_In. apply in_map_iff. exists (n, nid, e0); split; [reflexivity|].
        apply (Add_in ADD). left; reflexivity.
      + rewrite <- (M1 j r' Gj). unfold pit_entries. rewrite pit_entries_flat.
        apply Bool.eq_iff_eq_true. rewrite !mem_In, !in_map_iff. split.
        * intros [x [X In3]]. apply (Add_in ADD) in In3. destruct In3 as [E|In3]; [subst x; cbn in X; congruence | eauto].
        * intros [x [X In1]]. exists x; split; auto. apply (Add_in ADD). right; auto.
    - intros j r' Gj. rewrite N3. rewrite G3 in Gj. destruct (N.eqb_spec j i) as [->|NE].
      + inversion Gj; subst r'. rewrite AW. unfold rec_ok; cbn. repeat split; auto. unfold due. apply N.leb_gt. lia.
      + rewrite <- N1. apply (R1 j r' Gj). }
  assert (E2 : step fe s2 (NoTie, Await i t) = s3).
  { assert (X : set_now s2 t = s2) by (rewrite <- En; apply set_now_id).
    unfold step. cbn [fst snd ev_time]. rewrite En, N.max_id, X. cbn [pre].
    assert (Q2 : settle fe (fire false t s2) = s2).
    { rewrite <- En. apply quiet_settle_fire; auto.
      intros j r In2. rewrite Ei in In2. apply in_app_iff in In2. destruct In2 as [In2|[In2|[]]].
      - destruct (OLD j r In2) as [Gj _]. rewrite En, <- N1. apply rec_ok_quiet, (R1 j r Gj).
      - inversion In2; subst. unfold quiet_rec, r0, fresh_rec. repeat split. }
    rewrite Q2. cbn [apply]. rewrite <- Hs3. rewrite <- N3. apply quiet_settle_fire.
    - intros j r In3. apply rec_ok_quiet. destruct INV3 as [[K3 _] R3]. apply (R3 j r). apply In_al_get; auto.
    - destruct INV3 as [[_ [[_ [NE3 _]] _]] _]. exact NE3. }
  rewrite E2.
  split; [exact INV3|]. split; [|split; [|split; [exact N3|split; [|exact IDS3]]]].
  - intros Sx. rewrite Hs3 in Sx; unfold do_await in Sx. rewrite upd_all_shut, Es in Sx. discriminate.
  - intros j. unfold abs at 1. rewrite G3. unfold spec_step. cbn [fst snd ev_time].
    destruct (N.eqb_spec j i) as [->|NE].
    + unfold abs. rewrite G. cbn [expire react]. rewrite N.eqb_refl. rewrite AW. unfold abs_rec, spec_of; cbn.
      assert (X : (t + life <=? t) = false) by (apply N.leb_gt; lia).
      repeat first [rewrite X | progress (unfold expire, due; cbn [s_D])]. reflexivity.
    + fold (abs s1 j). rewrite A1.
      assert (RE : forall st, react fe j st (Express i n cbp dig life vm t) = st).
      { intros st. destruct st; cbn; auto. apply N.eqb_neq in NE. rewrite N.eqb_sym, NE. reflexivity. }
      rewrite RE.
      assert (RA : forall st, react fe j st (Await i t) = st) by (intros st; destruct st; reflexivity).
      rewrite RA. rewrite !expire_idem. reflexivity.
  - rewrite Hs3; unfold do_await. rewrite upd_all_shut. exact Es.
Qed.

(* ---- well-formed histories (the quantifier of the theorems) ----
   ids are fresh; every Express is immediately followed by its Await at the same time, both without tie; lifetimes
   are positive; times do not decrease; nothing is expressed after a Shutdown. *)
Fixpoint wf_from (seen : list N) (tl : N) (sh : bool) (h : list (tie * ev)) {struct h} : Prop :=
  match h with
  | [] => True
  | (m, e) :: rest =>
      match e with
      | Express i n cbp dig life vm t =>
          match rest with
          | (m', Await j t') :: h' =>
              m = NoTie /\ m' = NoTie /\ j = i /\ t' = t /\ tl <= t /\ 0 < life /\ ~ In i seen /\ sh = false /\
              wf_from (i :: seen) t sh h'
          | _ => False
          end
      | Await _ _ => False
      | _ => tl <= ev_time e /\ wf_from seen (ev_time e) (sh || is_shutdown e) rest
      end
  end.

Definition wf_history (h : list (tie * ev)) : Prop := wf_from [] 0 false h.

Definition ginv (fe : frontend) (s : st) : Prop := inv fe false s /\ shut_ok s.

Lemma refine_from fe : forall (k : nat) (h : list (tie * ev)) (s : st) (seen : list N),
  (length h <= k)%nat ->
  ginv fe s -> (forall i, In i (map fst (ints s)) -> In i seen) ->
  wf_from seen (now s) (shut s) h ->
  ginv fe (fold_left (step fe) h s) /\
  forall i, abs (fold_left (step fe) h s) i = fold_left (spec_step fe i) h (abs s i).
Proof.
  induction k as [|k IH]; intros h s seen Len [I SH] SEEN WF.
  - destruct h; [|cbn in Len; lia]. cbn. split; [split; auto | auto].
  - destruct h as [|[m e] rest]; [cbn; split; [split; auto | auto]|].
    cbn [length] in Len.

    destruct e as [i n cbp dig life vm t| | | | | | | | | | ].
    + (* Express, then Await *)
      cbn [wf_from] in WF. destruct rest as [|[m' e'] h']; [destruct WF|]. destruct e'; try (exfalso; exact WF).
      destruct WF as [-> [-> [-> [-> [LE [L [NS [S WF]]]]]]]].
      cbn [fold_left].
      assert (G : get_int s i = None).
      { unfold get_int. apply al_get_None_notin. intros X. apply NS, SEEN, X. }
      destruct (step_express_await fe s i n cbp dig life vm t I SH LE L G S) as [I' [SH' [A' [N' [S' IDS']]]]].
      set (s' := step fe (step fe s (NoTie, Express i n cbp dig life vm t)) (NoTie, Await i t)) in *.
      destruct (IH h' s' (i :: seen)) as [GI AB].
      * cbn [length] in Len. lia.
      * split; auto.
      * intros j Ij. rewrite IDS' in Ij. apply in_app_iff in Ij. destruct Ij as [Ij|[<-|[]]]; [right; apply SEEN, Ij | left; reflexivity].
      * rewrite N', S'. rewrite S in WF. exact WF.
      * split; auto. intros j. rewrite AB, A'. reflexivity.
    + destruct WF.
    + destruct WF as [LE WF]. cbn [fold_left].
      destruct (step_plain fe s m (Data d n hash t) I SH LE eq_refl) as [I' [SH' [A' [N' [S' IDS']]]]].
      destruct (IH rest (step fe s (m, Data d n hash t)) seen) as [GI AB]; [lia | split; auto | rewrite IDS'; auto | rewrite N', S'; exact WF |].
      split; auto. intros j. rewrite AB, A'. reflexivity.
    + destruct WF as [LE WF]. cbn [fold_left].
      destruct (step_plain fe s m (Nack n dig reason t) I SH LE eq_refl) as [I' [SH' [A' [N' [S' IDS']]]]].
      destruct (IH rest (step fe s (m, Nack n dig reason t)) seen) as [GI AB]; [lia | split; auto | rewrite IDS'; auto | rewrite N', S'; exact WF |].
      split; auto. intros j. rewrite AB, A'. reflexivity.
    + destruct WF as [LE WF]. cbn [fold_left].
      destruct (step_plain fe s m (VDone i v t) I SH LE eq_refl) as [I' [SH' [A' [N' [S' IDS']]]]].
      destruct (IH rest (step fe s (m, VDone i v t)) seen) as [GI AB]; [lia | split; auto | rewrite IDS'; auto | rewrite N', S'; exact WF |].
      split; auto. intros j. rewrite AB, A'. reflexivity.
    + destruct WF as [LE WF]. cbn [fold_left].
      destruct (step_plain fe s m (Cancel i t) I SH LE eq_refl) as [I' [SH' [A' [N' [S' IDS']]]]].
      destruct (IH rest (step fe s (m, Cancel i t)) seen) as [GI AB]; [lia | split; auto | rewrite IDS'; auto | rewrite N', S'; exact WF |].
      split; auto. intros j. rewrite AB, A'. reflexivity.
    + destruct WF as [LE WF]. cbn [fold_left].
      destruct (step_plain fe s m (Shutdown t) I SH LE eq_refl) as [I' [SH' [A' [N' [S' IDS']]]]].
      destruct (IH rest (step fe s (m, Shutdown t)) seen) as [GI AB]; [lia | split; auto | rewrite IDS'; auto | rewrite N', S'; exact WF |].
      split; auto. intros j. rewrite AB, A'. reflexivity.
    + destruct WF as [LE WF]. cbn [fold_left].
      destruct (step_plain fe s m (AdvanceTo t) I SH LE eq_refl) as [I' [SH' [A' [N' [S' IDS']]]]].
      destruct (IH rest (step fe s (m, AdvanceTo t)) seen) as [GI AB]; [lia | split; auto | rewrite IDS'; auto | rewrite N', S'; exact WF |].
      split; auto. intros j. rewrite AB, A'. reflexivity.
    + destruct WF as [LE WF]. cbn [fold_left].
      destruct (step_plain fe s m (Attach p hasv t) I SH LE eq_refl) as [I' [SH' [A' [N' [S' IDS']]]]].
      destruct (IH rest (step fe s (m, Attach p hasv t)) seen) as [GI AB]; [lia | split; auto | rewrite IDS'; auto | rewrite N', S'; exact WF |].
      split; auto. intros j. rewrite AB, A'. reflexivity.
    + destruct WF as [LE WF]. cbn [fold_left].
      destruct (step_plain fe s m (Incoming k0 n has_params sig digest_ok v t) I SH LE eq_refl) as [I' [SH' [A' [N' [S' IDS']]]]].
      destruct (IH rest (step fe s (m, Incoming k0 n has_params sig digest_ok v t)) seen) as [GI AB]; [lia | split; auto | rewrite IDS'; auto | rewrite N', S'; exact WF |].
      split; auto. intros j. rewrite AB, A'. reflexivity.
    + destruct WF as [LE WF]. cbn [fold_left].
      destruct (step_plain fe s m (SetDefault own t) I SH LE eq_refl) as [I' [SH' [A' [N' [S' IDS']]]]].
      destruct (IH rest (step fe s (m, SetDefault own t)) seen) as [GI AB]; [lia | split; auto | rewrite IDS'; auto | rewrite N', S'; exact WF |].
      split; auto. intros j. rewrite AB, A'. reflexivity.
Qed.
