(* Big-step summary of every keychain operation: all results and final states an operation can have,
   with or without an injected storage failure, as explicit functions of the state before.
   [outs F o c x]: x = (result, state after) is possible for operation o from state c; F = a failure
   may have been injected. *)
From NDN Require Import Base.Prelude Model.Keychain Spec.KeychainSpec.
From NDN Require Import Proofs.KeychainTables Proofs.KeychainHoare Proofs.KeychainInv.
Local Open Scope N_scope.

Definition outcome := (res rv * cst)%type.
Definition commit_db (t : tables) (c : cst) : cst := mkC t t (tpm c) (cache c).

Lemma quiet_ne f f' : quiet f f' -> f' <> None -> f <> None.
Proof. unfold quiet. intros H N E. auto. Qed.

(* ---- transactions started on a clean connection ------------------------------------------------------ *)
Lemma wp_txn1 fn (Q : res unit -> st -> Prop) c f :
  disk c = db c ->
  (forall t f', fn (db c) = Ok t -> quiet f f' -> Q (Ok tt) (mkSt (commit_db t c) f')) ->
  (forall e, (e = EFault /\ f <> None) \/ fn (db c) = Err e -> Q (Err e) (mkSt c None)) ->
  wp (with_conn (sql_w fn)) Q (mkSt c f).
Proof.
  intros Cl Hok Herr. apply wp_with_conn. apply wp_sql_w; cbn [core flt].
  - intros t f' E Hq. split.
    + intros f'' Hq'. destruct c; cbn in *. apply (Hok t f''); [assumption | eapply quiet_trans; eassumption].
    + intros N. rewrite rollback_set_db by assumption. apply Herr. left. split; [reflexivity | eapply quiet_ne; eassumption].
  - intros e He. rewrite rollback_clean by assumption. apply Herr. assumption.
Qed.
Lemma wp_txn2 fn gn (Q : res unit -> st -> Prop) c f :
  disk c = db c ->
  (forall t1 t2 f', fn (db c) = Ok t1 -> gn t1 = Ok t2 -> quiet f f' -> Q (Ok tt) (mkSt (commit_db t2 c) f')) ->
  (forall e, (e = EFault /\ f <> None) \/ fn (db c) = Err e \/ (exists t1, fn (db c) = Ok t1 /\ gn t1 = Err e) ->
             Q (Err e) (mkSt c None)) ->
  wp (with_conn (sql_w fn >> sql_w gn)) Q (mkSt c f).
Proof.
  intros Cl Hok Herr. apply wp_with_conn. apply wp_bind. apply wp_sql_w; cbn [core flt].
  - intros t1 f1 E1 Hq1. apply wp_sql_w; cbn [core flt].
    + intros t2 f2 E2 Hq2. destruct c; cbn in *. split.
      * intros f3 Hq3. apply (Hok t1 t2 f3); auto. eapply quiet_trans; [eassumption|]. eapply quiet_trans; eassumption.
      * intros N. subst. apply Herr. left. split; [reflexivity|].
        eapply quiet_ne; [eassumption|]. eapply quiet_ne; eassumption.
    + intros e He. destruct c; cbn in *. subst. apply Herr. destruct He as [[-> N] | He].
      * left. split; [reflexivity | eapply quiet_ne; eassumption].
      * right. right. eauto.
  - intros e He. rewrite rollback_clean by assumption. apply Herr. tauto.
Qed.

Section Outs.
  Variable F : Prop.     (* a storage failure may have been injected *)

  (* one statement in its own transaction, then [fin] (e.g. the cache reset) *)
  Definition out_txn1 (fn : tables -> res tables) (fin : cst -> cst) (c : cst) (x : outcome) : Prop :=
    (exists t, fn (db c) = Ok t /\ x = (Ok RNone, fin (commit_db t c)))
    \/ (exists e, fn (db c) = Err e /\ x = (Err e, c))
    \/ (F /\ x = (Err EFault, c)).

  Definition out_new_identity (n : name) (c : cst) (x : outcome) : Prop :=
    if kc_contains n (db c) then x = (Err EKey, c) else
    (exists t1 i, sql_insert_identity n (db c) = Ok t1 /\ kc_get n t1 = Ok i /\ x = (Ok (rv_ident i), commit_db t1 c))
    \/ (F /\ x = (Err EFault, c)).

  (* the name TpmFile.generate_key gives to the new key, or why it refuses *)
  Definition new_key_name (idn : name) (kt : N) (ks : kidspec) (tp : list (name * N)) : res name :=
    if 2 <=? kt then Err EValue else
    do kid <- (match ks with KidExplicit k => Ok k | KidRandom cs => pick_kid idn cs tp end) ;;
    let kn := idn ++ [C_KEY; kid] in
    if al_mem name_eqb tp kn then Err EKey else Ok kn.
  Definition new_key_db (i : row) (kn : name) (m v : N) (t : tables) : res tables :=
    do t1 <- sql_insert_key (r_id i) kn m t ;; sql_insert_cert kn (kn ++ [C_SELF; v]) 0 t1.

  Definition out_new_key (idn : name) (kt : N) (ks : kidspec) (m v : N) (c : cst) (x : outcome) : Prop :=
    if negb (kc_contains idn (db c)) then x = (Err EKey, c) else
    match kc_get idn (db c) with
    | Err e => x = (Err e, c)
    | Ok i =>
      match new_key_name idn kt ks (tpm c) with
      | Err e => x = (Err e, c)
      | Ok kn =>
          (exists t2 k, new_key_db i kn m v (db c) = Ok t2 /\ id_get i kn t2 = Ok k /\
                        x = (Ok (rv_key k), mkC t2 t2 (al_set name_eqb (tpm c) kn m) (cache c)))
          \/ (exists e, new_key_db i kn m v (db c) = Err e /\ x = (Err e, do_rollback c))
          \/ (F /\ (x = (Err EFault, c) \/ x = (Err EFault, do_rollback c)))
      end
    end.

  Definition out_touch (n : name) (cs : list N) (m v : N) (c : cst) (x : outcome) : Prop :=
    let t := db c in
    if kc_contains n t then
      if scope_has_def 0 (t_ids t) then exists i, kc_get n t = Ok i /\ x = (Ok (rv_ident i), c)
      else (exists t' i, sql_default_identity n t = Ok t' /\ kc_get n t' = Ok i /\ x = (Ok (rv_ident i), commit_db t' c))
           \/ (F /\ x = (Err EFault, c))
    else
      (F /\ x = (Err EFault, c)) \/
      match sql_insert_identity n t with
      | Err e => x = (Err e, c)
      | Ok t1 =>
        match kc_get n t1 with
        | Err e => x = (Err e, c)
        | Ok i =>
          match new_key_name n 0 (KidRandom cs) (tpm c) with
          | Err e => x = (Err e, c)
          | Ok kn =>
              (exists t3 i', new_key_db i kn m v t1 = Ok t3 /\ kc_get n t3 = Ok i' /\
                 let c3 := mkC t3 t3 (al_set name_eqb (tpm c) kn m) (cache c) in
                 (x = (Ok (rv_ident i'), c3) \/ (F /\ x = (Err EFault, c3))))
              \/ (exists e, new_key_db i kn m v t1 = Err e /\ x = (Err e, c))
          end
        end
      end.

  Definition del_key_db (k : row) (kn : name) (t : tables) : tables :=
    mkT (t_ids t) (r_delete_name kn (t_keys t)) (r_delete_scope (r_id k) (t_certs t)).
  Definition out_del_key (kn : name) (c : cst) (x : outcome) : Prop :=
    match kc_get (drop2 kn) (db c) with
    | Err e => x = (Err e, c)
    | Ok i =>
      match id_get i kn (db c) with
      | Err e => x = (Err e, c)
      | Ok k =>
          x = (Ok RNone, mkC (del_key_db k kn (db c)) (del_key_db k kn (db c)) (al_del name_eqb (tpm c) kn) [])
          \/ (F /\ x = (Err EFault, set_cache [] c))
          \/ (F /\ x = (Err EFault, set_tpm (al_del name_eqb (tpm c) kn) (set_cache [] c)))
      end
    end.

  Inductive del_ident_out (n : name) : list name -> cst -> outcome -> Prop :=
  | DI_nil_ok c t' : sql_delete_identity n (db c) = Ok t' ->
                     del_ident_out n [] c (Ok RNone, set_cache [] (commit_db t' c))
  | DI_nil_fault c : F -> del_ident_out n [] c (Err EFault, c)
  | DI_err k ks c e c' : out_del_key k c (Err e, c') -> del_ident_out n (k :: ks) c (Err e, c')
  | DI_step k ks c c' x : out_del_key k c (Ok RNone, c') -> del_ident_out n ks c' x -> del_ident_out n (k :: ks) c x.
  Definition out_del_identity (n : name) (c : cst) (x : outcome) : Prop :=
    match kc_get n (db c) with
    | Err e => x = (Err e, c)
    | Ok i => del_ident_out n (v_iter (r_id i) (t_keys (db c))) c x
    end.

  Definition out_get_signer (a : sign_args) (c : cst) (x : outcome) : Prop :=
    if a_nosig a then x = (Ok (RSigner SgNone), c) else
    if a_digest a then x = (Ok (RSigner SgDigest), c) else
    match resolve_args a (db c) with
    | Err e => x = (Err e, c)
    | Ok kc =>
        let kn := fst kc in
        let loc := match a_locator a with Some l => l | None => snd kc end in
        match al_get ckey_eqb (cache c) (kn, loc) with
        | Some g => x = (Ok (RSigner g), c)
        | None =>
            match al_get name_eqb (tpm c) kn with
            | Some m => x = (Ok (RSigner (SgKey m loc)), set_cache (al_set ckey_eqb (cache c) (kn, loc) (SgKey m loc)) c)
                        \/ (F /\ x = (Err EFault, c))
            | None => x = (Err EKey, c) \/ (F /\ x = (Err EFault, c))
            end
        end
    end.

  Definition guarded {A} (r : res A) (c : cst) (k : A -> outcome -> Prop) (x : outcome) : Prop :=
    match r with Err e => x = (Err e, c) | Ok a => k a x end.

  Definition outs (o : op) (c : cst) (x : outcome) : Prop :=
    let t := db c in
    match o with
    | ONewIdentity n => out_new_identity n c x
    | OTouchIdentity n cs m v => out_touch n cs m v c x
    | ONewKey idn kt ks m v => out_new_key idn kt ks m v c x
    | OImportCert kn cn d => out_txn1 (sql_insert_cert kn cn d) (fun c => c) c x
    | OSetDefaultIdentity n => out_txn1 (sql_default_identity n) (fun c => c) c x
    | OSetDefaultKey idn kn => guarded (kc_get idn t) c (fun _ => out_txn1 (sql_default_key kn) (fun c => c) c) x
    | OSetDefaultCert idn kn cn =>
        guarded (kc_get idn t) c (fun i => guarded (id_get i kn t) c (fun _ => out_txn1 (sql_default_cert cn) (fun c => c) c)) x
    | ODelCert cn => out_txn1 (sql_delete_cert cn) (set_cache []) c x
    | ODelKey kn => out_del_key kn c x
    | ODelIdentity n => out_del_identity n c x
    | OIdDelKey idn kn => guarded (kc_get idn t) c (fun _ => out_del_key kn c) x
    | OKeyDelCert idn kn cn =>
        guarded (kc_get idn t) c (fun i => guarded (id_get i kn t) c (fun _ => out_txn1 (sql_delete_cert cn) (set_cache []) c)) x
    | OGetSigner a => out_get_signer a c x
    | OReopen => x = (Ok RNone, do_reopen c)
    end.
End Outs.
