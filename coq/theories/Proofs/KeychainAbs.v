(* The abstraction from tables to the nested maps of Spec/KeychainSpec.v; the Mapping views and the
   signer selection of the model are those of the specification on the abstract state. *)
From NDN Require Import Base.Prelude Model.Keychain Spec.KeychainSpec.
From NDN Require Import Proofs.KeychainTables Proofs.KeychainHoare Proofs.KeychainInv Proofs.KeychainOutcome
  Proofs.KeychainOutcomeA Proofs.KeychainOutcomeB Proofs.KeychainInvariant.
Local Open Scope N_scope.

Definition scope_map {V} (g : row -> V) (p : N) (l : rows) : list (name * V) :=
  map (fun r => (r_name r, g r)) (filter (in_scope p) l).
Definition scope_defname (p : N) (l : rows) : option name := option_map r_name (scope_default p l).

Definition abs_key (t : tables) (k : row) : skey :=
  mkSK (r_val k) (scope_map r_val (r_id k) (t_certs t)) (scope_defname (r_id k) (t_certs t)).
Definition abs_ident (t : tables) (i : row) : sident :=
  mkSI (scope_map (abs_key t) (r_id i) (t_keys t)) (scope_defname (r_id i) (t_keys t)).
Definition abs_tables (t : tables) (tp : list (name * N)) : skc :=
  mkSKC (scope_map (abs_ident t) 0 (t_ids t)) (scope_defname 0 (t_ids t)) tp.
Definition abs (c : cst) : skc := abs_tables (db c) (tpm c).

(* ---- one scope of one table as a finite map ----------------------------------------------------------- *)
Lemma scope_map_names {V} (g : row -> V) p l : view_names (scope_map g p l) = v_iter p l.
Proof. unfold view_names, scope_map, v_iter. rewrite map_map. reflexivity. Qed.
Lemma scope_map_len {V} (g : row -> V) p l : view_len (scope_map g p l) = v_len p l.
Proof. unfold view_len, scope_map, v_len. apply map_length. Qed.
Lemma scope_map_get {V} (g : row -> V) p l n :
  view_get (scope_map g p l) n = match v_get p n l with Ok r => Some (g r) | Err _ => None end.
Proof.
  unfold view_get, scope_map, v_get. induction l as [|x l IH]; cbn; [reflexivity|].
  destruct (in_scope p x) eqn:S; cbn.
  - unfold has_name. rewrite (name_eqb_sym n (r_name x)). destruct (name_eqb (r_name x) n); cbn; [reflexivity | exact IH].
  - rewrite andb_false_r. exact IH.
Qed.
Lemma scope_map_mem {V} (g : row -> V) p l n : view_mem (scope_map g p l) n = v_contains p n l.
Proof.
  unfold view_mem, al_mem, v_contains. fold (view_get (scope_map g p l) n). rewrite scope_map_get.
  destruct (v_get p n l); reflexivity.
Qed.
Lemma scope_defname_default p l : scope_defname p l = opt_name (v_default p l).
Proof. unfold scope_defname, v_default, opt_name. destruct (scope_default p l); reflexivity. Qed.

(* ---- facts about finite maps: the four view operations agree ------------------------------------------- *)
Lemma view_mem_names {V} (m : list (name * V)) n : view_mem m n = true <-> In n (view_names m).
Proof.
  unfold view_mem, al_mem, view_names. destruct (al_get name_eqb m n) eqn:E.
  - split; [|reflexivity]. intros _. apply (al_get_some_in name_eqb name_eqb_eq) in E.
    apply in_map_iff. exists (n, v). auto.
  - apply (al_get_none name_eqb name_eqb_eq) in E. split; [discriminate | contradiction].
Qed.
Lemma view_get_mem {V} (m : list (name * V)) n : (exists v, view_get m n = Some v) <-> view_mem m n = true.
Proof. unfold view_mem, al_mem, view_get. destruct (al_get name_eqb m n); split; eauto; try discriminate. intros [v H]. discriminate. Qed.
Lemma view_len_names {V} (m : list (name * V)) : view_len m = length (view_names m).
Proof. unfold view_len, view_names. symmetry. apply map_length. Qed.

(* ---- lookups in the abstract state ----------------------------------------------------------------------- *)
Lemma abs_ident_get t tp n :
  s_ident (abs_tables t tp) n = match kc_get n t with Ok i => Some (abs_ident t i) | Err _ => None end.
Proof. unfold s_ident, abs_tables, kc_get. cbn. apply (scope_map_get (abs_ident t)). Qed.
Lemma abs_key_get t i n :
  nget (si_keys (abs_ident t i)) n = match id_get i n t with Ok k => Some (abs_key t k) | Err _ => None end.
Proof. unfold abs_ident, id_get. cbn. apply (scope_map_get (abs_key t)). Qed.
Lemma abs_cert_get t k n :
  nget (sk_certs (abs_key t k)) n = match key_get k n t with Ok c => Some (r_val c) | Err _ => None end.
Proof. unfold abs_key, key_get. cbn. apply (scope_map_get r_val). Qed.
Lemma abs_s_key t tp kn :
  s_key (abs_tables t tp) kn =
  match kc_get (drop2 kn) t with
  | Ok i => match id_get i kn t with Ok k => Some (abs_key t k) | Err _ => None end
  | Err _ => None
  end.
Proof.
  unfold s_key. rewrite abs_ident_get. destruct (kc_get (drop2 kn) t) as [i|]; cbn; [|reflexivity].
  apply abs_key_get.
Qed.

(* ---- the views of the model are the views of the specification ------------------------------------------ *)
Record view_agrees {V} (m : list (name * V)) (p : N) (l : rows) : Prop := mkVA {
  va_iter : view_names m = v_iter p l;
  va_len : view_len m = v_len p l;
  va_mem : forall n, view_mem m n = v_contains p n l;
  va_get : forall n, (exists v, view_get m n = Some v) <-> is_ok (v_get p n l) = true
}.
Lemma scope_map_agrees {V} (g : row -> V) p l : view_agrees (scope_map g p l) p l.
Proof.
  constructor.
  - apply scope_map_names.
  - apply scope_map_len.
  - apply scope_map_mem.
  - intros n. rewrite scope_map_get. destruct (v_get p n l); cbn; split; eauto; try discriminate. intros [v H]. discriminate.
Qed.

Theorem views_refine c :
  let a := abs c in let t := db c in
  view_agrees (s_ids a) 0 (t_ids t) /\
  (forall i, In i (t_ids t) -> view_agrees (si_keys (abs_ident t i)) (r_id i) (t_keys t)) /\
  (forall k, In k (t_keys t) -> view_agrees (sk_certs (abs_key t k)) (r_id k) (t_certs t)).
Proof. cbn. split; [|split]; intros; apply scope_map_agrees. Qed.

(* consistency of one view, in model terms: iteration, len, membership, lookup agree; no duplicates *)
Record view_consistent (p : N) (l : rows) : Prop := mkVC {
  vc_len : v_len p l = length (v_iter p l);
  vc_mem : forall n, v_contains p n l = true <-> In n (v_iter p l);
  vc_get : forall n r, v_get p n l = Ok r -> r_name r = n /\ r_par r = p /\ In n (v_iter p l);
  vc_miss : forall n e, v_get p n l = Err e -> e = EKey /\ ~ In n (v_iter p l);
  vc_nodup : NoDup (v_iter p l)
}.
Lemma view_consistent_wf p l : wf_rows l -> view_consistent p l.
Proof.
  intros W. constructor.
  - apply v_len_iter.
  - intros n. apply v_contains_iter.
  - intros n r H. apply v_get_ok in H. destruct H as [H1 [H2 H3]]. repeat split; auto. apply v_iter_in. eauto.
  - intros n e. apply v_get_err.
  - apply v_iter_nodup. assumption.
Qed.

(* ---- the signer selection ------------------------------------------------------------------------------------ *)
Lemma default_cert_name_abs t k :
  to_option (default_cert_name k t) = sk_defcert (abs_key t k).
Proof.
  unfold default_cert_name, abs_key. cbn. rewrite scope_defname_default.
  destruct (v_default (r_id k) (t_certs t)); reflexivity.
Qed.

Lemma resolve_select a t tp :
  wf_tables t -> to_option (resolve_args a t) = s_select a (abs_tables t tp).
Proof.
  intros W. unfold resolve_args, s_select. destruct (a_cert a) as [cn|]; [reflexivity|].
  destruct (a_key a) as [kn|].
  - rewrite abs_s_key. destruct (kc_get (drop2 kn) t) as [i|]; cbn [bind obind to_option]; [|reflexivity].
    destruct (id_get i kn t) as [k|]; cbn [bind obind to_option]; [|reflexivity].
    rewrite <- default_cert_name_abs. destruct (default_cert_name k t); reflexivity.
  - assert (Hid : forall r : res row,
               (match a_ident a with Some idn => kc_get idn t = r | None => v_default 0 (t_ids t) = r end) ->
               to_option (do i <- r ;; do k <- v_default (r_id i) (t_keys t) ;; do cn <- default_cert_name k t ;; Ok (r_name k, cn)) =
               (odo idn <- (match a_ident a with Some n => Some n | None => s_defid (abs_tables t tp) end) ;;
                odo i <- s_ident (abs_tables t tp) idn ;; odo kn <- si_defkey i ;;
                odo k <- nget (si_keys i) kn ;; odo d <- sk_defcert k ;; Some (kn, d))).
    { intros r Hr.
      assert (Hi : forall i, r = Ok i ->
                to_option (do k <- v_default (r_id i) (t_keys t) ;; do cn <- default_cert_name k t ;; Ok (r_name k, cn)) =
                (odo kn <- si_defkey (abs_ident t i) ;; odo k <- nget (si_keys (abs_ident t i)) kn ;;
                 odo d <- sk_defcert k ;; Some (kn, d))).
      { intros i _. change (si_defkey (abs_ident t i)) with (scope_defname (r_id i) (t_keys t)). rewrite scope_defname_default.
        destruct (v_default (r_id i) (t_keys t)) as [k|] eqn:D; cbn [bind obind to_option]; [|reflexivity].
        apply v_default_ok in D. destruct D as [Hk [_ Pk]].
        cbn [opt_name obind]. rewrite abs_key_get.
        unfold id_get. rewrite (v_get_in _ _ _ _ (wf_k _ W) Hk eq_refl Pk). cbn [bind obind to_option].
        rewrite <- default_cert_name_abs. destruct (default_cert_name k t); reflexivity. }
      destruct (a_ident a) as [idn|]; cbn [obind].
      - rewrite abs_ident_get. subst r. destruct (kc_get idn t) as [i|] eqn:G; cbn [bind obind to_option]; [|reflexivity]. apply Hi. reflexivity.
      - unfold abs_tables at 1. cbn [s_defid]. rewrite scope_defname_default. subst r.
        destruct (v_default 0 (t_ids t)) as [i|] eqn:D; cbn [bind obind to_option]; [|reflexivity].
        cbn [opt_name obind]. rewrite abs_ident_get. apply v_default_ok in D. destruct D as [Hi0 [_ Pi]].
        rewrite (kc_get_in _ _ _ W Hi0 eq_refl). apply Hi. reflexivity. }
    destruct (a_ident a) as [idn|]; apply Hid; reflexivity.
Qed.

(* what the model hands out is what the specification selects *)
Theorem get_signer_refines f a c g c' :
  inv c -> run_op f (OGetSigner a) c = (Ok (RSigner g), c') -> signer_of a (abs c) = Some g.
Proof.
  intros I R. pose proof (run_op_outs f (OGetSigner a) c (inv_clean _ I) (inv_wf _ I)) as H. rewrite R in H.
  cbn [outs] in H. unfold out_get_signer in H. unfold signer_of.
  destruct (a_nosig a); [inversion H; reflexivity|]. destruct (a_digest a); [inversion H; reflexivity|].
  unfold abs. rewrite <- (resolve_select a (db c) (tpm c) (inv_wf _ I)).
  destruct (resolve_args a (db c)) as [kc|]; [|discriminate]. cbn [to_option obind abs_tables s_tpm].
  destruct (al_get ckey_eqb (cache c) _) as [g0|] eqn:Hit.
  - inversion H; subst. destruct (inv_cache _ I _ _ _ Hit) as [m [Hm ->]]. rewrite Hm. reflexivity.
  - destruct (al_get name_eqb (tpm c) (fst kc)) as [m|] eqn:Em.
    + destruct H as [H | [_ H]]; inversion H; subst. reflexivity.
    + destruct H as [H | [_ H]]; inversion H.
Qed.
(* ... and, without an injected failure, every signer the specification selects is handed out *)
Theorem get_signer_complete a c g :
  inv c -> signer_of a (abs c) = Some g -> fst (run_op None (OGetSigner a) c) = Ok (RSigner g).
Proof.
  intros I S. pose proof (run_op_outs None (OGetSigner a) c (inv_clean _ I) (inv_wf _ I)) as H.
  destruct (run_op None (OGetSigner a) c) as [r c']. cbn [outs fst] in *. unfold out_get_signer in H. unfold signer_of in S.
  destruct (a_nosig a); [inversion H; inversion S; reflexivity|]. destruct (a_digest a); [inversion H; inversion S; reflexivity|].
  unfold abs in S. rewrite <- (resolve_select a (db c) (tpm c) (inv_wf _ I)) in S.
  destruct (resolve_args a (db c)) as [kc|]; [|discriminate]. cbn [to_option obind abs_tables s_tpm] in S.
  destruct (al_get name_eqb (tpm c) (fst kc)) as [m|] eqn:Em; [|discriminate]. cbn in S. inversion S; subst g.
  destruct (al_get ckey_eqb (cache c) _) as [g0|] eqn:Hit.
  - inversion H; subst. destruct (inv_cache _ I _ _ _ Hit) as [m' [Hm ->]]. congruence.
  - destruct H as [H | [N _]]; [inversion H; reflexivity | exfalso; apply N; reflexivity].
Qed.

(* the signer belongs to a key that is listed, under its identity, with the public bits of that private key *)
Theorem signer_key_listed a c m loc :
  inv c -> signer_of a (abs c) = Some (SgKey m loc) ->
  exists kn cn k, s_select a (abs c) = Some (kn, cn) /\ s_key (abs c) kn = Some k /\ sk_bits k = m /\
                  loc = match a_locator a with Some l => l | None => cn end.
Proof.
  intros I S. unfold signer_of in S. destruct (a_nosig a); [discriminate|]. destruct (a_digest a); [discriminate|].
  destruct (s_select a (abs c)) as [[kn cn]|] eqn:Sel; [|discriminate]. cbn [obind fst snd] in S.
  unfold abs in S at 1. cbn [abs_tables s_tpm] in S.
  destruct (al_get name_eqb (tpm c) kn) as [m0|] eqn:Em; [|discriminate]. cbn in S. inversion S; subst.
  destruct (inv_sub _ I _ _ Em) as [k [Hk [Nk Vk]]].
  destruct (wf_kref _ (inv_wf _ I) _ Hk) as [i [Hi Ei]].
  destruct (wf_kname _ (inv_wf _ I) _ _ Hk Hi Ei) as [Dn _].
  exists kn, cn, (abs_key (db c) k). repeat split; auto.
  unfold abs. rewrite abs_s_key. rewrite Nk in Dn. rewrite Dn.
  rewrite (kc_get_in _ _ _ (inv_wf _ I) Hi eq_refl).
  unfold id_get. rewrite (v_get_in _ _ _ _ (wf_k _ (inv_wf _ I)) Hk Nk (eq_sym Ei)). reflexivity.
Qed.
