(* Building blocks for relating _replicate_rules to Spec/LvsSem.expand: representation is preserved by appending
   pieces with disjoint temporary tags and by renaming temporary tags injectively. *)
From NDN Require Import Base.Prelude Base.Text Model.TlvVar Model.Name Model.LvsAst Model.LvsChecker Model.LvsCompiler
  Spec.LvsSem Spec.LvsTree Proofs.LvsFlatten Proofs.LvsGenTree Proofs.LvsCompileTree Proofs.LvsNumbering Proofs.LvsRepresents Proofs.LvsRename.
Local Open Scope N_scope.

Definition mkch (name : list ncomp) (cons : list ncons) : chain :=
  {| ch_id := []; ch_name := name; ch_cons := cons; ch_sign := [] |}.

Definition opts_for (cons : list ncons) (t : Z) : list (list nopt) :=
  map nc_opts (filter (fun c => zmem t (nc_pat c)) cons).

Lemma cons_opts_for_mk name cons t : cons_opts_for (mkch name cons) t = opts_for cons t.
Proof. reflexivity. Qed.

Lemma opts_for_app a b t : opts_for (a ++ b) t = opts_for a t ++ opts_for b t.
Proof. unfold opts_for. rewrite filter_app, map_app. reflexivity. Qed.

Lemma opts_for_none cons t : (forall c, In c cons -> zmem t (nc_pat c) = false) -> opts_for cons t = [].
Proof.
  intros H. unfold opts_for. induction cons as [|c cons IH]; [reflexivity|]. cbn. rewrite (H c (or_introl eq_refl)). apply IH.
  intros c0 Hc0. apply H. right. exact Hc0.
Qed.

(* pattern lists of constraints: all temporary (negative), or one named tag *)
Definition pat_wf (c : ncons) : Prop := (forall t, In t (nc_pat c) -> (t < 0)%Z) \/ (exists t, nc_pat c = [t] /\ (0 < t)%Z).

Definition mentions (cons : list ncons) (t : Z) : Prop := exists c, In c cons /\ In t (nc_pat c).

Lemma not_mentions_opts cons t : ~ mentions cons t -> opts_for cons t = [].
Proof.
  intros H. apply opts_for_none. intros c Hc. destruct (zmem t (nc_pat c)) eqn:E; [|reflexivity].
  exfalso. apply H. exists c. split; [exact Hc | apply zmem_in; exact E].
Qed.

Section A.
  Variable named : list (ident * N).

  (* representation only depends on the constraints through opts_for at the tags of the name *)
  Lemma comp_rep_ext name cons name' cons' fc nc :
    (forall t, nc = NPat t -> (t < 0)%Z -> opts_for cons' t = opts_for cons t) ->
    comp_rep named (mkch name cons) fc nc -> comp_rep named (mkch name' cons') fc nc.
  Proof.
    intros H. destruct fc as [x|p|cs], nc as [y|t|r]; cbn; auto.
    intros [Hn Hf]. split; [exact Hn|]. change (Forall2 (optlist_rel named) cs (opts_for cons' t)). rewrite (H t eq_refl Hn). exact Hf.
  Qed.

  Definition fapp (a b : flat) : flat := {| f_comps := f_comps a ++ f_comps b; f_ncons := f_ncons a ++ f_ncons b |}.

  Lemma cons_on_app p a b : cons_on p (a ++ b) = cons_on p a ++ cons_on p b.
  Proof. unfold cons_on. rewrite filter_app, map_app. reflexivity. Qed.

  Lemma rep_app nA cA fA nB cB fB :
    represents named (mkch nA cA) fA -> represents named (mkch nB cB) fB ->
    (forall t, In (NPat t) nA -> (t < 0)%Z -> ~ mentions cB t) ->
    (forall t, In (NPat t) nB -> (t < 0)%Z -> ~ mentions cA t) ->
    represents named (mkch (nA ++ nB) (cA ++ cB)) (fapp fA fB).
  Proof.
    intros [A1 A2] [B1 B2] HAB HBA. constructor; cbn [ch_name ch_cons mkch fapp f_comps f_ncons] in *.
    - assert (GA : forall l l', Forall2 (comp_rep named (mkch nA cA)) l l' -> (forall t, In (NPat t) l' -> (t < 0)%Z -> ~ mentions cB t) ->
                               Forall2 (comp_rep named (mkch (nA ++ nB) (cA ++ cB))) l l').
      { intros l l' F. induction F as [|fc nc l l' H _ IH]; intros Hm; constructor.
        - eapply comp_rep_ext; [|exact H]. intros t -> Hn. rewrite opts_for_app, (not_mentions_opts cB t), app_nil_r; [reflexivity|].
          apply Hm; [left; reflexivity | exact Hn].
        - apply IH. intros t Ht. apply Hm. right. exact Ht. }
      assert (GB : forall l l', Forall2 (comp_rep named (mkch nB cB)) l l' -> (forall t, In (NPat t) l' -> (t < 0)%Z -> ~ mentions cA t) ->
                               Forall2 (comp_rep named (mkch (nA ++ nB) (cA ++ cB))) l l').
      { intros l l' F. induction F as [|fc nc l l' H _ IH]; intros Hm; constructor.
        - eapply comp_rep_ext; [|exact H]. intros t -> Hn. rewrite opts_for_app, (not_mentions_opts cA t); [reflexivity|].
          apply Hm; [left; reflexivity | exact Hn].
        - apply IH. intros t Ht. apply Hm. right. exact Ht. }
      apply Forall2_app; [apply GA; assumption | apply GB; assumption].
    - intros p t Hp. rewrite cons_on_app. change (Forall2 (optlist_rel named) (cons_on p (f_ncons fA) ++ cons_on p (f_ncons fB)) (opts_for (cA ++ cB) (Z.of_N t))).
      rewrite opts_for_app. apply Forall2_app; [apply (A2 p t Hp) | apply (B2 p t Hp)].
  Qed.

  (* ---- renaming ---------------------------------------------------------------------------------------------- *)
  Lemma lk_inj k k' mp a a' : mp_ok k k' mp -> (exists b, al_get Z.eqb mp a = Some b) -> (exists b, al_get Z.eqb mp a' = Some b) ->
    lk mp a = lk mp a' -> a = a'.
  Proof.
    intros Hok (b & Hb) (b' & Hb') E. unfold lk in E. rewrite Hb, Hb' in E. subst b'. eapply mo_inj; eauto.
  Qed.

  Lemma lk_neg k k' mp a : mp_ok k k' mp -> 1 <= k -> (exists b, al_get Z.eqb mp a = Some b) -> (lk mp a < 0)%Z /\ (Z.of_N k <= - lk mp a)%Z /\ (- lk mp a < Z.of_N k')%Z.
  Proof. intros Hok Hk (b & Hb). unfold lk. rewrite Hb. destruct (mo_range _ _ _ Hok _ _ Hb). lia. Qed.

  Lemma zmem_map_lk k k' mp t pats : mp_ok k k' mp ->
    (exists b, al_get Z.eqb mp t = Some b) -> (forall x, In x pats -> exists b, al_get Z.eqb mp x = Some b) ->
    zmem (lk mp t) (map (lk mp) pats) = zmem t pats.
  Proof.
    intros Hok Ht Hp. destruct (zmem t pats) eqn:E.
    - apply zmem_in in E. apply zmem_in. apply in_map. exact E.
    - destruct (zmem (lk mp t) (map (lk mp) pats)) eqn:E2; [|reflexivity]. apply zmem_in in E2. apply in_map_iff in E2.
      destruct E2 as (x & Ex & Hx). assert (x = t) by (eapply lk_inj; eauto). subst x. apply zmem_in in Hx. congruence.
  Qed.

  Lemma opts_for_rename_temp k k' mp cons t : mp_ok k k' mp -> 1 <= k -> Forall pat_wf cons -> (t < 0)%Z ->
    (exists b, al_get Z.eqb mp t = Some b) ->
    (forall c t0 l, In c cons -> nc_pat c = t0 :: l -> (t0 < 0)%Z -> forall x, In x (nc_pat c) -> exists b, al_get Z.eqb mp x = Some b) ->
    opts_for (map (rn_cons mp) cons) (lk mp t) = opts_for cons t.
  Proof.
    intros Hok Hk Hwf Hn Ht Hdom. unfold opts_for. induction cons as [|c cons IH]; [reflexivity|].
    inversion Hwf as [|? ? Hc Hwf']; subst. cbn [map filter].
    assert (Hz : zmem (lk mp t) (nc_pat (rn_cons mp c)) = zmem t (nc_pat c) /\ nc_opts (rn_cons mp c) = nc_opts c).
    { unfold rn_cons. destruct (nc_pat c) as [|t0 l] eqn:Ep; [rewrite Ep; auto|].
      destruct (Z.ltb_spec t0 0).
      - cbn [nc_pat nc_opts]. split; [|reflexivity]. rewrite <- Ep. apply (zmem_map_lk k k'); auto.
        intros x Hx. eapply (Hdom c t0 l); eauto. left; reflexivity.
      - rewrite Ep. split; [|reflexivity].
        destruct Hc as [Hc|(t1 & E1 & H1)].
        + exfalso. specialize (Hc t0). rewrite Ep in Hc. specialize (Hc (or_introl eq_refl)). lia.
        + rewrite Ep in E1. inversion E1; subst. destruct (lk_neg k k' mp t Hok Hk Ht) as (Hl & _).
          unfold zmem. cbn. destruct (Z.eqb_spec (lk mp t) t1); [lia|]. destruct (Z.eqb_spec t t1); [lia | reflexivity]. }
    destruct Hz as [Hz Ho]. rewrite Hz. destruct (zmem t (nc_pat c)); cbn [map]; [rewrite Ho; f_equal|]; apply IH; auto;
      intros c0 t1 l0 Hc0; apply Hdom; right; exact Hc0.
  Qed.

  Lemma opts_for_rename_named k k' mp cons (n : N) : mp_ok k k' mp -> 1 <= k -> Forall pat_wf cons ->
    (forall c t0 l, In c cons -> nc_pat c = t0 :: l -> (t0 < 0)%Z -> forall x, In x (nc_pat c) -> exists b, al_get Z.eqb mp x = Some b) ->
    opts_for (map (rn_cons mp) cons) (Z.of_N n) = opts_for cons (Z.of_N n).
  Proof.
    intros Hok Hk Hwf Hdom. unfold opts_for. induction cons as [|c cons IH]; [reflexivity|].
    inversion Hwf as [|? ? Hc Hwf']; subst. cbn [map filter].
    assert (Hz : zmem (Z.of_N n) (nc_pat (rn_cons mp c)) = zmem (Z.of_N n) (nc_pat c) /\ nc_opts (rn_cons mp c) = nc_opts c).
    { unfold rn_cons. destruct (nc_pat c) as [|t0 l] eqn:Ep; [rewrite Ep; auto|].
      destruct (Z.ltb_spec t0 0).
      - cbn [nc_pat nc_opts]. split; [|reflexivity].
        assert (Hneg : forall x, In x (t0 :: l) -> (x < 0)%Z).
        { destruct Hc as [Hc|(t1 & E1 & H1)]; [rewrite Ep in Hc; exact Hc | rewrite Ep in E1; inversion E1; subst; lia]. }
        assert (E1 : zmem (Z.of_N n) (t0 :: l) = false).
        { destruct (zmem (Z.of_N n) (t0 :: l)) eqn:E; [|reflexivity]. apply zmem_in in E. specialize (Hneg _ E). lia. }
        rewrite E1. destruct (zmem (Z.of_N n) (map (lk mp) (t0 :: l))) eqn:E; [|reflexivity]. apply zmem_in in E. apply in_map_iff in E.
        destruct E as (x & Ex & Hx). assert (Hb : exists b, al_get Z.eqb mp x = Some b) by (eapply (Hdom c t0 l); eauto; [left; reflexivity | rewrite Ep; exact Hx]).
        destruct (lk_neg k k' mp x Hok Hk Hb). lia.
      - rewrite Ep. auto. }
    destruct Hz as [Hz Ho]. rewrite Hz. destruct (zmem (Z.of_N n) (nc_pat c)); cbn [map]; [rewrite Ho; f_equal|]; apply IH; auto;
      intros c0 t1 l0 Hc0; apply Hdom; right; exact Hc0.
  Qed.

  Lemma rename_rep k k' mp name cons f : mp_ok k k' mp -> 1 <= k -> Forall pat_wf cons ->
    (forall t, In (NPat t) name -> (t < 0)%Z -> exists b, al_get Z.eqb mp t = Some b) ->
    (forall c t0 l, In c cons -> nc_pat c = t0 :: l -> (t0 < 0)%Z -> forall x, In x (nc_pat c) -> exists b, al_get Z.eqb mp x = Some b) ->
    represents named (mkch name cons) f ->
    represents named (mkch (map (rn_comp mp) name) (map (rn_cons mp) cons)) f.
  Proof.
    intros Hok Hk Hwf Hdn Hdc [R1 R2]. constructor; cbn [ch_name ch_cons mkch] in *.
    - clear R2.
      assert (G : forall l l', Forall2 (comp_rep named (mkch name cons)) l l' ->
                  (forall t, In (NPat t) l' -> (t < 0)%Z -> exists b, al_get Z.eqb mp t = Some b) ->
                  Forall2 (comp_rep named (mkch (map (rn_comp mp) name) (map (rn_cons mp) cons))) l (map (rn_comp mp) l')).
      { intros l l' F. induction F as [|fc nc l l' H _ IH]; intros Hd; cbn [map]; constructor.
        - destruct fc as [x|p|cs], nc as [y|t|r]; cbn in H |- *; try contradiction; auto.
          + destruct H as [Hp Hn]. destruct (Z.ltb_spec t 0); [lia|]. cbn. auto.
          + destruct H as [Hn Hf]. destruct (Z.ltb_spec t 0); [|lia]. cbn.
            assert (Hb : exists b, al_get Z.eqb mp t = Some b) by (apply Hd; [left; reflexivity | exact Hn]).
            destruct (lk_neg k k' mp t Hok Hk Hb) as (Hl & _). split; [exact Hl|].
            change (Forall2 (optlist_rel named) cs (opts_for (map (rn_cons mp) cons) (lk mp t))).
            rewrite (opts_for_rename_temp k k' mp cons t Hok Hk Hwf Hn Hb Hdc). exact Hf.
        - apply IH. intros t Ht. apply Hd. right. exact Ht. }
      apply G; assumption.
    - intros p t Hp. specialize (R2 p t Hp). change (Forall2 (optlist_rel named) (cons_on p (f_ncons f)) (opts_for (map (rn_cons mp) cons) (Z.of_N t))).
      rewrite (opts_for_rename_named k k' mp cons t Hok Hk Hwf Hdc). exact R2.
  Qed.

  (* the renamed copy lives in the fresh range *)
  Lemma rename_range k k' mp name cons : mp_ok k k' mp -> 1 <= k -> Forall pat_wf cons ->
    (forall t, In (NPat t) name -> (t < 0)%Z -> exists b, al_get Z.eqb mp t = Some b) ->
    (forall c t0 l, In c cons -> nc_pat c = t0 :: l -> (t0 < 0)%Z -> forall x, In x (nc_pat c) -> exists b, al_get Z.eqb mp x = Some b) ->
    (forall t, In (NPat t) (map (rn_comp mp) name) -> (t < 0)%Z -> (Z.of_N k <= - t)%Z /\ (- t < Z.of_N k')%Z) /\
    (forall c t, In c (map (rn_cons mp) cons) -> In t (nc_pat c) -> (t < 0)%Z -> (Z.of_N k <= - t)%Z /\ (- t < Z.of_N k')%Z) /\
    Forall pat_wf (map (rn_cons mp) cons).
  Proof.
    intros Hok Hk Hwf Hdn Hdc. split; [|split].
    - intros t Hin Hn. apply in_map_iff in Hin. destruct Hin as (c & Ec & Hc). destruct c as [v|t0|r]; cbn in Ec; try discriminate.
      destruct (Z.ltb_spec t0 0); inversion Ec; subst; [|lia]. destruct (lk_neg k k' mp t0 Hok Hk (Hdn t0 Hc H)) as (_ & H1 & H2). auto.
    - intros c t Hin Ht Hn. apply in_map_iff in Hin. destruct Hin as (c0 & Ec & Hc0). rewrite Forall_forall in Hwf. specialize (Hwf c0 Hc0).
      unfold rn_cons in Ec. destruct (nc_pat c0) as [|t0 l] eqn:Ep.
      + subst c. rewrite Ep in Ht. destruct Ht.
      + destruct (Z.ltb_spec t0 0).
        * subst c. cbn [nc_pat] in Ht. apply in_map_iff in Ht. destruct Ht as (x & Ex & Hx). subst t.
          assert (Hb : exists b, al_get Z.eqb mp x = Some b) by (eapply (Hdc c0 t0 l); eauto; rewrite Ep; exact Hx).
          destruct (lk_neg k k' mp x Hok Hk Hb) as (_ & H1 & H2). auto.
        * subst c. rewrite Ep in Ht. destruct Hwf as [Hw|(t1 & E1 & H1)].
          -- specialize (Hw t0). rewrite Ep in Hw. specialize (Hw (or_introl eq_refl)). lia.
          -- rewrite Ep in E1. inversion E1; subst. destruct Ht as [<-|[]]. lia.
    - apply Forall_forall. intros c Hin. apply in_map_iff in Hin. destruct Hin as (c0 & Ec & Hc0). rewrite Forall_forall in Hwf. specialize (Hwf c0 Hc0).
      unfold rn_cons in Ec. destruct (nc_pat c0) as [|t0 l] eqn:Ep; [subst c; exact Hwf|].
      destruct (Z.ltb_spec t0 0); [|subst c; exact Hwf]. subst c. left. cbn [nc_pat]. intros t Ht. apply in_map_iff in Ht. destruct Ht as (x & Ex & Hx). subst t.
      assert (Hb : exists b, al_get Z.eqb mp x = Some b) by (eapply (Hdc c0 t0 l); eauto; rewrite Ep; exact Hx).
      destruct (lk_neg k k' mp x Hok Hk Hb) as (H1 & _). exact H1.
  Qed.
End A.
