(* The recursive traversal [tree_fold] (Proofs/LvsMachine.v) feeds its consumer exactly the
   root-to-node paths of Spec/LvsTree.v, in depth-first order, up to the first raising user
   function.  Consequences for Checker.match / Checker.check on sane models. *)
From NDN Require Import Base.Prelude Base.Text Model.TlvVar Model.Name Model.LvsAst Model.LvsChecker
  Spec.LvsSem Spec.LvsTree Proofs.LvsMachine.
Local Open Scope N_scope.

Section Paths.
  Variable ufn : ident -> option (bytes -> list (option bytes) -> res bool).
  Variable m : lvsmodel.

  (* ---- constraint evaluation = CNF truth --------------------------------------------------- *)
  Lemma fn_arg_targ c a : fn_arg c a = targ c a.
  Proof. reflexivity. Qed.

  Lemma opt_sat_spec v c op b : opt_sat ufn v c op = Ok b -> (b = true <-> option_true ufn v c op).
  Proof.
    unfold opt_sat, option_true.
    destruct (co_value op) as [x|].
    - intros H; inversion H; subst. apply bytes_eqb_spec.
    - destruct (co_tag op) as [t|].
      + intros H; inversion H; subst. unfold obytes_eqb, ctx_get, tget.
        destruct (al_get N.eqb c t) as [w|].
        * rewrite bytes_eqb_spec. split; [intros ->; reflexivity | intros E; inversion E; reflexivity].
        * split; discriminate.
      + destruct (co_fn op) as [fn|]; [|discriminate].
        destruct (uf_id fn) as [fid|]; [|discriminate].
        destruct (ufn fid) as [g|] eqn:Eg; [|discriminate].
        intros H. split.
        * intros ->. exists fid, g. repeat split; auto.
        * intros (fid' & g' & Ei & Eg' & Er). inversion Ei; subst fid'. rewrite Eg in Eg'. inversion Eg'; subst g'.
          unfold fn_arg in H. unfold targ, tget in Er. unfold ctx_get in H. rewrite Er in H. inversion H; reflexivity.
  Qed.

  Lemma any_opt_spec v c ops b : any_opt ufn v c ops = Ok b -> (b = true <-> Exists (option_true ufn v c) ops).
  Proof.
    revert b; induction ops as [|op r IH]; intros b; cbn.
    - intros H; inversion H. split; [discriminate | intros E; inversion E].
    - destruct (opt_sat ufn v c op) as [x|] eqn:Eo; [|discriminate]. cbn.
      pose proof (opt_sat_spec _ _ _ _ Eo) as Hs.
      destruct x.
      + intros H; inversion H. split; [intros _; left; apply Hs; reflexivity | reflexivity].
      + intros H. specialize (IH _ H). rewrite IH. split.
        * intros E; right; exact E.
        * intros E; inversion E as [? ? Hx|? ? Hx]; subst; [apply Hs in Hx; discriminate | assumption].
  Qed.

  Lemma check_cons_spec v c cs b : check_cons ufn v c cs = Ok b -> (b = true <-> cnf_true ufn v c cs).
  Proof.
    unfold cnf_true. revert b; induction cs as [|k r IH]; intros b; cbn.
    - intros H; inversion H. split; [constructor | reflexivity].
    - destruct (any_opt ufn v c k) as [x|] eqn:Ea; [|discriminate]. cbn.
      pose proof (any_opt_spec _ _ _ _ Ea) as Hs.
      destruct x.
      + intros H. specialize (IH _ H). rewrite IH. split.
        * intros F; constructor; [apply Hs; reflexivity | exact F].
        * intros F; inversion F as [|? ? Hx Hy]; assumption.
      + intros H; inversion H. split; [discriminate|].
        intros F; inversion F as [|? ? Hx Hy]; subst. apply Hs in Hx. discriminate.
  Qed.

  (* ---- crossing a pattern edge ----------------------------------------------------------------- *)
  Lemma npc_leb_named t b : npc_leb m t = Ok b -> (b = true <-> is_named m t).
  Proof.
    unfold npc_leb, is_named. destruct (m_npc m) as [k|]; [|discriminate].
    intros H; inversion H. rewrite N.leb_le. split.
    - intros L; exists k; auto.
    - intros (k' & E & L); inversion E; subst; exact L.
  Qed.

  Lemma try_pedge_pass pe v c c' tg : try_pedge ufn m pe v c = Ok (Some (c', tg)) -> pedge_pass ufn m pe v c c'.
  Proof.
    unfold try_pedge, pedge_pass.
    destruct (pe_tag pe) as [t|] eqn:Et.
    - unfold ctx_get, tget. destruct (al_get N.eqb c t) as [w|] eqn:Eg.
      + destruct (bytes_eqb v w) eqn:Eb; cbn; [|discriminate].
        destruct (check_cons ufn v c (pe_cons pe)) as [ok|] eqn:Ec; [|discriminate]. cbn.
        destruct ok; cbn; [|discriminate]. intros H; inversion H; subst.
        exists t. split; [reflexivity|]. split; [apply (check_cons_spec _ _ _ _ Ec); reflexivity|].
        rewrite Eg. apply bytes_eqb_spec in Eb. auto.
      + destruct (check_cons ufn v c (pe_cons pe)) as [ok|] eqn:Ec; [|discriminate]. cbn.
        destruct ok; cbn; [|discriminate].
        destruct (npc_leb m t) as [named|] eqn:En; [|discriminate]. cbn.
        pose proof (npc_leb_named _ _ En) as Hn.
        exists t. split; [reflexivity|]. split; [apply (check_cons_spec _ _ _ _ Ec); reflexivity|].
        rewrite Eg. destruct named; inversion H; subst.
        * left. split; [apply Hn; reflexivity | apply al_set_fresh; exact Eg].
        * right. split; [intros X; apply Hn in X; discriminate | reflexivity].
    - destruct (check_cons ufn v c (pe_cons pe)) as [ok|]; [|discriminate]. cbn. destruct ok; discriminate.
  Qed.

  Lemma try_pedge_fail pe v c c1 : try_pedge ufn m pe v c = Ok None -> ~ pedge_pass ufn m pe v c c1.
  Proof.
    unfold try_pedge, pedge_pass. intros H (t & Et & Hc & Hb). rewrite Et in H.
    unfold ctx_get, tget in *. destruct (al_get N.eqb c t) as [w|] eqn:Eg.
    - destruct Hb as [-> _]. assert (E : bytes_eqb w w = true) by (apply bytes_eqb_spec; reflexivity).
      rewrite E in H. cbn in H.
      destruct (check_cons ufn w c (pe_cons pe)) as [ok|] eqn:Ec; [|discriminate]. cbn in H.
      destruct ok; [discriminate|]. apply (check_cons_spec _ _ _ _ Ec) in Hc. discriminate.
    - destruct (check_cons ufn v c (pe_cons pe)) as [ok|] eqn:Ec; [|discriminate]. cbn in H.
      destruct ok; cbn in H.
      + destruct (npc_leb m t) as [[|]|]; discriminate.
      + apply (check_cons_spec _ _ _ _ Ec) in Hc. discriminate.
  Qed.

  Lemma pedge_pass_det pe v c c1 c' tg :
    pedge_pass ufn m pe v c c1 -> try_pedge ufn m pe v c = Ok (Some (c', tg)) -> c1 = c'.
  Proof.
    intros (t & Et & _ & Hb) H. apply try_pedge_pass in H. destruct H as (t' & Et' & _ & Hb').
    rewrite Et in Et'. inversion Et'; subst t'.
    destruct (tget c t) as [w|].
    - destruct Hb as [_ ->], Hb' as [_ ->]. reflexivity.
    - destruct Hb as [[Hn ->]|[Hn ->]], Hb' as [[Hn' ->]|[Hn' ->]]; try reflexivity; contradiction.
  Qed.

  (* ---- events: the yields in order, and the error that ends the traversal, if any -------------- *)
  Definition events := (list (N * ctx) * option err)%type.
  Definition ev_app (x y : events) : events :=
    match snd x with Some _ => x | None => (fst x ++ fst y, snd y) end.

  Fixpoint pevents (rec : N -> ctx -> events) (v : bytes) (c : ctx) (pes : list pedge) : events :=
    match pes with
    | [] => ([], None)
    | pe :: r =>
        match try_pedge ufn m pe v c with
        | Err e => ([], Some e)
        | Ok None => pevents rec v c r
        | Ok (Some (c', _)) =>
            ev_app (match pe_dest pe with Some d => rec d c' | None => ([], None) end) (pevents rec v c r)
        end
    end.

  Fixpoint tree_events (name : list bytes) (cur : N) (c : ctx) {struct name} : events :=
    match get_node m cur with
    | None => ([], Some EIndex)
    | Some nd =>
        match name with
        | [] => ([(cur, c)], None)
        | v :: rest =>
            ev_app (match find (fun ve => obytes_eqb v (ve_value ve)) (n_vedges nd) with
                    | Some ve => match ve_dest ve with Some d => tree_events rest d c | None => ([], None) end
                    | None => ([], None)
                    end)
                   (pevents (tree_events rest) v c (n_pedges nd))
        end
    end.

  Section Feed.
    Context {A R : Type}.
    Variable f : A -> N -> ctx -> res (A + R).

    Fixpoint feed_list (l : list (N * ctx)) (a : A) : res (A + R) :=
      match l with
      | [] => Ok (inl a)
      | y :: r => do x <- f a (fst y) (snd y) ;;
                  match x with inl a' => feed_list r a' | inr v => Ok (inr v) end
      end.

    Definition feed (ev : events) (a : A) : res (A + R) :=
      do x <- feed_list (fst ev) a ;;
      match x with
      | inr v => Ok (inr v)
      | inl a' => match snd ev with Some e => Err e | None => Ok (inl a') end
      end.

    Lemma feed_list_app l1 l2 a :
      feed_list (l1 ++ l2) a = do x <- feed_list l1 a ;; match x with inl a' => feed_list l2 a' | inr v => Ok (inr v) end.
    Proof.
      revert a; induction l1 as [|y l1 IH]; intros a; cbn; [reflexivity|].
      destruct (f a (fst y) (snd y)) as [[a'|v]|e]; cbn; auto.
    Qed.

    Lemma feed_app x y a :
      feed (ev_app x y) a = do r <- feed x a ;; match r with inl a' => feed y a' | inr v => Ok (inr v) end.
    Proof.
      unfold feed, ev_app. destruct x as [lx [e|]]; cbn.
      - destruct (feed_list lx a) as [[a'|v]|e']; reflexivity.
      - rewrite feed_list_app. destruct (feed_list lx a) as [[a'|v]|e']; reflexivity.
    Qed.

    Lemma pfold_feed rec_f rec_e v c pes a :
      (forall d c' a', rec_f d c' a' = feed (rec_e d c') a') ->
      pfold_gen ufn m rec_f v c pes a = feed (pevents rec_e v c pes) a.
    Proof.
      intros Hrec. revert a; induction pes as [|pe r IH]; intros a; cbn [pfold_gen pevents]; [reflexivity|].
      destruct (try_pedge ufn m pe v c) as [[[c' tg]|]|e]; cbn [bind].
      - rewrite feed_app. destruct (pe_dest pe) as [d|].
        + rewrite Hrec. destruct (feed (rec_e d c') a) as [[a'|x]|e]; cbn [bind]; auto.
        + cbn. apply IH.
      - apply IH.
      - reflexivity.
    Qed.

    Lemma tree_fold_feed name : forall cur c a, tree_fold ufn m name cur c f a = feed (tree_events name cur c) a.
    Proof.
      induction name as [|v rest IH]; intros cur c a; cbn [tree_fold tree_events].
      - destruct (get_node m cur); [|reflexivity]. unfold feed. cbn. destruct (f a cur c) as [[a'|x]|e]; reflexivity.
      - destruct (get_node m cur) as [nd|]; [|reflexivity].
        rewrite feed_app.
        assert (Hp : forall a1, pfold_gen ufn m (fun d c' a' => tree_fold ufn m rest d c' f a') v c (n_pedges nd) a1
                                = feed (pevents (tree_events rest) v c (n_pedges nd)) a1).
        { intros a1. apply pfold_feed. intros; apply IH. }
        destruct (find _ (n_vedges nd)) as [ve|].
        + destruct (ve_dest ve) as [d|].
          * rewrite IH. destruct (feed (tree_events rest d c) a) as [[a1|x]|e]; cbn [bind]; auto.
          * cbn. apply Hp.
        + cbn. apply Hp.
    Qed.
  End Feed.

  (* ---- events = paths ------------------------------------------------------------------------------ *)
  Lemma in_ev_app x y p : In p (fst (ev_app x y)) -> In p (fst x) \/ In p (fst y).
  Proof.
    unfold ev_app. destruct (snd x); cbn; [auto|]. intros H. apply in_app_or in H. exact H.
  Qed.

  Lemma ev_app_complete x y : snd (ev_app x y) = None -> snd x = None /\ snd y = None.
  Proof. unfold ev_app. destruct (snd x) eqn:E; cbn; [rewrite E; discriminate | auto]. Qed.

  Lemma ev_app_in_l x y p : snd x = None -> In p (fst x) -> In p (fst (ev_app x y)).
  Proof. unfold ev_app. intros -> H. cbn. apply in_or_app; auto. Qed.
  Lemma ev_app_in_r x y p : snd x = None -> In p (fst y) -> In p (fst (ev_app x y)).
  Proof. unfold ev_app. intros -> H. cbn. apply in_or_app; auto. Qed.

  Lemma obytes_eqb_eq v e :
    obytes_eqb v (ve_value e) = match ve_value e with Some x => bytes_eqb v x | None => false end.
  Proof. reflexivity. Qed.

  (* soundness: whatever is yielded is a path (even if the traversal later raises) *)
  Lemma events_sound name : forall cur c n c', In (n, c') (fst (tree_events name cur c)) -> path ufn m cur name c n c'.
  Proof.
    induction name as [|v rest IH]; intros cur c n c'; cbn [tree_events].
    - destruct (get_node m cur) as [nd|] eqn:En; [|intros []].
      cbn. intros [H|[]]. inversion H; subst. eapply path_end; eauto.
    - destruct (get_node m cur) as [nd|] eqn:En; [|intros []].
      intros H. apply in_ev_app in H. destruct H as [H|H].
      + destruct (find _ (n_vedges nd)) as [ve|] eqn:Ef; [|destruct H].
        destruct (ve_dest ve) as [d|] eqn:Ed; [|destruct H].
        eapply path_value; eauto.
      + assert (Hgen : forall pes, (forall pe, In pe pes -> In pe (n_pedges nd)) ->
                   In (n, c') (fst (pevents (tree_events rest) v c pes)) -> path ufn m cur (v :: rest) c n c').
        { clear H. induction pes as [|pe r IHp]; intros Hsub Hin; [destruct Hin|].
          cbn [pevents] in Hin.
          destruct (try_pedge ufn m pe v c) as [[[c1 tg]|]|e] eqn:Et.
          - apply in_ev_app in Hin. destruct Hin as [Hin|Hin].
            + destruct (pe_dest pe) as [d|] eqn:Ed; [|destruct Hin].
              eapply path_pattern; eauto. { apply Hsub; left; reflexivity. } eapply try_pedge_pass; eauto.
            + apply IHp; auto. intros; apply Hsub; right; assumption.
          - apply IHp; auto. intros; apply Hsub; right; assumption.
          - destruct Hin. }
        apply (Hgen (n_pedges nd)); auto.
  Qed.

  (* completeness: if the traversal ends without an error, every path was yielded *)
  Lemma events_complete name : forall cur c n c',
    snd (tree_events name cur c) = None -> path ufn m cur name c n c' -> In (n, c') (fst (tree_events name cur c)).
  Proof.
    induction name as [|v rest IH]; intros cur c n c' Hc Hp.
    - inversion Hp as [? nd0 ? Hg| |]; subst. cbn [tree_events]. rewrite Hg. left; reflexivity.
    - cbn [tree_events] in *.
      inversion Hp as [ | ? nd0 ? ? ? ve d ? ? Hg Ht Hd Hrest | ? nd0 ? ? ? pe d c1 ? ? Hg Hin Hpass Hd Hrest ]; subst.
      + rewrite Hg in Hc |- *. apply ev_app_complete in Hc. destruct Hc as [Hc1 Hc2].
        apply ev_app_in_l; [exact Hc1|].
        unfold vedge_taken in Ht.
        change (find (fun ve => obytes_eqb v (ve_value ve)) (n_vedges nd0) = Some ve) in Ht.
        rewrite Ht in Hc1 |- *. rewrite Hd in Hc1 |- *. apply IH; auto.
      + rewrite Hg in Hc |- *. apply ev_app_complete in Hc. destruct Hc as [Hc1 Hc2].
        apply ev_app_in_r; [exact Hc1|].
        revert Hc2 Hin. generalize (n_pedges nd0). induction l as [|pe0 r IHp]; intros Hc2 Hin; [destruct Hin|].
        cbn [pevents] in *.
        destruct (try_pedge ufn m pe0 v c) as [[[c2 tg]|]|e] eqn:Et.
        * apply ev_app_complete in Hc2. destruct Hc2 as [Hd1 Hd2].
          destruct Hin as [->|Hin].
          -- apply ev_app_in_l; [exact Hd1|]. rewrite Hd in *.
             pose proof (pedge_pass_det _ _ _ _ _ _ Hpass Et) as ->. apply IH; auto.
          -- apply ev_app_in_r; [exact Hd1|]. apply IHp; auto.
        * destruct Hin as [->|Hin]; [exfalso; eapply try_pedge_fail; eauto|]. apply IHp; auto.
        * discriminate.
  Qed.
End Paths.
