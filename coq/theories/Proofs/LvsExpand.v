(* Spec/LvsSem.expand: unfolding, monotonicity in the fuel, and stability above the reference depth. *)
From NDN Require Import Base.Prelude Base.Text Model.TlvVar Model.Name Model.LvsAst Spec.LvsSem.
Local Open Scope N_scope.

Lemma in_product {A} (L : list (list A)) l : In l (product L) <-> Forall2 (fun alts x => In x alts) L l.
Proof.
  revert l; induction L as [|alts L IH]; intros l; cbn.
  - split; [intros [<-|[]]; constructor | intros H; inversion H; auto].
  - rewrite in_flat_map. split.
    + intros (a & Ha & Hl). apply in_map_iff in Hl. destruct Hl as (l' & <- & Hl'). constructor; [exact Ha | apply IH, Hl'].
    + intros H. inversion H as [|? x ? l' Hx Hrest]; subst. exists x. split; [exact Hx|]. apply in_map, IH, Hrest.
Qed.

Definition mkflat (cs : list tagcons) (parts : list flat) : flat :=
  {| f_comps := concat (map f_comps parts);
     f_ncons := filter (fun tc => negb (is_temp_pat (tc_pat tc))) cs ++ concat (map f_ncons parts) |}.

Definition alts (k : nat) (S : lvsfile) (cs : list tagcons) (c : comp) : list flat :=
  match c with
  | CLit v => [{| f_comps := [FLit v]; f_ncons := [] |}]
  | CPat p => if is_temp_pat p then [{| f_comps := [FTemp (cons_on p cs)]; f_ncons := [] |}]
              else [{| f_comps := [FNamed p]; f_ncons := [] |}]
  | CRef r => flat_map (expand k S) (defs_of S r)
  end.

Lemma expand_unfold k S d :
  expand (Datatypes.S k) S d = flat_map (fun cs => map (mkflat cs) (product (map (alts k S cs) (r_name d)))) (choices d).
Proof. reflexivity. Qed.

Lemma forall2_map_l {A B C} (R : B -> C -> Prop) (g : A -> B) l l' : Forall2 R (map g l) l' <-> Forall2 (fun x y => R (g x) y) l l'.
Proof.
  revert l'; induction l as [|x l IH]; intros l'; cbn.
  - split; intros H; inversion H; constructor.
  - split; intros H; inversion H; subst; constructor; auto; apply IH; auto.
Qed.

Lemma in_expand_S k S d f :
  In f (expand (Datatypes.S k) S d) <->
  exists cs parts, In cs (choices d) /\ Forall2 (fun c part => In part (alts k S cs c)) (r_name d) parts /\ f = mkflat cs parts.
Proof.
  rewrite expand_unfold, in_flat_map. split.
  - intros (cs & Hcs & Hf). apply in_map_iff in Hf. destruct Hf as (parts & <- & Hp). apply in_product, forall2_map_l in Hp. eauto.
  - intros (cs & parts & Hcs & Hp & ->). exists cs. split; [exact Hcs|]. apply in_map. apply in_product, forall2_map_l. exact Hp.
Qed.

Lemma forall2_impl {A B} (R R' : A -> B -> Prop) l l' : (forall x y, In x l -> R x y -> R' x y) -> Forall2 R l l' -> Forall2 R' l l'.
Proof.
  intros Himp F. induction F as [|x y l l' Hxy _ IH]; constructor.
  - apply Himp; [left; reflexivity | exact Hxy].
  - apply IH. intros a b Ha Hab. apply Himp; [right; exact Ha | exact Hab].
Qed.

Lemma expand_mono S : forall k d f, In f (expand k S d) -> In f (expand (Datatypes.S k) S d).
Proof.
  induction k as [|k IH]; intros d f H; [destruct H|].
  apply in_expand_S in H. destruct H as (cs & parts & Hcs & Hp & ->). apply in_expand_S. exists cs, parts. split; [exact Hcs|]. split; [|reflexivity].
  eapply forall2_impl; [|exact Hp]. intros c part _ Hin. destruct c as [v|p|r]; cbn in *; try exact Hin.
  apply in_flat_map in Hin. destruct Hin as (d' & Hd' & Hf). apply in_flat_map. exists d'. split; [exact Hd' | apply IH, Hf].
Qed.

Lemma expand_mono_le S k k' d f : (k <= k')%nat -> In f (expand k S d) -> In f (expand k' S d).
Proof. intros Hle. induction Hle as [|m Hm IH]; [auto | intros Hf; apply expand_mono, IH, Hf]. Qed.

(* a height function: a definition of the schema is higher than every definition of every rule it refers to *)
Section Down.
  Variable S : lvsfile.
  Variable h : rule -> nat.
  Hypothesis Hh : forall d r d', In d S -> In (CRef r) (r_name d) -> In d' (defs_of S r) -> (h d' < h d)%nat.

  Lemma defs_of_in r d' : In d' (defs_of S r) -> In d' S.
  Proof. unfold defs_of. intros H. apply filter_In in H. tauto. Qed.

  Lemma expand_down : forall k d f, In d S -> (h d < k)%nat -> In f (expand (Datatypes.S k) S d) -> In f (expand k S d).
  Proof.
    induction k as [|k IH]; intros d f Hd Hk H; [lia|].
    apply in_expand_S in H. destruct H as (cs & parts & Hcs & Hp & ->). apply in_expand_S. exists cs, parts. split; [exact Hcs|]. split; [|reflexivity].
    eapply forall2_impl; [|exact Hp]. intros c part Hc Hin. destruct c as [v|p|r]; cbn in *; try exact Hin.
    apply in_flat_map in Hin. destruct Hin as (d' & Hd' & Hf). apply in_flat_map. exists d'. split; [exact Hd'|].
    apply IH; [eapply defs_of_in; eauto | | exact Hf]. pose proof (Hh d r d' Hd Hc Hd'). lia.
  Qed.

  Lemma expand_down_le k k' d f : In d S -> (h d < k)%nat -> (k <= k')%nat -> In f (expand k' S d) -> In f (expand k S d).
  Proof.
    intros Hd Hk Hle. induction Hle; [auto|]. intros H. apply IHHle. apply expand_down; [exact Hd | lia | exact H].
  Qed.
End Down.
