(* C01: what make_data / make_interest produce is one well-formed element that both the library's
   decoder and the strict reader map back to the values that went in. *)
From NDN Require Import Base.Prelude Model.TlvVar Model.Name Model.Tlv Model.Packet Model.PacketEnc
  Spec.TlvWf Spec.StrictTlv Generated.Schemas
  Proofs.BytesLemmas Proofs.TlvVarProofs Proofs.TlvSplit Proofs.TlvRoundtrip2 Proofs.TlvMore.
Local Open Scope N_scope.

Arguments N.of_nat : simpl never.
Arguments N.to_nat : simpl never.

Lemma pact_tlv t body :
  t < two64 -> N.of_nat (length body) < two64 -> parse_and_check_tl (tlv t body) t = Ok body.
Proof.
  intros Ht Hl. unfold parse_and_check_tl, tlv.
  rewrite tl_dec_enc by exact Ht. cbn [bind].
  rewrite skipn_app_exact' by (symmetry; apply tl_enc_length).
  rewrite tl_dec_enc by exact Hl. cbn [bind]. rewrite N.eqb_refl. cbn [negb].
  rewrite !app_length, !tl_enc_length.
  replace (N.of_nat (tl_size t + (tl_size (N.of_nat (length body)) + length body)) =?
           N.of_nat (tl_size t + tl_size (N.of_nat (length body))) + N.of_nat (length body)) with true by lia.
  cbn [negb]. rewrite app_assoc.
  rewrite skipn_app_exact' by (rewrite app_length, !tl_enc_length; reflexivity). reflexivity.
Qed.

(* ---- Data ----------------------------------------------------------------------------------------- *)
Section Data.
Variable sign : bytes -> bytes.

Definition data_fits (d : data_in) (sv : option bytes) : Prop :=
  Forall2 (fun f v => fits (snd f) v) ndn_format_0_3_DataPacketValue (data_values d sv).

Lemma make_data_body d m :
  make_data sign d = Ok m ->
  exists body sv,
    m_wire m = tlv TYPE_DATA body /\
    encode_model (depth_of ndn_format_0_3_DataPacketValue) ndn_format_0_3_DataPacketValue (data_values d sv) = Ok body /\
    (match d_sig d with Some _ => sv = Some (sign (m_sig_covered m)) | None => sv = None end).
Proof.
  unfold make_data. intros H.
  destruct (enc_by _ T_META_INFO (d_meta d)) as [s_meta|] eqn:E1; [|discriminate]. cbn [bind] in H.
  destruct (enc_by _ T_CONTENT (vbytes (d_content d))) as [s_content|] eqn:E2; [|discriminate]. cbn [bind] in H.
  destruct (enc_by _ T_SIG_INFO _) as [s_info|] eqn:E3; [|discriminate]. cbn [bind] in H.
  destruct (d_sig d) as [s|] eqn:Es.
  - destruct (check_sig_len (si_reserved s) _) as [[]|]; [|discriminate]. cbn [bind] in H.
    destruct (enc_by _ T_SIG_VALUE _) as [s_sig|] eqn:E4; [|discriminate]. cbn [bind] in H.
    inversion H; subst m. clear H. cbn [m_wire m_sig_covered].
    eexists. exists (Some (sign (name_encode (d_name d) ++ s_meta ++ s_content ++ s_info))).
    split; [reflexivity|]. split; [|reflexivity].
    unfold encode_model, data_values. rewrite Es.
    unfold enc_by, T_META_INFO, T_CONTENT, T_SIG_INFO, T_SIG_VALUE in E1, E2, E3, E4. cbn [kind_of ndn_format_0_3_DataPacketValue N.eqb Pos.eqb T_META_INFO T_CONTENT T_SIG_INFO T_SIG_VALUE] in E1, E2, E3, E4.
    cbn [enc_fields_with ndn_format_0_3_DataPacketValue].
    change (enc_val (depth_of ndn_format_0_3_DataPacketValue) 7 KName (VName (d_name d))) with (@Ok bytes (name_encode (d_name d))).
    cbn [bind]. rewrite E1. cbn [bind]. rewrite E2. cbn [bind]. rewrite E3. cbn [bind]. cbn [vbytes]. rewrite E4. cbn [bind].
    rewrite app_nil_r. reflexivity.
  - cbn [bind] in H. inversion H; subst m. clear H. cbn [m_wire m_sig_covered].
    eexists. exists None. split; [reflexivity|]. split; [|reflexivity].
    unfold encode_model, data_values. rewrite Es.
    unfold enc_by, T_META_INFO, T_CONTENT, T_SIG_INFO in E1, E2, E3. cbn [kind_of ndn_format_0_3_DataPacketValue N.eqb Pos.eqb T_META_INFO T_CONTENT T_SIG_INFO] in E1, E2, E3.
    cbn [enc_fields_with ndn_format_0_3_DataPacketValue].
    change (enc_val (depth_of ndn_format_0_3_DataPacketValue) 7 KName (VName (d_name d))) with (@Ok bytes (name_encode (d_name d))).
    cbn [bind]. rewrite E1. cbn [bind]. rewrite E2. cbn [bind]. rewrite E3. cbn [bind vbytes].
    unfold depth_of. rewrite enc_val_none. cbn [bind]. rewrite !app_nil_r. reflexivity.
Qed.

Theorem make_data_roundtrip d m :
  make_data sign d = Ok m ->
  N.of_nat (length (m_wire m)) < two64 ->
  (forall sv, data_fits d sv) ->
  exists sv, dec_data (m_wire m) = Ok (data_values d sv) /\
             (match d_sig d with Some _ => sv = Some (sign (m_sig_covered m)) | None => sv = None end).
Proof.
  intros H Hl Hfit. destruct (make_data_body d m H) as (body & sv & Ew & Eb & Esv).
  exists sv. split; [|exact Esv]. rewrite Ew in *. rewrite tlv_length in Hl.
  unfold dec_data, gen_decode. rewrite pact_tlv; [|unfold TYPE_DATA, two64; lia|lia].
  cbn [bind].
  rewrite (parse_encode_roundtrip _ _ false _ _ (wf_fieldsb_spec _ wf_ndn_format_0_3_DataPacketValue) (Hfit sv) Eb) by lia.
  unfold require_name. cbn [bind]. reflexivity.
Qed.
End Data.

(* ---- Interest --------------------------------------------------------------------------------------- *)
Section Interest.
Variable sha : bytes -> bytes.
Variable sign : bytes -> bytes.

Definition interest_fits (i : interest_in) (fn : list bytes) (sv : option bytes) : Prop :=
  Forall2 (fun f v => fits (snd f) v) ndn_format_0_3_InterestPacketValue (interest_values i fn sv).

Definition eff_app (i : interest_in) : option bytes :=
  match i_sig i, i_app i with Some _, None => Some [] | _, a => a end.

Lemma make_interest_body i m :
  make_interest sha sign i = Ok m ->
  exists body sv,
    m_wire m = tlv TYPE_INTEREST body /\
    encode_model (depth_of ndn_format_0_3_InterestPacketValue) ndn_format_0_3_InterestPacketValue
                 (interest_values i (m_final_name m) sv) = Ok body /\
    (match i_sig i with Some _ => sv = Some (sign (m_sig_covered m)) | None => sv = None end).
Proof.
  unfold make_interest. intros H. fold (eff_app i) in H.
  destruct (scan_name _ 0 None (i_name i)) as [dp|]; [|discriminate]. cbn [bind] in H.
  destruct (enc_by _ T_CAN_BE_PREFIX _) as [s1|] eqn:E1; [|discriminate]. cbn [bind] in H.
  destruct (enc_by _ T_MUST_BE_FRESH _) as [s2|] eqn:E2; [|discriminate]. cbn [bind] in H.
  destruct (enc_by _ T_FORWARDING_HINT _) as [s3|] eqn:E3; [|discriminate]. cbn [bind] in H.
  destruct (enc_by _ T_NONCE _) as [s4|] eqn:E4; [|discriminate]. cbn [bind] in H.
  destruct (enc_by _ T_LIFETIME _) as [s5|] eqn:E5; [|discriminate]. cbn [bind] in H.
  destruct (enc_by _ T_HOP_LIMIT _) as [s6|] eqn:E6; [|discriminate]. cbn [bind] in H.
  destruct (enc_by _ T_APP_PARAM _) as [s7|] eqn:E7; [|discriminate]. cbn [bind] in H.
  destruct (enc_by _ T_ISIG_INFO _) as [s8|] eqn:E8; [|discriminate]. cbn [bind] in H.
  unfold enc_by, T_CAN_BE_PREFIX, T_MUST_BE_FRESH, T_FORWARDING_HINT, T_NONCE, T_LIFETIME, T_HOP_LIMIT, T_APP_PARAM,
    T_ISIG_INFO in E1, E2, E3, E4, E5, E6, E7, E8.
  cbn [kind_of ndn_format_0_3_InterestPacketValue N.eqb Pos.eqb] in E1, E2, E3, E4, E5, E6, E7, E8.
  destruct (i_sig i) as [s|] eqn:Es.
  - destruct (check_sig_len (si_reserved s) _) as [[]|]; [|discriminate]. cbn [bind] in H.
    destruct (enc_by _ T_ISIG_VALUE _) as [s9|] eqn:E9; [|discriminate]. cbn [bind] in H.
    unfold enc_by, T_ISIG_VALUE in E9. cbn [kind_of ndn_format_0_3_InterestPacketValue N.eqb Pos.eqb] in E9.
    inversion H; subst m. clear H. cbn [m_wire m_sig_covered m_final_name].
    eexists. eexists. split; [reflexivity|]. split; [|reflexivity].
    unfold encode_model, interest_values. fold (eff_app i). rewrite Es.
    cbn [enc_fields_with ndn_format_0_3_InterestPacketValue].
    match goal with |- context [enc_val _ 7 KName (VName ?n)] =>
      change (enc_val (depth_of ndn_format_0_3_InterestPacketValue) 7 KName (VName n)) with (@Ok bytes (name_encode n)) end.
    cbn [bind]. rewrite E1. cbn [bind]. rewrite E2. cbn [bind]. rewrite E3. cbn [bind]. rewrite E4. cbn [bind].
    rewrite E5. cbn [bind]. rewrite E6. cbn [bind]. rewrite E7. cbn [bind]. rewrite E8. cbn [bind vbytes].
    rewrite E9. cbn [bind]. rewrite app_nil_r. reflexivity.
  - cbn [bind] in H. inversion H; subst m. clear H. cbn [m_wire m_sig_covered m_final_name].
    eexists. exists None. split; [reflexivity|]. split; [|reflexivity].
    unfold encode_model, interest_values. fold (eff_app i). rewrite Es.
    cbn [enc_fields_with ndn_format_0_3_InterestPacketValue].
    match goal with |- context [enc_val _ 7 KName (VName ?n)] =>
      change (enc_val (depth_of ndn_format_0_3_InterestPacketValue) 7 KName (VName n)) with (@Ok bytes (name_encode n)) end.
    cbn [bind]. rewrite E1. cbn [bind]. rewrite E2. cbn [bind]. rewrite E3. cbn [bind]. rewrite E4. cbn [bind].
    rewrite E5. cbn [bind]. rewrite E6. cbn [bind]. rewrite E7. cbn [bind]. rewrite E8. cbn [bind vbytes].
    unfold depth_of. rewrite enc_val_none. cbn [bind]. rewrite !app_nil_r. reflexivity.
Qed.

Theorem make_interest_roundtrip i m :
  make_interest sha sign i = Ok m ->
  N.of_nat (length (m_wire m)) < two64 ->
  (forall sv, interest_fits i (m_final_name m) sv) ->
  exists sv, dec_interest (m_wire m) = Ok (interest_values i (m_final_name m) sv) /\
             (match i_sig i with Some _ => sv = Some (sign (m_sig_covered m)) | None => sv = None end).
Proof.
  intros H Hl Hfit. destruct (make_interest_body i m H) as (body & sv & Ew & Eb & Esv).
  exists sv. split; [|exact Esv]. rewrite Ew in *. rewrite tlv_length in Hl.
  unfold dec_interest, gen_decode. rewrite pact_tlv; [|unfold TYPE_INTEREST, two64; lia|lia].
  cbn [bind].
  rewrite (parse_encode_roundtrip _ _ false _ _ (wf_fieldsb_spec _ wf_ndn_format_0_3_InterestPacketValue) (Hfit sv) Eb) by lia.
  unfold require_name. cbn [bind]. reflexivity.
Qed.

(* the name that is sent: the given name, with the parameters digest appended / put in place exactly
   when parameters or a signer are present, and the digest is SHA-256 of the reported digest portion *)
Theorem make_interest_final_name i m :
  make_interest sha sign i = Ok m ->
  match eff_app i with
  | None => m_final_name m = i_name i
  | Some _ =>
      m_final_name m = i_name i ++ [digest_comp (sha (m_digest_covered m))] \/
      exists p, m_final_name m = set_nth (i_name i) p (digest_comp (sha (m_digest_covered m)))
  end.
Proof.
  unfold make_interest. intros H. fold (eff_app i) in H.
  destruct (scan_name _ 0 None (i_name i)) as [dp|]; [|discriminate]. cbn [bind] in H.
  repeat match type of H with
         | (do _ <- ?e ;; _) = _ => destruct e; [|discriminate]; cbn [bind] in H
         end.
  destruct (eff_app i) as [ap|]; inversion H; subst m; cbn [m_final_name m_digest_covered].
  - destruct dp as [p|]; [right; exists p; reflexivity|left; reflexivity].
  - reflexivity.
Qed.
End Interest.

Lemma check_sig_len_rejected reserved sv :
  253 <= reserved -> N.of_nat (length sv) <> reserved -> check_sig_len reserved sv = Err EValue.
Proof.
  intros H1 H2. unfold check_sig_len.
  replace (N.of_nat (length sv) =? reserved) with false by lia.
  replace (253 <=? reserved) with true by lia. reflexivity.
Qed.
