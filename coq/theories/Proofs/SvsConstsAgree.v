(* T1 tie for C18: the constants reflected from ndn.app_support.svs on this run are the ones the
   hand-written model (Model/Svs.v) uses, and what they imply for the timer jitter. *)
From NDN Require Import Base.Prelude Model.Svs.
From NDN Require Generated.ConstsSvs.
Module G := Generated.ConstsSvs.
Local Open Scope N_scope.

(* sample_sync_timer / sample_sup_timer of the model are the source's formulas
     I + randbits(B)/D * I - I * (num/den)                                                    *)
Definition gen_sample (interval bits_den num den r : N) : N :=
  interval + r * interval / bits_den - interval * num / den.

Theorem jitter_consts_agree :
  G.sync_jitter_den = sync_jitter_den /\ G.sup_jitter_den = sup_jitter_den /\
  G.sync_rand_bits = 16 /\ G.sup_rand_bits = 16 /\
  (G.sync_offset_num, G.sync_offset_den) = (1, 10) /\ (G.sup_offset_num, G.sup_offset_den) = (1, 2).
Proof. repeat split; reflexivity. Qed.

Theorem sample_sync_agree c r :
  sample_sync_timer c r = gen_sample (c_sync_interval c) G.sync_jitter_den G.sync_offset_num G.sync_offset_den r.
Proof. unfold sample_sync_timer, gen_sample. cbn [G.sync_offset_num G.sync_offset_den]. rewrite N.mul_1_r. reflexivity. Qed.

Theorem sample_sup_agree c r :
  sample_sup_timer c r = gen_sample (c_sup_interval c) G.sup_jitter_den G.sup_offset_num G.sup_offset_den r.
Proof. unfold sample_sup_timer, gen_sample. cbn [G.sup_offset_num G.sup_offset_den]. rewrite N.mul_1_r. reflexivity. Qed.

Theorem mode_consts_agree : G.state_steady = 0 /\ G.state_suppression = 1.
Proof. split; reflexivity. Qed.

(* the layout the harness adapter relies on: 0xc9 { 0xca { Name, 0xcc SeqNo } * } *)
Theorem tlv_consts_agree : G.tlv_state_vec = 201 /\ G.tlv_state_vec_entry = 202 /\ G.tlv_seq_no = 204.
Proof. repeat split; reflexivity. Qed.

(* jitter: the periodic timer stays within [0.9 I, 1.1 I], the suppression timer within [0.5 S, 1.5 S] *)
Theorem sync_timer_range c r : r < 2 ^ G.sync_rand_bits ->
  c_sync_interval c - c_sync_interval c / 10 <= sample_sync_timer c r /\
  sample_sync_timer c r <= c_sync_interval c - c_sync_interval c / 10 + c_sync_interval c / 5.
Proof.
  intros R. change (2 ^ G.sync_rand_bits) with 65536 in R.
  unfold sample_sync_timer, sync_jitter_den. set (I := c_sync_interval c).
  assert (U : r * I / 327680 <= I / 5).
  { replace (I / 5) with (65536 * I / (65536 * 5)) by (apply N.div_mul_cancel_l; lia).
    apply N.div_le_mono; [lia|]. apply N.mul_le_mono_r. lia. }
  assert (I / 10 <= I) by (apply N.div_le_upper_bound; lia).
  generalize dependent (r * I / 327680). generalize dependent (I / 10). generalize dependent (I / 5). intros. lia.
Qed.

Theorem sup_timer_range c r : r < 2 ^ G.sup_rand_bits ->
  c_sup_interval c - c_sup_interval c / 2 <= sample_sup_timer c r /\
  sample_sup_timer c r <= c_sup_interval c - c_sup_interval c / 2 + c_sup_interval c.
Proof.
  intros R. change (2 ^ G.sup_rand_bits) with 65536 in R.
  unfold sample_sup_timer, sup_jitter_den. set (S := c_sup_interval c).
  assert (U : r * S / 65536 <= S).
  { replace S with (S * 65536 / 65536) at 2 by (apply N.div_mul; lia).
    apply N.div_le_mono; [lia|]. rewrite (N.mul_comm r S). apply N.mul_le_mono_l. lia. }
  assert (S / 2 <= S) by (apply N.div_le_upper_bound; lia).
  generalize dependent (r * S / 65536). generalize dependent (S / 2). intros. lia.
Qed.

(* in particular both timers are strictly in the future for a positive interval *)
Theorem timers_positive c r :
  2 <= c_sup_interval c -> 10 <= c_sync_interval c -> 0 < sample_sup_timer c r /\ 0 < sample_sync_timer c r.
Proof.
  intros HS HI. unfold sample_sup_timer, sample_sync_timer.
  assert (c_sup_interval c / 2 < c_sup_interval c) by (apply N.div_lt; lia).
  assert (c_sync_interval c / 10 < c_sync_interval c) by (apply N.div_lt; lia).
  generalize dependent (r * c_sup_interval c / sup_jitter_den).
  generalize dependent (r * c_sync_interval c / sync_jitter_den).
  generalize dependent (c_sup_interval c / 2). generalize dependent (c_sync_interval c / 10). intros. lia.
Qed.
