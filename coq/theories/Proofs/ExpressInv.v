(* C03 / C05 — the abstraction function from operational states to the per-Interest specification automaton, the
   invariant of settled states, and the structural lemmas (PIT membership, preservation of the PIT shape). *)
From NDN Require Import Base.Prelude Spec.ExpressSpec Model.ExpressPipeline Proofs.ExpressBasics.
Local Open Scope N_scope.

Definition spec_of (r : irec) : ispec := mkSp (i_name r) (i_cbp r) (i_dig r) (i_deadline r) (i_vm r).
Definition entry_of (i : N) (r : irec) : entry := mkE i (i_cbp r) (i_dig r).

(* abstraction: what the specification automaton of Interest i should be *)
Definition abs_rec (r : irec) : istate :=
  match i_wait r with
  | WDone o _ => IDone o
  | WValidating d => IValidating (spec_of r) d
  | _ => match i_val r with VInFlight d => IValidating (spec_of r) d | _ => IPending (spec_of r) end
  end.
Definition abs (s : st) (i : N) : istate := match get_int s i with Some r => abs_rec r | None => INone end.

(* "still in the PIT" as a function of the record (settled states) *)
Definition pendingb (r : irec) : bool :=
  match i_wait r, i_val r with
  | WWaiting, VNone => true
  | WNotAwaited, VNone => true
  | _, _ => false
  end.

(* a settled record at time t; [sb] = strictness with which the timers have been run up to t *)
Definition rec_ok (fe : frontend) (sb : bool) (t : N) (r : irec) : Prop :=
  match i_wait r with
  | WNotAwaited => False
  | WWaiting => i_fut r = FPending /\ i_tfired r = false /\ i_xc r = false /\ i_timer r = i_deadline r
                /\ due sb (i_timer r) t = false
                /\ match i_val r with VNone => True | VInFlight _ => fe = V2 /\ i_vm r = VDef | _ => False end
  | WValidating d => fe = V1 /\ i_xc r = false /\ i_vm r = VDef
  | WDone _ _ => match i_val r with VStart _ => False | _ => True end
  end
  /\ (fe = V1 -> i_val r = VNone).

Definition same_static (r r' : irec) : Prop :=
  i_name r' = i_name r /\ i_cbp r' = i_cbp r /\ i_dig r' = i_dig r /\ i_life r' = i_life r /\
  i_deadline r' = i_deadline r /\ i_vm r' = i_vm r /\ i_node r' = i_node r.

Definition pit_ok (s : st) : Prop :=
  NoDup (map fst (pit s)) /\
  (forall pn nid es, In (pn, (nid, es)) (pit s) -> es <> []) /\
  NoDup (map xid (pflat (pit s))) /\
  (forall pn nid e, In (pn, nid, e) (pflat (pit s)) ->
     exists r, get_int s (e_id e) = Some r /\ i_name r = pn /\ i_node r = nid /\ e = entry_of (e_id e) r).

(* the time-free part: the PIT holds exactly the records that are still pending *)
Definition inv_struct (s : st) : Prop :=
  NoDup (map fst (ints s)) /\ pit_ok s /\
  (forall i r, get_int s i = Some r -> mem i (pit_entries s) = pendingb r).

Definition inv (fe : frontend) (sb : bool) (s : st) : Prop :=
  inv_struct s /\ (forall i r, get_int s i = Some r -> rec_ok fe sb (now s) r).

(* ---- static fields are never touched ---- *)
Lemma same_static_refl r : same_static r r. Proof. repeat split. Qed.
Lemma same_static_trans a b c : same_static a b -> same_static b c -> same_static a c.
Proof. unfold same_static. intuition congruence. Qed.

Ltac ss := unfold same_static; cbn; repeat split; reflexivity.
Lemma ss_set_fut r f : same_static r (set_fut r f). Proof. ss. Qed.
Lemma ss_set_wait r f : same_static r (set_wait r f). Proof. ss. Qed.
Lemma ss_set_timer r f : same_static r (set_timer r f). Proof. ss. Qed.
Lemma ss_set_tfired r f : same_static r (set_tfired r f). Proof. ss. Qed.
Lemma ss_set_xc r f : same_static r (set_xc r f). Proof. ss. Qed.
Lemma ss_set_val r f : same_static r (set_val r f). Proof. ss. Qed.

Lemma ss_fire b t r : same_static r (fire_rec b t r).
Proof. unfold fire_rec. destruct (timer_due b t r); [ss | apply same_static_refl]. Qed.
Lemma ss_finish fe r d v : same_static r (f_rec (finish_validation fe r d v)).
Proof. unfold finish_validation, fut_set. destruct (fdone (i_fut r)); ss. Qed.
Lemma ss_sv fe i r : same_static r (f_rec (sv_rec fe i r)).
Proof.
  unfold sv_rec. destruct (i_val r); try apply same_static_refl. destruct (i_vm r); cbn; [apply ss_finish | ss].
Qed.
Lemma ss_ws fe nw i r : same_static r (f_rec (ws_rec fe nw i r)).
Proof.
  unfold ws_rec, done. destruct (i_wait r); try apply same_static_refl.
  - destruct (i_xc r); [ss|]. destruct (i_tfired r); [ss|]. destruct (i_fut r); try apply same_static_refl; try ss.
    destruct fe; [ss|]. destruct (i_vm r); ss.
  - destruct (i_xc r); [ss | apply same_static_refl].
Qed.
Lemma ss_sat fe d r : same_static r (f_rec (sat_rec fe d r)).
Proof. unfold sat_rec, fut_set. destruct fe; [ss|]. destruct (fdone (i_fut r)); [apply same_static_refl | ss]. Qed.
Lemma ss_nack x r : same_static r (f_rec (nack_rec x r)).
Proof. unfold nack_rec, fut_set. destruct (fdone (i_fut r)); [apply same_static_refl | ss]. Qed.
Lemma ss_vdone fe nw i v r : same_static r (f_rec (vdone_rec fe nw i v r)).
Proof.
  unfold vdone_rec, done. destruct fe.
  - destruct (i_val r); try apply same_static_refl. apply ss_finish.
  - destruct (i_wait r); try apply same_static_refl. destruct (i_xc r); [apply same_static_refl | ss].
Qed.
Lemma ss_cancel r : same_static r (cancel_rec r).
Proof. unfold cancel_rec. destruct (i_wait r); try apply same_static_refl; ss. Qed.
Lemma ss_await fe nw r : same_static r (await_rec fe nw r).
Proof. unfold await_rec. destruct (i_wait r); try apply same_static_refl. ss. Qed.

(* ---- membership in hit sets / in the filtered PIT, through the record ---- *)
Lemma pit_ok_entry s i x :
  pit_ok s -> In x (pflat (pit s)) -> xid x = i ->
  exists r, get_int s i = Some r /\ x = (i_name r, i_node r, entry_of i r).
Proof.
  intros [_ [_ [_ E]]] I X. destruct x as [[pn nid] e]. unfold xid in X; cbn in X. subst.
  destruct (E pn nid e I) as [r [G [A [B C]]]]. exists r; split; auto. congruence.
Qed.

Lemma mem_hits s i r h :
  pit_ok s -> get_int s i = Some r ->
  mem i (pit_hits h (pit s)) = mem i (pit_entries s) && h (i_name r) (i_node r) (entry_of i r).
Proof.
  intros P G. apply Bool.eq_iff_eq_true. rewrite andb_true_iff, !mem_In. unfold pit_entries.
  rewrite pit_entries_flat, pit_hits_flat, !in_map_iff. split.
  - intros [x [X I]]. apply filter_In in I. destruct I as [I L]. split; [eauto|].
    destruct (pit_ok_entry s i x P I X) as [r' [G' ->]]. rewrite G in G'; inversion G'; subst. exact L.
  - intros [[x [X I]] L]. exists x; split; auto. apply filter_In; split; auto.
    destruct (pit_ok_entry s i x P I X) as [r' [G' ->]]. rewrite G in G'; inversion G'; subst. exact L.
Qed.

Lemma mem_pit_map s i r kp :
  pit_ok s -> get_int s i = Some r ->
  mem i (pit_hits (fun _ _ _ => true) (pit_map kp (pit s))) = mem i (pit_entries s) && kp (i_name r) (i_node r) (entry_of i r).
Proof.
  intros P G. rewrite <- (mem_hits s i r kp P G). rewrite pit_entries_flat, pflat_pit_map, pit_hits_flat. reflexivity.
Qed.

Lemma mem_entries_has_rec s i : pit_ok s -> mem i (pit_entries s) = true -> exists r, get_int s i = Some r.
Proof.
  intros P M. apply mem_In in M. unfold pit_entries in M. rewrite pit_entries_flat in M. apply in_map_iff in M.
  destruct M as [x [X I]]. destruct (pit_ok_entry s i x P I X) as [r [G _]]. eauto.
Qed.

(* ---- the PIT shape is preserved by a filter + a static-preserving record map ---- *)
Lemma pit_ok_gsync s g kp :
  pit_ok s -> (forall i r, same_static r (f_rec (g i r))) ->
  pit_ok (upd_all g (set_pit s (pit_map kp (pit s)))).
Proof.
  intros [K [NE [ND E]]] SS. unfold pit_ok. rewrite upd_all_pit. cbn [pit set_pit].
  split; [apply pit_map_keys_nodup; auto|]. split; [|split].
  - intros pn nid es I. apply pit_map_In in I. tauto.
  - rewrite pflat_pit_map. apply NoDup_map_filter. exact ND.
  - intros pn nid e I. rewrite pflat_pit_map in I. apply filter_In in I. destruct I as [I _].
    destruct (E pn nid e I) as [r [G [A [B C]]]].
    rewrite get_int_upd_all. change (get_int (set_pit s (pit_map kp (pit s))) (e_id e)) with (get_int s (e_id e)).
    rewrite G; cbn. eexists; split; [reflexivity|]. destruct (SS (e_id e) r) as [S1 [S2 [S3 [S4 [S5 [S6 S7]]]]]].
    repeat split; try congruence. rewrite C. unfold entry_of; cbn. rewrite S2, S3. reflexivity.
Qed.

Lemma pit_ok_upd_all s g : pit_ok s -> (forall i r, same_static r (f_rec (g i r))) -> pit_ok (upd_all g s).
Proof.
  intros [K [NE [ND E]]] SS. unfold pit_ok. rewrite upd_all_pit. repeat split; auto.
  intros pn nid e I. destruct (E pn nid e I) as [r [G [A [B C]]]].
  rewrite get_int_upd_all, G; cbn. eexists; split; [reflexivity|]. destruct (SS (e_id e) r) as [S1 [S2 [S3 [S4 [S5 [S6 S7]]]]]].
  repeat split; try congruence. rewrite C. unfold entry_of; cbn. rewrite S2, S3. reflexivity.
Qed.

Lemma pit_map_false p : pit_map (fun _ _ _ => false) p = [].
Proof.
  unfold pit_map. induction p as [|[pn [nid es]] p IH]; cbn; auto.
  assert (F : filter (fun _ : entry => false) es = []) by (clear; induction es; cbn; auto). rewrite F. cbn. exact IH.
Qed.

(* ---- abs / completion ---- *)
Lemma abs_done_iff r o : abs_rec r = IDone o <-> exists t, i_wait r = WDone o t.
Proof.
  unfold abs_rec. destruct (i_wait r) eqn:W.
  1-3: split; [destruct (i_val r); discriminate | intros [t E]; discriminate].
  split; [intros E; inversion E; eauto | intros [t' E]; inversion E; reflexivity].
Qed.
