(* The table of named pattern numbers built by _gen_pattern_numbers: entry i is (identifier, i + 1), identifiers are not
   temporary; hence the table is injective. *)
From NDN Require Import Base.Prelude Base.Text Model.TlvVar Model.Name Model.LvsAst Model.LvsChecker Model.LvsCompiler
  Proofs.LvsNumbering Proofs.LvsReplicate.
Local Open Scope N_scope.

Definition named_good (named : list (ident * N)) : Prop :=
  forall i p n, nth_error named i = Some (p, n) -> n = N.of_nat (Datatypes.S i) /\ is_temp_pat p = false.

Lemma al_get_nth {V} (l : list (ident * V)) k v : al_get ident_eqb l k = Some v -> exists i, nth_error l i = Some (k, v).
Proof. intros H. apply al_get_in_pair in H. apply In_nth_error in H. exact H. Qed.

Lemma named_good_inj named : named_good named ->
  forall p q t, al_get ident_eqb named p = Some t -> al_get ident_eqb named q = Some t -> p = q.
Proof.
  intros G p q t Hp Hq. destruct (al_get_nth _ _ _ Hp) as (i & Hi). destruct (al_get_nth _ _ _ Hq) as (j & Hj).
  destruct (G _ _ _ Hi) as [E1 _]. destruct (G _ _ _ Hj) as [E2 _]. assert (i = j) by lia. subst j. rewrite Hi in Hj. inversion Hj. reflexivity.
Qed.

Lemma named_good_nt named : named_good named -> forall p n, al_get ident_eqb named p = Some n -> is_temp_pat p = false /\ 1 <= n.
Proof. intros G p n Hp. destruct (al_get_nth _ _ _ Hp) as (i & Hi). destruct (G _ _ _ Hi) as [E1 E2]. split; [exact E2 | lia]. Qed.

Lemma number_comp_good st tp c st' tp' nc : number_comp (st, tp) c = ((st', tp'), nc) -> num_inv st -> named_good (ns_named st) ->
  named_good (ns_named st').
Proof.
  intros H HI G. unfold number_comp in H. destruct c as [v|pid|r]; [inversion H; subst; exact G | | inversion H; subst; exact G].
  destruct (is_temp_pat pid) eqn:Et; [inversion H; subst; exact G|].
  destruct (al_get ident_eqb (ns_named st) pid) as [n|]; [inversion H; subst; exact G|].
  inversion H; subst. clear H. cbn [ns_named]. intros i p n Hn. apply nth_error_snoc in Hn. destruct Hn as [[Hn _]|[-> Hx]]; [apply (G _ _ _ Hn)|].
  inversion Hx; subst. split; [|exact Et]. rewrite (ni_next _ HI). lia.
Qed.

Lemma number_name_good : forall comps st tp st' tp' ncs, map_acc number_comp (st, tp) comps = ((st', tp'), ncs) ->
  num_inv st -> named_good (ns_named st) -> named_good (ns_named st').
Proof.
  induction comps as [|c comps IH]; intros st tp st' tp' ncs H HI G; cbn [map_acc] in H.
  - inversion H; subst. exact G.
  - destruct (number_comp (st, tp) c) as [[st1 tp1] nc] eqn:Ec.
    destruct (map_acc number_comp (st1, tp1) comps) as [[st2 tp2] ncs'] eqn:Em. inversion H; subst. clear H.
    destruct (number_comp_spec _ _ _ _ _ _ Ec HI) as (HI1 & _).
    eapply IH; [exact Em | exact HI1 | eapply number_comp_good; eauto].
Qed.

Lemma number_rules_good : forall rules st st' names, map_acc number_rule_name st rules = (st', names) ->
  num_inv st -> named_good (ns_named st) -> named_good (ns_named st').
Proof.
  induction rules as [|r rules IH]; intros st st' names H HI G; cbn [map_acc] in H.
  - inversion H; subst. exact G.
  - unfold number_rule_name at 1 in H.
    destruct (map_acc number_comp (st, []) (r_name r)) as [[st1 tp1] nm] eqn:En.
    destruct (map_acc number_rule_name st1 rules) as [st2 names'] eqn:Em. inversion H; subst. clear H.
    destruct (number_name_spec _ _ _ _ _ _ En HI) as (HI1 & _).
    eapply IH; [exact Em | exact HI1 | eapply number_name_good; eauto].
Qed.

Theorem gen_pattern_numbers_good rules nrules st : gen_pattern_numbers rules = Ok (nrules, st) -> named_good (ns_named st).
Proof.
  unfold gen_pattern_numbers.
  destruct (map_acc number_rule_name {| ns_named := []; ns_next_named := 1; ns_next_temp := 1 |} rules) as [st1 names] eqn:Em.
  destruct (rmap _ (combine rules names)) as [nrs|e]; cbn [bind]; [|discriminate].
  intros H; inversion H; subst nrs st1. clear H.
  eapply number_rules_good; [exact Em | exact num_inv0 |]. intros i p n Hn. destruct i; discriminate.
Qed.
