(* C05: suspended Interest validators and route changes (Model/GateSuspend.v). *)
From NDN Require Import Base.Prelude Spec.ExpressSpec Model.ExpressPipeline Model.GateSuspend Proofs.ExpressC05.
Local Open Scope N_scope.

Lemma lpm_acc {V} (n : name) (f : list (name * V)) : forall best r,
  fold_left (fun best kv =>
               if is_prefix (fst kv) n then
                 match best with
                 | Some b => if (length (fst b) <? length (fst kv))%nat then Some kv else best
                 | None => Some kv
                 end
               else best) f best = Some r ->
  best = Some r \/ (In r f /\ is_prefix (fst r) n = true).
Proof.
  induction f as [|a f IH]; intros best r H; cbn [fold_left] in H; [left; exact H|].
  apply IH in H. destruct H as [E | [I P]]; [| right; split; [right; exact I | exact P]].
  destruct (is_prefix (fst a) n) eqn:PA; [| left; exact E].
  destruct best as [b|].
  - destruct (length (fst b) <? length (fst a))%nat.
    + inversion E; subst. right. split; [left; reflexivity | exact PA].
    + left. exact E.
  - inversion E; subst. right. split; [left; reflexivity | exact PA].
Qed.

Lemma lpm_in {V} (f : list (name * V)) (n p : name) (v : V) :
  lpm f n = Some (p, v) -> In (p, v) f /\ is_prefix p n = true.
Proof.
  intros H. unfold lpm in H. apply lpm_acc in H. destruct H as [E | [I P]]; [discriminate E | split; assumption].
Qed.

Lemma al_del_in {V} (l : list (name * V)) (p : name) x : In x (al_del name_eqb l p) -> In x l.
Proof.
  induction l as [|[k v] l IH]; cbn [al_del]; [intros []|].
  destruct (name_eqb p k); intros H; [right; exact H|].
  destruct H as [H|H]; [left; exact H | right; apply IH; exact H].
Qed.

Lemma susp_take_in l kid x rest :
  susp_take l kid = Some (x, rest) -> In x l /\ (forall y, In y rest -> In y l).
Proof.
  revert x rest. induction l as [|a l IH]; intros x rest H; cbn [susp_take] in H; [discriminate|].
  destruct (fst a =? kid).
  - inversion H; subst. split; [left; reflexivity | intros y I; right; exact I].
  - destruct (susp_take l kid) as [[y r']|] eqn:T; [|discriminate]. inversion H; subst.
    destruct (IH _ _ eq_refl) as [I1 I2]. split; [right; exact I1|].
    intros z [E|I]; [left; exact E | right; apply I2; exact I].
Qed.

(* a validator supplied by the application is consulted only where its acceptance is what the property asks for *)
Lemma consults_pass fe dv f k p h hasv v :
  gate_consults fe dv f k = true -> lpm f (k_name k) = Some (p, (h, hasv)) -> pass fe v = true ->
  may_deliver fe (in_force fe hasv dv) (set_verdict k v) = true.
Proof.
  unfold gate_consults, may_deliver, in_force, plain, signed, validator_accepts, set_verdict.
  intros C L P. rewrite L in C.
  destruct k as [kid kn kp ks kd kv]; cbn [k_name k_params k_sig k_digest_ok k_verdict] in *.
  destruct fe; rewrite P; destruct dv, kp, (ks =? 0), kd, hasv; cbn [negb andb orb] in *;
    try reflexivity; try discriminate C; destruct (ks =? 2); reflexivity.
Qed.

Definition justified (fe : frontend) (att : list (N * (name * bool))) (h : N) (k : inc) : Prop :=
  exists p hasv dv, In (h, (p, hasv)) att /\ is_prefix p (k_name k) = true /\
                    may_deliver fe (in_force fe hasv dv) k = true.

Definition g_inv (fe : frontend) (s : gst) : Prop :=
  (forall p h hasv, In (p, (h, hasv)) (g_fib s) -> In (h, (p, hasv)) (g_att s)) /\
  (forall kid p h hasv k, In (kid, ((p, (h, hasv)), k)) (g_susp s) ->
     In (h, (p, hasv)) (g_att s) /\ is_prefix p (k_name k) = true /\
     exists dv, forall v, pass fe v = true -> may_deliver fe (in_force fe hasv dv) (set_verdict k v) = true) /\
  (forall h k, In (h, k) (g_hc s) -> justified fe (g_att s) h k).

Lemma g_inv_init fe : g_inv fe g_init.
Proof.
  split; [|split]; cbn [g_init g_fib g_susp g_hc].
  - intros p h hasv [].
  - intros kid p h hasv k [].
  - intros h k [].
Qed.

Lemma justified_mono fe att x h k : justified fe att h k -> justified fe (att ++ [x]) h k.
Proof. intros [p [hv [dv [I R]]]]. exists p, hv, dv. split; [apply in_or_app; left; exact I | exact R]. Qed.

Lemma g_inv_step fe s e : g_inv fe s -> g_inv fe (g_apply fe s e).
Proof.
  intros [F [S H]]. pose proof (conj F (conj S H)) as ALL.
  destruct e as [p hasv | p | own | k sp | kid v]; cbn [g_apply].
  - destruct (al_mem name_eqb (g_fib s) p); [exact ALL|].
    split; [|split]; cbn [g_fib g_att g_susp g_hc].
    + intros p' h' hv' I. apply in_app_iff in I. apply in_or_app. destruct I as [I|[E|[]]].
      * left. apply F. exact I.
      * inversion E; subst. right. left. reflexivity.
    + intros kid p' h' hv' k' I. destruct (S _ _ _ _ _ I) as [A [B C]].
      split; [apply in_or_app; left; exact A | split; assumption].
    + intros h k I. apply justified_mono. apply H. exact I.
  - split; [|split]; cbn [g_fib g_att g_susp g_hc].
    + intros p' h' hv' I. apply F. eapply al_del_in. exact I.
    + exact S.
    + exact H.
  - split; [|split]; cbn [g_fib g_att g_susp g_hc]; assumption.
  - destruct (gate_consults fe (g_dflt s) (g_fib s) k) eqn:C; cbn [andb].
    + destruct sp.
      * destruct (lpm (g_fib s) (k_name k)) as [[p [h hv]]|] eqn:L; [|exact ALL].
        destruct (lpm_in _ _ _ _ L) as [LI LP].
        split; [exact F|]. split; [|exact H]. cbn [g_susp g_att].
        intros kid p' h' hv' k' I. apply in_app_iff in I. destruct I as [I|[E|[]]]; [apply S with (kid := kid); exact I|].
        inversion E; subst. split; [apply F; exact LI|]. split; [exact LP|].
        exists (g_dflt s). intros v P. eapply consults_pass; eassumption.
      * destruct (gate fe (g_dflt s) (g_fib s) k) as [[h hv]|] eqn:G; [|exact ALL].
        split; [exact F|]. split; [exact S|]. cbn [g_hc g_att].
        intros h' k' I. apply in_app_iff in I. destruct I as [I|[E|[]]]; [apply H; exact I|]. inversion E; subst.
        apply gate_iff in G. destruct G as [[p L] M]. destruct (lpm_in _ _ _ _ L) as [LI LP].
        exists p, hv, (g_dflt s). split; [apply F; exact LI|]. split; assumption.
    + destruct (gate fe (g_dflt s) (g_fib s) k) as [[h hv]|] eqn:G; [|exact ALL].
      split; [exact F|]. split; [exact S|]. cbn [g_hc g_att].
      intros h' k' I. apply in_app_iff in I. destruct I as [I|[E|[]]]; [apply H; exact I|]. inversion E; subst.
      apply gate_iff in G. destruct G as [[p L] M]. destruct (lpm_in _ _ _ _ L) as [LI LP].
      exists p, hv, (g_dflt s). split; [apply F; exact LI|]. split; assumption.
  - destruct (susp_take (g_susp s) kid) as [[[kid' [[p [h hv]] k]] rest]|] eqn:T; [|exact ALL].
    destruct (susp_take_in _ _ _ _ T) as [TI TR].
    destruct (S _ _ _ _ _ TI) as [A [PP [dv D]]].
    destruct (pass fe v) eqn:P.
    + split; [exact F|]. split.
      * cbn [g_susp g_att]. intros kid0 p0 h0 hv0 k0 I. apply S with (kid := kid0). apply TR. exact I.
      * cbn [g_hc g_att]. intros h' k' I. apply in_app_iff in I. destruct I as [I|[E|[]]]; [apply H; exact I|].
        inversion E; subst. exists p, hv, dv. split; [exact A|]. split; [exact PP | apply D; exact P].
    + split; [exact F|]. split; [|exact H].
      cbn [g_susp g_att]. intros kid0 p0 h0 hv0 k0 I. apply S with (kid := kid0). apply TR. exact I.
Qed.

Lemma g_inv_run_from fe evs : forall s, g_inv fe s -> g_inv fe (fold_left (g_apply fe) evs s).
Proof. induction evs as [|e evs IH]; intros s I; cbn [fold_left]; [exact I | apply IH, g_inv_step, I]. Qed.

(* every handler call, in every history with suspended validators and route changes: the handler was attached at a
   prefix of the Interest's name, and the validator in force for THAT attachment accepted the Interest *)
Theorem suspended_gate fe evs h k :
  In (h, k) (g_hc (g_run fe evs)) -> justified fe (g_att (g_run fe evs)) h k.
Proof. intros I. destruct (g_inv_run_from fe evs g_init (g_inv_init fe)) as [_ [_ H]]. apply H. exact I. Qed.

(* handler ids name one attachment *)
Definition att_ok (s : gst) : Prop :=
  (forall h x, In (h, x) (g_att s) -> h < g_next s) /\
  (forall h x y, In (h, x) (g_att s) -> In (h, y) (g_att s) -> x = y).

Lemma att_ok_step fe s e : att_ok s -> att_ok (g_apply fe s e).
Proof.
  intros [L U]. destruct e as [p hasv | p | own | k sp | kid v]; cbn [g_apply].
  - destruct (al_mem name_eqb (g_fib s) p); [split; assumption|]. split; cbn [g_att g_next].
    + intros h x I. apply in_app_iff in I. destruct I as [I|[E|[]]]; [apply L in I; lia | inversion E; subst; lia].
    + intros h x y I J. apply in_app_iff in I. apply in_app_iff in J.
      destruct I as [I|[E|[]]], J as [J|[E'|[]]].
      * eapply U; eassumption.
      * inversion E'; subst. apply L in I. lia.
      * inversion E; subst. apply L in J. lia.
      * inversion E; inversion E'; subst. reflexivity.
  - split; assumption.
  - split; assumption.
  - destruct (gate_consults fe (g_dflt s) (g_fib s) k && sp).
    + destruct (lpm (g_fib s) (k_name k)); split; assumption.
    + destruct (gate fe (g_dflt s) (g_fib s) k) as [[? ?]|]; split; assumption.
  - destruct (susp_take (g_susp s) kid) as [[[? [[? [? ?]] ?]] ?]|]; [|split; assumption].
    destruct (pass fe v); split; assumption.
Qed.

Theorem att_functional fe evs h x y :
  In (h, x) (g_att (g_run fe evs)) -> In (h, y) (g_att (g_run fe evs)) -> x = y.
Proof.
  assert (A : forall evs s, att_ok s -> att_ok (fold_left (g_apply fe) evs s)).
  { clear. induction evs as [|e evs IH]; intros s I; cbn [fold_left]; [exact I | apply IH, att_ok_step, I]. }
  assert (I0 : att_ok g_init) by (split; cbn; intros; contradiction).
  destruct (A evs g_init I0) as [_ U]. apply U.
Qed.

(* ---- a validator that did not ACCEPT ----
   A validator consulted by the library accepts, rejects or TERMINATES WITH AN EXCEPTION (its certificate fetch timed
   out, was nacked, the face went down).  The last two have in common that no accepting verdict exists: the histories
   give such a validator a non-passing verdict (V2: 0 1 2, 5 = raised; V1: 0 = falsy or raised).  Whatever the reason,
   an Interest whose validator did not accept reaches a handler only if it needed no application validator:
   it is plain, or (legacy) it is unsigned, or the library default sha256_digest_checker was in force and had
   nothing to object. *)
Lemma may_deliver_no_accept fe own k :
  may_deliver fe own k = true -> pass fe (k_verdict k) = false ->
  plain k = true \/
  (fe = V1 /\ k_digest_ok k = true /\ (signed k = false \/ (own = false /\ (k_sig k =? 2) = false))).
Proof.
  unfold may_deliver, validator_accepts. intros M P.
  destruct (plain k) eqn:EP; [left; reflexivity|right].
  destruct fe; rewrite ?P in M; cbn [orb] in M.
  - destruct (k_digest_ok k), own; cbn in M; discriminate M.
  - split; [reflexivity|].
    destruct (k_digest_ok k); cbn [andb] in M; [split; [reflexivity|]|discriminate M].
    destruct (signed k) eqn:ES; cbn [negb orb] in M; [right|left; reflexivity].
    destruct own; [discriminate M|]. split; [reflexivity|].
    destruct (k_sig k =? 2); [discriminate M|reflexivity].
Qed.

Theorem suspended_no_accept fe evs h k :
  In (h, k) (g_hc (g_run fe evs)) -> pass fe (k_verdict k) = false ->
  plain k = true \/
  (fe = V1 /\ k_digest_ok k = true /\
   (signed k = false \/ ((k_sig k =? 2) = false /\ exists p, In (h, (p, false)) (g_att (g_run fe evs))))).
Proof.
  intros I P. destruct (suspended_gate fe evs h k I) as (p & hasv & dv & IA & _ & M).
  destruct (may_deliver_no_accept _ _ _ M P) as [H|(F & D & H)]; [left; exact H|right].
  split; [exact F|]. split; [exact D|]. destruct H as [H|[O S]]; [left; exact H|right].
  split; [exact S|]. subst fe. unfold in_force in O. destruct hasv; [discriminate O|]. exists p. exact IA.
Qed.

Theorem interest_no_accept fe h hd k :
  In (hd, k) (hcalls (run_hist fe h)) -> pass fe (k_verdict k) = false ->
  plain k = true \/ (fe = V1 /\ k_digest_ok k = true /\ (signed k = false \/ (k_sig k =? 2) = false)).
Proof.
  intros I P. destruct (interest_gate fe h hd k I) as [own M].
  destruct (may_deliver_no_accept _ _ _ M P) as [H|(F & D & H)]; [left; exact H|right].
  split; [exact F|]. split; [exact D|]. destruct H as [H|[_ S]]; [left; exact H|right; exact S].
Qed.
