(* compiler.top_order (Model/LvsChecker.top_order: Kahn's algorithm over Python dicts, modelled with
   association lists) is correct:
   - it fails only with SemanticError;
   - an answer is a duplicate-free listing of all nodes in which, for every edge a -> b, b comes before a;
   - it answers whenever every edge stays inside the node set and the graph has a ranking (is acyclic). *)
From NDN Require Import Base.Prelude Base.Text Model.LvsAst Model.LvsChecker Proofs.LvsSanity.
From Coq Require Import Permutation.
Local Open Scope Z_scope.

Section Kahn.
  Context {K : Type} (keqb : K -> K -> bool) (kleb : K -> K -> bool) (sortable : list K -> bool).
  Hypothesis Heq : forall a b, keqb a b = true <-> a = b.

  Definition kmem (x : K) (l : list K) : bool := existsb (keqb x) l.
  Lemma kmem_in x l : kmem x l = true <-> In x l.
  Proof.
    unfold kmem. rewrite existsb_exists. split.
    - intros (y & Hy & E). apply Heq in E. subst. exact Hy.
    - intros H. exists x. split; [exact H | apply Heq; reflexivity].
  Qed.
  Lemma keqb_refl x : keqb x x = true.
  Proof. apply Heq. reflexivity. Qed.
  Lemma keqb_neq x y : x <> y -> keqb x y = false.
  Proof. intros H. destruct (keqb x y) eqn:E; [apply Heq in E; contradiction | reflexivity]. Qed.
  Lemma keq_dec (x y : K) : {x = y} + {x <> y}.
  Proof. destruct (keqb x y) eqn:E; [left; apply Heq; exact E | right; intros ->; rewrite keqb_refl in E; discriminate]. Qed.

  (* ---- association lists ------------------------------------------------------------------------- *)
  Lemma al_set_keys {V} (l : list (K * V)) k v : In k (map fst l) -> map fst (al_set keqb l k v) = map fst l.
  Proof.
    induction l as [|[k' v'] l IH]; cbn; [intros []|]. intros H. destruct (keqb k k') eqn:E; cbn; [reflexivity|].
    f_equal. apply IH. destruct H as [H|H]; [subst; rewrite keqb_refl in E; discriminate | exact H].
  Qed.
  Lemma al_get_set_eq {V} (l : list (K * V)) k v : In k (map fst l) -> al_get keqb (al_set keqb l k v) k = Some v.
  Proof.
    induction l as [|[k' v'] l IH]; cbn; [intros []|]. intros H. destruct (keqb k k') eqn:E; cbn; rewrite E; [reflexivity|].
    apply IH. destruct H as [H|H]; [subst; rewrite keqb_refl in E; discriminate | exact H].
  Qed.
  Lemma al_get_set_neq {V} (l : list (K * V)) k v x : x <> k -> al_get keqb (al_set keqb l k v) x = al_get keqb l x.
  Proof.
    intros Hne. induction l as [|[k' v'] l IH]; cbn.
    - rewrite (keqb_neq _ _ Hne). reflexivity.
    - destruct (keqb k k') eqn:E; cbn.
      + apply Heq in E. subst k'. rewrite (keqb_neq _ _ Hne). reflexivity.
      + destruct (keqb x k'); [reflexivity | exact IH].
  Qed.
  Lemma al_get_in {V} (l : list (K * V)) k : In k (map fst l) <-> exists v, al_get keqb l k = Some v.
  Proof.
    induction l as [|[k' v'] l IH]; cbn.
    - split; [intros [] | intros (v & H); discriminate].
    - destruct (keqb k k') eqn:E.
      + apply Heq in E. subst. split; eauto.
      + rewrite <- IH. split; [intros [H|H]; [subst; rewrite keqb_refl in E; discriminate | exact H] | auto].
  Qed.

  Definition dget (deg : list (K * Z)) (x : K) : Z := match al_get keqb deg x with Some v => v | None => 0 end.

  Lemma deg_add_keys deg k d : map fst (deg_add keqb deg k d) = map fst deg.
  Proof.
    unfold deg_add. destruct (al_get keqb deg k) as [v|] eqn:E; [|reflexivity].
    apply al_set_keys. apply al_get_in. eauto.
  Qed.
  Lemma deg_add_get deg k d x : In k (map fst deg) ->
    dget (deg_add keqb deg k d) x = if keqb x k then dget deg x + d else dget deg x.
  Proof.
    intros Hk. unfold deg_add, dget. apply al_get_in in Hk as Hv. destruct Hv as (v & Ev). rewrite Ev.
    destruct (keqb x k) eqn:E.
    - apply Heq in E. subst x. rewrite al_get_set_eq by exact Hk. rewrite Ev. reflexivity.
    - rewrite al_get_set_neq; [reflexivity|]. intros ->. rewrite keqb_refl in E. discriminate.
  Qed.

  Definition occ (x : K) (l : list K) : nat := length (filter (keqb x) l).

  Lemma keqb_sym x y : keqb x y = keqb y x.
  Proof.
    destruct (keqb x y) eqn:E1, (keqb y x) eqn:E2; try reflexivity.
    - apply Heq in E1. subst. rewrite keqb_refl in E2. discriminate.
    - apply Heq in E2. subst. rewrite keqb_refl in E1. discriminate.
  Qed.
  Lemma filter_map_length {A B} (f : B -> bool) (g : A -> B) l : length (filter f (map g l)) = length (filter (fun y => f (g y)) l).
  Proof. induction l as [|x l IH]; cbn; [reflexivity|]. destruct (f (g x)); cbn; rewrite IH; reflexivity. Qed.
  Lemma filter_false {A} (l : list A) : filter (fun _ => false) l = [].
  Proof. induction l; cbn; auto. Qed.

  Lemma fold_deg_add deg outs d : (forall o, In o outs -> In o (map fst deg)) ->
    map fst (fold_left (fun dg n2 => deg_add keqb dg n2 d) outs deg) = map fst deg /\
    forall x, dget (fold_left (fun dg n2 => deg_add keqb dg n2 d) outs deg) x = dget deg x + Z.of_nat (occ x outs) * d.
  Proof.
    revert deg; induction outs as [|o outs IH]; intros deg Hin; cbn [fold_left].
    - split; [reflexivity|]. intros x. cbn. lia.
    - destruct (IH (deg_add keqb deg o d)) as [Hk Hg].
      { intros o' Ho'. rewrite deg_add_keys. apply Hin. right; exact Ho'. }
      split; [rewrite Hk; apply deg_add_keys|]. intros x. rewrite Hg, deg_add_get by (apply Hin; left; reflexivity).
      unfold occ. cbn [filter]. destruct (keqb x o); cbn [length]; lia.
  Qed.

  (* ---- the graph ------------------------------------------------------------------------------------ *)
  Variable nodes : list K.
  Variable graph : list (K * list K).
  Hypothesis Hnd : NoDup nodes.
  Hypothesis Hkeys : map fst graph = nodes.
  (* sorting a round cannot fail: only lists of nodes are sorted *)
  Hypothesis Hsort : forall l, (forall x, In x l -> In x nodes) -> sortable l = true.

  Definition edges : list (K * K) := flat_map (fun e => map (pair (fst e)) (snd e)) graph.

  Lemma graph_get n : In n nodes -> exists outs, al_get keqb graph n = Some outs /\ In (n, outs) graph.
  Proof.
    rewrite <- Hkeys. clear Hkeys Hnd. induction graph as [|[k outs] g IH]; cbn; [intros []|].
    intros [H|H].
    - subst. rewrite keqb_refl. exists outs. auto.
    - destruct (keqb n k) eqn:E.
      + apply Heq in E. subst. exists outs. auto.
      + destruct (IH H) as (o & Ho & Hi). exists o. auto.
  Qed.

  (* edges into b whose source is not in acc *)
  Definition into (acc : list K) (b : K) : nat :=
    length (filter (fun e => keqb (snd e) b && negb (kmem (fst e) acc)) edges).

  Lemma filter_length_le {A} (p q : A -> bool) l : (forall x, p x = true -> q x = true) -> (length (filter p l) <= length (filter q l))%nat.
  Proof.
    intros H. induction l as [|x l IH]; cbn; [lia|]. destruct (p x) eqn:E.
    - rewrite (H x E). cbn. lia.
    - destruct (q x); cbn; lia.
  Qed.

  Lemma into_antitone acc x b : (into (x :: acc) b <= into acc b)%nat.
  Proof.
    unfold into. apply filter_length_le. intros e. rewrite !andb_true_iff, !negb_true_iff. intros [H1 H2]. split; [exact H1|].
    cbn in H2. apply orb_false_iff in H2. tauto.
  Qed.

  Lemma into_zero_iff acc b : into acc b = O <-> forall a, In (a, b) edges -> In a acc.
  Proof.
    unfold into. split.
    - intros H a Ha. destruct (kmem a acc) eqn:E; [apply kmem_in; exact E|].
      assert (Hin : In (a, b) (filter (fun e => keqb (snd e) b && negb (kmem (fst e) acc)) edges)).
      { apply filter_In. split; [exact Ha|]. cbn. rewrite keqb_refl, E. reflexivity. }
      destruct (filter _ edges); [destruct Hin | discriminate].
    - intros H. destruct (filter _ edges) as [|[a b'] l] eqn:E; [reflexivity|].
      assert (Hin : In (a, b') (filter (fun e => keqb (snd e) b && negb (kmem (fst e) acc)) edges)) by (rewrite E; left; reflexivity).
      apply filter_In in Hin. destruct Hin as [Hin Hp]. cbn in Hp. apply andb_true_iff in Hp. destruct Hp as [H1 H2].
      apply Heq in H1. subst b'. apply H in Hin. apply kmem_in in Hin. rewrite Hin in H2. discriminate.
  Qed.

  (* the edges leaving x, counted per target *)
  Lemma into_cons acc x b outs : ~ In x acc -> al_get keqb graph x = Some outs -> In x nodes ->
    into acc b = (into (x :: acc) b + occ b outs)%nat.
  Proof.
    intros Hx Hg Hxn. unfold into, edges.
    assert (G : forall g, NoDup (map fst g) ->
              length (filter (fun e => keqb (snd e) b && negb (kmem (fst e) acc)) (flat_map (fun e => map (pair (fst e)) (snd e)) g)) =
              (length (filter (fun e => keqb (snd e) b && negb (kmem (fst e) (x :: acc))) (flat_map (fun e => map (pair (fst e)) (snd e)) g))
               + match al_get keqb g x with Some o => occ b o | None => O end)%nat).
    { induction g as [|[k o] g IH]; intros Hnd'; [reflexivity|]. cbn [flat_map fst snd al_get map] in *.
      inversion Hnd' as [|? ? Hnk Hnd'']; subst. rewrite !filter_app, !app_length, (IH Hnd''). clear IH.
      assert (Hk : length (filter (fun e => keqb (snd e) b && negb (kmem (fst e) acc)) (map (pair k) o)) =
                   (length (filter (fun e => keqb (snd e) b && negb (kmem (fst e) (x :: acc))) (map (pair k) o))
                    + (if keqb x k then occ b o else O))%nat).
      { rewrite !filter_map_length. cbn [fst snd].
        destruct (keqb x k) eqn:E.
        - apply Heq in E. subst k.
          assert (E1 : kmem x acc = false) by (destruct (kmem x acc) eqn:E1; [apply kmem_in in E1; contradiction | reflexivity]).
          assert (E2 : kmem x (x :: acc) = true) by (apply kmem_in; left; reflexivity).
          rewrite E1, E2. cbn [negb].
          rewrite (filter_ext (fun y => keqb y b && false) (fun _ => false)) by (intros; apply andb_false_r).
          rewrite filter_false. cbn [length Nat.add]. unfold occ. f_equal. apply filter_ext. intros y. rewrite andb_true_r. apply keqb_sym.
        - assert (E2 : kmem k (x :: acc) = kmem k acc).
          { unfold kmem. cbn [existsb]. rewrite (keqb_sym k x), E. reflexivity. }
          rewrite E2. lia. }
      destruct (keqb x k) eqn:E.
      + apply Heq in E. subst k.
        assert (al_get keqb g x = None).
        { destruct (al_get keqb g x) eqn:Eg; [|reflexivity]. exfalso. apply Hnk. apply al_get_in. eauto. }
        rewrite H. lia.
      + lia. }
    rewrite (G graph) by (rewrite Hkeys; exact Hnd). rewrite Hg. reflexivity.
  Qed.

  (* ---- the invariant of the main loop ------------------------------------------------------------------ *)
  Definition before_in (acc : list K) : Prop :=
    forall a b l1 l2, In (a, b) edges -> acc = l1 ++ b :: l2 -> In a l2.

  Record KInv (deg : list (K * Z)) (acc : list K) : Prop := {
    ki_keys : map fst deg = nodes;
    ki_nodup : NoDup acc;
    ki_sub : forall x, In x acc -> In x nodes;
    ki_done : forall x, In x acc -> dget deg x = -1;
    ki_todo : forall x, In x nodes -> ~ In x acc -> dget deg x = Z.of_nat (into acc x);
    ki_order : before_in acc
  }.

  Hypothesis Hclosed : forall a b, In (a, b) edges -> In a nodes /\ In b nodes.

  Lemma process_ok deg acc x : KInv deg acc -> In x nodes -> ~ In x acc -> into acc x = O ->
    exists deg', process_node keqb graph (deg, acc) x = Ok (deg', x :: acc) /\ KInv deg' (x :: acc).
  Proof.
    intros HI Hx Hnx Hz. destruct (graph_get x Hx) as (outs & Hg & Hgi).
    unfold process_node. rewrite Hg. cbn [fst snd].
    assert (Houts : forall o, In o outs -> In o (map fst deg)).
    { intros o Ho. rewrite (ki_keys _ _ HI). apply (Hclosed x o). unfold edges. apply in_flat_map. exists (x, outs). split; [exact Hgi|].
      cbn. apply in_map, Ho. }
    destruct (fold_deg_add deg outs (-1) Houts) as [Hk Hgt].
    eexists. split; [reflexivity|].
    assert (Hxk : In x (map fst (fold_left (fun dg n2 => deg_add keqb dg n2 (-1)) outs deg))) by (rewrite Hk, (ki_keys _ _ HI); exact Hx).
    constructor.
    - rewrite al_set_keys by exact Hxk. rewrite Hk. apply (ki_keys _ _ HI).
    - constructor; [exact Hnx | apply (ki_nodup _ _ HI)].
    - intros y [<-|Hy]; [exact Hx | apply (ki_sub _ _ HI), Hy].
    - intros y [<-|Hy].
      + unfold dget. rewrite al_get_set_eq by exact Hxk. reflexivity.
      + assert (y <> x) by (intros ->; contradiction).
        unfold dget. rewrite al_get_set_neq by exact H. fold (dget (fold_left (fun dg n2 => deg_add keqb dg n2 (-1)) outs deg) y).
        rewrite Hgt, (ki_done _ _ HI y Hy).
        (* no edge from x to a processed node: x would have to be processed before it *)
        assert (occ y outs = O).
        { unfold occ. destruct (filter (keqb y) outs) as [|z l] eqn:E; [reflexivity|]. exfalso.
          assert (Hz' : In z (filter (keqb y) outs)) by (rewrite E; left; reflexivity).
          apply filter_In in Hz'. destruct Hz' as [Hzo Hzy]. apply Heq in Hzy. subst z.
          apply in_split in Hy. destruct Hy as (l1 & l2 & Eacc).
          assert (Hxy : In (x, y) edges).
          { unfold edges. apply in_flat_map. exists (x, outs). split; [exact Hgi|]. cbn. apply in_map, Hzo. }
          pose proof (ki_order _ _ HI x y l1 l2 Hxy Eacc) as Hin. apply Hnx. rewrite Eacc. apply in_or_app. right. right. exact Hin. }
        rewrite H0. lia.
    - intros y Hy Hny. assert (y <> x) by (intros ->; apply Hny; left; reflexivity).
      assert (Hny' : ~ In y acc) by (intros Hc; apply Hny; right; exact Hc).
      unfold dget. rewrite al_get_set_neq by exact H. fold (dget (fold_left (fun dg n2 => deg_add keqb dg n2 (-1)) outs deg) y).
      rewrite Hgt, (ki_todo _ _ HI y Hy Hny'), (into_cons acc x y outs Hnx Hg Hx). lia.
    - intros a b l1 l2 Hab Eacc. destruct l1 as [|h l1]; cbn in Eacc; inversion Eacc; subst.
      + (* b = x: all its sources are processed *)
        apply (proj1 (into_zero_iff l2 b) Hz a Hab).
      + apply (ki_order _ _ HI a b l1 l2 Hab eq_refl).
  Qed.

  (* one round: every member has in-degree 0 w.r.t. the nodes processed before the round *)
  Lemma round_ok : forall xs deg acc, KInv deg acc -> NoDup xs ->
    (forall x, In x xs -> In x nodes /\ ~ In x acc /\ into acc x = O) ->
    exists deg', rfold (process_node keqb graph) xs (deg, acc) = Ok (deg', rev xs ++ acc) /\ KInv deg' (rev xs ++ acc).
  Proof.
    induction xs as [|x xs IH]; intros deg acc HI Hnd' Hall.
    - exists deg. split; [reflexivity | exact HI].
    - destruct (Hall x (or_introl eq_refl)) as (Hx & Hnx & Hz). inversion Hnd' as [|? ? Hnxs Hnd'']; subst.
      destruct (process_ok deg acc x HI Hx Hnx Hz) as (deg1 & Hp & HI1).
      destruct (IH deg1 (x :: acc) HI1 Hnd'') as (deg' & Hr & HI').
      { intros y Hy. destruct (Hall y (or_intror Hy)) as (H1 & H2 & H3). split; [exact H1|]. split.
        - intros [<-|Hc]; [contradiction | contradiction].
        - pose proof (into_antitone acc x y). lia. }
      exists deg'. cbn [rfold]. rewrite Hp. cbn [bind]. cbn [rev]. rewrite <- app_assoc. cbn [app]. auto.
  Qed.

  Lemma filter_zero_spec deg acc x : KInv deg acc ->
    In x (map fst (filter (fun nd => (snd nd =? 0)) deg)) <-> In x nodes /\ ~ In x acc /\ into acc x = O.
  Proof.
    intros HI. rewrite in_map_iff. split.
    - intros ([k v] & <- & Hf). apply filter_In in Hf. destruct Hf as [Hin Hz]. cbn in *. apply Z.eqb_eq in Hz. subst v.
      assert (Hk : In k nodes) by (rewrite <- (ki_keys _ _ HI); apply in_map_iff; exists (k, 0); auto).
      assert (Hd : dget deg k = 0).
      { unfold dget. assert (NoDup (map fst deg)) by (rewrite (ki_keys _ _ HI); exact Hnd).
        clear - Hin H Heq. induction deg as [|[k' v'] d IH]; [destruct Hin|]. cbn in *. inversion H; subst.
        destruct Hin as [E|Hin].
        - inversion E; subst. rewrite (proj2 (Heq k k) eq_refl). reflexivity.
        - destruct (keqb k k') eqn:Ek; [apply Heq in Ek; subst; exfalso; apply H2; apply in_map_iff; exists (k', 0); auto | apply IH; auto]. }
      split; [exact Hk|]. destruct (in_dec keq_dec k acc) as [Hi|Hn].
      + rewrite (ki_done _ _ HI k Hi) in Hd. lia.
      + split; [exact Hn|]. rewrite (ki_todo _ _ HI k Hk Hn) in Hd. lia.
    - intros (Hx & Hnx & Hz). pose proof (ki_todo _ _ HI x Hx Hnx) as Hd. rewrite Hz in Hd.
      rewrite <- (ki_keys _ _ HI) in Hx. apply al_get_in in Hx. destruct Hx as (v & Ev).
      unfold dget in Hd. rewrite Ev in Hd. cbn in Hd. subst v. exists (x, 0). split; [reflexivity|]. apply filter_In. split; [|reflexivity].
      clear - Ev Heq. induction deg as [|[k' v'] d IH]; [discriminate|]. cbn in Ev. destruct (keqb x k') eqn:E.
      + apply Heq in E. inversion Ev; subst. left; reflexivity.
      + right. apply IH, Ev.
  Qed.

  Lemma nodup_map_fst_filter {V} (l : list (K * V)) p : NoDup (map fst l) -> NoDup (map fst (filter p l)).
  Proof.
    induction l as [|[k v] l IH]; cbn; [constructor|]. intros H. inversion H; subst. destruct (p (k, v)); cbn; [|auto].
    constructor; [|auto]. intros Hin. apply H2. apply in_map_iff in Hin. destruct Hin as ([k' v'] & E & Hf). cbn in E. subst k'.
    apply filter_In in Hf. apply in_map_iff. exists (k, v'). tauto.
  Qed.

  Lemma isort_perm l : Permutation (isort kleb l) l.
  Proof.
    induction l as [|x l IH]; cbn; [constructor|].
    assert (G : forall s, Permutation (insert_sorted kleb x s) (x :: s)).
    { induction s as [|y s IHs]; cbn; [apply Permutation_refl|]. destruct (kleb x y); [apply Permutation_refl|].
      eapply Permutation_trans; [apply perm_skip, IHs | apply perm_swap]. }
    eapply Permutation_trans; [apply G | apply perm_skip, IH].
  Qed.

  Definition topo (o : list K) : Prop :=
    NoDup o /\ (forall x, In x o <-> In x nodes) /\ before_in o.

  Lemma finished deg acc : KInv deg acc -> (length nodes <= length acc)%nat -> topo acc.
  Proof.
    intros HI Hl. split; [apply (ki_nodup _ _ HI)|]. split; [|apply (ki_order _ _ HI)].
    intros x. split; [apply (ki_sub _ _ HI)|].
    apply (NoDup_length_incl (ki_nodup _ _ HI) Hl). intros y. apply (ki_sub _ _ HI).
  Qed.

  (* soundness and error class of the main loop *)
  Lemma rounds_sound : forall fuel deg acc, KInv deg acc -> (length nodes < length acc + fuel)%nat ->
    match top_rounds keqb kleb sortable fuel (length nodes) graph deg acc with
    | Ok o => topo o
    | Err e => e = ESemantic
    end.
  Proof.
    induction fuel as [|f IH]; intros deg acc HI Hf; cbn [top_rounds].
    - destruct (Nat.leb_spec (length nodes) (length acc)); [eapply finished; eauto | lia].
    - destruct (Nat.leb_spec (length nodes) (length acc)); [eapply finished; eauto|].
      destruct (map fst (filter (fun nd => snd nd =? 0) deg)) as [|r0 rs] eqn:Er; [reflexivity|].
      rewrite Hsort by (intros x0 Hx0; rewrite <- Er in Hx0; apply in_map_iff in Hx0; destruct Hx0 as (p0 & <- & Hp0); apply filter_In in Hp0; rewrite <- (ki_keys _ _ HI); apply in_map; tauto). cbn [negb].
      assert (Hnd' : NoDup (isort kleb (r0 :: rs))).
      { eapply Permutation_NoDup; [apply Permutation_sym, isort_perm|]. rewrite <- Er. apply nodup_map_fst_filter.
        rewrite (ki_keys _ _ HI). exact Hnd. }
      assert (Hall : forall x, In x (isort kleb (r0 :: rs)) -> In x nodes /\ ~ In x acc /\ into acc x = O).
      { intros x Hx. apply (filter_zero_spec deg acc x HI). rewrite Er. eapply Permutation_in; [apply isort_perm | exact Hx]. }
      destruct (round_ok _ deg acc HI Hnd' Hall) as (deg' & Hr & HI'). rewrite Hr. cbn [bind fst snd].
      apply IH; [exact HI'|]. rewrite app_length, rev_length.
      assert (length (isort kleb (r0 :: rs)) = length (r0 :: rs)) by (apply Permutation_length, isort_perm).
      rewrite H0. cbn [length]. lia.
  Qed.

  Lemma unproc_dec (acc l : list K) : (exists z, In z l /\ ~ In z acc) \/ (forall z, In z l -> In z acc).
  Proof.
    induction l as [|x l IH]; [right; intros z []|].
    destruct (in_dec keq_dec x acc) as [Hx|Hx].
    - destruct IH as [(z & Hz & Hn)|Hall]; [left; exists z; split; [right; exact Hz | exact Hn]|].
      right. intros z [<-|Hz]; auto.
    - left. exists x. split; [left; reflexivity | exact Hx].
  Qed.

  (* with a ranking no round is empty *)
  Lemma rounds_complete (rank : K -> nat) :
    (forall a b, In (a, b) edges -> (rank b < rank a)%nat) ->
    forall fuel deg acc, KInv deg acc -> (length nodes < length acc + fuel)%nat ->
    exists o, top_rounds keqb kleb sortable fuel (length nodes) graph deg acc = Ok o.
  Proof.
    intros Hrank. induction fuel as [|f IH]; intros deg acc HI Hf; cbn [top_rounds].
    - destruct (Nat.leb_spec (length nodes) (length acc)); [eauto | lia].
    - destruct (Nat.leb_spec (length nodes) (length acc)); [eauto|].
      (* an unprocessed node of maximal rank has no unprocessed source *)
      assert (Hex : exists x, In x nodes /\ ~ In x acc /\ forall y, In y nodes -> ~ In y acc -> (rank y <= rank x)%nat).
      { assert (G : forall l, (exists z, In z l /\ ~ In z acc) ->
                    exists x, In x l /\ ~ In x acc /\ forall y, In y l -> ~ In y acc -> (rank y <= rank x)%nat).
        { induction l as [|z l IHl]; intros (w & Hw & Hnw); [destruct Hw|].
          destruct (in_dec keq_dec z acc) as [Hz|Hz].
          - destruct Hw as [->|Hw]; [contradiction|]. destruct (IHl (ex_intro _ w (conj Hw Hnw))) as (x & H1 & H2 & H3).
            exists x. split; [right; exact H1|]. split; [exact H2|]. intros y [<-|Hy] Hny; [contradiction | auto].
          - destruct (unproc_dec acc l) as [(w' & Hw' & Hnw')|Hnone].
            + destruct (IHl (ex_intro _ w' (conj Hw' Hnw'))) as (x & H1 & H2 & H3).
              destruct (Nat.le_gt_cases (rank z) (rank x)).
              * exists x. split; [right; exact H1|]. split; [exact H2|]. intros y [<-|Hy] Hny; auto.
              * exists z. split; [left; reflexivity|]. split; [exact Hz|]. intros y [<-|Hy] Hny; [lia|]. specialize (H3 y Hy Hny). lia.
            + exists z. split; [left; reflexivity|]. split; [exact Hz|]. intros y [<-|Hy] Hny; [lia|]. specialize (Hnone y Hy). contradiction. }
        apply G.
        destruct (unproc_dec acc nodes) as [H1|Hnone]; [exact H1|]. exfalso.
        pose proof (NoDup_incl_length Hnd (l' := acc) Hnone). lia. }
      destruct Hex as (x & Hx & Hnx & Hmax).
      assert (Hz : into acc x = O).
      { apply into_zero_iff. intros a Ha. destruct (in_dec keq_dec a acc) as [Hi|Hn]; [exact Hi|]. exfalso.
        destruct (Hclosed a x Ha) as [Han _]. specialize (Hmax a Han Hn). specialize (Hrank a x Ha). lia. }
      assert (Hxin : In x (map fst (filter (fun nd => snd nd =? 0) deg))) by (apply (filter_zero_spec deg acc x HI); auto).
      destruct (map fst (filter (fun nd => snd nd =? 0) deg)) as [|r0 rs] eqn:Er; [destruct Hxin|].
      rewrite Hsort by (intros x0 Hx0; rewrite <- Er in Hx0; apply in_map_iff in Hx0; destruct Hx0 as (p0 & <- & Hp0); apply filter_In in Hp0; rewrite <- (ki_keys _ _ HI); apply in_map; tauto). cbn [negb].
      assert (Hnd' : NoDup (isort kleb (r0 :: rs))).
      { eapply Permutation_NoDup; [apply Permutation_sym, isort_perm|]. rewrite <- Er. apply nodup_map_fst_filter.
        rewrite (ki_keys _ _ HI). exact Hnd. }
      assert (Hall : forall y, In y (isort kleb (r0 :: rs)) -> In y nodes /\ ~ In y acc /\ into acc y = O).
      { intros y Hy. apply (filter_zero_spec deg acc y HI). rewrite Er. eapply Permutation_in; [apply isort_perm | exact Hy]. }
      destruct (round_ok _ deg acc HI Hnd' Hall) as (deg' & Hr & HI'). rewrite Hr. cbn [bind fst snd].
      apply IH; [exact HI'|]. rewrite app_length, rev_length.
      assert (length (isort kleb (r0 :: rs)) = length (r0 :: rs)) by (apply Permutation_length, isort_perm).
      rewrite H0. cbn [length]. lia.
  Qed.
End Kahn.

(* ---- the whole function ---------------------------------------------------------------------------------- *)
Section TopOrder.
  Context {K : Type} (keqb : K -> K -> bool) (kleb : K -> K -> bool) (sortable : list K -> bool).
  Hypothesis Heq : forall a b, keqb a b = true <-> a = b.
  Variable nodes : list K.
  Variable graph : list (K * list K).
  Hypothesis Hnd : NoDup nodes.
  Hypothesis Hkeys : map fst graph = nodes.
  Hypothesis Hsort : forall l, (forall x, In x l -> In x nodes) -> sortable l = true.

  Definition gedges (g : list (K * list K)) : list (K * K) := flat_map (fun e => map (pair (fst e)) (snd e)) g.
  Definition closed_in (g : list (K * list K)) : Prop := forall a b, In (a, b) (gedges g) -> In a nodes /\ In b nodes.
  Definition inc (g : list (K * list K)) (x : K) : nat := length (filter (fun e => keqb (snd e) x) (gedges g)).

  Lemma count_src_spec deg src outs : map fst deg = nodes ->
    match count_src keqb nodes deg (src, outs) with
    | Ok deg' => (outs <> [] -> In src nodes) /\ (forall o, In o outs -> In o nodes) /\ map fst deg' = nodes /\
                 forall x, dget keqb deg' x = dget keqb deg x + Z.of_nat (occ keqb x outs)
    | Err e => e = ESemantic /\ ~ (In src nodes /\ forall o, In o outs -> In o nodes)
    end.
  Proof.
    unfold count_src. cbn [fst snd]. revert deg. induction outs as [|o outs IH]; intros deg Hk; cbn [rfold].
    - repeat split; auto; try (intros; contradiction). intros x. cbn. lia.
    - destruct (existsb (keqb src) nodes && existsb (keqb o) nodes) eqn:E.
      + apply andb_true_iff in E. destruct E as [E1 E2]. apply (kmem_in keqb Heq) in E1, E2. cbn [bind].
        specialize (IH (deg_add keqb deg o 1)). rewrite (deg_add_keys keqb Heq) in IH. specialize (IH Hk).
        destruct (rfold _ outs (deg_add keqb deg o 1)) as [deg'|e].
        * destruct IH as (H1 & H2 & H3 & H4). repeat split; auto.
          -- intros o' [<-|Ho']; auto.
          -- intros x. rewrite H4, (deg_add_get keqb Heq) by (rewrite Hk; exact E2). unfold occ. cbn [filter].
             destruct (keqb x o); cbn [length]; lia.
        * destruct IH as [He Hn]. split; [exact He|]. intros [Hs Ha]. apply Hn. split; [exact Hs|]. intros; apply Ha; right; assumption.
      + cbn [bind]. split; [reflexivity|]. intros [Hs Ha]. apply andb_false_iff in E. destruct E as [E|E].
        * apply (kmem_in keqb Heq) in Hs. unfold kmem in Hs. congruence.
        * specialize (Ha o (or_introl eq_refl)). apply (kmem_in keqb Heq) in Ha. unfold kmem in Ha. congruence.
  Qed.

  Lemma count_spec : forall g deg, map fst deg = nodes ->
    match rfold (count_src keqb nodes) g deg with
    | Ok deg' => closed_in g /\ map fst deg' = nodes /\ forall x, dget keqb deg' x = dget keqb deg x + Z.of_nat (inc g x)
    | Err e => e = ESemantic /\ ~ closed_in g
    end.
  Proof.
    induction g as [|[src outs] g IH]; intros deg Hk; cbn [rfold].
    - split; [intros a b []|]. split; [exact Hk|]. intros x. unfold inc. cbn. lia.
    - pose proof (count_src_spec deg src outs Hk) as Hc.
      destruct (count_src keqb nodes deg (src, outs)) as [deg1|e] eqn:Ec; cbn [bind].
      + destruct Hc as (H1 & H2 & H3 & H4). specialize (IH deg1 H3).
        destruct (rfold (count_src keqb nodes) g deg1) as [deg'|e].
        * destruct IH as (Hc1 & Hk1 & Hg1). split; [|split; [exact Hk1|]].
          -- intros a b Hab. unfold gedges in Hab. cbn [flat_map fst snd] in Hab. apply in_app_or in Hab. destruct Hab as [Hab|Hab].
             ++ apply in_map_iff in Hab. destruct Hab as (o & Eo & Ho). inversion Eo; subst. split; [apply H1; intros ->; destruct Ho | apply H2, Ho].
             ++ apply Hc1, Hab.
          -- intros x. rewrite Hg1, H4. unfold inc, gedges. cbn [flat_map fst snd]. rewrite filter_app, app_length.
             rewrite filter_map_length. cbn [snd]. unfold occ.
             rewrite (filter_ext (fun y => keqb y x) (keqb x)) by (intros; apply (keqb_sym keqb Heq)). lia.
        * destruct IH as [He Hn]. split; [exact He|]. intros Hcl. apply Hn. intros a b Hab. apply Hcl.
          unfold gedges. cbn [flat_map]. apply in_or_app. right. exact Hab.
      + destruct Hc as [He Hn]. split; [exact He|]. intros Hcl. destruct outs as [|o outs].
        * unfold count_src in Ec. cbn in Ec. discriminate.
        * apply Hn. split.
          -- apply (Hcl src o). unfold gedges. cbn. left. reflexivity.
          -- intros o' Ho'. apply (Hcl src o'). unfold gedges. cbn [flat_map fst snd]. apply in_or_app. left. apply in_map, Ho'.
  Qed.

  Definition zeros : list (K * Z) := map (fun n => (n, 0)) nodes.
  Lemma zeros_keys : map fst zeros = nodes.
  Proof. unfold zeros. rewrite map_map. cbn. apply map_id. Qed.
  Lemma zeros_get x : dget keqb zeros x = 0.
  Proof.
    unfold dget, zeros. clear Hnd Hkeys Hsort. induction nodes as [|n l IH]; cbn; [reflexivity|]. destruct (keqb x n); [reflexivity | exact IH].
  Qed.

  Lemma kinv0 deg : closed_in graph -> map fst deg = nodes -> (forall x, dget keqb deg x = Z.of_nat (inc graph x)) ->
    KInv keqb nodes graph deg [].
  Proof.
    intros Hc Hk Hg. constructor; auto.
    - constructor.
    - intros x [].
    - intros x [].
    - intros x _ _. rewrite Hg. f_equal. unfold inc, into, edges, gedges. f_equal. apply filter_ext. intros e. cbn. rewrite andb_true_r. reflexivity.
    - intros a b l1 l2 _ E. destruct l1; discriminate.
  Qed.

  Theorem top_order_spec :
    match top_order keqb kleb sortable nodes graph with
    | Ok o => closed_in graph /\ topo nodes graph o
    | Err e => e = ESemantic
    end.
  Proof.
    unfold top_order. pose proof (count_spec graph zeros zeros_keys) as Hc. fold zeros.
    destruct (rfold (count_src keqb nodes) graph zeros) as [deg|e]; cbn [bind]; [|apply Hc].
    destruct Hc as (Hcl & Hk & Hg).
    assert (HI : KInv keqb nodes graph deg []) by (apply kinv0; auto; intros x; rewrite Hg, zeros_get; lia).
    pose proof (rounds_sound keqb kleb sortable Heq nodes graph Hnd Hkeys Hsort Hcl (S (length nodes)) deg [] HI) as Hr.
    cbn [length Nat.add] in Hr. specialize (Hr (Nat.lt_succ_diag_r _)).
    destruct (top_rounds keqb kleb sortable (S (length nodes)) (length nodes) graph deg []); auto.
  Qed.

  Theorem top_order_complete (rank : K -> nat) :
    closed_in graph -> (forall a b, In (a, b) (gedges graph) -> (rank b < rank a)%nat) ->
    exists o, top_order keqb kleb sortable nodes graph = Ok o.
  Proof.
    intros Hcl Hrank. unfold top_order. pose proof (count_spec graph zeros zeros_keys) as Hc. fold zeros.
    destruct (rfold (count_src keqb nodes) graph zeros) as [deg|e]; cbn [bind]; [|destruct Hc as [_ Hn]; contradiction].
    destruct Hc as (_ & Hk & Hg).
    assert (HI : KInv keqb nodes graph deg []) by (apply kinv0; auto; intros x; rewrite Hg, zeros_get; lia).
    apply (rounds_complete keqb kleb sortable Heq nodes graph Hnd Hkeys Hsort Hcl rank Hrank (S (length nodes)) deg [] HI).
    cbn. lia.
  Qed.
End TopOrder.
