(* C03 / C05 — per-record lemmas: one loop turn seen from a single Interest record, against one transition of its
   specification automaton.  Finite case analyses over the record fields; the only arithmetic fact a turn depends
   on — "is the timer of this record due at t" — is abstracted into a boolean first ([fire_b]), which makes every
   case closed and cheap to evaluate. *)
From NDN Require Import Base.Prelude Spec.ExpressSpec Model.ExpressPipeline Proofs.ExpressBasics Proofs.ExpressInv.
Local Open Scope N_scope.
Local Arguments N.leb : simpl never.
Local Arguments N.ltb : simpl never.
Local Arguments N.eqb : simpl never.
Local Arguments N.add : simpl never.
Local Arguments matches : simpl never.
Local Arguments pass : simpl never.
Local Arguments norm_verdict : simpl never.
Local Arguments name_eqb : simpl never.
Local Arguments odig_eqb : simpl never.
Local Arguments is_prefix : simpl never.

(* one turn without event: timers due (strict or not) at t, then settle *)
Definition rexp (fe : frontend) (sb : bool) (t : N) (i : N) (r : irec) : irec :=
  f_rec (ws_rec fe t i (f_rec (sv_rec fe i (fire_rec sb t r)))).
Definition rexp_clean (fe : frontend) (sb : bool) (t : N) (i : N) (r : irec) : bool :=
  wants_cleanup (f_rec (sv_rec fe i (fire_rec sb t r))).

(* one turn with the synchronous effect g of an event; [sb] = strictness of the timers run after it *)
Definition rturn_g (fe : frontend) (mid sb : bool) (t : N) (g : irec -> eff) (i : N) (r : irec) : irec :=
  f_rec (ws_rec fe t i (f_rec (sv_rec fe i (fire_rec sb t (f_rec (g (if mid then fire_rec false t r else r))))))).
Definition rturn_clean_g (fe : frontend) (mid sb : bool) (t : N) (g : irec -> eff) (i : N) (r : irec) : bool :=
  wants_cleanup (f_rec (sv_rec fe i (fire_rec sb t (f_rec (g (if mid then fire_rec false t r else r)))))).
Definition rturn (fe : frontend) (mid : bool) (t : N) (g : irec -> eff) (i : N) (r : irec) : irec := rturn_g fe mid false t g i r.
Definition rturn_clean (fe : frontend) (mid : bool) (t : N) (g : irec -> eff) (i : N) (r : irec) : bool :=
  rturn_clean_g fe mid false t g i r.
Lemma rexp_as_g fe sb t i r : rexp fe sb t i r = rturn_g fe false sb t keep i r. Proof. reflexivity. Qed.
Lemma rexp_clean_as_g fe sb t i r : rexp_clean fe sb t i r = rturn_clean_g fe false sb t keep i r. Proof. reflexivity. Qed.

(* ---- the timer test as a boolean ---- *)
Definition fire_b (b : bool) (r : irec) : irec :=
  if match i_wait r with WWaiting => negb (i_tfired r) && b | _ => false end
  then set_fut (set_tfired r true) (fut_cancel (i_fut r)) else r.
Lemma fire_rec_b sb t r : fire_rec sb t r = fire_b (due sb (i_timer r) t) r.
Proof. reflexivity. Qed.
Lemma fire_b_timer b r : i_timer (fire_b b r) = i_timer r.
Proof. unfold fire_b. destruct (match i_wait r with WWaiting => negb (i_tfired r) && b | _ => false end); reflexivity. Qed.

Definition rturn_b (fe : frontend) (mid b : bool) (t : N) (g : irec -> eff) (i : N) (r : irec) : irec :=
  f_rec (ws_rec fe t i (f_rec (sv_rec fe i (fire_b b (f_rec (g (if mid then fire_b b r else r))))))).
Definition rturn_clean_b (fe : frontend) (mid b : bool) (g : irec -> eff) (i : N) (r : irec) : bool :=
  wants_cleanup (f_rec (sv_rec fe i (fire_b b (f_rec (g (if mid then fire_b b r else r)))))).

Definition timer_pres (g : irec -> eff) : Prop := forall x, i_timer (f_rec (g x)) = i_timer x.

Lemma rturn_as_b fe mid t g i r :
  timer_pres g ->
  rturn fe mid t g i r = rturn_b fe mid (due false (i_timer r) t) t g i r /\
  rturn_clean fe mid t g i r = rturn_clean_b fe mid (due false (i_timer r) t) g i r.
Proof.
  intros T. unfold rturn, rturn_clean, rturn_g, rturn_clean_g, rturn_b, rturn_clean_b. rewrite !fire_rec_b.
  assert (E : i_timer (f_rec (g (if mid then fire_b (due false (i_timer r) t) r else r))) = i_timer r).
  { rewrite T. destruct mid; [apply fire_b_timer | reflexivity]. }
  rewrite E. split; reflexivity.
Qed.

Lemma tp_keep : timer_pres keep. Proof. intros x; reflexivity. Qed.
Lemma tp_if (c : bool) g h : timer_pres g -> timer_pres h -> timer_pres (fun x => if c then g x else h x).
Proof. intros G H x. destruct c; auto. Qed.
Lemma tp_sat fe d : timer_pres (sat_rec fe d).
Proof. intros x. unfold sat_rec, fut_set. destruct fe; [reflexivity|]. destruct (fdone (i_fut x)); reflexivity. Qed.
Lemma tp_nack y : timer_pres (nack_rec y).
Proof. intros x. unfold nack_rec, fut_set. destruct (fdone (i_fut x)); reflexivity. Qed.
Lemma tp_finish fe d v x : i_timer (f_rec (finish_validation fe x d v)) = i_timer x.
Proof. unfold finish_validation, fut_set. destruct (fdone (i_fut x)); reflexivity. Qed.
Lemma tp_vdone fe nw i v : timer_pres (vdone_rec fe nw i v).
Proof.
  intros x. unfold vdone_rec, done. destruct fe.
  - destruct (i_val x); try reflexivity. apply tp_finish.
  - destruct (i_wait x); try reflexivity. destruct (i_xc x); reflexivity.
Qed.
Lemma tp_cancel : timer_pres (fun x => only (cancel_rec x)).
Proof. intros x. unfold cancel_rec. destruct (i_wait x); reflexivity. Qed.
Lemma tp_shut : timer_pres (fun x => only (set_fut x (fut_cancel (i_fut x)))).
Proof. intros x. reflexivity. Qed.

(* ---- tactics ---- *)
Ltac conj_crush :=
  repeat match goal with
         | H : _ /\ _ |- _ => destruct H
         | H : False |- _ => destruct H
         | H : V2 = V1 |- _ => discriminate H
         | H : V1 = V2 |- _ => discriminate H
         | H : ?x = ?x -> _ |- _ => specialize (H eq_refl)
         | H : ?a = ?b |- _ => discriminate H
         | H : due true _ _ = false |- _ => unfold due in H; apply N.ltb_ge in H
         | H : due false _ _ = false |- _ => unfold due in H; apply N.leb_gt in H
         | H : due false _ _ = true |- _ => unfold due in H; apply N.leb_le in H
         | H : due true _ _ = true |- _ => unfold due in H; apply N.ltb_lt in H
         end; subst.

Ltac cmp_step :=
  match goal with
  | |- context [?a <=? ?b] => is_var a; is_var b; destruct (N.leb_spec a b); try lia
  | |- context [?a <? ?b] => is_var a; is_var b; destruct (N.ltb_spec a b); try lia
  | |- context [?a =? ?b] => is_var a; is_var b; destruct (N.eqb_spec a b); try lia; subst
  | |- context [pass ?fe ?v] => destruct (pass fe v) eqn:?
  | |- context [matches ?a ?b ?c] => destruct (matches a b c) eqn:?
  | |- context [name_eqb ?a ?b] => destruct (name_eqb a b) eqn:?
  | |- context [odig_eqb ?a ?b] => destruct (odig_eqb a b) eqn:?
  end.
Ltac ev := unfold due, verdict_outcome; simpl; repeat (cmp_step; simpl).
Ltac fin := repeat split; auto; try discriminate; try lia; try congruence.

Lemma due_weaken tm t : due false tm t = false -> due true tm t = false.
Proof. unfold due. destruct (N.leb_spec tm t); [discriminate|]. intros _. apply N.ltb_ge. lia. Qed.

Lemma rec_ok_weaken fe t r : rec_ok fe false t r -> rec_ok fe true t r.
Proof.
  unfold rec_ok. destruct (i_wait r); auto. intros [[A [B [C [D [E F]]]]] G]. repeat split; auto. apply due_weaken; auto.
Qed.

(* ---- expiry only ---- *)
Lemma rexp_spec fe sb sb' t' t i r :
  rec_ok fe sb' t' r ->
  rec_ok fe sb t (rexp fe sb t i r) /\
  abs_rec (rexp fe sb t i r) = expire fe sb t (abs_rec r) /\
  pendingb (rexp fe sb t i r) = pendingb r && negb (rexp_clean fe sb t i r).
Proof.
  unfold rexp, rexp_clean. rewrite !fire_rec_b.
  destruct r as [nm cb dg lf dl vm nd fu wa tm tf xc va]. intros H. unfold rec_ok in H; simpl in H. simpl (i_timer _).
  destruct (due sb tm t) eqn:B; destruct fe, wa, va; conj_crush; destruct sb; conj_crush; ev; fin; ev; fin.
Qed.

(* ---- events.  Common shape: after [rturn_as_b] the turn is closed over booleans. ---- *)
Ltac turn_start r H :=
  destruct r as [nm cb dg lf dl vm nd fu wa tm tf xc va]; intros H; unfold rec_ok in H; simpl in H.
Ltac turn_go :=
  unfold rturn_b, rturn_clean_b; simpl (i_timer _);
  match goal with |- context [due false ?tm ?t] => destruct (due false tm t) eqn:B end.

(* Data *)
Lemma rturn_data fe mid t d n h i r :
  rec_ok fe true t r ->
  let m := matches (spec_of r) n h in
  let g := fun r' => if pendingb r && m then sat_rec fe d r' else keep r' in
  rec_ok fe false t (rturn fe mid t g i r) /\
  abs_rec (rturn fe mid t g i r) = expire fe false t (react fe i (abs_rec r) (Data d n h t)) /\
  pendingb (rturn fe mid t g i r) = pendingb r && negb m && negb (rturn_clean fe mid t g i r).
Proof.
  intros H m g.
  destruct (rturn_as_b fe mid t g i r) as [E1 E2]; [apply tp_if; [apply tp_sat | apply tp_keep]|]. rewrite E1, E2. clear E1 E2.
  subst g. remember m as mm eqn:Hm. subst m. revert H Hm. turn_start r H. intros Hm. simpl in Hm.
  turn_go; destruct mm, fe, wa, va, mid; conj_crush; try destruct vm; ev; try rewrite <- Hm; ev; fin; ev; fin.
Qed.

(* Nack *)
Lemma rturn_nack fe mid t n dig x i r :
  rec_ok fe true t r ->
  let m := name_eqb n (i_name r) && odig_eqb dig (i_dig r) in
  let g := fun r' => if pendingb r && m then nack_rec x r' else keep r' in
  rec_ok fe false t (rturn fe mid t g i r) /\
  abs_rec (rturn fe mid t g i r) = expire fe false t (react fe i (abs_rec r) (Nack n dig x t)) /\
  pendingb (rturn fe mid t g i r) = pendingb r && negb m && negb (rturn_clean fe mid t g i r).
Proof.
  intros H m g.
  destruct (rturn_as_b fe mid t g i r) as [E1 E2]; [apply tp_if; [apply tp_nack | apply tp_keep]|]. rewrite E1, E2. clear E1 E2.
  subst g. remember m as mm eqn:Hm. subst m. revert H Hm. turn_start r H. intros Hm. simpl in Hm.
  turn_go; destruct mm, fe, wa, va, mid; conj_crush; ev; try rewrite <- Hm; ev; fin; ev; fin.
Qed.

(* VDone *)
Lemma rturn_vdone fe mid t j v i r :
  rec_ok fe true t r ->
  let g := fun r' => if i =? j then vdone_rec fe t i v r' else keep r' in
  rec_ok fe false t (rturn fe mid t g i r) /\
  abs_rec (rturn fe mid t g i r) = expire fe false t (react fe i (abs_rec r) (VDone j v t)) /\
  pendingb (rturn fe mid t g i r) = pendingb r && negb (rturn_clean fe mid t g i r).
Proof.
  intros H g.
  destruct (rturn_as_b fe mid t g i r) as [E1 E2]; [apply tp_if; [apply tp_vdone | apply tp_keep]|]. rewrite E1, E2. clear E1 E2.
  subst g. revert H. turn_start r H.
  turn_go; destruct (N.eqb_spec i j); subst; destruct fe, wa, va, mid, fu; conj_crush; ev; fin; ev; fin.
Qed.

(* Cancel *)
Lemma rturn_cancel fe mid t j i r :
  rec_ok fe true t r ->
  let g := fun r' => if i =? j then only (cancel_rec r') else keep r' in
  rec_ok fe false t (rturn fe mid t g i r) /\
  abs_rec (rturn fe mid t g i r) = expire fe false t (react fe i (abs_rec r) (Cancel j t)) /\
  pendingb (rturn fe mid t g i r) = pendingb r && negb (rturn_clean fe mid t g i r).
Proof.
  intros H g.
  destruct (rturn_as_b fe mid t g i r) as [E1 E2]; [apply tp_if; [apply tp_cancel | apply tp_keep]|]. rewrite E1, E2. clear E1 E2.
  subst g. revert H. turn_start r H.
  turn_go; destruct (N.eqb_spec i j); subst; destruct fe, wa, va, mid; conj_crush; ev; fin; ev; fin.
Qed.

(* Shutdown *)
Lemma rturn_shutdown fe mid t i r :
  rec_ok fe true t r ->
  let g := fun r' => if pendingb r then only (set_fut r' (fut_cancel (i_fut r'))) else keep r' in
  rec_ok fe false t (rturn fe mid t g i r) /\
  abs_rec (rturn fe mid t g i r) = expire fe false t (react fe i (abs_rec r) (Shutdown t)) /\
  pendingb (rturn fe mid t g i r) = false.
Proof.
  intros H g.
  destruct (rturn_as_b fe mid t g i r) as [E1 E2]; [apply tp_if; [apply tp_shut | apply tp_keep]|]. rewrite E1. clear E1 E2.
  subst g. revert H. turn_start r H.
  turn_go; destruct fe, wa, va, mid; conj_crush; ev; fin; ev; fin.
Qed.

(* events the automaton of Interest i does not react to *)
Lemma rturn_noop fe mid t e i r :
  rec_ok fe true t r -> (forall st, react fe i st e = st) ->
  rec_ok fe false t (rturn fe mid t keep i r) /\
  abs_rec (rturn fe mid t keep i r) = expire fe false t (react fe i (abs_rec r) e) /\
  pendingb (rturn fe mid t keep i r) = pendingb r && negb (rturn_clean fe mid t keep i r).
Proof.
  intros H Hr. rewrite Hr.
  destruct (rturn_as_b fe mid t keep i r) as [E1 E2]; [apply tp_keep|]. rewrite E1, E2. clear E1 E2.
  revert H. turn_start r H.
  turn_go; destruct fe, wa, va, mid; conj_crush; ev; fin; ev; fin.
Qed.
