(* C17 — tie between the source and the model: the protocol records that tools/gen_regproto.py extracted from
   nfd_registerer.py / app.py / nfd_mgmt.py (Generated/RegProto.v, regenerated on every run) are the ones the
   theorems are about.  An edit of the source that drops the semaphore, changes the status comparison, stops
   catching decode errors, ... changes the generated record and breaks these lemmas. *)
From NDN Require Import Base.Prelude Model.NfdMgmt Model.Registerer Spec.Registration.
From NDN Require Generated.RegProto.
Local Open Scope N_scope.

Definition fe_v2 : kind -> proto := fe_of Generated.RegProto.v2_register Generated.RegProto.v2_unregister.
Definition fe_v1 : kind -> proto := fe_of Generated.RegProto.v1_register Generated.RegProto.v1_unregister.

Lemma shipped_v2_ok : frontend_ok fe_v2.
Proof. repeat split; vm_compute; reflexivity. Qed.
Lemma shipped_v1_ok : frontend_ok fe_v1.
Proof. repeat split; vm_compute; reflexivity. Qed.

(* appv2 passes validator=pass_all; the v1 front-end validates the reply's digest signature *)
Lemma shipped_v2_validates : p_validates (fe_v2 KReg) = false. Proof. reflexivity. Qed.
Lemma shipped_v1_validates : p_validates (fe_v1 KReg) = true. Proof. reflexivity. Qed.

Lemma shipped_response_type : Generated.RegProto.response_type = RESPONSE_TYPE.
Proof. reflexivity. Qed.


(* appv2 chooses its timestamps with the wait loop + bump *)
Lemma shipped_v2_loop : forall k, exists n, p_ts (fe_v2 k) = TsLoop n true.
Proof. intros [|]; eexists; reflexivity. Qed.
