(* Compiler._sort_rule_references (Model/LvsCompiler.sort_rule_references):
   - its only failure is SemanticError;
   - it fails if a rule refers to an undefined or temporary rule, or if references are cyclic;
   - otherwise it succeeds, and in its output every rule comes after (all definitions of) the rules
     it refers to - what _replicate_rules relies on. *)
From NDN Require Import Base.Prelude Base.Text Model.TlvVar Model.Name Model.LvsAst Model.LvsChecker Model.LvsCompiler
  Spec.LvsSem Proofs.LvsSanity Proofs.LvsGenTree Proofs.LvsCompileTree Proofs.LvsTopOrder.
Local Open Scope N_scope.

Lemma nodup_dedup {K} (eqb : K -> K -> bool) (Heq : forall a b, eqb a b = true <-> a = b) l : NoDup (dedup eqb l).
Proof.
  induction l as [|x l IH]; cbn; [constructor|]. destruct (existsb (eqb x) l) eqn:E; [exact IH|].
  constructor; [|exact IH]. intros Hin. apply (proj1 (in_dedup eqb Heq x l)) in Hin.
  assert (existsb (eqb x) l = true) by (apply existsb_exists; exists x; split; [exact Hin | apply Heq; reflexivity]). congruence.
Qed.

Lemma existsb_ident c l : existsb (ident_eqb c) l = true <-> In c l.
Proof.
  rewrite existsb_exists. split.
  - intros (x & Hx & E). apply ident_eqb_eq in E. subst. exact Hx.
  - intros H. exists c. split; [exact H | apply ident_eqb_eq; reflexivity].
Qed.

Lemma nodup_split_unique {A} (u : list A) c s q1 q2 : NoDup (u ++ c :: s) -> u ++ c :: s = q1 ++ c :: q2 -> q1 = u /\ q2 = s.
Proof.
  revert q1. induction u as [|y u IH]; intros q1 Hnd E; destruct q1 as [|z q1]; cbn in *.
  - injection E as E. auto.
  - injection E as E1 E2. subst z s. exfalso. inversion Hnd as [|? ? Hn _]. apply Hn. apply in_or_app. right. left. reflexivity.
  - injection E as E1 E2. subst y. exfalso. inversion Hnd as [|? ? Hn _]. apply Hn. apply in_or_app. right. left. reflexivity.
  - injection E as E1 E2. subst z. inversion Hnd as [|? ? _ Hnd']. destruct (IH q1 Hnd' E2) as [-> ->]. auto.
Qed.

(* ---- the adjacency lists ------------------------------------------------------------------------------- *)
Lemma al_get_in_ident {V} (l : list (ident * V)) k : In k (map fst l) <-> exists v, al_get ident_eqb l k = Some v.
Proof. apply (al_get_in ident_eqb ident_eqb_eq). Qed.

Lemma adj_add_spec adj k v : In k (map fst adj) ->
  map fst (adj_add adj k v) = map fst adj /\
  forall a b, In (a, b) (gedges (adj_add adj k v)) <-> In (a, b) (gedges adj) \/ (a = k /\ b = v).
Proof.
  intros Hk. unfold adj_add. apply al_get_in_ident in Hk as Hv. destruct Hv as (l & El). rewrite El.
  split; [apply (al_set_keys ident_eqb ident_eqb_eq); exact Hk|].
  clear Hk. induction adj as [|[k' l'] adj IH]; [discriminate|]. cbn in El. cbn [al_set].
  destruct (ident_eqb k k') eqn:E.
  - apply ident_eqb_eq in E. subst k'. inversion El; subst l'. intros a b. unfold gedges. cbn [flat_map fst snd].
    rewrite !in_app_iff, map_app, in_app_iff. cbn [map In]. split.
    + intros [[H|[H|[]]]|H]; [auto | inversion H; subst; auto | auto].
    + intros [[H|H]|[-> ->]]; auto.
  - intros a b. unfold gedges in *. cbn [flat_map fst snd]. rewrite !in_app_iff. rewrite (IH El a b). tauto.
Qed.

Definition ref_ok (ids : list ident) (c : ident) : Prop := In c ids /\ is_temp_rule c = false.

Definition add_refs (ids : list ident) (adj : list (ident * list ident)) (r : rule) : res (list (ident * list ident)) :=
  rfold (fun adj c => if negb (existsb (ident_eqb c) ids) then Err ESemantic
                      else if is_temp_rule c then Err ESemantic
                      else Ok (adj_add adj (r_id r) c)) (refs_of r) adj.

Lemma add_refs_spec ids r : forall refs adj, In (r_id r) (map fst adj) ->
  match rfold (fun adj c => if negb (existsb (ident_eqb c) ids) then Err ESemantic
                            else if is_temp_rule c then Err ESemantic
                            else Ok (adj_add adj (r_id r) c)) refs adj with
  | Ok adj' => (forall c, In c refs -> ref_ok ids c) /\ map fst adj' = map fst adj /\
               forall a b, In (a, b) (gedges adj') <-> In (a, b) (gedges adj) \/ (a = r_id r /\ In b refs)
  | Err e => e = ESemantic /\ exists c, In c refs /\ ~ ref_ok ids c
  end.
Proof.
  induction refs as [|c refs IH]; intros adj Hk; cbn [rfold].
  - split; [intros c []|]. split; [reflexivity|]. intros a b. split; [auto | intros [H|[_ []]]; exact H].
  - destruct (existsb (ident_eqb c) ids) eqn:E1; cbn [negb].
    + destruct (is_temp_rule c) eqn:E2.
      * cbn [bind]. split; [reflexivity|]. exists c. split; [left; reflexivity|]. intros [_ H]. congruence.
      * cbn [bind]. destruct (adj_add_spec adj (r_id r) c Hk) as [Hk1 He1].
        specialize (IH (adj_add adj (r_id r) c)). rewrite Hk1 in IH. specialize (IH Hk).
        destruct (rfold _ refs (adj_add adj (r_id r) c)) as [adj'|e].
        -- destruct IH as (H1 & H2 & H3). split; [|split; [exact H2|]].
           ++ intros c' [<-|Hc']; [split; [apply existsb_ident; exact E1 | exact E2] | apply H1, Hc'].
           ++ intros a b. rewrite H3, He1. cbn [In]. split.
              ** intros [[H|[-> ->]]|[-> H]]; auto.
              ** intros [H|[-> [<-|H]]]; auto.
        -- destruct IH as [He (c' & Hc' & Hn)]. split; [exact He|]. exists c'. split; [right; exact Hc' | exact Hn].
    + cbn [bind]. split; [reflexivity|]. exists c. split; [left; reflexivity|]. intros [H _]. apply existsb_ident in H. congruence.
Qed.

Lemma adj_fold_spec ids : forall rules adj, (forall r, In r rules -> In (r_id r) (map fst adj)) ->
  match rfold (fun adj r => add_refs ids adj r) rules adj with
  | Ok adj' => (forall r c, In r rules -> In c (refs_of r) -> ref_ok ids c) /\ map fst adj' = map fst adj /\
               forall a b, In (a, b) (gedges adj') <-> In (a, b) (gedges adj) \/ exists r, In r rules /\ r_id r = a /\ In b (refs_of r)
  | Err e => e = ESemantic /\ exists r c, In r rules /\ In c (refs_of r) /\ ~ ref_ok ids c
  end.
Proof.
  induction rules as [|r rules IH]; intros adj Hk; cbn [rfold].
  - split; [intros r c []|]. split; [reflexivity|]. intros a b. split; [auto | intros [H|(r & [] & _)]; exact H].
  - pose proof (add_refs_spec ids r (refs_of r) adj (Hk r (or_introl eq_refl))) as Hs. fold (add_refs ids adj r) in Hs.
    destruct (add_refs ids adj r) as [adj1|e]; cbn [bind].
    + destruct Hs as (H1 & H2 & H3). specialize (IH adj1). rewrite H2 in IH.
      specialize (IH (fun r' Hr' => Hk r' (or_intror Hr'))).
      destruct (rfold _ rules adj1) as [adj'|e].
      * destruct IH as (I1 & I2 & I3). split; [|split; [exact I2|]].
        -- intros r' c [<-|Hr'] Hc; [apply H1, Hc | eapply I1; eauto].
        -- intros a b. rewrite I3, H3. split.
           ++ intros [[H|[-> H]]|(r' & Hr' & E & Hb)]; [auto | right; exists r; cbn; auto | right; exists r'; cbn; auto].
           ++ intros [H|(r' & [<-|Hr'] & E & Hb)]; [auto | subst; auto | right; exists r'; auto].
      * destruct IH as [He (r' & c & Hr' & Hc & Hn)]. split; [exact He|]. exists r', c. cbn. auto.
    + destruct Hs as [He (c & Hc & Hn)]. split; [exact He|]. exists r, c. cbn. auto.
Qed.

(* ---- the whole pass ------------------------------------------------------------------------------------------ *)
Section Sort.
  Variable S : lvsfile.
  Let rules := rename_temp_rules 1 S.
  Let ids := dedup ident_eqb (map r_id rules).

  Definition refs_closed : Prop := forall r c, In r rules -> In c (refs_of r) -> ref_ok ids c.
  Definition ref_edge (a b : ident) : Prop := exists r, In r rules /\ r_id r = a /\ In b (refs_of r).

  Lemma ids_in i : In i ids <-> exists r, In r rules /\ r_id r = i.
  Proof.
    unfold ids. rewrite (in_dedup _ ident_eqb_eq), in_map_iff. split; intros (r & H1 & H2); exists r; auto.
  Qed.

  Lemma zero_adj_keys : map fst (map (fun i : ident => (i, @nil ident)) ids) = ids.
  Proof. rewrite map_map. cbn. apply map_id. Qed.
  Lemma zero_adj_edges a b : ~ In (a, b) (gedges (map (fun i : ident => (i, @nil ident)) ids)).
  Proof. unfold gedges. induction ids as [|i l IH]; cbn; auto. Qed.

  (* where a rule sits in the sorted output *)
  Definition sorted_of (order : list ident) : list rule :=
    flat_map (fun rid => filter (fun r => ident_eqb (r_id r) rid) rules) order.

  Lemma sorted_in order : (forall x, In x order <-> In x ids) -> forall r, In r (sorted_of order) <-> In r rules.
  Proof.
    intros Ho r. unfold sorted_of. rewrite in_flat_map. split.
    - intros (rid & _ & Hf). apply filter_In in Hf. tauto.
    - intros Hr. exists (r_id r). split; [apply Ho, ids_in; eauto|]. apply filter_In. split; [exact Hr | apply ident_eqb_eq; reflexivity].
  Qed.

  Lemma flat_map_split {A B} (f : A -> list B) : forall o l1 r l2, flat_map f o = l1 ++ r :: l2 ->
    exists o1 x o2 p1 p2, o = o1 ++ x :: o2 /\ f x = p1 ++ r :: p2 /\ l1 = flat_map f o1 ++ p1.
  Proof.
    induction o as [|x o IH]; intros l1 r l2 E; cbn in E; [destruct l1; discriminate|].
    (* either the split point lies in f x or further right *)
    assert (G : forall (p : list B) q l1 r l2, p ++ q = l1 ++ r :: l2 ->
                (exists p1 p2, p = p1 ++ r :: p2 /\ l1 = p1) \/ (exists l1', l1 = p ++ l1' /\ q = l1' ++ r :: l2)).
    { induction p as [|y p IHp]; intros q l1' r' l2' E'; cbn in E'.
      - right. exists l1'. auto.
      - destruct l1' as [|z l1']; cbn in E'; injection E' as Ey Ep; subst.
        + left. exists [], p. auto.
        + destruct (IHp _ _ _ _ Ep) as [(p1 & p2 & -> & ->)|(l1'' & -> & ->)].
          * left. exists (z :: p1), p2. auto.
          * right. exists l1''. auto. }
    destruct (G _ _ _ _ _ E) as [(p1 & p2 & Ef & ->)|(l1' & -> & Eq)].
    - exists [], x, o, p1, p2. auto.
    - destruct (IH _ _ _ Eq) as (o1 & x' & o2 & p1 & p2 & -> & Ef & ->).
      exists (x :: o1), x', o2, p1, p2. cbn. rewrite app_assoc. auto.
  Qed.

  Theorem sort_rule_references_spec :
    match sort_rule_references S with
    | Ok (sorted, order) =>
        refs_closed /\ NoDup order /\ (forall x, In x order <-> In x ids) /\ sorted = sorted_of order /\
        (forall r, In r sorted <-> In r rules) /\
        (* every rule comes after a definition of each rule it refers to *)
        (forall l1 r l2 c, sorted = l1 ++ r :: l2 -> In c (refs_of r) -> exists r', In r' l1 /\ r_id r' = c) /\
        (forall x y q1 q2, ref_edge x y -> order = q1 ++ y :: q2 -> In x q2)
    | Err e => e = ESemantic
    end.
  Proof.
    unfold sort_rule_references. fold rules. fold ids.
    pose proof (adj_fold_spec ids rules (map (fun i => (i, [])) ids)) as Ha. rewrite zero_adj_keys in Ha.
    specialize (Ha (fun r Hr => proj2 (ids_in (r_id r)) (ex_intro _ r (conj Hr eq_refl)))).
    change (rfold (fun adj r => rfold _ (refs_of r) adj) rules (map (fun i => (i, [])) ids)) with
           (rfold (fun adj r => add_refs ids adj r) rules (map (fun i => (i, [])) ids)).
    destruct (rfold (fun adj r => add_refs ids adj r) rules (map (fun i => (i, [])) ids)) as [adj|e]; cbn [bind]; [|apply Ha].
    destruct Ha as (Hcl & Hk & He).
    pose proof (top_order_spec ident_eqb str_leb always_sortable ident_eqb_eq ids adj
                  (nodup_dedup ident_eqb ident_eqb_eq _) Hk (fun _ _ => eq_refl)) as Ht.
    destruct (top_order ident_eqb str_leb always_sortable ids adj) as [order|e]; cbn [bind]; [|exact Ht].
    destruct Ht as (Hc & Hnd & Hin & Hbefore).
    split; [exact Hcl|]. split; [exact Hnd|]. split; [exact Hin|]. split; [reflexivity|]. split; [apply sorted_in, Hin|].
    split.
    2:{ intros x y q1 q2 (r & Hr & Hx & Hy) Eq. apply (Hbefore x y q1 q2); [|exact Eq]. apply He. right. exists r. auto. }
    intros l1 r l2 c Es Hc'.
    destruct (flat_map_split _ _ _ _ _ Es) as (o1 & x & o2 & p1 & p2 & Eo & Ef & El1).
    assert (Hr : In r rules /\ r_id r = x).
    { assert (In r (filter (fun r0 => ident_eqb (r_id r0) x) rules)) by (rewrite Ef; apply in_or_app; right; left; reflexivity).
      apply filter_In in H. destruct H as [H1 H2]. apply ident_eqb_eq in H2. auto. }
    destruct Hr as [Hr Hx].
    assert (Hedge : In (x, c) (gedges adj)).
    { apply He. right. exists r. auto. }
    (* c occurs in the order, before x *)
    assert (Hcin : In c order) by (apply Hin; apply (Hcl r c Hr Hc')).
    apply in_split in Hcin. destruct Hcin as (q1 & q2 & Eq).
    pose proof (Hbefore x c q1 q2 Hedge Eq) as Hx2.
    (* by NoDup, c lies in o1 *)
    assert (Hco1 : In c o1).
    { rewrite Eo in Eq. clear - Eq Hx2 Hnd Eo. rewrite Eo in Hnd.
      assert (In c (o1 ++ x :: o2)) by (rewrite Eq; apply in_or_app; right; left; reflexivity).
      apply in_app_or in H. destruct H as [H|[H|H]]; [exact H | |].
      - subst c. exfalso. rewrite Eq in Hnd. apply NoDup_remove_2 in Hnd. apply Hnd. apply in_or_app. right. exact Hx2.
      - exfalso. (* c after x, but x after c *)
        apply in_split in H. destruct H as (s1 & s2 & Es).
        assert (E2 : o1 ++ x :: o2 = (o1 ++ x :: s1) ++ c :: s2) by (rewrite Es, <- app_assoc; reflexivity).
        rewrite E2 in Eq.
        assert (q1 = o1 ++ x :: s1 /\ q2 = s2).
        { rewrite E2 in Hnd. exact (nodup_split_unique _ _ _ _ _ Hnd Eq). }
        destruct H as [-> ->]. rewrite E2 in Hnd. rewrite <- app_assoc in Hnd. cbn [app] in Hnd.
        apply NoDup_remove_2 in Hnd. apply Hnd.
        apply in_or_app. right. apply in_or_app. right. right. exact Hx2. }
    (* some rule carries the id c; it sits in the block of c, inside l1 *)
    destruct (proj1 (ids_in c) (proj1 (Hcl r c Hr Hc'))) as (r' & Hr' & Hid').
    exists r'. split; [|exact Hid']. rewrite El1. apply in_or_app. left. apply in_flat_map. exists c. split; [exact Hco1|].
    apply filter_In. split; [exact Hr' | apply ident_eqb_eq; exact Hid'].
  Qed.

  (* it succeeds on closed, ranked references *)
  Theorem sort_rule_references_complete (rank : ident -> nat) :
    refs_closed -> (forall a b, ref_edge a b -> (rank b < rank a)%nat) ->
    exists sorted order, sort_rule_references S = Ok (sorted, order).
  Proof.
    intros Hcl Hrank. unfold sort_rule_references. fold rules. fold ids.
    pose proof (adj_fold_spec ids rules (map (fun i => (i, [])) ids)) as Ha. rewrite zero_adj_keys in Ha.
    specialize (Ha (fun r Hr => proj2 (ids_in (r_id r)) (ex_intro _ r (conj Hr eq_refl)))).
    change (rfold (fun adj r => rfold _ (refs_of r) adj) rules (map (fun i => (i, [])) ids)) with
           (rfold (fun adj r => add_refs ids adj r) rules (map (fun i => (i, [])) ids)).
    destruct (rfold (fun adj r => add_refs ids adj r) rules (map (fun i => (i, [])) ids)) as [adj|e]; cbn [bind].
    - destruct Ha as (_ & Hk & He).
      destruct (top_order_complete ident_eqb str_leb always_sortable ident_eqb_eq ids adj
                  (nodup_dedup ident_eqb ident_eqb_eq _) Hk (fun _ _ => eq_refl) rank) as (o & Ho).
      + intros a b Hab. apply He in Hab. destruct Hab as [Hab|(r & Hr & <- & Hb)]; [exfalso; eapply zero_adj_edges; eauto|].
        split; [apply ids_in; eauto | apply (Hcl r b Hr Hb)].
      + intros a b Hab. apply He in Hab. destruct Hab as [Hab|(r & Hr & <- & Hb)]; [exfalso; eapply zero_adj_edges; eauto|].
        apply Hrank. exists r. auto.
      + rewrite Ho. cbn [bind]. eauto.
    - exfalso. destruct Ha as [_ (r & c & Hr & Hc & Hn)]. apply Hn. apply (Hcl r c Hr Hc).
  Qed.

  (* the two ways to fail *)
  Theorem sort_rule_references_bad_ref r c : In r rules -> In c (refs_of r) -> ~ ref_ok ids c ->
    sort_rule_references S = Err ESemantic.
  Proof.
    intros Hr Hc Hn. pose proof sort_rule_references_spec as Hs.
    destruct (sort_rule_references S) as [[sorted order]|e]; [|subst; reflexivity].
    destruct Hs as (Hcl & _). exfalso. apply Hn. apply (Hcl r c Hr Hc).
  Qed.

  (* a -> c1 -> ... -> cn -> a is a closed walk along references *)
  Fixpoint ref_walk (a : ident) (x : ident) (l : list ident) : Prop :=
    match l with
    | [] => ref_edge x a
    | y :: l' => ref_edge x y /\ ref_walk a y l'
    end.

  Fixpoint pos (x : ident) (l : list ident) : nat :=
    match l with [] => O | y :: l' => if ident_eqb y x then O else Datatypes.S (pos x l') end.

  Lemma pos_app_notin x q r : ~ In x q -> pos x (q ++ r) = (length q + pos x r)%nat.
  Proof.
    induction q as [|y q IH]; intros Hn; cbn; [reflexivity|].
    destruct (ident_eqb y x) eqn:E; [apply ident_eqb_eq in E; subst; exfalso; apply Hn; left; reflexivity|].
    rewrite IH; [reflexivity|]. intros H; apply Hn; right; exact H.
  Qed.

  Lemma pos_lt l q1 y q2 x : NoDup l -> l = q1 ++ y :: q2 -> In x q2 -> (pos y l < pos x l)%nat.
  Proof.
    intros Hnd -> Hx.
    assert (Hy : ~ In y q1) by (apply NoDup_remove_2 in Hnd; intros H; apply Hnd; apply in_or_app; left; exact H).
    assert (Hxq : ~ In x q1).
    { intros H. apply in_split in H. destruct H as (u1 & u2 & ->). rewrite <- app_assoc in Hnd. cbn in Hnd.
      apply NoDup_remove_2 in Hnd. apply Hnd. apply in_or_app. right. apply in_or_app. right. right. exact Hx. }
    assert (Hxy : x <> y).
    { intros ->. apply NoDup_remove_2 in Hnd. apply Hnd. apply in_or_app. right. exact Hx. }
    rewrite !pos_app_notin by assumption. cbn [pos]. rewrite (proj2 (ident_eqb_eq y y) eq_refl).
    destruct (ident_eqb y x) eqn:E; [apply ident_eqb_eq in E; congruence | lia].
  Qed.

  Theorem sort_rule_references_cycle (cyc : list ident) a : ref_walk a a cyc -> sort_rule_references S = Err ESemantic.
  Proof.
    intros Hw. pose proof sort_rule_references_spec as Hs.
    destruct (sort_rule_references S) as [[sorted order]|e]; [|subst; reflexivity]. exfalso.
    destruct Hs as (Hcl & Hnd & Hin & _ & _ & _ & Hbefore).
    assert (Hlt : forall x y, ref_edge x y -> (pos y order < pos x order)%nat).
    { intros x y Hxy. assert (Hy : In y order).
      { destruct Hxy as (r & Hr & _ & Hc). apply Hin. apply (proj1 (Hcl r y Hr Hc)). }
      apply in_split in Hy. destruct Hy as (q1 & q2 & Eq). eapply pos_lt; eauto. }
    assert (G : forall l x, ref_walk a x l -> (pos a order < pos x order)%nat).
    { induction l as [|y l IH]; intros x H; cbn in H; [apply Hlt, H|]. destruct H as [H1 H2].
      specialize (IH y H2). specialize (Hlt x y H1). lia. }
    specialize (G cyc a Hw). lia.
  Qed.
End Sort.
