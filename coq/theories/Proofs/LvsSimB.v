(* One rule of _replicate_rules against Spec/LvsSem.expand: the chains produced for a numbered rule represent
   exactly the flat chains of the source rule (one per choice of constraint set and of an expansion of every
   reference), provided the chains stored for the referenced rules do. *)
From NDN Require Import Base.Prelude Base.Text Model.TlvVar Model.Name Model.LvsAst Model.LvsChecker Model.LvsCompiler
  Spec.LvsSem Spec.LvsTree Proofs.LvsFlatten Proofs.LvsGenTree Proofs.LvsCompileTree Proofs.LvsNumbering Proofs.LvsReplicate
  Proofs.LvsRepresents Proofs.LvsRename Proofs.LvsExpand Proofs.LvsSimA.
Local Open Scope N_scope.

Lemma map_acc_link {St A B} (f : St -> A -> St * B) (P : St -> Prop) : forall l s s' ys,
  (forall s x s' y, P s -> In x l -> f s x = (s', y) -> P s') ->
  P s -> map_acc f s l = (s', ys) -> P s' /\ Forall2 (fun x y => exists s1 s2, P s1 /\ f s1 x = (s2, y)) l ys.
Proof.
  induction l as [|x l IH]; intros s s' ys Hf Hs H; cbn [map_acc] in H.
  - inversion H; subst. split; [exact Hs | constructor].
  - destruct (f s x) as [s1 y] eqn:E. destruct (map_acc f s1 l) as [s2 ys'] eqn:Em. inversion H; subst. clear H.
    pose proof (Hf s x s1 y Hs (or_introl eq_refl) E) as Hs1.
    destruct (IH s1 s' ys' (fun s0 x0 s0' y0 H0 Hin => Hf s0 x0 s0' y0 H0 (or_intror Hin)) Hs1 Em) as [H1 H2].
    split; [exact H1|]. constructor; [exists s, s1; auto | exact H2].
Qed.

Lemma forall2_nth {A B} (R : A -> B -> Prop) l l' : Forall2 R l l' -> forall j x y, nth_error l j = Some x -> nth_error l' j = Some y -> R x y.
Proof.
  induction 1 as [|a b l l' Hab _ IH]; intros j x y Hx Hy; [destruct j; discriminate|].
  destruct j as [|j]; cbn in Hx, Hy; [inversion Hx; inversion Hy; subst; exact Hab | eapply IH; eauto].
Qed.

Lemma mkflat_snoc cs parts p : mkflat cs (parts ++ [p]) = fapp (mkflat cs parts) p.
Proof.
  unfold mkflat, fapp. cbn. rewrite !map_app, !concat_app. cbn. rewrite !app_nil_r, app_assoc. reflexivity.
Qed.

Lemma represents_mk named ch f : represents named ch f <-> represents named (mkch (ch_name ch) (ch_cons ch)) f.
Proof. split; intros [A B]; constructor; assumption. Qed.

Section SimB.
  Variable S : lvsfile.
  Variable named : list (ident * N).
  Variable kfinal : N.
  Variable K' : nat.
  Hypothesis Hinj : forall p q t, al_get ident_eqb named p = Some t -> al_get ident_eqb named q = Some t -> p = q.
  Hypothesis Hnt : forall p n, al_get ident_eqb named p = Some n -> is_temp_pat p = false /\ 1 <= n.
  Hypothesis Hkf : 1 <= kfinal.

  (* ---- resolution of one constraint ---------------------------------------------------------------------------- *)
  Lemma resolve_cons_inv tp tc nc : resolve_cons named tp tc = Ok nc ->
    Forall2 (opt_rel named) (tc_opts tc) (nc_opts nc) /\
    (if is_temp_pat (tc_pat tc) then al_get ident_eqb tp (tc_pat tc) = Some (nc_pat nc)
     else exists n, al_get ident_eqb named (tc_pat tc) = Some n /\ nc_pat nc = [Z.of_N n]).
  Proof.
    unfold resolve_cons. destruct (is_temp_pat (tc_pat tc)) eqn:Et.
    - destruct (al_get ident_eqb tp (tc_pat tc)) as [l|] eqn:El; cbn [bind]; [|discriminate].
      destruct (rmap (resolve_opt named) (tc_opts tc)) as [opts|] eqn:E; cbn [bind]; [|discriminate]. intros H; inversion H; subst. cbn.
      split; [apply rmap_forall2; exact E | reflexivity].
    - unfold resolve_named. destruct (al_get ident_eqb named (tc_pat tc)) as [n|] eqn:En; cbn [bind]; [|discriminate].
      destruct (rmap (resolve_opt named) (tc_opts tc)) as [opts|] eqn:E; cbn [bind]; [|discriminate]. intros H; inversion H; subst. cbn.
      split; [apply rmap_forall2; exact E | eauto].
  Qed.

  Definition tp_neg (tp : temp_pats) : Prop := forall q l t, al_get ident_eqb tp q = Some l -> In t l -> (t < 0)%Z.

  Lemma zmem_single a b : zmem a [b] = Z.eqb a b.
  Proof. unfold zmem. cbn. apply orb_false_r. Qed.

  Lemma own_named_rel tp cs cons0 p n : Forall2 (fun tc nc => resolve_cons named tp tc = Ok nc) cs cons0 -> tp_neg tp ->
    al_get ident_eqb named p = Some n -> Forall2 (optlist_rel named) (cons_on p cs) (opts_for cons0 (Z.of_N n)).
  Proof.
    intros F Htp Hp. destruct (Hnt p n Hp) as [Hpt _]. induction F as [|tc nc cs cons0 Hr _ IH]; [constructor|].
    destruct (resolve_cons_inv _ _ _ Hr) as [Hopts Hpat]. unfold cons_on, opts_for in *. cbn [filter map].
    destruct (is_temp_pat (tc_pat tc)) eqn:Et.
    - assert (E1 : ident_eqb (tc_pat tc) p = false) by (destruct (ident_eqb (tc_pat tc) p) eqn:E; [apply ident_eqb_eq in E; congruence | reflexivity]).
      assert (E2 : zmem (Z.of_N n) (nc_pat nc) = false).
      { destruct (zmem (Z.of_N n) (nc_pat nc)) eqn:E; [|reflexivity]. apply zmem_in in E. specialize (Htp _ _ _ Hpat E). lia. }
      rewrite E1, E2. exact IH.
    - destruct Hpat as (m & Hm & Hpm). rewrite Hpm, zmem_single.
      destruct (ident_eqb (tc_pat tc) p) eqn:E1.
      + apply ident_eqb_eq in E1. rewrite E1 in Hm. rewrite Hp in Hm. inversion Hm; subst m. rewrite Z.eqb_refl. cbn [map]. constructor; [exact Hopts | exact IH].
      + destruct (Z.eqb_spec (Z.of_N n) (Z.of_N m)) as [E|E]; [|exact IH].
        apply N2Z.inj in E. subst m. rewrite (Hinj _ _ _ Hm Hp) in E1. rewrite (proj2 (ident_eqb_eq p p) eq_refl) in E1. discriminate.
  Qed.

  Lemma own_temp_rel tp k0 k1 src num cs cons0 i p t :
    Forall2 (fun tc nc => resolve_cons named tp tc = Ok nc) cs cons0 -> tp_inv k0 k1 src num tp ->
    nth_error src i = Some (CPat p) -> is_temp_pat p = true -> nth_error num i = Some (NPat t) -> (t < 0)%Z ->
    Forall2 (optlist_rel named) (cons_on p cs) (opts_for cons0 t).
  Proof.
    intros F HI Hsrc Hpt Hnum Hneg. induction F as [|tc nc cs cons0 Hr _ IH]; [constructor|].
    destruct (resolve_cons_inv _ _ _ Hr) as [Hopts Hpat]. unfold cons_on, opts_for in *. cbn [filter map].
    destruct (is_temp_pat (tc_pat tc)) eqn:Et.
    - destruct (ident_eqb (tc_pat tc) p) eqn:E1.
      + apply ident_eqb_eq in E1. destruct (ti_fwd _ _ _ _ _ HI i p t Hsrc Hpt Hnum) as (l & Hl & Hin).
        rewrite E1, Hl in Hpat. inversion Hpat as [Epat]. assert (E2 : zmem t (nc_pat nc) = true) by (apply zmem_in; rewrite <- Epat; exact Hin).
        rewrite E2. cbn [map]. constructor; [exact Hopts | exact IH].
      + assert (E2 : zmem t (nc_pat nc) = false).
        { destruct (zmem t (nc_pat nc)) eqn:E; [|reflexivity]. apply zmem_in in E.
          destruct (ti_bwd _ _ _ _ _ HI _ _ _ Hpat E) as (j & Hj1 & Hj2 & _).
          pose proof (ti_nodup _ _ _ _ _ HI i j t Hnum Hj2 Hneg). subst j. rewrite Hsrc in Hj1. inversion Hj1 as [Eq]. rewrite Eq in E1.
          rewrite (proj2 (ident_eqb_eq _ _) eq_refl) in E1. discriminate. }
        rewrite E2. exact IH.
    - destruct Hpat as (m & Hm & Hpm). destruct (Hnt _ _ Hm) as [_ Hm1].
      assert (E1 : ident_eqb (tc_pat tc) p = false) by (destruct (ident_eqb (tc_pat tc) p) eqn:E; [apply ident_eqb_eq in E; congruence | reflexivity]).
      rewrite E1, Hpm, zmem_single. destruct (Z.eqb_spec t (Z.of_N m)); [lia | exact IH].
  Qed.

  Lemma own_cons_wf tp k0 k1 src num cs cons0 :
    Forall2 (fun tc nc => resolve_cons named tp tc = Ok nc) cs cons0 -> tp_inv k0 k1 src num tp -> k1 <= kfinal ->
    Forall2 (comp_num named) src num ->
    Forall pat_wf cons0 /\ forall c t, In c cons0 -> In t (nc_pat c) -> (t < 0)%Z -> (- t < Z.of_N kfinal)%Z.
  Proof.
    intros F HI Hk Hnum.
    assert (Hneg : forall q l t, al_get ident_eqb tp q = Some l -> In t l -> (t < 0)%Z /\ (- t < Z.of_N kfinal)%Z).
    { intros q l t Hl Ht. destruct (ti_bwd _ _ _ _ _ HI _ _ _ Hl Ht) as (j & Hj1 & Hj2 & Hj3).
      pose proof (forall2_nth _ _ _ Hnum j _ _ Hj1 Hj2) as Hc. cbn in Hc. rewrite Hj3 in Hc.
      destruct (ti_fresh _ _ _ _ _ HI j t Hj2 Hc). lia. }
    induction F as [|tc nc cs cons0 Hr _ IH]; [split; [constructor | intros c t []]|].
    destruct IH as [IH1 IH2]. destruct (resolve_cons_inv _ _ _ Hr) as [_ Hpat].
    split.
    - constructor; [|exact IH1]. destruct (is_temp_pat (tc_pat tc)).
      + left. intros t Ht. apply (Hneg _ _ _ Hpat Ht).
      + destruct Hpat as (m & Hm & Hpm). right. exists (Z.of_N m). split; [exact Hpm|]. destruct (Hnt _ _ Hm). lia.
    - intros c t [<-|Hc] Ht Hn; [|eapply IH2; eauto]. destruct (is_temp_pat (tc_pat tc)).
      + apply (Hneg _ _ _ Hpat Ht).
      + destruct Hpat as (m & Hm & Hpm). rewrite Hpm in Ht. destruct Ht as [<-|[]]. lia.
  Qed.
End SimB.
