(* One rule of _replicate_rules against Spec/LvsSem.expand: the chains produced for a numbered rule represent
   exactly the flat chains of the source rule (one per choice of constraint set and of an expansion of every
   reference), provided the chains stored for the referenced rules do. *)
From NDN Require Import Base.Prelude Base.Text Model.TlvVar Model.Name Model.LvsAst Model.LvsChecker Model.LvsCompiler
  Spec.LvsSem Spec.LvsTree Proofs.LvsFlatten Proofs.LvsGenTree Proofs.LvsCompileTree Proofs.LvsNumbering Proofs.LvsReplicate
  Proofs.LvsRepresents Proofs.LvsRename Proofs.LvsExpand Proofs.LvsSimA.
Local Open Scope N_scope.

Lemma map_acc_link {St A B} (f : St -> A -> St * B) (P : St -> Prop) : forall l s s' ys,
  (forall s x s' y, P s -> In x l -> f s x = (s', y) -> P s') ->
  P s -> map_acc f s l = (s', ys) -> P s' /\ Forall2 (fun x y => exists s1 s2, P s1 /\ f s1 x = (s2, y)) l ys.
Proof.
  induction l as [|x l IH]; intros s s' ys Hf Hs H; cbn [map_acc] in H.
  - inversion H; subst. split; [exact Hs | constructor].
  - destruct (f s x) as [s1 y] eqn:E. destruct (map_acc f s1 l) as [s2 ys'] eqn:Em. inversion H; subst. clear H.
    pose proof (Hf s x s1 y Hs (or_introl eq_refl) E) as Hs1.
    destruct (IH s1 s' ys' (fun s0 x0 s0' y0 H0 Hin => Hf s0 x0 s0' y0 H0 (or_intror Hin)) Hs1 Em) as [H1 H2].
    split; [exact H1|]. constructor; [exists s, s1; auto | exact H2].
Qed.

Lemma forall2_nth {A B} (R : A -> B -> Prop) l l' : Forall2 R l l' -> forall j x y, nth_error l j = Some x -> nth_error l' j = Some y -> R x y.
Proof.
  induction 1 as [|a b l l' Hab _ IH]; intros j x y Hx Hy; [destruct j; discriminate|].
  destruct j as [|j]; cbn in Hx, Hy; [inversion Hx; inversion Hy; subst; exact Hab | eapply IH; eauto].
Qed.

Lemma mkflat_snoc cs parts p : mkflat cs (parts ++ [p]) = fapp (mkflat cs parts) p.
Proof.
  unfold mkflat, fapp. cbn. rewrite !map_app, !concat_app. cbn. rewrite !app_nil_r, app_assoc. reflexivity.
Qed.

Lemma represents_mk named ch f : represents named ch f <-> represents named (mkch (ch_name ch) (ch_cons ch)) f.
Proof. split; intros [A B]; constructor; assumption. Qed.

Section SimB.
  Variable S : lvsfile.
  Variable named : list (ident * N).
  Variable kfinal : N.
  Variable K' : nat.
  Hypothesis Hinj : forall p q t, al_get ident_eqb named p = Some t -> al_get ident_eqb named q = Some t -> p = q.
  Hypothesis Hnt : forall p n, al_get ident_eqb named p = Some n -> is_temp_pat p = false /\ 1 <= n.
  Hypothesis Hkf : 1 <= kfinal.

  (* ---- resolution of one constraint ---------------------------------------------------------------------------- *)
  Lemma resolve_cons_inv tp tc nc : resolve_cons named tp tc = Ok nc ->
    Forall2 (opt_rel named) (tc_opts tc) (nc_opts nc) /\
    (if is_temp_pat (tc_pat tc) then al_get ident_eqb tp (tc_pat tc) = Some (nc_pat nc)
     else exists n, al_get ident_eqb named (tc_pat tc) = Some n /\ nc_pat nc = [Z.of_N n]).
  Proof.
    unfold resolve_cons. destruct (is_temp_pat (tc_pat tc)) eqn:Et.
    - destruct (al_get ident_eqb tp (tc_pat tc)) as [l|] eqn:El; cbn [bind]; [|discriminate].
      destruct (rmap (resolve_opt named) (tc_opts tc)) as [opts|] eqn:E; cbn [bind]; [|discriminate]. intros H; inversion H; subst. cbn.
      split; [apply rmap_forall2; exact E | reflexivity].
    - unfold resolve_named. destruct (al_get ident_eqb named (tc_pat tc)) as [n|] eqn:En; cbn [bind]; [|discriminate].
      destruct (rmap (resolve_opt named) (tc_opts tc)) as [opts|] eqn:E; cbn [bind]; [|discriminate]. intros H; inversion H; subst. cbn.
      split; [apply rmap_forall2; exact E | eauto].
  Qed.

  Definition tp_neg (tp : temp_pats) : Prop := forall q l t, al_get ident_eqb tp q = Some l -> In t l -> (t < 0)%Z.

  Lemma zmem_single a b : zmem a [b] = Z.eqb a b.
  Proof. unfold zmem. cbn. apply orb_false_r. Qed.

  Lemma own_named_rel tp cs cons0 p n : Forall2 (fun tc nc => resolve_cons named tp tc = Ok nc) cs cons0 -> tp_neg tp ->
    al_get ident_eqb named p = Some n -> Forall2 (optlist_rel named) (cons_on p cs) (opts_for cons0 (Z.of_N n)).
  Proof.
    intros F Htp Hp. destruct (Hnt p n Hp) as [Hpt _]. induction F as [|tc nc cs cons0 Hr _ IH]; [constructor|].
    destruct (resolve_cons_inv _ _ _ Hr) as [Hopts Hpat]. unfold cons_on, opts_for in *. cbn [filter map].
    destruct (is_temp_pat (tc_pat tc)) eqn:Et.
    - assert (E1 : ident_eqb (tc_pat tc) p = false) by (destruct (ident_eqb (tc_pat tc) p) eqn:E; [apply ident_eqb_eq in E; congruence | reflexivity]).
      assert (E2 : zmem (Z.of_N n) (nc_pat nc) = false).
      { destruct (zmem (Z.of_N n) (nc_pat nc)) eqn:E; [|reflexivity]. apply zmem_in in E. specialize (Htp _ _ _ Hpat E). lia. }
      rewrite E1, E2. exact IH.
    - destruct Hpat as (m & Hm & Hpm). rewrite Hpm, zmem_single.
      destruct (ident_eqb (tc_pat tc) p) eqn:E1.
      + apply ident_eqb_eq in E1. rewrite E1 in Hm. rewrite Hp in Hm. inversion Hm; subst m. rewrite Z.eqb_refl. cbn [map]. constructor; [exact Hopts | exact IH].
      + destruct (Z.eqb_spec (Z.of_N n) (Z.of_N m)) as [E|E]; [|exact IH].
        apply N2Z.inj in E. subst m. rewrite (Hinj _ _ _ Hm Hp) in E1. rewrite (proj2 (ident_eqb_eq p p) eq_refl) in E1. discriminate.
  Qed.

  Lemma own_temp_rel tp k0 k1 src num cs cons0 i p t :
    Forall2 (fun tc nc => resolve_cons named tp tc = Ok nc) cs cons0 -> tp_inv k0 k1 src num tp ->
    nth_error src i = Some (CPat p) -> is_temp_pat p = true -> nth_error num i = Some (NPat t) -> (t < 0)%Z ->
    Forall2 (optlist_rel named) (cons_on p cs) (opts_for cons0 t).
  Proof.
    intros F HI Hsrc Hpt Hnum Hneg. induction F as [|tc nc cs cons0 Hr _ IH]; [constructor|].
    destruct (resolve_cons_inv _ _ _ Hr) as [Hopts Hpat]. unfold cons_on, opts_for in *. cbn [filter map].
    destruct (is_temp_pat (tc_pat tc)) eqn:Et.
    - destruct (ident_eqb (tc_pat tc) p) eqn:E1.
      + apply ident_eqb_eq in E1. destruct (ti_fwd _ _ _ _ _ HI i p t Hsrc Hpt Hnum) as (l & Hl & Hin).
        rewrite E1, Hl in Hpat. inversion Hpat as [Epat]. assert (E2 : zmem t (nc_pat nc) = true) by (apply zmem_in; rewrite <- Epat; exact Hin).
        rewrite E2. cbn [map]. constructor; [exact Hopts | exact IH].
      + assert (E2 : zmem t (nc_pat nc) = false).
        { destruct (zmem t (nc_pat nc)) eqn:E; [|reflexivity]. apply zmem_in in E.
          destruct (ti_bwd _ _ _ _ _ HI _ _ _ Hpat E) as (j & Hj1 & Hj2 & _).
          pose proof (ti_nodup _ _ _ _ _ HI i j t Hnum Hj2 Hneg). subst j. rewrite Hsrc in Hj1. inversion Hj1 as [Eq]. rewrite Eq in E1.
          rewrite (proj2 (ident_eqb_eq _ _) eq_refl) in E1. discriminate. }
        rewrite E2. exact IH.
    - destruct Hpat as (m & Hm & Hpm). destruct (Hnt _ _ Hm) as [_ Hm1].
      assert (E1 : ident_eqb (tc_pat tc) p = false) by (destruct (ident_eqb (tc_pat tc) p) eqn:E; [apply ident_eqb_eq in E; congruence | reflexivity]).
      rewrite E1, Hpm, zmem_single. destruct (Z.eqb_spec t (Z.of_N m)); [lia | exact IH].
  Qed.

  Lemma own_cons_wf tp k0 k1 src num cs cons0 :
    Forall2 (fun tc nc => resolve_cons named tp tc = Ok nc) cs cons0 -> tp_inv k0 k1 src num tp -> k1 <= kfinal ->
    Forall2 (comp_num named) src num ->
    Forall pat_wf cons0 /\ forall c t, In c cons0 -> In t (nc_pat c) -> (t < 0)%Z -> (- t < Z.of_N kfinal)%Z.
  Proof.
    intros F HI Hk Hnum.
    assert (Hneg : forall q l t, al_get ident_eqb tp q = Some l -> In t l -> (t < 0)%Z /\ (- t < Z.of_N kfinal)%Z).
    { intros q l t Hl Ht. destruct (ti_bwd _ _ _ _ _ HI _ _ _ Hl Ht) as (j & Hj1 & Hj2 & Hj3).
      pose proof (forall2_nth _ _ _ Hnum j _ _ Hj1 Hj2) as Hc. cbn in Hc. rewrite Hj3 in Hc.
      destruct (ti_fresh _ _ _ _ _ HI j t Hj2 Hc). lia. }
    induction F as [|tc nc cs cons0 Hr _ IH]; [split; [constructor | intros c t []]|].
    destruct IH as [IH1 IH2]. destruct (resolve_cons_inv _ _ _ Hr) as [_ Hpat].
    split.
    - constructor; [|exact IH1]. destruct (is_temp_pat (tc_pat tc)).
      + left. intros t Ht. apply (Hneg _ _ _ Hpat Ht).
      + destruct Hpat as (m & Hm & Hpm). right. exists (Z.of_N m). split; [exact Hpm|]. destruct (Hnt _ _ Hm). lia.
    - intros c t [<-|Hc] Ht Hn; [|eapply IH2; eauto]. destruct (is_temp_pat (tc_pat tc)).
      + apply (Hneg _ _ _ Hpat Ht).
      + destruct Hpat as (m & Hm & Hpm). rewrite Hpm in Ht. destruct Ht as [<-|[]]. lia.
  Qed.
End SimB.

Lemma map_acc_link_le {A B} (f : N -> A -> N * B) : forall l s s' ys,
  (forall s x s' y, f s x = (s', y) -> s <= s') ->
  map_acc f s l = (s', ys) -> s <= s' /\ Forall2 (fun x y => exists s1 s2, s <= s1 /\ s2 <= s' /\ f s1 x = (s2, y)) l ys.
Proof.
  induction l as [|x l IH]; intros s s' ys Hf H; cbn [map_acc] in H.
  - inversion H; subst. split; [lia | constructor].
  - destruct (f s x) as [s1 y] eqn:E. destruct (map_acc f s1 l) as [s2 ys'] eqn:Em. inversion H; subst. clear H.
    pose proof (Hf s x s1 y E) as H1. destruct (IH s1 s' ys' Hf Em) as [H2 H3].
    split; [lia|]. constructor; [exists s, s1; repeat split; auto; lia|].
    clear - H3 H1. induction H3 as [|a b l l' (u & v & Hu & Hv & Hfu) _ IH]; constructor; [exists u, v; repeat split; auto; lia | exact IH].
Qed.

Lemma forall2_snoc_inv {A B} (R : A -> B -> Prop) l x l' : Forall2 R (l ++ [x]) l' ->
  exists l1 y, l' = l1 ++ [y] /\ Forall2 R l l1 /\ R x y.
Proof.
  revert l'; induction l as [|a l IH]; intros l' H; cbn in H.
  - inversion H as [|? y ? l2 Hxy Hrest]; subst. inversion Hrest; subst. exists [], y. repeat split; auto.
  - inversion H as [|? b ? l2 Hab Hrest]; subst. destruct (IH _ Hrest) as (l1 & y & -> & H1 & H2). exists (b :: l1), y. repeat split; auto.
Qed.

Lemma forall2_in_l' {A B} (R : A -> B -> Prop) l l' x : Forall2 R l l' -> In x l -> exists y, In y l' /\ R x y.
Proof. intros F. induction F as [|a b l l' Hab _ IH]; [intros []|]. intros [<-|H]; [exists b; split; [left; reflexivity | exact Hab] | destruct (IH H) as (y & Hy & Hr); exists y; split; [right; exact Hy | exact Hr]]. Qed.

Lemma forall2_in_r' {A B} (R : A -> B -> Prop) l l' y : Forall2 R l l' -> In y l' -> exists x, In x l /\ R x y.
Proof. intros F. induction F as [|a b l l' Hab _ IH]; [intros []|]. intros [<-|H]; [exists a; split; [left; reflexivity | exact Hab] | destruct (IH H) as (x & Hx & Hr); exists x; split; [right; exact Hx | exact Hr]]. Qed.

Lemma in_combine_forall2 {A B} (R : A -> B -> Prop) l l' x y : Forall2 R l l' -> In (x, y) (combine l l') -> R x y.
Proof. intros F. induction F as [|a b l l' Hab _ IH]; cbn; [intros []|]. intros [H|H]; [inversion H; subst; exact Hab | apply IH, H]. Qed.

Lemma forall2_combine_l {A B} (R : A -> B -> Prop) l l' x : Forall2 R l l' -> In x l -> exists y, In (x, y) (combine l l').
Proof. intros F. induction F as [|a b l l' _ _ IH]; cbn; [intros []|]. intros [<-|H]; [exists b; left; reflexivity | destruct (IH H) as (y & Hy); exists y; right; exact Hy]. Qed.

Lemma forall2_combine_r {A B} (R : A -> B -> Prop) l l' y : Forall2 R l l' -> In y l' -> exists x, In (x, y) (combine l l').
Proof. intros F. induction F as [|a b l l' _ _ IH]; cbn; [intros []|]. intros [<-|H]; [exists a; left; reflexivity | destruct (IH H) as (x & Hx); exists x; right; exact Hx]. Qed.

(* ---- one rule --------------------------------------------------------------------------------------------------------- *)
Record rchain_ok (k : N) (rc : chain) : Prop := {
  ro_wf : Forall pat_wf (ch_cons rc);
  ro_name : forall t, In (NPat t) (ch_name rc) -> (t < 0)%Z -> (- t < Z.of_N k)%Z;
  ro_cons : forall c t, In c (ch_cons rc) -> In t (nc_pat c) -> (t < 0)%Z -> (- t < Z.of_N k)%Z;
  ro_norefs : forall x, ~ In (NRef x) (ch_name rc)
}.

Lemma rchain_ok_mono k k' rc : rchain_ok k rc -> k <= k' -> rchain_ok k' rc.
Proof.
  intros [A B C D] Hle. constructor; auto.
  - intros t Ht Hn. specialize (B t Ht Hn). lia.
  - intros c t Hc Ht Hn. specialize (C c t Hc Ht Hn). lia.
Qed.

Section Rule.
  Variable S : lvsfile.
  Variable named : list (ident * N).
  Variable kfinal : N.
  Variable K' : nat.
  Hypothesis Hinj : forall p q t, al_get ident_eqb named p = Some t -> al_get ident_eqb named q = Some t -> p = q.
  Hypothesis Hnt : forall p n, al_get ident_eqb named p = Some n -> is_temp_pat p = false /\ 1 <= n.
  Hypothesis Hkf : 1 <= kfinal.

  Variable r : rule.
  Variable nr : nrule.
  Variable tp : temp_pats.
  Variable k0 k1 : N.
  Hypothesis Hk1 : k1 <= kfinal.
  Hypothesis Htp : tp_inv k0 k1 (r_name r) (nr_name nr) tp.
  Hypothesis Hnum : Forall2 (comp_num named) (r_name r) (nr_name nr).

  Definition own_part (cs : list tagcons) (c : comp) : flat :=
    match c with
    | CLit v => {| f_comps := [FLit v]; f_ncons := [] |}
    | CPat p => if is_temp_pat p then {| f_comps := [FTemp (cons_on p cs)]; f_ncons := [] |} else {| f_comps := [FNamed p]; f_ncons := [] |}
    | CRef _ => {| f_comps := []; f_ncons := [] |}
    end.

  Record chain_inv (done : list comp) (k : N) (cs : list tagcons) (cons0 : list ncons) (parts : list flat) (ch : chain) : Prop := {
    ci_parts : Forall2 (fun c part => In part (alts K' S cs c)) done parts;
    ci_cons : exists extra, ch_cons ch = cons0 ++ extra /\ Forall pat_wf extra /\
                            forall c t, In c extra -> In t (nc_pat c) -> (t < 0)%Z -> (Z.of_N kfinal <= - t)%Z /\ (- t < Z.of_N k)%Z;
    ci_name : forall t, In (NPat t) (ch_name ch) -> (t < 0)%Z -> (- t < Z.of_N k)%Z;
    ci_norefs : forall x, ~ In (NRef x) (ch_name ch);
    ci_rep : represents named ch (mkflat cs parts)
  }.

  Lemma chain_inv_mono done k k' cs cons0 parts ch : chain_inv done k cs cons0 parts ch -> k <= k' -> chain_inv done k' cs cons0 parts ch.
  Proof.
    intros [A (extra & B1 & B2 & B3) C D E] Hle. constructor; auto.
    - exists extra. split; [exact B1|]. split; [exact B2|]. intros c t Hc Ht Hn. destruct (B3 c t Hc Ht Hn). lia.
    - intros t Ht Hn. specialize (C t Ht Hn). lia.
  Qed.

  Definition app_comp (ch : chain) (c : ncomp) : chain :=
    {| ch_id := ch_id ch; ch_name := ch_name ch ++ [c]; ch_cons := ch_cons ch; ch_sign := ch_sign ch |}.

  (* an own component (literal or pattern) is appended *)
  Lemma step_own done k cs cons0 parts ch c nc :
    Forall2 (fun tc nc => resolve_cons named tp tc = Ok nc) cs cons0 -> kfinal <= k ->
    chain_inv done k cs cons0 parts ch ->
    nth_error (r_name r) (length done) = Some c -> nth_error (nr_name nr) (length done) = Some nc -> comp_num named c nc ->
    (forall x, c <> CRef x) ->
    chain_inv (done ++ [c]) k cs cons0 (parts ++ [own_part cs c]) (app_comp ch nc).
  Proof.
    intros Hres Hk [A (extra & B1 & B2 & B3) C D E] Hc Hnc Hcn Hnoref.
    destruct (own_cons_wf named kfinal Hinj Hnt Hkf tp k0 k1 _ _ cs cons0 Hres Htp Hk1 Hnum) as [Hwf0 Htag0].
    constructor.
    - apply Forall2_app; [exact A|]. constructor; [|constructor]. destruct c as [v|p|x]; cbn; [left; reflexivity | | exfalso; eapply Hnoref; reflexivity].
      destruct (is_temp_pat p); left; reflexivity.
    - exists extra. auto.
    - cbn [ch_name app_comp]. intros t Ht Hn. apply in_app_or in Ht. destruct Ht as [Ht|[Ht|[]]]; [apply C; auto|]. subst nc.
      destruct (ti_fresh _ _ _ _ _ Htp _ _ Hnc Hn). lia.
    - cbn [ch_name app_comp]. intros x Hx. apply in_app_or in Hx. destruct Hx as [Hx|[Hx|[]]]; [eapply D; eauto|]. subst nc.
      destruct c; cbn in Hcn; try contradiction. subst. eapply Hnoref. reflexivity.
    - rewrite mkflat_snoc. destruct E as [R1 R2]. constructor; cbn [ch_name ch_cons app_comp fapp f_comps f_ncons].
      + apply Forall2_app.
        * clear - R1. assert (G : forall l l', Forall2 (comp_rep named ch) l l' -> Forall2 (comp_rep named (app_comp ch nc)) l l').
          { intros l l' F. induction F; constructor; auto. }
          apply G, R1.
        * assert (Hone : Forall2 (comp_rep named (app_comp ch nc)) (f_comps (own_part cs c)) [nc]).
          { destruct c as [v|p|x]; destruct nc as [w|t|x']; cbn in Hcn; try contradiction.
            - subst. cbn. constructor; [reflexivity | constructor].
            - cbn [own_part]. destruct (is_temp_pat p) eqn:Ept.
              + cbn. constructor; [|constructor]. cbn. split; [exact Hcn|].
                change (Forall2 (optlist_rel named) (cons_on p cs) (opts_for (ch_cons ch) t)). rewrite B1, opts_for_app.
                rewrite (not_mentions_opts extra t), app_nil_r.
                * eapply (own_temp_rel named kfinal Hinj Hnt Hkf); eauto.
                * intros (c0 & Hc0 & Ht0). destruct (B3 c0 t Hc0 Ht0 Hcn) as [H1 _].
                  destruct (ti_fresh _ _ _ _ _ Htp _ _ Hnc Hcn). lia.
              + cbn. constructor; [|constructor]. cbn. exact Hcn.
            - exfalso. eapply Hnoref. reflexivity. }
          exact Hone.
      + intros p t Hp. assert (f_ncons (own_part cs c) = []) by (destruct c as [v|q|x]; cbn; [reflexivity | destruct (is_temp_pat q); reflexivity | reflexivity]).
        rewrite H, app_nil_r. apply (R2 p t Hp).
  Qed.

  Definition app_ref (ch : chain) (rn : list ncomp) (rcs : list ncons) : chain :=
    {| ch_id := ch_id ch; ch_name := ch_name ch ++ rn; ch_cons := ch_cons ch ++ rcs; ch_sign := ch_sign ch |}.

  (* a renamed copy of a chain of a referenced rule is appended *)
  Lemma step_ref done k kc cs cons0 parts ch x rcx fx kc' rn rcs :
    Forall2 (fun tc nc => resolve_cons named tp tc = Ok nc) cs cons0 ->
    kfinal <= k -> k <= kc -> chain_inv done k cs cons0 parts ch ->
    In fx (alts K' S cs (CRef x)) -> represents named rcx fx -> rchain_ok k rcx ->
    rename_temp_tags kc rcx = (kc', (rn, rcs)) ->
    chain_inv (done ++ [CRef x]) kc' cs cons0 (parts ++ [fx]) (app_ref ch rn rcs) /\ kc <= kc'.
  Proof.
    intros Hres Hk Hkc [A (extra & B1 & B2 & B3) C D E] Hfx Hrep [W1 W2 W3 W4] Hrn.
    destruct (own_cons_wf named kfinal Hinj Hnt Hkf tp k0 k1 _ _ cs cons0 Hres Htp Hk1 Hnum) as [Hwf0 Htag0].
    destruct (rename_temp_tags_spec _ _ _ _ _ Hrn) as (mp & Hok & Hle & -> & -> & Hdn & Hdc).
    assert (Hk1' : 1 <= kc) by lia.
    pose proof (rename_rep named kc kc' mp _ _ fx Hok Hk1' W1 Hdn Hdc (proj1 (represents_mk named rcx fx) Hrep)) as Hrep'.
    destruct (rename_range kc kc' mp (ch_name rcx) (ch_cons rcx) Hok Hk1' W1 Hdn Hdc) as (Rn & Rc & Rw).
    split; [|exact Hle]. constructor.
    - apply Forall2_app; [exact A|]. constructor; [exact Hfx | constructor].
    - exists (extra ++ map (rn_cons mp) (ch_cons rcx)). cbn [ch_cons app_ref]. split; [rewrite B1, app_assoc; reflexivity|]. split; [apply Forall_app; auto|].
      intros c t Hc Ht Hn. apply in_app_or in Hc. destruct Hc as [Hc|Hc].
      + destruct (B3 c t Hc Ht Hn). lia.
      + destruct (Rc c t Hc Ht Hn). lia.
    - cbn [ch_name app_ref]. intros t Ht Hn. apply in_app_or in Ht. destruct Ht as [Ht|Ht].
      + specialize (C t Ht Hn). lia.
      + destruct (Rn t Ht Hn). lia.
    - cbn [ch_name app_ref]. intros y Hy. apply in_app_or in Hy. destruct Hy as [Hy|Hy]; [eapply D; eauto|].
      apply in_map_iff in Hy. destruct Hy as (c0 & Ec & Hc0). destruct c0 as [v|t|y0]; cbn in Ec; try discriminate.
      + destruct (t <? 0)%Z; discriminate.
      + inversion Ec; subst. eapply W4; eauto.
    - rewrite mkflat_snoc. apply (proj2 (represents_mk named _ _)). cbn [ch_name ch_cons app_ref].
      apply rep_app; [apply (proj1 (represents_mk named ch _)); exact E | exact Hrep' | |].
      + intros t Ht Hn (c0 & Hc0 & Ht0). specialize (C t Ht Hn). destruct (Rc c0 t Hc0 Ht0 Hn). lia.
      + intros t Ht Hn (c0 & Hc0 & Ht0). destruct (Rn t Ht Hn) as [H1 _]. rewrite B1 in Hc0. apply in_app_or in Hc0. destruct Hc0 as [Hc0|Hc0].
        * specialize (Htag0 c0 t Hc0 Ht0 Hn). lia.
        * destruct (B3 c0 t Hc0 Ht0 Hn). lia.
  Qed.

  Lemma chain_inv_ext done k cs cons0 parts ch ch' : ch_name ch' = ch_name ch -> ch_cons ch' = ch_cons ch ->
    chain_inv done k cs cons0 parts ch -> chain_inv done k cs cons0 parts ch'.
  Proof.
    intros En Ec [A B C D E]. constructor; auto.
    - rewrite Ec. exact B.
    - rewrite En. exact C.
    - rewrite En. exact D.
    - apply (proj2 (represents_mk named ch' _)). rewrite En, Ec. apply (proj1 (represents_mk named ch _)). exact E.
  Qed.

  (* ---- all components of the rule ------------------------------------------------------------------------------------ *)
  Variable rep : list (ident * list chain).
  Variable kstart : N.
  Hypothesis Hks : kfinal <= kstart.
  Hypothesis Hcons : Forall2 (Forall2 (fun tc nc => resolve_cons named tp tc = Ok nc)) (r_cons r) (nr_cons nr).
  Hypothesis Hrep_sound : forall x chs rcx, al_get ident_eqb rep x = Some chs -> In rcx chs ->
    exists fx, In fx (alts K' S [] (CRef x)) /\ represents named rcx fx /\ rchain_ok kstart rcx.
  Hypothesis Hrep_complete : forall x, In (CRef x) (r_name r) -> forall fx, In fx (alts K' S [] (CRef x)) ->
    exists chs rcx, al_get ident_eqb rep x = Some chs /\ In rcx chs /\ represents named rcx fx.

  Definition cpairs : list (list tagcons * list ncons) :=
    match r_cons r with [] => [([], [])] | _ => combine (r_cons r) (nr_cons nr) end.

  Lemma cpairs_res cs cons0 : In (cs, cons0) cpairs -> Forall2 (fun tc nc => resolve_cons named tp tc = Ok nc) cs cons0.
  Proof.
    unfold cpairs. destruct (r_cons r) as [|c0 l] eqn:E.
    - intros [H|[]]. inversion H; subst. constructor.
    - intros H. exact (in_combine_forall2 _ _ _ _ _ Hcons H).
  Qed.

  Lemma cpairs_choices cs : In cs (choices r) <-> exists cons0, In (cs, cons0) cpairs.
  Proof.
    unfold choices, cpairs. destruct (r_cons r) as [|c0 l] eqn:E.
    - split; [intros [<-|[]]; exists []; left; reflexivity | intros (c & [H|[]]); inversion H; left; reflexivity].
    - split.
      + intros H. exact (forall2_combine_l _ _ _ _ Hcons H).
      + intros (c & H). apply in_combine_l in H. exact H.
  Qed.

  Definition chain0 (cons0 : list ncons) : chain :=
    {| ch_id := nr_id nr; ch_name := []; ch_cons := cons0; ch_sign := isort str_leb (nr_sign nr) |}.

  Lemma init_chains_cpairs ch : In ch (init_chains nr) <-> exists cs cons0, In (cs, cons0) cpairs /\ ch = chain0 cons0.
  Proof.
    unfold init_chains, cpairs, chain0. pose proof Hcons as F. destruct (r_cons r) as [|a la] eqn:E1; destruct (nr_cons nr) as [|b lb] eqn:E2; try solve [inversion F].
    - split; [intros [<-|[]]; exists [], []; split; [left; reflexivity | reflexivity] | intros (cs & c0 & [H|[]] & ->); inversion H; left; reflexivity].
    - rewrite in_map_iff. split.
      + intros (c0 & <- & Hin). destruct (forall2_combine_r _ _ _ _ F Hin) as (cs & Hcs). exists cs, c0. auto.
      + intros (cs & c0 & Hin & ->). exists c0. split; [reflexivity|]. apply in_combine_r in Hin. exact Hin.
  Qed.

  Definition PI (done : list comp) (k : N) (cur : list chain) : Prop :=
    (forall ch, In ch cur -> exists cs cons0 parts, In (cs, cons0) cpairs /\ chain_inv done k cs cons0 parts ch) /\
    (forall cs cons0 parts, In (cs, cons0) cpairs -> Forall2 (fun c part => In part (alts K' S cs c)) done parts ->
        exists ch, In ch cur /\ chain_inv done k cs cons0 parts ch).

  Lemma cons_on_filter_named p cs : is_temp_pat p = false ->
    cons_on p (filter (fun tc => negb (is_temp_pat (tc_pat tc))) cs) = cons_on p cs.
  Proof.
    intros Hp. unfold cons_on. induction cs as [|tc cs IH]; [reflexivity|]. cbn [filter].
    destruct (is_temp_pat (tc_pat tc)) eqn:Et; cbn [negb filter].
    - destruct (ident_eqb (tc_pat tc) p) eqn:E; [apply ident_eqb_eq in E; congruence | exact IH].
    - destruct (ident_eqb (tc_pat tc) p); cbn [map]; [f_equal|]; exact IH.
  Qed.

  Lemma tp_neg_own : tp_neg tp.
  Proof.
    intros q l t0 Hl Ht0. destruct (ti_bwd _ _ _ _ _ Htp _ _ _ Hl Ht0) as (j & Hj1 & Hj2 & Hj3).
    pose proof (forall2_nth _ _ _ Hnum j _ _ Hj1 Hj2) as Hc. cbn in Hc. rewrite Hj3 in Hc. exact Hc.
  Qed.

  Lemma init_PI : PI [] kstart (init_chains nr).
  Proof.
    assert (G : forall cs cons0, In (cs, cons0) cpairs -> chain_inv [] kstart cs cons0 [] (chain0 cons0)).
    { intros cs cons0 Hin. pose proof (cpairs_res _ _ Hin) as Hres. constructor.
      - constructor.
      - exists []. cbn. rewrite app_nil_r. split; [reflexivity|]. split; [constructor | intros c t []].
      - intros t [].
      - intros x [].
      - constructor; cbn [ch_name chain0 mkflat f_comps map concat].
        + constructor.
        + intros p t Hp. cbn. rewrite app_nil_r. destruct (Hnt p t Hp) as [Hpt _]. change (Forall2 (optlist_rel named) (cons_on p (filter (fun tc => negb (is_temp_pat (tc_pat tc))) cs)) (opts_for cons0 (Z.of_N t))). rewrite (cons_on_filter_named p cs Hpt).
          apply (own_named_rel named kfinal Hinj Hnt Hkf tp cs cons0 p t Hres tp_neg_own Hp). }
    split.
    - intros ch Hch. apply init_chains_cpairs in Hch. destruct Hch as (cs & cons0 & Hin & ->). exists cs, cons0, []. auto.
    - intros cs cons0 parts Hin Hp. inversion Hp; subst. eexists. split; [apply init_chains_cpairs; eauto | apply G, Hin].
  Qed.

  Lemma rename_le kc rc kc' x : rename_temp_tags kc rc = (kc', x) -> kc <= kc'.
  Proof. destruct x as [rn rcs]. intros H. destruct (rename_temp_tags_spec _ _ _ _ _ H) as (mp & _ & Hle & _). exact Hle. Qed.

  Lemma inline_ref_spec cur s rcx s' g : inline_ref (nr_id nr) cur s rcx = (s', g) ->
    s <= s' /\
    Forall2 (fun ch y => exists kc kd rn rcs, s <= kc /\ kd <= s' /\ rename_temp_tags kc rcx = (kd, (rn, rcs)) /\
                                              ch_name y = ch_name ch ++ rn /\ ch_cons y = ch_cons ch ++ rcs) cur g.
  Proof.
    unfold inline_ref. intros Hi.
    match type of Hi with map_acc ?f _ _ = _ => assert (Hf : forall s0 x s0' y, f s0 x = (s0', y) -> s0 <= s0') end.
    { intros s0 ch s0' y Hy. destruct (rename_temp_tags s0 rcx) as [k4 [rn rcs]] eqn:Ert. inversion Hy; subst. eapply rename_le; eauto. }
    destruct (map_acc_link_le _ _ _ _ _ Hf Hi) as [Hle Hin]. split; [exact Hle|]. clear Hi Hf.
    induction Hin as [|ch y l l' (u & v & Hu & Hv & Hfu) _ IH]; constructor; [|exact IH].
    destruct (rename_temp_tags u rcx) as [k4 [rn rcs]] eqn:Ert. inversion Hfu; subst.
    exists u. eexists. exists rn, rcs. split; [exact Hu|]. split; [|split; [exact Ert | split; reflexivity]]. assumption.
  Qed.

  Lemma comps_sim : forall todo_src todo_num, Forall2 (comp_num named) todo_src todo_num ->
    forall done ndone cur k cur' k', r_name r = done ++ todo_src -> nr_name nr = ndone ++ todo_num -> length ndone = length done ->
      PI done k cur -> kstart <= k ->
      rfold (replicate_comp rep (nr_id nr)) todo_num (cur, k) = Ok (cur', k') ->
      PI (r_name r) k' cur' /\ k <= k'.
  Proof.
    intros todo_src todo_num F. induction F as [|c nc ts tn Hcn _ IH]; intros done ndone cur k cur' k' Es En Hl HPI Hk Hf.
    - cbn in Hf. inversion Hf; subst. rewrite Es, app_nil_r. split; [exact HPI | lia].
    - cbn [rfold] in Hf.
      assert (Hc : nth_error (r_name r) (length done) = Some c) by (rewrite Es, nth_error_app2, Nat.sub_diag by lia; reflexivity).
      assert (Hnc : nth_error (nr_name nr) (length done) = Some nc) by (rewrite En, <- Hl, nth_error_app2, Nat.sub_diag by lia; reflexivity).
      destruct (replicate_comp rep (nr_id nr) (cur, k) nc) as [[cur1 kn]|e] eqn:Ec; cbn [bind] in Hf; [|discriminate].
      assert (Hstep : PI (done ++ [c]) kn cur1 /\ k <= kn).
      { destruct HPI as [Hs Hcm]. unfold replicate_comp in Ec. cbn [fst snd] in Ec.
        assert (Hown : forall nc0, nc = nc0 -> (forall y, c <> CRef y) ->
                  PI (done ++ [c]) k (map (fun ch => {| ch_id := ch_id ch; ch_name := ch_name ch ++ [nc0]; ch_cons := ch_cons ch; ch_sign := ch_sign ch |}) cur)).
        { intros nc0 <- Hnr. split.
          + intros ch' Hch'. apply in_map_iff in Hch'. destruct Hch' as (ch & <- & Hch). destruct (Hs ch Hch) as (cs & cons0 & parts & Hin & Hci).
            exists cs, cons0, (parts ++ [own_part cs c]). split; [exact Hin|].
            apply (step_own done k cs cons0 parts ch c nc (cpairs_res _ _ Hin)); auto; lia.
          + intros cs cons0 parts' Hin Hp'. destruct (forall2_snoc_inv _ _ _ _ Hp') as (parts & part & -> & Hp & Hpart).
            destruct (Hcm cs cons0 parts Hin Hp) as (ch & Hch & Hci).
            assert (part = own_part cs c).
            { destruct c as [w|p|y]; [cbn in Hpart; destruct Hpart as [<-|[]]; reflexivity | | exfalso; eapply Hnr; reflexivity].
              cbn in Hpart |- *. destruct (is_temp_pat p); destruct Hpart as [<-|[]]; reflexivity. }
            subst part. eexists. split; [apply in_map; exact Hch|].
            apply (step_own done k cs cons0 parts ch c nc (cpairs_res _ _ Hin)); auto; lia. }
        destruct nc as [v|t|x].
        - inversion Ec; subst cur1 kn. split; [|lia]. apply Hown; [reflexivity|]. intros y ->. cbn in Hcn. contradiction.
        - inversion Ec; subst cur1 kn. split; [|lia]. apply Hown; [reflexivity|]. intros y ->. cbn in Hcn. contradiction.
        - (* reference *)
          clear Hown.
          assert (Ecx : c = CRef x) by (destruct c as [w|p|y]; cbn in Hcn; try contradiction; subst; reflexivity). subst c.
          destruct (al_get ident_eqb rep x) as [refs|] eqn:Er; [|discriminate].
          destruct (map_acc (inline_ref (nr_id nr) cur) k refs) as [kk groups] eqn:Em. inversion Ec; subst cur1 kn. clear Ec.
          assert (Hinl : forall s rc s' g, inline_ref (nr_id nr) cur s rc = (s', g) -> s <= s').
          { intros s rc s' g Hi. apply (inline_ref_spec _ _ _ _ _ Hi). }
          destruct (map_acc_link_le _ _ _ _ _ Hinl Em) as [Hkk Hgroups].
          split; [|exact Hkk].
          assert (Hpair : forall rcx g,
                    (exists s1 s2, k <= s1 /\ s2 <= kk /\ inline_ref (nr_id nr) cur s1 rcx = (s2, g)) ->
                    Forall2 (fun ch y => exists kc kd rn rcs, k <= kc /\ kd <= kk /\ rename_temp_tags kc rcx = (kd, (rn, rcs)) /\
                                                              ch_name y = ch_name ch ++ rn /\ ch_cons y = ch_cons ch ++ rcs) cur g).
          { intros rcx g (s1 & s2 & Hs1 & Hs2 & Hi). destruct (inline_ref_spec _ _ _ _ _ Hi) as [_ Hall].
            eapply forall2_impl; [|exact Hall]. intros ch y _ (kc & kd & rn & rcs & H1 & H2 & H3 & H4 & H5).
            exists kc, kd, rn, rcs. repeat split; auto; lia. }
          split.
          + intros ch' Hch'. apply in_concat in Hch'. destruct Hch' as (g & Hg & Hchg).
            destruct (forall2_in_r' _ _ _ _ Hgroups Hg) as (rcx & Hrcx & Hlink).
            pose proof (Hpair rcx g Hlink) as Hall.
            destruct (forall2_in_r' _ _ _ _ Hall Hchg) as (ch & Hch & (kc & kd & rn & rcs & Hkc & Hkd & Hrn & En' & Ec')).
            destruct (Hs ch Hch) as (cs & cons0 & parts & Hin & Hci).
            destruct (Hrep_sound x refs rcx Er Hrcx) as (fx & Hfx & Hrepx & Hokx).
            destruct (step_ref done k kc cs cons0 parts ch x rcx fx kd rn rcs (cpairs_res _ _ Hin)) as [Hci' _]; auto; try lia.
            { eapply rchain_ok_mono; eauto. }
            exists cs, cons0, (parts ++ [fx]). split; [exact Hin|].
            apply (chain_inv_ext _ _ _ _ _ (app_ref ch rn rcs)); [exact En' | exact Ec' |]. eapply chain_inv_mono; eauto.
          + intros cs cons0 parts' Hin Hp'. destruct (forall2_snoc_inv _ _ _ _ Hp') as (parts & fx & -> & Hp & Hfx).
            destruct (Hcm cs cons0 parts Hin Hp) as (ch & Hch & Hci).
            assert (Hcin : In (CRef x) (r_name r)) by (rewrite Es; apply in_or_app; right; left; reflexivity).
            destruct (Hrep_complete x Hcin fx Hfx) as (chs & rcx & Hchs & Hrcx & Hrepx). rewrite Er in Hchs. inversion Hchs; subst chs.
            destruct (Hrep_sound x refs rcx Er Hrcx) as (_ & _ & _ & Hokx).
            destruct (forall2_in_l' _ _ _ _ Hgroups Hrcx) as (g & Hg & Hlink).
            pose proof (Hpair rcx g Hlink) as Hall.
            destruct (forall2_in_l' _ _ _ _ Hall Hch) as (y & Hy & (kc & kd & rn & rcs & Hkc & Hkd & Hrn & En' & Ec')).
            destruct (step_ref done k kc cs cons0 parts ch x rcx fx kd rn rcs (cpairs_res _ _ Hin)) as [Hci' _]; auto; try lia.
            { eapply rchain_ok_mono; eauto. }
            exists y. split; [apply in_concat; exists g; split; [exact Hg | exact Hy]|].
            apply (chain_inv_ext _ _ _ _ _ (app_ref ch rn rcs)); [exact En' | exact Ec' |]. eapply chain_inv_mono; eauto. }
      destruct Hstep as [HPI1 Hkn].
      destruct (IH (done ++ [c]) (ndone ++ [nc]) cur1 kn cur' k') as [H1 H2]; auto.
      + rewrite <- app_assoc. exact Es.
      + rewrite <- app_assoc. exact En.
      + rewrite !app_length. cbn. lia.
      + lia.
      + split; [exact H1 | lia].
  Qed.
End Rule.
