(* C10, part 2: envelopes.  An envelope is the LpPacket element around
     - the encoding of ANY assignment [vs] of legal values to the headers LpPacketValue declares
       (every subset of headers, every value), in the declared order, with
     - ANY number of unrecognised elements (critical or not) inserted at ANY position.
   [dec_lp] of an envelope returns [vs] (C08 round trip + LpUnknown), hence the unwrap prologue of
   _receive hands exactly the fragment, the token and the Nack reason on. *)
From NDN Require Import Base.Prelude Model.TlvVar Model.Name Model.Tlv Model.Packet Model.Lp Spec.TlvWf
  Spec.StrictTlv Spec.LpSpec
  Proofs.BytesLemmas Proofs.TlvVarProofs Proofs.TlvSplit Proofs.TlvRoundtrip Proofs.TlvRoundtrip2 Proofs.TlvMore
  Proofs.PacketTotal Proofs.PacketProps Proofs.LpUnknown.
From NDN Require Import Generated.Schemas Generated.ConstsLp.
Local Open Scope N_scope.

Arguments N.of_nat : simpl never.
Arguments N.to_nat : simpl never.
Arguments N.pow : simpl never.

Definition lp_wire (els : list elem) : bytes := tlv LP_PACKET (ser_els els).
Definition lp_depth : nat := depth_of lp_fields.

Definition envelope_of (vs : list value) (els : list elem) : Prop :=
  Forall2 (fun f v => fits (snd f) v) lp_fields vs /\
  Forall el_ok els /\ N.of_nat (length (ser_els els)) < two64 /\
  exists els0, encode_model lp_depth lp_fields vs = Ok (ser_els els0) /\ with_unknown lp_fields els0 els.

Lemma wf_lp_fields : wf_fields lp_fields.
Proof. apply wf_fieldsb_spec. exact wf_ndnlp_v2_LpPacketValue. Qed.

(* ---- T1 ties: the constants/attributes reflected on this run are the ones the spec names ------------- *)
Lemma consts_agree :
  LP_PACKET = T_LP_PACKET /\ FRAGMENT = T_FRAGMENT /\ FRAG_INDEX = T_FRAG_INDEX /\ FRAG_COUNT = T_FRAG_COUNT /\
  PIT_TOKEN = T_PIT_TOKEN /\ NACK = T_NACK /\ NACK_REASON = T_NACK_REASON /\ NACK_NONE = 0 /\
  LP_PACKET = TYPE_LP_PACKET /\ FRAG_INDEX = LP_FRAG_INDEX /\ FRAG_COUNT = LP_FRAG_COUNT.
Proof. repeat split; reflexivity. Qed.

Lemma attrs_agree :
  attr_frag_index = FRAG_INDEX /\ attr_frag_count = FRAG_COUNT /\ attr_pit_token = PIT_TOKEN /\
  attr_nack = NACK /\ attr_fragment = FRAGMENT /\ attr_nack_reason = NACK_REASON /\ attr_lp_packet = LP_PACKET.
Proof. repeat split; reflexivity. Qed.

(* the attributes the front-ends read are fields of the reflected descriptors, of the expected kinds, and the
   Fragment is declared last *)
Lemma attrs_in_descriptor :
  In (attr_frag_index, KUint None) lp_fields /\ In (attr_frag_count, KUint None) lp_fields /\
  In (attr_pit_token, KBytes false) lp_fields /\ In (attr_nack, KModel nack_fields false) lp_fields /\
  nack_fields = [(attr_nack_reason, KUint None)] /\
  last lp_fields (0, KBool) = (attr_fragment, KBytes false) /\
  lp_outer = [(attr_lp_packet, KModel lp_fields false)].
Proof. vm_compute. repeat split; auto 20. Qed.

(* ---- decoding an envelope ------------------------------------------------------------------------- *)
Theorem gen_decode_envelope vs els :
  envelope_of vs els -> gen_decode parse_model LP_PACKET lp_fields true (lp_wire els) = Ok vs.
Proof.
  intros (HF & Hok & Hl & els0 & He & Hw).
  unfold gen_decode, lp_wire.
  rewrite pact_tlv by (try exact Hl; reflexivity). cbn [bind].
  fold lp_depth.
  rewrite (parse_model_with_unknown lp_depth lp_fields els0 els Hw Hok).
  apply parse_encode_roundtrip; [exact wf_lp_fields|exact HF|exact He|].
  pose proof (ser_els_with_unknown_length _ _ _ Hw). lia.
Qed.

Theorem dec_lp_envelope vs els :
  envelope_of vs els -> dec_lp (lp_wire els) = no_fragmentation lp_fields (Ok vs).
Proof.
  intros He. unfold dec_lp. change TYPE_LP_PACKET with LP_PACKET. fold lp_fields.
  rewrite (gen_decode_envelope vs els He). reflexivity.
Qed.

(* with_tl=True is the outer Type/Length check followed by with_tl=False *)
Lemma parse_lp_with_tl w :
  parse_lp_packet_v2_gen true w = do v <- parse_and_check_tl w LP_PACKET ;; parse_lp_packet_v2_gen false v.
Proof.
  unfold parse_lp_packet_v2_gen, parse_lp_packet_v2, parse_lp_value, dec_lp, gen_decode. change TYPE_LP_PACKET with LP_PACKET.
  destruct (parse_and_check_tl w LP_PACKET); reflexivity.
Qed.

Definition unfragmented (vs : list value) : Prop :=
  lp_attr vs attr_frag_index = VNone /\ lp_attr vs attr_frag_count = VNone.

Lemma no_frag_ok vs : unfragmented vs -> no_fragmentation lp_fields (Ok vs) = Ok vs.
Proof.
  intros [H1 H2]. unfold no_fragmentation. cbn [bind].
  change (field_value lp_fields vs LP_FRAG_INDEX) with (lp_attr vs attr_frag_index).
  change (field_value lp_fields vs LP_FRAG_COUNT) with (lp_attr vs attr_frag_count).
  rewrite H1, H2. reflexivity.
Qed.

Lemma no_frag_err vs : ~ unfragmented vs -> no_fragmentation lp_fields (Ok vs) = Err EDecode.
Proof.
  intros H. unfold no_fragmentation. cbn [bind].
  change (field_value lp_fields vs LP_FRAG_INDEX) with (lp_attr vs attr_frag_index).
  change (field_value lp_fields vs LP_FRAG_COUNT) with (lp_attr vs attr_frag_count).
  destruct (lp_attr vs attr_frag_index) eqn:E1; try reflexivity.
  destruct (lp_attr vs attr_frag_count) eqn:E2; try reflexivity.
  exfalso. apply H. split; assumption.
Qed.

(* ---- the [except] clauses ---------------------------------------------------------------------------- *)
Lemma caught_documented_v2 e : documented e = true -> caught_by lp_caught_v2 e = true.
Proof. destruct e; try discriminate; intros _; vm_compute; reflexivity. Qed.
Lemma caught_documented_v1 e : documented e = true -> caught_by lp_caught_v1 e = true.
Proof. destruct e; try discriminate; intros _; vm_compute; reflexivity. Qed.

Lemma tl_dec_err_class w e : tl_dec w = Err e -> caught_by frag_type_caught e = true.
Proof.
  destruct w as [|b r]; cbn [tl_dec].
  - intros H. inversion H. reflexivity.
  - destruct (b <=? 252); [discriminate|]. unfold unpack_be.
    destruct (b =? 253); [|destruct (b =? 254)];
      match goal with |- context [Nat.eqb ?a ?b] => destruct (Nat.eqb a b) end; cbn [bind]; intros H; inversion H; reflexivity.
Qed.

(* ---- the unwrap prologue on envelopes --------------------------------------------------------------- *)
Section Unwrap.
Variable caught : list err.
Variable keep : bool.
Hypothesis caught_decode : caught_by caught EDecode = true.

Definition tok_if (vs : list value) : option bytes := if keep then lp_token vs else None.

Lemma unwrap_envelope vs els :
  envelope_of vs els -> unfragmented vs ->
  unwrap_with caught keep LP_PACKET (lp_wire els) =
  match lp_fragment vs with
  | None | Some [] => UDrop 2
  | Some frag =>
      match tl_dec frag with
      | Err e => UDrop 3
      | Ok (t, _) => match nack_reason_of (lp_nack vs) with
                     | Some r => UNack r frag
                     | None => UPacket t (tok_if vs) frag
                     end
      end
  end.
Proof.
  intros He Hu. unfold unwrap_with. rewrite N.eqb_refl. unfold parse_lp_packet_v2.
  rewrite (dec_lp_envelope vs els He), (no_frag_ok vs Hu).
  destruct (lp_fragment vs) as [[|b frag]|]; try reflexivity.
  destruct (tl_dec (b :: frag)) as [[t n]|e] eqn:E; [reflexivity|].
  rewrite (tl_dec_err_class _ _ E). reflexivity.
Qed.

Lemma unwrap_fragmented vs els :
  envelope_of vs els -> ~ unfragmented vs -> unwrap_with caught keep LP_PACKET (lp_wire els) = UDrop 1.
Proof.
  intros He Hu. unfold unwrap_with. rewrite N.eqb_refl. unfold parse_lp_packet_v2.
  rewrite (dec_lp_envelope vs els He), (no_frag_err vs Hu), caught_decode. reflexivity.
Qed.

Lemma unwrap_bare typ data : typ <> LP_PACKET -> unwrap_with caught keep typ data = UPacket typ None data.
Proof. intros H. unfold unwrap_with. apply N.eqb_neq in H. rewrite H. reflexivity. Qed.
End Unwrap.

Lemma caught_decode_v2 : caught_by lp_caught_v2 EDecode = true. Proof. reflexivity. Qed.
Lemma caught_decode_v1 : caught_by lp_caught_v1 EDecode = true. Proof. reflexivity. Qed.

(* no exception leaves the prologue, whatever the bytes *)
Theorem unwrap_v2_never_raises typ data e : unwrap_v2 typ data <> URaise e.
Proof.
  unfold unwrap_v2, unwrap_with. destruct (typ =? LP_PACKET); [|discriminate].
  unfold parse_lp_packet_v2. pose proof (dec_lp_doc data) as Hd.
  destruct (dec_lp data) as [vs|e']; cbn in Hd.
  - destruct (lp_fragment vs) as [[|b frag]|]; try discriminate.
    destruct (tl_dec (b :: frag)) as [[t n]|e'] eqn:E.
    + destruct (nack_reason_of (lp_nack vs)); discriminate.
    + rewrite (tl_dec_err_class _ _ E). discriminate.
  - rewrite (caught_documented_v2 _ Hd). discriminate.
Qed.
Theorem unwrap_v1_never_raises typ data e : unwrap_v1 typ data <> URaise e.
Proof.
  unfold unwrap_v1, unwrap_with. destruct (typ =? LP_PACKET); [|discriminate].
  unfold parse_lp_packet_v2. pose proof (dec_lp_doc data) as Hd.
  destruct (dec_lp data) as [vs|e']; cbn in Hd.
  - destruct (lp_fragment vs) as [[|b frag]|]; try discriminate.
    destruct (tl_dec (b :: frag)) as [[t n]|e'] eqn:E.
    + destruct (nack_reason_of (lp_nack vs)); discriminate.
    + rewrite (tl_dec_err_class _ _ E). discriminate.
  - rewrite (caught_documented_v1 _ Hd). discriminate.
Qed.

(* ---- receive ------------------------------------------------------------------------------------------ *)
Section Transparent.
Variables St Out : Type.
Variable dispatch : St -> N -> option bytes -> bytes -> St * Out.
Variable on_nack : St -> N -> bytes -> St * Out.
Variable nothing : Out.
Notation receive2 := (receive_v2 St Out dispatch on_nack nothing).
Notation receive1 := (receive_v1 St Out dispatch on_nack nothing).

(* C10: a packet inside an envelope without Nack / fragmentation headers is processed exactly as the same
   packet received bare (appv2: plus the recorded token) — for all header combinations incl. unknown ones *)
Theorem wrap_transparent_v2 s vs els pkt t n :
  envelope_of vs els -> unfragmented vs -> lp_attr vs attr_nack = VNone ->
  lp_attr vs attr_fragment = VBytes pkt -> tl_dec pkt = Ok (t, n) ->
  receive2 s LP_PACKET (lp_wire els) = Ok (dispatch s t (lp_token vs) pkt) /\
  (t <> LP_PACKET -> receive2 s t pkt = Ok (dispatch s t None pkt)).
Proof.
  intros He Hu Hn Hf Ht. split.
  - unfold receive_v2, unwrap_v2. rewrite (unwrap_envelope lp_caught_v2 true vs els He Hu).
    unfold lp_fragment, lp_nack. rewrite Hf, Hn.
    destruct pkt as [|b pkt]; [discriminate Ht|]. rewrite Ht. reflexivity.
  - intros Hne. unfold receive_v2, unwrap_v2. rewrite unwrap_bare by exact Hne. reflexivity.
Qed.

Theorem wrap_transparent_v1 s vs els pkt t n :
  envelope_of vs els -> unfragmented vs -> lp_attr vs attr_nack = VNone ->
  lp_attr vs attr_fragment = VBytes pkt -> tl_dec pkt = Ok (t, n) -> t <> LP_PACKET ->
  receive1 s LP_PACKET (lp_wire els) = receive1 s t pkt.
Proof.
  intros He Hu Hn Hf Ht Hne.
  unfold receive_v1, unwrap_v1. rewrite (unwrap_envelope lp_caught_v1 false vs els He Hu).
  rewrite unwrap_bare by exact Hne.
  unfold lp_fragment, lp_nack. rewrite Hf, Hn.
  destruct pkt as [|b pkt]; [discriminate Ht|]. rewrite Ht. reflexivity.
Qed.

(* C10: an envelope with a Nack header hands exactly its reason code (0 when the header has none) and the
   fragment to the Nack path, whatever other headers are present *)
Theorem nack_exact_reason s vs els ns frag t n :
  envelope_of vs els -> unfragmented vs -> lp_attr vs attr_nack = VModel ns ->
  lp_attr vs attr_fragment = VBytes frag -> tl_dec frag = Ok (t, n) ->
  let r := match field_value nack_fields ns attr_nack_reason with VUint r => r | _ => 0 end in
  receive2 s LP_PACKET (lp_wire els) = Ok (on_nack s r frag) /\
  receive1 s LP_PACKET (lp_wire els) = Ok (on_nack s r frag).
Proof.
  intros He Hu Hn Hf Ht r.
  assert (nack_reason_of (lp_nack vs) = Some r) as Hr.
  { unfold lp_nack. rewrite Hn. subst r. destruct (field_value nack_fields ns attr_nack_reason); reflexivity. }
  split.
  - unfold receive_v2, unwrap_v2. rewrite (unwrap_envelope lp_caught_v2 true vs els He Hu).
    unfold lp_fragment. rewrite Hf. destruct frag as [|b frag]; [discriminate Ht|]. rewrite Ht, Hr. reflexivity.
  - unfold receive_v1, unwrap_v1. rewrite (unwrap_envelope lp_caught_v1 false vs els He Hu).
    unfold lp_fragment. rewrite Hf. destruct frag as [|b frag]; [discriminate Ht|]. rewrite Ht, Hr. reflexivity.
Qed.

(* C10: fragmented envelopes are rejected: nothing is delivered, the state is unchanged *)
Theorem fragmented_rejected s vs els :
  envelope_of vs els -> ~ unfragmented vs ->
  receive2 s LP_PACKET (lp_wire els) = Ok (s, nothing) /\ receive1 s LP_PACKET (lp_wire els) = Ok (s, nothing).
Proof.
  intros He Hu. split.
  - unfold receive_v2, unwrap_v2. rewrite (unwrap_fragmented _ true caught_decode_v2 vs els He Hu). reflexivity.
  - unfold receive_v1, unwrap_v1. rewrite (unwrap_fragmented _ false caught_decode_v1 vs els He Hu). reflexivity.
Qed.

(* C10: unknown headers are ignored: any element list, any number of unrecognised elements *)
Theorem unknown_headers_ignored s els :
  Forall el_ok els -> N.of_nat (length (ser_els els)) < two64 ->
  receive2 s LP_PACKET (lp_wire els) = receive2 s LP_PACKET (lp_wire (filter (known lp_fields) els)) /\
  receive1 s LP_PACKET (lp_wire els) = receive1 s LP_PACKET (lp_wire (filter (known lp_fields) els)).
Proof.
  intros Hok Hl.
  assert (dec_lp (lp_wire els) = dec_lp (lp_wire (filter (known lp_fields) els))) as E.
  { unfold dec_lp, gen_decode, lp_wire. change TYPE_LP_PACKET with LP_PACKET.
    assert (N.of_nat (length (ser_els (filter (known lp_fields) els))) < two64) as Hl'.
    { pose proof (ser_els_with_unknown_length lp_fields (filter (known lp_fields) els) els) as L.
      assert (with_unknown lp_fields (filter (known lp_fields) els) els) as W.
      { clear. induction els as [|e els IH]; [constructor|]. cbn [filter]. destruct (known lp_fields e) eqn:K.
        - apply wu_keep. exact IH. - apply wu_ins; assumption. }
      specialize (L W). lia. }
    rewrite !pact_tlv by (try assumption; reflexivity). cbn [bind]. f_equal.
    apply (parse_model_filter_known _ ndnlp_v2_LpPacketValue els Hok). }
  split.
  - unfold receive_v2, unwrap_v2, unwrap_with, parse_lp_packet_v2. rewrite E. reflexivity.
  - unfold receive_v1, unwrap_v1, unwrap_with, parse_lp_packet_v2. rewrite E. reflexivity.
Qed.

Theorem receive_never_raises s typ data :
  is_ok (receive2 s typ data) = true /\ is_ok (receive1 s typ data) = true.
Proof.
  split.
  - unfold receive_v2. pose proof (unwrap_v2_never_raises typ data) as H.
    destruct (unwrap_v2 typ data); try reflexivity. exfalso. eapply H. reflexivity.
  - unfold receive_v1. pose proof (unwrap_v1_never_raises typ data) as H.
    destruct (unwrap_v1 typ data); try reflexivity. exfalso. eapply H. reflexivity.
Qed.
End Transparent.
