(* Components BUILT from a value and a type number (Component.from_bytes / from_hex, and from_number through the
   shortest big-endian value): Type, Length, Value in shortest form; type and value read back; illegal types refused. *)
From Coq Require Import Lia.
From NDN Require Import Base.Prelude Model.TlvVar Model.Name Proofs.BytesLemmas Proofs.TlvVarProofs Proofs.NameUri.
Local Open Scope N_scope.
Set Default Timeout 900.

Lemma built_get_type t v : t < two64 -> comp_get_type (comp_enc t v) = Ok t.
Proof. intros H. unfold comp_get_type, comp_enc. rewrite tl_dec_enc by exact H. reflexivity. Qed.

Lemma built_get_value t v :
  t < two64 -> N.of_nat (length v) < two64 -> comp_get_value (comp_enc t v) = Ok v.
Proof.
  intros Ht Hv. unfold comp_get_value, comp_enc.
  rewrite tl_dec_enc by exact Ht. cbn [bind snd].
  rewrite <- (tl_enc_length t), skipn_app_exact.
  rewrite tl_dec_enc by exact Hv. cbn [bind snd].
  rewrite <- (tl_enc_length (N.of_nat (length v))).
  rewrite <- app_length, app_assoc, skipn_app_exact. reflexivity.
Qed.

Lemma built_component t v :
  0 < t <= 65535 -> N.of_nat (length v) < two64 ->
  comp_from_bytes v (Z.of_N t) = Ok (comp_enc t v) /\
  comp_get_type (comp_enc t v) = Ok t /\ comp_get_value (comp_enc t v) = Ok v.
Proof.
  intros Ht Hv. assert (t < two64) by (unfold two64; lia).
  split; [apply comp_from_bytes_ok; exact Ht|].
  split; [apply built_get_type; assumption | apply built_get_value; assumption].
Qed.

Lemma built_component_refused v (t : Z) : (t <= 0 \/ 65535 < t)%Z -> comp_from_bytes v t = Err EValue.
Proof.
  intros H. unfold comp_from_bytes, MAX_COMPONENT_TYPE.
  destruct (Z.leb_spec t 0); [reflexivity|].
  destruct (Z.ltb_spec (Z.of_N 65535) t); [reflexivity|]. lia.
Qed.

Lemma built_number (n t : N) :
  0 < t <= 65535 -> n < two64 ->
  exists b, nni_enc_r n = Ok b /\ comp_from_number (Z.of_N n) t = Ok (comp_enc t b) /\
            comp_get_type (comp_enc t b) = Ok t.
Proof.
  intros Ht Hn. unfold comp_from_number.
  replace (Z.of_N n <? 0)%Z with false by lia. rewrite N2Z.id.
  destruct (nni_enc_r n) as [b|e] eqn:E.
  - exists b. split; [reflexivity|]. cbn [bind]. split.
    + apply comp_from_bytes_ok. exact Ht.
    + apply built_get_type. unfold two64; lia.
  - exfalso. unfold nni_enc_r in E. destruct (N.ltb_spec n two64) as [_|Hge]; [discriminate|lia].
Qed.
