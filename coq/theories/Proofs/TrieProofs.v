(* Lemmas about Model/Trie.v: get after set / setdefault / del, longest_prefix = longest valued
   prefix, pruning. *)
From NDN Require Import Base.Prelude Model.Name Model.Trie Spec.DispatchSpec.

Lemma bytes_eqb_refl c : bytes_eqb c c = true.
Proof. apply bytes_eqb_spec. reflexivity. Qed.

Lemma bytes_eqb_neq c c' : c <> c' -> bytes_eqb c c' = false.
Proof. intros H. destruct (bytes_eqb c c') eqn:E; [|reflexivity]. apply bytes_eqb_spec in E. contradiction. Qed.

Lemma bytes_dec (c c' : bytes) : {c = c'} + {c <> c'}.
Proof. destruct (bytes_eqb c c') eqn:E; [left; apply bytes_eqb_spec; exact E|right; intros ->; rewrite bytes_eqb_refl in E; discriminate]. Qed.

Lemma name_dec (a b : name) : {a = b} + {a <> b}.
Proof. apply list_eq_dec. apply bytes_dec. Qed.

Lemma name_eqb_spec a b : name_eqb a b = true <-> a = b.
Proof. apply list_eqb_spec. apply bytes_eqb_spec. Qed.

Lemma name_eqb_refl a : name_eqb a a = true.
Proof. apply name_eqb_spec. reflexivity. Qed.

Lemma name_eqb_neq a b : a <> b -> name_eqb a b = false.
Proof. intros H. destruct (name_eqb a b) eqn:E; [|reflexivity]. apply name_eqb_spec in E. contradiction. Qed.

(* ---- prefixes ------------------------------------------------------------------------------- *)
Lemma prefix_nil (n : name) : prefix [] n.
Proof. exists n. reflexivity. Qed.

Lemma prefix_of_nil (p : name) : prefix p [] -> p = [].
Proof. intros [r H]. destruct p; [reflexivity|discriminate]. Qed.

Lemma prefix_cons c p d n : prefix (c :: p) (d :: n) <-> c = d /\ prefix p n.
Proof.
  split.
  - intros [r H]. cbn in H. inversion H. split; [reflexivity|]. exists r. reflexivity.
  - intros [-> [r ->]]. exists r. reflexivity.
Qed.

Lemma prefix_cons_nil c (p : name) : ~ prefix (c :: p) [].
Proof. intros [r H]. discriminate. Qed.

Lemma prefix_refl (n : name) : prefix n n.
Proof. exists []. rewrite app_nil_r. reflexivity. Qed.

Lemma prefix_same_length (p q n : name) : prefix p n -> prefix q n -> length p = length q -> p = q.
Proof.
  revert q n. induction p as [|c p IH]; intros [|d q] n Hp Hq Hl; try discriminate; [reflexivity|].
  destruct n as [|e n]; [exfalso; eapply prefix_cons_nil; exact Hp|].
  apply prefix_cons in Hp. apply prefix_cons in Hq. destruct Hp as [-> Hp], Hq as [-> Hq].
  f_equal. eapply IH; eauto.
Qed.

Lemma is_lpm_unique {X} (a : name -> option X) n p h p' h' :
  is_lpm a n p h -> is_lpm a n p' h' -> p = p' /\ h = h'.
Proof.
  intros (A1 & P1 & M1) (A2 & P2 & M2).
  assert (p = p') as ->.
  { eapply prefix_same_length; eauto. apply Nat.le_antisymm; eauto. }
  split; [reflexivity|congruence].
Qed.

(* ---- first_some over the prefixes of a name, longest first ------------------------------------ *)
Definition lp_fun {X} (g : name -> option X) (n : name) : option (name * X) :=
  first_some (fun p => match g p with Some h => Some (p, h) | None => None end) (rev (inits n)).

Lemma first_some_app {A B} (f : A -> option B) l1 l2 :
  first_some f (l1 ++ l2) = match first_some f l1 with Some y => Some y | None => first_some f l2 end.
Proof. induction l1 as [|x l1 IH]; [reflexivity|]. cbn. destruct (f x); [reflexivity|exact IH]. Qed.

Lemma first_some_map {A B C} (f : B -> option C) (g : A -> B) l :
  first_some f (map g l) = first_some (fun x => f (g x)) l.
Proof. induction l as [|x l IH]; [reflexivity|]. cbn. destruct (f (g x)); [reflexivity|exact IH]. Qed.

Lemma first_some_omap {A B C} (f : A -> option B) (k : B -> C) l :
  first_some (fun x => option_map k (f x)) l = option_map k (first_some f l).
Proof. induction l as [|x l IH]; [reflexivity|]. cbn. destruct (f x); [reflexivity|exact IH]. Qed.

Lemma first_some_ext {A B} (f g : A -> option B) l :
  (forall x, f x = g x) -> first_some f l = first_some g l.
Proof. intros H. induction l as [|x l IH]; [reflexivity|]. cbn. rewrite H, IH. reflexivity. Qed.

Lemma lp_fun_nil {X} (g : name -> option X) :
  lp_fun g [] = match g [] with Some h => Some ([], h) | None => None end.
Proof. unfold lp_fun. cbn. destruct (g []); reflexivity. Qed.

Lemma lp_fun_cons {X} (g : name -> option X) c n :
  lp_fun g (c :: n) =
  match lp_fun (fun p => g (c :: p)) n with
  | Some (p, h) => Some (c :: p, h)
  | None => match g [] with Some h => Some ([], h) | None => None end
  end.
Proof.
  unfold lp_fun. cbn [inits rev]. rewrite first_some_app. rewrite <- map_rev, first_some_map.
  rewrite (first_some_ext _ (fun x => option_map (fun ph => (c :: fst ph, snd ph))
             (match g (c :: x) with Some h => Some (x, h) | None => None end))).
  2:{ intros x. destruct (g (c :: x)); reflexivity. }
  rewrite first_some_omap. unfold name.
  destruct (first_some _ (rev (inits n))) as [[p h]|]; cbn; [reflexivity|].
  destruct (g []); reflexivity.
Qed.

Lemma lp_fun_ext {X} (g1 g2 : name -> option X) n : (forall p, g1 p = g2 p) -> lp_fun g1 n = lp_fun g2 n.
Proof. intros H. unfold lp_fun. apply first_some_ext. intros x. rewrite H. reflexivity. Qed.

Lemma lp_fun_none {X} n : lp_fun (fun _ => @None X) n = None.
Proof. unfold lp_fun. induction (rev (inits n)) as [|x l IH]; [reflexivity|exact IH]. Qed.

(* the executable search returns the longest valued prefix, and None only when there is none *)
Lemma lp_fun_spec {X} (g : name -> option X) n :
  match lp_fun g n with
  | Some (p, h) => is_lpm g n p h
  | None => forall p, prefix p n -> g p = None
  end.
Proof.
  revert g. induction n as [|c n IH]; intros g.
  - rewrite lp_fun_nil. destruct (g []) eqn:E.
    + split; [exact E|]. split; [apply prefix_nil|]. intros p' h' _ Hp. apply prefix_of_nil in Hp. subst. auto.
    + intros p Hp. apply prefix_of_nil in Hp. subst. exact E.
  - rewrite lp_fun_cons. specialize (IH (fun p => g (c :: p))).
    destruct (lp_fun (fun p => g (c :: p)) n) as [[p h]|].
    + destruct IH as (A & P & M). split; [exact A|]. split; [apply prefix_cons; auto|].
      intros [|d p'] h' A' P'; [cbn; lia|]. apply prefix_cons in P'. destruct P' as [-> P'].
      cbn. apply le_n_S. eapply M; eauto.
    + destruct (g []) eqn:E.
      * split; [exact E|]. split; [apply prefix_nil|].
        intros [|d p'] h' A' P'; [auto|]. apply prefix_cons in P'. destruct P' as [-> P'].
        rewrite (IH p' P') in A'. discriminate.
      * intros [|d p'] P'; [exact E|]. apply prefix_cons in P'. destruct P' as [-> P']. apply IH. exact P'.
Qed.

Lemma lp_fun_complete {X} (g : name -> option X) n p h : is_lpm g n p h -> lp_fun g n = Some (p, h).
Proof.
  intros H. pose proof (lp_fun_spec g n) as S. destruct (lp_fun g n) as [[p' h']|].
  - destruct (is_lpm_unique _ _ _ _ _ _ H S) as [-> ->]. reflexivity.
  - destruct H as (A & P & _). rewrite (S p P) in A. discriminate.
Qed.

(* two tables that agree on "occupied" (up to a translation of the values) select the same prefix *)
Lemma lp_fun_rel {X Y} (g1 : name -> option X) (g2 : name -> option Y) (f : X -> Y) n :
  (forall p, g2 p = option_map f (g1 p)) ->
  lp_fun g2 n = option_map (fun ph => (fst ph, f (snd ph))) (lp_fun g1 n).
Proof.
  intros H. unfold lp_fun. rewrite <- first_some_omap. apply first_some_ext.
  intros x. rewrite H. destruct (g1 x); reflexivity.
Qed.

(* ---- children dict ------------------------------------------------------------------------- *)
Section TrieLemmas.
  Context {V : Type}.
  Notation trie := (trie V).

  Lemma ch_get_set_same (l : list (bytes * trie)) c s : ch_get (ch_set l c s) c = Some s.
  Proof.
    unfold ch_get, ch_set. induction l as [|[c' s'] l IH]; cbn.
    - rewrite bytes_eqb_refl. reflexivity.
    - destruct (bytes_eqb c c') eqn:E; cbn; rewrite E; [reflexivity|exact IH].
  Qed.

  Lemma ch_get_set_other (l : list (bytes * trie)) c c' s : c <> c' -> ch_get (ch_set l c s) c' = ch_get l c'.
  Proof.
    intros N. unfold ch_get, ch_set. induction l as [|[d s'] l IH]; cbn.
    - rewrite bytes_eqb_neq by congruence. reflexivity.
    - destruct (bytes_eqb c d) eqn:E; cbn.
      + apply bytes_eqb_spec in E. subst d. rewrite (bytes_eqb_neq c' c) by congruence. reflexivity.
      + rewrite IH. reflexivity.
  Qed.

  Lemma ch_get_del_same (l : list (bytes * trie)) c : ch_get (ch_del l c) c = None.
  Proof.
    unfold ch_get, ch_del. induction l as [|[d s'] l IH]; cbn; [reflexivity|].
    destruct (bytes_eqb c d) eqn:E; cbn; [exact IH|]. rewrite E. exact IH.
  Qed.

  Lemma ch_get_del_other (l : list (bytes * trie)) c c' : c <> c' -> ch_get (ch_del l c) c' = ch_get l c'.
  Proof.
    intros N. unfold ch_get, ch_del. induction l as [|[d s'] l IH]; cbn; [reflexivity|].
    destruct (bytes_eqb c d) eqn:E; cbn.
    - apply bytes_eqb_spec in E. subst d. rewrite (bytes_eqb_neq c' c) by congruence. exact IH.
    - rewrite IH. reflexivity.
  Qed.

  (* ---- get ------------------------------------------------------------------------------------ *)
  Lemma t_get_nil (t : trie) : t_get t [] = t_val t.
  Proof. reflexivity. Qed.

  Lemma t_get_cons (t : trie) c k :
    t_get t (c :: k) = match ch_get (t_ch t) c with Some s => t_get s k | None => None end.
  Proof. unfold t_get. cbn. destruct (ch_get (t_ch t) c); reflexivity. Qed.

  Lemma t_get_empty k : t_get (@t_empty V) k = None.
  Proof. destruct k; reflexivity. Qed.

  Lemma t_is_empty_get (t : trie) k : t_is_empty t = true -> t_get t k = None.
  Proof. destruct t as [[v|] [|x l]]; cbn; try discriminate. intros _. apply t_get_empty. Qed.

  Lemma t_get_set_node_same (t : trie) k v oim :
    t_get (t_set_node t k v oim) k =
    if oim then match t_get t k with Some x => Some x | None => Some v end else Some v.
  Proof.
    revert t. induction k as [|c k IH]; intros t.
    - rewrite t_get_nil. cbn. destruct (t_val t) eqn:E, oim; cbn; try reflexivity. exact E.
    - cbn [t_set_node]. rewrite !t_get_cons. cbn [t_ch]. rewrite ch_get_set_same, IH.
      destruct (ch_get (t_ch t) c); [reflexivity|]. rewrite t_get_empty. reflexivity.
  Qed.

  Lemma t_get_set_node_other (t : trie) k v oim q :
    q <> k -> t_get (t_set_node t k v oim) q = t_get t q.
  Proof.
    revert t q. induction k as [|c k IH]; intros t q N.
    - destruct q as [|d q]; [contradiction|]. cbn [t_set_node].
      destruct (t_val t), oim; rewrite ?t_get_cons; reflexivity.
    - cbn [t_set_node]. destruct q as [|d q]; [reflexivity|].
      rewrite !t_get_cons. cbn [t_ch]. destruct (bytes_dec c d) as [<-|Nc].
      + rewrite ch_get_set_same, IH by congruence.
        destruct (ch_get (t_ch t) c); [reflexivity|apply t_get_empty].
      + rewrite ch_get_set_other by exact Nc. reflexivity.
  Qed.

  Lemma t_set_node_nonempty (t : trie) k v oim : t_is_empty (t_set_node t k v oim) = false.
  Proof.
    destruct k as [|c k]; cbn.
    - destruct (t_val t) eqn:E, oim; try reflexivity. destruct t as [[x|] l]; cbn in *; [reflexivity|discriminate].
    - destruct (t_val t); unfold ch_set; destruct (t_ch t) as [|[d s] l]; cbn; try reflexivity;
        destruct (bytes_eqb c d); reflexivity.
  Qed.

  (* ---- del ------------------------------------------------------------------------------------ *)
  Lemma t_del_ok (t : trie) k t' :
    t_del t k = Ok t' ->
    t_get t k <> None /\ t_get t' k = None /\ forall q, q <> k -> t_get t' q = t_get t q.
  Proof.
    revert t t'. induction k as [|c k IH]; intros t t' H.
    - cbn in H. destruct (t_val t) eqn:E; [|discriminate]. inversion H; subst t'. clear H.
      rewrite !t_get_nil, E. split; [discriminate|]. split; [reflexivity|].
      intros [|d q] N; [contradiction|]. rewrite !t_get_cons. reflexivity.
    - cbn [t_del] in H. destruct (ch_get (t_ch t) c) as [s|] eqn:Ec; [|discriminate].
      destruct (t_del s k) as [s'|e] eqn:Ed; [|discriminate]. cbn [bind] in H. inversion H; subst t'. clear H.
      destruct (IH _ _ Ed) as (A & B & C). rewrite !t_get_cons, Ec. cbn [t_ch]. split; [exact A|]. split.
      + destruct (t_is_empty s'); [rewrite ch_get_del_same; reflexivity|rewrite ch_get_set_same; exact B].
      + intros [|d q] N; [reflexivity|]. rewrite !t_get_cons. cbn [t_ch].
        destruct (bytes_dec c d) as [<-|Nc].
        * rewrite Ec. assert (Nq : q <> k) by congruence.
          destruct (t_is_empty s') eqn:Ee.
          -- rewrite ch_get_del_same. rewrite <- (C q Nq). symmetry. apply t_is_empty_get. exact Ee.
          -- rewrite ch_get_set_same. apply C. exact Nq.
        * destruct (t_is_empty s'); [rewrite ch_get_del_other by exact Nc|rewrite ch_get_set_other by exact Nc]; reflexivity.
  Qed.

  Lemma t_del_err (t : trie) k e : t_del t k = Err e -> e = EKey /\ t_get t k = None.
  Proof.
    revert t. induction k as [|c k IH]; intros t H.
    - cbn in H. rewrite t_get_nil. destruct (t_val t); [discriminate|]. inversion H. auto.
    - cbn [t_del] in H. rewrite t_get_cons. destruct (ch_get (t_ch t) c) as [s|]; [|inversion H; auto].
      destruct (t_del s k) as [s'|e'] eqn:Ed; [discriminate|]. cbn in H. inversion H; subst e'. apply IH. exact Ed.
  Qed.

  Lemma t_del_none (t : trie) k : t_get t k = None -> t_del t k = Err EKey.
  Proof.
    intros H. destruct (t_del t k) as [t'|e] eqn:E.
    - apply t_del_ok in E. destruct E as (A & _). contradiction.
    - apply t_del_err in E. destruct E as [-> _]. reflexivity.
  Qed.

  Lemma t_del_some (t : trie) k v : t_get t k = Some v -> exists t', t_del t k = Ok t'.
  Proof.
    intros H. destruct (t_del t k) as [t'|e] eqn:E; [eauto|].
    apply t_del_err in E. destruct E as [_ E]. congruence.
  Qed.

  (* ---- prefixes / longest_prefix ---------------------------------------------------------------- *)
  Definition last_of {A} (l : list A) : option A := match rev l with [] => None | x :: _ => Some x end.

  Lemma last_of_app {A} (a b : list A) :
    last_of (a ++ b) = match last_of b with Some x => Some x | None => last_of a end.
  Proof. unfold last_of. rewrite rev_app_distr. destruct (rev b); reflexivity. Qed.

  Lemma t_prefixes_last (t : trie) k acc :
    last_of (t_prefixes t k acc) =
    option_map (fun pv => (rev acc ++ fst pv, snd pv)) (lp_fun (t_get t) k).
  Proof.
    revert t acc. induction k as [|c k IH]; intros t acc.
    - rewrite lp_fun_nil, t_get_nil. cbn. rewrite app_nil_r. destruct (t_val t); cbn; rewrite ?app_nil_r; reflexivity.
    - rewrite lp_fun_cons. cbn [t_prefixes]. rewrite last_of_app. rewrite t_get_nil.
      destruct (ch_get (t_ch t) c) as [s|] eqn:Ec.
      + rewrite (lp_fun_ext (fun p => t_get t (c :: p)) (t_get s))
          by (intros p; rewrite t_get_cons, Ec; reflexivity).
        rewrite IH. destruct (lp_fun (t_get s) k) as [[p v]|]; cbn.
        * rewrite <- app_assoc. reflexivity.
        * destruct (t_val t); cbn; rewrite ?app_nil_r; reflexivity.
      + rewrite (lp_fun_ext (fun p => t_get t (c :: p)) (fun _ => None))
          by (intros p; rewrite t_get_cons, Ec; reflexivity).
        rewrite lp_fun_none. destruct (t_val t); cbn; rewrite ?app_nil_r; reflexivity.
  Qed.

  Theorem t_longest_prefix_lp (t : trie) k : t_longest_prefix t k = lp_fun (t_get t) k.
  Proof.
    change (t_longest_prefix t k) with (last_of (t_prefixes t k [])). rewrite t_prefixes_last.
    destruct (lp_fun (t_get t) k) as [[p v]|]; reflexivity.
  Qed.

  (* every step yielded by prefixes is a valued prefix of the key *)
  Lemma t_prefixes_sound (t : trie) k acc p v :
    In (p, v) (t_prefixes t k acc) -> exists p', p = rev acc ++ p' /\ prefix p' k /\ t_get t p' = Some v.
  Proof.
    revert t acc. induction k as [|c k IH]; intros t acc H; cbn [t_prefixes] in H; apply in_app_or in H.
    - destruct H as [H|[]]. destruct (t_val t) eqn:E; [|destruct H]. destruct H as [H|[]]. inversion H; subst.
      exists []. rewrite app_nil_r. repeat split; [apply prefix_nil|exact E].
    - destruct H as [H|H].
      + destruct (t_val t) eqn:E; [|destruct H]. destruct H as [H|[]]. inversion H; subst.
        exists []. rewrite app_nil_r. repeat split; [apply prefix_nil|exact E].
      + destruct (ch_get (t_ch t) c) as [s|] eqn:Ec; [|destruct H].
        destruct (IH _ _ H) as (p' & -> & P & G). exists (c :: p'). cbn. rewrite <- app_assoc. split; [reflexivity|].
        split; [apply prefix_cons; auto|]. rewrite t_get_cons, Ec. exact G.
  Qed.

  (* ---- pruning: no empty node below the root ---------------------------------------------------- *)
  Definition ch_ok (l : list (bytes * trie)) : Prop :=
    Forall (fun p => t_is_empty (snd p) = false /\ t_pruned (snd p) = true) l.

  Lemma t_pruned_iff v (ch : list (bytes * trie)) : t_pruned (Node v ch) = true <-> ch_ok ch.
  Proof.
    unfold ch_ok. induction ch as [|[c s] l IH].
    - split; [constructor|reflexivity].
    - change (t_pruned (Node v ((c, s) :: l))) with (negb (t_is_empty s) && t_pruned s && t_pruned (Node v l)).
      rewrite !andb_true_iff, negb_true_iff, IH. split.
      + intros [[A B] C]. constructor; [split; assumption|exact C].
      + intros H. inversion H; subst. cbn in *. tauto.
  Qed.

  Lemma t_pruned_ch (t : trie) : t_pruned t = true <-> ch_ok (t_ch t).
  Proof. destruct t. apply t_pruned_iff. Qed.

  Lemma ch_ok_set l c s : ch_ok l -> t_is_empty s = false -> t_pruned s = true -> ch_ok (ch_set l c s).
  Proof.
    intros H A B. unfold ch_ok, ch_set in *. induction l as [|[d s'] l IH]; cbn.
    - constructor; [split; assumption|constructor].
    - inversion H; subst. destruct (bytes_eqb c d); constructor; auto.
  Qed.

  Lemma ch_ok_del l c : ch_ok l -> ch_ok (ch_del l c).
  Proof.
    unfold ch_ok, ch_del. intros H. induction H as [|x l Hx H IH]; cbn; [constructor|].
    match goal with |- context [if ?b then _ else _] => destruct b end; [constructor; assumption|exact IH].
  Qed.

  Lemma ch_ok_get l c s : ch_ok l -> ch_get l c = Some s -> t_pruned s = true.
  Proof.
    unfold ch_ok, ch_get. intros H. induction H as [|[d s'] l Hx H IH]; cbn; [discriminate|].
    destruct (bytes_eqb c d); [intros E; inversion E; subst; apply Hx|exact IH].
  Qed.

  Lemma t_pruned_set_node (t : trie) k v oim : t_pruned t = true -> t_pruned (t_set_node t k v oim) = true.
  Proof.
    revert t. induction k as [|c k IH]; intros t H.
    - cbn. destruct (t_val t), oim; try exact H; apply t_pruned_iff; apply t_pruned_ch; exact H.
    - cbn [t_set_node]. apply t_pruned_iff. apply t_pruned_ch in H. apply ch_ok_set; [exact H|apply t_set_node_nonempty|].
      apply IH. destruct (ch_get (t_ch t) c) eqn:E; [eapply ch_ok_get; eauto|reflexivity].
  Qed.

  Lemma t_pruned_del (t : trie) k t' : t_pruned t = true -> t_del t k = Ok t' -> t_pruned t' = true.
  Proof.
    revert t t'. induction k as [|c k IH]; intros t t' H D.
    - cbn in D. destruct (t_val t); [|discriminate]. inversion D; subst. apply t_pruned_iff. apply t_pruned_ch. exact H.
    - cbn [t_del] in D. destruct (ch_get (t_ch t) c) as [s|] eqn:Ec; [|discriminate].
      destruct (t_del s k) as [s'|e] eqn:Ed; [|discriminate]. cbn in D. inversion D; subst. clear D.
      apply t_pruned_iff. apply t_pruned_ch in H. destruct (t_is_empty s') eqn:Ee.
      + apply ch_ok_del. exact H.
      + apply ch_ok_set; [exact H|exact Ee|]. eapply IH; [|exact Ed]. eapply ch_ok_get; eauto.
  Qed.
End TrieLemmas.
