(* Whenever the decoder model (Model/Tlv.assign_with over the reflected field descriptors) accepts the top-level
   elements of a packet value, the pointer walk (Model/PacketPtrs.walk over the reflected declared order, which
   interleaves the same fields with the offset markers) accepts them too: markers never match an element. *)
From NDN Require Import Base.Prelude Model.TlvVar Model.Tlv Model.PacketPtrs.
Local Open Scope N_scope.
Set Default Timeout 900.

Definition plain (k : fkind) : Prop := (forall a, k <> KRepeated a) /\ (forall a b c, k <> KMap a b c).

Section AssignWalk.
Variable fs : list field.
Variable lay : layout.
Variable rel : nat -> nat -> Prop.     (* position in the field list ~ position in the declared order *)
Hypothesis Hfind : forall pa pw t, rel pa pw ->
  match find_from fs 0 pa t with
  | Some (i, k) => exists j, find_field lay 0 pw t = Some j /\ rel (S i) (S j) /\ plain k
  | None => find_field lay 0 pw t = None
  end.

Lemma assign_walk pv : forall els pa acc vs pw idx marks,
  assign_with pv fs false PNormal pa els acc = Ok vs -> rel pa pw ->
  exists ev, walk lay idx (map e_type els) pw marks = Ok ev.
Proof.
  induction els as [|e r IH]; intros pa acc vs pw idx marks H R; [eexists; reflexivity|].
  cbn [assign_with] in H. cbn [map walk].
  pose proof (Hfind pa pw (e_type e) R) as F.
  destruct (find_from fs 0 pa (e_type e)) as [[i k]|].
  - destruct F as (j & Fj & R' & (P1 & P2)). rewrite Fj.
    assert (Hnext : exists x acc', assign_with pv fs false PNormal (S i) r acc' = Ok vs /\ pv k e = Ok x).
    { destruct k; try (exfalso; eapply P1; reflexivity); try (exfalso; eapply P2; reflexivity);
      (match type of H with context [pv ?kk e] => destruct (pv kk e) as [x|] eqn:E; [|discriminate] end);
      cbn [bind] in H; eexists; eexists; (split; [exact H|reflexivity]). }
    destruct Hnext as (x & acc' & H' & _).
    destruct (IH (S i) acc' vs (S j) (S idx) (set_marks lay 0 pw j idx marks) H' R') as (ev & Hev).
    rewrite Hev. cbn [bind]. eexists; reflexivity.
  - rewrite F. cbn [negb andb] in H. rewrite Bool.andb_true_r in H.
    destruct (N.odd (e_type e)); [discriminate|]. eapply IH; [exact H|exact R].
Qed.
End AssignWalk.

(* the lenient split with raw bytes is the lenient split *)
Lemma elements_raw_fst : forall fuel w,
  elements fuel w = match elements_raw fuel w with Ok rs => Ok (map fst rs) | Err e => Err e end.
Proof.
  induction fuel as [|f IH]; intros w; [destruct w; reflexivity|].
  destruct w as [|b w']; [reflexivity|]. cbn [elements elements_raw].
  destruct (tl_dec (b :: w')) as [[t st]|]; [|reflexivity]. cbn [bind].
  destruct (tl_dec (skipn st (b :: w'))) as [[l sl]|]; [|reflexivity]. cbn [bind].
  rewrite IH. destruct (elements_raw f _); reflexivity.
Qed.
