(* The whole of RuleChain replication against Spec/LvsSem.expand: after the rules of a sorted schema have been replicated,
   the chains stored for a rule identifier are exactly (up to [represents]) the expansions of the definitions with that
   identifier. *)
From NDN Require Import Base.Prelude Base.Text Model.TlvVar Model.Name Model.LvsAst Model.LvsChecker Model.LvsCompiler
  Spec.LvsSem Proofs.LvsGenTree Proofs.LvsCompileTree Proofs.LvsNumbering Proofs.LvsReplicate Proofs.LvsRepresents
  Proofs.LvsExpand Proofs.LvsRename Proofs.LvsSimA Proofs.LvsSimB.
Local Open Scope N_scope.

Lemma map_acc_rel {St A B} (f : St -> A -> St * B) (Q : A -> B -> Prop) :
  (forall s x s' y, f s x = (s', y) -> Q x y) -> forall l s s' ys, map_acc f s l = (s', ys) -> Forall2 Q l ys.
Proof.
  intros Hf. induction l as [|x l IH]; intros s s' ys H; cbn [map_acc] in H.
  - inversion H; subst. constructor.
  - destruct (f s x) as [s1 y] eqn:E. destruct (map_acc f s1 l) as [s2 ys'] eqn:Em. inversion H; subst.
    constructor; [eapply Hf; eauto | eapply IH; eauto].
Qed.

(* ---- identifier and signer list of the chains of one rule --------------------------------------------------------- *)
Lemma replicate_comp_ids rep rid sg c cur k cur' k' :
  (forall ch, In ch cur -> ch_id ch = rid /\ ch_sign ch = sg) -> replicate_comp rep rid (cur, k) c = Ok (cur', k') ->
  forall ch, In ch cur' -> ch_id ch = rid /\ ch_sign ch = sg.
Proof.
  intros Hcur H. unfold replicate_comp in H. cbn [fst snd] in H.
  assert (Hown : forall c0 ch, In ch (map (fun ch => {| ch_id := ch_id ch; ch_name := ch_name ch ++ [c0]; ch_cons := ch_cons ch; ch_sign := ch_sign ch |}) cur) ->
            ch_id ch = rid /\ ch_sign ch = sg).
  { intros c0 ch Hch. apply in_map_iff in Hch. destruct Hch as (ch0 & <- & Hch0). cbn. apply Hcur, Hch0. }
  destruct c as [v|t|x]; [inversion H; subst; apply Hown | inversion H; subst; apply Hown |].
  destruct (al_get ident_eqb rep x) as [refs|]; [|discriminate].
  destruct (map_acc (inline_ref rid cur) k refs) as [kk groups] eqn:Em. inversion H; subst cur' k'. clear H.
  intros ch Hch. apply in_concat in Hch. destruct Hch as (g & Hg & Hchg).
  assert (HQ : Forall2 (fun (_ : chain) g => forall ch, In ch g -> ch_id ch = rid /\ ch_sign ch = sg) refs groups).
  { eapply map_acc_rel; [|exact Em]. intros s rc s' g0 Hi. unfold inline_ref in Hi.
    assert (HQ2 : Forall2 (fun ch0 y => ch_id y = rid /\ ch_sign y = ch_sign ch0) cur g0).
    { eapply map_acc_rel; [|exact Hi]. intros s0 ch0 s0' y Hy. cbn in Hy. destruct (rename_temp_tags s0 rc) as [k4 [rn rcs]]. inversion Hy; subst. cbn. auto. }
    intros ch1 Hch1. destruct (forall2_in_r' _ _ _ _ HQ2 Hch1) as (ch0 & Hch0 & Hid & Hsg). split; [exact Hid|]. rewrite Hsg. apply Hcur, Hch0. }
  destruct (forall2_in_r' _ _ _ _ HQ Hg) as (rc & _ & Hall). apply Hall, Hchg.
Qed.

Lemma replicate_name_ids rep rid sg : forall comps cur k cur' k',
  (forall ch, In ch cur -> ch_id ch = rid /\ ch_sign ch = sg) -> rfold (replicate_comp rep rid) comps (cur, k) = Ok (cur', k') ->
  forall ch, In ch cur' -> ch_id ch = rid /\ ch_sign ch = sg.
Proof.
  induction comps as [|c comps IH]; intros cur k cur' k' Hcur H; cbn [rfold] in H.
  - inversion H; subst. exact Hcur.
  - destruct (replicate_comp rep rid (cur, k) c) as [[cur1 k1]|] eqn:E; cbn [bind] in H; [|discriminate].
    eapply IH; [|exact H]. eapply replicate_comp_ids; eauto.
Qed.

Lemma init_chains_ids nr ch : In ch (init_chains nr) -> ch_id ch = nr_id nr /\ ch_sign ch = isort str_leb (nr_sign nr).
Proof.
  unfold init_chains. destruct (nr_cons nr) as [|cs css].
  - intros [<-|[]]. cbn. auto.
  - intros H. apply in_map_iff in H. destruct H as (c0 & <- & _). cbn. auto.
Qed.

(* ---- the table of chains per rule identifier -------------------------------------------------------------------------- *)
Definition rep_upd (rep : list (ident * list chain)) (id : ident) (new : list chain) : list (ident * list chain) :=
  match al_get ident_eqb rep id with
  | Some old => al_set ident_eqb rep id (old ++ new)
  | None => rep ++ [(id, new)]
  end.

Lemma rep_upd_entries rep id new x chs : In (x, chs) (rep_upd rep id new) ->
  In (x, chs) rep \/ (x = id /\ forall rc, In rc chs -> In rc new \/ exists old, In (id, old) rep /\ In rc old).
Proof.
  unfold rep_upd. destruct (al_get ident_eqb rep id) as [old|] eqn:Eold.
  - intros Hin.
    assert (Hcase : (x = id /\ chs = old ++ new) \/ In (x, chs) rep).
    { clear - Hin Eold. induction rep as [|[k0 v0] rep IHr]; [discriminate|]. cbn in Eold, Hin.
      destruct (ident_eqb id k0) eqn:E.
      - apply ident_eqb_eq in E. subst k0. inversion Eold; subst v0. destruct Hin as [Hin|Hin]; [inversion Hin; auto | right; right; exact Hin].
      - destruct Hin as [Hin|Hin]; [right; left; exact Hin|]. destruct (IHr Eold Hin) as [H|H]; [auto | right; right; exact H]. }
    destruct Hcase as [[-> ->]|H]; [right | left; exact H]. split; [reflexivity|]. intros rc Hrc. apply in_app_or in Hrc.
    destruct Hrc as [Hrc|Hrc]; [right; exists old; split; [apply al_get_in_pair; exact Eold | exact Hrc] | left; exact Hrc].
  - intros Hin. apply in_app_or in Hin. destruct Hin as [Hin|[Hin|[]]]; [left; exact Hin|]. inversion Hin; subst. right. split; [reflexivity|]. auto.
Qed.

Lemma rep_upd_get_same rep id new : exists chs', al_get ident_eqb (rep_upd rep id new) id = Some chs' /\ incl new chs' /\
  forall old, al_get ident_eqb rep id = Some old -> incl old chs'.
Proof.
  unfold rep_upd. destruct (al_get ident_eqb rep id) as [old|] eqn:Eold.
  - exists (old ++ new). split; [apply al_get_set_same; unfold al_mem; rewrite Eold; reflexivity|].
    split; [intros x Hx; apply in_or_app; right; exact Hx|]. intros old' E. inversion E; subst. intros x Hx. apply in_or_app. left. exact Hx.
  - exists new. split; [|split; [apply incl_refl | intros old' E; discriminate]].
    rewrite (al_get_app_none _ _ _ _ Eold), (proj2 (ident_eqb_eq _ _) eq_refl), Eold. reflexivity.
Qed.

Lemma rep_upd_get_other rep id new x : x <> id -> al_get ident_eqb (rep_upd rep id new) x = al_get ident_eqb rep x.
Proof.
  intros Hne. unfold rep_upd. destruct (al_get ident_eqb rep id) as [old|] eqn:Eold.
  - apply al_get_set_other. congruence.
  - rewrite (al_get_app_none _ _ _ _ Eold). destruct (ident_eqb x id) eqn:E; [apply ident_eqb_eq in E; contradiction | reflexivity].
Qed.

(* ---- all rules ---------------------------------------------------------------------------------------------------------- *)
Section Whole.
  Variable S' : lvsfile.                     (* the schema the expansions are taken in *)
  Variable named : list (ident * N).
  Variable kfinal : N.
  Variable K' : nat.
  Hypothesis Hinj : forall p q t, al_get ident_eqb named p = Some t -> al_get ident_eqb named q = Some t -> p = q.
  Hypothesis Hnt : forall p n, al_get ident_eqb named p = Some n -> is_temp_pat p = false /\ 1 <= n.
  Hypothesis Hkf : 1 <= kfinal.
  Hypothesis Hstable : forall d f, In d S' -> In f (expand (Datatypes.S K') S' d) -> In f (expand K' S' d).

  Variable sorted : list rule.
  Variable nrules : list nrule.
  Hypothesis Hsub : forall d, In d sorted -> In d S'.
  Hypothesis Hearlier : forall l1 r l2 x d', sorted = l1 ++ r :: l2 -> In (CRef x) (r_name r) -> In d' (defs_of S' x) -> In d' l1.

  Record rep_inv (l1 : list rule) (rep : list (ident * list chain)) (k : N) : Prop := {
    ri_k : kfinal <= k;
    ri_sound : forall x chs rc, In (x, chs) rep -> In rc chs ->
      exists d f, In d l1 /\ r_id d = x /\ In f (expand K' S' d) /\ represents named rc f /\ rchain_ok k rc /\
                  ch_id rc = x /\ ch_sign rc = isort str_leb (r_sign d);
    ri_complete : forall d f, In d l1 -> In f (expand K' S' d) ->
      exists chs rc, al_get ident_eqb rep (r_id d) = Some chs /\ In rc chs /\ represents named rc f /\
                     ch_sign rc = isort str_leb (r_sign d)
  }.

  Definition rstep (s : list (ident * list chain) * N) (nr : nrule) : res (list (ident * list chain) * N) :=
    do cs <- rfold (replicate_comp (fst s) (nr_id nr)) (nr_name nr) (init_chains nr, snd s) ;;
    Ok (rep_upd (fst s) (nr_id nr) (fst cs), snd cs).

  Lemma rule_step l1 r l2 nr rep k rep' k' :
    sorted = l1 ++ r :: l2 -> nrule_full named kfinal r nr -> Forall2 (comp_num named) (r_name r) (nr_name nr) ->
    rep_inv l1 rep k -> rstep (rep, k) nr = Ok (rep', k') -> rep_inv (l1 ++ [r]) rep' k'.
  Proof.
    intros Es (Hid & Hsg & _ & _ & tp & k0 & k1 & Hk0 & Hk1 & Htp & Hcons) Hnum [Hk Hsound Hcomplete] Hstep.
    unfold rstep in Hstep. cbn [fst snd] in Hstep.
    destruct (rfold (replicate_comp rep (nr_id nr)) (nr_name nr) (init_chains nr, k)) as [[cur' k2]|] eqn:E; cbn [bind fst snd] in Hstep; [|discriminate].
    inversion Hstep; subst rep' k'. clear Hstep.
    assert (HrS : In r S') by (apply Hsub; rewrite Es; apply in_or_app; right; left; reflexivity).
    assert (Hs : forall x chs rcx, al_get ident_eqb rep x = Some chs -> In rcx chs ->
              exists fx, In fx (alts K' S' [] (CRef x)) /\ represents named rcx fx /\ rchain_ok k rcx).
    { intros x chs rcx Hg Hin. apply al_get_in_pair in Hg. destruct (Hsound x chs rcx Hg Hin) as (d & f & Hd & Hdx & Hf & Hrep & Hok & _).
      exists f. split; [|auto]. cbn [alts]. apply in_flat_map. exists d. split; [|exact Hf].
      unfold defs_of. apply filter_In. split; [apply Hsub; rewrite Es; apply in_or_app; left; exact Hd | apply ident_eqb_eq; exact Hdx]. }
    assert (Hc : forall x, In (CRef x) (r_name r) -> forall fx, In fx (alts K' S' [] (CRef x)) ->
              exists chs rcx, al_get ident_eqb rep x = Some chs /\ In rcx chs /\ represents named rcx fx).
    { intros x Hx fx Hfx. cbn [alts] in Hfx. apply in_flat_map in Hfx. destruct Hfx as (d' & Hd' & Hf).
      pose proof (Hearlier l1 r l2 x d' Es Hx Hd') as Hin. destruct (Hcomplete d' fx Hin Hf) as (chs & rc & Hg & Hrc & Hrep & _).
      unfold defs_of in Hd'. apply filter_In in Hd'. destruct Hd' as [_ Hidd]. apply ident_eqb_eq in Hidd. rewrite Hidd in Hg. eauto. }
    pose proof (init_PI S' named kfinal K' Hinj Hnt Hkf r nr tp k0 k1 Htp Hnum k Hcons) as Hinit.
    destruct (comps_sim S' named kfinal K' Hinj Hnt Hkf r nr tp k0 k1 Hk1 Htp Hnum rep k Hk Hcons Hs Hc (r_name r) (nr_name nr) Hnum
                [] [] (init_chains nr) k cur' k2 eq_refl eq_refl eq_refl Hinit (N.le_refl _) E) as [[HPs HPc] Hk2].
    pose proof (replicate_name_ids rep (nr_id nr) (isort str_leb (nr_sign nr)) (nr_name nr) (init_chains nr) k cur' k2 (init_chains_ids nr) E) as Hids.
    assert (Hnew : forall rc, In rc cur' ->
              exists f, In f (expand K' S' r) /\ represents named rc f /\ rchain_ok k2 rc /\ ch_id rc = nr_id nr /\ ch_sign rc = isort str_leb (r_sign r)).
    { intros rc Hrc. destruct (HPs rc Hrc) as (cs & cons0 & parts & Hin & Hci). destruct (Hids rc Hrc) as [Hi1 Hi2].
      exists (mkflat cs parts). split; [|split; [apply (ci_rep _ _ _ _ _ _ _ _ _ _ Hci)|split; [|split; [exact Hi1 | rewrite Hi2, Hsg; reflexivity]]]].
      - apply Hstable; [exact HrS|]. apply in_expand_S. exists cs, parts. split; [apply (cpairs_choices named r nr tp Hcons); eauto|].
        split; [apply (ci_parts _ _ _ _ _ _ _ _ _ _ Hci) | reflexivity].
      - pose proof (cpairs_res named r nr tp Hcons cs cons0 Hin) as Hres.
        destruct (own_cons_wf named kfinal Hinj Hnt Hkf tp k0 k1 _ _ cs cons0 Hres Htp Hk1 Hnum) as [Hwf0 Htag0].
        destruct Hci as [A (extra & B1 & B2 & B3) C D _]. constructor.
        + rewrite B1. apply Forall_app. auto.
        + exact C.
        + intros c t Hcin Ht Hn. rewrite B1 in Hcin. apply in_app_or in Hcin. destruct Hcin as [Hcin|Hcin].
          * specialize (Htag0 c t Hcin Ht Hn). lia.
          * destruct (B3 c t Hcin Ht Hn). lia.
        + exact D. }
    constructor.
    - lia.
    - intros x chs rc Hin Hrc. destruct (rep_upd_entries _ _ _ _ _ Hin) as [Hold|[-> Hsrc]].
      + destruct (Hsound x chs rc Hold Hrc) as (d & f & Hd & Hdx & Hf & Hrep & Hok & Hi1 & Hi2).
        exists d, f. split; [apply in_or_app; left; exact Hd|]. repeat (split; [assumption|]). split; [eapply rchain_ok_mono; eauto | auto].
      + destruct (Hsrc rc Hrc) as [Hn|(old & Hold & Hro)].
        * destruct (Hnew rc Hn) as (f & Hf & Hrep & Hok & Hi1 & Hi2). exists r, f. split; [apply in_or_app; right; left; reflexivity|].
          split; [symmetry; exact Hid|]. auto 6.
        * destruct (Hsound _ old rc Hold Hro) as (d & f & Hd & Hdx & Hf & Hrep & Hok & Hi1 & Hi2).
          exists d, f. split; [apply in_or_app; left; exact Hd|]. repeat (split; [assumption|]). split; [eapply rchain_ok_mono; eauto | auto].
    - intros d f Hd Hf. apply in_app_or in Hd. destruct Hd as [Hd|[<-|[]]].
      + destruct (Hcomplete d f Hd Hf) as (chs & rc & Hg & Hrc & Hrep & Hsgn).
        destruct (list_eq_dec N.eq_dec (r_id d) (nr_id nr)) as [Heq|Hne].
        * destruct (rep_upd_get_same rep (nr_id nr) cur') as (chs' & Hg' & _ & Hincl). rewrite Heq in Hg |- *.
          exists chs', rc. split; [exact Hg'|]. split; [apply (Hincl _ Hg), Hrc | auto].
        * exists chs, rc. rewrite (rep_upd_get_other _ _ _ _ Hne). auto.
      + apply (expand_mono S') in Hf. apply in_expand_S in Hf. destruct Hf as (cs & parts & Hcs & Hp & ->).
        apply (cpairs_choices named r nr tp Hcons) in Hcs. destruct Hcs as (cons0 & Hin).
        destruct (HPc cs cons0 parts Hin Hp) as (ch & Hch & Hci). destruct (Hids ch Hch) as [_ Hi2].
        destruct (rep_upd_get_same rep (nr_id nr) cur') as (chs' & Hg' & Hincl & _). rewrite <- Hid.
        exists chs', ch. split; [exact Hg'|]. split; [apply Hincl, Hch|]. split; [apply (ci_rep _ _ _ _ _ _ _ _ _ _ Hci) | rewrite Hi2, Hsg; reflexivity].
  Qed.

  Lemma rules_sim : forall todo ntodo, Forall2 (nrule_full named kfinal) todo ntodo ->
    Forall2 (fun r nr => Forall2 (comp_num named) (r_name r) (nr_name nr)) todo ntodo ->
    forall l1 rep k rep' k', sorted = l1 ++ todo -> rep_inv l1 rep k -> rfold rstep ntodo (rep, k) = Ok (rep', k') -> rep_inv sorted rep' k'.
  Proof.
    intros todo ntodo F. induction F as [|r nr todo ntodo Hfull _ IH]; intros Fn l1 rep k rep' k' Es Hinv Hf.
    - cbn in Hf. inversion Hf as [[E1 E2]]. rewrite <- E1, <- E2, Es, app_nil_r. exact Hinv.
    - assert (Hnum : Forall2 (comp_num named) (r_name r) (nr_name nr)) by (inversion Fn; assumption).
      assert (Fn' : Forall2 (fun r nr => Forall2 (comp_num named) (r_name r) (nr_name nr)) todo ntodo) by (inversion Fn; assumption).
      cbn [rfold] in Hf. destruct (rstep (rep, k) nr) as [[rep1 k1]|] eqn:E; cbn [bind] in Hf; [|discriminate].
      pose proof (rule_step l1 r todo nr rep k rep1 k1 Es Hfull Hnum Hinv E) as Hinv1.
      apply (IH Fn' (l1 ++ [r]) rep1 k1 rep' k'); auto. rewrite <- app_assoc. exact Es.
  Qed.

  Theorem replicate_sim k0 rep :
    Forall2 (nrule_full named kfinal) sorted nrules ->
    Forall2 (fun r nr => Forall2 (comp_num named) (r_name r) (nr_name nr)) sorted nrules ->
    kfinal <= k0 -> replicate_rules nrules k0 = Ok rep ->
    exists k, rep_inv sorted rep k.
  Proof.
    intros F Fn Hk H. unfold replicate_rules in H.
    change ((do r <- rfold rstep nrules ([], k0) ;; Ok (fst r)) = Ok rep) in H.
    destruct (rfold rstep nrules ([], k0)) as [[rep' k']|] eqn:E; cbn [bind fst] in H; [|discriminate]. inversion H; subst rep'.
    exists k'. apply (rules_sim sorted nrules F Fn [] [] k0 rep k' eq_refl); [|exact E].
    constructor; [exact Hk | intros x chs rc [] | intros d f []].
  Qed.
End Whole.
