(* A concrete schema on which the hypotheses of the C11 / C12 / C13 theorems hold and the conclusions are not vacuous. *)
From NDN Require Import Base.Prelude Base.Text Model.TlvVar Model.Name Model.LvsAst Model.LvsChecker Model.LvsCompiler
  Spec.LvsSem Spec.LvsChains Proofs.LvsMachine Proofs.LvsCompileThms.
Local Open Scope N_scope.

Definition gc (c : N) : bytes := [8; 1; c].              (* a generic name component of one byte *)
Definition id_of (s : list N) : ident := s.

(*  #key:  /"k"/x
    #pkt:  /"a"/x/y & {y: x | "b"} <= #key
    #both: #key/_z & {_z: "c"}                                                              *)
Definition i_key : ident := [35; 107; 101; 121].
Definition i_pkt : ident := [35; 112; 107; 116].
Definition i_both : ident := [35; 98; 111; 116; 104].
Definition p_x : ident := [120].
Definition p_y : ident := [121].
Definition p_z : ident := [95; 122].

Definition ex_schema : lvsfile :=
  [ {| r_id := i_key; r_name := [CLit (gc 107); CPat p_x]; r_cons := []; r_sign := [] |};
    {| r_id := i_pkt; r_name := [CLit (gc 97); CPat p_x; CPat p_y];
       r_cons := [[ {| tc_pat := p_y; tc_opts := [OPat p_x; OLit (gc 98)] |} ]]; r_sign := [i_key] |};
    {| r_id := i_both; r_name := [CRef i_key; CPat p_z];
       r_cons := [[ {| tc_pat := p_z; tc_opts := [OLit (gc 99)] |} ]]; r_sign := [] |} ].

Definition no_ufn : ident -> option (bytes -> list (option bytes) -> res bool) := fun _ => None.

Definition ex_pkt : list bytes := [gc 97; gc 100; gc 98].        (* /a/d/b *)
Definition ex_key : list bytes := [gc 107; gc 100].              (* /k/d   *)
Definition ex_bad : list bytes := [gc 107; gc 101].              (* /k/e   *)

Lemma ex_static : static_ok ex_schema = true.
Proof. vm_compute. reflexivity. Qed.
Lemma ex_wf : schema_wf ex_schema = true.
Proof. vm_compute. reflexivity. Qed.

Definition ex_model : lvsmodel := match compile ex_schema with Ok m => m | Err _ => {| m_version := None; m_start := None; m_npc := None; m_nodes := []; m_symbols := [] |} end.
Lemma ex_compile : compile ex_schema = Ok ex_model.
Proof. vm_compute. reflexivity. Qed.

Lemma ex_match : exists l, lvs_match no_ufn ex_model 1000 ex_pkt = Ok l /\ (match_cost ex_model ex_pkt <= 1000)%nat /\
  strip_digest ex_pkt = Ok ex_pkt /\ exists rs, In (rs, [(Some p_x, gc 100); (Some p_y, gc 98)]) l /\ In i_pkt rs.
Proof.
  eexists. split; [vm_compute; reflexivity|]. split; [apply Nat.leb_le; vm_compute; reflexivity|]. split; [vm_compute; reflexivity|].
  eexists. split; [left; reflexivity | left; reflexivity].
Qed.

Lemma ex_check_yes : lvs_check no_ufn ex_model 1000 ex_pkt ex_key = Ok true /\
  (Nat.max (match_cost ex_model ex_pkt) (match_cost ex_model ex_key) <= 1000)%nat /\ strip_digest ex_key = Ok ex_key.
Proof. split; [vm_compute; reflexivity|]. split; [apply Nat.leb_le; vm_compute; reflexivity | vm_compute; reflexivity]. Qed.

Lemma ex_check_no : lvs_check no_ufn ex_model 1000 ex_pkt ex_bad = Ok false /\
  (Nat.max (match_cost ex_model ex_pkt) (match_cost ex_model ex_bad) <= 1000)%nat /\ strip_digest ex_bad = Ok ex_bad.
Proof. split; [vm_compute; reflexivity|]. split; [apply Nat.leb_le; vm_compute; reflexivity | vm_compute; reflexivity]. Qed.

Lemma ex_not_pseudo : not_pseudo i_pkt.
Proof. intros n E. unfold i_pkt, pseudo_rule in E. cbn in E. inversion E. Qed.

(* ---- C13 ---------------------------------------------------------------------------------------------------------------------- *)
From NDN Require Import Proofs.LvsSanity Proofs.LvsCompileStatic Proofs.LvsCompileAccepts.

Lemma ex_loader_accepts : exists r, sanity_check (sanity_fuel ex_model) ex_model = Ok r.
Proof. eexists. vm_compute. reflexivity. Qed.

Definition ex_nostart : lvsmodel :=
  {| m_version := m_version ex_model; m_start := None; m_npc := m_npc ex_model; m_nodes := m_nodes ex_model; m_symbols := m_symbols ex_model |}.
Lemma ex_nostart_not_sane : ~ sane ex_nostart.
Proof. intros H. destruct (sanity_check_sane _ H) as (s & a & Hs & _). discriminate. Qed.
Lemma ex_nostart_rejected : sanity_check (sanity_fuel ex_nostart) ex_nostart = Err ELvsModel.
Proof. vm_compute. reflexivity. Qed.

Definition i_a : ident := [35; 97].
Definition i_b : ident := [35; 98].
Definition rule_ref (a b : ident) : rule := {| r_id := a; r_name := [CRef b]; r_cons := []; r_sign := [] |}.

(* #a: #b        (no #b) *)
Definition ex_undefined : lvsfile := [rule_ref i_a i_b].
Lemma ex_undefined_hyp : In (rule_ref i_a i_b) ex_undefined /\ In i_b (rule_refs (rule_ref i_a i_b)) /\ defined ex_undefined i_b = false.
Proof. split; [left; reflexivity|]. split; [left; reflexivity | vm_compute; reflexivity]. Qed.

(* #a: #b   #b: #a *)
Definition ex_cyclic : lvsfile := [rule_ref i_a i_b; rule_ref i_b i_a].
Lemma ex_cyclic_hyp : src_walk ex_cyclic i_a i_a [i_b].
Proof.
  cbn. split.
  - exists (rule_ref i_a i_b). split; [left; reflexivity|]. split; [reflexivity|]. split; [reflexivity | left; reflexivity].
  - exists (rule_ref i_b i_a). split; [right; left; reflexivity|]. split; [reflexivity|]. split; [reflexivity | left; reflexivity].
Qed.

(* #a: /x & {y: "b"}      (y occurs in no name) *)
Definition ex_badcons_tc : tagcons := {| tc_pat := p_y; tc_opts := [OLit (gc 98)] |}.
Definition ex_badcons_rule : rule := {| r_id := i_a; r_name := [CPat p_x]; r_cons := [[ex_badcons_tc]]; r_sign := [] |}.
Definition ex_badcons : lvsfile := [ex_badcons_rule].
Lemma ex_badcons_hyp : In ex_badcons_rule ex_badcons /\ In [ex_badcons_tc] (r_cons ex_badcons_rule) /\ In ex_badcons_tc [ex_badcons_tc] /\
  LvsSem.cons_ok ex_badcons ex_badcons_rule ex_badcons_tc = false.
Proof. split; [left; reflexivity|]. split; [left; reflexivity|]. split; [left; reflexivity | vm_compute; reflexivity]. Qed.

(* #a: /x <= #b     (no #b) *)
Definition ex_badsigner_rule : rule := {| r_id := i_a; r_name := [CPat p_x]; r_cons := []; r_sign := [i_b] |}.
Definition ex_badsigner : lvsfile := [ex_badsigner_rule].
Lemma ex_badsigner_hyp : In ex_badsigner_rule ex_badsigner /\ In i_b (r_sign ex_badsigner_rule) /\ defined ex_badsigner i_b = false /\ ident_plain i_b.
Proof.
  split; [left; reflexivity|]. split; [left; reflexivity|]. split; [vm_compute; reflexivity|].
  unfold ident_plain, i_b. cbn. intros [H|[]]. discriminate.
Qed.

(* ---- signing cycles, and "accepted iff no static error" --------------------------------------------------------------------- *)
From NDN Require Import Proofs.LvsCompileIff Proofs.LvsSignGraph.

Lemma ex_sign_plain : sign_plain ex_schema.
Proof.
  intros d k Hd Hk. cbn in Hd. destruct Hd as [<-|[<-|[<-|[]]]]; cbn in Hk; try contradiction.
  destruct Hk as [<-|[]]. unfold ident_plain, i_key. cbn. intros [H|[H|[H|[]]]]; discriminate.
Qed.

(* #a: /"a" <= #b     #b: /"b" <= #a *)
Definition ex_signcycle : lvsfile :=
  [ {| r_id := i_a; r_name := [CLit (gc 97)]; r_cons := []; r_sign := [i_b] |};
    {| r_id := i_b; r_name := [CLit (gc 98)]; r_cons := []; r_sign := [i_a] |} ].
Definition ex_signcycle_model : lvsmodel :=
  match compile ex_signcycle with Ok m => m | Err _ => {| m_version := None; m_start := None; m_npc := None; m_nodes := []; m_symbols := [] |} end.
Lemma ex_signcycle_facts : static_ok ex_signcycle = true /\ schema_wf ex_signcycle = true /\ compile ex_signcycle = Ok ex_signcycle_model /\
  sanity_check (sanity_fuel ex_signcycle_model) ex_signcycle_model = Err ESemantic.
Proof. repeat split; vm_compute; reflexivity. Qed.

From NDN Require Import Proofs.LvsSignCycle.
Lemma ex_signcycle_walk : sign_walk ex_signcycle i_a i_a [i_b].
Proof.
  cbn. split.
  - eexists. split; [left; reflexivity|]. split; [reflexivity | left; reflexivity].
  - eexists. split; [right; left; reflexivity|]. split; [reflexivity | left; reflexivity].
Qed.
