(* Deleting a key removes its certificates and its private key; deleting an identity removes all its keys
   with theirs — and nothing else goes. *)
From NDN Require Import Base.Prelude Model.Keychain Spec.KeychainSpec.
From NDN Require Import Proofs.KeychainTables Proofs.KeychainHoare Proofs.KeychainInv Proofs.KeychainOutcome
  Proofs.KeychainOutcomeA Proofs.KeychainOutcomeB Proofs.KeychainInvariant Proofs.KeychainDefaults Proofs.KeychainAbs.
Local Open Scope N_scope.

(* key row k of state c: nothing of it is left in c' *)
Definition key_gone (c c' : cst) (k : row) : Prop :=
  ~ In (r_name k) (map r_name (t_keys (db c'))) /\
  al_get name_eqb (tpm c') (r_name k) = None /\
  forall ce, In ce (t_certs (db c)) -> r_par ce = r_id k -> ~ In ce (t_certs (db c')).

Lemma shrink_in l l' x : shrink l l' -> In x l' -> In x l.
Proof. intros [f ->] H. apply filter_In in H. tauto. Qed.

(* a key row that has vanished took everything beneath it along, by the invariant of the state after *)
Lemma key_gone_by_inv c c' k :
  inv c -> inv c' -> tables_shrink (db c) (db c') -> In k (t_keys (db c)) -> ~ In k (t_keys (db c')) -> key_gone c c' k.
Proof.
  intros I I' [_ [Sk Sc]] Hk Nk.
  assert (Nn : ~ In (r_name k) (map r_name (t_keys (db c')))).
  { intros H. apply in_map_iff in H. destruct H as [k' [En Hk']]. pose proof (shrink_in _ _ _ Sk Hk') as Hk'0.
    assert (k' = k) by (apply (name_inj (t_keys (db c))); [apply (wf_k _ (inv_wf _ I)) | assumption | assumption | assumption]).
    subst. contradiction. }
  repeat split; [assumption | |].
  - destruct (al_get name_eqb (tpm c') (r_name k)) as [m|] eqn:E; [|reflexivity].
    destruct (inv_sub _ I' _ _ E) as [k' [Hk' [En _]]]. exfalso. apply Nn. rewrite <- En. apply in_map. assumption.
  - intros ce Hce Pce Hce'. destruct (wf_cref _ (inv_wf _ I') _ Hce') as [k' [Hk' Ek']].
    pose proof (shrink_in _ _ _ Sk Hk') as Hk'0.
    assert (k' = k) by (apply (id_inj (t_keys (db c))); [apply (wf_k _ (inv_wf _ I)) | assumption | assumption | congruence]).
    subst. contradiction.
Qed.

Section Casc.
  Variable F : Prop.

  Lemma out_del_key_ok kn c r c' :
    out_del_key F kn c (Ok r, c') ->
    exists i k, kc_get (drop2 kn) (db c) = Ok i /\ id_get i kn (db c) = Ok k /\ r = RNone /\
                c' = mkC (del_key_db k kn (db c)) (del_key_db k kn (db c)) (al_del name_eqb (tpm c) kn) [].
  Proof.
    unfold out_del_key. destruct (kc_get (drop2 kn) (db c)) as [i|] eqn:Gi; [|discriminate].
    destruct (id_get i kn (db c)) as [k|] eqn:Gk; [|discriminate].
    intros [H | [[_ H] | [_ H]]]; inversion H; subst. exists i, k. repeat split; auto.
  Qed.

  Lemma del_ident_ok_gone n ks c r c' : del_ident_out F n ks c (Ok r, c') -> ~ In n (map r_name (t_ids (db c'))).
  Proof.
    intros H. remember (Ok r, c') as x eqn:Ex. revert r c' Ex.
    induction H as [c t' Ed | c HF | k ks c e c1 Hout | k ks c c1 x Hout Hrest IH]; intros r c' Ex; try discriminate.
    - inversion Ex; subst. inversion Ed; subst. cbn. intros Hin. apply in_map_iff in Hin. destruct Hin as [i [En Hi]].
      apply r_delete_name_in in Hi. tauto.
    - eapply IH; eassumption.
  Qed.

  (* nothing else goes: keys that are not in the list, certificates of keys that are not in the list *)
  Lemma del_ident_frame n ks c x :
    del_ident_out F n ks c x ->
    (forall k0, In k0 (t_keys (db c)) -> ~ In (r_name k0) ks -> In k0 (t_keys (db (snd x)))) /\
    (forall ce, In ce (t_certs (db c)) ->
                (forall k0, In k0 (t_keys (db c)) -> r_id k0 = r_par ce -> ~ In (r_name k0) ks) ->
                In ce (t_certs (db (snd x)))) /\
    (forall i0, In i0 (t_ids (db c)) -> r_name i0 <> n -> In i0 (t_ids (db (snd x)))).
  Proof.
    induction 1 as [c t' Ed | c HF | k ks c e c1 Hout | k ks c c1 x Hout Hrest IH].
    - inversion Ed; subst. cbn. repeat split; auto. intros i0 Hi0 Ni0. apply r_delete_name_in. auto.
    - cbn. auto.
    - cbn [snd]. assert (db c1 = db c) as ->.
      { unfold out_del_key in Hout. destruct (kc_get (drop2 k) (db c)) as [i|]; [|inversion Hout; reflexivity].
        destruct (id_get i k (db c)) as [k1|]; [|inversion Hout; reflexivity].
        destruct Hout as [H | [[_ H] | [_ H]]]; inversion H; reflexivity. }
      cbn. auto.
    - destruct (out_del_key_ok _ _ _ _ Hout) as [i [k1 [Gi [Gk [_ ->]]]]]. cbn in IH.
      destruct IH as [IHk [IHc IHi]]. unfold id_get in Gk. apply v_get_ok in Gk. destruct Gk as [Hk1 [Nk1 _]].
      repeat split.
      + intros k0 Hk0 Nin. apply IHk.
        * apply r_delete_name_in. split; [assumption|]. intros E. apply Nin. left. auto.
        * intros Hin. apply Nin. right. assumption.
      + intros ce Hce Hpar. apply IHc.
        * apply r_delete_scope_in. split; [assumption|]. intros E. apply (Hpar k1 Hk1 (eq_sym E)). left. auto.
        * intros k0 Hk0 Ek0 Hin. apply r_delete_name_in in Hk0. apply (Hpar k0 (proj1 Hk0) Ek0). right. assumption.
      + intros i0 Hi0 Ni0. apply IHi; assumption.
  Qed.
End Casc.

Theorem del_key_cascade f kn c r c' :
  inv c -> run_op f (ODelKey kn) c = (Ok r, c') ->
  exists k, In k (t_keys (db c)) /\ r_name k = kn /\ key_gone c c' k /\
            (* nothing else goes *)
            t_ids (db c') = t_ids (db c) /\
            (forall k0, In k0 (t_keys (db c)) -> r_name k0 <> kn -> In k0 (t_keys (db c'))) /\
            (forall ce, In ce (t_certs (db c)) -> r_par ce <> r_id k -> In ce (t_certs (db c'))) /\
            (forall K, K <> kn -> al_get name_eqb (tpm c') K = al_get name_eqb (tpm c) K).
Proof.
  intros I R. pose proof (run_op_outs f (ODelKey kn) c (inv_clean _ I) (inv_wf _ I)) as H. rewrite R in H. cbn [outs] in H.
  destruct (out_del_key_ok _ _ _ _ _ H) as [i [k [Gi [Gk [-> ->]]]]].
  unfold id_get in Gk. apply v_get_ok in Gk. destruct Gk as [Hk [Nk _]].
  exists k. repeat split; auto; cbn.
  - intros Hin. apply in_map_iff in Hin. destruct Hin as [k' [En Hk']]. apply r_delete_name_in in Hk'. destruct Hk'. congruence.
  - rewrite Nk. apply (al_get_del_same name_eqb name_eqb_eq). apply I.
  - intros ce Hce Pce Hin. apply r_delete_scope_in in Hin. tauto.
  - intros k0 Hk0 Nk0. apply r_delete_name_in. auto.
  - intros ce Hce Pce. apply r_delete_scope_in. auto.
  - intros K NE. apply (al_get_del_other name_eqb name_eqb_eq). assumption.
Qed.

Theorem del_identity_cascade f n c r c' :
  inv c -> run_op f (ODelIdentity n) c = (Ok r, c') ->
  exists i, In i (t_ids (db c)) /\ r_name i = n /\
            ~ In n (map r_name (t_ids (db c'))) /\
            (forall k, In k (t_keys (db c)) -> r_par k = r_id i -> key_gone c c' k) /\
            (* nothing else goes *)
            (forall i0, In i0 (t_ids (db c)) -> r_name i0 <> n -> In i0 (t_ids (db c'))) /\
            (forall k0, In k0 (t_keys (db c)) -> r_par k0 <> r_id i -> In k0 (t_keys (db c'))) /\
            (forall ce k0, In ce (t_certs (db c)) -> In k0 (t_keys (db c)) -> r_id k0 = r_par ce -> r_par k0 <> r_id i ->
                           In ce (t_certs (db c'))).
Proof.
  intros I R. pose proof (run_op_outs f (ODelIdentity n) c (inv_clean _ I) (inv_wf _ I)) as H.
  assert (I' : inv c').
  { pose proof (inv_step f (ODelIdentity n) c I Logic.I) as X. unfold step in X. cbn [fst snd] in X. rewrite R in X. exact X. }
  rewrite R in H. cbn [outs] in H. unfold out_del_identity in H.
  destruct (kc_get n (db c)) as [i|] eqn:G; [|discriminate]. pose proof (kc_get_ok _ _ _ G) as [Hi Ni].
  pose proof (del_ident_ok_gone _ _ _ _ _ _ H) as Gone.
  pose proof (shrink_del_ident _ _ _ _ _ H) as Sh. cbn [snd] in Sh.
  destruct (del_ident_frame _ _ _ _ _ H) as [Fk [Fc Fi]]. cbn [snd] in *.
  assert (Scope : forall k0, In k0 (t_keys (db c)) -> r_par k0 <> r_id i -> ~ In (r_name k0) (v_iter (r_id i) (t_keys (db c)))).
  { intros k0 Hk0 Pk0 Hin. apply v_iter_in in Hin. destruct Hin as [k1 [Hk1 [Nk1 Pk1]]].
    assert (k1 = k0) by (apply (name_inj (t_keys (db c))); [apply (wf_k _ (inv_wf _ I)) | assumption | assumption | assumption]).
    subst. contradiction. }
  exists i. split; [assumption|]. split; [assumption|]. split; [assumption|]. split; [|split; [assumption|split]].
  - intros k Hk Pk. apply key_gone_by_inv; auto.
    intros Hk'. destruct (wf_kref _ (inv_wf _ I') _ Hk') as [i' [Hi' Ei']].
    destruct Sh as [Si _]. pose proof (shrink_in _ _ _ Si Hi') as Hi'0.
    assert (i' = i) by (apply (id_inj (t_ids (db c))); [apply (wf_i _ (inv_wf _ I)) | assumption | assumption | congruence]).
    subst i'. apply Gone. rewrite <- Ni. apply in_map. assumption.
  - intros k0 Hk0 Pk0. apply Fk; [assumption|]. apply Scope; assumption.
  - intros ce k0 Hce Hk0 Ek0 Pk0. apply Fc; [assumption|]. intros k1 Hk1 Ek1.
    assert (k1 = k0) by (apply (id_inj (t_keys (db c))); [apply (wf_k _ (inv_wf _ I)) | assumption | assumption | congruence]).
    subst. apply Scope; assumption.
Qed.

(* in specification terms: the deleted key / identity is no longer found *)
Lemma s_key_none_of_unlisted c kn : ~ In kn (map r_name (t_keys (db c))) -> s_key (abs c) kn = None.
Proof.
  intros N. unfold abs. rewrite abs_s_key. destruct (kc_get (drop2 kn) (db c)) as [i|]; [|reflexivity].
  destruct (id_get i kn (db c)) as [k|] eqn:G; [|reflexivity]. unfold id_get in G. apply v_get_ok in G.
  exfalso. apply N. destruct G as [Hk [<- _]]. apply in_map. assumption.
Qed.
