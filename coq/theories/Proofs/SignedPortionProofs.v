(* C02: the bytes handed to the signer / hashed into the parameters digest are exactly the portions
   that the specification (Spec/SignedPortion.v) reads off the produced packet. *)
From NDN Require Import Base.Prelude Model.TlvVar Model.Name Model.Tlv Model.Packet Model.PacketEnc
  Spec.TlvWf Spec.SignedPortion Generated.Schemas
  Proofs.BytesLemmas Proofs.TlvVarProofs Proofs.NameWire Proofs.TlvSplit Proofs.TlvAssign Proofs.TlvRoundtrip
  Proofs.TlvRoundtrip2 Proofs.TlvMore Proofs.PacketRoundtrip.
Local Open Scope N_scope.
Set Default Timeout 900.

Arguments N.of_nat : simpl never.
Arguments N.to_nat : simpl never.

(* ---- scanning serialised elements ---------------------------------------------------------------- *)
Lemma next_element_ser e rest :
  el_ok e -> next_element (ser_elem e ++ rest) = Some (e_type e, ser_elem e, rest).
Proof.
  intros (Ht & Hl & Hl2). destruct e as [t dl p]. cbn [e_type e_dlen e_payload] in *. subst dl.
  unfold next_element, ser_elem, tlv. cbn [e_type e_payload]. rewrite <- !app_assoc.
  rewrite tl_dec_enc by exact Ht.
  rewrite skipn_app_exact' by (symmetry; apply tl_enc_length).
  rewrite tl_dec_enc by exact Hl2.
  rewrite !app_length, !tl_enc_length.
  replace (N.of_nat (tl_size t + (tl_size (N.of_nat (length p)) + (length p + length rest)) -
                     (tl_size t + tl_size (N.of_nat (length p)))) <? N.of_nat (length p)) with false by lia.
  rewrite Nat2N.id.
  set (n := (tl_size t + tl_size (N.of_nat (length p)) + length p)%nat).
  assert (Hn : length (tl_enc t ++ tl_enc (N.of_nat (length p)) ++ p) = n)
    by (rewrite !app_length, !tl_enc_length; unfold n; lia).
  replace (tl_enc t ++ tl_enc (N.of_nat (length p)) ++ p ++ rest)
    with ((tl_enc t ++ tl_enc (N.of_nat (length p)) ++ p) ++ rest) by (rewrite <- !app_assoc; reflexivity).
  rewrite firstn_app_exact', skipn_app_exact' by (symmetry; exact Hn). reflexivity.
Qed.

Lemma before_type_ser t els : forall fuel e0 rest,
  Forall (fun e => e_type e <> t /\ el_ok e) els -> el_ok e0 -> e_type e0 = t -> (length els < fuel)%nat ->
  before_type fuel t (ser_els els ++ ser_elem e0 ++ rest) = Some (ser_els els).
Proof.
  induction els as [|e els IH]; intros fuel e0 rest H H0 Ht Hf.
  - destruct fuel; [cbn in Hf; lia|]. cbn [ser_els map concat app before_type].
    rewrite next_element_ser by exact H0. rewrite Ht, N.eqb_refl. reflexivity.
  - inversion H as [|? ? (Hne & Hok) Hr]; subst. destruct fuel; [cbn in Hf; lia|].
    unfold ser_els. cbn [map concat]. rewrite <- app_assoc. cbn [before_type].
    rewrite next_element_ser by exact Hok.
    replace (e_type e =? e_type e0) with false by (symmetry; apply N.eqb_neq; exact Hne).
    fold (ser_els els). rewrite IH; [reflexivity|exact Hr|exact H0|reflexivity|cbn in Hf; lia].
Qed.

Lemma from_type_ser t els : forall fuel e0 rest,
  Forall (fun e => e_type e <> t /\ el_ok e) els -> el_ok e0 -> e_type e0 = t -> (length els < fuel)%nat ->
  from_type fuel t (ser_els els ++ ser_elem e0 ++ rest) = Some (ser_elem e0 ++ rest).
Proof.
  induction els as [|e els IH]; intros fuel e0 rest H H0 Ht Hf.
  - destruct fuel; [cbn in Hf; lia|]. cbn [ser_els map concat app from_type].
    rewrite next_element_ser by exact H0. rewrite Ht, N.eqb_refl. reflexivity.
  - inversion H as [|? ? (Hne & Hok) Hr]; subst. destruct fuel; [cbn in Hf; lia|].
    unfold ser_els. cbn [map concat]. rewrite <- app_assoc. cbn [from_type].
    rewrite next_element_ser by exact Hok.
    replace (e_type e =? e_type e0) with false by (symmetry; apply N.eqb_neq; exact Hne).
    fold (ser_els els). apply IH; [exact Hr|exact H0|reflexivity|cbn in Hf; lia].
Qed.

(* elements produced for a non-map field all carry the field's Type *)
Lemma good_types pv t k v els :
  good pv t k v els -> (forall a b c, k <> KMap a b c) -> Forall (fun e => e_type e = t /\ el_ok e) els.
Proof.
  intros H Hk. destruct H as [k|k v e _ _ (H1 & H2 & _)|ek l els _ HF|kk vt vk l prs _ _ _].
  - constructor.
  - constructor; [split; assumption|constructor].
  - induction HF as [|x e l els (H1 & H2 & _) _ IH]; constructor; [split; assumption|exact IH].
  - exfalso. eapply Hk. reflexivity.
Qed.

(* one field of a packet model, encoded by Type number: elements of that Type *)
Lemma enc_by_els fs t v w :
  wf_fields fs -> (forall k, kind_of fs t = Some k -> fits k v /\ forall a b c, k <> KMap a b c) ->
  enc_by fs t v = Ok w -> N.of_nat (length w) < two64 ->
  exists els, w = ser_els els /\ Forall (fun e => e_type e = t /\ el_ok e) els.
Proof.
  intros Hwf Hk He Hl. unfold enc_by in He. destruct (kind_of fs t) as [k|] eqn:Ek; [|discriminate].
  destruct (Hk k eq_refl) as [Hfit Hnm].
  assert (Hin : In (t, k) fs).
  { clear -Ek. induction fs as [|[t' k'] fs IH]; [discriminate|]. cbn [kind_of] in Ek.
    destruct (t' =? t) eqn:E; [apply N.eqb_eq in E; inversion Ek; subst; left; reflexivity|right; apply IH; exact Ek]. }
  inversion Hwf as [fs0 _ Hall]; subst.
  destruct (enc_good _ t k v w (Hall _ _ Hin) Hfit He Hl) as (els & -> & Hg).
  exists els. split; [reflexivity|]. eapply good_types; eassumption.
Qed.

Lemma name_encode_ser n : name_encode n = ser_elem (Elem TYPE_NAME (N.of_nat (length (concat n))) (concat n)).
Proof. unfold name_encode, ser_elem, tlv. cbn [e_type e_payload]. rewrite name_value_length_concat. reflexivity. Qed.

Lemma enc_bytes_ser fs t sv w :
  kind_of fs t = Some (KBytes false) -> t < two64 -> enc_by fs t (VBytes sv) = Ok w ->
  w = ser_elem (Elem t (N.of_nat (length sv)) sv).
Proof.
  intros Hk Ht He. unfold enc_by in He. rewrite Hk in He. unfold depth_of in He. cbn [enc_val] in He.
  rewrite tl_enc_r_ok in He by exact Ht. cbn [bind] in He. inversion He. reflexivity.
Qed.

Lemma Forall_types_ne t t' els :
  t <> t' -> Forall (fun e => e_type e = t /\ el_ok e) els -> Forall (fun e => e_type e <> t' /\ el_ok e) els.
Proof. intros Hne H. eapply Forall_impl; [|exact H]. intros e (E & Hok). split; [rewrite E; exact Hne|exact Hok]. Qed.

Section DataPortion.
Variable sign : bytes -> bytes.

(* C02 (Data): the signer is given exactly Name through SignatureInfo of the packet that is sent *)
Theorem data_sign_covers_spec d m s :
  make_data sign d = Ok m -> d_sig d = Some s ->
  N.of_nat (length (m_wire m)) < two64 ->
  fits (KModel ndn_format_0_3_MetaInfo false) (d_meta d) ->
  fits (KModel ndn_format_0_3_SignatureInfo true) (si_info s) ->
  exists body, m_wire m = tlv TYPE_DATA body /\ signed_portion_data body = Some (m_sig_covered m).
Proof.
  unfold make_data. intros H Es Hl Hfm Hfs. rewrite Es in H.
  remember (name_encode (d_name d)) as s_name eqn:En.
  destruct (enc_by _ T_META_INFO (d_meta d)) as [s_meta|] eqn:E1; [|discriminate]. cbn [bind] in H.
  destruct (enc_by _ T_CONTENT (vbytes (d_content d))) as [s_content|] eqn:E2; [|discriminate]. cbn [bind] in H.
  destruct (enc_by _ T_SIG_INFO (si_info s)) as [s_info|] eqn:E3; [|discriminate]. cbn [bind] in H.
  destruct (check_sig_len (si_reserved s) _) as [[]|]; [|discriminate]. cbn [bind] in H.
  destruct (enc_by _ T_SIG_VALUE _) as [s_sig|] eqn:E4; [|discriminate]. cbn [bind] in H.
  inversion H; subst m. clear H. cbn [m_wire m_sig_covered] in *.
  eexists. split; [reflexivity|].
  rewrite tlv_length, !app_length in Hl.
  pose proof (wf_fieldsb_spec _ wf_ndn_format_0_3_DataPacketValue) as Hwf.
  destruct (enc_by_els ndn_format_0_3_DataPacketValue T_META_INFO (d_meta d) s_meta Hwf ltac:(intros k Hk; vm_compute in Hk; inversion Hk; subst; split; [exact Hfm|discriminate]) E1 ltac:(lia))
    as (els1 & -> & F1).
  destruct (enc_by_els ndn_format_0_3_DataPacketValue T_CONTENT (vbytes (d_content d)) s_content Hwf
              ltac:(intros k Hk; vm_compute in Hk; inversion Hk; subst; split; [destruct (d_content d); constructor; discriminate|discriminate]) E2 ltac:(lia))
    as (els2 & -> & F2).
  destruct (enc_by_els ndn_format_0_3_DataPacketValue T_SIG_INFO (si_info s) s_info Hwf ltac:(intros k Hk; vm_compute in Hk; inversion Hk; subst; split; [exact Hfs|discriminate]) E3 ltac:(lia))
    as (els3 & -> & F3).
  apply enc_bytes_ser in E4; [|reflexivity|unfold T_SIG_VALUE, two64; lia]. subst s_sig.
  rewrite name_encode_ser in En. subst s_name.
  set (en := Elem TYPE_NAME _ _) in *. set (es := Elem T_SIG_VALUE _ _) in *.
  assert (Hen : el_ok en).
  { unfold en, el_ok. cbn [e_type e_dlen e_payload]. unfold ser_elem, en in Hl.
    cbn [e_type e_payload] in Hl. rewrite tlv_length in Hl. unfold TYPE_NAME, two64 in *. repeat split; lia. }
  assert (Hes : el_ok es).
  { unfold es, el_ok. cbn [e_type e_dlen e_payload]. unfold ser_elem, es in Hl. cbn [e_type e_payload] in Hl.
    rewrite (tlv_length T_SIG_VALUE) in Hl. unfold T_SIG_VALUE, two64 in *. repeat split; lia. }
  unfold signed_portion_data.
  replace (ser_elem en ++ ser_els els1 ++ ser_els els2 ++ ser_els els3 ++ ser_elem es)
    with (ser_els ([en] ++ els1 ++ els2 ++ els3) ++ ser_elem es ++ [])
    by (rewrite !ser_els_app, app_nil_r, <- !app_assoc; unfold ser_els at 1; cbn [map concat]; rewrite app_nil_r; reflexivity).
  replace (ser_elem en ++ ser_els els1 ++ ser_els els2 ++ ser_els els3)
    with (ser_els ([en] ++ els1 ++ els2 ++ els3))
    by (rewrite !ser_els_app; unfold ser_els at 1; cbn [map concat]; rewrite app_nil_r; reflexivity).
  assert (Hall : Forall (fun e => e_type e <> T_SIG_VALUE /\ el_ok e) ([en] ++ els1 ++ els2 ++ els3)).
  { apply Forall_app; split; [|apply Forall_app; split; [|apply Forall_app; split]].
    + constructor; [|constructor]. split; [unfold en; cbn; discriminate|exact Hen].
    + eapply Forall_types_ne; [|exact F1]. discriminate.
    + eapply Forall_types_ne; [|exact F2]. discriminate.
    + eapply Forall_types_ne; [|exact F3]. discriminate. }
  rewrite (before_type_ser T_SIG_VALUE); [|exact Hall|exact Hes|reflexivity|].
  - (* the portion starts at the Name, which is the first element *)
    cbn [app]. unfold ser_els. cbn [map concat]. fold (ser_els (els1 ++ els2 ++ els3)).
    cbn [from_type]. rewrite next_element_ser by exact Hen. reflexivity.
  - pose proof (ser_els_length_ge ([en] ++ els1 ++ els2 ++ els3)) as G.
    assert (Forall el_ok ([en] ++ els1 ++ els2 ++ els3))
      by (eapply Forall_impl; [|exact Hall]; intros e (_ & Hok); exact Hok).
    specialize (G H). rewrite !app_length in *. lia.
Qed.
End DataPortion.

