(* C02: the bytes handed to the signer / hashed into the parameters digest are exactly the portions
   that the specification (Spec/SignedPortion.v) reads off the produced packet. *)
From NDN Require Import Base.Prelude Model.TlvVar Model.Name Model.Tlv Model.Packet Model.PacketEnc
  Spec.TlvWf Spec.SignedPortion Generated.Schemas
  Proofs.BytesLemmas Proofs.TlvVarProofs Proofs.NameWire Proofs.TlvSplit Proofs.TlvAssign Proofs.TlvRoundtrip
  Proofs.TlvRoundtrip2 Proofs.TlvMore Proofs.PacketRoundtrip.
Local Open Scope N_scope.

Arguments N.of_nat : simpl never.
Arguments N.to_nat : simpl never.

(* ---- scanning serialised elements ---------------------------------------------------------------- *)
Lemma next_element_ser e rest :
  el_ok e -> next_element (ser_elem e ++ rest) = Some (e_type e, ser_elem e, rest).
Proof.
  intros (Ht & Hl & Hl2). destruct e as [t dl p]. cbn [e_type e_dlen e_payload] in *. subst dl.
  unfold next_element, ser_elem, tlv. cbn [e_type e_payload]. rewrite <- !app_assoc.
  rewrite tl_dec_enc by exact Ht.
  rewrite skipn_app_exact' by (symmetry; apply tl_enc_length).
  rewrite tl_dec_enc by exact Hl2.
  rewrite !app_length, !tl_enc_length.
  replace (N.of_nat (tl_size t + (tl_size (N.of_nat (length p)) + (length p + length rest)) -
                     (tl_size t + tl_size (N.of_nat (length p)))) <? N.of_nat (length p)) with false by lia.
  rewrite Nat2N.id.
  set (n := (tl_size t + tl_size (N.of_nat (length p)) + length p)%nat).
  assert (Hn : length (tl_enc t ++ tl_enc (N.of_nat (length p)) ++ p) = n)
    by (rewrite !app_length, !tl_enc_length; unfold n; lia).
  replace (tl_enc t ++ tl_enc (N.of_nat (length p)) ++ p ++ rest)
    with ((tl_enc t ++ tl_enc (N.of_nat (length p)) ++ p) ++ rest) by (rewrite <- !app_assoc; reflexivity).
  rewrite firstn_app_exact', skipn_app_exact' by (symmetry; exact Hn). reflexivity.
Qed.

Lemma before_type_ser t els : forall fuel e0 rest,
  Forall (fun e => e_type e <> t /\ el_ok e) els -> el_ok e0 -> e_type e0 = t -> (length els < fuel)%nat ->
  before_type fuel t (ser_els els ++ ser_elem e0 ++ rest) = Some (ser_els els).
Proof.
  induction els as [|e els IH]; intros fuel e0 rest H H0 Ht Hf.
  - destruct fuel; [cbn in Hf; lia|]. cbn [ser_els map concat app before_type].
    rewrite next_element_ser by exact H0. rewrite Ht, N.eqb_refl. reflexivity.
  - inversion H as [|? ? (Hne & Hok) Hr]; subst. destruct fuel; [cbn in Hf; lia|].
    unfold ser_els. cbn [map concat]. rewrite <- app_assoc. cbn [before_type].
    rewrite next_element_ser by exact Hok.
    replace (e_type e =? e_type e0) with false by (symmetry; apply N.eqb_neq; exact Hne).
    fold (ser_els els). rewrite IH; [reflexivity|exact Hr|exact H0|reflexivity|cbn in Hf; lia].
Qed.

Lemma from_type_ser t els : forall fuel e0 rest,
  Forall (fun e => e_type e <> t /\ el_ok e) els -> el_ok e0 -> e_type e0 = t -> (length els < fuel)%nat ->
  from_type fuel t (ser_els els ++ ser_elem e0 ++ rest) = Some (ser_elem e0 ++ rest).
Proof.
  induction els as [|e els IH]; intros fuel e0 rest H H0 Ht Hf.
  - destruct fuel; [cbn in Hf; lia|]. cbn [ser_els map concat app from_type].
    rewrite next_element_ser by exact H0. rewrite Ht, N.eqb_refl. reflexivity.
  - inversion H as [|? ? (Hne & Hok) Hr]; subst. destruct fuel; [cbn in Hf; lia|].
    unfold ser_els. cbn [map concat]. rewrite <- app_assoc. cbn [from_type].
    rewrite next_element_ser by exact Hok.
    replace (e_type e =? e_type e0) with false by (symmetry; apply N.eqb_neq; exact Hne).
    fold (ser_els els). apply IH; [exact Hr|exact H0|reflexivity|cbn in Hf; lia].
Qed.

(* elements produced for a non-map field all carry the field's Type *)
Lemma good_types pv t k v els :
  good pv t k v els -> (forall a b c, k <> KMap a b c) -> Forall (fun e => e_type e = t /\ el_ok e) els.
Proof.
  intros H Hk. destruct H as [k|k v e _ _ (H1 & H2 & _)|ek l els _ HF|kk vt vk l prs _ _ _].
  - constructor.
  - constructor; [split; assumption|constructor].
  - induction HF as [|x e l els (H1 & H2 & _) _ IH]; constructor; [split; assumption|exact IH].
  - exfalso. eapply Hk. reflexivity.
Qed.

(* one field of a packet model, encoded by Type number: elements of that Type *)
Lemma enc_by_els fs t v w :
  wf_fields fs -> (forall k, kind_of fs t = Some k -> fits k v /\ forall a b c, k <> KMap a b c) ->
  enc_by fs t v = Ok w -> N.of_nat (length w) < two64 ->
  exists els, w = ser_els els /\ Forall (fun e => e_type e = t /\ el_ok e) els.
Proof.
  intros Hwf Hk He Hl. unfold enc_by in He. destruct (kind_of fs t) as [k|] eqn:Ek; [|discriminate].
  destruct (Hk k eq_refl) as [Hfit Hnm].
  assert (Hin : In (t, k) fs).
  { clear -Ek. induction fs as [|[t' k'] fs IH]; [discriminate|]. cbn [kind_of] in Ek.
    destruct (t' =? t) eqn:E; [apply N.eqb_eq in E; inversion Ek; subst; left; reflexivity|right; apply IH; exact Ek]. }
  inversion Hwf as [fs0 _ Hall]; subst.
  destruct (enc_good _ t k v w (Hall _ _ Hin) Hfit He Hl) as (els & -> & Hg).
  exists els. split; [reflexivity|]. eapply good_types; eassumption.
Qed.

Lemma name_encode_ser n : name_encode n = ser_elem (Elem TYPE_NAME (N.of_nat (length (concat n))) (concat n)).
Proof. unfold name_encode, ser_elem, tlv. cbn [e_type e_payload]. rewrite name_value_length_concat. reflexivity. Qed.

Lemma enc_bytes_ser fs t sv w :
  kind_of fs t = Some (KBytes false) -> t < two64 -> enc_by fs t (VBytes sv) = Ok w ->
  w = ser_elem (Elem t (N.of_nat (length sv)) sv).
Proof.
  intros Hk Ht He. unfold enc_by in He. rewrite Hk in He. unfold depth_of in He. cbn [enc_val] in He.
  rewrite tl_enc_r_ok in He by exact Ht. cbn [bind] in He. inversion He. reflexivity.
Qed.

Lemma Forall_types_ne t t' els :
  t <> t' -> Forall (fun e => e_type e = t /\ el_ok e) els -> Forall (fun e => e_type e <> t' /\ el_ok e) els.
Proof. intros Hne H. eapply Forall_impl; [|exact H]. intros e (E & Hok). split; [rewrite E; exact Hne|exact Hok]. Qed.

Section DataPortion.
Variable sign : bytes -> bytes.

(* C02 (Data): the signer is given exactly Name through SignatureInfo of the packet that is sent *)
Theorem data_sign_covers_spec d m s :
  make_data sign d = Ok m -> d_sig d = Some s ->
  N.of_nat (length (m_wire m)) < two64 ->
  fits (KModel ndn_format_0_3_MetaInfo false) (d_meta d) ->
  fits (KModel ndn_format_0_3_SignatureInfo true) (si_info s) ->
  exists body, m_wire m = tlv TYPE_DATA body /\ signed_portion_data body = Some (m_sig_covered m).
Proof.
  unfold make_data. intros H Es Hl Hfm Hfs. rewrite Es in H.
  remember (name_encode (d_name d)) as s_name eqn:En.
  destruct (enc_by _ T_META_INFO (d_meta d)) as [s_meta|] eqn:E1; [|discriminate]. cbn [bind] in H.
  destruct (enc_by _ T_CONTENT (vbytes (d_content d))) as [s_content|] eqn:E2; [|discriminate]. cbn [bind] in H.
  destruct (enc_by _ T_SIG_INFO (si_info s)) as [s_info|] eqn:E3; [|discriminate]. cbn [bind] in H.
  destruct (check_sig_len (si_reserved s) _) as [[]|]; [|discriminate]. cbn [bind] in H.
  destruct (enc_by _ T_SIG_VALUE _) as [s_sig|] eqn:E4; [|discriminate]. cbn [bind] in H.
  inversion H; subst m. clear H. cbn [m_wire m_sig_covered] in *.
  eexists. split; [reflexivity|].
  rewrite tlv_length, !app_length in Hl.
  pose proof (wf_fieldsb_spec _ wf_ndn_format_0_3_DataPacketValue) as Hwf.
  destruct (enc_by_els ndn_format_0_3_DataPacketValue T_META_INFO (d_meta d) s_meta Hwf ltac:(intros k Hk; vm_compute in Hk; inversion Hk; subst; split; [exact Hfm|discriminate]) E1 ltac:(lia))
    as (els1 & -> & F1).
  destruct (enc_by_els ndn_format_0_3_DataPacketValue T_CONTENT (vbytes (d_content d)) s_content Hwf
              ltac:(intros k Hk; vm_compute in Hk; inversion Hk; subst; split; [destruct (d_content d); constructor; discriminate|discriminate]) E2 ltac:(lia))
    as (els2 & -> & F2).
  destruct (enc_by_els ndn_format_0_3_DataPacketValue T_SIG_INFO (si_info s) s_info Hwf ltac:(intros k Hk; vm_compute in Hk; inversion Hk; subst; split; [exact Hfs|discriminate]) E3 ltac:(lia))
    as (els3 & -> & F3).
  apply enc_bytes_ser in E4; [|reflexivity|unfold T_SIG_VALUE, two64; lia]. subst s_sig.
  rewrite name_encode_ser in En. subst s_name.
  set (en := Elem TYPE_NAME _ _) in *. set (es := Elem T_SIG_VALUE _ _) in *.
  assert (Hen : el_ok en).
  { unfold en, el_ok. cbn [e_type e_dlen e_payload]. unfold ser_elem, en in Hl.
    cbn [e_type e_payload] in Hl. rewrite tlv_length in Hl. unfold TYPE_NAME, two64 in *. repeat split; lia. }
  assert (Hes : el_ok es).
  { unfold es, el_ok. cbn [e_type e_dlen e_payload]. unfold ser_elem, es in Hl. cbn [e_type e_payload] in Hl.
    rewrite (tlv_length T_SIG_VALUE) in Hl. unfold T_SIG_VALUE, two64 in *. repeat split; lia. }
  unfold signed_portion_data.
  replace (ser_elem en ++ ser_els els1 ++ ser_els els2 ++ ser_els els3 ++ ser_elem es)
    with (ser_els ([en] ++ els1 ++ els2 ++ els3) ++ ser_elem es ++ [])
    by (rewrite !ser_els_app, app_nil_r, <- !app_assoc; unfold ser_els at 1; cbn [map concat]; rewrite app_nil_r; reflexivity).
  replace (ser_elem en ++ ser_els els1 ++ ser_els els2 ++ ser_els els3)
    with (ser_els ([en] ++ els1 ++ els2 ++ els3))
    by (rewrite !ser_els_app; unfold ser_els at 1; cbn [map concat]; rewrite app_nil_r; reflexivity).
  apply before_type_ser; [|exact Hes|reflexivity|].
  - repeat apply Forall_app; repeat split.
    + constructor; [|constructor]. split; [unfold en; cbn; discriminate|exact Hen].
    + eapply Forall_types_ne; [|exact F1]. discriminate.
    + eapply Forall_types_ne; [|exact F2]. discriminate.
    + eapply Forall_types_ne; [|exact F3]. discriminate.
  - pose proof (ser_els_length_ge ([en] ++ els1 ++ els2 ++ els3)) as G.
    assert (Forall el_ok ([en] ++ els1 ++ els2 ++ els3)).
    { repeat apply Forall_app; repeat split; [constructor; [exact Hen|constructor]| | |];
        (eapply Forall_impl; [|eassumption]; intros e (_ & Hok); exact Hok). }
    specialize (G H). rewrite !app_length in *. lia.
Qed.
End DataPortion.

(* ---- Interest ---------------------------------------------------------------------------------------- *)
Lemma comp_as_elem c : wf_comp64 c -> exists e, c = ser_elem e /\ el_ok e /\ comp_type c = e_type e.
Proof.
  intros (t & v & -> & Ht & Hv). exists (Elem t (N.of_nat (length v)) v). split; [reflexivity|]. split.
  - repeat split; assumption.
  - unfold comp_type, comp_enc. rewrite tl_dec_enc by exact Ht. reflexivity.
Qed.

Lemma components_concat n : forall fuel,
  Forall wf_comp64 n -> (length n < fuel)%nat -> components fuel (concat n) = Some n.
Proof.
  induction n as [|c n IH]; intros fuel H Hf.
  - destruct fuel; reflexivity.
  - inversion H as [|? ? Hc Hn]; subst. destruct (comp_as_elem c Hc) as (e & -> & Hok & _).
    destruct fuel as [|fuel]; [cbn in Hf; lia|]. cbn [concat].
    assert (Hne : ser_elem e ++ concat n <> []).
    { unfold ser_elem. pose proof (tlv_nonempty (e_type e) (e_payload e)). destruct (tlv _ _); [congruence|discriminate]. }
    cbn [components]. destruct (ser_elem e ++ concat n) as [|b0 w0] eqn:Ew; [congruence|]. rewrite <- Ew.
    rewrite next_element_ser by exact Hok. rewrite IH; [reflexivity|exact Hn|cbn in Hf; lia].
Qed.

Lemma value_of_type_first fuel e rest :
  el_ok e -> value_of_type (S fuel) (e_type e) (ser_elem e ++ rest) = Some (e_payload e).
Proof.
  intros Hok. cbn [value_of_type]. rewrite next_element_ser by exact Hok. rewrite N.eqb_refl.
  destruct Hok as (Ht & Hl & Hl2). unfold ser_elem, tlv.
  rewrite tl_dec_enc by exact Ht.
  rewrite skipn_app_exact' by (symmetry; apply tl_enc_length).
  rewrite <- Hl. rewrite tl_dec_enc by exact Hl2.
  rewrite app_assoc. rewrite skipn_app_exact' by (rewrite app_length, !tl_enc_length; reflexivity). reflexivity.
Qed.

(* what a successful scan of the name guarantees *)
Lemma scan_name_spec nd : forall n idx dp0 dp,
  scan_name nd idx dp0 n = Ok dp ->
  (match dp0 with
   | Some p0 => dp = Some p0 /\ Forall (fun c => comp_type c <> 2) n
   | None =>
       match dp with
       | None => Forall (fun c => comp_type c <> 2) n
       | Some p => nd = true /\ (idx <= p)%nat /\
                   exists a c b, n = a ++ c :: b /\ length a = (p - idx)%nat /\ comp_type c = 2 /\
                                 Forall (fun c => comp_type c <> 2) a /\ Forall (fun c => comp_type c <> 2) b
       end
   end).
Proof.
  induction n as [|c n IH]; intros idx dp0 dp H.
  - cbn in H. inversion H; subst. destruct dp; [split; [reflexivity|constructor]|constructor].
  - cbn [scan_name] in H. unfold comp_get_type in H.
    destruct (tl_dec c) as [[t sz]|] eqn:Et; [|discriminate]. cbn [bind fst] in H.
    assert (Ect : comp_type c = t) by (unfold comp_type; rewrite Et; reflexivity).
    destruct (t =? 0); [discriminate|].
    destruct (t =? TYPE_PARAMETERS_SHA256) eqn:E2.
    + apply N.eqb_eq in E2. unfold TYPE_PARAMETERS_SHA256 in E2.
      destruct nd; [|discriminate]. destruct dp0 as [p0|]; [discriminate|].
      destruct (negb _ || negb _); [discriminate|].
      specialize (IH _ _ _ H). cbn in IH. destruct IH as [-> Hall].
      split; [reflexivity|]. split; [lia|]. exists [], c, n. rewrite Nat.sub_diag.
      repeat split; try reflexivity; try assumption; [congruence|constructor].
    + apply N.eqb_neq in E2. unfold TYPE_PARAMETERS_SHA256 in E2.
      specialize (IH _ _ _ H). destruct dp0 as [p0|].
      * destruct IH as [-> Hall]. split; [reflexivity|]. constructor; [congruence|exact Hall].
      * destruct dp as [p|].
        -- destruct IH as (Hnd & Hle & a & c' & b & -> & Hla & Hc' & Ha & Hb).
           split; [exact Hnd|]. split; [lia|]. exists (c :: a), c', b. cbn [app length].
           repeat split; try assumption; [lia|constructor; [congruence|exact Ha]].
        -- constructor; [congruence|exact IH].
Qed.

Lemma filter_all {A} (f : A -> bool) l : Forall (fun x => f x = true) l -> filter f l = l.
Proof. induction 1 as [|x l Hx _ IH]; cbn; [reflexivity|]. rewrite Hx, IH. reflexivity. Qed.

Lemma ne2_filter l : Forall (fun c => comp_type c <> 2) l -> filter (fun c => negb (comp_type c =? 2)) l = l.
Proof.
  intros H. apply filter_all. eapply Forall_impl; [|exact H]. intros c Hc. cbn beta.
  apply negb_true_iff, N.eqb_neq. exact Hc.
Qed.

Lemma filter_none l : Forall (fun c => comp_type c <> 2) l -> filter (fun c => comp_type c =? 2) l = [].
Proof.
  induction 1 as [|x l Hx _ IH]; cbn [filter]; [reflexivity|].
  replace (comp_type x =? 2) with false by (symmetry; apply N.eqb_neq; exact Hx). exact IH.
Qed.

Lemma remove_nth_app {A} (a : list A) c b : remove_nth (a ++ c :: b) (length a) = a ++ b.
Proof. induction a as [|x a IH]; cbn [app length remove_nth]; [reflexivity|]. rewrite IH. reflexivity. Qed.
Lemma set_nth_app {A} (a : list A) c b x : set_nth (a ++ c :: b) (length a) x = a ++ x :: b.
Proof. induction a as [|y a IH]; cbn [app length set_nth]; [reflexivity|]. rewrite IH. reflexivity. Qed.

Lemma digest_comp_wf d : length d = 32%nat -> wf_comp64 (digest_comp d) /\ comp_type (digest_comp d) = 2.
Proof.
  intros Hd. assert (E : digest_comp d = comp_enc 2 d).
  { unfold digest_comp, comp_enc, TYPE_PARAMETERS_SHA256. rewrite Hd. reflexivity. }
  split.
  - exists 2, d. split; [exact E|]. rewrite Hd. unfold two64. split; [lia|]. cbn. lia.
  - rewrite E. unfold comp_type, comp_enc. rewrite tl_dec_enc by (unfold two64; lia). reflexivity.
Qed.

Lemma enc_uint_fits d t fx n w : enc_val (S d) t (KUint fx) (VUint n) = Ok w -> fits (KUint fx) (VUint n).
Proof.
  cbn [enc_val]. destruct (fixed_width fx n) as [wd|] eqn:E; [|discriminate]. cbn [bind].
  destruct (256 ^ N.of_nat wd <=? n) eqn:E2; [discriminate|]. intros _. econstructor; [exact E|lia].
Qed.

Lemma vuint_fits fs t k o w :
  kind_of fs t = Some k -> (exists fx, k = KUint fx) -> enc_by fs t (vuint o) = Ok w -> fits k (vuint o).
Proof.
  intros Hk (fx & ->) He. destruct o as [n|]; [|constructor]. unfold enc_by in He. rewrite Hk in He.
  unfold depth_of in He. eapply enc_uint_fits. exact He.
Qed.

Section InterestPortion.
Variable sha : bytes -> bytes.
Variable sign : bytes -> bytes.
Hypothesis sha_len : forall x, length (sha x) = 32%nat.

Definition hint_value (h : list (list bytes)) : value :=
  match h with [] => VNone | l => VModel [VList (map VName l)] end.

(* C02 (Interest): signed portion, digest portion and digest component of the packet that is sent *)
Theorem interest_sign_covers_spec i m s :
  make_interest sha sign i = Ok m -> i_sig i = Some s ->
  N.of_nat (length (m_wire m)) < two64 ->
  Forall wf_comp64 (i_name i) ->
  fits (KModel [(7, KRepeated KName)] false) (hint_value (i_hint i)) ->
  fits (KModel ndn_format_0_3_SignatureInfo false) (si_info s) ->
  exists body,
    m_wire m = tlv TYPE_INTEREST body /\
    signed_portion_interest body = Some (m_sig_covered m) /\
    digest_portion body = Some (m_digest_covered m) /\
    digest_component body = Some (sha (m_digest_covered m)).
Proof.
  intros H Es Hl Hn Hfh Hfs. unfold make_interest in H. rewrite Es in H.
  set (app := match i_app i with Some a => Some a | None => Some [] end) in *.
  assert (Happ : exists a, app = Some a) by (unfold app; destruct (i_app i); eauto). destruct Happ as (a & Ea).
  replace (match Some s with Some _ => match i_app i with Some a0 => Some a0 | None => Some [] end | None => i_app i end)
    with app in H by reflexivity.
  rewrite Ea in H. cbn [vbytes] in H.
  destruct (scan_name true 0 None (i_name i)) as [dp|] eqn:Escan; [|discriminate]. cbn [bind] in H.
  remember (hint_value (i_hint i)) as hv eqn:Ehv.
  replace (match i_hint i with [] => VNone | _ :: _ => VModel [VList (map VName (i_hint i))] end) with hv in H
    by (subst hv; unfold hint_value; destruct (i_hint i); reflexivity).
  destruct (enc_by _ T_CAN_BE_PREFIX _) as [s1|] eqn:E1; [|discriminate]. cbn [bind] in H.
  destruct (enc_by _ T_MUST_BE_FRESH _) as [s2|] eqn:E2; [|discriminate]. cbn [bind] in H.
  destruct (enc_by _ T_FORWARDING_HINT _) as [s3|] eqn:E3; [|discriminate]. cbn [bind] in H.
  destruct (enc_by _ T_NONCE _) as [s4|] eqn:E4; [|discriminate]. cbn [bind] in H.
  destruct (enc_by _ T_LIFETIME _) as [s5|] eqn:E5; [|discriminate]. cbn [bind] in H.
  destruct (enc_by _ T_HOP_LIMIT _) as [s6|] eqn:E6; [|discriminate]. cbn [bind] in H.
  destruct (enc_by _ T_APP_PARAM _) as [s7|] eqn:E7; [|discriminate]. cbn [bind] in H.
  destruct (enc_by _ T_ISIG_INFO _) as [s8|] eqn:E8; [|discriminate]. cbn [bind] in H.
  destruct (check_sig_len (si_reserved s) _) as [[]|]; [|discriminate]. cbn [bind] in H.
  destruct (enc_by _ T_ISIG_VALUE _) as [s9|] eqn:E9; [|discriminate]. cbn [bind] in H.
  set (nnd := match dp with Some p => remove_nth (i_name i) p | None => i_name i end) in *.
  set (dcov := s7 ++ s8 ++ s9) in *.
  set (fname := match dp with Some p => set_nth (i_name i) p (digest_comp (sha dcov))
                            | None => i_name i ++ [digest_comp (sha dcov)] end) in *.
  remember (name_encode fname) as s_name eqn:En.
  inversion H; subst m. clear H. cbn [m_wire m_sig_covered m_digest_covered m_final_name] in *.
  eexists. split; [reflexivity|].
  rewrite tlv_length, !app_length in Hl.
  pose proof (wf_fieldsb_spec _ wf_ndn_format_0_3_InterestPacketValue) as Hwf.
  (* element lists of the segments *)
  destruct (enc_by_els ndn_format_0_3_InterestPacketValue T_CAN_BE_PREFIX (vbool (i_cbp i)) s1 Hwf
              ltac:(intros k Hk; vm_compute in Hk; inversion Hk; subst; split; [destruct (i_cbp i); constructor|discriminate]) E1 ltac:(lia))
    as (l1 & -> & F1).
  destruct (enc_by_els ndn_format_0_3_InterestPacketValue T_MUST_BE_FRESH (vbool (i_mbf i)) s2 Hwf
              ltac:(intros k Hk; vm_compute in Hk; inversion Hk; subst; split; [destruct (i_mbf i); constructor|discriminate]) E2 ltac:(lia))
    as (l2 & -> & F2).
  destruct (enc_by_els ndn_format_0_3_InterestPacketValue T_FORWARDING_HINT hv s3 Hwf
              ltac:(intros k Hk; vm_compute in Hk; inversion Hk; subst; split; [exact Hfh|discriminate]) E3 ltac:(lia))
    as (l3 & -> & F3).
  destruct (enc_by_els ndn_format_0_3_InterestPacketValue T_NONCE (vuint (i_nonce i)) s4 Hwf
              ltac:(intros k Hk; split; [eapply vuint_fits; [exact Hk| |exact E4]; vm_compute in Hk; inversion Hk; eauto
                                        |vm_compute in Hk; inversion Hk; discriminate]) E4 ltac:(lia))
    as (l4 & -> & F4).
  destruct (enc_by_els ndn_format_0_3_InterestPacketValue T_LIFETIME (vuint (i_life i)) s5 Hwf
              ltac:(intros k Hk; split; [eapply vuint_fits; [exact Hk| |exact E5]; vm_compute in Hk; inversion Hk; eauto
                                        |vm_compute in Hk; inversion Hk; discriminate]) E5 ltac:(lia))
    as (l5 & -> & F5).
  destruct (enc_by_els ndn_format_0_3_InterestPacketValue T_HOP_LIMIT (vuint (i_hop i)) s6 Hwf
              ltac:(intros k Hk; split; [eapply vuint_fits; [exact Hk| |exact E6]; vm_compute in Hk; inversion Hk; eauto
                                        |vm_compute in Hk; inversion Hk; discriminate]) E6 ltac:(lia))
    as (l6 & -> & F6).
  destruct (enc_by_els ndn_format_0_3_InterestPacketValue T_ISIG_INFO (si_info s) s8 Hwf
              ltac:(intros k Hk; vm_compute in Hk; inversion Hk; subst; split; [exact Hfs|discriminate]) E8 ltac:(lia))
    as (l8 & -> & F8).
  apply enc_bytes_ser in E7; [|reflexivity|unfold T_APP_PARAM, two64; lia]. subst s7.
  apply enc_bytes_ser in E9; [|reflexivity|unfold T_ISIG_VALUE, two64; lia]. subst s9.
  set (e7 := Elem T_APP_PARAM _ a) in *. set (e9 := Elem T_ISIG_VALUE _ _) in *.
  rewrite name_encode_ser in En. subst s_name.
  set (en := Elem TYPE_NAME _ (concat fname)) in *.
  assert (Hen : el_ok en).
  { unfold en, el_ok. cbn [e_type e_dlen e_payload]. unfold ser_elem, en in Hl. cbn [e_type e_payload] in Hl.
    rewrite tlv_length in Hl. unfold TYPE_NAME, two64 in *. repeat split; lia. }
  assert (He7 : el_ok e7).
  { unfold e7, el_ok. cbn [e_type e_dlen e_payload]. unfold ser_elem, e7 in Hl. cbn [e_type e_payload] in Hl.
    rewrite (tlv_length T_APP_PARAM) in Hl. unfold T_APP_PARAM, two64 in *. repeat split; lia. }
  assert (He9 : el_ok e9).
  { unfold e9, el_ok. cbn [e_type e_dlen e_payload]. unfold ser_elem, e9 in Hl. cbn [e_type e_payload] in Hl.
    rewrite (tlv_length T_ISIG_VALUE) in Hl. unfold T_ISIG_VALUE, two64 in *. repeat split; lia. }
  (* facts about the name *)
  pose proof (scan_name_spec true _ _ _ _ Escan) as Hscan. cbn beta iota in Hscan.
  destruct (digest_comp_wf (sha dcov) (sha_len dcov)) as [Hdw Hdt].
  assert (Hfn : Forall wf_comp64 fname /\ filter (fun c => negb (comp_type c =? 2)) fname = nnd /\
                filter (fun c => comp_type c =? 2) fname = [digest_comp (sha dcov)]).
  { unfold fname, nnd. destruct dp as [p|].
    - destruct Hscan as (_ & _ & pa & c & pb & En' & Hla & Hc & Ha & Hb). rewrite Nat.sub_0_r in Hla. subst p.
      rewrite En' in *. rewrite set_nth_app, remove_nth_app.
      apply Forall_app in Hn. destruct Hn as [Hna Hnb]. inversion Hnb; subst.
      split; [apply Forall_app; split; [exact Hna|constructor; assumption]|].
      rewrite !filter_app. cbn [filter]. rewrite Hdt. cbn [N.eqb Pos.eqb negb].
      rewrite !ne2_filter by assumption. split; [reflexivity|].
      rewrite !(filter_none) by assumption. reflexivity.
    - split; [apply Forall_app; split; [exact Hn|constructor; [exact Hdw|constructor]]|].
      rewrite !filter_app. cbn [filter]. rewrite Hdt. cbn [N.eqb Pos.eqb negb].
      rewrite ne2_filter by exact Hscan. rewrite app_nil_r. split; [reflexivity|].
      rewrite filter_none by exact Hscan. reflexivity. }
  destruct Hfn as (Hfw & Hfilt & Hfd).
  set (pre_els := [en] ++ l1 ++ l2 ++ l3 ++ l4 ++ l5 ++ l6) in *.
  assert (Hpre : Forall (fun e => e_type e <> T_APP_PARAM /\ e_type e <> T_ISIG_VALUE /\ el_ok e) pre_els).
  { unfold pre_els. repeat apply Forall_app; repeat split;
      [constructor; [repeat split; [discriminate|discriminate|exact Hen]|constructor]| | | | | |];
      (eapply Forall_impl; [|eassumption]; intros e (Et & Hok); rewrite Et; repeat split; [discriminate|discriminate|exact Hok]). }
  assert (Hbody : ser_elem en ++ ser_els l1 ++ ser_els l2 ++ ser_els l3 ++ ser_els l4 ++ ser_els l5 ++ ser_els l6 ++
                  ser_elem e7 ++ ser_els l8 ++ ser_elem e9
                  = ser_els (pre_els ++ [e7] ++ l8) ++ ser_elem e9 ++ []).
  { unfold pre_els. rewrite !ser_els_app, app_nil_r, <- !app_assoc.
    unfold ser_els at 1 8. cbn [map concat]. rewrite !app_nil_r, <- !app_assoc. reflexivity. }
  rewrite Hbody.
  assert (Hall46 : Forall (fun e => e_type e <> T_ISIG_VALUE /\ el_ok e) (pre_els ++ [e7] ++ l8)).
  { repeat apply Forall_app; repeat split.
    - eapply Forall_impl; [|exact Hpre]. intros e (_ & A & B). split; assumption.
    - constructor; [split; [discriminate|exact He7]|constructor].
    - eapply Forall_types_ne; [|exact F8]. discriminate. }
  assert (Hlen : (length (pre_els ++ [e7] ++ l8) < S (length (ser_els (pre_els ++ [e7] ++ l8) ++ ser_elem e9 ++ [])))%nat).
  { pose proof (ser_els_length_ge (pre_els ++ [e7] ++ l8)) as G.
    assert (Forall el_ok (pre_els ++ [e7] ++ l8)) by (eapply Forall_impl; [|exact Hall46]; intros e (_ & Hok); exact Hok).
    specialize (G H). rewrite app_length. lia. }
  repeat split.
  - (* signed portion *)
    unfold signed_portion_interest.
    replace (ser_els (pre_els ++ [e7] ++ l8) ++ ser_elem e9 ++ [])
      with (ser_elem en ++ (ser_els (l1 ++ l2 ++ l3 ++ l4 ++ l5 ++ l6 ++ [e7] ++ l8) ++ ser_elem e9 ++ [])) at 1
      by (unfold pre_els; rewrite !ser_els_app, <- !app_assoc; unfold ser_els at 1; cbn [map concat]; rewrite app_nil_r; reflexivity).
    change T_NAME with (e_type en). rewrite value_of_type_first by exact Hen. cbn [e_payload en].
    rewrite components_concat; [|exact Hfw|lia]. rewrite Hfilt.
    rewrite before_type_ser; [|exact Hall46|exact He9|reflexivity|exact Hlen].
    replace (ser_els (pre_els ++ [e7] ++ l8)) with (ser_els pre_els ++ ser_elem e7 ++ ser_els l8)
      by (rewrite !ser_els_app; unfold ser_els at 3; cbn [map concat]; rewrite app_nil_r; reflexivity).
    rewrite from_type_ser; [| |exact He7|reflexivity|].
    + cbn [option_map]. unfold dcov. reflexivity.
    + eapply Forall_impl; [|exact Hpre]. intros e (A & _ & B). split; assumption.
    + pose proof (ser_els_length_ge pre_els) as G.
      assert (Forall el_ok pre_els) by (eapply Forall_impl; [|exact Hpre]; intros e (_ & _ & Hok); exact Hok).
      specialize (G H). rewrite !app_length. lia.
  - (* digest portion *)
    unfold digest_portion.
    replace (ser_els (pre_els ++ [e7] ++ l8) ++ ser_elem e9 ++ [])
      with (ser_els pre_els ++ ser_elem e7 ++ (ser_els l8 ++ ser_elem e9))
      by (rewrite !ser_els_app, app_nil_r, <- !app_assoc; unfold ser_els at 2; cbn [map concat]; rewrite app_nil_r; reflexivity).
    rewrite from_type_ser; [| |exact He7|reflexivity|].
    + unfold dcov. rewrite <- !app_assoc. reflexivity.
    + eapply Forall_impl; [|exact Hpre]. intros e (A & _ & B). split; assumption.
    + pose proof (ser_els_length_ge pre_els) as G.
      assert (Forall el_ok pre_els) by (eapply Forall_impl; [|exact Hpre]; intros e (_ & _ & Hok); exact Hok).
      specialize (G H). rewrite !app_length. lia.
  - (* digest component *)
    unfold digest_component.
    replace (ser_els (pre_els ++ [e7] ++ l8) ++ ser_elem e9 ++ [])
      with (ser_elem en ++ (ser_els (l1 ++ l2 ++ l3 ++ l4 ++ l5 ++ l6 ++ [e7] ++ l8) ++ ser_elem e9 ++ []))
      by (unfold pre_els; rewrite !ser_els_app, <- !app_assoc; unfold ser_els at 1; cbn [map concat]; rewrite app_nil_r; reflexivity).
    change T_NAME with (e_type en). rewrite value_of_type_first by exact Hen. cbn [e_payload en].
    rewrite components_concat; [|exact Hfw|lia]. rewrite Hfd.
    unfold digest_comp, TYPE_PARAMETERS_SHA256. cbn [app tl_dec N.leb N.compare Pos.compare Pos.compare_cont bind skipn Nat.add].
    reflexivity.
Qed.
End InterestPortion.
