(* The string RuleChain.pattern_movement uses as merging key determines the edge it stands for:
   equal keys mean equal encoded constraints and, for named patterns, equal tag numbers
   ([keys_faithful] of Proofs/LvsGenTree.v), provided literal components are byte strings and user
   function identifiers look like "$name" (no '(' ',' '}' inside) - which is all the lexer produces. *)
From NDN Require Import Base.Prelude Base.Text Model.TlvVar Model.Name Model.LvsAst Model.LvsChecker Model.LvsCompiler
  Spec.LvsChains Proofs.TextProofs Proofs.LvsGenTree.
Local Open Scope N_scope.

(* ---- splitting strings -------------------------------------------------------------------------- *)
Lemma split_first (sep : N) : forall x x' r r',
  ~ In sep x -> ~ In sep x' -> x ++ sep :: r = x' ++ sep :: r' -> x = x' /\ r = r'.
Proof.
  induction x as [|a x IH]; intros [|a' x'] r r' H1 H2 E; cbn in *.
  - inversion E; auto.
  - inversion E; subst. exfalso. apply H2. left; reflexivity.
  - inversion E; subst. exfalso. apply H1. left; reflexivity.
  - inversion E; subst. destruct (IH x' r r') as [-> ->]; auto.
Qed.

Definition starts_outside (C : N -> bool) (r : str) : Prop :=
  match r with [] => True | h :: _ => C h = false end.

Lemma split_class (C : N -> bool) : forall x x' r r',
  forallb C x = true -> forallb C x' = true -> starts_outside C r -> starts_outside C r' ->
  x ++ r = x' ++ r' -> x = x' /\ r = r'.
Proof.
  induction x as [|a x IH]; intros [|a' x'] r r' H1 H2 S1 S2 E; cbn in *.
  - auto.
  - subst r. cbn in S1. apply andb_true_iff in H2. destruct H2 as [H2 _]. congruence.
  - subst r'. cbn in S2. apply andb_true_iff in H1. destruct H1 as [H1 _]. congruence.
  - inversion E; subst. apply andb_true_iff in H1, H2. destruct H1 as [_ H1], H2 as [_ H2].
    destruct (IH x' r r') as [-> ->]; auto.
Qed.

(* ---- decimal and hexadecimal digits ------------------------------------------------------------------ *)
Definition hexc (c : N) : bool := is_digit c || ((97 <=? c) && (c <=? 102)).

Lemma dec_print_digits n : forallb is_digit (dec_print n) = true.
Proof. apply dec_print_spec. Qed.
Lemma dec_print_nonempty n : dec_print n <> [].
Proof. apply dec_print_spec. Qed.
Lemma dec_print_inj a b : dec_print a = dec_print b -> a = b.
Proof.
  intros E. destruct (dec_print_spec a) as (_ & _ & Ha), (dec_print_spec b) as (_ & _ & Hb). congruence.
Qed.

Lemma forallb_impl {A} (P Q : A -> bool) l : (forall x, P x = true -> Q x = true) -> forallb P l = true -> forallb Q l = true.
Proof. intros H. induction l; cbn; [auto|]. rewrite !andb_true_iff. intros [H1 H2]; auto. Qed.

Lemma dec_print_hexc n : forallb hexc (dec_print n) = true.
Proof. eapply forallb_impl; [|apply dec_print_digits]. intros x H. unfold hexc. rewrite H. reflexivity. Qed.

Lemma hexdigit_lower_hexc v : v < 16 -> hexc (hexdigit_lower v) = true.
Proof. intros H. unfold hexdigit_lower, hexc, is_digit. destruct (N.ltb_spec v 10); lia. Qed.

Lemma hex_print_hexc b : wf_bytes b -> forallb hexc (hex_print b) = true.
Proof.
  induction 1 as [|x b Hx _ IH]; [reflexivity|]. cbn [hex_print forallb].
  rewrite !hexdigit_lower_hexc, IH; [reflexivity | | ].
  - apply N.mod_lt. lia.
  - apply N.div_lt_upper_bound; lia.
Qed.

Lemma hex_print_inj a b : wf_bytes a -> wf_bytes b -> hex_print a = hex_print b -> a = b.
Proof.
  intros Ha Hb E. pose proof (hex_parse_print a Ha) as Pa. pose proof (hex_parse_print b Hb) as Pb. congruence.
Qed.

Lemma not_in_class (C : N -> bool) k l : C k = false -> forallb C l = true -> ~ In k l.
Proof.
  intros Hk Hl Hin. rewrite forallb_forall in Hl. apply Hl in Hin. congruence.
Qed.

(* ---- well-formedness of what goes into keys -------------------------------------------------------------- *)
Lemma wf_bytesb_spec l : wf_bytesb l = true -> wf_bytes l.
Proof.
  unfold wf_bytesb, wf_bytes, wf_byte. intros H. apply Forall_forall. intros x Hx.
  rewrite forallb_forall in H. apply H in Hx. lia.
Qed.

Lemma fid_ok_spec f : fid_ok f = true -> exists r, f = 36 :: r /\ ~ In 40 f /\ ~ In 44 f /\ ~ In 125 f.
Proof.
  unfold fid_ok. destruct f as [|c r]; [discriminate|].
  destruct (N.eq_dec c 36) as [->|Hne].
  - intros H. exists r. split; [reflexivity|]. rewrite forallb_forall in H.
    repeat split; intros Hin; apply H in Hin; cbn in Hin; discriminate.
  - destruct c as [|p]; [discriminate|]. repeat (destruct p as [p|p|]; try discriminate). congruence.
Qed.

(* ---- arguments: "v=" hex | "t=" dec, concatenated without separator --------------------------------------- *)
Definition arg_str (a : narg) : str := snd (enc_arg a).

Lemma arg_str_shape a : arg_ok a = true ->
  exists h body, arg_str a = h :: 61 :: body /\ (h = 118 \/ h = 116) /\ forallb hexc body = true.
Proof.
  destruct a as [c|t]; cbn; intros H.
  - exists 118, (hex_print c). repeat split; auto. apply hex_print_hexc, wf_bytesb_spec, H.
  - exists 116, (dec_print t). repeat split; auto. apply dec_print_hexc.
Qed.

Lemma args_starts l : forallb arg_ok l = true -> starts_outside hexc (concat (map arg_str l)).
Proof.
  destruct l as [|a l]; cbn; [auto|]. rewrite andb_true_iff. intros [Ha _].
  destruct (arg_str_shape a Ha) as (h & body & E & Hh & _). rewrite E. cbn. destruct Hh as [-> | ->]; reflexivity.
Qed.

Lemma args_inj : forall l1 l2, forallb arg_ok l1 = true -> forallb arg_ok l2 = true ->
  concat (map arg_str l1) = concat (map arg_str l2) -> map (fun a => fst (enc_arg a)) l1 = map (fun a => fst (enc_arg a)) l2.
Proof.
  induction l1 as [|a1 l1 IH]; intros [|a2 l2] H1 H2 E; cbn in *.
  - reflexivity.
  - apply andb_true_iff in H2. destruct H2 as [H2 _]. destruct (arg_str_shape a2 H2) as (h & b & Es & _). rewrite Es in E. discriminate.
  - apply andb_true_iff in H1. destruct H1 as [H1 _]. destruct (arg_str_shape a1 H1) as (h & b & Es & _). rewrite Es in E. discriminate.
  - apply andb_true_iff in H1, H2. destruct H1 as [Ha1 Hl1], H2 as [Ha2 Hl2].
    assert (Hsplit : fst (enc_arg a1) = fst (enc_arg a2) /\ concat (map arg_str l1) = concat (map arg_str l2)).
    { destruct a1 as [c1|t1], a2 as [c2|t2]; unfold arg_str in E; cbn [enc_arg snd app] in E; inversion E as [E'].
      - assert (Hs : hex_print c1 = hex_print c2 /\ concat (map arg_str l1) = concat (map arg_str l2)).
        { apply (split_class hexc); auto.
          - apply hex_print_hexc, wf_bytesb_spec, Ha1.
          - apply hex_print_hexc, wf_bytesb_spec, Ha2.
          - apply args_starts, Hl1.
          - apply args_starts, Hl2. }
        destruct Hs as [Eh Er].
        apply hex_print_inj in Eh; [|apply wf_bytesb_spec, Ha1 | apply wf_bytesb_spec, Ha2]. subst. auto.
      - assert (Hs : dec_print t1 = dec_print t2 /\ concat (map arg_str l1) = concat (map arg_str l2)).
        { apply (split_class hexc); auto.
          - apply dec_print_hexc.
          - apply dec_print_hexc.
          - apply args_starts, Hl1.
          - apply args_starts, Hl2. }
        destruct Hs as [Eh Er]. apply dec_print_inj in Eh. subst. auto. }
    destruct Hsplit as [-> Er]. f_equal. apply IH; auto.
Qed.

(* ---- one option: token followed by ',' ------------------------------------------------------------------------ *)
Definition opt_tok (o : nopt) : str :=
  match o with
  | NOLit c => [118; 61] ++ hex_print c
  | NOPat t => [116; 61] ++ dec_print t
  | NOFn f args => f ++ [40] ++ concat (map arg_str args) ++ [41]
  end.

Lemma enc_opt_str o : snd (enc_opt o) = opt_tok o ++ [44].
Proof.
  destruct o as [c|t|f args]; cbn; try reflexivity.
  unfold arg_str. rewrite map_map. rewrite <- !app_assoc. cbn. rewrite <- !app_assoc. reflexivity.
Qed.

Lemma hexc_not k : hexc k = false -> forall l, forallb hexc l = true -> ~ In k l.
Proof. intros; eapply not_in_class; eauto. Qed.

Lemma args_no k l : hexc k = false -> k <> 118 -> k <> 116 -> k <> 61 -> forallb arg_ok l = true -> ~ In k (concat (map arg_str l)).
Proof.
  intros Hk H1 H2 H3. induction l as [|a l IH]; cbn; [auto|]. rewrite andb_true_iff. intros [Ha Hl] Hin.
  apply in_app_or in Hin. destruct Hin as [Hin|Hin]; [|apply IH; auto].
  destruct (arg_str_shape a Ha) as (h & body & E & Hh & Hb). rewrite E in Hin.
  destruct Hin as [<-|[<-|Hin]]; [destruct Hh; congruence | congruence | eapply hexc_not; eauto].
Qed.

Lemma opt_tok_no k o : opt_ok o = true -> (k = 44 \/ k = 125) -> ~ In k (opt_tok o).
Proof.
  intros Ho Hk.
  assert (Hh : hexc k = false) by (destruct Hk as [-> | ->]; reflexivity).
  assert (N1 : k <> 118 /\ k <> 116 /\ k <> 61 /\ k <> 40 /\ k <> 41) by (destruct Hk as [-> | ->]; repeat split; discriminate).
  destruct N1 as (N1 & N2 & N3 & N4 & N5).
  destruct o as [c|t|f args]; cbn in *.
  - intros [E|[E|Hin]]; [congruence | congruence |]. eapply hexc_not; eauto. apply hex_print_hexc, wf_bytesb_spec, Ho.
  - intros [E|[E|Hin]]; [congruence | congruence |]. eapply hexc_not; eauto. apply dec_print_hexc.
  - apply andb_true_iff in Ho. destruct Ho as [Hf Ha]. destruct (fid_ok_spec f Hf) as (r & _ & F40 & F44 & F125).
    intros Hin. apply in_app_or in Hin. destruct Hin as [Hin|Hin]; [destruct Hk as [-> | ->]; contradiction|].
    destruct Hin as [E|Hin]; [congruence|]. apply in_app_or in Hin. destruct Hin as [Hin|[E|[]]]; [|congruence].
    eapply args_no; eauto.
Qed.

Lemma opt_tok_inj o1 o2 : opt_ok o1 = true -> opt_ok o2 = true -> opt_tok o1 = opt_tok o2 -> fst (enc_opt o1) = fst (enc_opt o2).
Proof.
  intros H1 H2 E. destruct o1 as [c1|t1|f1 a1], o2 as [c2|t2|f2 a2]; cbn in *; try discriminate.
  - inversion E as [Eh]. apply hex_print_inj in Eh; [subst; reflexivity | apply wf_bytesb_spec, H1 | apply wf_bytesb_spec, H2].
  - apply andb_true_iff in H2. destruct H2 as [Hf _]. destruct (fid_ok_spec f2 Hf) as (r & -> & _). discriminate.
  - inversion E as [Eh]. apply dec_print_inj in Eh. subst. reflexivity.
  - apply andb_true_iff in H2. destruct H2 as [Hf _]. destruct (fid_ok_spec f2 Hf) as (r & -> & _). discriminate.
  - apply andb_true_iff in H1. destruct H1 as [Hf _]. destruct (fid_ok_spec f1 Hf) as (r & -> & _). discriminate.
  - apply andb_true_iff in H1. destruct H1 as [Hf _]. destruct (fid_ok_spec f1 Hf) as (r & -> & _). discriminate.
  - apply andb_true_iff in H1, H2. destruct H1 as [Hf1 Ha1], H2 as [Hf2 Ha2].
    destruct (fid_ok_spec f1 Hf1) as (_ & _ & F1 & _), (fid_ok_spec f2 Hf2) as (_ & _ & F2 & _).
    destruct (split_first 40 f1 f2 _ _ F1 F2 E) as [-> Er].
    apply app_inv_tail in Er. apply args_inj in Er; auto. unfold arg_str in *. rewrite !map_map. cbn. congruence.
Qed.

(* ---- a list of options ------------------------------------------------------------------------------------------- *)
Lemma opts_inj : forall l1 l2, forallb opt_ok l1 = true -> forallb opt_ok l2 = true ->
  concat (map (fun o => snd (enc_opt o)) l1) = concat (map (fun o => snd (enc_opt o)) l2) ->
  map (fun o => fst (enc_opt o)) l1 = map (fun o => fst (enc_opt o)) l2.
Proof.
  induction l1 as [|o1 l1 IH]; intros [|o2 l2] H1 H2 E; cbn in *.
  - reflexivity.
  - rewrite enc_opt_str in E. destruct (opt_tok o2); discriminate.
  - rewrite enc_opt_str in E. destruct (opt_tok o1); discriminate.
  - apply andb_true_iff in H1, H2. destruct H1 as [Ho1 Hl1], H2 as [Ho2 Hl2].
    rewrite !enc_opt_str, <- !app_assoc in E. cbn [app] in E.
    destruct (split_first 44 _ _ _ _ (opt_tok_no 44 o1 Ho1 (or_introl eq_refl)) (opt_tok_no 44 o2 Ho2 (or_introl eq_refl)) E) as [Et Er].
    rewrite (opt_tok_inj _ _ Ho1 Ho2 Et). f_equal. apply IH; auto.
Qed.

Lemma opts_no_close l : forallb opt_ok l = true -> ~ In 125 (concat (map (fun o => snd (enc_opt o)) l)).
Proof.
  induction l as [|o l IH]; cbn; [auto|]. rewrite andb_true_iff. intros [Ho Hl] Hin.
  apply in_app_or in Hin. destruct Hin as [Hin|Hin]; [|apply IH; auto].
  rewrite enc_opt_str in Hin. apply in_app_or in Hin. destruct Hin as [Hin|[E|[]]]; [|discriminate].
  eapply opt_tok_no; eauto.
Qed.

(* ---- a list of constraints: "{" options "}" ... --------------------------------------------------------------- *)
Lemma enc_cons_str c : snd (enc_cons c) = 123 :: concat (map (fun o => snd (enc_opt o)) (nc_opts c)) ++ [125].
Proof. unfold enc_cons. cbn. rewrite map_map. reflexivity. Qed.
Lemma enc_cons_fst c : fst (enc_cons c) = map (fun o => fst (enc_opt o)) (nc_opts c).
Proof. unfold enc_cons. cbn. rewrite map_map. reflexivity. Qed.

Lemma cons_inj : forall l1 l2, forallb cons_ok l1 = true -> forallb cons_ok l2 = true ->
  concat (map (fun c => snd (enc_cons c)) l1) = concat (map (fun c => snd (enc_cons c)) l2) ->
  map (fun c => fst (enc_cons c)) l1 = map (fun c => fst (enc_cons c)) l2.
Proof.
  induction l1 as [|c1 l1 IH]; intros [|c2 l2] H1 H2 E; cbn [map concat forallb] in *.
  - reflexivity.
  - rewrite enc_cons_str in E. discriminate.
  - rewrite enc_cons_str in E. discriminate.
  - apply andb_true_iff in H1, H2. destruct H1 as [Hc1 Hl1], H2 as [Hc2 Hl2].
    rewrite !enc_cons_str in E. cbn [app] in E. inversion E as [E']. rewrite <- !app_assoc in E'. cbn [app] in E'.
    destruct (split_first 125 _ _ _ _ (opts_no_close _ Hc1) (opts_no_close _ Hc2) E') as [Eo Er].
    rewrite !enc_cons_fst, (opts_inj _ _ Hc1 Hc2 Eo). f_equal. apply IH; auto.
Qed.

(* ---- the key ------------------------------------------------------------------------------------------------------ *)
Lemma dec_z_no_colon z : ~ In 58 (dec_z z).
Proof.
  unfold dec_z. destruct (z <? 0)%Z.
  - intros [E|Hin]; [discriminate|]. revert Hin. apply (not_in_class is_digit); [reflexivity | apply dec_print_digits].
  - apply (not_in_class is_digit); [reflexivity | apply dec_print_digits].
Qed.

Lemma dec_z_inj_nonneg a b : (0 <= a)%Z -> (0 <= b)%Z -> dec_z a = dec_z b -> a = b.
Proof.
  unfold dec_z. intros Ha Hb. destruct (Z.ltb_spec a 0), (Z.ltb_spec b 0); try lia.
  intros E. apply dec_print_inj in E. lia.
Qed.

Lemma dec_z_nonneg_head a : (0 <= a)%Z -> exists h r, dec_z a = h :: r /\ is_digit h = true.
Proof.
  unfold dec_z. intros Ha. destruct (Z.ltb_spec a 0); [lia|].
  pose proof (dec_print_nonempty (Z.to_N a)) as Hne. pose proof (dec_print_digits (Z.to_N a)) as Hd.
  destruct (dec_print (Z.to_N a)) as [|h r]; [congruence|]. cbn in Hd. apply andb_true_iff in Hd. exists h, r. tauto.
Qed.

Lemma filter_cons_ok rc t : chain_keys_ok rc = true -> forallb cons_ok (filter (fun c => zmem t (nc_pat c)) (ch_cons rc)) = true.
Proof.
  unfold chain_keys_ok. intros H. apply forallb_forall. intros c Hc. apply filter_In in Hc. destruct Hc as [Hc _].
  rewrite forallb_forall in H. auto.
Qed.

Theorem keys_faithful_of chains : (forall rc, In rc chains -> chain_keys_ok rc = true) -> keys_faithful chains.
Proof.
  intros Hok rc rc' t t' prev Hin Hin' E.
  pose proof (filter_cons_ok rc t (Hok _ Hin)) as Hc. pose proof (filter_cons_ok rc' t' (Hok _ Hin')) as Hc'.
  unfold pattern_movement in *.
  set (l := filter (fun c => zmem t (nc_pat c)) (ch_cons rc)) in *.
  set (l' := filter (fun c => zmem t' (nc_pat c)) (ch_cons rc')) in *.
  destruct ((0 <=? t)%Z && zmem t prev) eqn:Z1, ((0 <=? t')%Z && zmem t' prev) eqn:Z2; cbn [fst snd] in *.
  - (* both already seen: both named *)
    apply andb_true_iff in Z1, Z2. destruct Z1 as [P1 _], Z2 as [P2 _]. apply Z.leb_le in P1, P2.
    split; [reflexivity|]. intros _. apply app_inv_tail in E. apply dec_z_inj_nonneg; auto.
  - (* seen (named) / not seen *)
    exfalso. apply andb_true_iff in Z1. destruct Z1 as [P1 M1]. apply Z.leb_le in P1. rewrite map_map in E.
    destruct (Z.leb_spec 0 t') as [Hp'|Hn'].
    + assert (E2 : dec_z t ++ 58 :: [] = dec_z t' ++ 58 :: concat (map (fun c => snd (enc_cons c)) l')) by exact E.
      destruct (split_first 58 _ _ _ _ (dec_z_no_colon t) (dec_z_no_colon t') E2) as [Et Er].
      apply dec_z_inj_nonneg in Et; auto. subst t'.
      cbn [andb] in Z2. congruence.
    + assert (E2 : dec_z t ++ 58 :: [] = [ch_minus] ++ 58 :: concat (map (fun c => snd (enc_cons c)) l')) by exact E.
      assert (Hm : ~ In 58 [ch_minus]) by (intros [X|[]]; discriminate).
      destruct (split_first 58 _ _ _ _ (dec_z_no_colon t) Hm E2) as [Et Er].
      destruct (dec_z_nonneg_head t P1) as (h & r & Eh & Hd). rewrite Eh in Et. inversion Et; subst. discriminate.
  - (* not seen / seen (named) *)
    exfalso. apply andb_true_iff in Z2. destruct Z2 as [P2 M2]. apply Z.leb_le in P2. rewrite map_map in E.
    destruct (Z.leb_spec 0 t) as [Hp|Hn].
    + assert (E2 : dec_z t ++ 58 :: concat (map (fun c => snd (enc_cons c)) l) = dec_z t' ++ 58 :: []) by exact E.
      destruct (split_first 58 _ _ _ _ (dec_z_no_colon t) (dec_z_no_colon t') E2) as [Et Er].
      apply dec_z_inj_nonneg in Et; auto. subst t'.
      cbn [andb] in Z1. congruence.
    + assert (E2 : [ch_minus] ++ 58 :: concat (map (fun c => snd (enc_cons c)) l) = dec_z t' ++ 58 :: []) by exact E.
      assert (Hm : ~ In 58 [ch_minus]) by (intros [X|[]]; discriminate).
      destruct (split_first 58 _ _ _ _ Hm (dec_z_no_colon t') E2) as [Et Er].
      destruct (dec_z_nonneg_head t' P2) as (h & r & Eh & Hd). rewrite Eh in Et. inversion Et; subst. discriminate.
  - (* both emit their constraints *)
    rewrite !map_map in E. rewrite !map_map.
    set (P := if (0 <=? t)%Z then dec_z t else [ch_minus]) in *.
    set (P' := if (0 <=? t')%Z then dec_z t' else [ch_minus]) in *.
    assert (E2 : P ++ 58 :: concat (map (fun c => snd (enc_cons c)) l) = P' ++ 58 :: concat (map (fun c => snd (enc_cons c)) l')) by exact E.
    assert (NP : ~ In 58 P) by (unfold P; destruct (0 <=? t)%Z; [apply dec_z_no_colon | intros [X|[]]; discriminate]).
    assert (NP' : ~ In 58 P') by (unfold P'; destruct (0 <=? t')%Z; [apply dec_z_no_colon | intros [X|[]]; discriminate]).
    destruct (split_first 58 _ _ _ _ NP NP' E2) as [Ep Er].
    split; [apply cons_inj; auto|].
    intros Hpos. unfold P, P' in Ep.
    destruct (Z.leb_spec 0 t), (Z.leb_spec 0 t'); try lia.
    + apply dec_z_inj_nonneg; auto.
    + destruct (dec_z_nonneg_head t H) as (h & r & Eh & Hd). rewrite Eh in Ep. inversion Ep; subst. discriminate.
    + destruct (dec_z_nonneg_head t' H0) as (h & r & Eh & Hd). rewrite Eh in Ep. inversion Ep; subst. discriminate.
Qed.
