(* C03 — headline theorems, derived from the refinement (Proofs/ExpressRefine.v) and the safety facts
   (Proofs/ExpressSafety.v). *)
From NDN Require Import Base.Prelude Spec.ExpressSpec Model.ExpressPipeline Proofs.ExpressBasics Proofs.ExpressSafety
  Proofs.ExpressInv Proofs.ExpressRec Proofs.ExpressTurn Proofs.ExpressRefine.
Local Open Scope N_scope.

Lemma ginv_init fe : ginv fe init.
Proof.
  split; [split; [split; [constructor | split]|]|].
  - split; [constructor | split; [intros ? ? ? []| split; [constructor | intros ? ? ? []]]].
  - intros i r G. discriminate.
  - intros i r G. discriminate.
  - intros _. reflexivity.
Qed.

Lemma run_refines fe h :
  wf_history h ->
  ginv fe (run_hist fe h) /\ forall i, abs (run_hist fe h) i = spec_state fe h i.
Proof.
  intros WF. unfold run_hist, spec_state.
  destruct (refine_from fe (length h) h init [] (le_n _) (ginv_init fe)) as [G A]; auto.
Qed.

(* the refinement: after any well-formed history the operational state of every Interest is the state of its
   specification automaton *)
Theorem refinement fe h i : wf_history h -> abs (run_hist fe h) i = spec_state fe h i.
Proof. intros WF. apply (run_refines fe h WF). Qed.

Lemma completion_abs s i :
  log_ok s -> completion s i = match abs s i with IDone o => Some o | _ => None end.
Proof.
  intros L. rewrite (completion_spec s i L). unfold abs. destruct (get_int s i) as [r|]; auto.
  unfold abs_rec. destruct (i_wait r); auto; destruct (i_val r); reflexivity.
Qed.

Theorem outcome_correct fe h i : wf_history h -> completion (run_hist fe h) i = outcome_of fe h i.
Proof.
  intros WF. rewrite (completion_abs _ i (log_ok_run fe h)), (refinement fe h i WF). reflexivity.
Qed.

(* nothing is left: the PIT holds exactly the Interests whose automaton is still Pending; every node is non-empty and
   there is one node per name *)
Lemma pending_iff fe sb t r : rec_ok fe sb t r -> (pendingb r = true <-> exists sp, abs_rec r = IPending sp).
Proof.
  unfold rec_ok, pendingb, abs_rec. destruct (i_wait r) eqn:W; intros [H V].
  - destruct H.
  - destruct H as [_ [_ [_ [_ [_ X]]]]]. destruct (i_val r); try tauto; split; eauto; try discriminate.
    intros [sp E]; discriminate.
  - split; [discriminate | intros [sp E]; discriminate].
  - split; [discriminate | intros [sp E]; discriminate].
Qed.

Theorem nothing_left fe h :
  wf_history h ->
  (forall i, In i (pit_entries (run_hist fe h)) <-> exists sp, spec_state fe h i = IPending sp) /\
  NoDup (map fst (pit (run_hist fe h))) /\
  NoDup (pit_entries (run_hist fe h)) /\
  (forall n, In n (map fst (pit (run_hist fe h))) <-> exists i sp, spec_state fe h i = IPending sp /\ s_name sp = n).
Proof.
  intros WF. destruct (run_refines fe h WF) as [[[[K [P M]] R] SH] A]. set (s := run_hist fe h) in *.
  assert (E1 : forall i, In i (pit_entries s) <-> exists sp, spec_state fe h i = IPending sp).
  { intros i. rewrite <- A. unfold abs. destruct (get_int s i) as [r|] eqn:G.
    - rewrite <- (pending_iff fe false (now s) r (R i r G)), <- (M i r G). symmetry. apply mem_In.
    - split; [|intros [sp E]; discriminate]. intros I. apply mem_In in I. destruct (mem_entries_has_rec s i P I). congruence. }
  destruct P as [PK [PNE [PND PE]]].
  split; [exact E1|]. split; [exact PK|]. split; [unfold pit_entries; rewrite pit_entries_flat; exact PND|].
  intros n. split.
  - intros I. apply in_map_iff in I. destruct I as [[pn [nid es]] [X I]]. cbn in X; subst pn.
    destruct es as [|e es]; [exfalso; eapply PNE; eauto|].
    assert (IF : In (n, nid, e) (pflat (pit s))) by (apply pflat_In; exists (e :: es); split; [exact I | left; reflexivity]).
    destruct (PE n nid e IF) as [r [G [Nm _]]].
    assert (IE : In (e_id e) (pit_entries s)).
    { unfold pit_entries. rewrite pit_entries_flat. apply in_map_iff. exists (n, nid, e); split; auto. }
    apply E1 in IE. destruct IE as [sp E]. exists (e_id e), sp. split; auto.
    rewrite <- A in E. unfold abs in E. rewrite G in E. unfold abs_rec in E.
    destruct (i_wait r); try discriminate; destruct (i_val r); inversion E as [E2]; exact Nm.
  - intros [i [sp [E Nm]]]. assert (IE : In i (pit_entries s)) by (apply E1; eauto).
    unfold pit_entries in IE. rewrite pit_entries_flat in IE. apply in_map_iff in IE. destruct IE as [[[pn nid] e] [X I]].
    unfold xid in X; cbn in X. destruct (PE pn nid e I) as [r [G [Nr _]]]. rewrite X in G.
    rewrite <- A in E. unfold abs in E. rewrite G in E. unfold abs_rec in E.
    assert (SN : s_name sp = i_name r).
    { destruct (i_wait r); try discriminate; destruct (i_val r); inversion E as [E2]; reflexivity. }
    apply pflat_In in I. destruct I as [es [I _]]. apply in_map_iff. exists (pn, (nid, es)); split; auto. cbn. congruence.
Qed.

(* one Data: exactly the pending Interests it matches move on (to validation / to the verdict of an immediate
   validator); every other Interest is left as the deadline alone leaves it *)
Theorem one_data_all_matching fe h m d n hs t i :
  wf_history (h ++ [(m, Data d n hs t)]) ->
  abs (run_hist fe (h ++ [(m, Data d n hs t)])) i =
  let st := expire fe (match m with NoTie => false | _ => true end) t (spec_state fe h i) in
  expire fe false t
    match st with
    | IPending r =>
        if matches r n hs && (t <? s_D r)
        then match s_vm r with VImm v => IDone (verdict_outcome fe d v) | VDef => IValidating r d end
        else st
    | _ => st
    end.
Proof.
  intros WF. rewrite (refinement fe _ i WF). unfold spec_state. rewrite fold_left_app. cbn [fold_left].
  unfold spec_step. cbn [fst snd ev_time]. cbv zeta.
  destruct (expire fe (match m with NoTie => false | _ => true end) t (fold_left (spec_step fe i) h INone)); reflexivity.
Qed.
