(* C20 — read_client_conf: data flow (which source wins), location resolution, keychain dispatch. *)
From NDN Require Import Base.Prelude Base.Text Model.ConfBase Model.ClientConf Spec.ClientConfSpec
  Proofs.ConfBaseLemmas.
From Coq Require Strings.String Strings.Ascii.
Import Coq.Strings.String.StringSyntax Coq.Strings.Ascii.AsciiSyntax.
Local Open Scope N_scope.

(* ---- candidate search = first existing ----------------------------------------------------------- *)
Lemma first_existing_find w paths :
  first_existing w paths = find (w_exists w) (map (expandvars (w_env w)) paths).
Proof.
  induction paths as [|p r IH]; cbn; [reflexivity|].
  destruct (w_exists w (expandvars (w_env w) p)); [reflexivity|exact IH].
Qed.

Definition expanded_candidates (w : world) : list str :=
  map (expandvars (w_env w)) (client_conf_paths (the_platform w)).

Theorem get_path_first_existing w :
  get_path w = match find (w_exists w) (expanded_candidates w) with Some p => p | None => [] end.
Proof. unfold get_path. rewrite first_existing_find. reflexivity. Qed.

(* ---- store locations -------------------------------------------------------------------------------- *)
Definition item_paths (P : platform) (it : item) : list str :=
  match it with Pib => default_pib_paths P | Tpm => default_tpm_paths P end.
Definition cfg_of (path : str) : option str := if nonempty path then Some path else None.
Definition expanded_defaults (w : world) (it : item) : list str :=
  map (expandvars (w_env w)) (item_paths (the_platform w) it).

Theorem resolve_location_spec w path it value :
  exists out,
    resolve_location w path it value = Ok (fst (split_setting value) ++ ch_colon :: out) /\
    location_ok (w_exists w) (cfg_of path) (expanded_defaults w it) (snd (split_setting value)) out = true.
Proof.
  unfold resolve_location, split_setting, location_ok, spec_location, expanded_defaults, cfg_of.
  replace (match it with Pib => default_pib_paths (the_platform w) | Tpm => default_tpm_paths (the_platform w) end)
    with (item_paths (the_platform w) it) by (destruct it; reflexivity).
  rewrite first_existing_find.
  destruct (partition_on ch_colon value) as [a [b|]]; cbn [fst snd].
  - eexists. split; [reflexivity|].
    destruct (nonempty b) eqn:Hb; cbn [negb orb andb].
    + destruct (w_exists w b) eqn:Eb; cbn [negb].
      * apply str_eqb_refl.
      * assert (Hrel : (match (if nonempty path then Some path else None) with
                        | Some c => path_join (path_dirname c) b | None => b end) = path_join (path_dirname path) b).
        { destruct path; [cbn; rewrite path_join_nil; reflexivity|reflexivity]. }
        rewrite Hrel.
        assert (Hne : nonempty (path_join (path_dirname path) b) = true).
        { unfold path_join. destruct (starts_with [ch_slash] b); [exact Hb|].
          destruct (negb (nonempty (path_dirname path)) || ends_with_char ch_slash (path_dirname path)).
          - destruct (path_dirname path); [exact Hb|reflexivity].
          - destruct (path_dirname path); reflexivity. }
        rewrite Hne. cbn [negb orb].
        destruct (w_exists w (path_join (path_dirname path) b)) eqn:Er; cbn [negb].
        -- apply str_eqb_refl.
        -- destruct (find (w_exists w) (map (expandvars (w_env w)) (item_paths (the_platform w) it))); [apply str_eqb_refl|reflexivity].
    + rewrite Hb. cbn [negb orb].
      destruct (find (w_exists w) (map (expandvars (w_env w)) (item_paths (the_platform w) it))); [apply str_eqb_refl|reflexivity].
  - eexists. split; [reflexivity|]. cbn [nonempty negb orb andb].
    destruct (find (w_exists w) (map (expandvars (w_env w)) (item_paths (the_platform w) it))); [apply str_eqb_refl|reflexivity].
Qed.

(* the three clauses of the location rule, read off Spec.location_ok *)
Lemma location_as_given ex cfg dflts loc out :
  location_ok ex cfg dflts loc out = true -> nonempty loc = true -> ex loc = true -> out = loc.
Proof.
  unfold location_ok, spec_location. intros H Hn He. rewrite Hn, He in H. cbn in H. apply str_eqb_eq. exact H.
Qed.

Lemma location_relative ex c dflts loc out :
  location_ok ex (Some c) dflts loc out = true -> nonempty loc = true -> ex loc = false ->
  ex (path_join (path_dirname c) loc) = true -> out = path_join (path_dirname c) loc.
Proof.
  unfold location_ok, spec_location. intros H Hn He Hr. rewrite Hn, He, Hr in H. cbn in H. apply str_eqb_eq. exact H.
Qed.

Lemma location_default ex cfg dflts loc out p :
  location_ok ex cfg dflts loc out = true ->
  (nonempty loc = false \/
   (ex loc = false /\ match cfg with Some c => ex (path_join (path_dirname c) loc) = false | None => True end)) ->
  find ex dflts = Some p -> out = p.
Proof.
  unfold location_ok, spec_location. intros H Hc Hf. rewrite Hf in H.
  destruct Hc as [Hn|[He Hr]].
  - rewrite Hn in H. cbn in H. apply str_eqb_eq. exact H.
  - rewrite He in H. rewrite andb_false_r in H.
    destruct cfg as [c|].
    + rewrite Hr in H. rewrite andb_false_r in H. apply str_eqb_eq. exact H.
    + rewrite He in H. rewrite andb_false_r in H. apply str_eqb_eq. exact H.
Qed.

(* ---- read_client_conf: which source wins ---------------------------------------------------------------- *)
Definition file_of (w : world) : res (list (str * str)) :=
  if nonempty (get_path w)
  then do text <- read_file w (get_path w) ;; ini_read (slit "[DEFAULT]" ++ ch_nl :: text)
  else Ok [].

Lemma overlay_spec e f d : overlay e (overlay f d) = spec_value e f d.
Proof. destruct e, f; reflexivity. Qed.

Definition raw_setting (w : world) (file : list (str * str)) (key dflt : str) : str :=
  spec_value (env_get (w_env w) (env_name key)) (ini_get file key) dflt.

Theorem read_client_conf_flow w :
  read_client_conf w =
  do file <- file_of w ;;
  do p <- resolve_location w (get_path w) Pib (raw_setting w file key_pib (default_pib_scheme (the_platform w))) ;;
  do m <- resolve_location w (get_path w) Tpm (raw_setting w file key_tpm (default_tpm_scheme (the_platform w))) ;;
  Ok (mk_conf (raw_setting w file key_transport (default_transport (the_platform w))) p m).
Proof.
  unfold read_client_conf, file_of, raw_setting. cbv zeta.
  destruct (nonempty (get_path w)).
  - destruct (read_file w (get_path w)) as [text|e]; [|reflexivity]. cbn [bind].
    destruct (ini_read _) as [d|e]; [|reflexivity]. cbn [bind].
    rewrite !overlay_spec. reflexivity.
  - cbn [bind]. rewrite !overlay_spec. reflexivity.
Qed.

Definition setting_ok (w : world) (it : item) (raw out : str) : Prop :=
  exists o, out = fst (split_setting raw) ++ ch_colon :: o /\
            location_ok (w_exists w) (cfg_of (get_path w)) (expanded_defaults w it) (snd (split_setting raw)) o = true.

Theorem read_client_conf_sources w file :
  file_of w = Ok file ->
  exists c, read_client_conf w = Ok c /\
    c_transport c = raw_setting w file key_transport (default_transport (the_platform w)) /\
    setting_ok w Pib (raw_setting w file key_pib (default_pib_scheme (the_platform w))) (c_pib c) /\
    setting_ok w Tpm (raw_setting w file key_tpm (default_tpm_scheme (the_platform w))) (c_tpm c).
Proof.
  intros Hf. rewrite read_client_conf_flow, Hf. cbn [bind].
  destruct (resolve_location_spec w (get_path w) Pib (raw_setting w file key_pib (default_pib_scheme (the_platform w))))
    as (op & Ep & Lp).
  destruct (resolve_location_spec w (get_path w) Tpm (raw_setting w file key_tpm (default_tpm_scheme (the_platform w))))
    as (om & Em & Lm).
  rewrite Ep, Em. cbn [bind]. eexists. split; [reflexivity|]. cbn [c_transport c_pib c_tpm].
  split; [reflexivity|]. split; [exists op|exists om]; split; auto.
Qed.

Theorem read_client_conf_ok_inv w c :
  read_client_conf w = Ok c -> exists file, file_of w = Ok file.
Proof.
  rewrite read_client_conf_flow. destruct (file_of w) as [f|e]; [eexists; reflexivity|discriminate].
Qed.

Theorem read_client_conf_file_error w e :
  file_of w = Err e -> read_client_conf w = Err e.
Proof. intros H. rewrite read_client_conf_flow, H. reflexivity. Qed.

(* an environment override wins whatever the file says, provided the file can be read at all *)
Theorem env_wins_transport w c v :
  read_client_conf w = Ok c -> env_get (w_env w) (env_name key_transport) = Some v -> c_transport c = v.
Proof.
  intros H He. destruct (read_client_conf_ok_inv w c H) as (file & Hf).
  destruct (read_client_conf_sources w file Hf) as (c' & E & Ht & _). rewrite H in E. inversion E; subst c'.
  rewrite Ht. unfold raw_setting. rewrite He. reflexivity.
Qed.

Theorem env_wins_store w c it v :
  read_client_conf w = Ok c ->
  env_get (w_env w) (env_name (match it with Pib => key_pib | Tpm => key_tpm end)) = Some v ->
  setting_ok w it v (match it with Pib => c_pib c | Tpm => c_tpm c end).
Proof.
  intros H He. destruct (read_client_conf_ok_inv w c H) as (file & Hf).
  destruct (read_client_conf_sources w file Hf) as (c' & E & _ & Hp & Hm). rewrite H in E. inversion E; subst c'.
  destruct it; unfold raw_setting in *; rewrite He in *; cbn [spec_value] in *; assumption.
Qed.

(* no configuration file at all *)
Lemma file_of_nofile w : get_path w = [] -> file_of w = Ok [].
Proof. unfold file_of. intros ->. reflexivity. Qed.

(* ---- default_keychain dispatch -------------------------------------------------------------------------- *)
Theorem default_keychain_known pib_loc tpm_loc :
  default_keychain (slit "pib-sqlite3" ++ ch_colon :: pib_loc) (slit "tpm-file" ++ ch_colon :: tpm_loc)
  = Ok (path_join pib_loc (slit "pib.db"), tpm_loc).
Proof.
  unfold default_keychain.
  rewrite (partition_on_app ch_colon (slit "pib-sqlite3") pib_loc) by reflexivity.
  rewrite (partition_on_app ch_colon (slit "tpm-file") tpm_loc) by reflexivity.
  reflexivity.
Qed.

Theorem default_keychain_unknown pib tpm r :
  default_keychain pib tpm = Ok r ->
  fst (split_setting pib) = slit "pib-sqlite3" /\ fst (split_setting tpm) = slit "tpm-file" /\
  r = (path_join (snd (split_setting pib)) (slit "pib.db"), snd (split_setting tpm)).
Proof.
  unfold default_keychain, split_setting.
  destruct (partition_on ch_colon pib) as [ps [pl|]]; [|discriminate].
  destruct (partition_on ch_colon tpm) as [ts [tl|]]; [|discriminate].
  destruct (str_eqb ts (slit "tpm-file")) eqn:Et.
  - destruct (str_eqb ps (slit "pib-sqlite3")) eqn:Ep; [|discriminate].
    intros H. inversion H. apply str_eqb_eq in Et, Ep. cbn [fst snd]. auto.
  - destruct (str_eqb ts (slit "tpm-osxkeychain") || str_eqb ts (slit "tpm-cng")); discriminate.
Qed.
