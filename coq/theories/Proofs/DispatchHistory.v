(* History-level consequences for C04: a detached handler receives nothing; representation
   independence of attach/detach (corollary of the C09 normalisation theorem). *)
From NDN Require Import Base.Prelude Base.Text Model.TlvVar Model.Name Model.Trie Model.Dispatch Spec.DispatchSpec
  Proofs.TrieProofs Proofs.DispatchProofs Proofs.NameUri Proofs.NameUriName Proofs.NameNormalize.
Local Open Scope N_scope.

(* handler h is attached nowhere and no invocation of it is queued *)
Definition h_free (s : st) (h : N) : Prop :=
  (forall p, attached (s_fib s) p <> Some h) /\ Forall (fun c => c_h c <> h) (s_pending s).
Definition no_attach_of (h : N) (o : op) : Prop :=
  match o with OAttach _ (Some h') _ _ => h' <> h | _ => True end.

Lemma dispatch_attached t n h : all_cb t -> dispatch t n = Some h -> exists p, attached t p = Some h.
Proof. intros A H. apply dispatch_lpm in H; [|exact A]. destruct H as (p & G & _). eauto. Qed.

Lemma step_silent fe s o h :
  all_cb (s_fib s) -> wf_op o -> no_attach_of h o -> h_free s h ->
  h_free (fst (step fe s o)) h /\
  exists new, s_calls (fst (step fe s o)) = s_calls s ++ new /\ Forall (fun c => c_h c <> h) new.
Proof.
  intros A W NA [Fa Fp].
  destruct o as [k h' v ex|k|n life now| |i now running|]; cbn [step].
  - destruct h' as [h'|]; [|destruct W]. cbn in NA.
    pose proof (fib_attach_spec fe (s_fib s) k (Some h') v ex) as S.
    destruct (attached (s_fib s) k) eqn:E.
    + destruct S as (t' & -> & G). cbn. split; [|exists []; rewrite app_nil_r; auto].
      split; [|exact Fp]. intros p. cbn. rewrite (attached_ext _ _ G). apply Fa.
    + destruct S as (t' & -> & (nd & Gk & Gc) & G). cbn. split; [|exists []; rewrite app_nil_r; auto].
      split; [|exact Fp]. intros p. cbn. destruct (name_dec p k) as [->|N].
      * unfold attached. rewrite Gk, Gc. congruence.
      * unfold attached. rewrite G by exact N. apply Fa.
  - pose proof (fib_detach_spec (s_fib s) k A) as S. destruct (attached (s_fib s) k) eqn:E.
    + destruct S as (t' & -> & Gk & G). cbn. split; [|exists []; rewrite app_nil_r; auto].
      split; [|exact Fp]. intros p. cbn. destruct (name_dec p k) as [->|N].
      * unfold attached. rewrite Gk. discriminate.
      * unfold attached. rewrite G by exact N. apply Fa.
    + rewrite S. cbn. split; [split; assumption|exists []; rewrite app_nil_r; auto].
  - assert (D : forall h0, dispatch (s_fib s) n = Some h0 -> h0 <> h).
    { intros h0 H. destruct (dispatch_attached _ _ _ A H) as (p & G). intros ->. exact (Fa p G). }
    unfold dispatch in D. destruct fe.
    + destruct (fib_lookup (s_fib s) n) as [|p|p h0]; cbn;
        (split; [|exists []; rewrite app_nil_r; auto]); try (split; assumption).
      split; [exact Fa|]. cbn. apply Forall_app. split; [exact Fp|]. constructor; [|constructor]. cbn. apply D. reflexivity.
    + destruct (fib_lookup (s_fib s) n) as [|p|p h0]; cbn;
        (split; [|exists []; rewrite app_nil_r; auto]); try (split; assumption).
      split; [exact Fa|]. cbn. apply Forall_app. split; [exact Fp|]. constructor; [|constructor]. cbn. apply D. reflexivity.
    + unfold fib_lookup in D. destruct (t_longest_prefix (s_fib s) n) as [[p nd]|]; cbn.
      2:{ split; [split; assumption|exists []; rewrite app_nil_r; auto]. }
      destruct (pn_cb nd) as [h0|]; cbn.
      2:{ split; [split; assumption|exists []; rewrite app_nil_r; auto]. }
      split; [split; assumption|]. eexists. split; [reflexivity|]. constructor; [|constructor]. cbn. apply D. reflexivity.
  - cbn. split; [split; [exact Fa|constructor]|]. exists (s_pending s). split; [reflexivity|exact Fp].
  - destruct fe; cbn; try (split; [split; assumption|exists []; rewrite app_nil_r; auto]).
    destruct (nth_error (s_calls s) i); cbn; (split; [split; assumption|exists []; rewrite app_nil_r; auto]).
  - destruct fe; cbn; try (split; [split; assumption|exists []; rewrite app_nil_r; auto]).
    split; [|exists []; rewrite app_nil_r; auto]. split; [|exact Fp]. intros p. cbn. destruct p; discriminate.
Qed.

(* while h is attached nowhere, nothing queued for it, and nobody attaches it again: it is never invoked *)
Theorem exec_silent fe ops s h :
  all_cb (s_fib s) -> Forall wf_op ops -> Forall (no_attach_of h) ops -> h_free s h ->
  exists new, s_calls (exec fe s ops) = s_calls s ++ new /\ Forall (fun c => c_h c <> h) new.
Proof.
  revert s. induction ops as [|o ops IH]; intros s A W NA F.
  - exists []. rewrite app_nil_r. auto.
  - inversion W; subst. inversion NA; subst. cbn [exec fold_left].
    destruct (step_silent fe s o h A H1 H3 F) as (F1 & n1 & E1 & N1).
    destruct (IH (fst (step fe s o)) (step_all_cb fe s o H1 A) H2 H4 F1) as (n2 & E2 & N2).
    exists (n1 ++ n2). split; [|apply Forall_app; auto].
    unfold exec in E2 |- *. rewrite E2, E1, app_assoc. reflexivity.
Qed.

(* the statement of the property: detach p, where h was attached only at p and no invocation of h
   is still queued; from then on h receives nothing until somebody attaches it again *)
Theorem detached_receives_nothing fe s p h ops :
  all_cb (s_fib s) ->
  attached (s_fib s) p = Some h -> (forall q, attached (s_fib s) q = Some h -> q = p) ->
  Forall (fun c => c_h c <> h) (s_pending s) ->
  Forall wf_op ops -> Forall (no_attach_of h) ops ->
  exists new, s_calls (exec fe s (ODetach p :: ops)) = s_calls s ++ new /\ Forall (fun c => c_h c <> h) new.
Proof.
  intros A Hp Hu Fp W NA. cbn [exec fold_left].
  pose proof (step_all_cb fe s (ODetach p) I A) as A1.
  assert (F1 : h_free (fst (step fe s (ODetach p))) h /\ s_calls (fst (step fe s (ODetach p))) = s_calls s).
  { cbn [step]. pose proof (fib_detach_spec (s_fib s) p A) as S. rewrite Hp in S.
    destruct S as (t' & -> & Gk & G). cbn. split; [|reflexivity]. split; [|exact Fp].
    intros q. cbn. destruct (name_dec q p) as [->|N].
    - unfold attached. rewrite Gk. discriminate.
    - unfold attached. rewrite G by exact N. intros H. apply N. apply Hu. exact H. }
  destruct F1 as [F1 E1].
  destruct (exec_silent fe ops _ h A1 W NA F1) as (new & E & Fn).
  exists new. split; [|exact Fn]. unfold exec in E. rewrite E, E1. reflexivity.
Qed.

(* ---- representation independence (corollary of C09's normalize_agree) ---------------------------- *)
Theorem attach_repr_independent fe t n h v ex :
  Forall uri_comp n -> N.of_nat (name_value_length n) < two64 ->
  fib_attach_ns fe t (NSWire (name_encode n)) h v ex = fib_attach fe t n h v ex /\
  fib_attach_ns fe t (NSList (map NCBytes n)) h v ex = fib_attach fe t n h v ex /\
  (forall u, name_to_canonical_uri n = Ok u -> fib_attach_ns fe t (NSStr u) h v ex = fib_attach fe t n h v ex) /\
  (forall ss, canon_strs n = Ok ss -> fib_attach_ns fe t (NSList (map NCStr ss)) h v ex = fib_attach fe t n h v ex).
Proof.
  intros H L. destruct (normalize_agree n H L) as (A & B & C & D). unfold fib_attach_ns. repeat split.
  - rewrite A. reflexivity.
  - rewrite B. reflexivity.
  - intros u E. rewrite E in C. cbn [bind] in C. rewrite C. reflexivity.
  - intros ss E. rewrite E in D. cbn [bind] in D. rewrite D. reflexivity.
Qed.

Theorem detach_repr_independent t n :
  Forall uri_comp n -> N.of_nat (name_value_length n) < two64 ->
  fib_detach_ns t (NSWire (name_encode n)) = fib_detach t n /\
  fib_detach_ns t (NSList (map NCBytes n)) = fib_detach t n /\
  (forall u, name_to_canonical_uri n = Ok u -> fib_detach_ns t (NSStr u) = fib_detach t n) /\
  (forall ss, canon_strs n = Ok ss -> fib_detach_ns t (NSList (map NCStr ss)) = fib_detach t n).
Proof.
  intros H L. destruct (normalize_agree n H L) as (A & B & C & D). unfold fib_detach_ns. repeat split.
  - rewrite A. reflexivity.
  - rewrite B. reflexivity.
  - intros u E. rewrite E in C. cbn [bind] in C. rewrite C. reflexivity.
  - intros ss E. rewrite E in D. cbn [bind] in D. rewrite D. reflexivity.
Qed.
