(* C07: the library's decoders versus a strict reading of the format. *)
From NDN Require Import Base.Prelude Base.Utf8 Model.TlvVar Model.Name Model.Tlv Model.Packet Spec.StrictTlv
  Proofs.BytesLemmas Proofs.TlvVarProofs Proofs.TlvSplit Proofs.TlvRoundtrip.
Local Open Scope N_scope.

Arguments N.of_nat : simpl never.
Arguments N.to_nat : simpl never.
Arguments N.min : simpl never.

(* ---- whatever the strict reader accepts, the library accepts with the same fields ------------------ *)
Definition exact (e : elem) : Prop := e_dlen e = N.of_nat (length (e_payload e)).

Lemma strict_elements_lenient : forall fuel w els,
  strict_elements fuel w = Some els -> elements fuel w = Ok els /\ Forall exact els.
Proof.
  induction fuel as [|fuel IH]; intros w els H.
  - destruct w; [|discriminate]. inversion H; subst. split; [reflexivity|constructor].
  - destruct w as [|b w']; [inversion H; subst; split; [reflexivity|constructor]|].
    cbn [strict_elements elements] in *. set (w := b :: w') in *.
    destruct (tl_dec w) as [[t st]|]; [|discriminate]. cbn [bind].
    destruct (tl_dec (skipn st w)) as [[l sl]|]; [|discriminate]. cbn [bind].
    set (body := skipn (st + sl) w) in *.
    destruct (N.of_nat (length body) <? l) eqn:E; [discriminate|].
    destruct (strict_elements fuel (skipn (N.to_nat l) body)) as [r|] eqn:Er; [|discriminate].
    inversion H; subst els. clear H.
    replace (N.to_nat (N.min l (N.of_nat (length body)))) with (N.to_nat l) by lia.
    destruct (IH _ _ Er) as [E1 E2]. rewrite E1. cbn [bind]. split; [reflexivity|].
    constructor; [|exact E2]. unfold exact. cbn [e_dlen e_payload]. rewrite firstn_length. lia.
Qed.

Lemma assign_mono_in pv pv' fs ic :
  forall els, (forall k e v, In e els -> pv k e = Ok v -> pv' k e = Ok v) ->
  forall st pos acc r, assign_with pv fs ic st pos els acc = Ok r -> assign_with pv' fs ic st pos els acc = Ok r.
Proof.
  induction els as [|e els IH]; intros Hle st pos acc r H; [exact H|].
  assert (Hle' : forall k e0 v, In e0 els -> pv k e0 = Ok v -> pv' k e0 = Ok v)
    by (intros k e0 v Hin; apply Hle; right; exact Hin).
  assert (Hle0 : forall k v, pv k e = Ok v -> pv' k e = Ok v) by (intros k v; apply Hle; left; reflexivity).
  cbn [assign_with] in *. destruct st as [|i key vt vk].
  - destruct (find_from fs 0 pos (e_type e)) as [[i k]|].
    + destruct k;
        try (destruct (pv _ e) as [x|] eqn:E; [|discriminate]; rewrite (Hle0 _ _ E); cbn [bind] in *; apply (IH Hle'); exact H).
    + destruct (N.odd (e_type e) && negb ic); [exact H|apply (IH Hle'); exact H].
  - destruct (e_type e =? vt).
    + destruct (pv vk e) as [x|] eqn:E; [|discriminate]. rewrite (Hle0 _ _ E). cbn [bind] in *. apply (IH Hle'). exact H.
    + destruct (N.odd (e_type e) && negb ic); [exact H|apply (IH Hle'); exact H].
Qed.

Lemma strict_val_le : forall d k e v, exact e -> strict_val d k e = Ok v -> parse_val d k e = Ok v.
Proof.
  induction d as [|d IH]; intros k e v Hex H; [discriminate|]. unfold exact in Hex.
  destruct k; cbn [strict_val parse_val] in *.
  - rewrite Hex. destruct ((N.of_nat (length (e_payload e)) =? 1) || _ || _ || _); [|exact H].
    rewrite N.eqb_refl. exact H.
  - exact H.
  - destruct is_string; cbn [andb negb] in *; [|exact H]. destruct (utf8_valid (e_payload e)); exact H.
  - destruct (negb (e_type e =? TYPE_NAME)); [exact H|]. rewrite Hex, N.ltb_irrefl. exact H.
  - unfold strict_split in H. destruct (strict_elements (S (length (e_payload e))) (e_payload e)) as [els|] eqn:Es; [|discriminate].
    destruct (strict_elements_lenient _ _ _ Es) as [E1 E2]. unfold split_wire. rewrite E1. cbn [bind] in *.
    destruct (assign_with (strict_val d) fs ignore_critical PNormal 0 els (blank fs)) as [vs|] eqn:Ea; [|discriminate].
    rewrite (assign_mono_in (strict_val d) (parse_val d) fs ignore_critical els) with (r := vs); [exact H| |exact Ea].
    intros k e0 v0 Hin. apply IH. rewrite Forall_forall in E2. apply E2. exact Hin.
  - exact H.
  - exact H.
Qed.

Theorem strict_model_sound d fs ic w vs :
  strict_model d fs ic w = Ok vs -> parse_model d fs ic w = Ok vs.
Proof.
  unfold strict_model, parse_model, strict_split, split_wire. intros H.
  destruct (strict_elements (S (length w)) w) as [els|] eqn:Es; [|discriminate].
  destruct (strict_elements_lenient _ _ _ Es) as [E1 E2]. rewrite E1. cbn [bind].
  apply (assign_mono_in (strict_val d) (parse_val d) fs ic els); [|exact H].
  intros k e v Hin. apply strict_val_le. rewrite Forall_forall in E2. apply E2. exact Hin.
Qed.

Lemma gen_decode_sound outer fs ic w vs :
  gen_decode strict_model outer fs ic w = Ok vs -> gen_decode parse_model outer fs ic w = Ok vs.
Proof.
  unfold gen_decode. destruct (parse_and_check_tl w outer); [|discriminate]. cbn [bind]. apply strict_model_sound.
Qed.

Theorem strict_interest_sound w vs : strict_interest w = Ok vs -> dec_interest w = Ok vs.
Proof.
  unfold strict_interest, dec_interest, require_name.
  destruct (gen_decode strict_model _ _ _ w) as [x|] eqn:E; [|discriminate]. rewrite (gen_decode_sound _ _ _ _ _ E). exact (fun H => H).
Qed.
Theorem strict_data_sound w vs : strict_data w = Ok vs -> dec_data w = Ok vs.
Proof.
  unfold strict_data, dec_data, require_name.
  destruct (gen_decode strict_model _ _ _ w) as [x|] eqn:E; [|discriminate]. rewrite (gen_decode_sound _ _ _ _ _ E). exact (fun H => H).
Qed.
Theorem strict_cert_sound w vs : strict_cert w = Ok vs -> dec_cert w = Ok vs.
Proof.
  unfold strict_cert, dec_cert, require_name.
  destruct (gen_decode strict_model _ _ _ w) as [x|] eqn:E; [|discriminate]. rewrite (gen_decode_sound _ _ _ _ _ E). exact (fun H => H).
Qed.
Theorem strict_lp_sound w vs : strict_lp w = Ok vs -> dec_lp w = Ok vs.
Proof.
  unfold strict_lp, dec_lp, no_fragmentation.
  destruct (gen_decode strict_model _ _ _ w) as [x|] eqn:E; [|discriminate]. rewrite (gen_decode_sound _ _ _ _ _ E). exact (fun H => H).
Qed.

(* ---- the converse: the library accepts => the strict reader accepts, provided no element overruns
        its parent; stated for one level (the scan of a model's own elements) -------------------------- *)
Lemma elements_exact_strict : forall fuel w els,
  elements fuel w = Ok els -> Forall exact els -> strict_elements fuel w = Some els.
Proof.
  induction fuel as [|fuel IH]; intros w els H Hex.
  - destruct w; [|discriminate]. inversion H; subst. reflexivity.
  - destruct w as [|b w']; [inversion H; subst; reflexivity|].
    cbn [strict_elements elements] in *. set (w := b :: w') in *.
    destruct (tl_dec w) as [[t st]|]; [|discriminate]. cbn [bind] in H.
    destruct (tl_dec (skipn st w)) as [[l sl]|]; [|discriminate]. cbn [bind] in H.
    set (body := skipn (st + sl) w) in *.
    destruct (elements fuel (skipn (N.to_nat (N.min l (N.of_nat (length body)))) body)) as [r|] eqn:Er; [|discriminate].
    cbn [bind] in H. inversion H; subst els. clear H.
    inversion Hex as [|? ? He Hr]; subst. unfold exact in He. cbn [e_dlen e_payload] in He.
    rewrite firstn_length in He.
    replace (N.of_nat (length body) <? l) with false by lia.
    replace (N.to_nat (N.min l (N.of_nat (length body)))) with (N.to_nat l) in * by lia.
    rewrite (IH _ _ Er Hr). reflexivity.
Qed.

(* ---- the number of elements is linear in the input (no work amplification) ------------------------- *)
Lemma tl_dec_size_pos w v n : tl_dec w = Ok (v, n) -> (1 <= n)%nat.
Proof.
  destruct w as [|b r]; [discriminate|]. cbn [tl_dec].
  destruct (b <=? 252); [intros H; inversion H; lia|].
  destruct (b =? 253); [|destruct (b =? 254)];
    (destruct (unpack_be _ r); [|discriminate]); cbn [bind]; intros H; inversion H; lia.
Qed.

Lemma tl_dec_inv_len w v n : tl_dec w = Ok (v, n) -> (n <= length w)%nat.
Proof.
  destruct w as [|b r]; [discriminate|]. cbn [tl_dec length].
  destruct (b <=? 252); [intros H; inversion H; lia|].
  assert (U : forall k x, unpack_be k r = Ok x -> (k <= length r)%nat).
  { intros k x. unfold unpack_be. destruct (Nat.eqb (length (firstn k r)) k) eqn:E; [|discriminate].
    intros _. apply Nat.eqb_eq in E. rewrite firstn_length in E. lia. }
  destruct (b =? 253); [|destruct (b =? 254)];
    (destruct (unpack_be _ r) as [x|] eqn:Eu; [|discriminate]); apply U in Eu; cbn [bind]; intros H; inversion H; lia.
Qed.

Theorem elements_linear : forall fuel w els, elements fuel w = Ok els -> (2 * length els <= length w)%nat.
Proof.
  induction fuel as [|fuel IH]; intros w els H.
  - destruct w; [|discriminate]. inversion H; subst. cbn. lia.
  - destruct w as [|b w']; [inversion H; subst; cbn; lia|].
    cbn [elements] in H. set (w := b :: w') in *.
    destruct (tl_dec w) as [[t st]|] eqn:E1; [|discriminate]. cbn [bind] in H.
    destruct (tl_dec (skipn st w)) as [[l sl]|] eqn:E2; [|discriminate]. cbn [bind] in H.
    set (body := skipn (st + sl) w) in *.
    destruct (elements fuel (skipn (N.to_nat (N.min l (N.of_nat (length body)))) body)) as [r|] eqn:Er; [|discriminate].
    cbn [bind] in H. inversion H; subst els. clear H.
    apply IH in Er. rewrite skipn_length in Er. unfold body in Er. rewrite skipn_length in Er.
    pose proof (tl_dec_size_pos _ _ _ E1). pose proof (tl_dec_size_pos _ _ _ E2).
    assert (st + sl <= length w)%nat.
    { apply (tl_dec_inv_len) with (v := l) (w := skipn st w) in E2 as L2. rewrite skipn_length in L2.
      apply tl_dec_inv_len in E1 as L1. lia. }
    cbn [length]. lia.
Qed.
